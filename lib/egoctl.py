"""egoctl - projection helpers for the EgoControl (C10) and TestRunner (C13) specs.

Nothing in here decides anything: the functions only
  * pretty-print a case record emitted by TLC (spec/Ego/EgoControl_Gen.tla: CaseRec) as Ego source text,
  * split what the real `ego` printed back into the marker lines / end status the spec talks about,
  * drop the marker lines the spec declared unspecified (`mask`) from both sides before the equality test.
The expected lines, the end status, the mask and the classification features all come from TLC.

Case record (JSON, one per finished behaviour of EgoControl):
  toks   ["try","err","catch","end","call2","fn","dr"]       the program as tokens (identity of the case)
  fns    [[stmt,...],...]   stmt = {k,id,a,b,f,hc}             AST, function 1 is the entry
         k: err err1 panic ret brk cnt brkO cntO call dm df dr try loop; a: try/loop body; b: catch body; f: callee; hc: has catch
  out    ["F1","T1","C1","A1","END"]                           lines the program must print
  status ok | error | panic ;  pv  "p<id>" panic value ;  mask ["D4","R7"] ;  feat ["break-out-of-try"] ; solo bool

Marker lines printed by a rendered program:
  F<n>  entry of function n          T<id> start of a try body     C<id> start of a catch clause
  L<id> start of a loop pass         A<id> statement <id> (try, loop, call, err1) completed
  D<id> deferred call <id> ran       R<id>=<v> deferred recover() returned <v>      END the entry function returned to main
"""
import re

ITER = 2
MARK = re.compile(r"^(?:[FTCALD]\d+|R\d+=.*|END|ERR|PANIC=.*|== \d+)$")


def _stmts(blk, ind, p, glob, loops=(), used=None, shift=0):
    """loops: ids of the enclosing loops of this function (innermost last); used: ids of loops that need a label"""
    used = set() if used is None else used
    o = []
    t = "\t" * ind

    def pr(s):
        o.append('%sfmt.Printf("%s\\n")' % (t, s))
    for s in blk:
        k, i = s["k"], s["id"]
        if k == "try":
            o.append(t + "try {")
            o.append('%s\tfmt.Printf("T%d\\n")' % (t, i))
            o += _stmts(s["a"], ind + 1, p, glob, loops, used, shift)
            if s["hc"]:
                # both spellings of the catch clause are in use: with and without the error variable
                o.append(t + ("} catch (e%d) {" % i if i % 2 else "} catch {"))
                if i % 2:
                    o.append("%s\t_ = e%d" % (t, i))
                o.append('%s\tfmt.Printf("C%d\\n")' % (t, i))
                o += _stmts(s["b"], ind + 1, p, glob, loops, used, shift)
            o.append(t + "}")
            pr("A%d" % i)
        elif k == "loop":
            body = _stmts(s["a"], ind + 1, p, glob, loops + (i,), used, shift)
            form = (i + shift) % 3
            if form == 0:
                o.append("%sn%d := 0" % (t, i))
            if i in used:
                o.append("%slab%d:" % (t, i))
            # the three loop forms of the language take turns (same meaning: ITER passes)
            if form == 1:
                o.append("%sfor i%d := 0; i%d < %d; i%d++ {" % (t, i, i, ITER, i))
            elif form == 2:
                o.append("%sfor _, v%d := range []int{%s} {" % (t, i, ", ".join(str(x) for x in range(ITER))))
                o.append("%s\t_ = v%d" % (t, i))
            else:
                o.append("%sfor n%d < %d {" % (t, i, ITER))
                o.append("%s\tn%d = n%d + 1" % (t, i, i))
            o.append('%s\tfmt.Printf("L%d\\n")' % (t, i))
            o += body
            o.append(t + "}")
            pr("A%d" % i)
        elif k == "call":
            o.append("%s%sf%d()" % (t, p, s["f"]))
            pr("A%d" % i)
        elif k == "dm":
            o.append("%snote(%d)" % (t + "defer ", i))
        elif k == "df":
            o.append('%sdefer func() {\n%s\tfmt.Printf("D%d\\n")\n%s}()' % (t, t, i, t))
        elif k == "dr":
            o.append('%sdefer func() {\n%s\tr := recover()\n%s\tfmt.Printf("R%d=%%v\\n", r)\n%s}()' % (t, t, t, i, t))
        elif k == "err":
            o.append("%sz%d := 0\n%sz%d = 1 / z%d" % (t, i, t, i, i))
        elif k == "err1":
            g = "%sx%d" % (p, i)
            glob.append("var %s int" % g)
            o.append("%sif %s == 0 {\n%s\t%s = 1\n%s\tboom()\n%s}" % (t, g, t, g, t, t))
            pr("A%d" % i)
        elif k == "panic":
            o.append('%spanic("p%d")' % (t, i))
        elif k == "ret":
            o.append(t + "return")
        elif k == "brk":
            o.append(t + "break")
        elif k == "cnt":
            o.append(t + "continue")
        elif k in ("brkO", "cntO"):
            used.add(loops[-2])
            o.append("%s%s lab%d" % (t, "break" if k == "brkO" else "continue", loops[-2]))
        else:
            raise ValueError("unknown statement kind %r" % k)
    return o


def render(cases, wrapped=True, lang="ego", shift=0):
    """One Ego source file running the given cases one after the other (lang="go": the same text as a Go program, for
    the cases that are legal Go -- no try/catch, no runtime error -- used to cross-check the specification itself).
    wrapped: main calls each case through a function that reports how the entry function ended:
    END (returned), ERR (a runtime error left it: caught by the wrapper's try), PANIC=<v> (a panic left it: stopped by
    the wrapper's deferred recover) -- so a case cannot end the process and many cases share one.
    not wrapped (one case): main calls the entry function directly; an error / panic that leaves it ends the process.
    shift: which of the three loop forms a loop statement is written in is (id + shift + position in the file) mod 3, so
    that different seeds and files combine the forms differently (the forms mean the same: ITER passes)."""
    glob, body, main = [], [], []
    for n, c in enumerate(cases):
        p = "c%d" % n
        for fi, blk in enumerate(c["fns"]):
            body.append("func %sf%d() {" % (p, fi + 1))
            body.append('\tfmt.Printf("F%d\\n")' % (fi + 1))
            body += _stmts(blk, 1, p, glob, shift=shift + n)
            body.append("}\n")
        main.append('\tfmt.Printf("== %d\\n")' % n)
        if wrapped:
            body += ["func %srun() {" % p,
                     "\tdefer func() {", "\t\tr := recover()", "\t\tif r != nil {",
                     '\t\t\tfmt.Printf("PANIC=%v\\n", r)', "\t\t}", "\t}()"]
            if lang == "go":
                body += ["\t%sf1()" % p, '\tfmt.Printf("END\\n")', "}\n"]
            else:
                body += ["\ttry {", "\t\t%sf1()" % p, '\t\tfmt.Printf("END\\n")',
                         "\t} catch {", '\t\tfmt.Printf("ERR\\n")', "\t}", "}\n"]
            main.append("\t%srun()" % p)
        else:
            main.append("\t%sf1()" % p)
            main.append('\tfmt.Printf("END\\n")')
    src = ["package main", "@extensions true" if lang == "ego" else "", 'import "fmt"', ""]
    src += glob + [""]
    if lang == "ego":
        src += ["func boom() {", "\tz := 0", "\tz = 1 / z", "}", ""]
    src += ["func note(n int) {", '\tfmt.Printf("D%d\\n", n)', "}", ""]
    src += body
    src += ["func main() {"] + main + ["}", ""]
    return "\n".join(src)


def observe(rc, stdout, stderr, ncases):
    """Split what a run printed into per-case observations {out, status, pv}: the marker lines between two
    '== n' lines, and how the case ended (END / ERR / PANIC=v line of the wrapper, or the way the process ended)."""
    segs, cur, report = [], None, None
    for line in stdout.splitlines():
        if re.match(r"^== (\d+)$", line):
            cur = {"out": [], "status": "?", "pv": ""}
            segs.append(cur)
            continue
        if cur is None:
            cur = {"out": [], "status": "?", "pv": ""}
            segs.append(cur)
        if line.startswith("panic: ") and report is None:      # report of an unrecovered panic (ends the process)
            report = cur
            cur["pv"] = line[len("panic: "):]
            continue
        if report is not None and not MARK.match(line):
            continue                                           # its call-frame listing
        cur["out"].append(line)
    for i, s in enumerate(segs):
        last = i == len(segs) - 1
        o = s["out"]
        if o and o[-1] == "END" and (not last or rc == 0):
            s["status"] = "ok"
        elif o and o[-1] == "ERR" and (not last or rc == 0):
            s["status"] = "error"
            o.pop()
        elif o and o[-1].startswith("PANIC=") and (not last or rc == 0):
            s["status"], s["pv"] = "panic", o[-1][len("PANIC="):]
            o.pop()
        elif rc is None:
            s["status"] = "timeout"
        elif last and report is s and rc != 0:
            s["status"] = "panic"
        elif last and rc != 0 and "Error:" in stderr:
            s["status"] = "error"
        else:
            s["status"] = "unknown(rc=%s)" % rc
    while len(segs) < ncases:
        segs.append({"out": [], "status": "notrun", "pv": ""})
    return segs


def go_legal(case):
    """the case uses only what Go has too (defer, panic/recover, loops, labels, calls)"""
    return not any(t in ("try", "catch", "err", "err1") for t in case["toks"])


def masked(lines, mask):
    ms = set(mask or [])
    return [l for l in lines if l.split("=")[0] not in ms]


def agree(case, obs):
    """equality of the projected observation with TLC's expectation"""
    return (masked(case["out"], case["mask"]) == masked(obs["out"], case["mask"])
            and case["status"] == obs["status"]
            and (case["status"] != "panic" or case["pv"] == obs["pv"]))


def first_diff(case, obs):
    e, a = masked(case["out"], case["mask"]), masked(obs["out"], case["mask"])
    i = 0
    while i < len(e) and i < len(a) and e[i] == a[i]:
        i += 1
    return i, (e[i] if i < len(e) else "-"), (a[i] if i < len(a) else "-")


# ---------------------------------------------------------------------------------------------------------------
# C13: test files for `ego test` (spec/TestRunner).  A case is {file: [{k, v}...], report, passed, failed, status}.
# The table below is the source text of every (kind, variant) of spec/TestRunner/TestRunner.tla: Variants(k).
# $N is replaced by the block's unique name; nothing here says what a block's result is (TLC does: Want(k)).

_BOX = "\ttype box struct {\n\t\ta int\n\t}\n\tb := box{a: 1}\n"
_DIV = "\tz := 0\n\tz = 1 / z\n"
TEST_BODIES = {
    ("pass", "plain"): "{\n\tx := 1\n\t@assert x == 1\n}\n",
    ("pass", "caught"): "{\n\tn := 0\n\ttry {\n\t\tz := 0\n\t\tz = 1 / z\n\t} catch {\n\t\tn = 1\n\t}\n\t@assert n == 1\n}\n",
    ("pass", "recover"): "{\n\tn := 0\n\tf := func() {\n\t\tdefer func() {\n\t\t\tr := recover()\n\t\t\t_ = r\n\t\t\tn = 7\n\t\t}()\n"
                         "\t\tpanic(\"boom\")\n\t}\n\tf()\n\t@assert n == 7\n}\n",
    ("pass", "decl"): "{\n" + _BOX + "\t@assert b.a == 1\n}\n",
    ("pass", "output"): "{\n\tfmt.Println(\"output of $N\")\n\t@assert 1 == 1\n}\n",
    ("pass", "return"): "{\n\tx := 1\n\tif x == 1 {\n\t\treturn\n\t}\n\t@assert x == 2\n}\n",
    ("pass", "loopjump"): "{\n\tn := 0\n\tfor i := 0; i < 2; i++ {\n\t\ttry {\n\t\t\tn = n + 1\n\t\t\tbreak\n\t\t} catch {\n\t\t\tn = 100\n\t\t}\n\t}\n"
                          "\t@assert n == 1\n}\n",
    ("assert", "plain"): "{\n\ty := 2\n\t@assert y == 3\n}\n",
    ("assert", "decl"): "{\n" + _BOX + "\t@assert b.a == 2\n}\n",
    ("assert", "loop"): "{\n\tfor i := 0; i < 3; i++ {\n\t\t@assert i < 1\n\t}\n}\n",
    ("assert", "incatch"): "{\n\ttry {\n" + _DIV.replace("\t", "\t\t") + "\t} catch {\n\t\t@assert 1 == 2\n\t}\n}\n",
    ("assert", "infunc"): "{\n\tf := func(v int) {\n\t\tdefer fmt.Sprintf(\"%d\", v)\n\t\t@assert v == 2\n\t}\n\tf(1)\n}\n",
    ("rterr", "plain"): "{\n" + _DIV + "}\n",
    ("rterr", "infunc"): "{\n\tg := func(v int) int {\n\t\tdefer fmt.Sprintf(\"%d\", v)\n\t\treturn 1 / v\n\t}\n\th := func() int {\n\t\treturn g(0)\n\t}\n"
                         "\tk := h()\n\t@assert k == 0\n}\n",
    ("rterr", "incatch"): "{\n\ttry {\n" + _DIV.replace("\t", "\t\t") + "\t} catch {\n\t\tw := 0\n\t\tw = 1 / w\n\t}\n}\n",
    ("rterr", "afterjump"): "{\n\tfor i := 0; i < 2; i++ {\n\t\ttry {\n\t\t\tcontinue\n\t\t} catch {\n\t\t\ti = 5\n\t\t}\n\t}\n" + _DIV + "}\n",
    ("rterr", "output"): "{\n\tfmt.Println(\"output of $N\")\n" + _DIV + "}\n",
    ("rterr", "decl"): "{\n" + _BOX + "\tb.a = 0\n\tb.a = 1 / b.a\n}\n",
    ("cerr", "expr"): "{\n\tw :=\n\t@assert w == 1\n}\n",
    ("cerr", "paren"): "{\n\tw := (1 +\n\t@assert w == 1\n}\n",
    ("cerr", "openbrace"): "{\n\ty := 2\n\tif y == 2 {\n\t\ty = 3\n\t@assert y == 3\n}\n",
    ("cerr", "closebrace"): "{\n\ty := 2\n\t}\n\t@assert y == 2\n}\n",
    ("cerr", "decl"): "{\n" + _BOX + "\tb.a =\n\t@assert b.a == 1\n}\n",
    ("cerr", "unused"): "{\n\tq := 1\n}\n",
    ("fail", "plain"): "{\n\t@fail \"stop $N\"\n}\n",
    ("fail", "intry"): "{\n\ttry {\n\t\t@fail \"stop $N\"\n\t} catch {\n\t\tfmt.Println(\"caught\")\n\t}\n}\n",
}


def render_testfile(case, fid, first_line=1):
    """-> (text, blocks) where blocks = [{name, lo, hi}] (line range of each @test block in this file).
    The file starts with comment lines so that its first block begins at line `first_line`: line numbers in error
    messages then identify the block among all files handed to one `ego test` process."""
    lines = ["// %s" % fid] * (first_line - 1)
    blocks = []
    for i, t in enumerate(case["file"]):
        name = "%s.%d %s %s" % (fid, i + 1, t["k"], t["v"])
        lo = len(lines) + 1
        lines.append('@test "%s"' % name)
        lines += TEST_BODIES[(t["k"], t["v"])].replace("$N", name).rstrip("\n").split("\n")
        lines.append("")
        blocks.append({"name": name, "lo": lo, "hi": len(lines)})
    return "\n".join(lines) + "\n", blocks


_TLINE = re.compile(r"^TEST: (\S+ \S+ \S+)\s+\((PASS|FAIL|OUTPUT)\)")
_SUMM = re.compile(r"^TEST: Completed(?: a total of (\d+))? tests(?:, (\d+) failed)?")


def observe_tests(stdout, stderr, blocks):
    """What one `ego test` process reported: {"report": [(name, PASS|FAIL|ABORT)...] in order of first mention,
    "total": n, "failed": n, "unattributed": [lines]}.  A block counts as reported FAIL when its (FAIL) line appears or
    an error line names it / points into its line range (the tool prints only the error line for run-time failures)."""
    byname = {b["name"]: b for b in blocks}
    rep, seen, loose = [], set(), []
    total = failed = None

    def note(name, r):
        if name not in seen:
            seen.add(name)
            rep.append((name, r))

    def owner(line):
        for b in blocks:
            if b["name"] in line:
                return b["name"]
        m = re.search(r"\(line (\d+)", line)
        if m:
            n = int(m.group(1))
            for b in blocks:
                if b["lo"] <= n <= b["hi"]:
                    return b["name"]
        return None
    for line in stdout.splitlines():
        m = _TLINE.match(line)
        if m and m.group(1) in byname:
            if m.group(2) != "OUTPUT":
                note(m.group(1), m.group(2))
            continue
        m = _SUMM.match(line)
        if m:
            total, failed = int(m.group(1) or 0), int(m.group(2) or 0)
            continue
        if line.strip().startswith("Error:"):
            o = owner(line)
            if o:
                note(o, "FAIL")
            else:
                loose.append(line)
    for line in stderr.splitlines():
        if line.startswith("Error:") and "terminated with errors" not in line:
            o = owner(line)
            if o and "stop " + o in line:
                note(o, "ABORT")
            else:
                loose.append(line)
    return {"report": rep, "total": total, "failed": failed, "unattributed": loose}

"""A real `ego server` subprocess on loopback with a scratch profile, for server-level checks.

    srv = egosrv.Server(sd, ego_binary, users={"admin": ("secret", ["ego.root","ego.logon"]), ...})
    srv.start(); r = srv.req("GET", "/admin/users", auth=("admin","secret")); srv.stop()

Users are pre-written to the file user store in the legacy SHA-256 credential format the server documents
(ValidatePassword upgrades them to bcrypt at first successful login) — so no bcrypt implementation is needed here.
Everything lives under <sd>/srv-<n>/ (HOME, profile, users.json, sqlite files, log).
"""
import base64, hashlib, http.client, json, os, socket, subprocess, time, urllib.parse, uuid
import vf


def free_port():
    s = socket.socket()
    s.bind(("127.0.0.1", 0))
    p = s.getsockname()[1]
    s.close()
    return p


class Resp:
    def __init__(self, status, headers, body):
        self.status, self.headers, self.body = status, headers, body

    def json(self):
        try:
            return json.loads(self.body)
        except Exception:
            return None

    def __repr__(self):
        return "<Resp %s %r>" % (self.status, self.body[:200])


class Server:
    n = 0

    def __init__(self, sd, ego, users=None, settings=None, args=None, env=None, name=None, home=None, users_conn=None):
        Server.n += 1
        self.dir = os.path.join(sd, name or "srv-%d-%d" % (os.getpid(), Server.n))
        self.home = home or os.path.join(self.dir, "home")   # several nodes of one cluster share a profile (same token key)
        self.users_conn = users_conn                          # e.g. "sqlite3://<path>" for the database user store
        os.makedirs(self.dir, exist_ok=True)
        os.makedirs(self.home, exist_ok=True)
        os.chmod(self.home, 0o700)
        self.ego = ego
        self.port = free_port()
        self.base = "127.0.0.1:%d" % self.port
        self.users = users if users is not None else {"admin": ("secret", ["ego.root", "ego.logon"])}
        self.settings = settings or {}
        self.args = args or []
        self.env = dict(os.environ)
        self.env.update(HOME=self.home, EGO_PATH=vf.REPO, NO_COLOR="1")
        self.env.pop("EGO_PROFILE", None)
        if env:
            self.env.update(env)
        self.proc = None
        self.userfile = os.path.join(self.home, "users.json")
        self.logfile = os.path.join(self.dir, "server.log")

    def write_users(self):
        data = {}
        for name, (pw, perms) in self.users.items():
            cred = pw if pw.startswith(("$2", "{")) or len(pw) == 64 and all(c in "0123456789abcdef" for c in pw) \
                else hashlib.sha256(pw.encode()).hexdigest()
            data[name.lower()] = {"name": name.lower(), "id": str(uuid.uuid4()), "password": cred, "permissions": perms}
        with open(self.userfile, "w") as f:
            json.dump(data, f, indent=1)
        os.chmod(self.userfile, 0o600)

    def config(self, key, val):
        p = subprocess.run([self.ego, "config", "set", "%s=%s" % (key, val)], env=self.env, capture_output=True, text=True, timeout=30)
        if p.returncode != 0:
            raise vf.NoVerdict("ego config set %s failed: %s %s" % (key, p.stdout, p.stderr))

    def start(self, wait=None):
        wait = wait or (15 + 8 * os.getloadavg()[0] / (os.cpu_count() or 1))   # a saturated machine starts processes slowly
        if not self.users_conn and not os.path.exists(self.userfile):
            self.write_users()
        for k, v in self.settings.items():
            self.config(k, v)
        cmd = [self.ego, "server", "run", "-k", "-p", str(self.port), "--users", self.users_conn or self.userfile,
               "--log-file", self.logfile] + self.args
        self.out = open(os.path.join(self.dir, "stdout.txt"), "a")
        self.proc = subprocess.Popen(cmd, env=self.env, cwd=self.dir, stdout=self.out, stderr=subprocess.STDOUT)
        t0 = time.time()
        while time.time() - t0 < wait:
            if self.proc.poll() is not None:
                break
            try:
                r = self.req("GET", "/services/up", timeout=1)
                if r.status in (200, 204):
                    return self
            except Exception:
                time.sleep(0.1)
        self.stop()
        raise vf.NoVerdict("ego server did not start within %ss: " % wait + open(os.path.join(self.dir, "stdout.txt")).read()[-2000:])

    def stop(self):
        if self.proc and self.proc.poll() is None:
            self.proc.terminate()
            try:
                self.proc.wait(5)
            except subprocess.TimeoutExpired:
                self.proc.kill()
                self.proc.wait(5)
        if getattr(self, "out", None):
            self.out.close()

    def alive(self):
        return self.proc is not None and self.proc.poll() is None

    def req(self, method, path, body=None, auth=None, token=None, headers=None, timeout=30, raw=False):
        h = {"Accept": "application/json"}
        if isinstance(body, (dict, list)):
            body = json.dumps(body)
            h["Content-Type"] = "application/json"
        if auth:
            h["Authorization"] = "Basic " + base64.b64encode(("%s:%s" % auth).encode()).decode()
        if token:
            h["Authorization"] = "Bearer " + token
        if headers:
            h.update(headers)
        c = http.client.HTTPConnection("127.0.0.1", self.port, timeout=timeout)
        try:
            c.request(method, path, body=body.encode() if isinstance(body, str) else body, headers=h)
            r = c.getresponse()
            data = r.read()
            return Resp(r.status, dict(r.getheaders()), data if raw else data.decode("utf8", "replace"))
        finally:
            c.close()

    def logon(self, user, pw, timeout=240):
        r = self.req("POST", "/services/admin/logon", auth=(user, pw), timeout=timeout)
        j = r.json() or {}
        return j.get("token")

    def log_text(self):
        out = ""
        for f in os.listdir(self.dir):
            if f.startswith("server") and f.endswith(".log"):
                out += open(os.path.join(self.dir, f), errors="replace").read()
        return out

    def __enter__(self):
        return self.start()

    def __exit__(self, *a):
        self.stop()

"""A real multi-process ego cluster on loopback, observed and perturbed by driver-owned proxies (C29).

Each node is a real `ego server run --cluster <name>` process; all nodes share one profile (same token key, hence
the same cluster HMAC token) and one SQLite system database (users, DSNs, membership table).  After a node joined,
the driver rewrites its membership row to point at a proxy it owns (the deployment's "DNS"): every peer-to-peer
request -- flush notifications and health pings -- goes through the proxy, which records flush requests
(sender id, receiver, cache id, hop count), forwards or drops them, and can inject a captured request with a
modified hop count.  The event log is totally ordered by the single driver process (a lock), not by wall clock.
"""
import http.client, http.server, json, os, re, socketserver, sqlite3, threading, time
import vf, egosrv


class Cluster:
    def __init__(self, sd, ego, n, name="c1", cache_id=0):
        self.sd, self.ego, self.n, self.name = sd, ego, n, name
        self.dir = os.path.join(sd, "cluster-%d" % os.getpid())
        os.makedirs(self.dir, exist_ok=True)
        self.home = os.path.join(self.dir, "home")
        self.dbfile = os.path.join(self.dir, "system.db")
        self.nodes, self.proxies, self.ids = [], [], []
        self.lock = threading.Lock()
        self.events = []
        self.other = []          # flush messages for other cache classes (not part of the trace)
        self.drop = set()        # (to-index) whose next flush is dropped
        self.delay = {}          # to-index -> seconds the next flush to that node is held before it is forwarded
        self.cache_id = cache_id
        self.captured = None     # (headers, body) of a genuine flush request, for injection
        self.adminpw = None
        self.recording = False

    # ---- event log
    def log(self, **e):
        with self.lock:
            e["seq"] = len(self.events) + 1
            self.events.append(e)

    def name_of(self, node_id):
        return "n%d" % (self.ids.index(node_id) + 1) if node_id in self.ids else "?" + str(node_id)[:8]

    # ---- proxy
    def _make_proxy(self, idx):
        cl = self

        class H(http.server.BaseHTTPRequestHandler):
            protocol_version = "HTTP/1.1"

            def log_message(self, *a):
                pass

            def _fwd(self):
                ln = int(self.headers.get("Content-Length") or 0)
                body = self.rfile.read(ln) if ln else b""
                is_flush = self.command == "POST" and self.path.startswith("/services/cluster/flush")
                info = None
                if is_flush:
                    try:
                        info = json.loads(body)
                    except Exception:
                        info = {}
                    cid = info.get("cache_id", info.get("CacheID", info.get("cacheID", info.get("cache"))))
                    cname = cl.CLASS.get(cid, "c%s" % cid)
                    mine = True           # every cache class is traced
                    info["_mine"] = mine
                    if cid == cl.cache_id and cl.captured is None:
                        cl.captured = (dict(self.headers), body)
                    frm = cl.name_of(info.get("sender") or info.get("SenderID") or info.get("senderID") or info.get("sender_id"))
                    hops = info.get("hops", info.get("Hops", 0))
                    if mine and cl.recording:
                        cl.log(ev="Send", n=frm, to="n%d" % (idx + 1), c=cname, hops=hops)
                        with cl.lock:
                            dropit = idx in cl.drop
                            cl.drop.discard(idx)
                        if dropit:
                            cl.log(ev="Lose", n="n%d" % (idx + 1), to=frm, c=cname, hops=hops)
                            self.close_connection = True
                            try:
                                self.connection.shutdown(2)
                            except Exception:
                                pass
                            return
                        with cl.lock:
                            hold = cl.delay.pop(idx, 0)
                        if hold:
                            time.sleep(hold)
                    elif not mine:
                        with cl.lock:
                            cl.other.append({"from": frm, "to": "n%d" % (idx + 1), "body": info})
                c = http.client.HTTPConnection("127.0.0.1", cl.nodes[idx].port, timeout=20)
                try:
                    hdrs = {k: v for k, v in self.headers.items() if k.lower() not in ("host", "connection")}
                    c.request(self.command, self.path, body=body, headers=hdrs)
                    r = c.getresponse()
                    data = r.read()
                    status, rh = r.status, r.getheaders()
                except Exception as ex:
                    status, rh, data = 502, [], str(ex).encode()
                finally:
                    c.close()
                if is_flush and info.get("_mine") and cl.recording:
                    obs = "unk"
                    if cid == cl.cache_id:
                        obs = "yes" if cl.present(idx) else "no"
                    cl.log(ev="Deliver", n="n%d" % (idx + 1), to=frm, c=cname, hops=hops, status=status, obs=obs)
                self.send_response(status)
                for k, v in rh:
                    if k.lower() not in ("transfer-encoding", "connection", "content-length"):
                        self.send_header(k, v)
                self.send_header("Content-Length", str(len(data)))
                self.end_headers()
                self.wfile.write(data)

            do_GET = do_POST = do_PUT = do_DELETE = do_PATCH = _fwd

        class TS(socketserver.ThreadingMixIn, http.server.HTTPServer):
            daemon_threads = True
            allow_reuse_address = True

            def handle_error(self, request, client_address):   # dropped connections are part of the experiment
                pass

        srv = TS(("127.0.0.1", 0), H)
        threading.Thread(target=srv.serve_forever, daemon=True).start()
        return srv

    # ---- lifecycle
    def start(self):
        conn = "sqlite3://" + self.dbfile
        for i in range(self.n):
            s = egosrv.Server(self.sd, self.ego, home=self.home, users_conn=conn, args=["--cluster", self.name],
                              name=os.path.join(os.path.basename(self.dir), "n%d" % (i + 1)))
            s.start(wait=240)
            self.nodes.append(s)
            self.proxies.append(self._make_proxy(i))
            db = sqlite3.connect(self.dbfile, timeout=10)
            try:
                rows = db.execute("select node_id, port from cluster").fetchall()
                nid = [r[0] for r in rows if r[1] == s.port]
                if len(nid) != 1:
                    raise vf.NoVerdict("node %d did not register in the membership table: %r" % (i + 1, rows))
                self.ids.append(nid[0])
                db.execute("update cluster set host='127.0.0.1', port=? where node_id=?",
                           (self.proxies[i].server_address[1], nid[0]))
                db.commit()
            finally:
                db.close()
        lt = self.nodes[0].log_text()
        m = re.search(r'auth\.default\.password.*?"pass":"([^"]+)"', lt)
        if not m:
            raise vf.NoVerdict("default admin password not found in the first node's log")
        self.adminpw = m.group(1)
        return self

    def stop(self):
        for p in self.proxies:
            try:
                p.shutdown()
                p.server_close()
            except Exception:
                pass
        for s in self.nodes:
            s.stop()

    def __enter__(self):
        try:
            return self.start()
        except BaseException:
            self.stop()
            raise

    def __exit__(self, *a):
        self.stop()

    # ---- operations
    def admin(self, i, method, path, body=None):
        return self.nodes[i].req(method, path, body, auth=("admin", self.adminpw))

    COUNT_FIELD = {0: "dsnCount", 5: "schemaCount"}
    CLASS = {0: "dsn", 1: "auth", 2: "user", 3: "token", 4: "blacklist", 5: "schema"}

    def present(self, i):
        r = self.admin(i, "GET", "/admin/caches")
        j = r.json() or {}
        f = self.COUNT_FIELD[self.cache_id]
        if f not in j:
            raise vf.NoVerdict("cache status of node %d has no %s: %s" % (i + 1, f, r.body[:300]))
        return j[f] > 0

    def deactivate(self, i):
        db = sqlite3.connect(self.dbfile, timeout=10)
        try:
            db.execute("update cluster set state='removed' where node_id=?", (self.ids[i],))
            db.commit()
        finally:
            db.close()

    def inject(self, i, hops):
        """re-send a genuine captured flush request to node i with another hop count (an older build / relayed message)"""
        if not self.captured:
            raise vf.NoVerdict("no genuine flush request captured to derive an injection from")
        hdrs, body = self.captured
        j = json.loads(body)
        for k in list(j):
            if k.lower() == "hops":
                j[k] = hops
        if not any(k.lower() == "hops" for k in j):
            j["hops"] = hops
        h = {k: v for k, v in hdrs.items() if k.lower() in ("authorization", "content-type", "accept")}
        h.setdefault("Accept", "application/json")   # the route only admits requests that accept JSON
        c = http.client.HTTPConnection("127.0.0.1", self.nodes[i].port, timeout=20)
        try:
            c.request("POST", "/services/cluster/flush", body=json.dumps(j), headers=h)
            r = c.getresponse()
            r.read()
            st = r.status
        finally:
            c.close()
        return st

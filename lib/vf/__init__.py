"""verif framework library (python3 stdlib only).

Stages shared by every check:
  build   : generate the two git-ignored build products, build an overlay so the
            harness in /verif/harness is compiled *into* packages of /repo's
            current working tree without touching /repo
  tlc     : run TLC (model check / simulate / trace validation) in a scratch copy
            of /verif/spec/<dir>, parse statistics, JSON records, violations
  verdict : filter through known_findings.jsonl, write evidence, print lines
Exit codes: 0 held / 1 violation on the real code / 2 no verdict.
"""
import contextlib, hashlib, json, os, re, shutil, subprocess, sys, tempfile, time

VERIF = os.path.dirname(os.path.dirname(os.path.dirname(os.path.abspath(__file__))))
REPO = os.environ.get("VERIF_REPO", "/repo")
CACHE = os.environ.get("VERIF_CACHE", "/var/tmp/verif-cache")
GO = "go1.26"
SEED = int(os.environ.get("VERIF_SEED", "1") or "1")
TIER = os.environ.get("VERIF_TIER", "quick")
NCPU = os.cpu_count() or 4


class NoVerdict(Exception):
    """Raised for anything that must end in exit 2 (never a violation)."""


def goenv(extra=None):
    e = dict(os.environ)
    e.update(GOFLAGS="-mod=mod", GOPROXY="off", GOSUMDB="off", GOTOOLCHAIN="local")
    e.setdefault("GOCACHE", os.path.expanduser("~/.cache/go-build"))
    if extra:
        e.update(extra)
    return e


def log(*a):
    print("[verif]", *a, file=sys.stderr, flush=True)


@contextlib.contextmanager
def scratch(prefix="verif-"):
    os.makedirs("/var/tmp", exist_ok=True)
    d = tempfile.mkdtemp(prefix=prefix, dir="/var/tmp")
    try:
        yield d
    finally:
        if not os.environ.get("VERIF_KEEP"):
            shutil.rmtree(d, ignore_errors=True)
        else:
            log("kept scratch", d)


def _hash_tree(paths):
    h = hashlib.sha256()
    for root in paths:
        if os.path.isfile(root):
            files = [root]
        else:
            files = []
            for dp, dn, fn in os.walk(root):
                dn.sort()
                for f in sorted(fn):
                    files.append(os.path.join(dp, f))
        for f in files:
            h.update(os.path.relpath(f, root).encode())
            try:
                with open(f, "rb") as fh:
                    h.update(hashlib.sha256(fh.read()).digest())
            except OSError:
                pass
    return h.hexdigest()[:24]


def run(cmd, cwd=None, env=None, timeout=None, check=False, stdin=None):
    t0 = time.time()
    try:
        p = subprocess.run(cmd, cwd=cwd, env=env, timeout=timeout, input=stdin,
                           stdout=subprocess.PIPE, stderr=subprocess.PIPE, text=True, errors="replace")
    except subprocess.TimeoutExpired as ex:
        raise NoVerdict("timeout after %ss: %s" % (timeout, " ".join(map(str, cmd))[:200]))
    if check and p.returncode != 0:
        raise NoVerdict("command failed (%d): %s\n%s\n%s" % (p.returncode, " ".join(map(str, cmd))[:300],
                                                         p.stdout[-3000:], p.stderr[-3000:]))
    p.wall = time.time() - t0
    return p


def gen_files():
    """messages.go and lib.zip for /repo's *current* tree, cached by content hash
    (the cache is only an accelerator: a miss regenerates)."""
    os.makedirs(CACHE, exist_ok=True)
    out = {}
    hm = _hash_tree([REPO + "/internal/i18n/languages", REPO + "/tools/lang"])
    msg = os.path.join(CACHE, "messages-%s.go" % hm)
    if not os.path.exists(msg):
        tmp = msg + ".%d.tmp" % os.getpid()
        run([GO, "run", "../../tools/lang/", "-c", "-p", "languages", "-s", tmp],
            cwd=REPO + "/internal/i18n", env=goenv(), timeout=300, check=True)
        os.replace(tmp, msg)
    out["messages"] = msg
    hz = _hash_tree([REPO + "/lib", REPO + "/tools/zipgo"])
    zp = os.path.join(CACHE, "lib-%s.zip" % hz)
    if not os.path.exists(zp):
        tmp = zp + ".%d.tmp.zip" % os.getpid()
        run([GO, "run", "../../../tools/zipgo/", "../../../lib", "--output", tmp, "--digest",
             "--omit", "https-server.crt,https-server.key"],
            cwd=REPO + "/internal/cli/app", env=goenv(), timeout=300, check=True)
        os.replace(tmp, zp)
    out["libzip"] = zp
    # prune old cache entries (keep 6 newest of each)
    for pre in ("messages-", "lib-"):
        ents = sorted((f for f in os.listdir(CACHE) if f.startswith(pre) and ".tmp" not in f),
                      key=lambda f: os.path.getmtime(os.path.join(CACHE, f)))
        for f in ents[:-40]:
            with contextlib.suppress(OSError):
                os.remove(os.path.join(CACHE, f))
    return out


def make_overlay(sdir, harness=None, extra=None):
    """harness: list of (path under /verif/harness, destination path relative to /repo).
    A source ending in .tmpl has {{PKG}} substituted from a (src, dst, pkg) triple."""
    g = gen_files()
    # private copies: a concurrent run pruning the shared cache must not pull files from under this build
    priv = {}
    for k, name in (("messages", "gen_messages.go"), ("libzip", "gen_lib.zip")):
        priv[k] = os.path.join(sdir, name)
        if not os.path.exists(priv[k]):
            try:
                shutil.copy(g[k], priv[k])
            except OSError:
                g = gen_files()
                shutil.copy(g[k], priv[k])
    rep = {REPO + "/internal/i18n/messages.go": priv["messages"],
           REPO + "/internal/cli/app/lib.zip": priv["libzip"]}
    for ent in harness or []:
        src, dst = ent[0], ent[1]
        s = src if os.path.isabs(src) else os.path.join(VERIF, "harness", src)
        if len(ent) > 2:
            txt = open(s).read().replace("{{PKG}}", ent[2])
            s = os.path.join(sdir, "ov_" + hashlib.md5((dst).encode()).hexdigest()[:10] + "_" + os.path.basename(dst))
            open(s, "w").write(txt)
        rep[os.path.join(REPO, dst)] = s
    if extra:
        rep.update(extra)
    p = os.path.join(sdir, "overlay.json")
    json.dump({"Replace": rep}, open(p, "w"), indent=1)
    return p


def go_test(overlay, pkg, runpat, env=None, tags="verif", race=False, timeout=900, extra_args=None, cwd=None):
    cmd = [GO, "test", "-overlay", overlay, "-vet=off", "-count=1", "-run", runpat,
           "-timeout", "%ds" % timeout]
    if tags:
        cmd += ["-tags", tags]
    if race:
        cmd += ["-race"]
    cmd += [pkg]
    if extra_args:
        cmd += extra_args
    p = run(cmd, cwd=cwd or REPO, env=goenv(env), timeout=timeout + 120)
    return p


def go_build(overlay, pkg, out, tags="verif", race=False, timeout=900):
    cmd = [GO, "build", "-overlay", overlay, "-o", out]
    if tags:
        cmd += ["-tags", tags]
    if race:
        cmd += ["-race"]
    cmd += [pkg]
    run(cmd, cwd=REPO, env=goenv(), timeout=timeout, check=True)
    return out


def go_test_compile(overlay, pkg, out, tags="verif", race=False, timeout=900):
    cmd = [GO, "test", "-overlay", overlay, "-vet=off", "-c", "-o", out]
    if tags:
        cmd += ["-tags", tags]
    if race:
        cmd += ["-race"]
    cmd += [pkg]
    run(cmd, cwd=REPO, env=goenv(), timeout=timeout, check=True)
    return out


# ---------------------------------------------------------------- TLC

_STATS = re.compile(r"(\d+) states generated, (\d+) distinct states found, (\d+) states left on queue")


class TLCResult:
    def __init__(self):
        self.stdout = ""
        self.generated = 0
        self.distinct = 0
        self.records = []      # JSON records printed with PrintT(ToJson(..))
        self.violated = None   # name of violated invariant/property, if any
        self.error = None      # other TLC error text
        self.coverage = {}     # action -> count (when -coverage)
        self.wall = 0.0
        self.cmd = ""
        self.depth = 0


def _unquote_tla(line):
    # a TLA string printed by PrintT: "...." with \" and \\ escapes
    s = line[1:-1]
    return s.replace('\\"', '"').replace("\\\\", "\\")


def tlc(specdir, module, cfg, sdir, workers=None, simulate=None, depth=None, seed=None,
        timeout=600, coverage=False, extra=None, env=None, files=None, keep_stdout=True, heap=None, dfid=None):
    """Run TLC on a scratch copy of /verif/spec/<specdir>. files: extra {name: path|text} to place beside it."""
    src = os.path.join(VERIF, "spec", specdir)
    work = tempfile.mkdtemp(prefix="tlc-", dir=sdir)
    for f in os.listdir(src):
        if f.endswith((".tla", ".cfg")):
            shutil.copy(os.path.join(src, f), work)
    for name, val in (files or {}).items():
        dst = os.path.join(work, name)
        if os.path.exists(val) if isinstance(val, str) and "\n" not in val and len(val) < 4096 else False:
            shutil.copy(val, dst)
        else:
            open(dst, "w").write(val)
    meta = os.path.join(work, "meta")
    cmd = ["timeout", str(int(timeout)), "tlc", "-metadir", meta, "-config", cfg, "-noGenerateSpecTE"]
    w = workers or min(NCPU, 16)
    if w > 2:   # be a good neighbour when the machine is already saturated (results do not depend on the worker count)
        try:
            w = max(2, min(w, int(NCPU * 1.5 - os.getloadavg()[0])))
        except OSError:
            pass
    cmd += ["-workers", str(w)]
    if simulate:
        cmd += ["-simulate", simulate]
    if depth:
        cmd += ["-depth", str(depth)]
    if seed is not None:
        cmd += ["-seed", str(seed)]
    if coverage:
        cmd += ["-coverage", "1"]
    if dfid:
        cmd += ["-dfid", str(dfid)]
    if extra:
        cmd += extra
    cmd += [module]
    e = dict(os.environ)
    if env:
        e.update(env)
    t0 = time.time()
    p = subprocess.run(cmd, cwd=work, env=e, stdout=subprocess.PIPE, stderr=subprocess.STDOUT, text=True, errors="replace")
    r = TLCResult()
    r.wall = time.time() - t0
    r.cmd = " ".join(cmd[2:])
    r.rc = p.returncode
    out = p.stdout
    r.stdout = out if keep_stdout else out[-20000:]
    r.work = work
    if p.returncode == 124:
        raise NoVerdict("TLC timeout (%ss): %s %s" % (timeout, module, cfg))
    for line in out.splitlines():
        if line.startswith('"{') or line.startswith('"['):
            try:
                r.records.append(json.loads(_unquote_tla(line.rstrip())))
            except Exception as ex:
                raise NoVerdict("cannot parse TLC record: %r (%s)" % (line[:200], ex))
    m = None
    for m in _STATS.finditer(out):
        pass
    if m:
        r.generated, r.distinct = int(m.group(1)), int(m.group(2))
    m = re.search(r"The depth of the complete state graph search is (\d+)", out)
    if m:
        r.depth = int(m.group(1))
    m = re.search(r"Invariant (\S+) is violated", out)
    if m:
        r.violated = m.group(1)
    m2 = re.search(r"Action property (\S+) is violated|Temporal properties were violated|property (\S+) is violated", out)
    if m2 and not r.violated:
        r.violated = m2.group(1) or m2.group(2) or "temporal"
    if "Deadlock reached" in out and not r.violated:
        r.violated = "Deadlock"
    if re.search(r"^Error: ", out, re.M) and not r.violated:
        em = re.search(r"^Error: (.*(?:\n.*){0,12})", out, re.M)
        r.error = em.group(1) if em else "error"
    if p.returncode != 0 and not r.violated and not r.error:
        r.error = "tlc exited with status %d without a parsable result: %s" % (p.returncode, out[-800:])
    if coverage:
        for cm in re.finditer(r"^<(\w+) line \d+, col \d+ to line \d+, col \d+ of module (\w+)>: (\d+):(\d+)", out, re.M):
            r.coverage[cm.group(1)] = r.coverage.get(cm.group(1), 0) + int(cm.group(4))
    return r


def tlc_ok(r, what):
    """Model-level run expected to pass: anything else is exit 2."""
    if r.violated or r.error or r.rc not in (0,):
        raise NoVerdict("%s: TLC did not pass (rc=%s violated=%s error=%s)\n%s" %
                        (what, r.rc, r.violated, (r.error or "")[:400], r.stdout[-2500:]))
    return r


# ---------------------------------------------------------------- findings / evidence

def load_findings(prop):
    known, fixed = {}, []
    paths = [os.path.join(VERIF, "known_findings.jsonl")]
    d = os.path.join(VERIF, "known_findings.d")
    if os.path.isdir(d):
        paths += [os.path.join(d, f) for f in sorted(os.listdir(d)) if f.endswith(".jsonl")]
    for p in paths:
        if not os.path.exists(p):
            continue
        for line in open(p):
            line = line.strip()
            if not line or line.startswith("#"):
                continue
            if line.startswith("fixed:"):
                fixed.append(line)
                continue
            o = json.loads(line)
            if o.get("property") == prop and o.get("status", "known") == "known":
                known[o["key"]] = o
    return known, fixed


class Check:
    """Collects what a run covered, candidate violations (with abstract keys), and finishes."""

    def __init__(self, prop, level="model_checking"):
        self.prop = prop
        self.level = level
        self.t0 = time.time()
        self.cov = {"states": 0, "transitions": 0, "traces_validated_against_impl": 0, "samples": [],
                    "evaluations": 0, "distinct_nontrivial": 0, "rule": "", "exhaustive": False,
                    "tlc_runs": []}
        self.assumptions = []
        self.cands = []  # (key, what, replay-object)
        self.notes = []

    def add_tlc(self, r, name, count_states=True):
        self.cov["tlc_runs"].append({"name": name, "cmd": r.cmd, "generated": r.generated, "distinct": r.distinct,
                                     "depth": r.depth, "wall_s": round(r.wall, 2),
                                     **({"coverage": r.coverage} if r.coverage else {})})
        if count_states:
            self.cov["states"] += r.distinct
            self.cov["transitions"] += r.generated

    def sample(self, s, limit=5):
        if len(self.cov["samples"]) < limit:
            self.cov["samples"].append(s)

    def violation(self, key, what, replay):
        self.cands.append((key, what, replay))

    def finish(self):
        known, _fixed = load_findings(self.prop)
        # evidence is only ever written for runs against /repo itself; runs against a scratch worktree
        # (development, seeded changes) leave the committed evidence alone
        evdir = os.path.join(VERIF, "evidence") if os.path.realpath(REPO) == "/repo" else "/var/tmp/verif-alt-evidence"
        os.makedirs(evdir, exist_ok=True)
        os.makedirs(os.path.join(VERIF, "replays"), exist_ok=True)
        seen_known, new = {}, {}
        for key, what, replay in self.cands:
            if key in known:
                seen_known.setdefault(key, (what, replay))
            else:
                new.setdefault(key, (what, replay))
        for key, (what, _r) in sorted(seen_known.items()):
            print("KNOWN-FINDING: property=%s %s [%s]" % (self.prop, known[key].get("what", what), key), flush=True)
        rc = 0
        for key, (what, replay) in sorted(new.items()):
            fn = os.path.join(VERIF, "replays", "%s-%s-%s.json" % (self.prop, re.sub(r"[^A-Za-z0-9_.-]+", "_", key)[:70],
                                                                   hashlib.md5(key.encode()).hexdigest()[:6]))
            json.dump({"property": self.prop, "key": key, "what": what, "replay": replay}, open(fn, "w"), indent=1)
            print("VIOLATION property=%s replay=%s" % (self.prop, fn), flush=True)
            print("  key=%s: %s" % (key, what), flush=True)
            rc = 1
        ev = {"property_id": self.prop, "tier": TIER if TIER in ("quick", "thorough") else "quick", "seed": SEED,
              "level": self.level, "coverage": self.cov, "assumptions": self.assumptions,
              "wall_s": round(time.time() - self.t0, 2), "violations": len(new),
              "known_findings_observed": sorted(seen_known), "notes": self.notes}
        json.dump(ev, open(os.path.join(evdir, self.prop + ".json"), "w"), indent=1, default=str)
        return rc


def main(fn):
    """Wrap a check's run(): NoVerdict / unexpected exceptions are exit 2."""
    try:
        rc = fn()
    except NoVerdict as ex:
        print("NO-VERDICT: %s" % ex, file=sys.stderr, flush=True)
        sys.exit(2)
    except Exception:
        import traceback
        traceback.print_exc()
        print("NO-VERDICT: internal error", file=sys.stderr, flush=True)
        sys.exit(2)
    sys.exit(rc)


# ---------------------------------------------------------------- shared stages

KIT = ("common/verifkit.go.tmpl",)


def kit(pkgdir, pkgname):
    return ("common/verifkit.go.tmpl", pkgdir.rstrip("/") + "/zz_verifkit_test.go", pkgname)


def write_ndjson(path, recs):
    with open(path, "w") as f:
        for r in recs:
            f.write(json.dumps(r) + "\n")
    return path


def read_ndjson(path):
    return [json.loads(l) for l in open(path) if l.strip()]


def gen_behaviours(chk, specdir, module, cfg, sd, num, depth, seed=None, name="gen", dedupe=True, timeout=600):
    """TLC -simulate on a *_Gen spec whose invariant prints ToJson(h) at the depth bound."""
    r = tlc(specdir, module, cfg, sd, workers=1, simulate="num=%d" % num, depth=depth + 1,
            seed=SEED if seed is None else seed, timeout=timeout)
    if r.violated or r.error or r.rc != 0:
        raise NoVerdict("behaviour generation failed: %s %s\n%s" % (r.violated, r.error, r.stdout[-2000:]))
    recs = r.records
    if dedupe:
        seen, out = set(), []
        for b in recs:
            s = json.dumps(b, sort_keys=True)
            if s not in seen:
                seen.add(s)
                out.append(b)
        recs = out
    chk.add_tlc(r, name, count_states=False)
    if not recs:
        raise NoVerdict("generator produced no behaviours")
    return recs


def run_harness(sd, overlay, pkg, test, env, race=False, timeout=900, tags="verif", expect_out=None):
    p = go_test(overlay, pkg, "^%s$" % test, env=env, race=race, timeout=timeout, tags=tags)
    if expect_out and not os.path.exists(expect_out):
        raise NoVerdict("harness %s produced no result (rc=%d)\n%s\n%s" % (test, p.returncode, p.stdout[-3000:], p.stderr[-3000:]))
    return p


_GEN = re.compile(r"(?<![A-Za-z])([ckuvtrn])\d+(?![A-Za-z0-9])")


def gen_path(path):
    """abstract a state path: concrete ids (c1,k2,...) and indices become *"""
    return re.sub(r"\[\d+\]", "[*]", _GEN.sub(r"\1*", path))


def replay_violations(chk, res, prefix="replay"):
    """Turn harness mismatches into candidate violations keyed by action + abstract path."""
    for m in res.get("mismatches") or []:
        key = "%s/%s/%s" % (prefix, m["act"], gen_path(m["path"]))
        chk.violation(key, "real code differs from the specification at %s after %s: spec=%s real=%s"
                      % (m["path"], m["act"], m["want"], m["got"]), m)


def trace_validate(chk, specdir, module, cfg, sd, trace_path, name="trace", timeout=600, fname="trace.ndjson", extra_files=None):
    files = {fname: trace_path}
    files.update(extra_files or {})
    r = tlc(specdir, module, cfg, sd, workers=1, files=files, timeout=timeout)
    hw = re.search(r'<<"HIGHWATER", (\d+), (\d+)>>', r.stdout)
    r.highwater = (int(hw.group(1)), int(hw.group(2))) if hw else None
    r.accepted = (r.rc == 0 and not r.violated and not r.error and r.highwater and r.highwater[0] == r.highwater[1])
    if name:
        chk.add_tlc(r, name, count_states=False)
    return r


def trace_reject_info(r, trace_path):
    """Where a rejected trace stopped: the first event that no spec action explains (or the violated invariant)."""
    lines = open(trace_path).read().splitlines()
    info = {"violated": r.violated, "error": (r.error or "")[:600], "highwater": r.highwater}
    if r.highwater:
        i = r.highwater[0] - 1      # l is 1-based index of the next event to consume
        info["stuck_at_line"] = i + 1
        info["context"] = lines[max(0, i - 6): i + 1]
    return info


# ---------------------------------------------------------------- F binding (function I/O judged by a TLA+ contract)

def fio_validate(chk, specdir, module, cfg, sd, io_path, name="contract", timeout=900, fname="io.ndjson", extra_files=None):
    """Runs an X_Trace contract spec over a logged I/O file.  The spec must print, once, at its final state
       PrintT(ToJson([n |-> Len(Log), bad |-> {[idx |-> i, key |-> Key(Log[i])] : failing i}]))
    Returns (n, bad-list).  Anything else (TLC error, nothing printed) is NoVerdict."""
    files = {fname: io_path}
    files.update(extra_files or {})
    r = tlc(specdir, module, cfg, sd, workers=1, files=files, timeout=timeout)
    if r.error or r.violated or r.rc != 0:
        raise NoVerdict("contract evaluation failed: %s %s\n%s" % (r.violated, r.error, r.stdout[-2500:]))
    rep = [x for x in r.records if isinstance(x, dict) and "bad" in x and "n" in x]
    if not rep:
        raise NoVerdict("contract spec printed no report\n" + r.stdout[-1500:])
    rep = rep[-1]
    if name:
        chk.add_tlc(r, name, count_states=False)
    bad = rep["bad"] if isinstance(rep["bad"], list) else []
    return int(rep["n"]), bad


# ---------------------------------------------------------------- ego binary (interpreter-level checks)

def build_ego(sd, overlay, race=False, tags="verif"):
    out = os.path.join(sd, "ego-race" if race else "ego")
    if not os.path.exists(out):
        go_build(overlay, ".", out, tags=tags, race=race)
    return out


def ego_env(sd):
    home = os.path.join(sd, "home")
    os.makedirs(home, exist_ok=True)
    e = dict(os.environ)
    e.update(HOME=home, EGO_PATH=REPO, EGO_DEFAULT_LOGGING="", NO_COLOR="1")
    e.pop("EGO_PROFILE", None)
    return e


def run_many(jobs, nproc=None, timeout=20):
    """jobs: list of (argv, stdin-or-None, cwd-or-None, env).  Returns list of (rc, stdout, stderr) with rc=None on timeout."""
    from concurrent.futures import ThreadPoolExecutor

    def one(j):
        argv, stdin, cwd, env = j
        try:
            p = subprocess.run(argv, input=stdin, cwd=cwd, env=env, timeout=timeout,
                               stdout=subprocess.PIPE, stderr=subprocess.PIPE, text=True, errors="replace")
            return (p.returncode, p.stdout, p.stderr)
        except subprocess.TimeoutExpired as ex:
            return (None, (ex.stdout or b"").decode("utf8", "replace") if isinstance(ex.stdout, bytes) else (ex.stdout or ""), "timeout")
    with ThreadPoolExecutor(max_workers=nproc or NCPU) as ex:
        return list(ex.map(one, jobs))

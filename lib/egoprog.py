"""egoprog - helpers for interpreter-level checks (C03 and later C01/C02/C04/C12).

The TLA+ specifications (spec/Ego/EgoTypes*.tla) enumerate small programs ("cases") and compute what
the language reference permits as their outcome.  This module only

  * projects a case to Ego / Go source text           (snippet_arith, ego_program, go_program),
  * runs many such snippets on the real `ego` binary   (run_snippets_ego) or the local Go toolchain
    (run_snippets_go) so that a failure in one snippet cannot mask another, and
  * parses printed `value|type` pairs back to the canonical text the specification uses (parse_vt).

It contains no knowledge of what the right answer of an operation is.

Case record printed by EgoTypes_Arith (one JSON object per table cell, field `exp` per --types mode):
  {"key": "bin/+/v:int8/c:300", "form": "bin"|"neg"|"inc"|"cas"|"asg", "decl": "var"|"def", "op": "+",
   "l": OPD, "r": OPD, "exp": {"dynamic": {"wf": bool, "o": [OUT, ...]}, "relaxed": ..., "strict": ...}}
  OPD = {"c": is-untyped-constant, "k": kind, "cls": value class name ("none" = no operand),
         "lit": literal text, "slit": the same number as a signed 64-bit literal, "val": canonical value text}
  OUT = {"err": bool, "k": kind, "s": canonical value text}
Canonical value text: integers in decimal; floats as a count of quarters ("10" = 2.5); complex "re,im" (quarters).

Snippet protocol: a snippet is (sid, [source lines], guard).  Its lines print, with fmt.Printf, lines starting
with "@<sid> ".  By convention "@<sid> P v|T v|T" shows the operands before the statement under test and
"@<sid> R v|T" the result.  The program builders add "@<sid> ." when the snippet ran to its end and
"@<sid> E <text>" when a guarded snippet (try/catch in Ego, recover in Go) failed.
"""
import os, re, subprocess
from fractions import Fraction
import vf

TYPE_ALIAS = {"byte": "uint8", "rune": "int32"}
INT_KINDS = {"int8", "int16", "int32", "int64", "int", "uint8", "uint16", "uint32", "uint64", "uint"}
FLOAT_KINDS = {"float32", "float64"}
COMPLEX_KINDS = {"complex64", "complex128"}

_NUM = r"[+-]?(?:\d+\.?\d*|\.\d+)(?:[eE][+-]?\d+)?"
_CPX = re.compile(r"^\((?P<re>%s)(?P<im>[+-](?:\d+\.?\d*|\.\d+)(?:[eE][+-]?\d+)?)i\)$" % _NUM)


def canon_type(t):
    """Type names are compared through Ego's alias table (byte = uint8, rune = int32)."""
    return TYPE_ALIAS.get(t, t)


def _quarters(text):
    """printed float -> count of quarters as decimal text; anything that is not a whole number of quarters
    (or is -0, Inf, NaN) is returned as '?<text>' and can never equal a value computed by the specification"""
    if not re.match("^%s$" % _NUM, text) or re.match(r"^-0(\.0*)?$", text):
        return "?" + text
    q = Fraction(text) * 4
    return str(q.numerator) if q.denominator == 1 else "?" + text


def canon_value(text, kind):
    if kind in INT_KINDS:
        return text if re.match(r"^-?\d+$", text) else "?" + text
    if kind in FLOAT_KINDS:
        return _quarters(text)
    if kind in COMPLEX_KINDS:
        m = _CPX.match(text)
        if not m:
            return "?" + text
        a, b = _quarters(m.group("re")), _quarters(m.group("im"))
        return "?" + text if "?" in a + b else a + "," + b
    return "?" + text


def parse_vt(tok):
    """'v|T' as printed with %v|%T -> (kind, canonical value text)"""
    v, _, t = tok.rpartition("|")
    k = canon_type(t)
    return (k, canon_value(v, k))


# ------------------------------------------------------------------ projection of arithmetic cases to source text

def _decl(lang, name, o, style="var"):
    """a typed variable holding the operand's value ("var a T = T(v)", or "a := T(v)" for style "def").  Ego reads integer literals above MaxInt64 as floats, so such
    a value is written as the conversion of its two's complement literal (slit); Go takes the literal itself."""
    lit = o["slit"] if lang == "ego" else o["lit"]
    if style == "def":
        return "%s := %s(%s)" % (name, o["k"], lit)
    return "var %s %s = %s(%s)" % (name, o["k"], o["k"], lit)


def snippet_arith(lang, sid, case, guard=False):
    """source lines of one arithmetic case (forms bin, neg, inc, cas, asg of EgoTypes_Arith)"""
    l, r, form, op = case["l"], case["r"], case["form"], case["op"]
    lines, shown = [], []

    def operand(o, name):
        if o["cls"] == "none":
            return None
        if o["c"]:
            return o["lit"]
        lines.append(_decl(lang, name, o, case.get("decl", "var")))
        shown.append(name)
        return name
    a = operand(l, "a")
    b = operand(r, "b")
    if shown:
        lines.append('fmt.Printf("@%s P %s\\n", %s)' % (sid, " ".join(["%v|%T"] * len(shown)), ", ".join("%s, %s" % (n, n) for n in shown)))
    if form == "bin":
        lines.append("r := %s %s %s" % (a, op, b)); res = "r"
    elif form == "neg":
        lines.append("r := -%s" % a); res = "r"
    elif form == "inc":
        lines.append("%s%s%s" % (a, op, op)); res = a
    elif form == "cas":
        lines.append("%s %s= %s" % (a, op, b)); res = a
    elif form == "asg":
        lines.append("%s = %s %s %s" % (a, a, op, b)); res = a
    else:
        raise vf.NoVerdict("unknown case form %r" % form)
    lines.append('fmt.Printf("@%s R %%v|%%T\\n", %s, %s)' % (sid, res, res))
    return (sid, lines, guard)


def ego_program(snippets):
    out = ["package main", 'import "fmt"']
    for sid, lines, guard in snippets:
        out.append("func c%s() {" % sid)
        if guard:
            out.append("    try {")
            out += ["        " + x for x in lines]
            out.append('    } catch (e) {')
            out.append('        fmt.Printf("@%s E %%v\\n", e)' % sid)
            out.append("    }")
        else:
            out += ["    " + x for x in lines]
        out.append('    fmt.Printf("@%s .\\n")' % sid)
        out.append("}")
    out.append("func main() {")
    out += ["    c%s()" % sid for sid, _, _ in snippets]
    out.append("}")
    return "\n".join(out) + "\n"


def go_program(snippets):
    """returns (text, {line number: sid}) - every snippet is guarded by recover"""
    out = ["package main", 'import "fmt"',
           "func guard(sid string, f func()) {",
           '    defer func() { if e := recover(); e != nil { fmt.Printf("@%s E %v\\n", sid, e) }; fmt.Printf("@%s .\\n", sid) }()',
           "    f()", "}"]
    where = {}
    for sid, lines, _ in snippets:
        out.append("func c%s() {" % sid)
        for x in lines:
            out.append("    " + x)
            where[len(out)] = sid
        out.append("}")
    out.append("func main() {")
    out += ['    guard("%s", c%s)' % (sid, sid) for sid, _, _ in snippets]
    out.append("}")
    return "\n".join(out) + "\n", where


def parse_output(text):
    """{sid: {"P": [...tokens], "R": [...tokens], "E": text or None, "done": bool}}"""
    res = {}
    for line in text.splitlines():
        m = re.match(r"^@(\S+) (\S)(?: (.*))?$", line)
        if not m:
            continue
        d = res.setdefault(m.group(1), {"P": None, "R": None, "E": None, "done": False})
        tag, rest = m.group(2), (m.group(3) or "")
        if tag == ".":
            d["done"] = True
        elif tag == "E":
            d["E"] = rest
        elif tag in ("P", "R"):
            d[tag] = rest.split(" ")
    return res


def _obs(d, err):
    return {"P": d.get("P") if d else None, "R": d.get("R") if d else None, "err": err}


def error_text(stdout, stderr):
    m = re.search(r"^(Error:.*|panic:.*)$", (stdout or "") + "\n" + (stderr or ""), re.M)
    return m.group(1)[:300] if m else ((stderr or stdout or "").strip().splitlines() or ["(no message)"])[-1][:300]


# ------------------------------------------------------------------ running snippets on the real interpreter

def run_snippets_ego(ego, env, workdir, snippets, args, batch=40, timeout=300, stats=None, nproc=None):
    """Runs every snippet with `ego run <args> file`.  Unguarded snippets are batched; when a program aborts, the
    snippets it completed count, the first incomplete one is re-run ALONE (only an isolated run is taken as an
    error observation) and the rest are re-batched.  Guarded snippets report their own error ("E" line).
    Returns {sid: {"P": tokens|None, "R": tokens|None, "err": None | message}}.
    stats (dict) receives the number of processes and rounds."""
    os.makedirs(workdir, exist_ok=True)
    stats = stats if stats is not None else {}
    result, serial = {}, [0]
    pending = list(snippets)
    alone = []
    rnd, size = 0, batch
    while pending or alone:
        rnd += 1
        groups = [pending[i:i + size] for i in range(0, len(pending), size)] + [[s] for s in alone]
        pending, alone = [], []
        jobs = []
        for g in groups:
            serial[0] += 1
            fn = os.path.join(workdir, "p%06d.ego" % serial[0])
            with open(fn, "w") as f:
                f.write(ego_program(g))
            jobs.append(([ego, "run"] + list(args) + [fn], None, workdir, env))
        outs = vf.run_many(jobs, nproc=nproc, timeout=timeout)
        stats["processes"] = stats.get("processes", 0) + len(jobs)
        for g, (rc, so, se) in zip(groups, outs):
            parsed = parse_output(so)
            if rc is None and len(g) > 1:
                raise vf.NoVerdict("ego run timed out on a batch of %d snippets" % len(g))
            failed_at = None
            for i, (sid, _, guard) in enumerate(g):
                d = parsed.get(str(sid))
                if d and d["done"]:
                    result[sid] = _obs(d, d["E"])
                    continue
                failed_at = i
                break
            if failed_at is None:
                if rc != 0:
                    raise vf.NoVerdict("ego run exit %s although every snippet completed\n%s" % (rc, (so + se)[-1500:]))
                continue
            if rc == 0:
                raise vf.NoVerdict("ego run exit 0 but snippet %s did not complete\n%s" % (g[failed_at][0], so[-1500:]))
            if len(g) == 1:
                sid = g[0][0]
                result[sid] = _obs(parsed.get(str(sid)), "timeout" if rc is None else error_text(so, se))
            else:
                alone.append(g[failed_at])
                pending += g[failed_at + 1:]
        size = max(4, size // 2)
        if rnd > 400:
            raise vf.NoVerdict("run_snippets_ego does not converge")
    stats["rounds"] = max(stats.get("rounds", 0), rnd)
    return result


# ------------------------------------------------------------------ the same snippets on the Go toolchain (cross-check)

def run_snippets_go(workdir, snippets, timeout=900):
    """Compiles all snippets in one Go file.  Snippets the compiler rejects are reported {"err": "compile: ..."} and
    removed; the rest is run once (each call guarded by recover).  Returns {sid: obs} as run_snippets_ego."""
    os.makedirs(workdir, exist_ok=True)
    open(os.path.join(workdir, "go.mod"), "w").write("module crosscheck\n\ngo 1.23\n")
    result = {}
    live = list(snippets)
    exe = os.path.join(workdir, "prog")
    for attempt in range(4):
        text, where = go_program(live)
        open(os.path.join(workdir, "main.go"), "w").write(text)
        p = vf.run([vf.GO, "build", "-gcflags=-e", "-o", exe, "."], cwd=workdir, env=vf.goenv(), timeout=timeout)
        if p.returncode == 0:
            break
        bad = {}
        for m in re.finditer(r"^\./main\.go:(\d+):\d+: (.*)$", p.stdout + p.stderr, re.M):
            sid = where.get(int(m.group(1)))
            if sid is None:
                raise vf.NoVerdict("Go cross-check: compile error outside a snippet: " + m.group(0))
            bad.setdefault(sid, m.group(2))
        if not bad:
            raise vf.NoVerdict("Go cross-check: build failed\n" + (p.stdout + p.stderr)[-2000:])
        for sid, msg in bad.items():
            result[sid] = _obs(None, "compile: " + msg)
        live = [s for s in live if s[0] not in bad]
    else:
        raise vf.NoVerdict("Go cross-check: build does not converge")
    p = vf.run([exe], cwd=workdir, timeout=timeout)
    if p.returncode != 0:
        raise vf.NoVerdict("Go cross-check: program failed\n" + (p.stdout + p.stderr)[-2000:])
    parsed = parse_output(p.stdout)
    for sid, _, _ in live:
        d = parsed.get(str(sid))
        if not d or not d["done"]:
            raise vf.NoVerdict("Go cross-check: snippet %s did not run" % sid)
        result[sid] = _obs(d, ("panic: " + d["E"]) if d["E"] is not None else None)
    return result

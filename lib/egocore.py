"""egocore - projection helpers for the EgoCore corpus (C01 C02 C04 C12).

spec/Ego/EgoCore.tla is a reference interpreter for the documented Go-compatible core of Ego; spec/Ego/EgoCore_Prog.tla
enumerates programs (templates with holes) and TLC computes, per --types mode, the lines each program must print and how
it must end.  This module decides nothing.  It only
  * parses the case records TLC printed                                        (gen_cases)
  * pretty-prints a program AST as Ego or Go source text                       (render, batch_ego, batch_go)
  * runs source files on the real `ego` binary / the Go toolchain              (run_batches_ego, run_go)
  * splits what was printed back into per-program observations                 (observe_batch, observe_solo)
  * compares an observation for equality with what TLC computed                (judge)

Case record (one JSON object per program, printed by EgoCore_Prog!Emit):
  {"key": "acc/k=int8/o=1/f=1/...", "fam": "acc", "prog": AST,
   "exp": {mode: {"wf": bool, "out": [line...], "status": "ok"|"error"|"panic", "ec": ""|"type"|"div0"|"index", "pv": text}}}
AST (records of EgoCore.tla):
  prog  = {types: [{n, fs: [{n, ty}]}], meths: [{tn, ptr, rn, n, ps, rs, body}], fns: [{n, ps, rs, vr, body}],
           globs: [{x, ty, e}], main: [stmt]}
  ty    = {ty: num|str|bool|slice|map|struct|fn, k | el | kt,vt | n | ps,rs}
  expr  = {e: lit|str|bool|var|conv|bin|un|call|mcall|idx|fld|len|slit|mlit|tlit|app|fn|rec, ...}
  stmt  = {s: def|var|asg|opa|inc|def2|defp|asg2|mget|pr|dpr|if|for3|forc|forr|sw|brk|cnt|ret|defer|panic|ex|del|none, ...}
Every line a generated program prints starts with the sentinel "@@ " so that diagnostics output (trace, profile, debugger)
can be told apart from program output.  The batch wrappers print "@@== n" before program n and "@@END" / "@@ERR text" /
"@@PANIC value" after it.
"""
import json, os, re, subprocess
import vf

MODES = ("dynamic", "relaxed", "strict")
SENT = "@@ "
TYPE_ALIAS = {"byte": "uint8", "rune": "int32"}


# ------------------------------------------------------------------------------------------------ generation (TLC)

def gen_cases(sd, cfg, seed=None, impl=None, timeout=1800, workers=4):
    """runs EgoCore_Prog under cfg (Seed substituted) and returns the TLCResult; r.records are the cases"""
    text = open(os.path.join(vf.VERIF, "spec", "Ego", cfg)).read()
    text = re.sub(r"Seed = \d+", "Seed = %d" % (vf.SEED if seed is None else seed), text)
    return vf.tlc("Ego", "EgoCore_Prog", "run.cfg", sd, files={"run.cfg": text}, timeout=timeout, keep_stdout=False,
                  workers=workers, env={"JAVA_TOOL_OPTIONS": "-Xss32m"})


def cases_of(r):
    cs = [c for c in r.records if isinstance(c, dict) and "prog" in c and "exp" in c]
    seen = {}
    for c in cs:
        seen.setdefault(json.dumps(c["prog"], sort_keys=True), c)
    return list(seen.values())


# ------------------------------------------------------------------------------------------------ pretty printer

def _ty(t, pre):
    k = t["ty"]
    if k == "num":
        return t["k"]
    if k == "str":
        return "string"
    if k == "bool":
        return "bool"
    if k == "slice":
        return "[]" + _ty(t["el"], pre)
    if k == "map":
        return "map[%s]%s" % (_ty(t["kt"], pre), _ty(t["vt"], pre))
    if k == "struct":
        return pre + t["n"]
    if k == "fn":
        return "func(%s)%s" % (", ".join(_ty(p, pre) for p in t["ps"]), _res(t["rs"], pre))
    raise ValueError("type %r" % t)


def _res(rs, pre):
    if not rs:
        return ""
    if len(rs) == 1:
        return " " + _ty(rs[0], pre)
    return " (" + ", ".join(_ty(r, pre) for r in rs) + ")"


def _params(ps, pre, variadic=False):
    out = []
    for i, p in enumerate(ps):
        if variadic and i == len(ps) - 1:
            out.append("%s ...%s" % (p["n"], _ty(p["ty"]["el"], pre)))
        else:
            out.append("%s %s" % (p["n"], _ty(p["ty"], pre)))
    return ", ".join(out)


class _R:
    """renders one program; pre = prefix for its top-level names (so that many programs can share a file)"""

    def __init__(self, prog, pre):
        self.p, self.pre = prog, pre
        self.top = {f["n"] for f in prog["fns"]} | {g["x"] for g in prog["globs"]}

    def name(self, x):
        return self.pre + x if x in self.top else x

    def ex(self, e, top=False):
        k = e["e"]
        if k == "lit":
            return e["txt"]
        if k == "str":
            return json.dumps(e["s"])
        if k == "bool":
            return "true" if e["b"] else "false"
        if k == "nil":
            return "nil"
        if k == "var":
            return self.name(e["x"])
        if k == "conv":
            return "%s(%s)" % (e["k"], self.ex(e["a"], True))
        if k == "bin":
            s = "%s %s %s" % (self.ex(e["l"]), e["op"], self.ex(e["r"]))
            return s if top else "(" + s + ")"
        if k == "un":
            return e["op"] + self.ex(e["a"])
        if k == "call":
            args = [self.ex(a, True) for a in e["a"]]
            if e["sp"]:
                args[-1] += "..."
            return "%s(%s)" % (self.ex(e["f"]), ", ".join(args))
        if k == "mcall":
            return "%s.%s(%s)" % (e["x"], e["m"], ", ".join(self.ex(a, True) for a in e["a"]))
        if k == "idx":
            return "%s[%s]" % (self.ex(e["a"]), self.ex(e["i"], True))
        if k == "fld":
            return "%s.%s" % (self.ex(e["a"]), e["f"])
        if k == "len":
            return "len(%s)" % self.ex(e["a"], True)
        if k == "slit":
            return "[]%s{%s}" % (_ty(e["el"], self.pre), ", ".join(self.ex(x, True) for x in e["xs"]))
        if k == "mlit":
            return "map[%s]%s{%s}" % (_ty(e["kt"], self.pre), _ty(e["vt"], self.pre),
                                      ", ".join("%s: %s" % (self.ex(a, True), self.ex(b, True)) for a, b in zip(e["ks"], e["vs"])))
        if k == "tlit":
            return "%s%s{%s}" % (self.pre, e["tn"], ", ".join("%s: %s" % (f, self.ex(v, True)) for f, v in zip(e["fs"], e["vs"])))
        if k == "app":
            return "append(%s, %s)" % (self.ex(e["a"], True), ", ".join(self.ex(x, True) for x in e["xs"]))
        if k == "fn":
            return "func(%s)%s {\n%s\n%s}" % (_params(e["ps"], self.pre, e["vr"]), _res(e["rs"], self.pre),
                                            "\n".join(self.block(e["body"], self.ind + 1)), "\t" * self.ind)
        if k == "rec":
            return "recover()"
        raise ValueError("expression %r" % k)

    def printf(self, items):
        fmt, args = [], []
        for it in items:
            if it["f"] == "lit":
                fmt.append(it["s"].replace("%", "%%"))
            else:
                fmt.append("%T" if it["f"] == "T" else "%v")
                args.append(self.ex(it["e"], True))
        return "fmt.Printf(%s%s)" % (json.dumps(SENT + " ".join(fmt) + "\n"), "".join(", " + a for a in args))

    def simple(self, s):
        """statements that fit a for clause"""
        k = s["s"]
        if k == "def":
            return "%s := %s" % (s["x"], self.ex(s["e"], True))
        if k == "asg":
            return "%s = %s" % (self.ex(s["l"]), self.ex(s["e"], True))
        if k == "opa":
            return "%s %s= %s" % (self.ex(s["l"]), s["op"], self.ex(s["e"], True))
        if k == "inc":
            return "%s%s%s" % (self.ex(s["l"]), s["op"], s["op"])
        if k == "none":
            return ""
        raise ValueError("not a simple statement: %r" % k)

    def block(self, b, ind):
        out = []
        for s in b:
            out += self.st(s, ind)
        return out

    def st(self, s, ind):
        save = getattr(self, "ind", 0)
        self.ind = ind
        try:
            return self._st(s, ind)
        finally:
            self.ind = save

    def _st(self, s, ind):
        t = "\t" * ind
        k = s["s"]
        if k in ("def", "asg", "opa", "inc"):
            return [t + self.simple(s)]
        if k == "none":
            return []
        if k == "var":
            if s["has"]:
                return ["%svar %s %s = %s" % (t, s["x"], _ty(s["ty"], self.pre), self.ex(s["e"], True))]
            return ["%svar %s %s" % (t, s["x"], _ty(s["ty"], self.pre))]
        if k == "def2":
            return ["%s%s := %s" % (t, ", ".join(s["xs"]), self.ex(s["e"], True))]
        if k == "defp":
            return ["%s%s := %s" % (t, ", ".join(s["xs"]), ", ".join(self.ex(e, True) for e in s["es"]))]
        if k == "asg2":
            return ["%s%s = %s" % (t, ", ".join(self.ex(l) for l in s["ls"]), ", ".join(self.ex(e, True) for e in s["es"]))]
        if k == "mget":
            return ["%s%s, %s %s %s[%s]" % (t, s["v"], s["ok"], ":=" if s["def"] else "=", self.ex(s["m"]), self.ex(s["k"], True))]
        if k == "pr":
            return [t + self.printf(s["items"])]
        if k == "dpr":
            return [t + "defer " + self.printf(s["items"])]
        if k == "if":
            out = ["%sif %s {" % (t, self.ex(s["c"], True))] + self.block(s["a"], ind + 1)
            if s["he"]:
                out += [t + "} else {"] + self.block(s["b"], ind + 1)
            return out + [t + "}"]
        if k in ("for3", "forc", "forr"):
            out = [t + s["lab"] + ":"] if s["lab"] else []
            if k == "for3":
                head = "for %s; %s; %s {" % (self.simple(s["init"]), self.ex(s["c"], True), self.simple(s["post"]))
            elif k == "forc":
                head = "for %s {" % self.ex(s["c"], True)
            else:
                head = "for %s, %s := range %s {" % (s["i"], s["v"], self.ex(s["e"], True))
                if s["v"] == "_":
                    head = "for %s := range %s {" % (s["i"], self.ex(s["e"], True))
            return out + [t + head] + self.block(s["body"], ind + 1) + [t + "}"]
        if k == "sw":
            out = [t + ("switch %s {" % self.ex(s["tag"], True) if s["ht"] else "switch {")]
            for c in s["cases"]:
                out.append("%scase %s:" % (t, ", ".join(self.ex(v, True) for v in c["vs"])))
                out += self.block(c["body"], ind + 1)
            if s["hd"]:
                out.append(t + "default:")
                out += self.block(s["def"], ind + 1)
            return out + [t + "}"]
        if k == "brk":
            return [t + "break" + (" " + s["lab"] if s["lab"] else "")]
        if k == "cnt":
            return [t + "continue" + (" " + s["lab"] if s["lab"] else "")]
        if k == "ret":
            return [t + "return" + (" " + ", ".join(self.ex(e, True) for e in s["es"]) if s["es"] else "")]
        if k == "defer":
            return [t + "defer " + self.ex(s["e"], True)]
        if k == "panic":
            return ["%spanic(%s)" % (t, self.ex(s["e"], True))]
        if k == "ex":
            return [t + self.ex(s["e"], True)]
        if k == "del":
            return ["%sdelete(%s, %s)" % (t, s["m"], self.ex(s["k"], True))]
        raise ValueError("statement %r" % k)

    def decls(self, main_name):
        p, pre, out = self.p, self.pre, []
        for td in p["types"]:
            out.append("type %s%s struct {" % (pre, td["n"]))
            out += ["\t%s %s" % (f["n"], _ty(f["ty"], pre)) for f in td["fs"]]
            out += ["}", ""]
        for g in p["globs"]:
            out.append("var %s%s %s = %s" % (pre, g["x"], _ty(g["ty"], pre), self.ex(g["e"], True)))
        if p["globs"]:
            out.append("")
        for m in p["meths"]:
            out.append("func (%s %s%s%s) %s(%s)%s {" % (m["rn"], "*" if m["ptr"] else "", pre, m["tn"], m["n"],
                                                      _params(m["ps"], pre), _res(m["rs"], pre)))
            out += self.block(m["body"], 1) + ["}", ""]
        for f in p["fns"]:
            out.append("func %s%s(%s)%s {" % (pre, f["n"], _params(f["ps"], pre, f["vr"]), _res(f["rs"], pre)))
            out += self.block(f["body"], 1) + ["}", ""]
        out.append("func %s() {" % main_name)
        out += self.block(p["main"], 1) + ["}", ""]
        return out


def render(case):
    """the program alone, as a complete source file (the same text is an Ego program and, where legal, a Go program)"""
    return "\n".join(["package main", "", 'import "fmt"', ""] + _R(case["prog"], "").decls("main"))


def batch_ego(cases):
    """many programs in one Ego file; each runs through a wrapper that reports how it ended (so that one program's
    error or panic cannot end the process): @@END / @@ERR text (caught by the wrapper's try) / @@PANIC value (recover)"""
    out = ["package main", "", 'import "fmt"', ""]
    for n, c in enumerate(cases):
        pre = "c%d_" % n
        out += _R(c["prog"], pre).decls(pre + "main")
        out += ["func %srun() {" % pre,
                "\tdefer func() {", "\t\tr := recover()", "\t\tif r != nil {", '\t\t\tfmt.Printf("@@PANIC %v\\n", r)', "\t\t}", "\t}()",
                "\ttry {", "\t\t%smain()" % pre, '\t\tfmt.Printf("@@END\\n")',
                "\t} catch (e) {", '\t\tfmt.Printf("@@ERR %v\\n", e)', "\t}", "}", ""]
    out.append("func main() {")
    for n in range(len(cases)):
        out += ['\tfmt.Printf("@@== %d\\n")' % n, "\tc%d_run()" % n]
    out += ["}", ""]
    return "\n".join(out)


def batch_go(cases):
    """the same programs as one Go file; returns (text, {line number: case index}).  A runtime panic of the Go runtime
    (division by zero, index out of range) is reported as @@ERR, a panic() of the program as @@PANIC"""
    out = ["package main", "", 'import (', '\t"fmt"', '\t"runtime"', ")", "",
           "func guard(f func()) {", "\tdefer func() {", "\t\tr := recover()", "\t\tif r == nil {", "\t\t\treturn", "\t\t}",
           "\t\tif e, ok := r.(runtime.Error); ok {", '\t\t\tfmt.Printf("@@ERR %v\\n", e)', "\t\t} else {",
           '\t\t\tfmt.Printf("@@PANIC %v\\n", r)', "\t\t}", "\t}()", "\tf()", '\tfmt.Printf("@@END\\n")', "}", ""]
    where = {}
    for n, c in enumerate(cases):
        pre = "c%d_" % n
        for line in _R(c["prog"], pre).decls(pre + "main"):
            for l in line.split("\n"):
                out.append(l)
                where[len(out)] = n
    out.append("func main() {")
    for n in range(len(cases)):
        out += ['\tfmt.Printf("@@== %d\\n")' % n, "\tguard(c%d_main)" % n]
    out += ["}", ""]
    return "\n".join(out), where


# ------------------------------------------------------------------------------------------------ observations

_ECLASS = [("div0", re.compile(r"divi(de|sion) by zero", re.I)),
           ("index", re.compile(r"index out of (range|bounds)|invalid array|array index", re.I)),
           ("type", re.compile(r"type mismatch|invalid type|incompatible type|wrong (\w+ )*type|invalid or unsupported data type|"
                               r"argument type|data loss|loss of precision|invalid .*coercion", re.I))]


def err_class(msg):
    for name, rx in _ECLASS:
        if rx.search(msg or ""):
            return name
    return "other"


def _blank():
    return {"out": [], "status": "?", "ec": "", "pv": "", "msg": ""}


def observe_batch(rc, stdout, stderr, n):
    """-> list of n observations {out, status, ec, pv, msg}; status 'notrun' for programs the process never reached"""
    segs, cur = [], None
    for line in stdout.splitlines():
        if not line.startswith("@@"):
            continue
        m = re.match(r"^@@== (\d+)$", line)
        if m:
            cur = _blank()
            segs.append(cur)
            continue
        if cur is None:
            continue
        if line.startswith(SENT) or line == SENT.rstrip():
            cur["out"].append(line[len(SENT):])
        elif line == "@@END":
            cur["status"] = "ok"
        elif line.startswith("@@ERR"):
            cur["status"], cur["msg"] = "error", line[6:]
            cur["ec"] = err_class(cur["msg"])
        elif line.startswith("@@PANIC"):
            cur["status"], cur["pv"] = "panic", line[8:]
    for s in segs:
        if s["status"] == "?":
            m = re.search(r"^Error: (.*)$", (stderr or "") + "\n" + (stdout or ""), re.M)
            if rc is None:
                s["status"] = "timeout"
            elif m and rc != 0 and s is segs[-1]:          # an error the wrapper's try/catch could not catch ended the process here
                s["status"], s["msg"] = "error", m.group(1)
                s["ec"] = err_class(s["msg"])
            else:
                s["status"] = "died(rc=%s)" % rc
                s["msg"] = (stderr or "").strip()[-300:]
    while len(segs) < n:
        b = _blank()
        b["status"] = "notrun"
        segs.append(b)
    return segs[:n]


def observe_solo(rc, stdout, stderr):
    """one program run directly from its own main: how the PROCESS ended"""
    o = _blank()
    o["out"] = [l[len(SENT):] for l in stdout.splitlines() if l.startswith(SENT)]
    both = (stdout or "") + "\n" + (stderr or "")
    if rc is None:
        o["status"] = "timeout"
    elif rc == 0:
        o["status"] = "ok"
    else:
        m = re.search(r"^panic: (.*)$", both, re.M)
        e = re.search(r"^Error: (.*)$", both, re.M)
        if m and not re.search(r"runtime error", m.group(1)):
            o["status"], o["pv"] = "panic", re.sub(r"^unhandled panic: ", "", m.group(1))
        elif m:
            o["status"], o["msg"] = "error", m.group(1)
            o["ec"] = err_class(o["msg"])
        elif e:
            o["status"], o["msg"] = "error", e.group(1)
            o["ec"] = err_class(o["msg"])
        else:
            o["status"], o["msg"] = "died(rc=%s)" % rc, both.strip()[-300:]
    return o


def alias_line(line):
    return " ".join(TYPE_ALIAS.get(t, t) for t in line.split(" "))


def judge(exp, obs, alias=False):
    """equality of an observation with what TLC computed for one mode.  None = conforms, else (divergence class, text).
    A program the reference rejects for a typing reason may be rejected before it starts (compile time) or when the
    offending statement is reached: the statement of the properties says nothing about the output of rejected programs,
    so only a prefix of the predicted lines is required there.  alias=True compares type names through Ego's alias table."""
    eo = exp["out"]
    oo = [alias_line(l) for l in obs["out"]] if alias else obs["out"]
    if obs["status"] != exp["status"]:
        return ("end:%s->%s" % (exp["status"], obs["status"]),
                "must end '%s'%s after printing %d lines, ended '%s' %s after printing %d lines"
                % (exp["status"], " (" + exp["ec"] + ")" if exp["ec"] else "", len(eo), obs["status"], obs.get("msg", "")[:160] or obs.get("pv", ""), len(oo)))
    if exp["status"] == "error" and exp["ec"] == "type":
        if obs["ec"] != "type":
            return ("error:type->%s" % obs["ec"], "must be rejected for a typing reason, stopped with '%s'" % obs["msg"][:160])
        if oo != eo[:len(oo)]:
            return ("output-before-rejection", "printed %s before the rejection, the reference prints %s" % (oo, eo))
        return None
    if oo != eo:
        i = 0
        while i < len(eo) and i < len(oo) and eo[i] == oo[i]:
            i += 1
        e, o = (eo[i] if i < len(eo) else None), (oo[i] if i < len(oo) else None)
        if e is None:
            cls = "extra-output"
        elif o is None:
            cls = "missing-output"
        elif alias_line(o) == e:
            cls = "type-name-alias"
        else:
            et, ot = e.split(" "), o.split(" ")
            kinds = {"int8", "int16", "int32", "int64", "int", "uint8", "uint16", "uint32", "uint64", "uint", "float32", "float64",
                     "byte", "string", "bool"}
            if len(et) == len(ot) and all(a == b or (a in kinds and b in kinds) for a, b in zip(et, ot)):
                cls = "type=" + ",".join(b for a, b in zip(et, ot) if a != b)
            else:
                cls = "value"
        return (cls, "line %d must be %r, is %r" % (i + 1, e, o))
    if exp["status"] == "error" and obs["ec"] != exp["ec"]:
        return ("error:%s->%s" % (exp["ec"], obs["ec"]), "must stop with a '%s' error, stopped with '%s'" % (exp["ec"], obs["msg"][:160]))
    if exp["status"] == "panic" and obs["pv"] != exp["pv"]:
        return ("panic-value", "must panic with %r, panicked with %r" % (exp["pv"], obs["pv"]))
    return None


# ------------------------------------------------------------------------------------------------ running

def run_batches_ego(ego, env, wd, batches, args, timeout=600, nproc=8, stdin=None, tag="b"):
    """batches: list of case lists.  Every batch is written as one file and run with `ego <pre-args> run <args> file`.
    args = (global options before `run`, options after `run`).  Returns [(cases, observations, (rc, out, err), path)]"""
    os.makedirs(wd, exist_ok=True)
    pre, post = args
    jobs, paths = [], []
    for n, b in enumerate(batches):
        p = os.path.join(wd, "%s%04d.ego" % (tag, n))
        if not os.path.exists(p):
            with open(p, "w") as f:
                f.write(batch_ego(b))
        paths.append(p)
        jobs.append(([ego] + list(pre) + ["run"] + list(post) + [p], stdin, wd, env))
    res = vf.run_many(jobs, nproc=nproc, timeout=timeout)
    return [(b, observe_batch(r[0], r[1], r[2], len(b)), r, p) for b, r, p in zip(batches, res, paths)]


def run_solo_ego(ego, env, wd, cases, args, timeout=300, nproc=8, stdin=None, tag="s"):
    os.makedirs(wd, exist_ok=True)
    pre, post = args
    jobs = []
    for n, c in enumerate(cases):
        p = os.path.join(wd, "%s%04d.ego" % (tag, n))
        with open(p, "w") as f:
            f.write(render(c))
        jobs.append(([ego] + list(pre) + ["run"] + list(post) + [p], stdin, wd, env))
    res = vf.run_many(jobs, nproc=nproc, timeout=timeout)
    return [(c, observe_solo(*r), r) for c, r in zip(cases, res)]


def run_go(wd, cases, timeout=1200):
    """compiles all programs as one Go file.  Programs the Go compiler rejects are dropped (reported as status
    'rejected' with the compiler's message) and the rest is run once.  Returns the list of observations."""
    os.makedirs(wd, exist_ok=True)
    open(os.path.join(wd, "go.mod"), "w").write("module crosscheck\n\ngo 1.23\n")
    obs = [None] * len(cases)
    live = list(range(len(cases)))
    exe = os.path.join(wd, "prog")
    for attempt in range(6):
        text, where = batch_go([cases[i] for i in live])
        open(os.path.join(wd, "main.go"), "w").write(text)
        p = vf.run([vf.GO, "build", "-gcflags=-e", "-o", exe, "."], cwd=wd, env=vf.goenv(), timeout=timeout)
        if p.returncode == 0:
            break
        bad = {}
        for m in re.finditer(r"^\./main\.go:(\d+):\d+: (.*)$", p.stdout + p.stderr, re.M):
            n = where.get(int(m.group(1)))
            if n is None:
                raise vf.NoVerdict("Go cross-check: compile error outside a program: " + m.group(0))
            bad.setdefault(live[n], m.group(2))
        if not bad:
            raise vf.NoVerdict("Go cross-check: build failed\n" + (p.stdout + p.stderr)[-2000:])
        for i, msg in bad.items():
            o = _blank()
            o["status"], o["msg"] = "rejected", msg
            obs[i] = o
        live = [i for i in live if i not in bad]
    else:
        raise vf.NoVerdict("Go cross-check: build does not converge")
    p = vf.run([exe], cwd=wd, timeout=timeout)
    if p.returncode != 0:
        raise vf.NoVerdict("Go cross-check: program failed\n" + (p.stdout + p.stderr)[-2000:])
    for i, o in zip(live, observe_batch(0, p.stdout, p.stderr, len(live))):
        obs[i] = o
    return obs


# ------------------------------------------------------------------------------------------------ corpus adapters
# The four checks run three kinds of TLC-generated cases through the same matrix runner.  An adapter knows how to put
# cases of its kind into one source file, how to split the printed output back, and how to compare with TLC's expectation.

def _norm_msg(m):
    return re.sub(r"\(line \d+\)|line \d+|c\d+_|\b\d+:\d+\b", "", m or "")


class CoreAdapter:
    """cases of EgoCore_Prog"""
    name = "core"
    batch = 25

    def __init__(self, alias=True):
        self.alias = alias

    def wf(self, c, mode):
        return c["exp"][mode]["wf"]

    def key(self, c):
        return c["key"]

    def text(self, cases):
        return batch_ego(cases)

    def solo_text(self, c):
        return render(c)

    def observe(self, rc, so, se, n):
        return observe_batch(rc, so, se, n)

    def observe_solo(self, rc, so, se):
        return observe_solo(rc, so, se)

    def judge(self, c, mode, o):
        return judge(c["exp"][mode], o, alias=self.alias)

    def same(self, a, b):
        return (a["out"], a["status"], a["ec"], a["pv"]) == (b["out"], b["status"], b["ec"], b["pv"])

    def msg(self, o):
        return _norm_msg(o.get("msg", ""))

    def expected(self, c, mode):
        return c["exp"][mode]


class CtlAdapter:
    """cases of EgoControl_Gen (C10 builder's generator, lib/egoctl.py): try/catch, defer, panic, loops; no typed arithmetic,
    so the expectation is the same in every --types mode"""
    name = "ctl"
    batch = 25

    def __init__(self):
        import egoctl
        self.m = egoctl

    def wf(self, c, mode):
        return True

    def key(self, c):
        return "ctl/" + ("+".join(sorted(c["feat"])) or "plain") + "/" + c["status"]

    def text(self, cases):
        return self.m.render(cases, wrapped=True)

    def observe(self, rc, so, se, n):
        keep = "\n".join(l for l in so.splitlines() if self.m.MARK.match(l))
        return self.m.observe(rc, keep, se, n)

    def judge(self, c, mode, o):
        if self.m.agree(c, o):
            return None
        i, e, a = self.m.first_diff(c, o)
        return ("%s->%s" % (c["status"], o["status"]), "program [%s]: line %d must be %s and the end '%s'; printed %s, ended '%s'"
                % (" ".join(c["toks"]), i + 1, e, c["status"], a, o["status"]))

    def same(self, a, b):
        return (a["out"], a["status"], a["pv"]) == (b["out"], b["status"], b["pv"])

    def msg(self, o):
        return ""

    def expected(self, c, mode):
        return {"out": c["out"], "status": c["status"], "pv": c["pv"], "mask": c["mask"]}


def ctl_usable(c):
    """EgoControl cases outside the defect classes C10 found on the unchanged tree (a loop inside a try block, break /
    continue out of a try block): those are C10's findings, repaired on its branch, and not re-reported here"""
    def has_loop(b):
        return any(s["k"] == "loop" or has_loop(s["a"]) or has_loop(s["b"]) for s in b)

    def bad(b):
        return any((s["k"] == "try" and (has_loop(s["a"]) or has_loop(s["b"]))) or bad(s["a"]) or bad(s["b"]) for s in b)
    return not c["feat"] and not any(bad(f) for f in c["fns"])


class ArithAdapter:
    """cells of EgoTypes_Arith (C03 builder's table, lib/egoprog.py); an observation is (operands, result | rejection)"""
    name = "arith"
    batch = 200

    def __init__(self):
        import egoprog
        self.m = egoprog

    def wf(self, c, mode):
        return c["exp"][mode]["wf"]

    def key(self, c):
        return "arith/" + c["key"]

    def text(self, cases):
        return self.m.ego_program([self.m.snippet_arith("ego", i, c, guard=True) for i, c in enumerate(cases)])

    def observe(self, rc, so, se, n):
        parsed = self.m.parse_output(so)
        out = []
        for i in range(n):
            d = parsed.get(str(i))
            if d and d["done"]:
                out.append({"P": d["P"], "R": d["R"], "err": d["E"], "status": "ok" if d["E"] is None else "error"})
            else:
                out.append({"P": None, "R": None, "err": None, "status": "timeout" if rc is None else "notrun"})
        return out

    def judge(self, c, mode, o):
        ep = self.m
        exp = c["exp"][mode]["o"]
        if o["status"] in ("notrun", "timeout"):
            return ("end:" + o["status"], "the cell did not run")
        pre = [(x["k"], x["val"]) for x in (c["l"], c["r"]) if x["cls"] != "none" and not x["c"]]
        if o["P"] is None or [ep.parse_vt(t) for t in o["P"]] != pre:
            return None if o["err"] is not None and any(x["err"] for x in exp) else ("setup", "operands could not be established: %s" % o)
        if o["err"] is not None:
            return None if any(x["err"] for x in exp) else ("unexpected-error", "rejected with '%s'" % o["err"])
        got = ep.parse_vt(o["R"][0])
        if any((not x["err"]) and (x["k"], x["s"]) == got for x in exp):
            return None
        if all(x["err"] for x in exp):
            return ("missing-error", "accepted and yields %s %s" % (got[1], got[0]))
        if got[0] not in [x["k"] for x in exp if not x["err"]]:
            return ("type=" + got[0], "yields type %s (value %s)" % got)
        return ("value", "yields %s %s" % (got[1], got[0]))

    def same(self, a, b):
        return (a["P"], a["R"], a["err"] is None) == (b["P"], b["R"], b["err"] is None)

    def msg(self, o):
        return _norm_msg(o.get("err") or "")

    def expected(self, c, mode):
        return c["exp"][mode]


# ------------------------------------------------------------------------------------------------ matrix runner

class Setting:
    """one way of running the interpreter: a --types mode plus options.  feat = {dimension: value} is the abstract
    description used to attribute a divergence (e.g. {"opt": 2, "registers": "on"})"""

    def __init__(self, name, mode, pre=(), post=(), stdin=None, feat=None):
        self.name, self.mode, self.pre, self.post, self.stdin, self.feat = name, mode, tuple(pre), tuple(post), stdin, dict(feat or {})

    def argv(self, ego, path):
        return [ego] + list(self.pre) + ["run", "--types", self.mode] + list(self.post) + [path]


def run_matrix(ego, env, sd, adapter, cases, settings, nproc=8, timeout=900, tag="m", stats=None):
    """runs every case (in its domain) under every setting.  Returns {setting name: {case index: observation}}.
    Cases share processes (adapter.batch per file); a batch that times out is retried once, alone, with a longer limit."""
    stats = stats if stats is not None else {}
    wd = os.path.join(sd, "%s-%s" % (tag, adapter.name))
    os.makedirs(wd, exist_ok=True)
    files = {}          # mode -> [(indices, path)]
    for mode in sorted({s.mode for s in settings}):
        idx = [i for i, c in enumerate(cases) if adapter.wf(c, mode)]
        fl = []
        for n in range(0, len(idx), adapter.batch):
            part = idx[n:n + adapter.batch]
            p = os.path.join(wd, "%s_%04d.ego" % (mode, n // adapter.batch))
            with open(p, "w") as f:
                f.write(adapter.text([cases[i] for i in part]))
            fl.append((part, p))
        files[mode] = fl
    jobs, meta = [], []
    for s in settings:
        for part, p in files[s.mode]:
            jobs.append((s.argv(ego, p), s.stdin, wd, env))
            meta.append((s, part, p))
    res = vf.run_many(jobs, nproc=nproc, timeout=timeout)
    late = [i for i, r in enumerate(res) if r[0] is None]
    if late:
        again = vf.run_many([jobs[i] for i in late], nproc=max(2, nproc // 2), timeout=timeout * 3)
        for i, r in zip(late, again):
            if r[0] is None:
                raise vf.NoVerdict("a generated batch did not finish within %d s: %s" % (timeout * 3, " ".join(jobs[i][0][1:])))
            res[i] = r
    stats["processes"] = stats.get("processes", 0) + len(jobs) + len(late)
    out = {s.name: {} for s in settings}
    for (s, part, p), r in zip(meta, res):
        for i, o in zip(part, adapter.observe(r[0], r[1], r[2], len(part))):
            o["_file"] = p
            out[s.name][i] = o
    # a process that ended before it reached some of its cases (one case stopped the whole file, e.g. a compile error):
    # those cases run again in smaller files, finally alone, so that only the case responsible keeps the failure
    for size in (5, 1):
        todo = {}
        for s in settings:
            lost = [i for i, o in sorted(out[s.name].items()) if str(o.get("status", "")).startswith(("notrun", "died"))]
            if lost:
                todo[s.name] = (s, lost)
        if not todo:
            break
        jobs, meta = [], []
        for name, (s, lost) in todo.items():
            for n in range(0, len(lost), size):
                part = lost[n:n + size]
                p = os.path.join(wd, "r%d_%s_%05d.ego" % (size, re.sub(r"[^A-Za-z0-9]+", "_", name), part[0]))
                with open(p, "w") as f:
                    f.write(adapter.text([cases[i] for i in part]))
                jobs.append((s.argv(ego, p), s.stdin, wd, env))
                meta.append((s, part, p))
        if len(jobs) > 4000:
            raise vf.NoVerdict("%d processes ended early (%s ...)" % (len(jobs), list(todo)[:3]))
        res = vf.run_many(jobs, nproc=nproc, timeout=timeout)
        stats["processes"] = stats.get("processes", 0) + len(jobs)
        for (s, part, p), r in zip(meta, res):
            if r[0] is None:
                raise vf.NoVerdict("a generated program did not finish within %d s: %s" % (timeout, p))
            for i, o in zip(part, adapter.observe(r[0], r[1], r[2], len(part))):
                o["_file"] = p
                if size == 1 and str(o.get("status", "")).startswith("notrun"):
                    m = re.search(r"^Error: (.*)$", (r[2] or "") + "\n" + (r[1] or ""), re.M)
                    o["status"] = "error" if m else "died(rc=%s)" % r[0]       # the program was rejected before it started
                    o["msg"] = m.group(1) if m else (r[2] or r[1] or "").strip()[-300:]
                    o["ec"] = err_class(o["msg"]) if m else ""
                    o["err"] = o["msg"]
                out[s.name][i] = o
    return out


def rerun_alone(ego, env, sd, adapter, pairs, timeout=900, nproc=8, tag="alone"):
    """pairs: [(case, setting)].  Each case runs in a process of its own (still through the batch wrapper).  -> observations"""
    wd = os.path.join(sd, "%s-%s" % (tag, adapter.name))
    os.makedirs(wd, exist_ok=True)
    jobs, paths = [], []
    base = len(os.listdir(wd))
    for n, (case, setting) in enumerate(pairs):
        p = os.path.join(wd, "a%05d.ego" % (base + n))
        with open(p, "w") as f:
            f.write(adapter.text([case]))
        paths.append(p)
        jobs.append((setting.argv(ego, p), setting.stdin, wd, env))
    out = []
    for (case, setting), p, r in zip(pairs, paths, vf.run_many(jobs, nproc=nproc, timeout=timeout)):
        if r[0] is None:
            raise vf.NoVerdict("a generated program did not finish within %d s (%s under %s)" % (timeout, adapter.key(case), setting.name))
        o = adapter.observe(r[0], r[1], r[2], 1)[0]
        o["_file"] = p
        out.append(o)
    return out


def attribute(settings, diverging):
    """abstract description of a set of diverging settings: the (dimension=value) pairs that exactly separate them from
    the conforming ones among the settings that were run; otherwise the sorted list of their names"""
    names = {s.name for s in diverging}
    dims = {}
    for s in settings:
        for d, v in s.feat.items():
            dims.setdefault((d, v), set()).add(s.name)
    exact = sorted("%s=%s" % dv for dv, who in dims.items() if who == names)
    if exact:
        return exact[0]
    # ... or the values of one dimension (e.g. optimizer level 1 or 2)
    for d in sorted({d for d, _ in dims}):
        vals = sorted({s.feat[d] for s in diverging if d in s.feat}, key=str)
        if vals and {s.name for s in settings if s.feat.get(d) in vals} == names:
            return "%s in {%s}" % (d, ",".join(str(v) for v in vals))
    common = sorted("%s=%s" % dv for dv, who in dims.items() if names <= who)
    return ("with " + "+".join(common) if common else "settings") + ":" + ",".join(sorted(names))


# ------------------------------------------------------------------------------------------------ attribution (C02, C12)
# The reference semantics has no configuration input, so the expectation of a case is the same under every setting.  A case
# that conforms under some settings and diverges under others is reported against the diverging settings; a case that
# diverges in the same way under every setting is not a matter of the settings (it belongs to C01 / C03 / C10).

def assess_matrix(chk, adapter, cases, settings, obs, rerun, base):
    """per case and mode: which settings conform to TLC's expectation.  Returns (runs, classes)"""
    nrun, classes = 0, set()

    def split(i, c, mode):
        ss = [s for s in settings if s.mode == mode and i in obs[s.name]]
        div, conf = [], []
        for s in ss:
            o = obs[s.name][i]
            d = adapter.judge(c, mode, o)
            if d is not None and d[0] == "setup":
                continue
            (div if d else conf).append((s, o, d))
        return ss, div, conf

    def reportable(div, conf):
        return div and (conf or not all(adapter.same(div[0][1], o) for _, o, _ in div[1:]))
    # 1. cases that would be reported run again, each in a process of its own, before they are blamed
    suspects = []
    for i, c in enumerate(cases):
        for mode in MODES:
            ss, div, conf = split(i, c, mode)
            if reportable(div, conf):
                suspects += [(i, mode, s) for s, _, _ in div]
    suspects = suspects[:600]
    if suspects:
        for (i, mode, s), o2 in zip(suspects, rerun([(cases[i], s) for i, mode, s in suspects])):
            o = obs[s.name][i]
            if adapter.judge(cases[i], mode, o2) is None:
                chk.violation("interference/%s/%s" % (adapter.name, cases[i].get("fam", "")),
                              "%s agrees with the specification when run alone but not after other cases in the same process under %s"
                              % (adapter.key(cases[i]), s.name),
                              {"adapter": adapter.name, "case": cases[i], "mode": mode, "setting": s.name, "observed": o, "file": o.get("_file")})
            obs[s.name][i] = o2
    # 2. classification
    for i, c in enumerate(cases):
        for mode in MODES:
            ss, div, conf = split(i, c, mode)
            if not ss:
                continue
            nrun += len(ss)
            classes.add((adapter.key(c), mode))
            if not div:
                continue
            first = div[0]
            if conf:
                who = attribute(ss, [s for s, _, _ in div])
                chk.violation("%s/%s/%s/%s" % (adapter.key(c), mode, who, first[2][0]),
                              "under %s (--types %s) %s; under %s the program behaves as the reference semantics says"
                              % (", ".join(s.name for s, _, _ in div[:4]), mode, first[2][1], conf[0][0].name),
                              {"adapter": adapter.name, "case": c, "mode": mode, "diverging": [s.name for s, _, _ in div],
                               "conforming": [s.name for s, _, _ in conf], "argv": first[0].argv("ego", "prog.ego"),
                               "observed": {k: v for k, v in first[1].items() if k != "_file"}, "expected": adapter.expected(c, mode),
                               "source": adapter.text([c])})
            elif all(adapter.same(first[1], o) for _, o, _ in div[1:]):
                base[(adapter.key(c), mode, first[2][0])] = first[2][1]       # the same everywhere: not a matter of the settings
            else:
                groups = {}
                for s, o, d in div:
                    groups.setdefault(json.dumps([o.get(k) for k in ("out", "status", "ec", "pv", "P", "R")], sort_keys=True), []).append(s)
                small = min(groups.values(), key=len)
                chk.violation("%s/%s/%s/unstable" % (adapter.key(c), mode, attribute(ss, small)),
                              "the program differs from the reference under every setting, and not in the same way: %s vs %s (%s)"
                              % (", ".join(s.name for s in small[:3]), ", ".join(s.name for s, _, _ in div if s not in small)[:80], first[2][1]),
                              {"adapter": adapter.name, "case": c, "mode": mode, "diverging": [s.name for s in small],
                               "conforming": [s.name for s, _, _ in div if s not in small][:1],
                               "groups": {k: [s.name for s in v] for k, v in groups.items()}, "source": adapter.text([c])})
    return nrun, classes


def message_check(chk, adapter, cases, settings, obs):
    """the error message of a conforming case must be the same under every setting (cases without any divergence)"""
    for i, c in enumerate(cases):
        for mode in MODES:
            msgs = {}
            for s in settings:
                o = obs[s.name].get(i) if s.mode == mode else None
                if o and o.get("status") == "error" and adapter.msg(o):
                    msgs.setdefault(adapter.msg(o), []).append(s)
            if len(msgs) > 1:
                small = min(msgs.values(), key=len)
                ss = [s for s in settings if s.mode == mode]
                chk.violation("%s/%s/%s/message" % (adapter.key(c), mode, attribute(ss, small)),
                              "the error message depends on the settings: %s" % json.dumps({k: [s.name for s in v][:3] for k, v in msgs.items()}),
                              {"case": c, "mode": mode, "messages": {k: [s.name for s in v] for k, v in msgs.items()}})


# ------------------------------------------------------------------------------------------------ the real binary

def build_ego(sd, timeout=3600):
    """the `ego` binary of vf.REPO's current working tree (overlay build, as vf.build_ego).  The four checks of this group
    need the same binary, so it is kept in vf.CACHE under a key made of the tree's HEAD and uncommitted changes (the
    cache is only an accelerator: a miss builds)."""
    import hashlib, shutil
    out = os.path.join(sd, "ego")
    if os.path.exists(out):
        return out
    key = None
    try:
        head = subprocess.run(["git", "-C", vf.REPO, "rev-parse", "HEAD"], capture_output=True, text=True, timeout=60).stdout.strip()
        diff = subprocess.run(["git", "-C", vf.REPO, "status", "--porcelain"], capture_output=True, text=True, timeout=120).stdout
        dtxt = subprocess.run(["git", "-C", vf.REPO, "diff", "HEAD"], capture_output=True, text=True, timeout=120).stdout
        if head and not any(l.startswith("??") and l.rstrip().endswith(".go") for l in diff.splitlines()):
            key = hashlib.sha256((head + "\n" + dtxt).encode()).hexdigest()[:24]
    except Exception:
        key = None
    cached = os.path.join(vf.CACHE, "ego-%s" % key) if key else None
    if cached and os.path.exists(cached):
        shutil.copy(cached, out)
        os.chmod(out, 0o755)
        return out
    ov = vf.make_overlay(sd, [])
    vf.run([vf.GO, "build", "-overlay", ov, "-o", out, "-tags", "verif", "."], cwd=vf.REPO, env=vf.goenv(), timeout=timeout, check=True)
    if cached:
        os.makedirs(vf.CACHE, exist_ok=True)
        tmp = cached + ".%d.tmp" % os.getpid()
        shutil.copy(out, tmp)
        os.replace(tmp, cached)
        olds = sorted((f for f in os.listdir(vf.CACHE) if f.startswith("ego-") and ".tmp" not in f),
                      key=lambda f: os.path.getmtime(os.path.join(vf.CACHE, f)))
        for f in olds[:-6]:
            try:
                os.remove(os.path.join(vf.CACHE, f))
            except OSError:
                pass
    return out

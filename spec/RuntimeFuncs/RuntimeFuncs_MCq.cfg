INIT MCInit
NEXT MCNext
CONSTANTS
  TLen = 2
  LLen = 3
INVARIANTS Law
CHECK_DEADLOCK FALSE

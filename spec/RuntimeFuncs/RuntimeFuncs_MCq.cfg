INIT MCInit
NEXT MCNext
CONSTANTS
  TLen = 3
  LLen = 3
INVARIANTS Law
CHECK_DEADLOCK FALSE

INIT TInit
NEXT TNext
CONSTANTS
  TLen = 4
  LLen = 3
INVARIANTS Report
CHECK_DEADLOCK FALSE

------------------------- MODULE RuntimeFuncs_Trace -------------------------
(* Binding F: judges logged calls of the real ego binary (io.ndjson, one     *)
(* record [id, src, fn, args, ctx, out] per call) with the contract Post of  *)
(* RuntimeFuncs.  Steps an index over the log, collects every failing record *)
(* with its abstract Key and prints one report at the end.  src tells whose  *)
(* output it is: "ego" (the verdict), "go" (the Go toolchain on the same     *)
(* call: a failure there is a defect of the SPEC, the check then gives no    *)
(* verdict), "pert" (deliberately perturbed results: the binding self-test). *)
EXTENDS RuntimeFuncs, Json

VARIABLES i, bad
Log == ndJsonDeserialize("io.ndjson")
N == Len(Log)
TInit == i = 0 /\ bad = <<>>
TNext == /\ i < N
         /\ i' = i + 1
         /\ bad' = IF Post(Log[i + 1]) THEN bad
                   ELSE Append(bad, [idx |-> i + 1, id |-> Log[i + 1].id, src |-> Log[i + 1].src, key |-> Key(Log[i + 1])])
Report == i < N \/ PrintT(ToJson([n |-> N, bad |-> bad]))
=============================================================================

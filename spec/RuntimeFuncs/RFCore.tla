------------------------------- MODULE RFCore -------------------------------
(* Reference semantics (pure definitions, no state) of the DISCRETE Go        *)
(* standard-library functions that ego's runtime packages mirror.             *)
(*                                                                            *)
(* A Go string is a sequence of bytes 0..255 (as in Go).  Functions that Go   *)
(* defines on runes (Trim cutsets, Split with "", Count with "", IndexAny,    *)
(* Fields ...) decode UTF-8; the generators only produce VALID UTF-8 for      *)
(* those, and the only non-ASCII characters used are letters that are not     *)
(* white space (no Unicode tables are modelled: case mapping, folding and     *)
(* IsSpace are defined for ASCII only and the contracts' WF predicates keep   *)
(* non-ASCII bytes away from them).                                           *)
(* Integers are TLC integers (|n| < 2^31); int64 boundary values only occur   *)
(* as decimal digit strings (see BigLE, used by Atoi/ParseInt/Itoa).          *)
EXTENDS Integers, Sequences, FiniteSets

SetMin(S) == CHOOSE x \in S : \A y \in S : x <= y
SetMax(S) == CHOOSE x \in S : \A y \in S : x >= y
Take(s, n) == SubSeq(s, 1, n)
Drop(s, n) == SubSeq(s, n + 1, Len(s))
Last(s) == s[Len(s)]

RECURSIVE Flat(_)
Flat(ss) == IF ss = <<>> THEN <<>> ELSE ss[1] \o Flat(Tail(ss))

RECURSIVE JoinB(_, _)
JoinB(l, sep) == IF l = <<>> THEN <<>>
                 ELSE IF Len(l) = 1 THEN l[1] ELSE l[1] \o sep \o JoinB(Tail(l), sep)

(* ---------------------------------------------------------------- search *)
MatchAt(s, p, i) == /\ i >= 1 /\ i + Len(p) - 1 <= Len(s)
                    /\ \A k \in 1..Len(p) : s[i + k - 1] = p[k]
Occ(s, p) == {i \in 1..(Len(s) - Len(p) + 1) : MatchAt(s, p, i)}
Index(s, p) == IF Occ(s, p) = {} THEN -1 ELSE SetMin(Occ(s, p)) - 1
LastIndex(s, p) == IF Occ(s, p) = {} THEN -1 ELSE SetMax(Occ(s, p)) - 1
Contains(s, p) == Occ(s, p) # {}
HasPrefix(s, p) == MatchAt(s, p, 1)
HasSuffix(s, p) == Len(p) <= Len(s) /\ MatchAt(s, p, Len(s) - Len(p) + 1)
IndexByte(s, c) == Index(s, <<c>>)
LastIndexByte(s, c) == LastIndex(s, <<c>>)

RECURSIVE CmpB(_, _)
CmpB(a, b) == IF a = <<>> THEN (IF b = <<>> THEN 0 ELSE -1)
              ELSE IF b = <<>> THEN 1
              ELSE IF a[1] < b[1] THEN -1 ELSE IF a[1] > b[1] THEN 1 ELSE CmpB(Tail(a), Tail(b))
LessB(a, b) == CmpB(a, b) < 0

(* ---------------------------------------------------------------- UTF-8  *)
RuneLen(b) == IF b < 128 THEN 1 ELSE IF b < 224 THEN 2 ELSE IF b < 240 THEN 3 ELSE 4
RECURSIVE Runes(_)          \* a VALID UTF-8 string as the sequence of its characters (each a byte string)
Runes(s) == IF s = <<>> THEN <<>>
            ELSE LET n == RuneLen(s[1]) IN <<Take(s, n)>> \o Runes(Drop(s, n))
RECURSIVE ValidUTF8(_)      \* structural validity (lead byte + continuation bytes); enough for the alphabets used
ValidUTF8(s) == \/ s = <<>>
                \/ /\ s[1] < 128 \/ (s[1] >= 194 /\ s[1] < 245)
                   /\ LET n == RuneLen(s[1]) IN
                        /\ n <= Len(s)
                        /\ \A k \in 2..n : s[k] >= 128 /\ s[k] < 192
                        /\ ValidUTF8(Drop(s, n))
IsASCII(s) == \A i \in 1..Len(s) : s[i] < 128
RuneSet(s) == {Runes(s)[i] : i \in 1..Len(Runes(s))}
RuneCount(s) == Len(Runes(s))
(* code point -> UTF-8 (only below U+0800) and back *)
EncodeRune(r) == IF r < 128 THEN <<r>> ELSE <<192 + (r \div 64), 128 + (r % 64)>>
RuneValue(c) == IF Len(c) = 1 THEN c[1]
                ELSE IF Len(c) = 2 THEN (c[1] - 192) * 64 + (c[2] - 128)
                ELSE (c[1] - 224) * 4096 + (c[2] - 128) * 64 + (c[3] - 128)
(* byte offset of rune number k (1-based) in the rune sequence r *)
RECURSIVE OffsetOf(_, _)
OffsetOf(r, k) == IF k <= 1 THEN 0 ELSE Len(r[1]) + OffsetOf(Tail(r), k - 1)

IndexAny(s, chars) == LET r == Runes(s) C == RuneSet(chars)
                          H == {k \in 1..Len(r) : r[k] \in C}
                      IN IF H = {} THEN -1 ELSE OffsetOf(r, SetMin(H))
LastIndexAny(s, chars) == LET r == Runes(s) C == RuneSet(chars)
                              H == {k \in 1..Len(r) : r[k] \in C}
                          IN IF H = {} THEN -1 ELSE OffsetOf(r, SetMax(H))
ContainsAny(s, chars) == IndexAny(s, chars) >= 0
(* r is a valid code point below U+0800, or negative (never found) *)
IndexRune(s, r) == IF r < 0 THEN -1 ELSE Index(s, EncodeRune(r))
ContainsRune(s, r) == IndexRune(s, r) >= 0

(* ---------------------------------------------------------------- split / count / replace *)
RECURSIVE GenSplit(_, _, _, _)   \* sep non-empty, at most n >= 1 pieces, keep `save` bytes of each separator
GenSplit(s, sep, save, n) ==
  LET i == Index(s, sep) IN
    IF n <= 1 \/ i < 0 THEN <<s>>
    ELSE <<Take(s, i + save)>> \o GenSplit(Drop(s, i + Len(sep)), sep, save, n - 1)
Explode(s, n) == LET r == Runes(s)  l == Len(r)  m == IF n < 0 \/ n > l THEN l ELSE n IN
                   [k \in 1..m |-> IF k < m THEN r[k] ELSE Flat(SubSeq(r, m, l))]
SplitGen(s, sep, save, n) ==
  IF n = 0 THEN <<>>
  ELSE IF sep = <<>> THEN Explode(s, n)
  ELSE GenSplit(s, sep, save, IF n < 0 THEN Len(s) + 1 ELSE n)
SplitN(s, sep, n) == SplitGen(s, sep, 0, n)
SplitAfterN(s, sep, n) == SplitGen(s, sep, Len(sep), n)
Split(s, sep) == SplitN(s, sep, -1)
SplitAfter(s, sep) == SplitAfterN(s, sep, -1)
Count(s, sep) == IF sep = <<>> THEN RuneCount(s) + 1 ELSE Len(GenSplit(s, sep, 0, Len(s) + 1)) - 1

Replace(s, old, new, n) ==
  IF old = new \/ n = 0 THEN s
  ELSE LET m == Count(s, old) IN
    IF m = 0 THEN s
    ELSE LET k == IF n < 0 \/ m < n THEN m ELSE n IN
      IF old = <<>>
      THEN LET r == Runes(s) IN
             new \o Flat([i \in 1..(k - 1) |-> r[i] \o new]) \o Flat(SubSeq(r, k, Len(r)))
      ELSE JoinB(GenSplit(s, old, 0, k + 1), new)
ReplaceAll(s, old, new) == Replace(s, old, new, -1)

RECURSIVE Repeat(_, _)           \* n >= 0 (Go panics for n < 0)
Repeat(s, n) == IF n <= 0 THEN <<>> ELSE s \o Repeat(s, n - 1)

Cut(s, sep) == LET i == Index(s, sep) IN
                 IF i >= 0 THEN <<Take(s, i), Drop(s, i + Len(sep)), TRUE>> ELSE <<s, <<>>, FALSE>>
TrimPrefix(s, p) == IF HasPrefix(s, p) THEN Drop(s, Len(p)) ELSE s
TrimSuffix(s, p) == IF HasSuffix(s, p) THEN Take(s, Len(s) - Len(p)) ELSE s

(* ---------------------------------------------------------------- trimming (cutsets are sets of runes) *)
RECURSIVE DropWhileIn(_, _)
DropWhileIn(r, C) == IF r # <<>> /\ r[1] \in C THEN DropWhileIn(Tail(r), C) ELSE r
RECURSIVE DropEndWhileIn(_, _)
DropEndWhileIn(r, C) == IF r # <<>> /\ Last(r) \in C THEN DropEndWhileIn(Take(r, Len(r) - 1), C) ELSE r
TrimLeft(s, cut) == Flat(DropWhileIn(Runes(s), RuneSet(cut)))
TrimRight(s, cut) == Flat(DropEndWhileIn(Runes(s), RuneSet(cut)))
Trim(s, cut) == Flat(DropEndWhileIn(DropWhileIn(Runes(s), RuneSet(cut)), RuneSet(cut)))
SpaceBytes == {9, 10, 11, 12, 13, 32}       \* ASCII white space; U+0085/U+00A0... are never generated
SpaceRunes == {<<b>> : b \in SpaceBytes}
TrimSpace(s) == Flat(DropEndWhileIn(DropWhileIn(Runes(s), SpaceRunes), SpaceRunes))
RECURSIVE Fields(_)
Fields(s) ==
  LET lead == CHOOSE n \in 0..Len(s) : (\A k \in 1..n : s[k] \in SpaceBytes) /\ (n = Len(s) \/ s[n + 1] \notin SpaceBytes)
      t == Drop(s, lead)
  IN IF t = <<>> THEN <<>>
     ELSE LET w == CHOOSE n \in 1..Len(t) : (\A k \in 1..n : t[k] \notin SpaceBytes) /\ (n = Len(t) \/ t[n + 1] \in SpaceBytes)
          IN <<Take(t, w)>> \o Fields(Drop(t, w))

(* ---------------------------------------------------------------- ASCII case *)
IsLower(b) == b >= 97 /\ b <= 122
IsUpper(b) == b >= 65 /\ b <= 90
IsDigit(b) == b >= 48 /\ b <= 57
Up(b) == IF IsLower(b) THEN b - 32 ELSE b
Lo(b) == IF IsUpper(b) THEN b + 32 ELSE b
ToUpper(s) == [i \in 1..Len(s) |-> Up(s[i])]
ToLower(s) == [i \in 1..Len(s) |-> Lo(s[i])]
EqualFold(a, b) == Len(a) = Len(b) /\ \A i \in 1..Len(a) : Up(a[i]) = Up(b[i])
IsSep(b) == ~(IsLower(b) \/ IsUpper(b) \/ IsDigit(b) \/ b = 95)
Title(s) == [i \in 1..Len(s) |-> IF i = 1 \/ IsSep(s[i - 1]) THEN Up(s[i]) ELSE s[i]]

(* ---------------------------------------------------------------- numbers <-> text *)
DigitChar(d) == IF d < 10 THEN 48 + d ELSE 87 + d          \* 0-9 a-z
RECURSIVE NatText(_, _)
NatText(n, base) == IF n < base THEN <<DigitChar(n)>> ELSE NatText(n \div base, base) \o <<DigitChar(n % base)>>
IntText(n, base) == IF n < 0 THEN <<45>> \o NatText(-n, base) ELSE NatText(n, base)
DigitVal(c) == IF IsDigit(c) THEN c - 48 ELSE IF IsLower(c) THEN c - 87 ELSE IF IsUpper(c) THEN c - 55 ELSE 99
RECURSIVE NatVal(_, _)          \* digits valid for base, value < 2^31 (callers bound the length)
NatVal(d, base) == IF d = <<>> THEN 0 ELSE NatVal(Take(d, Len(d) - 1), base) * base + DigitVal(Last(d))
RECURSIVE StripZeros(_)
StripZeros(d) == IF Len(d) > 1 /\ d[1] = 48 THEN StripZeros(Tail(d)) ELSE d
(* a <= b for canonical (no leading zero) decimal digit strings *)
BigLE(a, b) == Len(a) < Len(b) \/ (Len(a) = Len(b) /\ CmpB(a, b) <= 0)
(* magnitude limits of signed integers of the given width: <<max positive, max negative magnitude>> *)
Limit(bits) == CASE bits = 8  -> << <<49,50,55>>, <<49,50,56>> >>
                 [] bits = 16 -> << <<51,50,55,54,55>>, <<51,50,55,54,56>> >>
                 [] bits = 32 -> << <<50,49,52,55,52,56,51,54,52,55>>, <<50,49,52,55,52,56,51,54,52,56>> >>
                 [] bits = 64 -> << <<57,50,50,51,51,55,50,48,51,54,56,53,52,55,55,53,56,48,55>>,
                                    <<57,50,50,51,51,55,50,48,51,54,56,53,52,55,55,53,56,48,56>> >>
(* strconv.ParseInt(s, base, bits) for base in 2..36, bits in {8,16,32,64}:                      *)
(* result <<ok, neg, canonical magnitude digits in that base>>; ok = FALSE is a syntax/range error *)
ParseSigned(s, base, bits) ==
  LET neg == s # <<>> /\ s[1] = 45
      body == IF s # <<>> /\ s[1] \in {43, 45} THEN Tail(s) ELSE s
      syn == body # <<>> /\ \A i \in 1..Len(body) : DigitVal(body[i]) < base
      mag == StripZeros(body)
      lim == Limit(bits)[IF neg THEN 2 ELSE 1]
      inr == IF base = 10 THEN BigLE(mag, lim)
             ELSE Len(mag) <= 5 /\ BigLE(NatText(NatVal(mag, base), 10), lim)     \* callers keep Len(mag) <= 5 for base # 10
  IN <<syn /\ inr, neg, mag>>
ParseBoolOK(s) == s \in {<<49>>, <<116>>, <<84>>, <<84,82,85,69>>, <<116,114,117,101>>, <<84,114,117,101>>,
                         <<48>>, <<102>>, <<70>>, <<70,65,76,83,69>>, <<102,97,108,115,101>>, <<70,97,108,115,101>>}
ParseBoolVal(s) == s \in {<<49>>, <<116>>, <<84>>, <<84,82,85,69>>, <<116,114,117,101>>, <<84,114,117,101>>}

(* ---------------------------------------------------------------- strconv.Quote / QuoteToASCII *)
Hex(d) == IF d < 10 THEN 48 + d ELSE 87 + d
EscByte(b) == <<92, 120, Hex(b \div 16), Hex(b % 16)>>                                  \* \xNN
EscU(v) == <<92, 117, Hex(v \div 4096), Hex((v \div 256) % 16), Hex((v \div 16) % 16), Hex(v % 16)>>   \* \uNNNN
QuoteASCIIByte(b) ==
  CASE b = 34 -> <<92, 34>> [] b = 92 -> <<92, 92>>
    [] b = 7 -> <<92, 97>> [] b = 8 -> <<92, 98>> [] b = 12 -> <<92, 102>> [] b = 10 -> <<92, 110>>
    [] b = 13 -> <<92, 114>> [] b = 9 -> <<92, 116>> [] b = 11 -> <<92, 118>>
    [] b < 32 \/ b = 127 -> EscByte(b)
    [] OTHER -> <<b>>
(* s is valid UTF-8 whose non-ASCII characters are printable letters, or contains the invalid byte 255 alone *)
RECURSIVE QuoteBody(_, _)
QuoteBody(s, ascii) ==
  IF s = <<>> THEN <<>>
  ELSE IF s[1] < 128 THEN QuoteASCIIByte(s[1]) \o QuoteBody(Tail(s), ascii)
  ELSE IF s[1] >= 245 \/ s[1] < 194 THEN EscByte(s[1]) \o QuoteBody(Tail(s), ascii)
  ELSE LET n == RuneLen(s[1]) c == Take(s, n) IN
         (IF ascii THEN EscU(RuneValue(c)) ELSE c) \o QuoteBody(Drop(s, n), ascii)
Quote(s) == <<34>> \o QuoteBody(s, FALSE) \o <<34>>
QuoteToASCII(s) == <<34>> \o QuoteBody(s, TRUE) \o <<34>>

(* ---------------------------------------------------------------- fmt verbs on scalars *)
(* a format is "%" flags(-+0)* width(digits)* verb ; parsed into [minus, plus, zero, wid, verb(byte)] *)
RECURSIVE ParseFlags(_, _, _)
ParseFlags(t, acc, inwid) ==
  IF ~inwid /\ t # <<>> /\ t[1] \in {45, 43, 48}
    THEN ParseFlags(Tail(t), [acc EXCEPT !.minus = @ \/ t[1] = 45, !.plus = @ \/ t[1] = 43, !.zero = @ \/ t[1] = 48], FALSE)
  ELSE IF t # <<>> /\ IsDigit(t[1]) THEN ParseFlags(Tail(t), [acc EXCEPT !.wid = @ * 10 + (t[1] - 48)], TRUE)
  ELSE [acc EXCEPT !.verb = t[1]]
ParseFmt(f) == ParseFlags(Tail(f), [minus |-> FALSE, plus |-> FALSE, zero |-> FALSE, wid |-> 0, verb |-> 0], FALSE)
RECURSIVE Fill(_, _)
Fill(b, n) == IF n <= 0 THEN <<>> ELSE <<b>> \o Fill(b, n - 1)
PadTo(body, sp) == LET n == RuneCount(body) IN
                     IF n >= sp.wid THEN body
                     ELSE IF sp.minus THEN body \o Fill(32, sp.wid - n) ELSE Fill(32, sp.wid - n) \o body
FmtIntBase(n, sp, base, upper) ==
  LET m0 == NatText(IF n < 0 THEN -n ELSE n, base)
      mag == IF upper THEN ToUpper(m0) ELSE m0
      sign == IF n < 0 THEN <<45>> ELSE IF sp.plus THEN <<43>> ELSE <<>>
  IN IF sp.zero /\ ~sp.minus /\ sp.wid > Len(sign) + Len(mag)
       THEN sign \o Fill(48, sp.wid - Len(sign) - Len(mag)) \o mag
       ELSE PadTo(sign \o mag, sp)
TrueTxt == <<116, 114, 117, 101>>
FalseTxt == <<102, 97, 108, 115, 101>>
BadVerb(sp, ty, txt) == <<37, 33, sp.verb, 40>> \o ty \o <<61>> \o txt \o <<41>>        \* %!v(type=value)
IntTy == <<105, 110, 116>>
StringTy == <<115, 116, 114, 105, 110, 103>>
BoolTy == <<98, 111, 111, 108>>
(* int argument; verbs d x X o b c q v (others: bad verb) ; %c/%q only for printable ASCII other than ' and \ *)
FmtOneInt(f, n) ==
  LET sp == ParseFmt(f) v == sp.verb IN
    CASE v \in {100, 118} -> FmtIntBase(n, sp, 10, FALSE)
      [] v = 120 -> FmtIntBase(n, sp, 16, FALSE)
      [] v = 88  -> FmtIntBase(n, sp, 16, TRUE)
      [] v = 111 -> FmtIntBase(n, sp, 8, FALSE)
      [] v = 98  -> FmtIntBase(n, sp, 2, FALSE)
      [] v = 99  -> PadTo(EncodeRune(n), sp)
      [] v = 113 -> PadTo(<<39>> \o EncodeRune(n) \o <<39>>, sp)
      [] OTHER   -> BadVerb(sp, IntTy, IntText(n, 10))
HexBytes(s) == Flat([i \in 1..Len(s) |-> <<Hex(s[i] \div 16), Hex(s[i] % 16)>>])
FmtOneStr(f, s) ==
  LET sp == ParseFmt(f) v == sp.verb IN
    CASE v \in {115, 118} -> PadTo(s, sp)
      [] v = 113 -> PadTo(<<34>> \o QuoteBody(s, sp.plus) \o <<34>>, sp)
      [] v = 120 -> PadTo(HexBytes(s), sp)
      [] OTHER   -> BadVerb(sp, StringTy, s)
FmtOneBool(f, b) ==
  LET sp == ParseFmt(f) v == sp.verb  t == IF b THEN TrueTxt ELSE FalseTxt IN
    CASE v \in {116, 118} -> PadTo(t, sp)
      [] OTHER   -> BadVerb(sp, BoolTy, t)
(* a format string: literal text, %% and exactly ONE verb specification *)
IsFlagOrDigit(b) == b \in {45, 43, 48} \/ IsDigit(b)
SpecLen(f) == CHOOSE n \in 2..Len(f) : ~IsFlagOrDigit(f[n]) /\ \A k \in 2..(n - 1) : IsFlagOrDigit(f[k])    \* f[1] = "%"
RECURSIVE VerbSpecs(_)        \* the verb specifications of a format, in order
VerbSpecs(f) == IF f = <<>> THEN <<>>
                ELSE IF f[1] # 37 THEN VerbSpecs(Tail(f))
                ELSE IF Len(f) >= 2 /\ f[2] = 37 THEN VerbSpecs(Drop(f, 2))
                ELSE IF Len(f) = 1 THEN << <<37>> >>
                ELSE <<Take(f, SpecLen(f))>> \o VerbSpecs(Drop(f, SpecLen(f)))
FmtOne(spec, kind, x) == CASE kind = "i" -> FmtOneInt(spec, x) [] kind = "s" -> FmtOneStr(spec, x) [] kind = "b" -> FmtOneBool(spec, x)
RECURSIVE Sprintf1(_, _, _)   \* fmt.Sprintf(f, x) for a format with one verb
Sprintf1(f, kind, x) ==
  IF f = <<>> THEN <<>>
  ELSE IF f[1] # 37 THEN <<f[1]>> \o Sprintf1(Tail(f), kind, x)
  ELSE IF f[2] = 37 THEN <<37>> \o Sprintf1(Drop(f, 2), kind, x)
  ELSE FmtOne(Take(f, SpecLen(f)), kind, x) \o Sprintf1(Drop(f, SpecLen(f)), kind, x)
(* claimed domain: one complete verb, flags only where Go's meaning is modelled *)
FmtWF(f, kind, x) ==
  /\ Len(VerbSpecs(f)) = 1 /\ Len(VerbSpecs(f)[1]) >= 2
  /\ LET sp == ParseFmt(VerbSpecs(f)[1]) v == sp.verb
         good == CASE kind = "i" -> v \in {100, 118, 120, 88, 111, 98, 99, 113}
                   [] kind = "s" -> v \in {115, 118, 113, 120}
                   [] kind = "b" -> v \in {116, 118}
     IN /\ (~good => (~sp.minus /\ ~sp.plus /\ ~sp.zero /\ sp.wid = 0))          \* bad verbs: no flags
        /\ (sp.zero => (kind = "i" /\ v \in {100, 120, 88, 111, 98}))
        /\ (sp.plus => ((kind = "i" /\ v \in {100, 120, 88, 111, 98}) \/ (kind = "s" /\ v = 113)))
        /\ ((kind = "i" /\ v \in {99, 113}) => ((x >= 32 /\ x < 127 /\ x \notin {39, 92}) \/ x = 233))

(* ---------------------------------------------------------------- encoding/json text of scalar and list values *)
JsonByte(b) ==
  CASE b = 34 -> <<92, 34>> [] b = 92 -> <<92, 92>>
    [] b = 8 -> <<92, 98>> [] b = 12 -> <<92, 102>> [] b = 10 -> <<92, 110>> [] b = 13 -> <<92, 114>> [] b = 9 -> <<92, 116>>
    [] b < 32 \/ b \in {60, 62, 38} -> <<92, 117, 48, 48, Hex(b \div 16), Hex(b % 16)>>
    [] OTHER -> <<b>>
RECURSIVE JsonStrBody(_)           \* valid UTF-8 (other than U+2028/9) or the invalid byte 255 -> U+FFFD
JsonStrBody(s) ==
  IF s = <<>> THEN <<>>
  ELSE IF s[1] < 128 THEN JsonByte(s[1]) \o JsonStrBody(Tail(s))
  ELSE IF s[1] >= 245 \/ s[1] < 194 THEN <<92, 117, 102, 102, 102, 100>> \o JsonStrBody(Tail(s))
  ELSE LET n == RuneLen(s[1]) IN Take(s, n) \o JsonStrBody(Drop(s, n))
JsonStr(s) == <<34>> \o JsonStrBody(s) \o <<34>>
JsonList(items) == <<91>> \o JoinB(items, <<44>>) \o <<93>>

(* ---------------------------------------------------------------- Roman numerals 1..3999 *)
RomanDigit(d, one, five, ten) ==
  CASE d = 0 -> <<>> [] d = 1 -> <<one>> [] d = 2 -> <<one, one>> [] d = 3 -> <<one, one, one>>
    [] d = 4 -> <<one, five>> [] d = 5 -> <<five>> [] d = 6 -> <<five, one>> [] d = 7 -> <<five, one, one>>
    [] d = 8 -> <<five, one, one, one>> [] d = 9 -> <<one, ten>>
Roman(n) == RomanDigit(n \div 1000, 77, 63, 63) \o RomanDigit((n \div 100) % 10, 67, 68, 77)
            \o RomanDigit((n \div 10) % 10, 88, 76, 67) \o RomanDigit(n % 10, 73, 86, 88)
RomanVal(c) == CASE c = 73 -> 1 [] c = 86 -> 5 [] c = 88 -> 10 [] c = 76 -> 50 [] c = 67 -> 100 [] c = 68 -> 500 [] c = 77 -> 1000
RECURSIVE RomanParse(_)         \* subtractive reading of a well-formed numeral
RomanParse(s) == IF s = <<>> THEN 0
                 ELSE IF Len(s) > 1 /\ RomanVal(s[1]) < RomanVal(s[2]) THEN RomanParse(Tail(s)) - RomanVal(s[1])
                 ELSE RomanParse(Tail(s)) + RomanVal(s[1])

(* ---------------------------------------------------------------- base64 (standard alphabet, padded) *)
B64Char(v) == IF v < 26 THEN 65 + v ELSE IF v < 52 THEN 71 + v ELSE IF v < 62 THEN v - 4 ELSE IF v = 62 THEN 43 ELSE 47
B64Val(c) == IF IsUpper(c) THEN c - 65 ELSE IF IsLower(c) THEN c - 71 ELSE IF IsDigit(c) THEN c + 4
             ELSE IF c = 43 THEN 62 ELSE IF c = 47 THEN 63 ELSE 99
RECURSIVE B64Encode(_)
B64Encode(s) ==
  IF s = <<>> THEN <<>>
  ELSE IF Len(s) = 1 THEN <<B64Char(s[1] \div 4), B64Char((s[1] % 4) * 16), 61, 61>>
  ELSE IF Len(s) = 2 THEN <<B64Char(s[1] \div 4), B64Char((s[1] % 4) * 16 + s[2] \div 16), B64Char((s[2] % 16) * 4), 61>>
  ELSE <<B64Char(s[1] \div 4), B64Char((s[1] % 4) * 16 + s[2] \div 16),
         B64Char((s[2] % 16) * 4 + s[3] \div 64), B64Char(s[3] % 64)>> \o B64Encode(Drop(s, 3))
(* Go's StdEncoding.DecodeString on input without CR/LF: quanta of 4; padding only in the last quantum; *)
(* trailing bits are not checked (non-strict).  <<ok, bytes>>                                           *)
B64Quantum(q, last) ==
  LET v == [i \in 1..4 |-> B64Val(q[i])] IN
    IF \A i \in 1..4 : v[i] < 64
      THEN <<TRUE, <<v[1] * 4 + v[2] \div 16, (v[2] % 16) * 16 + v[3] \div 4, (v[3] % 4) * 64 + v[4]>> >>
    ELSE IF last /\ v[1] < 64 /\ v[2] < 64 /\ v[3] < 64 /\ q[4] = 61
      THEN <<TRUE, <<v[1] * 4 + v[2] \div 16, (v[2] % 16) * 16 + v[3] \div 4>> >>
    ELSE IF last /\ v[1] < 64 /\ v[2] < 64 /\ q[3] = 61 /\ q[4] = 61
      THEN <<TRUE, <<v[1] * 4 + v[2] \div 16>> >>
    ELSE <<FALSE, <<>> >>
RECURSIVE B64Decode(_)
B64Decode(s) ==
  IF s = <<>> THEN <<TRUE, <<>> >>
  ELSE IF Len(s) < 4 THEN <<FALSE, <<>> >>
  ELSE LET q == B64Quantum(Take(s, 4), Len(s) = 4)  rest == B64Decode(Drop(s, 4)) IN
         <<q[1] /\ rest[1], q[2] \o rest[2]>>

(* ---------------------------------------------------------------- sorting *)
(* the ordering is named by a mode string (recursive operators cannot take operator arguments) *)
LessM(m, a, b) == CASE m = "int" -> a < b
                    [] m = "str" -> LessB(a, b)
                    [] m = "key" -> (a \div 100) < (b \div 100)    \* elements are key*100+tag: the tag carries identity
RECURSIVE InsertSorted(_, _, _)   \* insert x after every element that is not greater (stable)
InsertSorted(l, x, m) == IF l = <<>> THEN <<x>>
                         ELSE IF LessM(m, x, l[1]) THEN <<x>> \o l
                         ELSE <<l[1]>> \o InsertSorted(Tail(l), x, m)
RECURSIVE StableSort(_, _)
StableSort(l, m) == IF l = <<>> THEN <<>>
                    ELSE InsertSorted(StableSort(Take(l, Len(l) - 1), m), Last(l), m)
SortInts(l) == StableSort(l, "int")
SortStrs(l) == StableSort(l, "str")
SortByKeyStable(l) == StableSort(l, "key")
Ordered(l, m) == \A i \in 1..(Len(l) - 1) : ~LessM(m, l[i + 1], l[i])
CountOf(l, x) == Cardinality({i \in 1..Len(l) : l[i] = x})
IsPerm(a, b) == Len(a) = Len(b) /\ \A i \in 1..Len(a) : CountOf(a, a[i]) = CountOf(b, a[i])
SearchGE(l, x, m) == LET H == {i \in 1..Len(l) : ~LessM(m, l[i], x)} IN IF H = {} THEN Len(l) ELSE SetMin(H) - 1

(* ---------------------------------------------------------------- path/filepath (Unix, lexical) *)
Slash == 47
Dot == 46
RECURSIVE CleanStack(_, _, _)
CleanStack(comps, stack, rooted) ==
  IF comps = <<>> THEN stack
  ELSE LET c == comps[1] rest == Tail(comps) IN
    IF c = <<>> \/ c = <<Dot>> THEN CleanStack(rest, stack, rooted)
    ELSE IF c = <<Dot, Dot>> THEN
      IF stack # <<>> /\ Last(stack) # <<Dot, Dot>> THEN CleanStack(rest, Take(stack, Len(stack) - 1), rooted)
      ELSE IF rooted THEN CleanStack(rest, stack, rooted)
      ELSE CleanStack(rest, Append(stack, c), rooted)
    ELSE CleanStack(rest, Append(stack, c), rooted)
Clean(p) ==
  IF p = <<>> THEN <<Dot>>
  ELSE LET rooted == p[1] = Slash
           st == CleanStack(GenSplit(p, <<Slash>>, 0, Len(p) + 1), <<>>, rooted)
           body == JoinB(st, <<Slash>>)
       IN IF rooted THEN <<Slash>> \o body ELSE IF body = <<>> THEN <<Dot>> ELSE body
RECURSIVE StripSlashes(_)
StripSlashes(p) == IF p # <<>> /\ Last(p) = Slash THEN StripSlashes(Take(p, Len(p) - 1)) ELSE p
Base(p) == IF p = <<>> THEN <<Dot>>
           ELSE LET q == StripSlashes(p) IN
             IF q = <<>> THEN <<Slash>>
             ELSE Drop(q, LastIndex(q, <<Slash>>) + 1)
Dir(p) == Clean(Take(p, LastIndex(p, <<Slash>>) + 1))
Ext(p) == LET b == Drop(p, LastIndex(p, <<Slash>>) + 1)  i == LastIndex(b, <<Dot>>) IN
            IF i < 0 THEN <<>> ELSE Drop(b, i)
PathJoin(l) == LET ne == SelectSeq(l, LAMBDA e : e # <<>>) IN
                 IF ne = <<>> THEN <<>> ELSE Clean(JoinB(ne, <<Slash>>))

(* ---------------------------------------------------------------- integer folds *)
RECURSIVE MaxOf(_)
MaxOf(l) == IF Len(l) = 1 THEN l[1] ELSE LET m == MaxOf(Tail(l)) IN IF l[1] >= m THEN l[1] ELSE m
RECURSIVE MinOf(_)
MinOf(l) == IF Len(l) = 1 THEN l[1] ELSE LET m == MinOf(Tail(l)) IN IF l[1] <= m THEN l[1] ELSE m
RECURSIVE SumOf(_)
SumOf(l) == IF l = <<>> THEN 0 ELSE l[1] + SumOf(Tail(l))
Abs(n) == IF n < 0 THEN -n ELSE n
=============================================================================

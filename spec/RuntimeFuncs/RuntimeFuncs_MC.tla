--------------------------- MODULE RuntimeFuncs_MC ---------------------------
(* Model-level check of the reference semantics itself: the documented       *)
(* round trips and contracts of C11 (and the algebraic identities that tie   *)
(* the definitions to each other) hold for EVERY value of the bounded        *)
(* domains.  Each initial state is one instance of one law; Law is the       *)
(* invariant.  (The binding to the real code is RuntimeFuncs_Gen/_Trace.)    *)
EXTENDS RuntimeFuncs

VARIABLE c
Inst(law, x, y) == [law |-> law, x |-> x, y |-> y]
None == S(<<>>)
MCInit ==
  \/ \E x \in D_Bytes : c = Inst("b64", x, None)
  \/ \E x \in D_Bytes : c = Inst("quote", x, None)
  \/ \E x \in D_B64 : c = Inst("b64dec", x, None)
  \/ \E n \in 1..3999 : c = Inst("roman", S(<<n>>), None)
  \/ \E x \in D_T : \E y \in D_P : c = Inst("str2", x, y)
  \/ \E x \in D_Ta : c = Inst("case", x, None)
  \/ \E x \in D_LI : c = Inst("sortint", S(x.v), None)
  \/ \E x \in D_LS : c = Inst("sortstr", S(x.v), None)
  \/ \E x \in D_Keyed : c = Inst("stable", S(x.v), None)
  \/ \E x \in D_Int : c = Inst("atoi", S(DecText(x)), None)
  \/ \E x \in D_Path : c = Inst("path", x, None)
MCNext == UNCHANGED c

NoSlash(p) == \A i \in 1..Len(p) : p[i] # Slash
Law ==
  LET x == c.x.v  y == c.y.v IN
  CASE c.law = "b64" ->
         /\ B64Decode(B64Encode(x)) = <<TRUE, x>>                       \* base64 decode of an encode
         /\ Len(B64Encode(x)) = 4 * ((Len(x) + 2) \div 3)
    [] c.law = "b64dec" ->                                                \* what decodes re-encodes to a string that decodes equally
         LET d == B64Decode(x) IN d[1] => B64Decode(B64Encode(d[2])) = d
    [] c.law = "quote" ->
         /\ IsASCII(QuoteToASCII(x))
         /\ Quote(x)[1] = 34 /\ Last(Quote(x)) = 34
         /\ \A i \in 2..(Len(Quote(x)) - 1) : Quote(x)[i] >= 32 /\ Quote(x)[i] # 127
    [] c.law = "roman" -> RomanParse(Roman(x[1])) = x[1] /\ Roman(x[1]) # <<>>      \* Roman parse of a format
    [] c.law = "str2" ->
         /\ (y # <<>> => JoinB(Split(x, y), y) = x)
         /\ (y # <<>> => Count(x, y) = Len(Split(x, y)) - 1)
         /\ Flat(SplitAfter(x, y)) = x
         /\ (y # <<>> => ReplaceAll(x, y, <<45>>) = JoinB(Split(x, y), <<45>>))
         /\ Contains(x, y) = (Index(x, y) >= 0)
         /\ (Index(x, y) >= 0) = (LastIndex(x, y) >= 0)
         /\ Index(x, y) <= LastIndex(x, y)
         /\ HasPrefix(x, y) = (Index(x, y) = 0)
         /\ HasSuffix(x, y) = (LastIndex(x, y) >= 0 /\ LastIndex(x, y) = Len(x) - Len(y))
         /\ LET k == Cut(x, y) IN IF k[3] THEN k[1] \o y \o k[2] = x ELSE k[1] = x /\ k[2] = <<>>
         /\ (HasPrefix(x, y) => y \o TrimPrefix(x, y) = x)
         /\ Trim(x, y) = TrimLeft(TrimRight(x, y), y)
         /\ CmpB(x, y) = -CmpB(y, x)
         /\ JoinB(Fields(x), <<32>>) = JoinB(Fields(TrimSpace(x)), <<32>>)
         /\ Len(Repeat(y, 3)) = 3 * Len(y)
    [] c.law = "case" ->
         /\ ToUpper(ToLower(x)) = ToUpper(x) /\ ToLower(ToUpper(x)) = ToLower(x)
         /\ EqualFold(x, ToUpper(x)) /\ EqualFold(ToLower(x), x)
         /\ ToLower(Title(x)) = ToLower(x)
    [] c.law = "sortint" ->                                               \* sort results are ordered permutations
         /\ IsPerm(SortInts(x), x) /\ Ordered(SortInts(x), "int")
         /\ Ordered(x, "int") = (SortInts(x) = x)
         /\ \A v \in {-2, 0, 2, 11} : LET k == SearchGE(SortInts(x), v, "int") IN
              /\ \A i \in 1..k : SortInts(x)[i] < v
              /\ \A i \in (k + 1)..Len(x) : SortInts(x)[i] >= v
    [] c.law = "sortstr" -> IsPerm(SortStrs(x), x) /\ Ordered(SortStrs(x), "str")
    [] c.law = "stable" ->                                                \* stable variants keep equal keys in input order
         LET r == SortByKeyStable(x) IN
           /\ IsPerm(r, x) /\ Ordered(r, "key")
           /\ \A i \in 1..Len(r) : \A j \in (i + 1)..Len(r) : (r[i] \div 100 = r[j] \div 100) => (r[i] % 100 < r[j] % 100)
    [] c.law = "atoi" ->                                                  \* Atoi of an Itoa
         LET p == ParseSigned(x, 10, 64) IN
           p[1] /\ DecText(MkInt("i", p[2], p[3])) = x
    [] c.law = "path" ->
         /\ Clean(Clean(x)) = Clean(x)
         /\ (Base(x) = <<Slash>> \/ NoSlash(Base(x)))
         /\ Dir(x) = Clean(Dir(x))
         /\ (x = <<>> \/ Last(x) # Slash => PathJoin(<<Dir(x), Base(x)>>) = Clean(x))
         /\ (Ext(x) # <<>> => Ext(x)[1] = Dot /\ HasSuffix(x, Ext(x)))
=============================================================================

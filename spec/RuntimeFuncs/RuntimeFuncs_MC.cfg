INIT MCInit
NEXT MCNext
CONSTANTS
  TLen = 4
  LLen = 3
INVARIANTS Law
CHECK_DEADLOCK FALSE

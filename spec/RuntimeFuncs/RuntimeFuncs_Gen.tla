-------------------------- MODULE RuntimeFuncs_Gen --------------------------
(* Case generator for binding F.  Every initial state is one call           *)
(* [fn, args, ctx] of a mirrored function with well-formed arguments drawn   *)
(* from the function's parameter domains: ALL argument tuples when the       *)
(* domains are small enough (K >= |domain|), otherwise a pseudo-random       *)
(* subset (TLC -seed = VERIF_SEED) plus the domain's boundary values Must.  Only INPUTS (and the static signature   *)
(* the harness needs to print results) are emitted; the expected results     *)
(* stay in TLC and are applied by RuntimeFuncs_Trace to the logged outputs.  *)
(* ctx = how the harness writes the call: arguments as literals or through   *)
(* typed variables, result assigned or used directly, typing mode and        *)
(* optimizer level of `ego run`.                                             *)
EXTENDS RuntimeFuncs, Json, Randomization

CONSTANTS Fns,                \* names of the functions to generate for ({} = all of Table)
          K1, K2, K3, K4      \* per-parameter sample size for functions of 1, 2, 3, 4 parameters
VARIABLE c

Pick(d, k) == LET D == Dom(d) IN IF Cardinality(D) <= k THEN D ELSE Must(d) \cup RandomSubset(k, D)
Ctxs == [arg : {"lit", "var"}, res : {"asg", "dir"}, mode : {"strict", "relaxed", "dynamic"}, opt : {0, 1, 2}]
Case(r, a) == [fn |-> r.fn, args |-> a, ret |-> r.ret, sh |-> r.sh, go |-> r.go, ctx |-> RandomElement(Ctxs)]

GenInit ==
  \E n \in 1..Len(Table) :
    LET r == Table[n]  p == r.par IN
      /\ Fns = {} \/ r.fn \in Fns
      /\ CASE Len(p) = 1 -> \E x \in Pick(p[1], K1) :
                              WF(r.fn, <<x>>) /\ c = Case(r, <<x>>)
           [] Len(p) = 2 -> \E x \in Pick(p[1], K2) : \E y \in Pick(p[2], K2) :
                              WF(r.fn, <<x, y>>) /\ c = Case(r, <<x, y>>)
           [] Len(p) = 3 -> \E x \in Pick(p[1], K3) : \E y \in Pick(p[2], K3) : \E z \in Pick(p[3], K3) :
                              WF(r.fn, <<x, y, z>>) /\ c = Case(r, <<x, y, z>>)
           [] Len(p) = 4 -> \E x \in Pick(p[1], K4) : \E y \in Pick(p[2], K4) : \E z \in Pick(p[3], K4) : \E w \in Pick(p[4], K4) :
                              WF(r.fn, <<x, y, z, w>>) /\ c = Case(r, <<x, y, z, w>>)
GenNext == UNCHANGED c
Emit == PrintT(ToJson(c))
=============================================================================

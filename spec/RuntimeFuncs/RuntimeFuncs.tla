---------------------------- MODULE RuntimeFuncs ----------------------------
(* C11 - runtime packages match the Go functions they wrap (discrete part).   *)
(*                                                                            *)
(* RFCore holds the reference semantics.  This module adds                    *)
(*   - the VALUE MODEL shared with the harness (JSON records, see below),     *)
(*   - the table of mirrored functions (Table: name, parameter domains,       *)
(*     result types, call shape),                                             *)
(*   - Eval(fn, args): the result the Go function produces (the oracle),      *)
(*   - WF(fn, args): the domain on which Eval is claimed (inputs outside it   *)
(*     are never violations),                                                 *)
(*   - Post(rec): the contract that judges one logged call of the real ego    *)
(*     binary (binding F), and Key(rec): the abstract identity of the case.   *)
(*                                                                            *)
(* VALUE MODEL (also the JSON format of cases and logged I/O)                 *)
(*   string      [t |-> "s",  v |-> <<bytes>>]                                *)
(*   int/int64/byte/int32   [t |-> "i"|"i64"|"by"|"r", v |-> n, d |-> <<>>]   *)
(*               |n| <= 10^9; otherwise v = 0 and d = the decimal text bytes  *)
(*   float64 with an integral value  [t |-> "f", v |-> n, d |-> <<>>]         *)
(*   bool        [t |-> "b",  v |-> TRUE/FALSE]                               *)
(*   error       [t |-> "e",  v |-> TRUE iff the error is non-nil]            *)
(*   []string    [t |-> "ls", v |-> << <<bytes>>, ... >>]                     *)
(*   []int       [t |-> "li", v |-> <<n, ...>>]                               *)
(*   result      [st |-> "ok", vals |-> <<value, ...>>]  the call returned    *)
(*               [st |-> "fail", vals |-> <<>>]  Go panics / ego raises a     *)
(*                                               (catchable) runtime error    *)
(*               [st |-> "abort", vals |-> <<>>] the ego process died         *)
EXTENDS RFCore, TLC

S(b)   == [t |-> "s", v |-> b]
I(n)   == [t |-> "i", v |-> n, d |-> <<>>]
I64(n) == [t |-> "i64", v |-> n, d |-> <<>>]
By(n)  == [t |-> "by", v |-> n, d |-> <<>>]
R(n)   == [t |-> "r", v |-> n, d |-> <<>>]
F(n)   == [t |-> "f", v |-> n, d |-> <<>>]
B(x)   == [t |-> "b", v |-> x]
E(x)   == [t |-> "e", v |-> x]
LS(l)  == [t |-> "ls", v |-> l]
LI(l)  == [t |-> "li", v |-> l]
Big(ty, txt) == [t |-> ty, v |-> 0, d |-> txt]
IntTypes == {"i", "i64", "by", "r", "f"}
IsBig(x) == x.d # <<>>
(* canonical integer value from sign + canonical magnitude digits (base 10) *)
MkInt(ty, neg, mag) ==
  IF mag = <<48>> THEN [t |-> ty, v |-> 0, d |-> <<>>]
  ELSE IF Len(mag) <= 9 THEN [t |-> ty, v |-> (IF neg THEN -NatVal(mag, 10) ELSE NatVal(mag, 10)), d |-> <<>>]
  ELSE IF mag = <<49,48,48,48,48,48,48,48,48,48>> THEN [t |-> ty, v |-> (IF neg THEN -1000000000 ELSE 1000000000), d |-> <<>>]
  ELSE Big(ty, IF neg THEN <<45>> \o mag ELSE mag)
DecText(x) == IF IsBig(x) THEN x.d ELSE IntText(x.v, 10)

Ok(vals) == [st |-> "ok", vals |-> vals]
Fail == [st |-> "fail", vals |-> <<>>]

(* ------------------------------------------------------------------ function table *)
(* par: parameter domains (see Dom); ret: result types as printed by the harness;     *)
(* sh: call shape the harness projects the case with:                                 *)
(*   "n" plain call  "v" last (list) argument spread as variadic arguments            *)
(*   "v64" the same with every element written int64(x)                               *)
(*   "ip" sort in place: a := arg; r := f(a); observe a and r                         *)
(*   "ipb" in-place predicate on an array (IsSorted...)                               *)
(*   "sl" sort.Slice/SliceStable with the comparator a[i]/100 < a[j]/100              *)
(*   "se" sort.Search(n, func(i) bool { return i >= k })                              *)
(*   "rt64" d, err := base64.Decode(base64.Encode(x))                                 *)
(*   "rtrom" n, err := strconv.Rtoi(first result of strconv.Itor(x))                  *)
(*   "rtq" s, err := strconv.Unquote(strconv.Quote(x))                                *)
(*   "js" b, err := json.Marshal(x); observe string(b), err                           *)
(*   "rtjs" b, _ := json.Marshal(x); var w T; err := json.Unmarshal(b, &w); observe w *)
(* a suffix [..] of the name only distinguishes argument types (same ego function)    *)
(* go: TRUE when the case is legal Go and is cross-checked against the Go toolchain   *)
Row(fn, par, ret, sh, go) == [fn |-> fn, par |-> par, ret |-> ret, sh |-> sh, go |-> go]
Table == <<
  Row("strings.Index",        <<"T", "P">>, <<"i">>, "n", TRUE),
  Row("strings.LastIndex",    <<"T", "P">>, <<"i">>, "n", TRUE),
  Row("strings.Contains",     <<"T", "P">>, <<"b">>, "n", TRUE),
  Row("strings.HasPrefix",    <<"T", "P">>, <<"b">>, "n", TRUE),
  Row("strings.HasSuffix",    <<"T", "P">>, <<"b">>, "n", TRUE),
  Row("strings.Count",        <<"T", "P">>, <<"i">>, "n", TRUE),
  Row("strings.Compare",      <<"T", "T">>, <<"i">>, "n", TRUE),
  Row("strings.IndexByte",    <<"T", "By">>, <<"i">>, "n", TRUE),
  Row("strings.LastIndexByte", <<"T", "By">>, <<"i">>, "n", TRUE),
  Row("strings.IndexAny",     <<"T", "P">>, <<"i">>, "n", TRUE),
  Row("strings.LastIndexAny", <<"T", "P">>, <<"i">>, "n", TRUE),
  Row("strings.ContainsAny",  <<"T", "P">>, <<"b">>, "n", TRUE),
  Row("strings.IndexRune",    <<"T", "R">>, <<"i">>, "n", TRUE),
  Row("strings.ContainsRune", <<"T", "R">>, <<"b">>, "n", TRUE),
  Row("strings.EqualFold",    <<"Ta", "Ta">>, <<"b">>, "n", TRUE),
  Row("strings.ToUpper",      <<"Ta">>, <<"s">>, "n", TRUE),
  Row("strings.ToLower",      <<"Ta">>, <<"s">>, "n", TRUE),
  Row("strings.ToTitle",      <<"Ta">>, <<"s">>, "n", TRUE),
  Row("strings.Title",        <<"Ta">>, <<"s">>, "n", TRUE),
  Row("strings.Clone",        <<"T">>, <<"s">>, "n", TRUE),
  Row("strings.Repeat",       <<"P", "N">>, <<"s">>, "n", TRUE),
  Row("strings.Replace",      <<"T", "P", "P", "N">>, <<"s">>, "n", TRUE),
  Row("strings.ReplaceAll",   <<"T", "P", "P">>, <<"s">>, "n", TRUE),
  Row("strings.Split",        <<"T", "P">>, <<"ls">>, "n", TRUE),
  Row("strings.Split1",       <<"Tn">>, <<"ls">>, "n", FALSE),      \* ego extension: one argument splits on "\n"
  Row("strings.SplitN",       <<"T", "P", "N">>, <<"ls">>, "n", TRUE),
  Row("strings.SplitAfter",   <<"T", "P">>, <<"ls">>, "n", TRUE),
  Row("strings.SplitAfterN",  <<"T", "P", "N">>, <<"ls">>, "n", TRUE),
  Row("strings.Join",         <<"LS", "P">>, <<"s">>, "n", TRUE),
  Row("strings.Fields",       <<"T">>, <<"ls">>, "n", TRUE),
  Row("strings.Trim",         <<"T", "P">>, <<"s">>, "n", TRUE),
  Row("strings.TrimLeft",     <<"T", "P">>, <<"s">>, "n", TRUE),
  Row("strings.TrimRight",    <<"T", "P">>, <<"s">>, "n", TRUE),
  Row("strings.TrimPrefix",   <<"T", "P">>, <<"s">>, "n", TRUE),
  Row("strings.TrimSuffix",   <<"T", "P">>, <<"s">>, "n", TRUE),
  Row("strings.TrimSpace",    <<"T">>, <<"s">>, "n", TRUE),
  Row("strings.Cut",          <<"T", "P">>, <<"s", "s", "b">>, "n", TRUE),
  Row("strings.CutPrefix",    <<"T", "P">>, <<"s", "b">>, "n", TRUE),
  Row("strings.CutSuffix",    <<"T", "P">>, <<"s", "b">>, "n", TRUE),
  Row("strconv.Itoa",         <<"Int">>, <<"s">>, "n", TRUE),
  Row("strconv.Atoi",         <<"Num">>, <<"i", "e">>, "n", TRUE),
  Row("strconv.FormatInt",    <<"Int64", "Base">>, <<"s">>, "n", TRUE),
  Row("strconv.ParseInt",     <<"Num", "Base", "Bits">>, <<"i64", "e">>, "n", TRUE),
  Row("strconv.FormatBool",   <<"Bool">>, <<"s">>, "n", TRUE),
  Row("strconv.ParseBool",    <<"BoolTxt">>, <<"b", "e">>, "n", TRUE),
  Row("strconv.Quote",        <<"Bytes">>, <<"s">>, "n", TRUE),
  Row("strconv.QuoteToASCII", <<"Bytes">>, <<"s">>, "n", TRUE),
  Row("strconv.Unquote(Quote)", <<"Bytes">>, <<"s", "e">>, "rtq", TRUE),
  Row("strconv.Itor",         <<"Rom">>, <<"s", "e">>, "n", FALSE),
  Row("strconv.Rtoi(Itor)",   <<"Rom">>, <<"i", "e">>, "rtrom", FALSE),
  Row("base64.Encode",        <<"Bytes">>, <<"s">>, "n", TRUE),
  Row("base64.Decode",        <<"B64">>, <<"s", "e">>, "n", TRUE),
  Row("base64.Decode(Encode)", <<"Bytes">>, <<"s", "e">>, "rt64", TRUE),
  Row("math.Max",             <<"LI1">>, <<"i">>, "v", TRUE),
  Row("math.Min",             <<"LI1">>, <<"i">>, "v", TRUE),
  Row("math.Sum",             <<"LI1">>, <<"i">>, "v", FALSE),
  Row("math.Max[i64]",        <<"LI1">>, <<"i64">>, "v64", TRUE),
  Row("math.Min[i64]",        <<"LI1">>, <<"i64">>, "v64", TRUE),
  Row("math.Sum[i64]",        <<"LI1">>, <<"i64">>, "v64", FALSE),
  Row("math.Abs",             <<"Nf">>, <<"f">>, "n", TRUE),
  Row("sort.Ints",            <<"LI">>, <<"li", "li">>, "ip", TRUE),
  Row("sort.Strings",         <<"LS">>, <<"ls", "ls">>, "ip", TRUE),
  Row("sort.Sort",            <<"LI">>, <<"li", "li">>, "ip", FALSE),
  Row("sort.Stable",          <<"LI">>, <<"li", "li">>, "ip", FALSE),
  Row("sort.Slice",           <<"Keyed">>, <<"li">>, "sl", TRUE),
  Row("sort.SliceStable",     <<"Keyed">>, <<"li">>, "sl", TRUE),
  Row("sort.IntsAreSorted",   <<"LI">>, <<"b">>, "n", TRUE),
  Row("sort.StringsAreSorted", <<"LS">>, <<"b">>, "n", TRUE),
  Row("sort.SearchInts",      <<"LIs", "N">>, <<"i">>, "n", TRUE),
  Row("sort.SearchStrings",   <<"LSs", "P">>, <<"i">>, "n", TRUE),
  Row("sort.Search",          <<"N", "N">>, <<"i">>, "se", TRUE),
  Row("filepath.Base",        <<"Path">>, <<"s">>, "n", TRUE),
  Row("filepath.Dir",         <<"Path">>, <<"s">>, "n", TRUE),
  Row("filepath.Ext",         <<"Path">>, <<"s">>, "n", TRUE),
  Row("filepath.Clean",       <<"Path">>, <<"s">>, "n", TRUE),
  Row("filepath.Join",        <<"LP">>, <<"s">>, "v", TRUE),
  Row("fmt.Sprintf[i]",       <<"FmtI", "FInt">>, <<"s">>, "n", TRUE),
  Row("fmt.Sprintf[s]",       <<"FmtS", "FStr">>, <<"s">>, "n", TRUE),
  Row("fmt.Sprintf[b]",       <<"FmtB", "Bool">>, <<"s">>, "n", TRUE),
  Row("json.Marshal[i]",      <<"Int">>, <<"s", "e">>, "js", TRUE),
  Row("json.Marshal[s]",      <<"JStr">>, <<"s", "e">>, "js", TRUE),
  Row("json.Marshal[b]",      <<"Bool">>, <<"s", "e">>, "js", TRUE),
  Row("json.Marshal[li]",     <<"LI">>, <<"s", "e">>, "js", TRUE),
  Row("json.Marshal[ls]",     <<"JLS">>, <<"s", "e">>, "js", TRUE),
  Row("json.Unmarshal(Marshal)[i]",  <<"Int">>, <<"i", "e">>, "rtjs", TRUE),
  Row("json.Unmarshal(Marshal)[s]",  <<"JStrV">>, <<"s", "e">>, "rtjs", TRUE),
  Row("json.Unmarshal(Marshal)[b]",  <<"Bool">>, <<"b", "e">>, "rtjs", TRUE),
  Row("json.Unmarshal(Marshal)[li]", <<"LI">>, <<"li", "e">>, "rtjs", TRUE),
  Row("json.Unmarshal(Marshal)[ls]", <<"JLSV">>, <<"ls", "e">>, "rtjs", TRUE)
>>
AllFns == {Table[i].fn : i \in 1..Len(Table)}
RowOf(fn) == Table[CHOOSE i \in 1..Len(Table) : Table[i].fn = fn]

(* ------------------------------------------------------------------ argument domains *)
CONSTANTS TLen,        \* maximal number of characters of a text argument
          LLen         \* maximal length of a list argument
Seqs(A, n) == UNION {[1..k -> A] : k \in 0..n}
Words(A, n) == {Flat(w) : w \in Seqs(A, n)}           \* A is a set of characters (byte strings)
Ch(b) == <<b>>
EAcute == <<195, 169>>                                \* U+00E9
CJK == <<228, 184, 150>>                              \* U+4E16
MaxI64 == <<57,50,50,51,51,55,50,48,51,54,56,53,52,55,55,53,56,48,55>>
MinI64m == <<57,50,50,51,51,55,50,48,51,54,56,53,52,55,55,53,56,48,56>>
Neg(t) == <<45>> \o t
SmallInts == {0, 1, -1, 7, 10, 35, 36, 127, 128, -128, -129, 255, 256, 32767, 32768, -32768, -32769, 65535, 1000000000, -1000000000}
BigTexts == {MaxI64, Neg(MinI64m), Neg(MaxI64), <<50,49,52,55,52,56,51,54,52,55>>, <<50,49,52,55,52,56,51,54,52,56>>,
             Neg(<<50,49,52,55,52,56,51,54,52,56>>), Neg(<<50,49,52,55,52,56,51,54,52,57>>), <<52,50,57,52,57,54,55,50,57,53>>}
NumTexts == Words({Ch(49), Ch(57), Ch(48), Ch(45), Ch(43), Ch(97)}, 2) \cup {<<32,49>>, <<49,95,48>>, <<49,32>>, <<45,48>>, <<43,45,49>>}
            \cup BigTexts \cup {MinI64m, Neg(<<57,50,50,51,51,55,50,48,51,54,56,53,52,55,55,53,56,48,57>>)}
            \cup {IntText(n, 10) : n \in SmallInts} \cup {<<48,48,49,50,55>>, <<43,49,50,56>>, <<55,102>>, <<70,70>>, <<45,56,48>>, <<122,122>>, <<49,48,48,48,48,48,48,48,48>>}
B64Good == {<<81,85,70,69>>, <<81,85,69,61>>, <<81,81,61,61>>, <<47,47,47,47>>}
(* every domain is a constant definition, so TLC evaluates it once *)
D_T == {S(w) : w \in Words({Ch(97), Ch(98), Ch(65), Ch(32), EAcute}, TLen)}
D_Ta == {S(w) : w \in Words({Ch(97), Ch(98), Ch(65), Ch(32), Ch(95), Ch(49), Ch(45)}, TLen)}
D_Tn == {S(w) : w \in Words({Ch(97), Ch(10), Ch(44)}, TLen)}
D_P == {S(w) : w \in Words({Ch(97), Ch(98), Ch(32), EAcute}, 2)}
D_N == {I(n) : n \in {-2, -1, 0, 1, 2, 3, 5}}
D_Nf == {F(n) : n \in {-2, -1, 0, 1, 2, 3, 5}}
D_FmtI == {S(<<37>> \o f) : f \in {<<100>>, <<53,100>>, <<45,53,100>>, <<48,53,100>>, <<43,100>>, <<43,48,54,100>>, <<45,48,53,100>>,
                                  <<120>>, <<88>>, <<48,52,120>>, <<43,120>>, <<111>>, <<98>>, <<48,56,98>>, <<54,111>>, <<99>>, <<51,99>>, <<113>>,
                                  <<118>>, <<52,118>>, <<45,52,118>>, <<115>>, <<116>>, <<49,48,100>>}}
          \cup {S(f) : f \in {<<37,37,37,100>>, <<37,100,37,37>>, <<120,37,53,100,121>>, <<37,37,84,37,100>>, <<37,100,32,37,37,84>>, <<110,61,37,43,100,37,37>>}}
D_FInt == {I(n) : n \in {0, 5, -5, 42, -42, 255, -255, 65, 97, 233, 100000, -100000}}
D_FmtS == {S(<<37>> \o f) : f \in {<<115>>, <<53,115>>, <<45,53,115>>, <<113>>, <<43,113>>, <<56,113>>, <<118>>, <<51,118>>, <<120>>, <<100>>, <<116>>, <<49,115>>}}
          \cup {S(f) : f \in {<<37,37,37,115>>, <<37,113,37,37>>, <<91,37,52,115,93>>, <<37,37,118,37,115>>}}
D_FStr == {S(w) : w \in Words({Ch(97), Ch(34), Ch(92), Ch(10), Ch(32), EAcute}, 3)}
D_FmtB == {S(<<37>> \o f) : f \in {<<116>>, <<54,116>>, <<45,54,116>>, <<118>>, <<100>>, <<115>>, <<113>>}}
D_JStr == {S(w) : w \in Words({Ch(97), Ch(34), Ch(92), Ch(10), Ch(9), Ch(8), Ch(1), Ch(60), Ch(38), Ch(127), Ch(255), EAcute, CJK}, 3)}
D_JStrV == {x \in D_JStr : ValidUTF8(x.v)}
D_JLS == {LS(l) : l \in Seqs({<<>>, <<97>>, <<34>>, <<60, 98>>, EAcute, <<255>>}, LLen)}
D_JLSV == {x \in D_JLS : \A i \in 1..Len(x.v) : ValidUTF8(x.v[i])}
D_By == {By(n) : n \in {97, 98, 32, 65, 0}}
D_R == {R(n) : n \in {97, 98, 65, 233, -1, 0}}
D_LS == {LS(l) : l \in Seqs({<<>>, <<97>>, <<98>>, <<97, 98>>, <<65>>, EAcute}, LLen)}
D_LSs == {LS(SortStrs(l)) : l \in Seqs({<<>>, <<97>>, <<98>>, <<97, 98>>, <<65>>}, LLen)}
D_LI == {LI(l) : l \in Seqs({-2, 0, 1, 3, 10}, LLen + 1)}
D_LI1 == {LI(l) : l \in Seqs({-2, 0, 1, 3, 10}, LLen + 1) \ {<<>>}}
D_LIs == {LI(SortInts(l)) : l \in Seqs({-2, 0, 1, 3}, LLen + 1)}
(* elements are key*100+position: the position is the identity tag.  Long lists (20-24 elements) matter: *)
(* Go's sort.Slice is an insertion sort (hence stable) below 13 elements                                 *)
KeyedOf(k) == LI([i \in 1..Len(k) |-> k[i] * 100 + i])
D_Keyed == {KeyedOf(k) : k \in Seqs({1, 2, 3}, LLen + 1)}
           \cup {KeyedOf(k \o k \o k \o k \o k) : k \in [1..4 -> {1, 2, 3}]}
           \cup {KeyedOf(k \o k \o j \o k \o j \o j) : k \in [1..4 -> {3, 2}], j \in [1..4 -> {1, 2}]}
D_Int == {I(n) : n \in SmallInts} \cup {Big("i", x) : x \in BigTexts}
D_Int64 == {I64(n) : n \in SmallInts} \cup {Big("i64", x) : x \in BigTexts}
D_Num == {S(w) : w \in NumTexts}
D_Base == {I(n) : n \in {2, 8, 10, 16, 36, 0, 1, 37, -1}}
D_Bits == {I(n) : n \in {0, 8, 16, 32, 64, 65, -1}}
D_Bool == {B(TRUE), B(FALSE)}
D_BoolTxt == {S(w) : w \in {<<49>>, <<116>>, <<84>>, <<84,82,85,69>>, <<116,114,117,101>>, <<84,114,117,101>>,
                                      <<48>>, <<102>>, <<70>>, <<70,65,76,83,69>>, <<102,97,108,115,101>>, <<70,97,108,115,101>>,
                                      <<>>, <<121,101,115>>, <<116,82,85,69>>, <<50>>, <<32,116,114,117,101>>, <<116,114,117,101,32>>, <<78>>}}
D_Bytes == {S(w) : w \in Words({Ch(0), Ch(65), Ch(104), Ch(255), Ch(34), Ch(92), Ch(10), Ch(127), EAcute, CJK}, TLen)}
D_B64 == {S(w) : w \in Words({Ch(81), Ch(85), Ch(61), Ch(47), Ch(33), Ch(69)}, 4)}
                      \cup {S(x \o y) : x \in B64Good, y \in Words({Ch(81), Ch(61), Ch(69)}, 4)}
D_Rom == {I(n) : n \in (1..3999) \cup {0, -1, 4000, 5000}}
D_Path == {S(w) : w \in Words({Ch(97), Ch(98), Ch(46), Ch(47)}, TLen + 1)}
D_LP == {LS(l) : l \in Seqs(Words({Ch(97), Ch(46), Ch(47)}, 2), LLen) \ {<<>>}}
Dom(d) ==
  CASE d = "T" -> D_T
    [] d = "FmtI" -> D_FmtI [] d = "FInt" -> D_FInt [] d = "FmtS" -> D_FmtS [] d = "FStr" -> D_FStr [] d = "FmtB" -> D_FmtB
    [] d = "JStr" -> D_JStr [] d = "JStrV" -> D_JStrV [] d = "JLS" -> D_JLS [] d = "JLSV" -> D_JLSV
    [] d = "Nf" -> D_Nf
    [] d = "Ta" -> D_Ta
    [] d = "Tn" -> D_Tn
    [] d = "P" -> D_P
    [] d = "N" -> D_N
    [] d = "By" -> D_By
    [] d = "R" -> D_R
    [] d = "LS" -> D_LS
    [] d = "LSs" -> D_LSs
    [] d = "LI" -> D_LI
    [] d = "LI1" -> D_LI1
    [] d = "LIs" -> D_LIs
    [] d = "Keyed" -> D_Keyed
    [] d = "Int" -> D_Int
    [] d = "Int64" -> D_Int64
    [] d = "Num" -> D_Num
    [] d = "Base" -> D_Base
    [] d = "Bits" -> D_Bits
    [] d = "Bool" -> D_Bool
    [] d = "BoolTxt" -> D_BoolTxt
    [] d = "Bytes" -> D_Bytes
    [] d = "B64" -> D_B64
    [] d = "Rom" -> D_Rom
    [] d = "Path" -> D_Path
    [] d = "LP" -> D_LP

(* values of a domain that every run includes (boundaries), whatever the sample *)
Must(d) ==
  CASE d = "Rom" -> {I(n) : n \in {1, 4, 9, 14, 40, 90, 400, 1994, 3888, 3999, 0, -1, 4000}}
    [] d = "T" -> {S(<<>>), S(<<97>>), S(<<195, 169>>)}
    [] d = "Ta" -> {S(<<>>)}
    [] d = "Bytes" -> {S(<<>>), S(<<255>>), S(<<0>>), S(<<104, 105, 255>>)}
    [] d = "Path" -> {S(<<>>), S(<<47>>), S(<<46>>), S(<<46, 46>>), S(<<47, 47>>)}
    [] d = "LS" -> {LS(<<>>), LS(<< <<>> >>), LS(<< <<>>, <<>> >>)}
    [] d = "LI" -> {LI(<<>>)}
    [] d = "Keyed" -> {KeyedOf(<<3, 1, 2, 1, 3, 1, 2, 2, 1, 3, 3, 1, 2, 1, 1, 3, 2, 3, 1, 2>>)}
    [] OTHER -> {}

(* ------------------------------------------------------------------ the oracle *)
IV(x) == x.v
Eval(fn, a) ==
  LET s1 == a[1].v  s2 == a[2].v  s3 == a[3].v IN
  CASE fn = "strings.Index"         -> Ok(<<I(Index(s1, s2))>>)
    [] fn = "strings.LastIndex"     -> Ok(<<I(LastIndex(s1, s2))>>)
    [] fn = "strings.Contains"      -> Ok(<<B(Contains(s1, s2))>>)
    [] fn = "strings.HasPrefix"     -> Ok(<<B(HasPrefix(s1, s2))>>)
    [] fn = "strings.HasSuffix"     -> Ok(<<B(HasSuffix(s1, s2))>>)
    [] fn = "strings.Count"         -> Ok(<<I(Count(s1, s2))>>)
    [] fn = "strings.Compare"       -> Ok(<<I(CmpB(s1, s2))>>)
    [] fn = "strings.IndexByte"     -> Ok(<<I(IndexByte(s1, s2))>>)
    [] fn = "strings.LastIndexByte" -> Ok(<<I(LastIndexByte(s1, s2))>>)
    [] fn = "strings.IndexAny"      -> Ok(<<I(IndexAny(s1, s2))>>)
    [] fn = "strings.LastIndexAny"  -> Ok(<<I(LastIndexAny(s1, s2))>>)
    [] fn = "strings.ContainsAny"   -> Ok(<<B(ContainsAny(s1, s2))>>)
    [] fn = "strings.IndexRune"     -> Ok(<<I(IndexRune(s1, s2))>>)
    [] fn = "strings.ContainsRune"  -> Ok(<<B(ContainsRune(s1, s2))>>)
    [] fn = "strings.EqualFold"     -> Ok(<<B(EqualFold(s1, s2))>>)
    [] fn = "strings.ToUpper"       -> Ok(<<S(ToUpper(s1))>>)
    [] fn = "strings.ToLower"       -> Ok(<<S(ToLower(s1))>>)
    [] fn = "strings.ToTitle"       -> Ok(<<S(ToUpper(s1))>>)
    [] fn = "strings.Title"         -> Ok(<<S(Title(s1))>>)
    [] fn = "strings.Clone"         -> Ok(<<S(s1)>>)
    [] fn = "strings.Repeat"        -> IF s2 < 0 THEN Fail ELSE Ok(<<S(Repeat(s1, s2))>>)
    [] fn = "strings.Replace"       -> Ok(<<S(Replace(s1, s2, s3, a[4].v))>>)
    [] fn = "strings.ReplaceAll"    -> Ok(<<S(ReplaceAll(s1, s2, s3))>>)
    [] fn = "strings.Split"         -> Ok(<<LS(Split(s1, s2))>>)
    [] fn = "strings.Split1"        -> Ok(<<LS(Split(s1, <<10>>))>>)
    [] fn = "strings.SplitN"        -> Ok(<<LS(SplitN(s1, s2, s3))>>)
    [] fn = "strings.SplitAfter"    -> Ok(<<LS(SplitAfter(s1, s2))>>)
    [] fn = "strings.SplitAfterN"   -> Ok(<<LS(SplitAfterN(s1, s2, s3))>>)
    [] fn = "strings.Join"          -> Ok(<<S(JoinB(s1, s2))>>)
    [] fn = "strings.Fields"        -> Ok(<<LS(Fields(s1))>>)
    [] fn = "strings.Trim"          -> Ok(<<S(Trim(s1, s2))>>)
    [] fn = "strings.TrimLeft"      -> Ok(<<S(TrimLeft(s1, s2))>>)
    [] fn = "strings.TrimRight"     -> Ok(<<S(TrimRight(s1, s2))>>)
    [] fn = "strings.TrimPrefix"    -> Ok(<<S(TrimPrefix(s1, s2))>>)
    [] fn = "strings.TrimSuffix"    -> Ok(<<S(TrimSuffix(s1, s2))>>)
    [] fn = "strings.TrimSpace"     -> Ok(<<S(TrimSpace(s1))>>)
    [] fn = "strings.Cut"           -> LET c == Cut(s1, s2) IN Ok(<<S(c[1]), S(c[2]), B(c[3])>>)
    [] fn = "strings.CutPrefix"     -> Ok(<<S(TrimPrefix(s1, s2)), B(HasPrefix(s1, s2))>>)
    [] fn = "strings.CutSuffix"     -> Ok(<<S(TrimSuffix(s1, s2)), B(HasSuffix(s1, s2))>>)
    [] fn = "strconv.Itoa"          -> Ok(<<S(DecText(a[1]))>>)
    [] fn = "strconv.Atoi"          -> LET p == ParseSigned(s1, 10, 64) IN
                                         IF p[1] THEN Ok(<<MkInt("i", p[2], p[3]), E(FALSE)>>) ELSE Ok(<<I(0), E(TRUE)>>)
    [] fn = "strconv.FormatInt"     -> IF s2 < 2 \/ s2 > 36 THEN Fail
                                       ELSE Ok(<<S(IF IsBig(a[1]) THEN a[1].d ELSE IntText(s1, s2))>>)
    [] fn = "strconv.ParseInt"      -> IF s2 < 2 \/ s2 > 36 \/ s3 < 0 \/ s3 > 64 THEN Ok(<<I64(0), E(TRUE)>>)
                                       ELSE LET p == ParseSigned(s1, s2, IF s3 = 0 THEN 64 ELSE s3) IN
                                         IF ~p[1] THEN Ok(<<I64(0), E(TRUE)>>)
                                         ELSE IF s2 = 10 THEN Ok(<<MkInt("i64", p[2], p[3]), E(FALSE)>>)
                                         ELSE Ok(<<I64(IF p[2] THEN -NatVal(p[3], s2) ELSE NatVal(p[3], s2)), E(FALSE)>>)
    [] fn = "strconv.FormatBool"    -> Ok(<<S(IF s1 THEN <<116,114,117,101>> ELSE <<102,97,108,115,101>>)>>)
    [] fn = "strconv.ParseBool"     -> IF ParseBoolOK(s1) THEN Ok(<<B(ParseBoolVal(s1)), E(FALSE)>>) ELSE Ok(<<B(FALSE), E(TRUE)>>)
    [] fn = "strconv.Quote"         -> Ok(<<S(Quote(s1))>>)
    [] fn = "strconv.QuoteToASCII"  -> Ok(<<S(QuoteToASCII(s1))>>)
    [] fn = "strconv.Unquote(Quote)" -> Ok(<<S(s1), E(FALSE)>>)
    [] fn = "strconv.Itor"          -> IF s1 >= 1 /\ s1 <= 3999 THEN Ok(<<S(Roman(s1)), E(FALSE)>>) ELSE Ok(<<S(<<>>), E(TRUE)>>)
    [] fn = "strconv.Rtoi(Itor)"    -> Ok(<<I(s1), E(FALSE)>>)
    [] fn = "base64.Encode"         -> Ok(<<S(B64Encode(s1))>>)
    [] fn = "base64.Decode"         -> LET r == B64Decode(s1) IN IF r[1] THEN Ok(<<S(r[2]), E(FALSE)>>) ELSE Ok(<<S(<<>>), E(TRUE)>>)
    [] fn = "base64.Decode(Encode)" -> Ok(<<S(s1), E(FALSE)>>)
    [] fn = "math.Max"              -> Ok(<<I(MaxOf(s1))>>)
    [] fn = "math.Min"              -> Ok(<<I(MinOf(s1))>>)
    [] fn = "math.Sum"              -> Ok(<<I(SumOf(s1))>>)
    [] fn = "math.Max[i64]"         -> Ok(<<I64(MaxOf(s1))>>)
    [] fn = "math.Min[i64]"         -> Ok(<<I64(MinOf(s1))>>)
    [] fn = "math.Sum[i64]"         -> Ok(<<I64(SumOf(s1))>>)
    [] fn = "math.Abs"              -> Ok(<<F(Abs(s1))>>)
    [] fn = "sort.Ints"             -> Ok(<<LI(SortInts(s1)), LI(SortInts(s1))>>)
    [] fn = "sort.Strings"          -> Ok(<<LS(SortStrs(s1)), LS(SortStrs(s1))>>)
    [] fn = "sort.Sort"             -> Ok(<<LI(SortInts(s1)), LI(SortInts(s1))>>)
    [] fn = "sort.Stable"           -> Ok(<<LI(SortInts(s1)), LI(SortInts(s1))>>)
    [] fn = "sort.SliceStable"      -> Ok(<<LI(SortByKeyStable(s1))>>)
    [] fn = "sort.Slice"            -> Ok(<<LI(SortByKeyStable(s1))>>)       \* one admissible result; judged relationally (see Post)
    [] fn = "sort.IntsAreSorted"    -> Ok(<<B(Ordered(s1, "int"))>>)
    [] fn = "sort.StringsAreSorted" -> Ok(<<B(Ordered(s1, "str"))>>)
    [] fn = "sort.SearchInts"       -> Ok(<<I(SearchGE(s1, s2, "int"))>>)
    [] fn = "sort.SearchStrings"    -> Ok(<<I(SearchGE(s1, s2, "str"))>>)
    [] fn = "sort.Search"           -> Ok(<<I(IF s1 <= 0 THEN 0 ELSE IF s2 <= 0 THEN 0 ELSE IF s2 < s1 THEN s2 ELSE s1)>>)
    [] fn = "filepath.Base"         -> Ok(<<S(Base(s1))>>)
    [] fn = "filepath.Dir"          -> Ok(<<S(Dir(s1))>>)
    [] fn = "filepath.Ext"          -> Ok(<<S(Ext(s1))>>)
    [] fn = "filepath.Clean"        -> Ok(<<S(Clean(s1))>>)
    [] fn = "filepath.Join"         -> Ok(<<S(PathJoin(s1))>>)
    [] fn = "fmt.Sprintf[i]"        -> Ok(<<S(Sprintf1(s1, "i", s2))>>)
    [] fn = "fmt.Sprintf[s]"        -> Ok(<<S(Sprintf1(s1, "s", s2))>>)
    [] fn = "fmt.Sprintf[b]"        -> Ok(<<S(Sprintf1(s1, "b", s2))>>)
    [] fn = "json.Marshal[i]"       -> Ok(<<S(DecText(a[1])), E(FALSE)>>)
    [] fn = "json.Marshal[s]"       -> Ok(<<S(JsonStr(s1)), E(FALSE)>>)
    [] fn = "json.Marshal[b]"       -> Ok(<<S(IF s1 THEN TrueTxt ELSE FalseTxt), E(FALSE)>>)
    [] fn = "json.Marshal[li]"      -> Ok(<<S(JsonList([i \in 1..Len(s1) |-> IntText(s1[i], 10)])), E(FALSE)>>)
    [] fn = "json.Marshal[ls]"      -> Ok(<<S(JsonList([i \in 1..Len(s1) |-> JsonStr(s1[i])])), E(FALSE)>>)
    [] fn \in {"json.Unmarshal(Marshal)[i]", "json.Unmarshal(Marshal)[s]", "json.Unmarshal(Marshal)[b]",
               "json.Unmarshal(Marshal)[li]", "json.Unmarshal(Marshal)[ls]"} -> Ok(<<a[1], E(FALSE)>>)   \* JSON unmarshal of a marshal

(* domain of the contract: what Eval is claimed for *)
WF(fn, a) ==
  CASE fn \in {"strings.EqualFold"} -> IsASCII(a[1].v) /\ IsASCII(a[2].v)
    [] fn \in {"strings.ToUpper", "strings.ToLower", "strings.ToTitle", "strings.Title"} -> IsASCII(a[1].v)
    [] fn = "strconv.ParseInt" -> a[2].v # 0 /\ (a[2].v = 10 \/ Len(a[1].v) <= 5)
    [] fn \in {"strconv.FormatInt"} -> ~IsBig(a[1]) \/ a[2].v = 10 \/ a[2].v < 2 \/ a[2].v > 36
    [] fn \in {"sort.SearchInts"} -> Ordered(a[1].v, "int")
    [] fn \in {"sort.SearchStrings"} -> Ordered(a[1].v, "str")
    [] fn \in {"math.Max", "math.Min", "math.Sum", "math.Max[i64]", "math.Min[i64]", "math.Sum[i64]"} -> a[1].v # <<>>
    [] fn = "strconv.Rtoi(Itor)" -> a[1].v >= 1 /\ a[1].v <= 3999          \* the round trip is documented for 1..3999
    [] fn = "fmt.Sprintf[i]" -> FmtWF(a[1].v, "i", a[2].v)
    [] fn = "fmt.Sprintf[s]" -> FmtWF(a[1].v, "s", 0)
    [] fn = "fmt.Sprintf[b]" -> FmtWF(a[1].v, "b", 0)
    [] OTHER -> TRUE

(* ------------------------------------------------------------------ the contract (binding F) *)
ValEq(x, y) == /\ x.t = y.t
               /\ IF x.t \in IntTypes THEN x.v = y.v /\ x.d = y.d ELSE x.v = y.v
ErrExpected(w) == \E i \in 1..Len(w.vals) : w.vals[i].t = "e" /\ w.vals[i].v
OutEq(got, want) ==
  IF want.st = "fail" THEN got.st \in {"fail", "abort"}
  ELSE /\ got.st = "ok"
       /\ Len(got.vals) = Len(want.vals)
       /\ \A i \in 1..Len(want.vals) :
            IF ErrExpected(want)              \* Go leaves the other results unspecified when it reports an error
              THEN (want.vals[i].t = "e" => ValEq(got.vals[i], want.vals[i]))
              ELSE ValEq(got.vals[i], want.vals[i])
(* sort.Slice is not stable: any key-ordered permutation of the argument is admissible *)
Relational(fn) == fn = "sort.Slice"
RelOK(fn, a, got) == /\ got.st = "ok" /\ Len(got.vals) = 1 /\ got.vals[1].t = "li"
                     /\ IsPerm(got.vals[1].v, a[1].v) /\ Ordered(got.vals[1].v, "key")
Post(rec) == \/ ~WF(rec.fn, rec.args)
             \/ IF Relational(rec.fn) THEN RelOK(rec.fn, rec.args, rec.out)
                ELSE OutEq(rec.out, Eval(rec.fn, rec.args))

(* abstract identity of a case: function, class of every argument, kind of difference *)
ChrStr(b) == CASE b = 32 -> " "
              [] b = 33 -> "!"
              [] b = 34 -> "\""
              [] b = 35 -> "#"
              [] b = 36 -> "$"
              [] b = 37 -> "%"
              [] b = 38 -> "&"
              [] b = 39 -> "'"
              [] b = 40 -> "("
              [] b = 41 -> ")"
              [] b = 42 -> "*"
              [] b = 43 -> "+"
              [] b = 44 -> ","
              [] b = 45 -> "-"
              [] b = 46 -> "."
              [] b = 47 -> "/"
              [] b = 48 -> "0"
              [] b = 49 -> "1"
              [] b = 50 -> "2"
              [] b = 51 -> "3"
              [] b = 52 -> "4"
              [] b = 53 -> "5"
              [] b = 54 -> "6"
              [] b = 55 -> "7"
              [] b = 56 -> "8"
              [] b = 57 -> "9"
              [] b = 58 -> ":"
              [] b = 59 -> ";"
              [] b = 60 -> "<"
              [] b = 61 -> "="
              [] b = 62 -> ">"
              [] b = 63 -> "?"
              [] b = 64 -> "@"
              [] b = 65 -> "A"
              [] b = 66 -> "B"
              [] b = 67 -> "C"
              [] b = 68 -> "D"
              [] b = 69 -> "E"
              [] b = 70 -> "F"
              [] b = 71 -> "G"
              [] b = 72 -> "H"
              [] b = 73 -> "I"
              [] b = 74 -> "J"
              [] b = 75 -> "K"
              [] b = 76 -> "L"
              [] b = 77 -> "M"
              [] b = 78 -> "N"
              [] b = 79 -> "O"
              [] b = 80 -> "P"
              [] b = 81 -> "Q"
              [] b = 82 -> "R"
              [] b = 83 -> "S"
              [] b = 84 -> "T"
              [] b = 85 -> "U"
              [] b = 86 -> "V"
              [] b = 87 -> "W"
              [] b = 88 -> "X"
              [] b = 89 -> "Y"
              [] b = 90 -> "Z"
              [] b = 91 -> "["
              [] b = 92 -> "\\"
              [] b = 93 -> "]"
              [] b = 94 -> "^"
              [] b = 95 -> "_"
              [] b = 96 -> "`"
              [] b = 97 -> "a"
              [] b = 98 -> "b"
              [] b = 99 -> "c"
              [] b = 100 -> "d"
              [] b = 101 -> "e"
              [] b = 102 -> "f"
              [] b = 103 -> "g"
              [] b = 104 -> "h"
              [] b = 105 -> "i"
              [] b = 106 -> "j"
              [] b = 107 -> "k"
              [] b = 108 -> "l"
              [] b = 109 -> "m"
              [] b = 110 -> "n"
              [] b = 111 -> "o"
              [] b = 112 -> "p"
              [] b = 113 -> "q"
              [] b = 114 -> "r"
              [] b = 115 -> "s"
              [] b = 116 -> "t"
              [] b = 117 -> "u"
              [] b = 118 -> "v"
              [] b = 119 -> "w"
              [] b = 120 -> "x"
              [] b = 121 -> "y"
              [] b = 122 -> "z"
              [] b = 123 -> "{"
              [] b = 124 -> "|"
              [] b = 125 -> "}"
              [] b = 126 -> "~"
              [] OTHER -> "?"
RECURSIVE StrOf(_)
StrOf(bs) == IF bs = <<>> THEN "" ELSE ChrStr(bs[1]) \o StrOf(Tail(bs))
ArgClass(x) ==
  CASE x.t = "s" -> IF x.v = <<>> THEN "e" ELSE IF IsASCII(x.v) THEN "a" ELSE "u"
    [] x.t \in IntTypes -> IF IsBig(x) THEN (IF Len(x.d) >= 17 THEN "huge" ELSE "big") ELSE IF x.v < 0 THEN "neg" ELSE IF x.v = 0 THEN "0" ELSE "pos"
    [] x.t = "b" -> IF x.v THEN "t" ELSE "f"
    [] x.t \in {"ls", "li"} -> IF x.v = <<>> THEN "l0" ELSE IF Len(x.v) = 1 THEN "l1" ELSE "ln"
    [] OTHER -> "?"
RECURSIVE ArgClasses(_)
ArgClasses(a) == IF a = <<>> THEN "" ELSE ArgClass(a[1]) \o (IF Len(a) > 1 THEN "," ELSE "") \o ArgClasses(Tail(a))
Diff(got, want) ==
  IF got.st # want.st THEN want.st \o ">" \o got.st
  ELSE IF Len(got.vals) # Len(want.vals) THEN "arity"
  ELSE LET bad == {i \in 1..Len(want.vals) : (ErrExpected(want) => want.vals[i].t = "e") /\ ~ValEq(got.vals[i], want.vals[i])} IN
    IF bad = {} THEN "rel"
    ELSE LET i == SetMin(bad) IN
      "r" \o ToString(i) \o (IF got.vals[i].t # want.vals[i].t THEN ":type:" \o got.vals[i].t ELSE ":val")
(* fmt: the format itself is the class of the first argument *)
KeyArgs(rec) == IF rec.fn \in {"fmt.Sprintf[i]", "fmt.Sprintf[s]", "fmt.Sprintf[b]"}
                THEN StrOf(rec.args[1].v) \o "," \o ArgClass(rec.args[2])
                ELSE ArgClasses(rec.args)
Key(rec) == rec.fn \o "/" \o KeyArgs(rec) \o "/" \o Diff(rec.out, Eval(rec.fn, rec.args))
=============================================================================

INIT GenInit
NEXT GenNext
CONSTANTS
  TLen = 4
  LLen = 3
  Fns = {}
  K1 = 400
  K2 = 18
  K3 = 6
  K4 = 4
INVARIANTS Emit
CHECK_DEADLOCK FALSE

INIT GenInit
NEXT GenNext
CONSTANTS
  TLen = 4
  LLen = 3
  Fns = {}
  K1 = 700
  K2 = 27
  K3 = 9
  K4 = 5
INVARIANTS Emit
CHECK_DEADLOCK FALSE

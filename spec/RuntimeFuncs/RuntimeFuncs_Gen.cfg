INIT GenInit
NEXT GenNext
CONSTANTS
  TLen = 4
  LLen = 3
  Fns = {}
  K1 = 60
  K2 = 8
  K3 = 4
  K4 = 3
INVARIANTS Emit
CHECK_DEADLOCK FALSE

SPECIFICATION Spec
CONSTANTS
  Byte <- MCByte
  Magic3 <- MCMagic3
  Magic2 <- MCMagic2
  SaltLen = 1
  NonceLen = 1
  TagLen = 1
  Pass = {"k1", "k2"}
  SealPass = {"k1"}
  Plain <- MCPlain1
  MaxSeals = 1
  MaxLen = 6
  Impl = "asis"
INVARIANTS TypeOK NoForgery RoundTrip NoForgeryToken ErrHasNoText
CHECK_DEADLOCK FALSE

SPECIFICATION GenSpec
CONSTANTS
  Tier = "quick"
CHECK_DEADLOCK FALSE

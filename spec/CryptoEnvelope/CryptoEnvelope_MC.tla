------------------------- MODULE CryptoEnvelope_MC -------------------------
(* Small-layout instance for exhaustive model checking: two byte values, a   *)
(* 2-byte magic, salt/nonce/tag of the lengths given in the cfg.  EVERY byte *)
(* string up to MaxLen is offered to every decryption entry point, for every *)
(* set of at most MaxSeals sealed tuples.                                    *)
EXTENDS CryptoEnvelope

MCByte   == {0, 1}
MCMagic3 == <<1, 1>>
MCMagic2 == <<1, 0>>
MCPlain0 == {<<0>>}
MCPlain1 == {<<>>, <<0>>}
MCPlain2 == {<<>>, <<0>>, <<1>>, <<0, 1>>}
=============================================================================

SPECIFICATION GenSpec
CONSTANTS
  Tier = "thorough"
CHECK_DEADLOCK FALSE

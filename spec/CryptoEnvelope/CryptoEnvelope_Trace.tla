------------------------ MODULE CryptoEnvelope_Trace ------------------------
(* Binding F: judges the function I/O recorded from the real code            *)
(*   seals.ndjson  what was sealed (real util.Encrypt / settings.Encrypt /   *)
(*                 tokens.New, or the documented wire format for the         *)
(*                 versions the code only reads): id, api, fmt, pass, pt,    *)
(*                 text (bytes of the ciphertext string)                     *)
(*   io.ndjson     one record per call of util.Decrypt / settings.Decrypt /  *)
(*                 tokens.Unwrap / tokens.Validate: the input bytes, the     *)
(*                 passphrase, ok / err / returned text, and the edit the    *)
(*                 harness says it applied (kind, off, n, arg)               *)
(* against the contract of C27                                               *)
(*   the input is exactly a sealed text, same passphrase  => the sealed      *)
(*                                     plaintext comes back, without error   *)
(*   the input is another SPELLING of the same ciphertext bytes (hex letter  *)
(*   case; base64 with CR/LF or non-zero padding bits)    => either that, or *)
(*                                     an error  (the statement is silent)   *)
(*   anything else                                        => an error and no *)
(*                                     text                                  *)
(* The text layers (hex, base64, "v3:"/"v2:" prefixes) are decoded HERE, the *)
(* Go side computes nothing about an input.  Besides the contract, TLC       *)
(*   - checks that each input really is the edit it is labelled with         *)
(*     (Consistent) and that every offset and every length of every sealed   *)
(*     text was offered (Complete)  -- else the run gives no verdict,        *)
(*   - evaluates the model's own DecUtil/DecSet/DecToken (Impl from the cfg) *)
(*     on the same real inputs against the sealed set parsed with the real   *)
(*     layout: the "fixed" model must satisfy the contract on every real     *)
(*     input (ModelSound), and the number of calls on which the real code    *)
(*     agrees with the model is reported.                                    *)
EXTENDS CryptoEnvelope, CryptoEnvelope_Real, Json

CONSTANT Tier
VARIABLES i, bad, unsound, incons, agree

SealLog == ndJsonDeserialize("seals.ndjson")
Log     == ndJsonDeserialize("io.ndjson")
N  == Len(Log)
NS == Len(SealLog)
SealIds == 1..NS

(* ------------------------------------------------------------ text layers *)
Fam(api) == IF api \in {"unwrap", "validate", "token"} THEN "token" ELSE api

HexVal(c, lenient) == IF c >= 48 /\ c <= 57 THEN c - 48
                      ELSE IF c >= 97 /\ c <= 102 THEN c - 87
                      ELSE IF lenient /\ c >= 65 /\ c <= 70 THEN c - 55
                      ELSE -1
HexDecode(t, lenient) ==
  IF Len(t) % 2 # 0 \/ \E k \in 1..Len(t) : HexVal(t[k], lenient) < 0
  THEN [tag |-> "", dec |-> FALSE, b |-> <<>>]
  ELSE [tag |-> "", dec |-> TRUE,
        b |-> [k \in 1..(Len(t) \div 2) |-> 16 * HexVal(t[2 * k - 1], lenient) + HexVal(t[2 * k], lenient)]]

B64Val(c) == IF c >= 65 /\ c <= 90 THEN c - 65
             ELSE IF c >= 97 /\ c <= 122 THEN c - 71
             ELSE IF c >= 48 /\ c <= 57 THEN c + 4
             ELSE IF c = 43 THEN 62
             ELSE IF c = 47 THEN 63
             ELSE -1
IsNL(c) == c = 10 \/ c = 13
(* RFC 4648 with padding.  strict: canonical only.  lenient: CR/LF are skipped *)
(* and the unused low bits of the last sextet are ignored.                     *)
B64Decode(t0, lenient) ==
  LET t == IF lenient THEN SelectSeq(t0, LAMBDA c : ~IsNL(c)) ELSE t0
      n == Len(t)
      p == IF n >= 1 /\ t[n] = 61 THEN (IF n >= 2 /\ t[n - 1] = 61 THEN 2 ELSE 1) ELSE 0
      d == n - p                                         \* data characters
      nb == (n \div 4) * 3 - p
      sx(k) == B64Val(t[k])
      byte(j) == LET g == (j - 1) \div 3
                     r == (j - 1) % 3
                 IN  IF r = 0 THEN sx(4 * g + 1) * 4 + sx(4 * g + 2) \div 16
                     ELSE IF r = 1 THEN (sx(4 * g + 2) % 16) * 16 + sx(4 * g + 3) \div 4
                     ELSE (sx(4 * g + 3) % 4) * 64 + sx(4 * g + 4)
      bad64 == \/ n % 4 # 0
               \/ \E k \in 1..d : B64Val(t[k]) < 0
               \/ (~lenient /\ p = 1 /\ sx(d) % 4 # 0)
               \/ (~lenient /\ p = 2 /\ sx(d) % 16 # 0)
  IN  IF bad64 THEN [dec |-> FALSE, b |-> <<>>] ELSE [dec |-> TRUE, b |-> [j \in 1..nb |-> byte(j)]]

V3Tag == <<118, 51, 58>>   \* "v3:"
V2Tag == <<118, 50, 58>>   \* "v2:"
SetDecode(t, lenient) ==
  LET tag  == IF HasPrefix(t, V3Tag) THEN "v3" ELSE IF HasPrefix(t, V2Tag) THEN "v2" ELSE ""
      rest == IF tag = "" THEN t ELSE Drop(t, 3)
      d    == B64Decode(rest, lenient)
  IN  [tag |-> tag, dec |-> d.dec, b |-> d.b]

(* what an entry point sees of an input: (prefix tag, decodable, bytes) *)
Bytes(api, t, lenient) ==
  IF Fam(api) = "util" THEN [tag |-> "", dec |-> TRUE, b |-> t]
  ELSE IF Fam(api) = "settings" THEN SetDecode(t, lenient)
  ELSE HexDecode(t, lenient)

(* -------------------------------------------------------------- the seals *)
SV == [id \in SealIds |-> Bytes(SealLog[id].api, SealLog[id].text, FALSE)]
SealsWellFormed == \A id \in SealIds : SealLog[id].id = id /\ SV[id].dec

KdfOf(fmt) == IF fmt \in {"u3", "s3", "tok"} THEN "argon"
              ELSE IF fmt = "u2" THEN "pbkdf"
              ELSE IF fmt = "s2" THEN "sha" ELSE "md5"
MagicLenOf(fmt) == IF fmt \in {"u3", "u2", "tok"} THEN Len(RealMagic3) ELSE 0
SaltLenOf(fmt)  == IF fmt \in {"u3", "u2", "tok", "s3"} THEN SaltLen ELSE 0
(* the sealed set in the model's terms, parsed with the real layout *)
Parsed(id) ==
  LET s == SealLog[id]
      b == Drop(SV[id].b, MagicLenOf(s.fmt))
      sl == SaltLenOf(s.fmt)
  IN  [kdf |-> KdfOf(s.fmt), pass |-> s.pass, salt |-> Take(b, sl),
       nonce |-> Take(Drop(b, sl), NonceLen), ct |-> Drop(Drop(b, sl), NonceLen), pt |-> s.pt]
S == {Parsed(id) : id \in SealIds}

(* --------------------------------------------------------------- contract *)
StrictSame(r)  == {id \in SealIds : /\ Fam(SealLog[id].api) = Fam(r.api)
                                    /\ SealLog[id].pass = r.pass
                                    /\ SealLog[id].text = r.inp}
LenientSame(r, v) == {id \in SealIds : /\ Fam(SealLog[id].api) = Fam(r.api)
                                       /\ SealLog[id].pass = r.pass
                                       /\ v.dec /\ v.tag = SV[id].tag /\ v.b = SV[id].b}

Accepts(r, id, ok, err, got) ==
  ok /\ ~err /\ (IF r.api = "validate" THEN got = <<>> ELSE got = SealLog[id].pt)
Rejects(ok, err, got) == ~ok /\ err /\ got = <<>>

(* the contract as a predicate of a reply (ok, err, got) to the call r *)
PostV(r, v, ok, err, got) ==
  IF StrictSame(r) # {} THEN \E id \in StrictSame(r) : Accepts(r, id, ok, err, got)
  ELSE IF LenientSame(r, v) # {}
       THEN Rejects(ok, err, got) \/ \E id \in LenientSame(r, v) : Accepts(r, id, ok, err, got)
  ELSE Rejects(ok, err, got)

(* ------------------------------------------------------- the model's reply *)
ModelRes(r, v) ==
  IF Fam(r.api) = "util" THEN DecUtil(S, v.b, r.pass)
  ELSE IF Fam(r.api) = "settings" THEN DecSet(S, v.tag, v.dec, v.b, r.pass)
  ELSE IF v.dec THEN DecToken(S, v.b, r.pass) ELSE Err
ModelGot(r, m) == IF r.api = "validate" THEN <<>> ELSE m.pt

Stop(r, v) == IF Fam(r.api) = "settings" THEN StopSet(v.tag, v.dec, v.b)
              ELSE IF v.dec THEN StopUtil(v.b) ELSE "undecodable"

(* ----------------------------------------------------- labels of the edits *)
Orig(r) == SealLog[r.seal].text
Consistent(r) ==
  LET o == Orig(r) IN
  /\ r.seal \in SealIds
  /\ Fam(SealLog[r.seal].api) = Fam(r.api)
  /\ IF r.kind = "none" THEN r.inp = o /\ r.pass = SealLog[r.seal].pass
     ELSE IF r.kind = "otherkey" THEN r.inp = o /\ r.pass # SealLog[r.seal].pass
     ELSE IF r.kind = "flip"
          THEN /\ Len(r.inp) = Len(o) /\ r.off \in 1..Len(o) /\ r.pass = SealLog[r.seal].pass
               /\ r.inp[r.off] # o[r.off]
               /\ \A k \in 1..Len(o) : k # r.off => r.inp[k] = o[k]
     ELSE IF r.kind = "trunc"
          THEN r.n \in 0..(Len(o) - 1) /\ r.inp = Take(o, r.n) /\ r.pass = SealLog[r.seal].pass
     ELSE IF r.kind = "extend"
          THEN /\ r.n >= 1 /\ Len(r.inp) = Len(o) + r.n /\ r.pass = SealLog[r.seal].pass
               /\ (IF r.arg = "tail" THEN Take(r.inp, Len(o)) = o ELSE Drop(r.inp, r.n) = o)
     ELSE IF r.kind = "retag" THEN r.inp # o /\ r.pass = SealLog[r.seal].pass
     ELSE r.kind = "garbage" /\ Len(r.inp) >= r.n

(* region of the envelope a text offset falls into *)
ByteOff(fmt, off) ==
  IF fmt = "tok" THEN (off + 1) \div 2
  ELSE IF fmt \in {"s3", "s2", "s0"}
       THEN (LET pl == IF fmt = "s0" THEN 0 ELSE 3 IN IF off <= pl THEN 0 ELSE ((off - pl - 1) * 6) \div 8 + 1)
  ELSE off
Region(id, off) ==
  LET fmt == SealLog[id].fmt
      k   == ByteOff(fmt, off)
      tot == Len(SV[id].b)
      m   == MagicLenOf(fmt)
      sl  == SaltLenOf(fmt)
  IN  IF k = 0 THEN "prefix"
      ELSE IF k <= m THEN "magic"
      ELSE IF k <= m + sl THEN "salt"
      ELSE IF k <= m + sl + NonceLen THEN "nonce"
      ELSE IF k > tot THEN "padding"
      ELSE IF k > tot - TagLen THEN "tag"
      ELSE "body"

Outcome(r) ==
  IF r.ok /\ r.err THEN "accepted-with-error"
  ELSE IF r.ok /\ r.api # "validate" /\ r.got = <<>> /\ SealLog[r.seal].pt # <<>> THEN "accepted-empty-text"
  ELSE IF r.ok /\ r.api # "validate" /\ r.got = <<>> /\ r.kind # "none" THEN "accepted-empty-text"
  ELSE IF r.ok /\ (r.api = "validate" \/ r.got = SealLog[r.seal].pt) THEN "accepted-original-text"
  ELSE IF r.ok THEN "accepted-other-text"
  ELSE IF r.got # <<>> THEN "error-with-text"
  ELSE IF ~r.err THEN "refused-without-error"
  ELSE "rejected"

(* abstract identity of a failing call: entry point / where the code stops       *)
(* reading the input / (for inputs that reach the cipher: the edit and, for a     *)
(* single-byte edit, its region) / what came back.  Short inputs are identified   *)
(* by the early return they take, whatever edit produced them.                    *)
Key(r, v) ==
  LET st == Stop(r, v)
      reaches == st \in {"v3/open", "v2/open", "legacy/open", "undecodable"}
  IN  r.api \o "/" \o st
      \o (IF reaches THEN "/" \o r.kind \o (IF r.kind = "flip" THEN "@" \o Region(r.seal, r.off) ELSE "") ELSE "")
      \o "/" \o Outcome(r)

(* ------------------------------------------------------------- completeness *)
Offs(id, api)   == {Log[k].off : k \in {k \in 1..N : Log[k].seal = id /\ Log[k].api = api /\ Log[k].kind = "flip"}}
Truncs(id, api) == {Log[k].n : k \in {k \in 1..N : Log[k].seal = id /\ Log[k].api = api /\ Log[k].kind = "trunc"}}
Kinds(id, api)  == {Log[k].kind : k \in {k \in 1..N : Log[k].seal = id /\ Log[k].api = api}}
ApisOf(id) == IF Fam(SealLog[id].api) = "token" THEN {"unwrap", "validate"} ELSE {SealLog[id].api}
(* quick tier, token layer only (util.Decrypt underneath is complete in both     *)
(* tiers): Validate sees a single-byte edit at every 8th offset, and both token   *)
(* entry points see every truncation length up to the end of the shortest         *)
(* possible envelope and across the tag, every 8th in between.                    *)
SparseFlip(api)  == Tier = "quick" /\ api = "validate"
SparseTrunc(api) == Tier = "quick" /\ api \in {"unwrap", "validate"}
HeadLen == 2 * (Len(RealMagic3) + SaltLen + NonceLen + TagLen) + 8
TailLen == 2 * TagLen + 2
Complete ==
  \A id \in SealIds : \A api \in ApisOf(id) :
    LET L == Len(SealLog[id].text) IN
    /\ (IF SparseTrunc(api)
        THEN {n \in 0..(L - 1) : n <= HeadLen \/ n >= L - TailLen} \subseteq Truncs(id, api)
        ELSE Truncs(id, api) = 0..(L - 1))
    /\ (IF SparseFlip(api) THEN Cardinality(Offs(id, api)) >= L \div 8 - 1 ELSE Offs(id, api) = 1..L)
    /\ {"none", "otherkey", "extend", "retag", "garbage"} \subseteq Kinds(id, api)

(* ------------------------------------------------------------------- steps *)
TInit == /\ sealed = {} /\ last = NoCall
         /\ i = 0 /\ bad = {} /\ unsound = {} /\ incons = {} /\ agree = 0

Judge(k) ==
  LET r == Log[k]
      v == Bytes(r.api, r.inp, TRUE)
      m == ModelRes(r, v)
  IN  /\ bad' = IF PostV(r, v, r.ok, r.err, r.got) THEN bad ELSE bad \cup {[idx |-> k, key |-> Key(r, v)]}
      /\ unsound' = IF PostV(r, v, m.ok, ~m.ok, ModelGot(r, m)) THEN unsound ELSE unsound \cup {k}
      /\ incons' = IF Consistent(r) THEN incons ELSE incons \cup {k}
      /\ agree' = IF r.ok = m.ok /\ r.got = ModelGot(r, m) /\ r.err = ~m.ok THEN agree + 1 ELSE agree

TNext == /\ i < N
         /\ i' = i + 1
         /\ Judge(i + 1)
         /\ UNCHANGED <<sealed, last>>

TSpec == TInit /\ [][TNext]_<<sealed, last, i, bad, unsound, incons, agree>>

Report == i < N \/ PrintT(ToJson([n |-> N, bad |-> bad, unsound |-> unsound, incons |-> incons,
                                  agree |-> agree, seals |-> NS, impl |-> Impl,
                                  wellformed |-> SealsWellFormed, complete |-> Complete]))
=============================================================================

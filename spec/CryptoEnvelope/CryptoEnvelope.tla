--------------------------- MODULE CryptoEnvelope ---------------------------
(* Code-shaped specification of the versioned encryption envelopes of        *)
(* tucats/ego (property C27):                                                *)
(*   internal/util/crypto.go          decrypt / decryptArgon2id /            *)
(*                                    decryptPBKDF2 / legacyDecrypt /        *)
(*                                    aesGCMDecrypt                          *)
(*   internal/cli/settings/crypto.go  Decrypt ("v3:" / "v2:" / bare base64)  *)
(*   internal/language/tokens         Unwrap / Validate on top of util       *)
(*                                                                           *)
(* The cipher is an IDEAL AEAD: Open(key, nonce, ct) succeeds iff exactly    *)
(* that tuple was produced by Seal, and then returns the sealed plaintext.   *)
(* A key is the abstract triple (kdf, passphrase, salt): Argon2id, PBKDF2,   *)
(* MD5-hex and SHA-256 derivations never collide (trusted base, cannot be    *)
(* model checked).  What IS model checked is everything the code adds        *)
(* around the cipher: dispatch on the magic / prefix, splitting off salt     *)
(* and nonce, and the treatment of inputs too short to contain them.         *)
(*                                                                           *)
(* Impl = "asis"  : the early returns of the code ("len < saltLen" and       *)
(*                  "nonceSize > len(data)") report SUCCESS with empty text  *)
(* Impl = "fixed" : they report an error (what C27 demands)                  *)
(*                                                                           *)
(* All decryption operators take the sealed set S as a parameter so that     *)
(* CryptoEnvelope_Trace can evaluate the very same operators on the          *)
(* ciphertexts recorded from the real code (real layout, Byte = 0..255).     *)
EXTENDS Integers, Sequences, FiniteSets, TLC

CONSTANTS Byte,            \* byte alphabet
          Magic3, Magic2,  \* util magic of the Argon2id / PBKDF2 envelope (sequences of Byte, same length)
          SaltLen, NonceLen, TagLen,
          Pass,            \* passphrases offered to the decryption entry points
          SealPass,        \* passphrases used for sealing (a subset of Pass; symmetry cut)
          Plain,           \* plaintexts (sequences of Byte)
          MaxSeals,        \* number of Seal steps explored
          MaxLen,          \* longest attacker input explored
          Impl

VARIABLES sealed,  \* history: every tuple the ideal cipher has sealed
          last     \* observation: the last decryption call and its result

vars == <<sealed, last>>

Take(s, n) == SubSeq(s, 1, IF n < Len(s) THEN n ELSE Len(s))
Drop(s, n) == SubSeq(s, n + 1, Len(s))
HasPrefix(s, p) == Len(s) >= Len(p) /\ SubSeq(s, 1, Len(p)) = p

Ok(p) == [ok |-> TRUE, pt |-> p]
Err   == [ok |-> FALSE, pt |-> <<>>]

Salted(kdf) == kdf \in {"argon", "pbkdf"}
Kdf == {"argon", "pbkdf", "md5", "sha"}

(* ------------------------------------------------------------------ cipher *)
Match(S, kdf, pass, salt, n, c) ==
  {s \in S : s.kdf = kdf /\ s.pass = pass /\ s.salt = salt /\ s.nonce = n /\ s.ct = c}

Open(S, kdf, pass, salt, n, c) ==                      \* gcm.Open
  LET m == Match(S, kdf, pass, salt, n, c)
  IN  IF m = {} THEN Err ELSE Ok((CHOOSE s \in m : TRUE).pt)

(* aesGCMDecrypt (both packages): [nonce][ciphertext+tag] *)
AesGcm(S, kdf, pass, salt, data) ==
  IF NonceLen > Len(data)
  THEN (IF Impl = "asis" THEN Ok(<<>>) ELSE Err)       \* "return []byte(""), nil"
  ELSE Open(S, kdf, pass, salt, Take(data, NonceLen), Drop(data, NonceLen))

(* decryptArgon2id / decryptPBKDF2: [salt][nonce][ciphertext+tag] *)
SaltedDecrypt(S, kdf, pass, data) ==
  IF Len(data) < SaltLen
  THEN (IF Impl = "asis" THEN Ok(<<>>) ELSE Err)       \* "return []byte(""), nil"
  ELSE AesGcm(S, kdf, pass, Take(data, SaltLen), Drop(data, SaltLen))

(* util.decrypt: dispatch on the magic; note the strict ">" *)
DecUtil(S, data, pass) ==
  IF Len(data) > Len(Magic3) /\ HasPrefix(data, Magic3)
  THEN SaltedDecrypt(S, "argon", pass, Drop(data, Len(Magic3)))
  ELSE IF Len(data) > Len(Magic2) /\ HasPrefix(data, Magic2)
  THEN SaltedDecrypt(S, "pbkdf", pass, Drop(data, Len(Magic2)))
  ELSE AesGcm(S, "md5", pass, <<>>, data)

(* tokens.Unwrap / Validate after hex decoding: an empty plaintext is refused *)
DecToken(S, data, pass) ==
  LET r == DecUtil(S, data, pass)
  IN  IF r.ok /\ r.pt # <<>> THEN r ELSE Err

(* settings.Decrypt after prefix split and base64 decoding (dec = it decoded) *)
DecSet(S, tag, dec, data, pass) ==
  IF ~dec THEN Err
  ELSE IF tag = "v3" THEN SaltedDecrypt(S, "argon", pass, data)
  ELSE IF tag = "v2" THEN AesGcm(S, "sha", pass, <<>>, data)
  ELSE AesGcm(S, "md5", pass, <<>>, data)

(* where the code stops looking at an input (used for abstract finding keys) *)
StopGcm(data)    == IF NonceLen > Len(data) THEN "short-nonce" ELSE "open"
StopSalted(data) == IF Len(data) < SaltLen THEN "short-salt" ELSE StopGcm(Drop(data, SaltLen))
StopUtil(data) ==
  IF Len(data) > Len(Magic3) /\ HasPrefix(data, Magic3) THEN "v3/" \o StopSalted(Drop(data, Len(Magic3)))
  ELSE IF Len(data) > Len(Magic2) /\ HasPrefix(data, Magic2) THEN "v2/" \o StopSalted(Drop(data, Len(Magic2)))
  ELSE "legacy/" \o StopGcm(data)
StopSet(tag, dec, data) ==
  IF ~dec THEN "undecodable"
  ELSE IF tag = "v3" THEN "v3/" \o StopSalted(data)
  ELSE IF tag = "v2" THEN "v2/" \o StopGcm(data)
  ELSE "legacy/" \o StopGcm(data)

(* --------------------------------------------------------------- envelopes *)
HasUtil(s) == s.kdf \in {"argon", "pbkdf", "md5"}
EnvUtil(s) == IF s.kdf = "argon" THEN Magic3 \o s.salt \o s.nonce \o s.ct
              ELSE IF s.kdf = "pbkdf" THEN Magic2 \o s.salt \o s.nonce \o s.ct
              ELSE s.nonce \o s.ct
HasSet(s) == s.kdf \in {"argon", "sha", "md5"}
SetTag(s) == IF s.kdf = "argon" THEN "v3" ELSE IF s.kdf = "sha" THEN "v2" ELSE ""
EnvSet(s) == s.salt \o s.nonce \o s.ct

(* a legacy util envelope whose random nonce happens to start with a magic is *)
(* dispatched to another version (documented, probability 2^-32): no round    *)
(* trip is owed for it                                                        *)
Collides(s) == /\ s.kdf = "md5"
               /\ LET e == EnvUtil(s)
                  IN  \/ (Len(e) > Len(Magic3) /\ HasPrefix(e, Magic3))
                      \/ (Len(e) > Len(Magic2) /\ HasPrefix(e, Magic2))

GenuineUtil(S, data, pass) == {s \in S : HasUtil(s) /\ s.pass = pass /\ EnvUtil(s) = data}
GenuineSet(S, tag, dec, data, pass) ==
  {s \in S : dec /\ HasSet(s) /\ SetTag(s) = tag /\ s.pass = pass /\ EnvSet(s) = data}

(* ------------------------------------------------------------ state machine *)
Strings(n) == UNION {[1..k -> Byte] : k \in 0..n}
Salts(kdf) == IF Salted(kdf) THEN [1..SaltLen -> Byte] ELSE {<<>>}
NoCall == [api |-> "none", tag |-> "", dec |-> TRUE, inp |-> <<>>, pass |-> "", res |-> Err]

Init == sealed = {} /\ last = NoCall

(* the ideal cipher: a function of (key, nonce, plaintext), injective in the plaintext *)
Seal(kdf, pass, salt, n, pt, ct) ==
  /\ Cardinality(sealed) < MaxSeals
  /\ Len(ct) = Len(pt) + TagLen
  /\ \A s \in sealed : (s.kdf = kdf /\ s.pass = pass /\ s.salt = salt /\ s.nonce = n)
                          => ((s.ct = ct) <=> (s.pt = pt))
  /\ sealed' = sealed \cup {[kdf |-> kdf, pass |-> pass, salt |-> salt, nonce |-> n, ct |-> ct, pt |-> pt]}
  /\ last' = NoCall

CallUtil(data, pass) ==
  /\ last' = [api |-> "util", tag |-> "", dec |-> TRUE, inp |-> data, pass |-> pass, res |-> DecUtil(sealed, data, pass)]
  /\ UNCHANGED sealed
CallToken(data, pass) ==
  /\ last' = [api |-> "token", tag |-> "", dec |-> TRUE, inp |-> data, pass |-> pass, res |-> DecToken(sealed, data, pass)]
  /\ UNCHANGED sealed
CallSet(tag, dec, data, pass) ==
  /\ last' = [api |-> "settings", tag |-> tag, dec |-> dec, inp |-> data, pass |-> pass,
              res |-> DecSet(sealed, tag, dec, data, pass)]
  /\ UNCHANGED sealed

(* a call is an observation, not a state change of the cipher: nothing follows it *)
(* (otherwise every observation would be re-expanded - same states, 5000x work)  *)
Next ==
  /\ last = NoCall
  /\ \/ \E kdf \in Kdf, pass \in SealPass, pt \in Plain :
          \E salt \in Salts(kdf), n \in [1..NonceLen -> Byte], ct \in [1..(Len(pt) + TagLen) -> Byte] :
             Seal(kdf, pass, salt, n, pt, ct)
     \/ \E data \in Strings(MaxLen), pass \in Pass :
          \/ CallUtil(data, pass)
          \/ CallToken(data, pass)
          \/ \E tag \in {"v3", "v2", ""} : CallSet(tag, TRUE, data, pass)
     \/ \E tag \in {"v3", "v2", ""}, pass \in Pass : CallSet(tag, FALSE, <<>>, pass)

Spec == Init /\ [][Next]_vars

(* -------------------------------------------------------------- properties *)
Genuine(l) == IF l.api = "util" THEN GenuineUtil(sealed, l.inp, l.pass)
              ELSE IF l.api = "token" THEN {s \in GenuineUtil(sealed, l.inp, l.pass) : s.pt # <<>>}
              ELSE IF l.api = "settings" THEN GenuineSet(sealed, l.tag, l.dec, l.inp, l.pass)
              ELSE {}

TypeOK == /\ last.res.ok \in BOOLEAN
          /\ \A s \in sealed : s.kdf \in Kdf /\ s.pass \in Pass /\ Len(s.ct) = Len(s.pt) + TagLen

(* C27, second half: text is returned only for a ciphertext that was sealed, under the same key *)
NoForgery == last.res.ok => \E s \in Genuine(last) : s.pt = last.res.pt
(* C27, first half: what was sealed decrypts to the original text under the same key *)
RoundTrip == \A s \in Genuine(last) :
                (last.api = "settings" \/ ~Collides(s)) => last.res = Ok(s.pt)
(* the token layer alone (it refuses an empty plaintext, which masks the defect of util) *)
NoForgeryToken == last.api = "token" => NoForgery
(* an error never comes with text *)
ErrHasNoText == ~last.res.ok => last.res.pt = <<>>
=============================================================================

SPECIFICATION TSpec
CONSTANTS
  Byte <- RealByte
  Magic3 <- RealMagic3
  Magic2 <- RealMagic2
  SaltLen = 16
  NonceLen = 12
  TagLen = 16
  Pass = {}
  SealPass = {}
  Plain = {}
  MaxSeals = 0
  MaxLen = 0
  Impl = "fixed"
  Tier = "quick"
INVARIANTS Report
CHECK_DEADLOCK FALSE

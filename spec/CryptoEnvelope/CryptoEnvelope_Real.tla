------------------------ MODULE CryptoEnvelope_Real ------------------------
(* The real wire layout of tucats/ego's envelopes (internal/util/crypto.go,  *)
(* internal/cli/settings/crypto.go) as constants for CryptoEnvelope, shared  *)
(* by the case generator and the contract so that both talk about the same   *)
(* format.  Also the plaintexts and passphrases the binding quantifies over. *)
EXTENDS Integers, Sequences

RealByte   == 0..255
RealMagic3 == <<255, 69, 71, 51>>      \* 0xFF 'E' 'G' '3'   Argon2id
RealMagic2 == <<255, 69, 71, 79>>      \* 0xFF 'E' 'G' 'O'   PBKDF2
RealSalt   == 16
RealNonce  == 12
RealTag    == 16

(* plaintexts, as bytes *)
P0 == <<>>
P1 == <<104, 105>>                                                      \* hi
P2 == <<123, 34, 117, 115, 101, 114, 34, 58, 34, 97, 108, 105, 99, 101, 34, 125>>   \* {"user":"alice"}
P3 == <<0, 1, 2, 255, 254, 10, 13>>                                     \* binary
P4 == [i \in 1..48 |-> 65 + (i % 26)]                                   \* longer than salt+nonce+tag
(* token plaintexts "name|data" *)
T1 == <<97, 108, 105, 99, 101, 124, 112, 97, 121, 108, 111, 97, 100>>   \* alice|payload
T2 == <<97, 124>>                                                       \* a|
T3 == <<97, 100, 109, 105, 110, 124, 123, 34, 120, 34, 58, 49, 125>>    \* admin|{"x":1}

K1 == "correct horse"
K2 == "Correct horse"
K3 == "00000000-0000-0000-0000-000000000001-00000000-0000-0000-0000-000000000002"
=============================================================================

------------------------- MODULE CryptoEnvelope_Gen -------------------------
(* Case generator of binding F: enumerates the sealing requests              *)
(* (format x plaintext x passphrase, with the other passphrases to try) and  *)
(* the wire layout the harness must use for the formats the code can only    *)
(* read.  The edits of each sealed text (every offset, every length, ...)    *)
(* are enumerated by the harness and their completeness is checked by        *)
(* CryptoEnvelope_Trace (Complete).                                          *)
EXTENDS CryptoEnvelope_Real, FiniteSets, TLC, Json

CONSTANT Tier
VARIABLE x

Layout == [magic3 |-> RealMagic3, magic2 |-> RealMagic2, salt |-> RealSalt, nonce |-> RealNonce, tag |-> RealTag]

Fmts == {"u3", "u2", "u0", "s3", "s2", "s0"}
Keys == {K1, K2, K3}
Others(k, tok) == (Keys \ {k}) \cup {k \o "x", k \o " "} \cup (IF tok THEN {} ELSE {""})

(* thorough: the full product for the formats whose key derivation is cheap; for  *)
(* the Argon2id / PBKDF2 formats (40 ms and 15 ms per call, every edit pays it)    *)
(* every plaintext under one key and two plaintexts under the other keys           *)
Costly == {"u3", "u2", "s3"}
Pairs(f) == IF Tier = "thorough"
            THEN (IF f \in Costly
                  THEN ({P0, P1, P2, P3, P4} \X {K1}) \cup ({P1, P2} \X {K2, K3})
                  ELSE {P0, P1, P2, P3, P4} \X Keys)
            ELSE {<<P0, K1>>, <<P2, K3>>}
TokPairs == IF Tier = "thorough"
            THEN {<<T1, K3>>, <<T2, K1>>, <<T3, K2>>}
            ELSE {<<T1, K3>>}

Requests == {[fmt |-> fp[1], pt |-> fp[2][1], pass |-> fp[2][2], others |-> Others(fp[2][2], FALSE)] :
                fp \in UNION {{<<f, p>> : p \in Pairs(f)} : f \in Fmts}}
            \cup {[fmt |-> "tok", pt |-> p[1], pass |-> p[2], others |-> Others(p[2], TRUE)] : p \in TokPairs}

Plan == [layout |-> Layout, requests |-> Requests]

Init == x = 0 /\ PrintT(ToJson(Plan))
Next == UNCHANGED x
GenSpec == Init /\ [][Next]_x
=============================================================================

-------------------------- MODULE TableGrants_Gen --------------------------
(* Behaviour generator for the replay binding (R): TableGrants + a history   *)
(* variable printed as JSON.  Every element carries the call, what the code- *)
(* shaped model answers (out), what the statement allows (allowed), the      *)
(* abstract zone, and the projected state after the step.                    *)
(* TLC -simulate picks one top-level disjunct of GenNext uniformly and then  *)
(* one of its successors, so the disjuncts below are the WEIGHTS of the      *)
(* generator: requests are aimed at (user, dsn, table) triples that hold a   *)
(* grant, at their neighbours (other user / other table / other DSN), and at *)
(* anything.  All of them are ordinary steps of TableGrants.                 *)
EXTENDS TableGrants, Sequences, Json

CONSTANT Depth
VARIABLE h

Proj == [restricted |-> restricted,
         dgrant |-> {[u |-> x[1], d |-> x[2], p |-> dgrant[x]] :
                       x \in {y \in AllUsers \X DSNs : dgrant[y] # {}}},
         tgrant |-> {[u |-> x[1], d |-> x[2], t |-> x[3], p |-> tgrant[x]] :
                       x \in {y \in AllUsers \X DSNs \X Tables : tgrant[y] # {}}},
         tables |-> {[d |-> x[1], t |-> x[2],
                      rows |-> {[k |-> k, v |-> content[x][k]] : k \in {r \in RowIds : content[x][r] # Absent}}] :
                       x \in {y \in DSNs \X Tables : exists[y]}}]

Cfg == [users |-> Users, root |-> Root, identRead |-> IdentRead, identWrite |-> IdentWrite,
        identAdmin |-> IdentAdmin, dsns |-> DSNs, tables |-> Tables]

GenInit == Init /\ h = <<[call |-> last, st |-> Proj, cfg |-> Cfg]>>

G(A) == /\ Len(h) <= Depth
        /\ A
        /\ h' = Append(h, [call |-> last', st |-> Proj'])

(* one deterministic closing step, so that exactly one history per trace is printed *)
Fin == /\ Len(h) = Depth + 1
       /\ h' = Append(h, [call |-> [kind |-> "end"], st |-> Proj])
       /\ UNCHANGED vars

(* RandomElement (TLC module) picks ONE parameter tuple per step instead of enumerating every
   successor of the chosen action: the step taken is an ordinary step of TableGrants either way. *)
Pick(S) == IF S = {} THEN {} ELSE {RandomElement(S)}

Holders == {x \in Users \X DSNs \X Tables : tgrant[x] # {}}
ReqArgs(US, DS, TS, OS) ==
  {x \in US \X DS \X TS \X OS \X KV : WellFormed(x[2], x[3], x[4], x[5][1], x[5][2])}
DoReq(S) == \E x \in Pick(S) : Req(x[1], x[2], x[3], x[4], x[5][1], x[5][2])

ReqHolder    == \E y \in Pick(Holders) : DoReq(ReqArgs({y[1]}, {y[2]}, {y[3]}, RowOps))
ReqOtherUser == \E y \in Pick(Holders) : DoReq(ReqArgs(Users \ {y[1]}, {y[2]}, {y[3]}, RowOps))
ReqOtherTab  == \E y \in Pick(Holders) : DoReq(ReqArgs({y[1]}, {y[2]}, Tables \ {y[3]}, RowOps))
ReqOtherDSN  == \E y \in Pick(Holders) : DoReq(ReqArgs({y[1]}, DSNs \ {y[2]}, {y[3]}, RowOps))
ReqTableOp   == DoReq(ReqArgs(AllUsers, DSNs, Tables, TableOps))
ReqAny       == DoReq(ReqArgs(AllUsers, DSNs, Tables, Ops))
Live == {x \in Users \X DSNs \X Tables : exists[<<x[2], x[3]>>]}
TG  == \E x \in Pick(Live \X TPerms) : TGrant(x[1][1], x[1][2], x[1][3], x[2])
TR  == \E y \in Pick(Holders) : \E p \in Pick(tgrant[y]) : TRevoke(y[1], y[2], y[3], p)
TRA == \E x \in Pick(Live) : TRevokeAll(x[1], x[2], x[3])
TRAHolder == \E y \in Pick(Holders) : TRevokeAll(y[1], y[2], y[3])
DG  == \E x \in Pick(Users \X DSNs \X DPerms) : DGrant(x[1], x[2], x[3])
DGHolder == \E y \in Pick(Holders) : \E p \in Pick(DPerms) : DGrant(y[1], y[2], p)
DR  == \E x \in Pick({z \in Users \X DSNs \X DPerms : z[3] \in dgrant[<<z[1], z[2]>>]}) : DRevoke(x[1], x[2], x[3])
SR  == \E x \in Pick(DSNs \X BOOLEAN) : SetRestricted(x[1], x[2])

GenNext ==
  \/ G(TG) \/ G(TG) \/ G(TG) \/ G(TR) \/ G(TRA) \/ G(TRAHolder)
  \/ G(DG) \/ G(DGHolder) \/ G(DGHolder) \/ G(DR) \/ G(SR)
  \/ G(ReqHolder) \/ G(ReqHolder) \/ G(ReqHolder) \/ G(ReqHolder)
  \/ G(ReqOtherUser) \/ G(ReqOtherUser) \/ G(ReqOtherTab) \/ G(ReqOtherDSN)
  \/ G(ReqTableOp)
  \/ G(ReqAny) \/ G(ReqAny)
  \/ Fin

GenSpec == GenInit /\ [][GenNext]_<<vars, h>>

Emit == Len(h) <= Depth + 1 \/ PrintT(ToJson(h))
=============================================================================

SPECIFICATION GenSpec
CONSTANTS
  Users = {"u1", "u2", "u3", "u4"}
  Root = "admin"
  IdentRead = {"u3"}
  IdentWrite = {"u3"}
  IdentAdmin = {"u4"}
  DSNs = {"d1", "d2"}
  InitRestricted = {"d1"}
  Tables = {"t1", "t2"}
  RowIds = {1, 2}
  Vals = {1, 2}
  Impl = "asis"
  MaxSteps = 1000000
  Depth = 40
INVARIANTS Emit LastAllowed
CHECK_DEADLOCK FALSE

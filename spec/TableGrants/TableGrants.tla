---------------------------- MODULE TableGrants ----------------------------
(* C43 - row endpoints enforce table grants (tucats/ego, internal/server/    *)
(* tables + internal/dsns).                                                  *)
(*                                                                           *)
(* Code-shaped: one action per REST request (each request is one sequential  *)
(* critical section of the history):                                         *)
(*   TGrant / TRevoke   PUT    /dsns/d/tables/t/permissions?user=u  (root)    *)
(*   TRevokeAll         DELETE /dsns/d/tables/t/permissions?user=u  (root)    *)
(*   DGrant / DRevoke   POST   /dsns/@permissions                   (root)    *)
(*   SetRestricted      PATCH  /dsns/d {"restricted": b}            (root)    *)
(*   Req(u,d,t,op,..)   the row / table endpoints, issued by any user         *)
(*                                                                           *)
(* Decide(...) transcribes what the code does (database.Open: identity-wide  *)
(* permission or dsns_auth bit; then security.go Authorized: table_perms     *)
(* row of exactly this user, dsn and table; create/drop are authorized at    *)
(* the DSN level only).                                                      *)
(* Allowed(...) is what the STATEMENT of C43 permits, word by word:          *)
(*   - root, or an unrestricted DSN        : must succeed  ("not limited")   *)
(*   - restricted, non-root, row request   : may succeed ONLY IF the         *)
(*       table_perms grant matching the operation (or table admin) is        *)
(*       recorded for exactly (user, dsn, table); otherwise must be denied   *)
(*   - restricted, non-root, create/drop   : may succeed only if the user    *)
(*       has DSN-admin standing for exactly that DSN (the grant the code     *)
(*       and docs/SERVER.md call the matching one for schema changes)        *)
(*   - where the grant IS recorded the statement allows both outcomes (it    *)
(*       says "only if"); the code additionally wants the DSN-level grant.   *)
(* Impl = "asis"     : the code as it is today                               *)
(* Impl = "anyuser"  : historic defect - Authorized filtered on a column     *)
(*                     that does not exist, so the lookup matched every      *)
(*                     user's row for (dsn, table)                           *)
(* Impl = "inverted" : historic defect - the abstract row endpoints tested   *)
(*                     Authorized() without the negation                     *)
EXTENDS Integers, FiniteSets, TLC

CONSTANTS Users,          \* non-root users
          Root,           \* the ego.root user
          IdentRead, IdentWrite, IdentAdmin,   \* users holding identity-wide ego.dsn.read/.write/.admin
          DSNs, InitRestricted,
          Tables, RowIds, Vals,
          Impl, MaxSteps

AllUsers == Users \cup {Root}
TPerms   == {"read", "write", "update", "delete", "admin"}
DPerms   == {"read", "write", "admin"}
ReadOps  == {"read", "readA", "describe"}
InsOps   == {"insert", "insertA"}
UpdOps   == {"update", "updateA"}
RowOps   == ReadOps \cup InsOps \cup UpdOps \cup {"delete"}
TableOps == {"create", "drop"}
Ops      == RowOps \cup TableOps
Absent   == -1

VARIABLES restricted,  \* [DSNs -> BOOLEAN]
          dgrant,      \* [AllUsers \X DSNs -> SUBSET DPerms]            dsns_auth
          tgrant,      \* [AllUsers \X DSNs \X Tables -> SUBSET TPerms]  table_perms
          exists,      \* [DSNs \X Tables -> BOOLEAN]
          content,     \* [DSNs \X Tables -> [RowIds -> Vals \cup {Absent}]]
          steps,
          last         \* observation: the last request, what the code answers, what the statement allows

vars == <<restricted, dgrant, tgrant, exists, content, steps, last>>

Need(op) == IF op \in ReadOps THEN "read" ELSE IF op \in InsOps THEN "write"
            ELSE IF op \in UpdOps THEN "update" ELSE "delete"
Act(op)  == IF op \in ReadOps THEN "read" ELSE IF op \in TableOps THEN "admin" ELSE "write"

(* ---------------- the decision, as functions of an explicit store (rs, dg, tg) ------------- *)
IdentOK(u, a) == u \in IdentAdmin \/ (a = "read" /\ u \in IdentRead) \/ (a = "write" /\ u \in IdentWrite)
DsnOK(dg, u, d, a) == IdentOK(u, a) \/ a \in dg[<<u, d>>]           \* (auth.Action & action) != 0
HasT(tg, u, d, t, op) == Need(op) \in tg[<<u, d, t>>] \/ "admin" \in tg[<<u, d, t>>]

TableOK(tg, u, d, t, op) ==
  CASE Impl = "asis"     -> HasT(tg, u, d, t, op)
    [] Impl = "anyuser"  -> LET rows == {w \in AllUsers : tg[<<w, d, t>>] # {}}
                            IN  Cardinality(rows) = 1 /\ \A w \in rows : HasT(tg, w, d, t, op)
    [] Impl = "inverted" -> IF op \in {"readA", "insertA", "updateA"}
                            THEN ~HasT(tg, u, d, t, op) ELSE HasT(tg, u, d, t, op)

DecideIn(rs, dg, tg, u, d, t, op) ==
  IF u = Root \/ ~rs[d] THEN "ok"
  ELSE IF ~DsnOK(dg, u, d, Act(op)) THEN "denied"
  ELSE IF op \in TableOps THEN "ok"
  ELSE IF TableOK(tg, u, d, t, op) THEN "ok" ELSE "denied"

AllowedIn(rs, dg, tg, u, d, t, op) ==
  IF u = Root \/ ~rs[d] THEN {"ok"}
  ELSE IF op \in RowOps
       THEN IF HasT(tg, u, d, t, op) THEN {"ok", "denied"} ELSE {"denied"}
       ELSE IF DsnOK(dg, u, d, "admin") THEN {"ok", "denied"} ELSE {"denied"}

Decide(u, d, t, op)  == DecideIn(restricted, dgrant, tgrant, u, d, t, op)
Allowed(u, d, t, op) == AllowedIn(restricted, dgrant, tgrant, u, d, t, op)

(* ---------------- initial state: root created every DSN and table ---------------- *)
NoRows == [k \in RowIds |-> Absent]
Init ==
  /\ restricted = [d \in DSNs |-> d \in InitRestricted]
  /\ dgrant = [x \in AllUsers \X DSNs |-> IF x[1] = Root /\ x[2] \in InitRestricted THEN DPerms ELSE {}]
  /\ tgrant = [x \in AllUsers \X DSNs \X Tables |-> IF x[1] = Root THEN TPerms ELSE {}]
  /\ exists = [x \in DSNs \X Tables |-> TRUE]
  /\ content = [x \in DSNs \X Tables |-> NoRows]
  /\ steps = 0
  /\ last = [kind |-> "init", u |-> "", d |-> "", t |-> "", p |-> "", k |-> 0, v |-> 0, b |-> FALSE,
             out |-> "", allowed |-> {}, zone |-> ""]

Obs(kind, u, d, t, p, k, v, b, out, allowed, zone) ==
  /\ last' = [kind |-> kind, u |-> u, d |-> d, t |-> t, p |-> p, k |-> k, v |-> v, b |-> b,
              out |-> out, allowed |-> allowed, zone |-> zone]
  /\ steps' = steps + 1

(* ---------------- grant / revoke (issued by root: always accepted) ---------------- *)
TGrant(u, d, t, p) ==
  /\ exists[<<d, t>>]
  /\ tgrant' = [tgrant EXCEPT ![<<u, d, t>>] = @ \cup {p}]
  /\ UNCHANGED <<restricted, dgrant, exists, content>>
  /\ Obs("tgrant", u, d, t, p, 0, 0, FALSE, "ok", {"ok"}, "admin-call")

TRevoke(u, d, t, p) ==
  /\ exists[<<d, t>>]
  /\ tgrant' = [tgrant EXCEPT ![<<u, d, t>>] = @ \ {p}]
  /\ UNCHANGED <<restricted, dgrant, exists, content>>
  /\ Obs("trevoke", u, d, t, p, 0, 0, FALSE, "ok", {"ok"}, "admin-call")

TRevokeAll(u, d, t) ==
  /\ exists[<<d, t>>]
  /\ tgrant' = [tgrant EXCEPT ![<<u, d, t>>] = {}]
  /\ UNCHANGED <<restricted, dgrant, exists, content>>
  /\ Obs("trevokeall", u, d, t, "", 0, 0, FALSE, "ok", {"ok"}, "admin-call")

(* GrantDSN: any grant OR revoke flips an unrestricted DSN to restricted *)
DGrant(u, d, p) ==
  /\ dgrant' = [dgrant EXCEPT ![<<u, d>>] = @ \cup {p}]
  /\ restricted' = [restricted EXCEPT ![d] = TRUE]
  /\ UNCHANGED <<tgrant, exists, content>>
  /\ Obs("dgrant", u, d, "", p, 0, 0, FALSE, "ok", {"ok"}, "admin-call")

DRevoke(u, d, p) ==
  /\ dgrant' = [dgrant EXCEPT ![<<u, d>>] = @ \ {p}]
  /\ restricted' = [restricted EXCEPT ![d] = TRUE]
  /\ UNCHANGED <<tgrant, exists, content>>
  /\ Obs("drevoke", u, d, "", p, 0, 0, FALSE, "ok", {"ok"}, "admin-call")

(* UpdateDSNHandler: restricted -> unrestricted deletes every dsns_auth record of the DSN (table_perms stay) *)
SetRestricted(d, b) ==
  /\ restricted' = [restricted EXCEPT ![d] = b]
  /\ dgrant' = IF restricted[d] /\ ~b
               THEN [x \in AllUsers \X DSNs |-> IF x[2] = d THEN {} ELSE dgrant[x]]
               ELSE dgrant
  /\ UNCHANGED <<tgrant, exists, content>>
  /\ Obs("setrestricted", "", d, "", "", 0, 0, b, "ok", {"ok"}, "admin-call")

(* ---------------- requests ---------------- *)
(* effect of an accepted request *)
Effect(u, d, t, op, k, v) ==
  CASE op \in ReadOps ->
         UNCHANGED <<tgrant, exists, content>>
    [] op \in InsOps ->
         /\ content' = [content EXCEPT ![<<d, t>>][k] = 0]
         /\ UNCHANGED <<tgrant, exists>>
    [] op \in UpdOps ->
         /\ content' = [content EXCEPT ![<<d, t>>][k] = v]
         /\ UNCHANGED <<tgrant, exists>>
    [] op = "delete" ->
         /\ content' = [content EXCEPT ![<<d, t>>][k] = Absent]
         /\ UNCHANGED <<tgrant, exists>>
    [] op = "create" ->       \* createTablePermissions: the creator gets all five
         /\ exists' = [exists EXCEPT ![<<d, t>>] = TRUE]
         /\ content' = [content EXCEPT ![<<d, t>>] = NoRows]
         /\ tgrant' = [tgrant EXCEPT ![<<u, d, t>>] = TPerms]
    [] op = "drop" ->         \* removeTablePermissions: every user's row for (dsn, table) goes
         /\ exists' = [exists EXCEPT ![<<d, t>>] = FALSE]
         /\ content' = [content EXCEPT ![<<d, t>>] = NoRows]
         /\ tgrant' = [x \in AllUsers \X DSNs \X Tables |-> IF x[2] = d /\ x[3] = t THEN {} ELSE tgrant[x]]

(* abstract identity of a request (class of situation), used as the key of a finding:
   root / open (unrestricted) / granted (the statement allows both answers) /
   nogrant-other (must be denied although ANOTHER user, table or DSN record would match) / nogrant *)
Zone(u, d, t, op) ==
  IF u = Root THEN "root"
  ELSE IF ~restricted[d] THEN "open"
  ELSE IF op \in RowOps
       THEN IF HasT(tgrant, u, d, t, op) THEN "granted"
            ELSE IF \E w \in Users, e \in DSNs, s \in Tables :
                       <<w, e, s>> # <<u, d, t>> /\ (w = u \/ e = d) /\ HasT(tgrant, w, e, s, op)
                 THEN "nogrant-other" ELSE "nogrant"
       ELSE IF DsnOK(dgrant, u, d, "admin") THEN "granted"
            ELSE IF \E w \in Users, e \in DSNs :
                       <<w, e>> # <<u, d>> /\ (w = u \/ e = d) /\ "admin" \in dgrant[<<w, e>>]
                 THEN "nogrant-other" ELSE "nogrant"

(* which requests the driver issues (outside: 404/409 answers that say nothing about grants) *)
WellFormed(d, t, op, k, v) ==
  /\ (op = "create") = ~exists[<<d, t>>]
  /\ op \in InsOps => k \in RowIds /\ content[<<d, t>>][k] = Absent /\ v = 0
  /\ op \in UpdOps => k \in RowIds /\ content[<<d, t>>][k] # Absent /\ v \in Vals
  /\ op = "delete" => k \in RowIds /\ content[<<d, t>>][k] # Absent /\ v = 0
  /\ op \in ReadOps \cup TableOps => k = 0 /\ v = 0

Req(u, d, t, op, k, v) ==
  /\ WellFormed(d, t, op, k, v)
  /\ LET out == Decide(u, d, t, op) IN
       /\ IF out = "ok" THEN Effect(u, d, t, op, k, v) ELSE UNCHANGED <<tgrant, exists, content>>
       /\ UNCHANGED <<restricted, dgrant>>
       /\ Obs("req", u, d, t, op, k, v, FALSE, out, Allowed(u, d, t, op), Zone(u, d, t, op))

KV == (RowIds \cup {0}) \X (Vals \cup {0})

Admin ==
  \/ \E u \in Users, d \in DSNs, t \in Tables, p \in TPerms : TGrant(u, d, t, p) \/ TRevoke(u, d, t, p)
  \/ \E u \in Users, d \in DSNs, t \in Tables : TRevokeAll(u, d, t)
  \/ \E u \in Users, d \in DSNs, p \in DPerms : DGrant(u, d, p) \/ DRevoke(u, d, p)
  \/ \E d \in DSNs, b \in BOOLEAN : SetRestricted(d, b)

Request == \E u \in AllUsers, d \in DSNs, t \in Tables, op \in Ops, kv \in KV : Req(u, d, t, op, kv[1], kv[2])

Next == steps < MaxSteps /\ (Admin \/ Request)
Spec == Init /\ [][Next]_vars

(* ---------------- the property ---------------- *)
TypeOK ==
  /\ restricted \in [DSNs -> BOOLEAN]
  /\ dgrant \in [AllUsers \X DSNs -> SUBSET DPerms]
  /\ tgrant \in [AllUsers \X DSNs \X Tables -> SUBSET TPerms]
  /\ exists \in [DSNs \X Tables -> BOOLEAN]
  /\ content \in [DSNs \X Tables -> [RowIds -> Vals \cup {Absent, 0}]]

(* C43-1/2: what the code answers is always something the statement allows, for EVERY request
   that could be made in this state (not only the one just made) *)
DecisionSound ==
  \A u \in AllUsers, d \in DSNs, t \in Tables, op \in Ops : Decide(u, d, t, op) \in Allowed(u, d, t, op)

(* spelled out, the two halves *)
NoUngrantedAccess ==
  \A u \in Users, d \in DSNs, t \in Tables, op \in RowOps :
     (restricted[d] /\ Decide(u, d, t, op) = "ok") => HasT(tgrant, u, d, t, op)
NoUngrantedTableChange ==
  \A u \in Users, d \in DSNs, t \in Tables, op \in TableOps :
     (restricted[d] /\ Decide(u, d, t, op) = "ok") => DsnOK(dgrant, u, d, "admin")
Unlimited ==
  \A u \in AllUsers, d \in DSNs, t \in Tables, op \in Ops :
     (u = Root \/ ~restricted[d]) => Decide(u, d, t, op) = "ok"

(* C43-3: grants for one user, DSN or table never authorize another: erase every record that is
   not about exactly (u, d) / (u, d, t) and the answer is the same *)
OnlyD(u, d)    == [x \in AllUsers \X DSNs |-> IF x = <<u, d>> THEN dgrant[x] ELSE {}]
OnlyT(u, d, t) == [x \in AllUsers \X DSNs \X Tables |-> IF x = <<u, d, t>> THEN tgrant[x] ELSE {}]
Isolation ==
  \A u \in Users, d \in DSNs :
     LET dg == OnlyD(u, d) IN
     \A t \in Tables :
        LET tg == OnlyT(u, d, t) IN
        \A op \in Ops : Decide(u, d, t, op) = DecideIn(restricted, dg, tg, u, d, t, op)

(* the last request made got an answer the statement allows (used by the generator / replay) *)
LastAllowed == last.kind = "req" => last.out \in last.allowed

View == <<restricted, dgrant, tgrant, exists, content, steps>>
=============================================================================

SPECIFICATION Spec
CONSTANTS
  Users = {"u1", "u2"}
  Root = "admin"
  IdentRead = {"u2"}
  IdentWrite = {"u2"}
  IdentAdmin = {}
  DSNs = {"d1", "d2"}
  InitRestricted = {"d1"}
  Tables = {"t1", "t2"}
  RowIds = {}
  Vals = {}
  Impl = "inverted"
  MaxSteps = 2
INVARIANTS TypeOK DecisionSound NoUngrantedAccess NoUngrantedTableChange Unlimited Isolation
VIEW View
CHECK_DEADLOCK FALSE

SPECIFICATION Spec
CONSTANTS
  Users = {"u1", "u2", "u3"}
  Root = "admin"
  IdentRead = {"u2"}
  IdentWrite = {"u2"}
  IdentAdmin = {"u3"}
  DSNs = {"d1", "d2"}
  InitRestricted = {"d1"}
  Tables = {"t1"}
  RowIds = {1}
  Vals = {1}
  Impl = "asis"
  MaxSteps = 3
INVARIANTS TypeOK DecisionSound NoUngrantedAccess NoUngrantedTableChange Unlimited Isolation
VIEW View
CHECK_DEADLOCK FALSE

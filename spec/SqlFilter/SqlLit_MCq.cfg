SPECIFICATION Spec
CONSTANTS
  Impl = "fixed"
  Alpha = {"q", "d", "s", "k", "p", "o", "u", "x", "y"}
  MaxLen = 2
  MaxLen2 = 1
  MaxVals = 2
INVARIANTS StructKept ValuesKept
CHECK_DEADLOCK FALSE

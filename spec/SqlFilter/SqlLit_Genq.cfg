SPECIFICATION GSpec
CONSTANTS
  Impl = "asis"
  Alpha = {"q", "k", "p", "o", "u", "x"}
  MaxLen = 2
  MaxLen2 = 3
  MaxVals = 2
  Sample = 50
INVARIANTS Emit
CHECK_DEADLOCK FALSE

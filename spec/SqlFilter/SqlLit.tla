------------------------------- MODULE SqlLit -------------------------------
(* C14, the mechanism behind "two innocent-looking filters combine into an    *)
(* injection": how a list of string values is embedded as SQL string literals *)
(* into one WHERE clause, and how SQLite's lexer reads the result back.       *)
(*                                                                            *)
(* Strings are sequences over a small alphabet of *atoms* (each atom stands   *)
(* for a concrete piece of text, see Alpha).  The translator is shaped like   *)
(* parsing.filterClause + parsing.SQLEscape (Impl = "asis": a value is only   *)
(* screened - a quote is refused when it is interior, a leading quote strips  *)
(* a leading/trailing pair, ';' is refused, and the refusal of an operand is  *)
(* swallowed by the caller leaving an empty operand) or like the repair       *)
(* (Impl = "fixed": every quote is doubled, nothing is refused).              *)
(* The reader is SQLite's tokenizer restricted to what matters here: string   *)
(* literals with '' escapes, and -- comments.                                 *)
(*                                                                            *)
(* One lexer step per transition; StructKept /\ ValuesKept is the property:                       *)
(*   when the statement has been read completely, either it was refused /     *)
(*   cannot be parsed (unterminated literal, empty operand), or the literals   *)
(*   the database sees are exactly the values and nothing of a value has      *)
(*   become SQL structure.                                                     *)
EXTENDS Integers, Sequences, FiniteSets, TLC

CONSTANTS Impl,        \* "asis" | "fixed"
          Alpha,       \* value atoms, subset of AllAlpha
          MaxLen,      \* longest first value
          MaxLen2,     \* longest second value
          MaxVals      \* 1 or 2 values in the list

(* atoms of values:  q = '   d = "   s = ;   k = " --"   p = )   o = " OR 1=1"
   u = " UNION SELECT k,v FROM secrets"   x = a   y = b                        *)
AllAlpha == {"q", "d", "s", "k", "p", "o", "u", "x", "y"}
(* structure atoms the translator itself writes:
   O = ("name" =     Q = ' (literal delimiter)   C = )   A = " AND "   H = empty operand *)

RECURSIVE SeqsUpTo(_, _)
SeqsUpTo(S, n) == IF n = 0 THEN {<<>>} ELSE LET P == SeqsUpTo(S, n - 1) IN P \cup {Append(s, a) : s \in {t \in P : Len(t) = n - 1}, a \in S}
Values1 == SeqsUpTo(Alpha, MaxLen)
Values2 == SeqsUpTo(Alpha, MaxLen2)
ValueLists == {<<v>> : v \in Values1} \cup (IF MaxVals >= 2 THEN {<<v, w>> : v \in Values1, w \in Values2} ELSE {})

(* ------------------------------------------------------------- translator *)
Last(s) == s[Len(s)]
Front(s) == SubSeq(s, 1, Len(s) - 1)
Strip(v, c) ==       \* strings.TrimPrefix(strings.TrimSuffix(v, c), c)
  LET a == IF Len(v) > 0 /\ Last(v) = c THEN Front(v) ELSE v
  IN IF Len(a) > 0 /\ Head(a) = c THEN Tail(a) ELSE a
Trimmed(v) == IF Len(v) > 0 /\ Head(v) = "q" THEN Strip(v, "q")
              ELSE IF Len(v) > 0 /\ Head(v) = "d" THEN Strip(v, "d") ELSE v
Refused(v) == LET t == Trimmed(v)
              IN \E i \in DOMAIN t : \/ t[i] = "s"
                                     \/ (t[i] \in {"q", "d"} /\ i > 1 /\ i < Len(t))
RECURSIVE Doubled(_)
Doubled(v) == IF v = <<>> THEN <<>> ELSE (IF Head(v) = "q" THEN <<"q", "q">> ELSE <<Head(v)>>) \o Doubled(Tail(v))

Operand(v) == IF Impl = "asis"
              THEN IF Refused(v) THEN <<"H">> ELSE <<"Q">> \o Trimmed(v) \o <<"Q">>
              ELSE <<"Q">> \o Doubled(v) \o <<"Q">>
Clause(v) == <<"O">> \o Operand(v) \o <<"C">>
Text(vs) == IF Len(vs) = 1 THEN Clause(vs[1]) ELSE Clause(vs[1]) \o <<"A">> \o Clause(vs[2])
Intended(vs) == IF Len(vs) = 1 THEN <<"O", "L", "C">> ELSE <<"O", "L", "C", "A", "O", "L", "C">>

(* ------------------------------------------------------------------ reader *)
LexInit == [pos |-> 1, mode |-> "out", cur |-> <<>>, lits |-> <<>>, struct |-> <<>>, bad |-> FALSE, done |-> FALSE]
IsQuote(c) == c \in {"Q", "q"}            \* both are the character '
LexStep(t, st) ==
  IF st.pos > Len(t) THEN [st EXCEPT !.done = TRUE]
  ELSE LET c == t[st.pos] IN
    IF st.mode = "out" THEN
         IF IsQuote(c) THEN [st EXCEPT !.pos = @ + 1, !.mode = "in", !.cur = <<>>]
         ELSE IF c = "k" THEN [st EXCEPT !.pos = Len(t) + 1]                          \* comment to end of text
         ELSE IF c = "H" THEN [st EXCEPT !.pos = @ + 1, !.bad = TRUE]                 \* ("name" = )  never parses
         ELSE [st EXCEPT !.pos = @ + 1, !.struct = Append(@, c)]
    ELSE IF IsQuote(c) THEN
              IF st.pos < Len(t) /\ IsQuote(t[st.pos + 1])
              THEN [st EXCEPT !.pos = @ + 2, !.cur = Append(@, "q")]                  \* '' inside a literal
              ELSE [st EXCEPT !.pos = @ + 1, !.mode = "out", !.lits = Append(@, st.cur), !.struct = Append(@, "L")]
         ELSE [st EXCEPT !.pos = @ + 1, !.cur = Append(@, c)]

Unparsable(st) == st.bad \/ st.mode = "in"                          \* the database cannot parse it: rejected
StructEnd(vs, st) == Unparsable(st) \/ st.struct = Intended(vs)     \* nothing of a value has become SQL structure
ValueEnd(vs, st)  == Unparsable(st) \/ st.lits = vs                 \* the literals read back as exactly the values
SafeEnd(vs, st) == StructEnd(vs, st) /\ ValueEnd(vs, st)

RECURSIVE LexAll(_, _)
LexAll(t, st) == IF st.done THEN st ELSE LexAll(t, LexStep(t, st))
(* functional form, used by the generator: "struct" = predicted injection, "value" = predicted change of meaning *)
Verdict(vs) == LET e == LexAll(Text(vs), LexInit)
               IN IF ~StructEnd(vs, e) THEN "struct" ELSE IF ~ValueEnd(vs, e) THEN "value" ELSE "safe"

(* ------------------------------------------------------------ state machine *)
VARIABLES vals, text, st
vars == <<vals, text, st>>
Init == /\ vals \in ValueLists
        /\ text = Text(vals)
        /\ st = LexInit
Next == /\ ~st.done
        /\ st' = LexStep(text, st)
        /\ UNCHANGED <<vals, text>>
Spec == Init /\ [][Next]_vars

StructKept == st.done => StructEnd(vals, st)
ValuesKept == st.done => ValueEnd(vals, st)
=============================================================================

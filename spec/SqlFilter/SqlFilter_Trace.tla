--------------------------- MODULE SqlFilter_Trace ---------------------------
(* Binding F: every (request, observed outcome) pair logged from a real       *)
(* `ego server` is judged by the contract of SqlFilter.  One record per step; *)
(* failing records are accumulated with the abstract identity of the case.    *)
(* A record is  [req |-> request of SqlFilter_Gen,                            *)
(*               before |-> rows of t1 before the request,                    *)
(*               out |-> [status, count, cols, rows, after, touched, others]] *)
(* where touched = tables opened by the statements the server executed (as    *)
(* reported by SQLite's authorizer for the captured statement texts) and      *)
(* others = the other tables whose content differs from what was seeded.      *)
EXTENDS SqlFilter, Json

VARIABLES i, bad, skipped

Log == ndJsonDeserialize("io.ndjson")
N   == Len(Log)

TInit == i = 1 /\ bad = {} /\ skipped = 0
TNext == /\ i <= N
         /\ i' = i + 1
         /\ LET r == Log[i]
                b == Range(r.before)
            IN IF ~WF(r.req, b) THEN skipped' = skipped + 1 /\ bad' = bad
               ELSE /\ skipped' = skipped
                    /\ bad' = IF Post(r.req, b, r.out) THEN bad
                              ELSE bad \cup {[idx |-> i, key |-> Key(r.req, b, r.out)]}
TSpec == TInit /\ [][TNext]_<<i, bad, skipped>>

Report == i <= N \/ PrintT(ToJson([n |-> N, skipped |-> skipped, bad |-> bad]))
=============================================================================

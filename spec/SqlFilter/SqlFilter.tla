------------------------------ MODULE SqlFilter ------------------------------
(* C14 - table REST requests cannot inject SQL.                               *)
(*                                                                            *)
(* This module is the *contract* (binding F): the bounded request space, the  *)
(* documented meaning Eval of a filter, and Post(req, before, out): what the  *)
(* property statement allows a request to do to a SQLite database that holds  *)
(* the addressed table t1 and other tables.  Strings are abstract atoms (the  *)
(* check's concretiser maps them to concrete texts; StrClass is their         *)
(* spec-level class).  Integers are real integers.                            *)
(*                                                                            *)
(* Statement, clause by clause:                                               *)
(*  S1 "the database only ever executes statements that touch the addressed   *)
(*      table"                        -> TouchOK (tables opened by every      *)
(*      executed statement, as reported by SQLite's authorizer; other tables  *)
(*      byte-for-byte unchanged)                                              *)
(*  S2 "rows read, updated or deleted are exactly those that satisfy the      *)
(*      filter under its documented meaning, or the request is rejected"      *)
(*                                    -> RowsOK / StateOK / CountOK           *)
(* A rejected request (status outside 2xx) must leave t1 as it was.           *)
(* Ordering of returned rows is not part of the statement and is not checked. *)
EXTENDS Integers, Sequences, FiniteSets, TLC

T      == "t1"
Others == {"secrets", "audit"}

Range(s) == {s[i] : i \in DOMAIN s}
Min(a, b) == IF a < b THEN a ELSE b
Max(a, b) == IF a > b THEN a ELSE b

(* ---------------------------------------------------------------- atoms *)
(* A string is a sequence of text atoms (the alphabet of SqlLit):               *)
(*   q = '   d = "   s = ;   k = " --"   p = )   o = " OR 1=1"                  *)
(*   u = " UNION SELECT k,v FROM secrets"   x = a   y = b   b = \ (backslash)   *)
(*   1 = 1   z = a parenthesised sub-select counting the rows of secrets        *)
(* the concretiser concatenates the atoms' texts.  Named strings used by the    *)
(* generator and as row contents:                                               *)
AllAlpha == {"q", "d", "s", "k", "p", "o", "u", "x", "y", "b", "1", "z"}
Str == [a    |-> <<"x">>,                  \* a
        b    |-> <<"y">>,                  \* b
        qe   |-> <<"x", "q">>,             \* a'
        qs   |-> <<"q", "x">>,             \* 'a
        qq   |-> <<"q", "y", "q">>,        \* 'b'
        orc  |-> <<"o", "p", "k">>,        \*  OR 1=1) --
        orc2 |-> <<"o", "p", "p", "k">>,   \*  OR 1=1)) --
        uni  |-> <<"p", "u", "k">>,        \* ) UNION SELECT k,v FROM secrets --
        semi |-> <<"x", "s", "y">>,        \* a;b
        dq   |-> <<"x", "d", "y">>,        \* a"b
        q1   |-> <<"q">>,                  \* '
        cmt  |-> <<"y", "k">>,             \* b --
        bqc  |-> <<"b", "q", "p", "o", "k">>,   \* \') OR 1=1 --
        bdc  |-> <<"b", "d", "p", "o", "k">>]   \* \") OR 1=1 --
(* strings that are only used behind a sign (+"..." / -"..."): outside the documented grammar *)
SignStrs == {<<"1">>, <<"1", "o">>, <<"z">>, <<"y", "x">>}  \* 1 | 1 OR 1=1 | (SELECT count(*) FROM secrets) | ba
StrAtoms == {Str[n] : n \in DOMAIN Str}
IntAtoms == {-1, 2, 4}
IsStr(v) == v \in Seq(AllAlpha)

(* features of a string that matter to quoting: part of a case's identity *)
StrFeat(v) == (IF Len(v) > 0 /\ v[1] = "q" THEN {"qstart"} ELSE {})
              \cup (IF Len(v) > 1 /\ v[Len(v)] = "q" THEN {"qend"} ELSE {})
              \cup (IF \E i \in 2..(Len(v) - 1) : v[i] = "q" THEN {"qmid"} ELSE {})
              \cup (IF "d" \in Range(v) THEN {"dquote"} ELSE {}) \cup (IF "s" \in Range(v) THEN {"semi"} ELSE {})
              \cup (IF "b" \in Range(v) THEN {"bslash"} ELSE {})
              \cup (IF Range(v) \cap {"k", "p", "o", "u", "z"} # {} THEN {"cont"} ELSE {})      \* carries SQL continuation text

Row(i, n) == [id |-> i, name |-> n]
Table0 == {Row(1, Str.a), Row(2, Str.b), Row(3, Str.qe), Row(4, Str.orc), Row(5, Str.uni), Row(6, Str.qs)}
NewId  == 7

(* ------------------------------------------------- documented filter grammar *)
(* a leaf compares a column with a literal; a filter is a leaf, NOT(leaf),     *)
(* AND(leaf,leaf) or OR(leaf,leaf)  (uniform records: r is ignored for          *)
(* "leaf"/"not"; iv/sv carry the integer / string-atom literal)                 *)
CmpOps  == {"EQ", "LT", "LE", "GT", "GE"}
IntLeaf == [op : CmpOps, col : {"id"}, iv : IntAtoms, sv : {<<>>}, sg : {""}]
StrLeaf == [op : {"EQ"}, col : {"name"}, iv : {0}, sv : StrAtoms, sg : {""}]
Leaf    == IntLeaf \cup StrLeaf
(* a sign in front of the operand: "signed numbers" are documented (+2, -2); a sign in front of a quoted *)
(* string is not - such a comparison can only be refused or be true of no row (see WF)                  *)
XLeaf   == [op : {"EQ", "LT"}, col : {"id"}, iv : {2, 4}, sv : {<<>>}, sg : {"+", "-"}]
           \cup [op : {"EQ"}, col : {"name"}, iv : {0}, sv : SignStrs, sg : {"+", "-"}]
LeafF(x) == [k |-> "leaf", l |-> x, r |-> x]
NotF(x)  == [k |-> "not", l |-> x, r |-> x]
BinF(k, x, y) == [k |-> k, l |-> x, r |-> y]

IntCmp(op, x, y) == CASE op = "EQ" -> x = y [] op = "LT" -> x < y [] op = "LE" -> x <= y
                      [] op = "GT" -> x > y [] op = "GE" -> x >= y
LeafEval(f, r) == IF f.col = "id" THEN IntCmp(f.op, r.id, IF f.sg = "-" THEN 0 - f.iv ELSE f.iv)
                  ELSE f.sg = "" /\ r.name = f.sv
(* documented meaning: docs/API.md "Filter expressions" *)
Eval(f, r) == CASE f.k = "leaf" -> LeafEval(f.l, r)
                [] f.k = "and" -> LeafEval(f.l, r) /\ LeafEval(f.r, r)
                [] f.k = "or"  -> LeafEval(f.l, r) \/ LeafEval(f.r, r)
                [] f.k = "not" -> ~LeafEval(f.l, r)
(* a list of filters (comma conjunction, repeated parameter, task array) is ANDed *)
Match(tab, flt) == {r \in tab : \A i \in DOMAIN flt : Eval(flt[i], r)}

(* ------------------------------------------------------ other parameter atoms *)
GoodTbl  == {"plain", "upper", "quoted", "main"}      \* t1  T1  "t1"  main.t1
AdvTbl   == {"list", "cmt", "union", "stack"}         \* t1,secrets | t1 -- | t1 WHERE 1=0 UNION SELECT k,v FROM secrets -- | t1;DROP TABLE secrets
GoodCol  == {"id", "name"}
AdvCol   == {"cntinj", "qinj", "nosuch", "subq"}      \* count(*) FROM secrets -- | k" FROM secrets -- | nosuch | (SELECT v FROM secrets)
GoodSort == {"id", "~id", "name", "id,name"}
AdvSort  == {"sub", "stack", "lim", "case"}           \* (SELECT v FROM secrets) | id;DELETE FROM secrets;-- | id LIMIT 1 -- | CASE WHEN (SELECT count(*) FROM secrets)>0 THEN id ELSE name END
NumLimit == {"1", "2", "1000"}
AdvLimit == {"stack", "off"}                          \* 1;DROP TABLE secrets | 2 OFFSET 0 --
NumStart == {"1", "2", "7"}
AdvStart == {"stack"}                                 \* 1;DROP TABLE secrets
GoodKey  == {"name"}
AdvKey   == {"kq", "kinj"}                            \* na"me | name") SELECT k,v FROM secrets --
(* text after a complete filter clause (outside the grammar: the request may be refused, or read as the clause) *)
Trails   == {"close", "or", "orq", "comma", "word"}   \* ) |  OR 1=1 | ) OR ((1=1' | , |  garbage

Num(s) == CASE s = "1" -> 1 [] s = "2" -> 2 [] s = "7" -> 7 [] s = "1000" -> 1000 [] OTHER -> 0

ReadOps  == {"read", "aread", "txrows"}
WriteOps == {"delete", "update", "insert", "txdelete", "txupdate", "txinsert"}
Ops      == ReadOps \cup WriteOps

(* ------------------------------------------------------------------ contract *)
Rejected(out) == out.status < 200 \/ out.status > 299
Addressed(req) == IF req.tbl \in GoodTbl THEN {T} ELSE {}

(* S1 *)
TouchOK(req, out) == /\ Range(out.touched) \subseteq Addressed(req)
                     /\ out.others = <<>>

Proj(r, cs) == [id |-> IF "id" \in cs THEN r.id ELSE 0, name |-> IF "name" \in cs THEN r.name ELSE <<"-">>]
AllGoodCols(req) == Range(req.cols) \subseteq GoodCol
ReqCols(req) == IF req.cols = <<>> THEN GoodCol ELSE Range(req.cols)
Paged(req) == req.limit # "-" \/ req.start # "-"
NumPaged(req) == req.limit \in NumLimit \cup {"-"} /\ req.start \in NumStart \cup {"-"}
ExpCount(req, n) == LET lim == IF req.limit = "-" THEN 1000 ELSE Num(req.limit)
                        st  == IF req.start = "-" THEN 1 ELSE Num(req.start)
                    IN Min(lim, Max(0, n - (st - 1)))

(* S2 for reads: the rows returned are exactly the matching rows (identified by the returned id/name columns) *)
RowsOK(req, before, out) ==
  LET m   == Match(before, req.flt)
      cs  == Range(out.cols) \cap GoodCol
      exp == {Proj(r, cs) : r \in m}
      got == Range(out.rows)
  IN IF ~Paged(req) THEN got = exp /\ Len(out.rows) = Cardinality(m)
     ELSE /\ got \subseteq exp
          /\ (cs # {} => Cardinality(got) = Len(out.rows))
          /\ (NumPaged(req) => Len(out.rows) = ExpCount(req, Cardinality(m)))
ColsOK(req, out) == (AllGoodCols(req) /\ out.colsknown) => Range(out.cols) = ReqCols(req)

(* S2 for writes: the rows deleted/updated are exactly the matching rows *)
Expected(req, before) ==
  LET m == Match(before, req.flt)
  IN CASE req.op \in {"delete", "txdelete"} -> before \ m
       [] req.op \in {"update", "txupdate"} -> {IF r \in m THEN [r EXCEPT !.name = req.setv] ELSE r : r \in before}
       [] req.op \in {"insert", "txinsert"} -> before \cup {Row(NewId, req.setv)}
       [] OTHER -> before
ExpAffected(req, before) ==
  IF req.op \in {"insert", "txinsert"} THEN 1 ELSE Cardinality(Match(before, req.flt))

StateOK(req, before, out) == Range(out.after) = (IF Rejected(out) THEN before ELSE Expected(req, before))
CountOK(req, before, out) == (~Rejected(out) /\ req.op \in WriteOps) => out.count = ExpAffected(req, before)

Clauses(req, before, out) ==
  <<[n |-> "touch", ok |-> TouchOK(req, out)],
    [n |-> "state", ok |-> StateOK(req, before, out)],
    [n |-> "rows",  ok |-> (req.op \in ReadOps /\ ~Rejected(out)) => RowsOK(req, before, out)],
    [n |-> "cols",  ok |-> (req.op \in ReadOps /\ ~Rejected(out)) => ColsOK(req, out)],
    [n |-> "count", ok |-> CountOK(req, before, out)]>>
Failing(req, before, out) == LET c == Clauses(req, before, out) IN {c[i].n : i \in {j \in DOMAIN c : ~c[j].ok}}
Post(req, before, out) == Failing(req, before, out) = {}

(* domain of the contract: the record describes a request of the bounded space against a table of known rows *)
WFRow(r) == r.id \in 1..NewId /\ IsStr(r.name)
WFLeaf(x) == /\ x.sg \in {"", "+", "-"}
             /\ IF x.col = "id" THEN x.op \in CmpOps /\ x.iv \in Int /\ (x.sg = "" \/ x.iv >= 0)
                ELSE x.col = "name" /\ x.op = "EQ" /\ IsStr(x.sv)
(* a signed string has no documented reading; whichever lenient one is taken (the string, or sign+string) *)
(* must not happen to be a row's content, so that "true of no row" is right under all of them              *)
SignedOK(x, before) == (x.col = "name" /\ x.sg # "") => \A r \in before : r.name # x.sv /\ r.name # <<x.sg>> \o x.sv
WF(req, before) == /\ req.op \in Ops
                   /\ \A r \in before : WFRow(r)
                   /\ \A i \in DOMAIN req.flt : /\ req.flt[i].k \in {"leaf", "not", "and", "or"}
                                                /\ WFLeaf(req.flt[i].l) /\ WFLeaf(req.flt[i].r)
                                                /\ SignedOK(req.flt[i].l, before) /\ SignedOK(req.flt[i].r, before)
                   /\ IsStr(req.setv)

(* abstract identity of a case: operation, every failing clause, and the non-plain atom classes the request carries *)
LeafVals(f) == IF f.k \in {"leaf", "not"} THEN {f.l} ELSE {f.l, f.r}
FltClasses(req) == {"flt:" \o f : f \in UNION {StrFeat(g.sv) : g \in {x \in UNION {LeafVals(req.flt[i]) : i \in DOMAIN req.flt} : x.col = "name"}}}
AdvClasses(req) ==
  FltClasses(req)
  \cup (IF req.tbl \in AdvTbl THEN {"tbl:" \o req.tbl} ELSE {})
  \cup {"col:" \o c : c \in Range(req.cols) \cap AdvCol}
  \cup (IF req.sort \in AdvSort THEN {"sort:" \o req.sort} ELSE {})
  \cup (IF req.limit \in AdvLimit THEN {"limit:" \o req.limit} ELSE {})
  \cup (IF req.start \in AdvStart THEN {"start:" \o req.start} ELSE {})
  \cup {"set:" \o f : f \in StrFeat(req.setv)}
  \cup (IF req.key \in AdvKey THEN {"key:" \o req.key} ELSE {})
  \cup (IF \E i \in DOMAIN req.flt : \E g \in LeafVals(req.flt[i]) : g.sg # "" /\ g.col = "name" THEN {"sign:str"} ELSE {})
  \cup (IF req.trail # "-" THEN {"trail:" \o req.trail} ELSE {})
(* harmless spellings only identify a case that carries nothing adversarial *)
VarClasses(req) ==
  (IF req.tbl \in GoodTbl \ {"plain"} THEN {"tbl:" \o req.tbl} ELSE {})
  \cup (IF req.join = "params" /\ Len(req.flt) > 1 THEN {"join:params"} ELSE {})
  \cup (IF req.sort \in GoodSort THEN {"sort:" \o req.sort} ELSE {})
  \cup (IF Paged(req) THEN {"paged"} ELSE {})
  \cup (IF req.cols # <<>> THEN {"cols"} ELSE {})
  \cup (IF \E i \in DOMAIN req.flt : \E g \in LeafVals(req.flt[i]) : g.sg # "" THEN {"sign:num"} ELSE {})
  \cup (IF req.qs # "dq" THEN {"qs:" \o req.qs} ELSE {})
Classes(req) == IF AdvClasses(req) # {} THEN AdvClasses(req) ELSE VarClasses(req)
Key(req, before, out) == [op |-> req.op, failing |-> Failing(req, before, out), classes |-> Classes(req)]
=============================================================================

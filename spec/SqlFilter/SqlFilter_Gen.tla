---------------------------- MODULE SqlFilter_Gen ----------------------------
(* Request generator for binding F: every request of the bounded space is an  *)
(* initial state and is printed as JSON (exhaustive BFS).                     *)
(*  FamA  filters (A0 = core pairs, never sampled): every operation that takes a filter x filter lists         *)
(*        (<=2 leaves, or one NOT/AND/OR over leaves) x how the list is       *)
(*        joined x how string literals are quoted                             *)
(*  FamX  signed operands (+2, -2, +"..", -".."), FamT text after a complete     *)
(*        clause (both never sampled)                                          *)
(*  FamB  the other parameters of reads (table spelling, column list, sort,   *)
(*        limit, start): all single deviations and all pairs of deviations    *)
(*        from the defaults with at most one adversarial atom; FamBwr = table *)
(*        spellings for the write operations (never sampled)                  *)
(*  FamC  JSON row payloads of update/insert (value atoms x key spellings;    *)
(*        never sampled)                                                      *)
EXTENDS SqlFilter, Json, Randomization

CONSTANTS Fams,           \* subset of {"A1","A2","A3","B","C"}
          Sample          \* 0 = every request; n = TLC draws n requests per family (RandomSubset, -seed)

VARIABLE req

Base(op) == [op |-> op, tbl |-> "plain", flt |-> <<>>, join |-> IF op \in {"txrows", "txdelete", "txupdate", "txinsert"} THEN "array" ELSE "comma",
             qs |-> "dq", cols |-> <<>>, sort |-> "-", limit |-> "-", start |-> "-", trail |-> "-",
             setv |-> IF op \in {"update", "insert", "txupdate", "txinsert"} THEN Str.b ELSE <<>>, key |-> "name"]

LI(op, v) == LeafF([op |-> op, col |-> "id", iv |-> v, sv |-> <<>>, sg |-> ""])
FilterOps == {"read", "aread", "txrows", "delete", "update", "txdelete", "txupdate"}
Joins(op) == IF op \in {"txrows", "txdelete", "txupdate"} THEN {"array", "comma"} ELSE {"comma", "params"}
QStyles   == {"dq", "sq", "bt"}

L1 == {<<LeafF(x)>> : x \in Leaf}
L2 == {<<LeafF(x), LeafF(y)>> : x \in Leaf, y \in Leaf}
L2s == {<<LeafF(x), LeafF(y)>> : x \in StrLeaf, y \in StrLeaf}
D2 == {<<BinF(k, x, y)>> : k \in {"and", "or"}, x \in Leaf, y \in Leaf} \cup {<<NotF(x)>> : x \in Leaf}

FamA1 == {[[Base(op) EXCEPT !.flt = f] EXCEPT !.qs = q] : op \in FilterOps, f \in L1 \cup {<<>>}, q \in QStyles}
FamA2 == UNION {{[[[Base(op) EXCEPT !.flt = f] EXCEPT !.join = j] EXCEPT !.qs = q] : f \in (IF q = "dq" THEN L2 ELSE L2s), j \in Joins(op)}
                : op \in FilterOps, q \in QStyles}
FamA3 == {[Base(op) EXCEPT !.flt = f] : op \in {"read", "aread", "delete", "txupdate"}, f \in D2}
(* always run, also in the sampled tier: every pair of string comparisons, on one read, one delete and one task *)
CoreOps == {"read", "delete", "txupdate"}
SY(a) == LeafF([op |-> "EQ", col |-> "name", iv |-> 0, sv |-> a, sg |-> ""])
FamA0 == {[Base(op) EXCEPT !.flt = f] : op \in CoreOps, f \in L2s}
         \cup {[[Base("read") EXCEPT !.flt = f] EXCEPT !.qs = "sq"] : f \in L2s}
         \cup {[[Base(op) EXCEPT !.flt = <<LeafF(x)>>] EXCEPT !.qs = q] : op \in CoreOps, x \in StrLeaf, q \in QStyles}
(* signed operands: alone, next to an ordinary comparison (either side), and inside NOT/AND/OR *)
XShapes(x) == {<<LeafF(x)>>, <<NotF(x)>>} \cup UNION {{<<LeafF(x), y>>, <<y, LeafF(x)>>, <<BinF("and", x, y.l)>>, <<BinF("or", y.l, x)>>}
                                                      : y \in {SY(Str.a)}}
FamX == {[[Base(op) EXCEPT !.flt = f] EXCEPT !.qs = q] : op \in CoreOps, f \in UNION {XShapes(x) : x \in XLeaf}, q \in {"dq", "sq"}}
(* text after a complete clause *)
FamT == {[[[Base(op) EXCEPT !.flt = f] EXCEPT !.qs = q] EXCEPT !.trail = t] :
            op \in FilterOps, f \in {<<LI("EQ", 2)>>, <<SY(Str.a)>>, <<SY(Str.qe)>>}, q \in {"dq", "sq"}, t \in Trails}

BFlt  == {<<>>, <<LI("GT", 2)>>}
ColSeqs == {<<>>, <<"id">>, <<"name">>, <<"name", "id">>} \cup {<<c>> : c \in AdvCol} \cup {<<"name", c>> : c \in AdvCol}
Adv(r) == (IF r.tbl \in AdvTbl THEN 1 ELSE 0) + (IF Range(r.cols) \cap AdvCol # {} THEN 1 ELSE 0) + (IF r.sort \in AdvSort THEN 1 ELSE 0)
          + (IF r.limit \in AdvLimit THEN 1 ELSE 0) + (IF r.start \in AdvStart THEN 1 ELSE 0)
Dev(r) == (IF r.tbl # "plain" THEN 1 ELSE 0) + (IF r.cols # <<>> THEN 1 ELSE 0) + (IF r.sort # "-" THEN 1 ELSE 0)
          + (IF r.limit # "-" THEN 1 ELSE 0) + (IF r.start # "-" THEN 1 ELSE 0)
FamBread == {r \in [op : {"read", "aread"}, tbl : GoodTbl \cup AdvTbl, flt : BFlt, join : {"comma"}, qs : {"dq"},
                   cols : ColSeqs, sort : {"-"} \cup GoodSort \cup AdvSort, limit : {"-"} \cup NumLimit \cup AdvLimit,
                   start : {"-"} \cup NumStart \cup AdvStart, trail : {"-"}, setv : {<<>>}, key : {"name"}] : Dev(r) <= 2 /\ Adv(r) <= 1}
FamBtx   == {r \in [op : {"txrows"}, tbl : GoodTbl \cup AdvTbl, flt : BFlt, join : {"array"}, qs : {"dq"},
             cols : ColSeqs, sort : {"-"}, limit : {"-"}, start : {"-"}, trail : {"-"}, setv : {<<>>}, key : {"name"}] : Adv(r) <= 1}
FamBwr   == {[[Base(op) EXCEPT !.tbl = t] EXCEPT !.flt = <<LI("EQ", 2)>>] : op \in WriteOps, t \in GoodTbl \cup AdvTbl}
FamB == FamBread \cup FamBtx

SLeaf(a) == SY(a)
FamC == {[[[Base(op) EXCEPT !.setv = v] EXCEPT !.key = k] EXCEPT !.flt = f] :
            op \in {"update", "txupdate"}, v \in StrAtoms, k \in GoodKey \cup AdvKey, f \in {<<LI("EQ", 2)>>, <<SLeaf(Str.qe)>>, <<>>}}
        \cup {[[Base(op) EXCEPT !.setv = v] EXCEPT !.key = k] : op \in {"insert", "txinsert"}, v \in StrAtoms, k \in GoodKey \cup AdvKey}

Pick(S) == IF Sample = 0 \/ Cardinality(S) <= Sample THEN S ELSE RandomSubset(Sample, S)
Requests == (IF "A0" \in Fams THEN FamA0 \cup FamBwr \cup FamX \cup FamT ELSE {}) \cup (IF "A1" \in Fams THEN Pick(FamA1) ELSE {}) \cup (IF "A2" \in Fams THEN Pick(FamA2) ELSE {})
            \cup (IF "A3" \in Fams THEN Pick(FamA3) ELSE {}) \cup (IF "B" \in Fams THEN Pick(FamB) ELSE {})
            \cup (IF "C" \in Fams THEN FamC ELSE {})

GenInit == req \in Requests
GenNext == UNCHANGED req
GenSpec == GenInit /\ [][GenNext]_req

Emit == PrintT(ToJson(req))
=============================================================================

SPECIFICATION GenSpec
CONSTANTS
  Fams = {"A0", "A1", "A2", "A3", "B", "C"}
  Sample = 150
INVARIANTS Emit
CHECK_DEADLOCK FALSE

SPECIFICATION GenSpec
CONSTANTS
  Fams = {"A0", "A1", "A2", "A3", "B", "C"}
  Sample = 220
INVARIANTS Emit
CHECK_DEADLOCK FALSE

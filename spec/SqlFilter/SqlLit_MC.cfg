SPECIFICATION Spec
CONSTANTS
  Impl = "fixed"
  Alpha = {"q", "d", "s", "k", "p", "o", "u", "x", "y"}
  MaxLen = 3
  MaxLen2 = 2
  MaxVals = 2
INVARIANTS StructKept ValuesKept
CHECK_DEADLOCK FALSE

SPECIFICATION Spec
CONSTANTS
  Impl = "asis"
  Alpha = {"q", "d", "s", "k", "p", "o", "u", "x", "y"}
  MaxLen = 2
  MaxLen2 = 1
  MaxVals = 2
INVARIANTS ValuesKept
CHECK_DEADLOCK FALSE

----------------------------- MODULE SqlLit_Gen -----------------------------
(* Turns the model's counterexamples into replays: every value list for which *)
(* the as-is translator is predicted to let a value become SQL structure      *)
(* ("struct") or to change a value ("value") is printed, to be sent to the    *)
(* real server as EQ(name, value) filters and judged by SqlFilter's contract. *)
(* A prediction is not a verdict: only the real server's outcome counts.      *)
EXTENDS SqlLit, Json, Randomization
CONSTANT Sample      \* 0 = all counterexamples; n = TLC draws n of each kind (RandomSubset, -seed)
VARIABLE cand
All == {c \in {[vals |-> vs, kind |-> Verdict(vs)] : vs \in ValueLists} : c.kind # "safe"}
Pick(X) == IF Sample = 0 \/ Cardinality(X) <= Sample THEN X ELSE RandomSubset(Sample, X)
Cands == Pick({c \in All : c.kind = "struct"}) \cup Pick({c \in All : c.kind = "value"})
GInit == cand \in Cands /\ vals = cand.vals /\ text = Text(vals) /\ st = LexInit
GNext == UNCHANGED <<cand, vars>>
GSpec == GInit /\ [][GNext]_<<cand, vars>>
Emit == PrintT(ToJson(cand))
=============================================================================

--------------------------- MODULE SqlShapeDefs ---------------------------
(* C15 - SQL endpoints authorize every table the statement touches.          *)
(*                                                                           *)
(* Definitions only (no variables): the space of statement SHAPES of the     *)
(* supported grammar, their concrete SQL text for the fixture schema, and    *)
(* Required(shape): the permissions the property statement demands.          *)
(*                                                                           *)
(* A shape is  [kind, var, plants]:                                          *)
(*   kind   the statement kind (one per ast statement type that touches      *)
(*          tables; ALTER TABLE split by action)                             *)
(*   var    a spelling variant of a statement without planted sub-select     *)
(*   plants a chain of at most MaxDepth planted sub-selects; plants[i] says  *)
(*          in which POSITION of the level i-1 statement the level-i         *)
(*          select sits and in which syntactic FORM it is embedded.          *)
(* Level 0 (the statement itself) works on table T, the level-1 select reads *)
(* S, the level-2 select reads U (views V / VU stand for S / U in the "view" *)
(* form).  Fixture: T(a UNIQUE,b,c) S(x,y) U(p,q) D(z,z2); views V, VU, W;   *)
(* index IX on T(b).                                                         *)
EXTENDS Integers, Sequences, FiniteSets, TLC

CONSTANTS MaxDepth,      \* 1 or 2: nesting bound of planted sub-selects
          Extract        \* "complete" | "asis": model of the table-usage extractor (see Walked)

Tab  == <<"T", "S", "U">>       \* Tab[i+1]: table the level-i statement works on
C1   == <<"a", "x", "p">>
C2   == <<"b", "y", "q">>
View == <<"", "V", "VU">>       \* View[i+1]: fixture view over Tab[i+1]
Cte  == <<"", "c1", "c2">>      \* Cte[i+1]: name of a CTE wrapping the level-i select

-----------------------------------------------------------------------------
(* expression forms: how a sub-select is embedded in an expression           *)
ExprForms ==
  {"scalar", "exists", "not_exists", "in", "not_in", "eq", "lt_l", "add_l", "add_r", "concat",
   "neg", "not", "paren", "and_r", "or_r",
   "case_op", "case_when", "case_then", "case_else",
   "func1", "func2", "agg_distinct", "agg_filter",
   "btw_x", "btw_lo", "btw_hi", "not_btw",
   "like_pat", "like_x", "like_esc", "glob",
   "is_null", "not_null", "is", "is_not", "collate", "cast", "in_list", "in_x"}
FewForms == {"scalar", "exists", "in"}
RowForms == {"rowsub"}           \* (b, c) = (SELECT x, y ...): only in SET lists

(* source forms: how a row source is named in a FROM-like position           *)
SrcForms == {"table", "alias", "not_indexed", "subq", "view", "cte_ref"}
TerminalForms == {"table", "alias", "not_indexed", "view"}   \* name a relation directly: nothing can be planted below
CompoundForms == {"union", "union_all", "intersect", "except"}
CoreForms == {"core", "cte_ref"}

SelExprPos == {"sel_list", "where", "group_by", "having", "order_by", "limit", "offset", "join_on"}
SelJoinPos == {"join_right", "join_left", "left_join", "comma", "paren_join"}

PlantKinds == {"select", "insert", "update", "delete", "create_table", "create_index", "create_view"}
SchemaKinds == {"create_table", "drop_table", "alter_add", "alter_dropcol", "alter_renamecol", "alter_rename",
                "create_index", "drop_index", "create_view", "drop_view"}

ExprPosOf(k) ==
  CASE k = "select"       -> SelExprPos
    [] k = "insert"       -> {"values", "conflict_set", "conflict_where", "returning"}
    [] k = "update"       -> {"set", "where", "returning"}
    [] k = "delete"       -> {"where", "returning"}
    [] k = "create_table" -> {"default", "check", "tcheck", "generated"}
    [] k = "create_index" -> {"where", "column"}
    [] OTHER              -> {}
JoinPosOf(k) ==
  CASE k = "select" -> SelJoinPos
    [] k = "update" -> {"from"}
    [] k = "delete" -> {"using"}
    [] OTHER        -> {}
CorePosOf(k) ==
  CASE k = "select"       -> {"compound"}
    [] k = "insert"       -> {"source"}
    [] k = "create_table" -> {"as"}
    [] k = "create_view"  -> {"body"}
    [] OTHER              -> {}
PosOf(k) == ExprPosOf(k) \cup JoinPosOf(k) \cup CorePosOf(k)

(* forms available at position p of a statement of kind k; full = every      *)
(* expression form, otherwise the three basic ones                           *)
(* SQLite itself refuses sub-selects in these positions (measured: "subqueries *)
(* prohibited in ..."): kept with the basic forms only, as non-executable    *)
(* (hence non-deciding) cases                                                *)
Refused(k, p) == k \in {"create_table", "create_index"} /\ p \in ExprPosOf(k)

FormsAt(k, p, full) ==
  IF p \in ExprPosOf(k)
    THEN (IF full /\ ~Refused(k, p) THEN ExprForms ELSE FewForms)
         \cup (IF p \in {"set", "conflict_set"} THEN RowForms ELSE {})
  ELSE IF p \in JoinPosOf(k)
    THEN (IF k = "select" THEN SrcForms ELSE SrcForms \ {"cte_ref"})   \* WITH cannot prefix UPDATE/DELETE in this grammar
  ELSE IF k = "select" THEN CompoundForms ELSE CoreForms

PlantsOf(k, full) == UNION {{[pos |-> p, form |-> f] : f \in FormsAt(k, p, full)} : p \in PosOf(k)}

(* SQLite never evaluates the result list or the ORDER BY of a sub-select that  *)
(* is only tested for existence or flattened into its parent (measured with    *)
(* EXPLAIN: the level-2 table is not opened), so such a statement does not     *)
(* read it and nothing can be demanded: these chains are left out              *)
Dead(x, y) == x.form \in {"exists", "subq", "cte_ref"} /\ y.pos \in {"sel_list", "order_by"}

(* chains: depth 1 uses every form; depth 2 uses the basic forms on both     *)
(* levels (the walk below a reached sub-select is generic)                   *)
Chains(k) ==
  {<<x>> : x \in PlantsOf(k, TRUE)}
  \cup (IF MaxDepth >= 2
          THEN {c \in {<<x, y>> : x \in {z \in PlantsOf(k, FALSE) : z.form \notin TerminalForms}, y \in PlantsOf("select", FALSE)} :
                  ~Dead(c[1], c[2])}
          ELSE {})

PlainVariants(k) ==
  CASE k = "select"          -> {"plain"}
    [] k = "insert"          -> {"plain", "default_values"}
    [] k = "update"          -> {"plain"}
    [] k = "delete"          -> {"plain"}
    [] k = "create_table"    -> {"plain", "if_not_exists"}
    [] k = "drop_table"      -> {"plain", "if_exists", "schema"}
    [] k = "alter_add"       -> {"plain"}
    [] k = "alter_dropcol"   -> {"plain"}
    [] k = "alter_renamecol" -> {"plain"}
    [] k = "alter_rename"    -> {"plain"}
    [] k = "create_index"    -> {"plain", "unique", "if_not_exists"}
    [] k = "drop_index"      -> {"plain", "if_exists", "schema"}
    [] k = "create_view"     -> {}
    [] k = "drop_view"       -> {"plain", "if_exists"}
    [] OTHER                 -> {}

Kinds == PlantKinds \cup SchemaKinds

(* CTE scoping as a dimension of its own.  A WITH clause is defined at the top *)
(* of the statement or inside a nested sub-select (site); its name is fresh    *)
(* ("c1") or equal to the real table S (name); the name is referenced inside   *)
(* the CTE's scope, outside it, or both (ref); its body is constant or reads U *)
(* (body); nest = how the WITH-bearing sub-select is embedded.  SQL scoping:   *)
(* inside the scope the name is the CTE, outside it is the real table.         *)
NoCte == [on |-> FALSE, site |-> "", name |-> "", ref |-> "", body |-> "", nest |-> ""]
CteKinds == {"select", "update", "delete"}
CtesOf(k) ==
  {c \in [on : {TRUE}, site : {"top", "nested"}, name : {"fresh", "shadow"}, ref : {"inside", "outside", "both"},
          body : {"const", "table"}, nest : {"in", "scalar", "exists"}] :
     /\ (c.site = "top" => k = "select" /\ c.ref = "inside")      \* WITH cannot prefix UPDATE/DELETE; its scope is the whole statement
     /\ (c.ref \in {"outside", "both"} => c.name = "shadow")}     \* a fresh name does not exist outside its scope

(* batches: two statements on T in one request (JSON array on @sql, two sql    *)
(* tasks on @transaction); each statement is authorized for itself             *)
BatchKinds == {"insert", "update", "delete", "select"}
AllKinds == Kinds \cup {"batch"}

Mk(k, v, ps) == [kind |-> k, var |-> v, plants |-> ps, cte |-> NoCte, batch |-> <<>>]
Shapes ==
  UNION {{Mk(k, v, <<>>) : v \in PlainVariants(k)} : k \in Kinds}
  \cup UNION {{Mk(k, "plain", ps) : ps \in Chains(k)} : k \in PlantKinds}
  \cup UNION {{[kind |-> k, var |-> "plain", plants |-> <<>>, cte |-> c, batch |-> <<>>] : c \in CtesOf(k)} : k \in CteKinds}
  \cup {x \in {[kind |-> "batch", var |-> "plain", plants |-> <<>>, cte |-> NoCte, batch |-> <<a, b>>] :
                   a \in BatchKinds, b \in BatchKinds} : x.batch[1] # x.batch[2]}

-----------------------------------------------------------------------------
(* what the property statement demands                                       *)
Perm(t, p) == [t |-> t, p |-> p]
SchemaPerm == Perm("*", "schema")

Own(k) ==
  CASE k = "select" -> {Perm("T", "read")}
    [] k = "insert" -> {Perm("T", "insert")}
    [] k = "update" -> {Perm("T", "update")}
    [] k = "delete" -> {Perm("T", "delete")}
    [] OTHER        -> {SchemaPerm}

NameAt(ps, i) == IF ps[i].form = "view" THEN View[i + 1] ELSE Tab[i + 1]
Nested(ps) == {Perm(NameAt(ps, i), "read") : i \in 1..Len(ps)}
CteNames(ps) == {Perm(Cte[i + 1], "read") : i \in {j \in 1..Len(ps) : ps[j].form = "cte_ref"}}

(* CREATE VIEW stores its body, it does not read it (SQLite opens only the     *)
(* schema table): the statement demands schema authority, no read             *)
Stored(k) == k = "create_view"
CteUsed(c) == c.on /\ c.ref \in {"inside", "both"}       \* the name is referenced inside the scope: the CTE (its body) is read
CteOutside(c) == c.on /\ c.ref \in {"outside", "both"}   \* the name is referenced outside the scope: that is the real table S
CteBase(c) == (IF CteOutside(c) THEN {"S"} ELSE {}) \cup (IF CteUsed(c) /\ c.body = "table" THEN {"U"} ELSE {})
CteReq(c) == {Perm(t, "read") : t \in CteBase(c)}

Required(s) ==
  IF s.kind = "batch" THEN UNION {Own(s.batch[j]) : j \in 1..Len(s.batch)}
  ELSE Own(s.kind) \cup (IF Stored(s.kind) THEN {} ELSE Nested(s.plants)) \cup CteReq(s.cte)

(* base tables SQLite has to open below level 0 (a view expands to its table) *)
NestedBase(s) == (IF Stored(s.kind) THEN {} ELSE {Tab[i + 1] : i \in 1..Len(s.plants)}) \cup CteBase(s.cte)
IsSchema(s) == s.kind \in SchemaKinds

(* the permission universe, written out (TLC re-enumerates lazily built sets  *)
(* on every use); DemandsOK is checked once as an ASSUME in the MC module    *)
Demands == {Perm("T", "read"), Perm("T", "insert"), Perm("T", "update"), Perm("T", "delete"), SchemaPerm}
           \cup {Perm(Tab[i + 1], "read") : i \in 1..MaxDepth} \cup {Perm(View[i + 1], "read") : i \in 1..MaxDepth}
           \cup {Perm("U", "read")}      \* CTE bodies read U at every bound
AllGrants == Demands \cup {Perm(Cte[i + 1], "read") : i \in 1..MaxDepth}
Profiles == {AllGrants} \cup {AllGrants \ {d} : d \in Demands}
DemandsOK == /\ Demands = UNION {Required(s) : s \in Shapes}
             /\ AllGrants = Demands \cup UNION {CteNames(s.plants) : s \in Shapes}

-----------------------------------------------------------------------------
(* model of the implementation (internal/sqlparse/analyze.go Tables +        *)
(* sql_permissions.go authorizeStatement / scripting/authz.go):              *)
(* Tables() walks selected clauses of each statement; whatever it reports is *)
(* checked, nothing else is.                                                 *)
Walked(k, pos) ==
  IF Extract = "complete" THEN TRUE
  ELSE CASE k = "update"       -> pos \in {"where", "returning", "from"}   \* With, Where, Returning, From: not Set
         [] k = "create_table" -> pos = "as"                               \* AsSelect only
         [] k = "create_index" -> pos = "where"                            \* Where only
         [] OTHER              -> TRUE
AdminReported(k) == k \in SchemaKinds /\ (Extract = "complete" \/ k # "drop_index")   \* DROP INDEX reports no usage

(* Tables() is syntactic: it reports every table reference, a CTE name and an *)
(* unused CTE body included (stricter than the statement, which is allowed)   *)
CteChecks(c) ==
  IF ~c.on THEN {}
  ELSE {Perm(IF c.name = "shadow" THEN "S" ELSE "c1", "read")} \cup (IF c.body = "table" THEN {Perm("U", "read")} ELSE {})

Checks(s) ==
  IF s.kind = "batch" THEN UNION {Own(s.batch[j]) : j \in 1..Len(s.batch)}
  ELSE
  (IF s.kind \in SchemaKinds THEN (IF AdminReported(s.kind) THEN {SchemaPerm} ELSE {}) ELSE Own(s.kind))
  \cup (IF Len(s.plants) > 0 /\ Walked(s.kind, s.plants[1].pos)
          THEN Nested(s.plants) \cup CteNames(s.plants) ELSE {})
  \cup CteChecks(s.cte)

Authorize(s, g) == Checks(s) \subseteq g

-----------------------------------------------------------------------------
(* concrete SQL                                                              *)
P(q) == "(" \o q \o ")"

Ex(f, o, q) ==      \* expression of form f over operand o embedding the one-column select q
  CASE f = "scalar"       -> P(q)
    [] f = "exists"       -> "EXISTS " \o P(q)
    [] f = "not_exists"   -> "NOT EXISTS " \o P(q)
    [] f = "in"           -> o \o " IN " \o P(q)
    [] f = "not_in"       -> o \o " NOT IN " \o P(q)
    [] f = "eq"           -> o \o " = " \o P(q)
    [] f = "lt_l"         -> P(q) \o " < " \o o
    [] f = "add_l"        -> P(q) \o " + 1"
    [] f = "add_r"        -> "1 + " \o P(q)
    [] f = "concat"       -> o \o " || " \o P(q)
    [] f = "neg"          -> "- " \o P(q)
    [] f = "not"          -> "NOT " \o P(q)
    [] f = "paren"        -> P(P(q))
    [] f = "and_r"        -> o \o " = " \o o \o " AND " \o P(q)
    [] f = "or_r"         -> o \o " <> " \o o \o " OR " \o P(q)
    [] f = "case_op"      -> "CASE " \o P(q) \o " WHEN 1 THEN 1 ELSE 0 END"
    [] f = "case_when"    -> "CASE WHEN " \o P(q) \o " THEN 1 ELSE 0 END"
    [] f = "case_then"    -> "CASE WHEN " \o o \o " = " \o o \o " THEN " \o P(q) \o " ELSE 0 END"
    [] f = "case_else"    -> "CASE WHEN " \o o \o " <> " \o o \o " THEN 0 ELSE " \o P(q) \o " END"
    [] f = "func1"        -> "abs(" \o P(q) \o ")"
    [] f = "func2"        -> "coalesce(NULL, " \o P(q) \o ")"
    [] f = "agg_distinct" -> "count(DISTINCT " \o P(q) \o ")"
    [] f = "agg_filter"   -> "count(*) FILTER (WHERE " \o P(q) \o ")"
    [] f = "btw_x"        -> P(q) \o " BETWEEN 0 AND 9"
    [] f = "btw_lo"       -> o \o " BETWEEN " \o P(q) \o " AND 99"
    [] f = "btw_hi"       -> o \o " BETWEEN 0 AND " \o P(q)
    [] f = "not_btw"      -> o \o " NOT BETWEEN " \o P(q) \o " AND 99"
    [] f = "like_pat"     -> o \o " LIKE " \o P(q)
    [] f = "like_x"       -> P(q) \o " LIKE '1'"
    [] f = "like_esc"     -> o \o " LIKE '1' ESCAPE " \o P(q)
    [] f = "glob"         -> o \o " GLOB " \o P(q)
    [] f = "is_null"      -> P(q) \o " IS NULL"
    [] f = "not_null"     -> P(q) \o " IS NOT NULL"
    [] f = "is"           -> o \o " IS " \o P(q)
    [] f = "is_not"       -> o \o " IS NOT " \o P(q)
    [] f = "collate"      -> P(q) \o " COLLATE NOCASE"
    [] f = "cast"         -> "CAST(" \o P(q) \o " AS INTEGER)"
    [] f = "in_list"      -> o \o " IN (0, " \o P(q) \o ")"
    [] f = "in_x"         -> P(q) \o " IN (0, 1)"
    [] OTHER              -> "?form?"

Src(f, lvl, q) ==   \* row source of form f exposing the columns of level lvl; q = the level-lvl select
  CASE f = "table"       -> Tab[lvl + 1]
    [] f = "alias"       -> Tab[lvl + 1] \o " AS r" \o C1[lvl + 1]
    [] f = "not_indexed" -> Tab[lvl + 1] \o " NOT INDEXED"
    [] f = "subq"        -> P(q) \o " AS r" \o C1[lvl + 1]
    [] f = "view"        -> View[lvl + 1]
    [] f = "cte_ref"     -> Cte[lvl + 1]
    [] OTHER             -> "?src?"
WithPrefix(f, lvl, q) == IF f = "cte_ref" THEN "WITH " \o Cte[lvl + 1] \o " AS " \o P(q) \o " " ELSE ""

CompoundOp(f) ==
  CASE f = "union" -> " UNION " [] f = "union_all" -> " UNION ALL "
    [] f = "intersect" -> " INTERSECT " [] f = "except" -> " EXCEPT " [] OTHER -> " ?op? "

RECURSIVE Sel(_, _, _)
Sel(ps, i, n) ==    \* the select of level i (reads Tab[i+1]) with n result columns; ps[i+1] is planted inside it
  LET tb   == Tab[i + 1]
      c1   == C1[i + 1]
      c2   == C2[i + 1]
      cols == IF n = 1 THEN c1 ELSE c1 \o ", " \o c2
      base == "SELECT " \o cols \o " FROM " \o tb
  IN IF Len(ps) <= i THEN base
     ELSE
       LET pos == ps[i + 1].pos
           f   == ps[i + 1].form
           q1  == IF f = "view" THEN "" ELSE Sel(ps, i + 1, 1)
           q2  == IF f = "view" THEN "" ELSE Sel(ps, i + 1, 2)
           qn  == IF n = 1 THEN q1 ELSE q2
           opd == IF pos \in {"limit", "offset"} THEN "1" ELSE IF pos = "join_on" THEN "j1." \o c1 ELSE c1
           e   == Ex(f, opd, q1)
           src == Src(f, i + 1, q2)
           wp  == WithPrefix(f, i + 1, q2)
       IN CASE pos = "sel_list"   -> "SELECT " \o e \o " AS " \o c1 \o (IF n = 1 THEN "" ELSE ", " \o c2) \o " FROM " \o tb
            [] pos = "where"      -> base \o " WHERE " \o e
            [] pos = "group_by"   -> base \o " GROUP BY " \o e
            [] pos = "having"     -> base \o " GROUP BY " \o c1 \o " HAVING " \o e
            [] pos = "order_by"   -> base \o " ORDER BY " \o e
            [] pos = "limit"      -> base \o " LIMIT " \o e
            [] pos = "offset"     -> base \o " LIMIT 5 OFFSET " \o e
            [] pos = "join_on"    -> "SELECT j1." \o c1 \o (IF n = 1 THEN "" ELSE ", j1." \o c2) \o " FROM " \o tb
                                     \o " AS j1 JOIN " \o tb \o " AS j2 ON " \o e
            [] pos = "join_right" -> wp \o "SELECT " \o cols \o " FROM " \o tb \o " JOIN " \o src \o " ON 1 = 1"
            [] pos = "join_left"  -> wp \o "SELECT " \o cols \o " FROM " \o src \o " JOIN " \o tb \o " ON 1 = 1"
            [] pos = "left_join"  -> wp \o "SELECT " \o cols \o " FROM " \o tb \o " LEFT JOIN " \o src \o " ON 1 = 1"
            [] pos = "comma"      -> wp \o "SELECT " \o cols \o " FROM " \o tb \o ", " \o src
            [] pos = "paren_join" -> wp \o "SELECT " \o cols \o " FROM (" \o tb \o " JOIN " \o src \o " ON 1 = 1)"
            [] pos = "compound"   -> base \o CompoundOp(f) \o qn
            [] OTHER              -> "?pos?"

CoreSql(f, q, cols1) ==   \* a select in "core" position: directly, or through a CTE
  IF f = "cte_ref" THEN "WITH c1 AS " \o P(q) \o " SELECT " \o cols1 \o " FROM c1" ELSE q

PlainSql(k, v) ==
  CASE k = "select"          -> "SELECT a FROM T"
    [] k = "insert"          -> IF v = "default_values" THEN "INSERT INTO T DEFAULT VALUES" ELSE "INSERT INTO T (a, b) VALUES (50, 5)"
    [] k = "update"          -> "UPDATE T SET b = 5"
    [] k = "delete"          -> "DELETE FROM T"
    [] k = "create_table"    -> IF v = "if_not_exists" THEN "CREATE TABLE IF NOT EXISTS N (k INTEGER)" ELSE "CREATE TABLE N (k INTEGER)"
    [] k = "drop_table"      -> IF v = "if_exists" THEN "DROP TABLE IF EXISTS D"
                                ELSE IF v = "schema" THEN "DROP TABLE main.D" ELSE "DROP TABLE D"
    [] k = "alter_add"       -> "ALTER TABLE D ADD COLUMN w INTEGER"
    [] k = "alter_dropcol"   -> "ALTER TABLE D DROP COLUMN z2"
    [] k = "alter_renamecol" -> "ALTER TABLE D RENAME COLUMN z2 TO z3"
    [] k = "alter_rename"    -> "ALTER TABLE D RENAME TO D2"
    [] k = "create_index"    -> IF v = "unique" THEN "CREATE UNIQUE INDEX NI ON T (c)"
                                ELSE IF v = "if_not_exists" THEN "CREATE INDEX IF NOT EXISTS NI ON T (c)"
                                ELSE "CREATE INDEX NI ON T (c)"
    [] k = "drop_index"      -> IF v = "if_exists" THEN "DROP INDEX IF EXISTS IX"
                                ELSE IF v = "schema" THEN "DROP INDEX main.IX" ELSE "DROP INDEX IX"
    [] k = "drop_view"       -> IF v = "if_exists" THEN "DROP VIEW IF EXISTS W" ELSE "DROP VIEW W"
    [] OTHER                 -> "?plain?"

CteName(c) == IF c.name = "shadow" THEN "S" ELSE "c1"
CteBody(c) == IF c.body = "table" THEN "SELECT p AS x, q AS y FROM U" ELSE "SELECT 1 AS x, 100 AS y"
CteInner(c) == IF CteUsed(c) THEN "SELECT x FROM " \o CteName(c) ELSE "SELECT 1"
CteWith(c) == "WITH " \o CteName(c) \o " AS " \o P(CteBody(c)) \o " "
CteIQ(c) == (IF c.site = "top" THEN "" ELSE CteWith(c)) \o CteInner(c)
CteNest(c) == CASE c.nest = "in" -> "a IN " \o P(CteIQ(c)) [] c.nest = "scalar" -> "a = " \o P(CteIQ(c)) [] OTHER -> "EXISTS " \o P(CteIQ(c))
CteSql(k, c) ==
  (IF c.site = "top" THEN CteWith(c) ELSE "")
  \o (CASE k = "select" -> "SELECT a FROM T WHERE " [] k = "update" -> "UPDATE T SET b = 5 WHERE " [] OTHER -> "DELETE FROM T WHERE ")
  \o (IF CteOutside(c) THEN "a IN (SELECT x FROM S) OR " ELSE "") \o CteNest(c)

Sql(s) ==
  IF s.kind = "batch" THEN PlainSql(s.batch[1], "plain") \o "; " \o PlainSql(s.batch[2], "plain")
  ELSE IF s.cte.on THEN CteSql(s.kind, s.cte)
  ELSE IF Len(s.plants) = 0 THEN PlainSql(s.kind, s.var)
  ELSE IF s.kind = "select" THEN Sel(s.plants, 0, 1)
  ELSE
    LET k   == s.kind
        pos == s.plants[1].pos
        f   == s.plants[1].form
        q1  == IF f = "view" THEN "" ELSE Sel(s.plants, 1, 1)
        q2  == IF f = "view" THEN "" ELSE Sel(s.plants, 1, 2)
        opd == IF k = "insert" /\ pos = "values" THEN "1"
               ELSE IF k = "create_table" THEN "k" ELSE "b"
        e   == IF f = "rowsub" THEN "" ELSE Ex(f, opd, q1)
        src == Src(f, 1, q2)
    IN CASE k = "insert" /\ pos = "values"          -> "INSERT INTO T (a, b) VALUES (50, " \o e \o ")"
         [] k = "insert" /\ pos = "source"          -> "INSERT INTO T (a, b) " \o CoreSql(f, q2, "x, y")
         [] k = "insert" /\ pos = "conflict_set"    -> "INSERT INTO T (a, b) VALUES (10, 5) ON CONFLICT (a) DO UPDATE SET "
                                                       \o (IF f = "rowsub" THEN "(b, c) = " \o P(q2) ELSE "b = " \o e)
         [] k = "insert" /\ pos = "conflict_where"  -> "INSERT INTO T (a, b) VALUES (10, 5) ON CONFLICT (a) DO UPDATE SET b = 5 WHERE " \o e
         [] k = "insert" /\ pos = "returning"       -> "INSERT INTO T (a, b) VALUES (50, 5) RETURNING " \o e
         [] k = "update" /\ pos = "set"             -> "UPDATE T SET " \o (IF f = "rowsub" THEN "(b, c) = " \o P(q2) ELSE "b = " \o e)
         [] k = "update" /\ pos = "where"           -> "UPDATE T SET b = 5 WHERE " \o e
         [] k = "update" /\ pos = "returning"       -> "UPDATE T SET b = 5 RETURNING " \o e
         [] k = "update" /\ pos = "from"            -> "UPDATE T SET b = 5 FROM " \o src
         [] k = "delete" /\ pos = "where"           -> "DELETE FROM T WHERE " \o e
         [] k = "delete" /\ pos = "returning"       -> "DELETE FROM T RETURNING " \o e
         [] k = "delete" /\ pos = "using"           -> "DELETE FROM T USING " \o src
         [] k = "create_table" /\ pos = "as"        -> "CREATE TABLE N AS " \o CoreSql(f, q1, "x")
         [] k = "create_table" /\ pos = "default"   -> "CREATE TABLE N (k INTEGER DEFAULT (" \o e \o "))"
         [] k = "create_table" /\ pos = "check"     -> "CREATE TABLE N (k INTEGER CHECK (" \o e \o "))"
         [] k = "create_table" /\ pos = "tcheck"    -> "CREATE TABLE N (k INTEGER, CHECK (" \o e \o "))"
         [] k = "create_table" /\ pos = "generated" -> "CREATE TABLE N (k INTEGER, g INTEGER AS (" \o e \o "))"
         [] k = "create_index" /\ pos = "where"     -> "CREATE INDEX NI ON T (c) WHERE " \o e
         [] k = "create_index" /\ pos = "column"    -> "CREATE INDEX NI ON T ((" \o e \o "))"
         [] k = "create_view"  /\ pos = "body"      -> "CREATE VIEW NV AS " \o CoreSql(f, q1, "x")
         [] OTHER                                   -> "?stmt?"

(* abstract identity of a shape for findings: kind / position of the level-1 plant *)
(* the statements of the request, one by one *)
SqlSeq(s) == IF s.kind = "batch" THEN <<PlainSql(s.batch[1], "plain"), PlainSql(s.batch[2], "plain")>> ELSE <<Sql(s)>>

PosKey(s) == IF s.kind = "batch" THEN s.batch[1] \o "+" \o s.batch[2]
             ELSE IF s.cte.on THEN "cte-" \o s.cte.site \o "-" \o s.cte.name \o "-" \o s.cte.ref
             ELSE IF Len(s.plants) = 0 THEN "-" ELSE s.plants[1].pos
=============================================================================

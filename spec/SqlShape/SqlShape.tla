----------------------------- MODULE SqlShape -----------------------------
(* C15: one request = one statement shape sent by a non-administrator whose  *)
(* grants are one of the PROFILES (everything, or everything but one         *)
(* demanded permission).  The server decides with Authorize (the model of    *)
(* Tables() + the per-usage checks); the property is OnlyIfAuthorized.       *)
(* Extract = "complete" is the design the property asks for, "asis" models   *)
(* the clause list Tables() walks on the unchanged tree (negative control).  *)
EXTENDS SqlShapeDefs

VARIABLES shape, grants, phase, executed
vars == <<shape, grants, phase, executed>>

Init == /\ shape \in Shapes
        /\ grants \in Profiles
        /\ phase = "request"
        /\ executed = FALSE

Decide == /\ phase = "request"
          /\ executed' = Authorize(shape, grants)
          /\ phase' = "done"
          /\ UNCHANGED <<shape, grants>>

Next == Decide
Spec == Init /\ [][Next]_vars

ASSUME DemandsOK

TypeOK == /\ shape.kind \in AllKinds /\ grants \subseteq AllGrants
          /\ phase \in {"request", "done"} /\ executed \in BOOLEAN

(* the property: a statement executes only if every demanded permission is held *)
OnlyIfAuthorized == executed => Required(shape) \subseteq grants

(* sanity of the shape space itself *)
WellFormed == /\ Required(shape) # {}
              /\ Len(shape.plants) <= MaxDepth
              /\ \A i \in 1..Len(shape.plants) : shape.plants[i].form \in TerminalForms => i = Len(shape.plants)
(* holding everything always suffices in the design (no statement is unusable) *)
FullSuffices == (phase = "done" /\ grants = AllGrants) => executed
=============================================================================

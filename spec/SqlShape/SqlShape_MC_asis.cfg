SPECIFICATION Spec
CONSTANTS
  MaxDepth = 1
  Extract = "asis"
INVARIANTS TypeOK OnlyIfAuthorized
CHECK_DEADLOCK FALSE

SPECIFICATION Spec
CONSTANTS
  MaxDepth = 1
  Extract = "complete"
INVARIANTS TypeOK OnlyIfAuthorized WellFormed FullSuffices
CHECK_DEADLOCK FALSE

SPECIFICATION TSpec
CONSTANTS
  MaxDepth = 2
  Extract = "complete"
INVARIANTS Report
CHECK_DEADLOCK FALSE

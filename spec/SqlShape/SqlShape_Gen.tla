--------------------------- MODULE SqlShape_Gen ---------------------------
(* Generator: every shape of the bound is one initial state; it is printed   *)
(* with its SQL text and what the property demands, for the binding (F).     *)
EXTENDS SqlShapeDefs, Json

VARIABLE s

GenInit == /\ s \in Shapes
           /\ PrintT(ToJson([shape |-> s, sql |-> Sql(s), sqls |-> SqlSeq(s), required |-> Required(s),
                             ctes |-> CteNames(s.plants), depth |-> Len(s.plants), pos |-> PosKey(s)]))
GenNext == UNCHANGED s
GenSpec == GenInit /\ [][GenNext]_s

(* printed once: the permission universe the driver has to provision *)
ASSUME PrintT(ToJson([demands |-> Demands, allgrants |-> AllGrants]))
=============================================================================

-------------------------- MODULE SqlShape_Trace --------------------------
(* Binding F: judges the log of REAL requests (io.ndjson) against C15.       *)
(*                                                                           *)
(* One record = one request of one statement shape through one endpoint      *)
(* ("sql" = POST @sql, "tx" = @transaction sql task, "rows" = @transaction   *)
(* readrows task carrying SQL) by a non-administrator holding every          *)
(* permission of AllGrants except the withheld one r.w ([t |-> "", p |-> ""] *)
(* = nothing withheld: the control request of that shape, index r.ctl).      *)
(* Observed by the driver: status, executed (the server's SQL log shows the  *)
(* statement handed to the database in that request), changed (the SQLite    *)
(* file differs afterwards), checks (table-permission lookups the server     *)
(* logged for the request) and, on control records, which tables SQLite      *)
(* itself opens for the executed text (EXPLAIN): xopen / xwrite.             *)
(* "x" records (kind of record = "extract") carry what sqlparse.Tables()     *)
(* reports for a shape in-package; they only select suspects for real        *)
(* requests and are judged by Suspect, never by Post.                        *)
EXTENDS SqlShapeDefs, Json

VARIABLES i, bad, xbad, undecided, suspects

Log == ndJsonDeserialize("io.ndjson")
N == Len(Log)

ToSet(seq) == {seq[j] : j \in 1..Len(seq)}
Plants(r) == r.shape.plants
Shape(r) == [kind |-> r.shape.kind, var |-> r.shape.var, plants |-> r.shape.plants, cte |-> r.shape.cte, batch |-> r.shape.batch]
Req(r) == Required(Shape(r))
Withheld(r) == IF r.w.p = "" THEN {} ELSE {Perm(r.w.t, r.w.p)}
IsCtl(r) == r.w.p = ""
Ran(r) == r.executed \/ r.changed
IsBatch(r) == r.shape.kind = "batch"
Kw(k) == CASE k = "insert" -> "INSERT" [] k = "update" -> "UPDATE" [] k = "delete" -> "DELETE" [] OTHER -> "SELECT"
(* batches: r.execk = first keyword of every statement the server handed to   *)
(* the database in that request; statement j ran iff its keyword is among them *)
RanStmt(r, j) == Kw(r.shape.batch[j]) \in ToSet(r.execk)
Forbidden(r) == {j \in 1..Len(r.shape.batch) : Withheld(r) \cap Own(r.shape.batch[j]) # {}}

(* domain: the statement is executable at all (it ran for the caller holding  *)
(* everything); otherwise the case decides nothing                            *)
WF(r) == LET c == Log[r.ctl] IN /\ c.rec = "req" /\ IsCtl(c) /\ c.executed /\ c.status = 200
                                /\ (IsBatch(c) => \A j \in 1..Len(c.shape.batch) : RanStmt(c, j))

(* clause 1: executes only if every demanded permission is held               *)
PostDeny(r) == IF IsBatch(r) THEN \A j \in Forbidden(r) : ~RanStmt(r, j)      \* each statement of a batch for itself
               ELSE (Withheld(r) \cap Req(r) # {}) => ~Ran(r)
(* clause 2: no table is read or modified without the corresponding check     *)
(* being made (table permissions; the DSN-administrator check is not logged   *)
(* by the server and is covered by clause 1 only)                             *)
TableReq(r) == {d \in Req(r) : d.p # "schema"}
Missing(r) == TableReq(r) \ ToSet(r.checks)
PostCheck(r) == (IsCtl(r) /\ r.executed) => Missing(r) = {}
Post(r) == PostDeny(r) /\ PostCheck(r)

PermKey(d) == IF d.p = "read" /\ d.t # "T" THEN "read-nested" ELSE d.p
Key(r) == r.ep \o "/" \o r.shape.kind \o "/" \o PosKey(Shape(r)) \o "/"
          \o (IF ~PostDeny(r) THEN PermKey(CHOOSE d \in Withheld(r) : TRUE) \o "/withheld-but-ran"
              ELSE PermKey(CHOOSE d \in Missing(r) : TRUE) \o "/ran-without-check")

(* reference cross-check (spec vs SQLite's own EXPLAIN): a disagreement means *)
(* Required itself is wrong for this shape => no verdict                      *)
XOk(r) == (IsCtl(r) /\ r.executed /\ r.xplain /\ ~IsBatch(r)) =>
            /\ (ToSet(r.xopen) \cup ToSet(r.xwrite)) \cap {"S", "U"} = NestedBase(Shape(r))
            /\ ("sqlite_master" \in ToSet(r.xwrite)) <=> IsSchema(Shape(r))
            /\ (r.shape.kind \in {"insert", "update", "delete"} => "T" \in ToSet(r.xwrite))
            /\ (r.shape.kind = "select" => "T" \in ToSet(r.xopen))

(* in-package extraction records: which demanded permissions does Tables()    *)
(* (mapped as the server maps usages to permissions) fail to cover            *)
UPerm(u, kind) ==    \* the permission the server derives from one reported usage (sql_permissions.go)
  IF u.u = "read" THEN Perm(u.t, "read")
  ELSE IF u.u = "write" THEN Perm(u.t, IF kind = "UPDATE" THEN "update" ELSE IF kind = "DELETE" THEN "delete" ELSE "insert")
  ELSE SchemaPerm
Covered(r) == {UPerm(u, r.kind) : u \in ToSet(r.usages)}
Suspect(r) == r.parsed /\ (Req(r) \ Covered(r)) # {}

TInit == i = 1 /\ bad = {} /\ xbad = {} /\ undecided = 0 /\ suspects = {}
TNext == /\ i <= N
         /\ LET r == Log[i] IN
              IF r.rec = "req" THEN
                /\ bad' = IF WF(r) /\ ~Post(r) THEN bad \cup {[idx |-> i, key |-> Key(r)]} ELSE bad
                /\ xbad' = IF WF(r) /\ ~XOk(r) THEN xbad \cup {i} ELSE xbad
                /\ undecided' = IF WF(r) THEN undecided ELSE undecided + 1
                /\ UNCHANGED suspects
              ELSE
                /\ suspects' = IF Suspect(r) THEN suspects \cup {r.id} ELSE suspects
                /\ UNCHANGED <<bad, xbad, undecided>>
         /\ i' = i + 1
TSpec == TInit /\ [][TNext]_<<i, bad, xbad, undecided, suspects>>

Report == i <= N \/ PrintT(ToJson([n |-> N, bad |-> bad, xbad |-> xbad, undecided |-> undecided, suspects |-> suspects]))
=============================================================================

SPECIFICATION Spec
CONSTANTS
  MaxDepth = 2
  Extract = "complete"
INVARIANTS TypeOK OnlyIfAuthorized WellFormed FullSuffices
CHECK_DEADLOCK FALSE

SPECIFICATION GenSpec
CONSTANTS
  MaxDepth = 1
  Extract = "complete"
CHECK_DEADLOCK FALSE

SPECIFICATION GenSpec
CONSTANTS
  MaxDepth = 2
  Extract = "complete"
CHECK_DEADLOCK FALSE

\* bounded, direct: every byte string over the selector alphabet up to MaxN symbols
SPECIFICATION Spec
CONSTANTS
  Rows <- RowsBytesSel
  Start = "x"
  MaxN = 4
  Impl = "fixed"
INVARIANTS TokensSame Shrinks
CHECK_DEADLOCK FALSE

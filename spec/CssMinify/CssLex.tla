------------------------------- MODULE CssLex -------------------------------
(* The reference CSS tokenizer of property C34 (CSS Syntax Level 3, section 4, *)
(* over bytes) and the canonical token sequence a minifier has to preserve:    *)
(*                                                                             *)
(*   Lex(text)    token sequence; comments produce no token but separate the   *)
(*                tokens around them; a run of white space (with or without    *)
(*                comments inside) is ONE "w" token                            *)
(*   Canon(toks)  the same sequence after dropping what the statement allows a *)
(*                minifier to drop: white space that is not significant, and   *)
(*                redundant semicolons (a `;` directly followed - white space  *)
(*                aside - by `;` or `}`)                                       *)
(*                                                                             *)
(* White space is significant (statement + DESIGN 7.6) where                   *)
(*   a. removing it would make the neighbouring tokens lex differently: never  *)
(*      flagged here, it shows as a difference of the other tokens             *)
(*   b. it is a descendant combinator: inside a selector (prelude of a         *)
(*      qualified rule) between the end of a compound selector and the start   *)
(*      of the next one                                                        *)
(*   c. it separates an operand from a `+` / `-` operator inside parentheses   *)
(*      outside selectors (calc() and friends)                                 *)
(* Pure operators only: no constants, no variables.                            *)
EXTENDS Integers, Sequences, SequencesExt, FiniteSets, TLC

WSp       == {32, 9, 10, 13, 12}
Digit     == 48..57
NameStart == (65..90) \cup (97..122) \cup {95} \cup (128..255)
NameCh    == NameStart \cup Digit \cup {45}
Printable == (32..126) \cup (128..255) \cup WSp          \* bytes of the domain (no NUL / control / DEL)
UrlBody   == Printable \ (WSp \cup {34, 39, 40, 41, 92})   \* what an unquoted url( ) may contain

At(t, i) == IF i >= 1 /\ i <= Len(t) THEN t[i] ELSE 0       \* 0 = end of input

(* first index >= i whose byte is in S (FirstIn) / is not in S (RunEnd); Len(t) + 1 if there is none.          *)
(* SelectInSubSeq is a loop in TLC (a definition recursive per byte costs a deep Java stack for a long           *)
(* comment); it copies the range it searches, hence the windows of 48 bytes.                                      *)
ASSUME SelectInSubSeq(<<1, 2, 3, 2>>, 3, 4, LAMBDA c : c = 2) = 4      \* TLC answers with an index of the whole sequence
RECURSIVE FirstIn(_, _, _), RunEnd(_, _, _)
FirstIn(t, i, S) ==
  IF i > Len(t) THEN Len(t) + 1
  ELSE LET hi == IF i + 47 < Len(t) THEN i + 47 ELSE Len(t)
           k  == SelectInSubSeq(t, i, hi, LAMBDA c : c \in S)
       IN IF k # 0 THEN k ELSE FirstIn(t, hi + 1, S)
RunEnd(t, i, S) ==
  IF i > Len(t) THEN Len(t) + 1
  ELSE LET hi == IF i + 47 < Len(t) THEN i + 47 ELSE Len(t)
           k  == SelectInSubSeq(t, i, hi, LAMBDA c : c \notin S)
       IN IF k # 0 THEN k ELSE RunEnd(t, hi + 1, S)

Lower(c) == IF c \in 65..90 THEN c + 32 ELSE c

(* "would start an identifier" / "would start a number" (CSS Syntax 4.3.9/10; *)
(* escapes in identifiers are outside the domain: TokAt answers "bad")        *)
StartsIdent(t, i) == \/ At(t, i) \in NameStart
                     \/ At(t, i) = 45 /\ (At(t, i + 1) \in NameStart \/ At(t, i + 1) = 45)
StartsNum(t, i) ==
  LET c == At(t, i) IN
    \/ c \in Digit
    \/ c = 46 /\ At(t, i + 1) \in Digit
    \/ c \in {43, 45} /\ (At(t, i + 1) \in Digit \/ (At(t, i + 1) = 46 /\ At(t, i + 2) \in Digit))

(* end of a numeric token starting at i: number, then unit or % *)
NumEnd(t, i) ==
  LET j0 == IF At(t, i) \in {43, 45} THEN i + 1 ELSE i
      j1 == RunEnd(t, j0, Digit)
      j2 == IF At(t, j1) = 46 /\ At(t, j1 + 1) \in Digit THEN RunEnd(t, j1 + 1, Digit) ELSE j1
      j3 == IF At(t, j2) \in {69, 101}
               /\ (At(t, j2 + 1) \in Digit \/ (At(t, j2 + 1) \in {43, 45} /\ At(t, j2 + 2) \in Digit))
              THEN RunEnd(t, j2 + 2, Digit) ELSE j2
  IN IF StartsIdent(t, j3) THEN RunEnd(t, j3, NameCh)
     ELSE IF At(t, j3) = 37 THEN j3 + 1 ELSE j3

RECURSIVE CmtEnd(_, _)       \* index after the closing */ of a comment whose body starts at j; 0 = unterminated
CmtEnd(t, j) == LET k == FirstIn(t, j, {42}) IN                       \* next *
                  IF k + 1 > Len(t) THEN 0
                  ELSE IF t[k + 1] = 47 THEN k + 2 ELSE CmtEnd(t, k + 1)

RECURSIVE StrEnd(_, _, _)    \* index after the closing quote; 0 = unterminated; -1 = raw newline inside (bad-string)
StrEnd(t, j0, q) ==
  LET j == FirstIn(t, j0, {q, 92, 10, 13, 12}) IN                       \* next byte that is not plain content
    IF j > Len(t) THEN 0
    ELSE IF t[j] = q THEN j + 1
    ELSE IF t[j] = 92 THEN IF j + 1 > Len(t) THEN 0
                           ELSE StrEnd(t, j + (IF t[j + 1] = 13 /\ At(t, j + 2) = 10 THEN 3 ELSE 2), q)
    ELSE -1

T(k, s, e) == [k |-> k, s |-> s, e |-> e]

(* the token starting at i.  kinds: "w" white space, "c" comment (no token),   *)
(* "str" (raw, quotes included), "num" (number/percentage/dimension, raw),     *)
(* "id", "fn" (name of a function token; the parenthesis is part of it), "url" *)
(* (unquoted url: its content), "at", "hash", "d" any other single byte;       *)
(* "bad" = outside the domain, "cmt"/"str?"/"url?" = unterminated at the end   *)
IdentLike(t, i) ==
  LET e == RunEnd(t, i, NameCh) IN
    IF At(t, e) # 40 THEN T("id", SubSeq(t, i, e - 1), e)
    ELSE IF ~(e - i = 3 /\ Lower(t[i]) = 117 /\ Lower(t[i + 1]) = 114 /\ Lower(t[i + 2]) = 108)
      THEN T("fn", SubSeq(t, i, e - 1), e + 1)
    ELSE LET k == RunEnd(t, e + 1, WSp) IN
      IF At(t, k) \in {34, 39} THEN T("fn", SubSeq(t, i, e - 1), e + 1)       \* url( "..." ): function + string
      ELSE LET m == RunEnd(t, k, UrlBody) IN
        IF m > Len(t) THEN T("url?", <<>>, m)
        ELSE IF t[m] = 41 THEN T("url", SubSeq(t, k, m - 1), m + 1)
        ELSE IF t[m] \in WSp THEN
               LET m2 == RunEnd(t, m, WSp) IN
                 IF m2 > Len(t) THEN T("url?", <<>>, m2)
                 ELSE IF t[m2] = 41 THEN T("url", SubSeq(t, k, m - 1), m2 + 1)
                 ELSE T("bad", <<>>, m2)                                        \* bad-url
        ELSE T("bad", <<>>, m)                                                  \* quote, ( or \ in a url: bad-url

TokAt(t, i) ==
  LET c == t[i] IN
    IF c \in WSp THEN T("w", <<>>, RunEnd(t, i, WSp))
    ELSE IF c = 47 /\ At(t, i + 1) = 42 THEN
           LET e == CmtEnd(t, i + 2) IN IF e = 0 THEN T("cmt", <<>>, Len(t) + 1) ELSE T("c", <<>>, e)
    ELSE IF c \in {34, 39} THEN
           LET e == StrEnd(t, i + 1, c) IN
             IF e = 0 THEN T("str?", <<>>, Len(t) + 1)
             ELSE IF e < 0 THEN T("bad", <<>>, i) ELSE T("str", SubSeq(t, i, e - 1), e)
    ELSE IF StartsNum(t, i) THEN LET e == NumEnd(t, i) IN T("num", SubSeq(t, i, e - 1), e)
    ELSE IF StartsIdent(t, i) THEN IdentLike(t, i)
    ELSE IF c = 64 /\ StartsIdent(t, i + 1) THEN
           LET e == RunEnd(t, i + 1, NameCh) IN T("at", SubSeq(t, i + 1, e - 1), e)
    ELSE IF c = 35 /\ At(t, i + 1) \in NameCh THEN
           LET e == RunEnd(t, i + 1, NameCh) IN T("hash", SubSeq(t, i + 1, e - 1), e)
    ELSE IF c = 92 THEN T("bad", <<>>, i)                 \* escape outside a string: not modelled, outside the domain
    ELSE IF c \in Printable THEN T("d", <<c>>, i + 1)
    ELSE T("bad", <<>>, i)

Tok(k, s) == [k |-> k, s |-> s]
WTok == Tok("w", <<>>)
HasCmtMark(s) == \E j \in 1..(Len(s) - 1) : s[j] = 47 /\ s[j + 1] = 42

(* scanner: accumulator <<c, toks>>; c = control record (kept apart from the growing token sequence: TLC copies  *)
(* a record deeply on EXCEPT).  c.st: "ok" | "bad" | "cmt" / "str?" / "url?" (input ended inside one); c.lw: the   *)
(* last token is white space; c.any: there is a token.  glue: some comment stood between two tokens with no white  *)
(* space on either side; ucm: some unquoted url contains the two bytes of a comment opener (both only name the     *)
(* class of an input).                                                                                              *)
CtlInit == [nx |-> 1, st |-> "ok", pend |-> FALSE, glue |-> FALSE, ucm |-> FALSE, lw |-> FALSE, any |-> FALSE]

LexStep(t, a, i) ==
  LET c == a[1] IN
  IF i < c.nx \/ c.st # "ok" THEN a
  ELSE LET r == TokAt(t, i) IN
         IF r.k \in {"bad", "cmt", "str?", "url?"} THEN <<[c EXCEPT !.st = r.k, !.nx = Len(t) + 1], a[2]>>
         ELSE IF r.k = "c" THEN <<[c EXCEPT !.nx = r.e, !.pend = c.pend \/ (c.any /\ ~c.lw)], a[2]>>
         ELSE IF r.k = "w" THEN <<[c EXCEPT !.nx = r.e, !.pend = FALSE, !.lw = TRUE, !.any = TRUE],
                                  IF c.lw THEN a[2] ELSE Append(a[2], WTok)>>
         ELSE <<[c EXCEPT !.nx = r.e, !.pend = FALSE, !.glue = c.glue \/ c.pend, !.lw = FALSE, !.any = TRUE,
                          !.ucm = c.ucm \/ (r.k = "url" /\ HasCmtMark(r.s))],
                Append(a[2], Tok(r.k, r.s))>>

Idx(n) == [j \in 1..n |-> j]
Lex(t) == LET a == FoldLeft(LAMBDA acc, i : LexStep(t, acc, i), <<CtlInit, <<>> >>, Idx(Len(t)))
          IN [toks |-> a[2], st |-> a[1].st, glue |-> a[1].glue, ucm |-> a[1].ucm]
LexInit == [toks |-> <<>>, st |-> "ok", glue |-> FALSE, ucm |-> FALSE]          \* = Lex(<<>>)

LexWF(l) == l.st = "ok"             \* the domain: every string, comment and url closed, no escapes outside strings

(* ----------------------------- significance ------------------------------ *)
IsD(tk, c)  == tk.k = "d" /\ tk.s[1] = c
Opens(tk)   == tk.k = "fn" \/ IsD(tk, 40) \/ IsD(tk, 91)
Closes(tk)  == IsD(tk, 41) \/ IsD(tk, 93)
ParOpen(tk) == tk.k = "fn" \/ IsD(tk, 40)
IsTerm(tk)  == IsD(tk, 123) \/ IsD(tk, 125) \/ IsD(tk, 59)            \* { } ;

(* left to right: pd = parenthesis depth, bd = {}-block depth, atp = inside the prelude of an at-rule; accumulator <<s, info>> *)
FwdInit == [dep |-> 0, pd |-> 0, bd |-> 0, atp |-> FALSE, fresh |-> TRUE]
FwdStep(a, tk) ==
  LET s    == a[1]
      atp1 == IF s.fresh /\ tk.k # "w" THEN tk.k = "at" ELSE s.atp
      fr1  == s.fresh /\ tk.k = "w"
      info == Append(a[2], [pd |-> s.pd, bd |-> s.bd, atp |-> atp1])
      s1   == [s EXCEPT !.atp = atp1, !.fresh = fr1]
  IN IF Opens(tk) THEN <<[s1 EXCEPT !.dep = s.dep + 1, !.pd = IF ParOpen(tk) THEN s.pd + 1 ELSE s.pd], info>>
     ELSE IF Closes(tk) THEN <<[s1 EXCEPT !.dep = IF s.dep > 0 THEN s.dep - 1 ELSE 0,
                                          !.pd = IF IsD(tk, 41) /\ s.pd > 0 THEN s.pd - 1 ELSE s.pd], info>>
     ELSE IF IsTerm(tk) /\ s.dep = 0 THEN
            <<[s1 EXCEPT !.fresh = TRUE, !.atp = FALSE,
                         !.bd = IF IsD(tk, 123) THEN s.bd + 1
                                ELSE IF IsD(tk, 125) /\ s.bd > 0 THEN s.bd - 1 ELSE s.bd], info>>
     ELSE <<s1, info>>
Fwd(toks) == FoldLeft(FwdStep, <<FwdInit, <<>> >>, toks)[2]

(* right to left: the first of { ; } that follows a token at its own nesting level ("eof" if none) *)
BwdInit == [dep |-> 0, tm |-> "eof"]
BwdStep(toks, a, p) ==
  LET tk   == toks[p]
      s    == a[1]
      info == Append(a[2], s.tm)
  IN IF Closes(tk) THEN <<[s EXCEPT !.dep = s.dep + 1], info>>
     ELSE IF Opens(tk) THEN <<[s EXCEPT !.dep = IF s.dep > 0 THEN s.dep - 1 ELSE 0], info>>
     ELSE IF IsTerm(tk) /\ s.dep = 0 THEN <<[s EXCEPT !.tm = IF IsD(tk, 123) THEN "{" ELSE ";"], info>>
     ELSE <<s, info>>
Bwd(toks) == Reverse(FoldLeft(LAMBDA a, p : BwdStep(toks, a, p), <<BwdInit, <<>> >>, Reverse(Idx(Len(toks))))[2])

(* end / start of a compound selector *)
SelEnd(tk)   == tk.k \in {"id", "hash"} \/ IsD(tk, 42) \/ IsD(tk, 93) \/ IsD(tk, 41)            \* a #a * ] )
SelStart(tk) == tk.k \in {"id", "hash"} \/ IsD(tk, 42) \/ IsD(tk, 91) \/ IsD(tk, 46)
                \/ IsD(tk, 58) \/ IsD(tk, 38)                                                    \* a #a * [ . : &
PlusMinus(tk) == IsD(tk, 43) \/ IsD(tk, 45)
OperandEnd(tk)   == tk.k \in {"num", "id"} \/ IsD(tk, 41)
OperandStart(tk) == tk.k \in {"num", "id", "fn"} \/ IsD(tk, 40)

(* "sel" descendant combinator, "op" operator spacing, "" insignificant *)
SigKind(toks, fi, tm, p) ==
  IF toks[p].k # "w" \/ p = 1 \/ p = Len(toks) THEN ""
  ELSE LET L == toks[p - 1]
           R == toks[p + 1]
           selc == ~fi[p].atp /\ (tm[p] = "{" \/ (tm[p] = "eof" /\ fi[p].bd = 0))
       IN IF selc THEN (IF SelEnd(L) /\ SelStart(R) THEN "sel" ELSE "")
          ELSE IF fi[p].pd > 0 /\ ((OperandEnd(L) /\ PlusMinus(R)) \/ (PlusMinus(L) /\ OperandStart(R)))
                 THEN "op" ELSE ""

(* one pass: <<tokens without the insignificant white space, kinds of significant white space met>> *)
DropWS(toks) ==
  LET fi == Fwd(toks)
      tm == Bwd(toks)
  IN FoldLeft(LAMBDA acc, p : IF toks[p].k # "w" THEN <<Append(acc[1], toks[p]), acc[2]>>
                               ELSE LET g == SigKind(toks, fi, tm, p) IN
                                      IF g = "" THEN acc ELSE <<Append(acc[1], WTok), acc[2] \cup {g}>>,
              <<<<>>, {}>>, Idx(Len(toks)))

DropSemis(c) ==
  FoldLeft(LAMBDA acc, p : IF IsD(c[p], 59) /\ p < Len(c) /\ (IsD(c[p + 1], 59) \/ IsD(c[p + 1], 125))
                             THEN acc ELSE Append(acc, c[p]),
           <<>>, Idx(Len(c)))

Canon(toks) == DropSemis(DropWS(toks)[1])

(* kinds of the significant white space of a token sequence (for naming cases) *)
SigKinds(toks) == DropWS(toks)[2]

(* total: a text outside the domain has no canonical form *)
CanonOf(l) == IF LexWF(l) THEN [ok |-> TRUE, toks |-> Canon(l.toks)] ELSE [ok |-> FALSE, toks |-> <<>>]

(* the same with the kinds of significant white space: [ok, toks, sig] *)
CanonInfo(l) == IF LexWF(l) THEN LET d == DropWS(l.toks) IN [ok |-> TRUE, toks |-> DropSemis(d[1]), sig |-> d[2]]
                ELSE [ok |-> FALSE, toks |-> <<>>, sig |-> {}]
=============================================================================

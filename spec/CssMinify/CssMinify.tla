----------------------------- MODULE CssMinify -----------------------------
(* C34: the stylesheet minifier (internal/util/javascript/minify_css.go        *)
(* MinifyCSS, applied by internal/server/assets/handler.go to every *.css      *)
(* asset), transcribed branch by branch, next to the reference tokenizer of    *)
(* CssLex.  The environment builds a stylesheet by appending lexemes (single   *)
(* bytes or whole fragments) taken from a table; a row may only be appended in *)
(* the generator modes it lists, so the same machine enumerates               *)
(*   - every byte string over a small alphabet (all rows in one mode),         *)
(*   - every  context / left / separator / right / context  combination,       *)
(*   - stylesheets following the rule grammar (top / sel / blk / val modes).   *)
(*                                                                             *)
(*   Impl = "asis"   the loop as it is in the tree under verification          *)
(*   Impl = "fixed"  with the proposed repairs: a comment that stands between  *)
(*                   two bytes that would otherwise run together leaves an     *)
(*                   empty comment behind; an unquoted url( ) is copied as is  *)
(*   Impl = "colon"  negative control: `:` treated as one more delimiter       *)
EXTENDS CssLex

CONSTANTS Rows,        \* set of [s |-> bytes, f |-> set of modes it may follow, t |-> mode after it ("=" keeps)]
          Start,       \* initial generator mode
          MaxN,        \* bound on the number of rows appended
          Impl

VARIABLES in,          \* the stylesheet built so far
          g,           \* generator mode
          n,           \* rows appended
          lx           \* Lex(in) (kept in the state so that it is computed once)

vars == <<in, g, n, lx>>

(* ------------------------- the code, transcribed -------------------------- *)
Delims == IF Impl = "colon" THEN {123, 125, 59, 44, 62, 58} ELSE {123, 125, 59, 44, 62}     \* cssIsDelim

RECURSIVE CScan(_, _)        \* for i+1 < n && !(src[i] == '*' && src[i+1] == '/') { i++ }
CScan(t, j) == LET k == FirstIn(t, j, {42}) IN                        \* (the loop, jumping from * to *)
                 IF k + 1 <= Len(t) THEN (IF t[k + 1] = 47 THEN k ELSE CScan(t, k + 1))
                 ELSE IF j <= Len(t) THEN Len(t) ELSE j

RECURSIVE SScan(_, _, _)     \* for i < n && src[i] != c { if src[i] == '\\' && i+1 < n { i += 2 } else { i++ } }
SScan(t, j0, q) == LET j == FirstIn(t, j0, {q, 92}) IN
                     IF j > Len(t) \/ t[j] = q THEN j
                     ELSE IF j + 1 <= Len(t) THEN SScan(t, j + 2, q) ELSE SScan(t, j + 1, q)

MinOf(a, b) == IF a < b THEN a ELSE b

(* fixed only: bytes that could run together with a neighbour into one token once the comment between them is gone *)
WordCh == NameCh \cup {35, 37, 43, 46, 64, 92}                       \* name bytes and # % + . @ \
Joins(a, b) == (a \in WordCh /\ (b \in WordCh \/ b = 40)) \/ (a = 47 /\ b = 42)

(* fixed only: position i starts  url(  (any case) not followed by a quoted string *)
IsUrlOpen(t, i, o) ==
  /\ Lower(At(t, i)) = 117 /\ Lower(At(t, i + 1)) = 114 /\ Lower(At(t, i + 2)) = 108 /\ At(t, i + 3) = 40
  /\ ~(Len(o) > 0 /\ Last(o) \in NameCh \cup {92, 35, 64})           \* not the tail of a longer name, #hash or @keyword
  /\ At(t, RunEnd(t, i + 4, WSp)) \notin {34, 39}

(* one iteration of `for i < n`; s = [i, out], i 1-based *)
MinIter(t, s) ==
  LET i == s.i
      c == t[i]
      o == s.out
  IN IF c = 47 /\ At(t, i + 1) = 42 THEN                                   \* block comment
       LET e == CScan(t, i + 2) + 2 IN
         IF Impl = "fixed" /\ Len(o) > 0 /\ e <= Len(t) /\ Joins(Last(o), t[e])
           THEN [i |-> e, out |-> o \o <<47, 42, 42, 47>>]
           ELSE [i |-> e, out |-> o]
     ELSE IF c \in {34, 39} THEN                                           \* quoted string, copied verbatim
       LET e == SScan(t, i + 1, c) IN
         [i |-> e + 1, out |-> o \o SubSeq(t, i, MinOf(e, Len(t)))]
     ELSE IF Impl = "fixed" /\ IsUrlOpen(t, i, o) THEN                     \* unquoted url( ... ) copied verbatim
       LET e == FirstIn(t, i + 4, {41}) IN                                \* for j < n && src[j] != ')' { j++ }
         [i |-> e, out |-> o \o SubSeq(t, i, e - 1)]
     ELSE IF c \in WSp THEN                                                \* white-space run
       LET j == RunEnd(t, i, WSp)
           nextIsDelim == j <= Len(t) /\ t[j] \in Delims
           prevIsDelimOrColon == Len(o) > 0 /\ (Last(o) \in Delims \/ Last(o) = 58)
       IN [i |-> j, out |-> IF ~nextIsDelim /\ ~prevIsDelimOrColon /\ Len(o) > 0 THEN Append(o, 32) ELSE o]
     ELSE IF c = 59 THEN                                                   \* semicolons
       LET e == RunEnd(t, i, {59})
           j == RunEnd(t, e, WSp)
       IN IF At(t, j) = 125 THEN [i |-> e, out |-> o] ELSE [i |-> e, out |-> Append(o, 59)]
     ELSE [i |-> i + 1, out |-> Append(o, c)]

RECURSIVE TrimSp(_)
TrimSp(o) == IF Len(o) > 0 /\ Last(o) = 32 THEN TrimSp(SubSeq(o, 1, Len(o) - 1)) ELSE o

Minify(t) == TrimSp(FoldLeft(LAMBDA s, k : IF s.i > Len(t) THEN s ELSE MinIter(t, s),
                          [i |-> 1, out |-> <<>>], Idx(Len(t))).out)

(* ------------------------------ environment ------------------------------- *)
(* inside an unterminated comment / string only rows that list "cmt" / "str" may follow *)
Mode == IF lx.st = "cmt" THEN "cmt" ELSE IF lx.st \in {"str?", "url?"} THEN "str" ELSE g

Init == in = <<>> /\ g = Start /\ n = 0 /\ lx = LexInit

Feed(r) == /\ n < MaxN
           /\ Mode \in r.f
           /\ LET l2 == Lex(in \o r.s) IN
                /\ l2.st # "bad"                          \* the text stays a prefix of a stylesheet of the domain
                /\ lx' = l2
           /\ in' = in \o r.s
           /\ g' = IF r.t = "=" THEN g ELSE r.t
           /\ n' = n + 1

Next == \E r \in Rows : Feed(r)
Spec == Init /\ [][Next]_vars

WF == LexWF(lx) /\ Len(in) > 0

(* ---- the property: minifying keeps the canonical token sequence ---- *)
TokensSame == WF => CanonOf(Lex(Minify(in))) = CanonOf(lx)

(* ---- documented purpose, model level only (the property does not demand it) ---- *)
Shrinks == Len(Minify(in)) <= Len(in)

=============================================================================

-------------------------- MODULE CssMinify_Trace --------------------------
(* Binding F: every (stylesheet, minified stylesheet) pair logged from the    *)
(* real javascript.MinifyCSS - directly, or as the body the real asset        *)
(* handler answered for the stylesheet - is judged by the contract            *)
(*   WFIn(in) => out is in the domain /\ Canon(Lex(out)) = Canon(Lex(in))     *)
(*               /\ the caller's bytes were left alone /\ (status 200)        *)
(* i.e. only comments, insignificant white space and redundant semicolons are *)
(* gone.  Texts are byte sequences.  One record per step; failing records are *)
(* accumulated with the abstract identity of the case.                        *)
EXTENDS CssLex, Json

VARIABLES i, bad, skipped, fc

Log == ndJsonDeserialize("io.ndjson")
N   == Len(Log)

WFIn(l) == LexWF(l)

Has(r, f) == f \in DOMAIN r

Post(ci, r) == /\ CanonOf(Lex(r.out)) = [ok |-> TRUE, toks |-> ci.toks]
               /\ r.same
               /\ (Has(r, "status") => r.status = 200)

(* abstract identity of a failing case: how the canonical token sequences     *)
(* differ at the first difference, and what is special about the input        *)
RECURSIVE FirstDiff(_, _, _)
FirstDiff(a, b, k) == IF k > Len(a) \/ k > Len(b) THEN 0
                      ELSE IF a[k] # b[k] THEN k ELSE FirstDiff(a, b, k + 1)

Kind(ci, r) ==
  LET lo == Lex(r.out)
      a  == ci.toks
      b  == Canon(lo.toks)
      k  == FirstDiff(a, b, 1)
  IN IF Has(r, "status") /\ r.status # 200 THEN "not-served"
     ELSE IF ~r.same THEN "input-overwritten"
     ELSE IF ~LexWF(lo) THEN "output-outside-domain-" \o lo.st
     ELSE IF k = 0 THEN (IF Len(b) < Len(a) THEN "tokens-lost-at-end" ELSE "tokens-added-at-end")
     ELSE IF a[k].k = "w" THEN "significant-space-lost"
     ELSE IF b[k].k = "w" THEN "space-introduced"
     ELSE "token-changed-" \o a[k].k \o "-to-" \o b[k].k

Feature(l, ci) == IF l.glue THEN "comment-between-adjacent-tokens"
                  ELSE IF l.ucm THEN "comment-opener-inside-url"
                  ELSE IF "sel" \in ci.sig /\ "op" \in ci.sig THEN "descendant-and-operator-space"
                  ELSE IF "sel" \in ci.sig THEN "descendant-space"
                  ELSE IF "op" \in ci.sig THEN "operator-space"
                  ELSE "other-input"

Key(l, ci, r) == "css/" \o Kind(ci, r) \o "/" \o Feature(l, ci)

Features == {"comment-between-adjacent-tokens", "comment-opener-inside-url", "descendant-and-operator-space",
             "descendant-space", "operator-space", "other-input"}

TInit == i = 1 /\ bad = {} /\ skipped = 0 /\ fc = [f \in Features |-> 0]
TNext == /\ i <= N
         /\ i' = i + 1
         /\ LET r  == Log[i]
                l  == Lex(r.in)
                ci == CanonInfo(l)
            IN IF ~WFIn(l) THEN skipped' = skipped + 1 /\ bad' = bad /\ fc' = fc
               ELSE /\ skipped' = skipped
                    /\ fc' = [fc EXCEPT ![Feature(l, ci)] = @ + 1]
                    /\ bad' = IF Post(ci, r) THEN bad
                              ELSE bad \cup {[idx |-> i, key |-> Key(l, ci, r)]}
TSpec == TInit /\ [][TNext]_<<i, bad, skipped, fc>>

Report == i <= N \/ PrintT(ToJson([n |-> N, skipped |-> skipped, bad |-> bad, feat |-> fc]))
=============================================================================

--------------------------- MODULE CssMinify_Gen ---------------------------
(* Model-checking root and input generator for binding F: the CssMinify      *)
(* machine over one of the lexeme tables of CssTables; Emit prints every      *)
(* stylesheet of the domain the machine reaches (exhaustive BFS: the text is  *)
(* part of the state; or -simulate for long random stylesheets).              *)
EXTENDS CssMinify, CssTables, Json

Emit == ~WF \/ PrintT(ToJson(in))
=============================================================================

SPECIFICATION CovSpecNT
CONSTANTS
  User = {"u1", "u2"}
  Limits = {0, 2, 3}
  Lockouts = {1}
  DefaultLimit = 5
  DefaultLockout = 3
  MaxClock = 0
  MaxStreak = 4
  MaxReconf = 1
  Impl = "code"
INVARIANTS EmitNode
VIEW CovView
CHECK_DEADLOCK FALSE

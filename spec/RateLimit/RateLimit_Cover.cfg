SPECIFICATION CovSpec
CONSTANTS
  User = {"u1", "u2"}
  Limits = {0, 1, 3}
  Lockouts = {99, 1}
  DefaultLimit = 5
  DefaultLockout = 3
  MaxClock = 6
  MaxStreak = 4
  MaxReconf = 0
  Impl = "code"
INVARIANTS EmitNode
VIEW CovView
CHECK_DEADLOCK FALSE

SPECIFICATION CovSpec
CONSTANTS
  User = {"u1"}
  Limits = {1, 2}
  Lockouts = {1, 99}
  DefaultLimit = 5
  DefaultLockout = 3
  MaxClock = 7
  MaxStreak = 3
  MaxReconf = 1
  Impl = "code"
INVARIANTS EmitNode
VIEW CovView
CHECK_DEADLOCK FALSE

--------------------------- MODULE RateLimit_Cover ---------------------------
(* Transition cover (binding R): breadth-first search of RateLimit with a path *)
(* name p carried OUTSIDE the view, so TLC visits every distinct (state, last  *)
(* step) once and prints, for each, the step that led to it, the projected     *)
(* state, and the path p as a sequence of step tokens (parent = p without its  *)
(* last token).                                                                *)
(* The check assembles root-to-leaf paths of this spanning tree and replays    *)
(* them on the real code: every reachable (step, resulting state) of the model *)
(* at the bound is executed at least once.                                     *)
EXTENDS RateLimit, Json

VARIABLE p

Tok(c) == CASE c.act = "Attempt" -> "A" \o c.u \o (IF c.pw = "right" THEN "r" ELSE "w")
            [] c.act = "Tick" -> "T"
            [] c.act = "Prune" -> "P"
            [] c.act = "Configure" -> "C" \o ToString(c.l) \o "," \o ToString(c.d)
            [] OTHER -> "I" \o ToString(c.l) \o "," \o ToString(c.d)

CovInit == Init /\ p = <<Tok(last)>>
CovNext == Api /\ p' = Append(p, Tok(last'))
CovSpec == CovInit /\ [][CovNext]_<<vars, p>>
CovView == vars
(* time-free variant: attempts and reconfiguration only *)
CovSpecNT == CovInit /\ [][ApiNoTime /\ p' = Append(p, Tok(last'))]_<<vars, p>>

EmitNode == PrintT(ToJson([id |-> p, call |-> last, st |-> Proj]))
=============================================================================

SPECIFICATION EdgeSpec
CONSTANTS
  User = {"u1"}
  Limits = {2}
  Lockouts = {900, 1000, 300000}
  DefaultLimit = 5
  DefaultLockout = 900000
  MaxClock = 310000
  MaxStreak = 3
  MaxReconf = 0
  Impl = "code"
  TickLen = 300000
  MaxEdge = 3
INVARIANTS RefusedWhileLocked RefusedOnlyWhileLocked NoCheckWhenRefused SuccessClears CountWithinStreak ZeroNeverLocks ZeroNothingLocked MustWithinMay EmitEdge
PROPERTIES Independent
VIEW EdgeView
CHECK_DEADLOCK FALSE

------------------------------ MODULE RateLimit ------------------------------
(* Code-shaped specification of the login rate limiter of tucats/ego         *)
(* (internal/router/ratelimit.go, used by Session.Authenticate in auth.go    *)
(* and by the OAuth2 authorization-server login form).                       *)
(*                                                                           *)
(* State of the code: loginAttempts : username -> (failures, lastFailure,    *)
(* lockedUntil) and the two settings ego.server.auth.maxattempts / .lockout. *)
(* One login attempt is                                                      *)
(*    CheckRateLimit (critical section 1) -> refused | ValidatePassword ->   *)
(*    RecordSuccess / RecordFailure (critical section 2)                     *)
(* The statement of C24 quantifies over SEQUENCES of attempts, so an attempt *)
(* is one action here (the two critical sections composed); Tick lets time   *)
(* pass, Prune is the background scan, Configure an administrator changing   *)
(* the settings while the server runs.                                       *)
(*                                                                           *)
(* Time: integer ticks.  The real "now" is always a little later than the    *)
(* instant a deadline was computed from, so  now.Before(t) == clock < t  and *)
(* now.After(t) == clock >= t.                                               *)
(*                                                                           *)
(* Impl = "code"     the rate limiter as written                             *)
(* Impl = "noclear"  negative control: a success does not clear the record   *)
(* Impl = "latelock" negative control: locks one failure too late            *)
EXTENDS Integers, FiniteSets, Sequences, TLC

CONSTANTS User,            \* usernames (strings)
          Limits,          \* values the maxattempts setting takes: n >= 0, 99 = not set, 98 = a negative number
          Lockouts,        \* values the lockout setting takes in ticks: n > 0, 99 = not set, 0 = "0s" (not positive)
          DefaultLimit, DefaultLockout,
          MaxClock, MaxStreak, MaxReconf,
          Impl

EffLimit(l) == IF l \in {98, 99} THEN DefaultLimit ELSE l
EffLock(d)  == IF d \in {0, 98, 99} THEN DefaultLockout ELSE d

NoRec == [on |-> FALSE, failures |-> 0, last |-> 0, until |-> 0]

VARIABLES cfg,      \* [limit, lockout] as configured (not yet defaulted)
          rec,      \* [User -> record]  (on = FALSE: no map entry)
          clock,
          reconf,   \* number of Configure steps (bound)
          \* --- history variables: the statement's own vocabulary, independent of rec ---
          streak,   \* [User -> Nat] consecutive failed password checks since the last success (or since forgotten by Prune)
          tainted,  \* [User -> BOOLEAN] the configuration changed while the streak was running
          must,     \* [User -> deadline] attempts before it MUST be refused (0 = none)
          may,      \* [User -> deadline] attempts at or after it must NOT be refused (0 = none)
          last      \* observation: the last step and what the client saw

vars == <<cfg, rec, clock, reconf, streak, tainted, must, may, last>>

Max(a, b) == IF a > b THEN a ELSE b

Obs(a, u, pw, reply, verified, retry, m, y) ==
  last' = [act |-> a, u |-> u, pw |-> pw, reply |-> reply, verified |-> verified, retry |-> retry,
           l |-> cfg'.limit, d |-> cfg'.lockout, must |-> m, may |-> y]

Init == /\ cfg \in [limit : Limits, lockout : Lockouts]
        /\ rec = [u \in User |-> NoRec]
        /\ clock = 0 /\ reconf = 0
        /\ streak = [u \in User |-> 0] /\ tainted = [u \in User |-> FALSE]
        /\ must = [u \in User |-> 0] /\ may = [u \in User |-> 0]
        /\ last = [act |-> "Init", u |-> "", pw |-> "", reply |-> "", verified |-> FALSE, retry |-> 0,
                   l |-> cfg.limit, d |-> cfg.lockout, must |-> FALSE, may |-> FALSE]

(* CheckRateLimit *)
Locked(u) == /\ EffLimit(cfg.limit) # 0
             /\ rec[u].on
             /\ clock < rec[u].until

(* RecordFailure *)
AfterFailure(u) ==
  LET lim == EffLimit(cfg.limit)
      r   == rec[u]
      f   == r.failures + 1
      thr == IF Impl = "latelock" THEN lim + 1 ELSE lim
  IN  IF lim = 0 THEN r
      ELSE [on |-> TRUE, failures |-> f, last |-> clock,
            until |-> IF f >= thr /\ clock >= r.until THEN clock + EffLock(cfg.lockout) ELSE r.until]

(* RecordSuccess *)
AfterSuccess(u) == IF Impl = "noclear" THEN rec[u] ELSE NoRec

Attempt(u, pw) ==
  LET lim   == EffLimit(cfg.limit)
      d     == EffLock(cfg.lockout)
      mustR == clock < must[u]
      mayR  == lim # 0 /\ clock < may[u]
  IN  /\ cfg' = cfg
      /\ IF Locked(u)
           THEN /\ Obs("Attempt", u, pw, "refused", FALSE, rec[u].until - clock, mustR, mayR)
                /\ UNCHANGED <<rec, streak, tainted, must, may>>
           ELSE IF pw = "right"
           THEN /\ rec' = [rec EXCEPT ![u] = AfterSuccess(u)]
                /\ streak' = [streak EXCEPT ![u] = 0]
                /\ tainted' = [tainted EXCEPT ![u] = FALSE]
                /\ must' = [must EXCEPT ![u] = 0]
                /\ may' = [may EXCEPT ![u] = 0]
                /\ Obs("Attempt", u, pw, "ok", TRUE, 0, mustR, mayR)
           ELSE /\ streak[u] < MaxStreak
                /\ rec' = [rec EXCEPT ![u] = AfterFailure(u)]
                /\ streak' = [streak EXCEPT ![u] = @ + 1]
                /\ tainted' = tainted
                (* the statement: the failure that makes the consecutive failures REACH the limit *)
                (* starts a lockout period during which every attempt is refused                  *)
                /\ must' = IF lim # 0 /\ ~tainted[u] /\ streak[u] + 1 = lim
                             THEN [must EXCEPT ![u] = clock + d] ELSE must
                (* a failure with the limit reached or exceeded may (re)start a period           *)
                /\ may' = IF lim # 0 /\ streak[u] + 1 >= lim
                             THEN [may EXCEPT ![u] = Max(@, clock + d)] ELSE may
                /\ Obs("Attempt", u, pw, "denied", TRUE, 0, mustR, mayR)
      /\ UNCHANGED <<clock, reconf>>

Tick == /\ clock < MaxClock
        /\ clock' = clock + 1
        /\ cfg' = cfg
        /\ Obs("Tick", "", "", "", FALSE, 0, FALSE, FALSE)
        /\ UNCHANGED <<rec, reconf, streak, tainted, must, may>>

(* pruneLoginAttempts: forget records that are not locked and whose last failure is >= 2 lockout periods old *)
Stale(u) == /\ rec[u].on
            /\ clock >= rec[u].until
            /\ clock - rec[u].last >= 2 * EffLock(cfg.lockout)
Prune == /\ cfg' = cfg
         /\ rec' = [u \in User |-> IF Stale(u) THEN NoRec ELSE rec[u]]
         (* the design forgets old failures: the statement's streak restarts with it (DESIGN App. C reading) *)
         /\ streak' = [u \in User |-> IF Stale(u) THEN 0 ELSE streak[u]]
         /\ tainted' = [u \in User |-> IF Stale(u) THEN FALSE ELSE tainted[u]]
         /\ must' = [u \in User |-> IF Stale(u) THEN 0 ELSE must[u]]
         /\ may' = [u \in User |-> IF Stale(u) THEN 0 ELSE may[u]]
         /\ Obs("Prune", "", "", "", FALSE, Cardinality({u \in User : Stale(u)}), FALSE, FALSE)
         /\ UNCHANGED <<clock, reconf>>

(* an administrator changes the settings; the statement is silent about histories that span a  *)
(* change, so running streaks are marked and owe no mandatory refusal (refusals stay bounded   *)
(* by "may")                                                                                  *)
Configure(l, d) ==
  /\ reconf < MaxReconf
  /\ <<l, d>> # <<cfg.limit, cfg.lockout>>
  /\ cfg' = [limit |-> l, lockout |-> d]
  /\ reconf' = reconf + 1
  /\ tainted' = [u \in User |-> streak[u] > 0]
  /\ must' = [u \in User |-> 0]
  /\ Obs("Configure", "", "", "", FALSE, 0, FALSE, FALSE)
  /\ UNCHANGED <<rec, clock, streak, may>>

Pw == {"right", "wrong"}

Api == \/ \E u \in User, pw \in Pw : Attempt(u, pw)
       \/ Tick
       \/ Prune
       \/ \E l \in Limits, d \in Lockouts : Configure(l, d)

(* the steps that need no passage of time (second front door, see RateLimit_Cover) *)
ApiNoTime == \/ \E u \in User, pw \in Pw : Attempt(u, pw)
             \/ \E l \in Limits, d \in Lockouts : Configure(l, d)

Next == Api
Spec == Init /\ [][Next]_vars

-----------------------------------------------------------------------------
(* C24 *)

TypeOK == /\ clock \in 0..MaxClock
          /\ \A u \in User : /\ rec[u].failures \in 0..MaxStreak
                             /\ streak[u] \in 0..MaxStreak
                             /\ (rec[u].on <=> rec[u].failures > 0)

IsAttempt == last.act = "Attempt"

(* P1 while the lockout period started by reaching the limit runs, every attempt is refused *)
RefusedWhileLocked == (IsAttempt /\ last.must) => last.reply = "refused"

(* P1' ... and nobody is refused otherwise: not before the limit is reached, not after the  *)
(*     period has passed, not after a success                                               *)
RefusedOnlyWhileLocked == (IsAttempt /\ last.reply = "refused") => last.may

(* P2 a refusal happens without checking the password; every other attempt checks it *)
NoCheckWhenRefused == IsAttempt => (last.verified <=> last.reply # "refused")

(* P3 a successful login clears the failure count *)
SuccessClears == (IsAttempt /\ last.reply = "ok") => /\ rec[last.u] = NoRec
                                                     /\ streak[last.u] = 0
CountWithinStreak == \A u \in User : rec[u].failures <= streak[u]

(* P4 attempts against one username never affect another *)
Independent == [][\A v \in User : (last'.act = "Attempt" /\ last'.u # v) =>
                     /\ rec'[v] = rec[v] /\ streak'[v] = streak[v]
                     /\ must'[v] = must[v] /\ may'[v] = may[v]]_vars

(* P5 with the limit set to zero no account is ever locked *)
ZeroNeverLocks == (IsAttempt /\ EffLimit(cfg.limit) = 0) => last.reply # "refused"
ZeroNothingLocked == EffLimit(cfg.limit) = 0 => \A u \in User : ~Locked(u)

(* what the harness projects out of the real package after every step (relative times) *)
Proj == [u \in User |->
           [on |-> rec[u].on, failures |-> rec[u].failures,
            lockedFor |-> IF rec[u].on /\ rec[u].until > clock THEN rec[u].until - clock ELSE 0,
            sinceFail |-> IF rec[u].on THEN clock - rec[u].last ELSE 0]]

(* sanity of the history variables *)
MustWithinMay == \A u \in User : must[u] <= may[u] \/ must[u] = 0
=============================================================================

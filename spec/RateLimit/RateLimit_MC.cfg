SPECIFICATION Spec
CONSTANTS
  User = {"u1", "u2"}
  Limits = {99, 0, 1, 3}
  Lockouts = {99, 1, 3}
  DefaultLimit = 2
  DefaultLockout = 2
  MaxClock = 6
  MaxStreak = 4
  MaxReconf = 1
  Impl = "code"
INVARIANTS TypeOK RefusedWhileLocked RefusedOnlyWhileLocked NoCheckWhenRefused SuccessClears CountWithinStreak ZeroNeverLocks ZeroNothingLocked MustWithinMay
PROPERTIES Independent
CHECK_DEADLOCK FALSE

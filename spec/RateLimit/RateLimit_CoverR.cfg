SPECIFICATION CovSpec
CONSTANTS
  User = {"u1", "u2"}
  Limits = {0, 1, 2}
  Lockouts = {1, 2}
  DefaultLimit = 5
  DefaultLockout = 3
  MaxClock = 4
  MaxStreak = 3
  MaxReconf = 1
  Impl = "code"
INVARIANTS EmitNode
VIEW CovView
CHECK_DEADLOCK FALSE

SPECIFICATION GenSpec
CONSTANTS
  User = {"u1", "u2", "u3"}
  Limits = {98, 99, 0, 1, 2, 3, 4}
  Lockouts = {99, 0, 1, 3}
  DefaultLimit = 5
  DefaultLockout = 3
  MaxClock = 1000
  MaxStreak = 1000
  MaxReconf = 3
  Impl = "code"
  Depth = 40
  MinStreakForRight = 0
INVARIANTS Emit
CHECK_DEADLOCK FALSE

---------------------------- MODULE RateLimit_Gen ----------------------------
(* Behaviour generator (binding R): RateLimit + a history variable printed as *)
(* JSON at the depth bound; TLC -simulate picks the behaviours.               *)
(* MinStreakForRight > 0 only steers the generator towards long failure runs  *)
(* (a right password is tried only once the streak is that long, or while the *)
(* account is refused); every generated behaviour is a behaviour of RateLimit.*)
EXTENDS RateLimit, Json

CONSTANTS Depth, MinStreakForRight
VARIABLE h

GenInit == Init /\ h = <<[call |-> last, st |-> Proj]>>
GenApi  == \/ \E u \in User, pw \in Pw :
                /\ (pw = "right" => (streak[u] >= MinStreakForRight \/ Locked(u)))
                /\ Attempt(u, pw)
           \/ Tick
           \/ Prune
           \/ \E l \in Limits, d \in Lockouts : Configure(l, d)
GenNext == /\ Len(h) < Depth + 1
           /\ GenApi
           /\ h' = Append(h, [call |-> last', st |-> Proj'])
GenSpec == GenInit /\ [][GenNext]_<<vars, h>>

Emit == Len(h) < Depth + 1 \/ PrintT(ToJson(h))
=============================================================================

SPECIFICATION GenSpec
CONSTANTS
  User = {"u1", "u2"}
  Limits = {99, 0, 4, 5, 6}
  Lockouts = {99, 2}
  DefaultLimit = 5
  DefaultLockout = 3
  MaxClock = 14
  MaxStreak = 1000
  MaxReconf = 0
  Impl = "code"
  Depth = 60
  MinStreakForRight = 5
INVARIANTS Emit
CHECK_DEADLOCK FALSE

SPECIFICATION CovSpec
CONSTANTS
  User = {"u1"}
  Limits = {99, 6}
  Lockouts = {99}
  DefaultLimit = 5
  DefaultLockout = 3
  MaxClock = 7
  MaxStreak = 7
  MaxReconf = 1
  Impl = "code"
INVARIANTS EmitNode
VIEW CovView
CHECK_DEADLOCK FALSE

---------------------------- MODULE RateLimit_Edge ----------------------------
(* Sub-tick instants (binding R, "until the lockout period has passed").        *)
(* Same specification, but the clock unit is one MILLISECOND here: lockouts are *)
(* given in ms (900 ms and 1 s included - getLockoutDuration accepts every      *)
(* positive time.ParseDuration value), Tick advances by TickLen ms, and         *)
(*   AdvanceTo(u, off): time passes until the instant  rec[u].until + off       *)
(* for off in Offsets (1 ms / 500 ms / 999 ms before the deadline, 1 ms and     *)
(* 500 ms after it).  Like Tick it changes nothing but the clock, so the        *)
(* statement's invariants are checked on these behaviours too.                  *)
(* The search is breadth-first with the path p outside the VIEW (see            *)
(* RateLimit_Cover); every distinct (state, last step) is printed once.         *)
EXTENDS RateLimit, Json

CONSTANTS TickLen, MaxEdge
VARIABLES p, ne

Offsets == {-999, -500, -1, 1, 500}

AdvanceTo(u, off) ==
  /\ ne < MaxEdge
  /\ rec[u].on /\ rec[u].until > 0
  /\ rec[u].until + off > clock
  /\ rec[u].until + off <= MaxClock
  /\ clock' = rec[u].until + off
  /\ cfg' = cfg
  /\ ne' = ne + 1
  /\ Obs("AdvanceTo", u, "", "", FALSE, off, FALSE, FALSE)
  /\ UNCHANGED <<rec, reconf, streak, tainted, must, may>>

TickE == /\ clock + TickLen <= MaxClock
         /\ clock' = clock + TickLen
         /\ cfg' = cfg
         /\ Obs("Tick", "", "", "", FALSE, TickLen, FALSE, FALSE)
         /\ UNCHANGED <<rec, reconf, streak, tainted, must, may>>

EdgeApi == \/ \E u \in User, pw \in Pw : Attempt(u, pw) /\ ne' = ne
           \/ TickE /\ ne' = ne
           \/ Prune /\ ne' = ne
           \/ \E l \in Limits, d \in Lockouts : Configure(l, d) /\ ne' = ne
           \/ \E u \in User, off \in Offsets : AdvanceTo(u, off)

(* relative times are not compared at millisecond resolution: only whether the deadline is still ahead *)
ProjE == [u \in User |-> [on |-> rec[u].on, failures |-> rec[u].failures,
                          locked |-> rec[u].on /\ clock < rec[u].until]]

TokE(c) == CASE c.act = "Attempt" -> "A" \o c.u \o (IF c.pw = "right" THEN "r" ELSE "w")
             [] c.act = "Tick" -> "T"
             [] c.act = "Prune" -> "P"
             [] c.act = "AdvanceTo" -> "V" \o c.u \o ToString(c.retry)
             [] c.act = "Configure" -> "C" \o ToString(c.l) \o "," \o ToString(c.d)
             [] OTHER -> "I" \o ToString(c.l) \o "," \o ToString(c.d)

EdgeInit == Init /\ ne = 0 /\ p = <<TokE(last)>>
EdgeNext == EdgeApi /\ p' = Append(p, TokE(last'))
EdgeSpec == EdgeInit /\ [][EdgeNext]_<<vars, ne, p>>
EdgeView == <<vars, ne>>

(* a refusal carries Retry-After in whole seconds: the remaining time rounded up *)
CallE == IF last.act = "Attempt" /\ last.reply = "refused"
           THEN [last EXCEPT !.retry = (@ + 999) \div 1000] ELSE last
EmitEdge == PrintT(ToJson([id |-> p, call |-> CallE, st |-> ProjE]))
=============================================================================

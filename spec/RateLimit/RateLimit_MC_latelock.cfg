SPECIFICATION Spec
CONSTANTS
  User = {"u1", "u2"}
  Limits = {0, 1, 2}
  Lockouts = {1, 2}
  DefaultLimit = 2
  DefaultLockout = 2
  MaxClock = 4
  MaxStreak = 3
  MaxReconf = 1
  Impl = "latelock"
INVARIANTS RefusedWhileLocked
CHECK_DEADLOCK FALSE

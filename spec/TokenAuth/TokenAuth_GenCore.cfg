SPECIFICATION GenSpec
CONSTANTS
  Tok = {"t1", "t2"}
  Req = {"r1", "r2"}
  Kinds = {"long"}
  Forms = {"exact"}
  Vias = {"validate"}
  AdminOps = {"blacklist", "delete", "flush"}
  MaxStarts = 5
  MaxAdmin = 3
  MaxCacheOps = 2
  MaxTick = 0
  Impl = "fixed"
  Depth = 14
  Focus = "any"
INVARIANTS Emit
CHECK_DEADLOCK FALSE

SPECIFICATION GenSpec
CONSTANTS
  Tok = {"t1"}
  Req = {"r1", "r2"}
  Kinds = {"long", "neg", "foreign"}
  Forms = {"exact", "mut"}
  Vias = {"validate", "extract"}
  AdminOps = {"blacklist"}
  MaxStarts = 5
  MaxAdmin = 1
  MaxCacheOps = 0
  MaxTick = 0
  Impl = "fixed"
  Depth = 8
  Focus = "any"
INVARIANTS Emit
CHECK_DEADLOCK FALSE

---------------------------- MODULE TokenAuth_Gen ----------------------------
(* Behaviour generator for binding R: TokenAuth + a history variable that is   *)
(* printed as JSON at the depth bound.  Every step carries the reply the code  *)
(* must give (the gate the goroutine lands on / the outcome) and the projected *)
(* state (TokenCache keys, BlacklistCache entries, revocation table) that the  *)
(* real caches and table must show after the step.                            *)
(* Focus selects which behaviours are printed:                                *)
(*   "any"   every behaviour of length Depth                                  *)
(*   "race"  a request fills the TokenCache while its token is on the list    *)
(*           (it was validated before a revocation that has completed since)  *)
(*           and a later request finds that entry                             *)
(*   "tick"  a cached token's lifetime runs out and a later request finds it   *)
(*           in the TokenCache                                                *)
(*   "unrev" a token is revoked, looked up (the BlacklistCache holds an active *)
(*           entry), un-revoked (Delete or Flush) and presented again         *)
(*   "revcached" a token sitting in the TokenCache is revoked, then presented  *)
(*   "hits"  at least two requests find their token in the TokenCache         *)
EXTENDS TokenAuth, Json

CONSTANTS Depth, Focus
VARIABLE h

Proj == [tcache |-> tcache,
         bcache |-> [t \in {x \in Tok : bcache[x] # "none"} |-> bcache[t]],
         db     |-> db]

GenInit == Init /\ h = <<>>
GenNext == /\ Len(h) < Depth
           /\ Next
           /\ h' = Append(h, [call |-> last', st |-> Proj', kind |-> kind])
GenSpec == GenInit /\ [][GenNext]_<<vars, h>>

Idx == 1..Len(h)
Raced == \E i \in Idx : /\ h[i].call.act = "Add" /\ h[i].call.t \in h[i].st.db
                        /\ \E j \in Idx : j > i /\ h[j].call.act = "Hit" /\ h[j].call.t = h[i].call.t
Ticked == \E i \in Idx : /\ h[i].call.act = "Tick"
                         /\ \E j \in Idx : j > i /\ h[j].call.act = "Hit" /\ kind[h[j].call.t] = "short"
Listed(i, t, v) == t \in DOMAIN h[i].st.bcache /\ h[i].st.bcache[t] = v
Unrevoked == \E i \in Idx : /\ h[i].call.act = "BlPurgeTok"
                            /\ \E j \in Idx : /\ j > i /\ h[j].call.act \in {"DelCache", "FlDB"}
                                              /\ \E m \in Idx : i < m /\ m < j /\ Listed(m, h[i].call.t, "active")
                                              /\ \E k \in Idx : /\ k > j /\ h[k].call.t = h[i].call.t
                                                                /\ h[k].call.act \in {"Add", "Hit", "validate", "extract"}
RevCached == \E i \in Idx : /\ i > 1 /\ h[i].call.act = "BlPurgeTok" /\ h[i].call.t \in h[i-1].st.tcache
                            /\ \E k \in Idx : k > i /\ h[k].call.act = "Find" /\ h[k].call.t = h[i].call.t
ManyHits == Cardinality({i \in Idx : h[i].call.act = "Hit"}) >= 2
Wanted == CASE Focus = "any"   -> TRUE
            [] Focus = "hits"  -> ManyHits
            [] Focus = "revcached" -> RevCached
            [] Focus = "race"  -> Raced
            [] Focus = "tick"  -> Ticked
            [] Focus = "unrev" -> Unrevoked

Emit == Len(h) < Depth \/ ~Wanted \/ PrintT(ToJson(h))
=============================================================================

SPECIFICATION GenSpec
CONSTANTS
  Tok = {"t1"}
  Req = {"r1", "r2"}
  Kinds = {"long"}
  Forms = {"exact"}
  Vias = {"validate"}
  AdminOps = {"blacklist", "delete", "flush"}
  MaxStarts = 4
  MaxAdmin = 2
  MaxCacheOps = 1
  MaxTick = 0
  Impl = "fixed"
  Depth = 12
  Focus = "hits"
INVARIANTS Emit
CHECK_DEADLOCK FALSE

SPECIFICATION GenSpec
CONSTANTS
  Tok = {"t1"}
  Req = {"r1", "r2"}
  Kinds = {"long"}
  Forms = {"exact"}
  Vias = {"validate"}
  AdminOps = {"blacklist", "delete"}
  MaxStarts = 3
  MaxAdmin = 3
  MaxCacheOps = 0
  MaxTick = 0
  Impl = "fixed"
  Depth = 10
  Focus = "unrev"
INVARIANTS Emit
CHECK_DEADLOCK FALSE

------------------------------ MODULE TokenAuth ------------------------------
(* Code-shaped specification of native bearer-token acceptance in tucats/ego  *)
(* (property C21).  One action per critical section / linearization point:     *)
(*                                                                            *)
(*  router.Session.Authenticate (a request r presenting token t):             *)
(*    Find(r)    caches.Find(TokenCache, token)            [cacheLock]        *)
(*    Hit(r)     the decision on a cache hit               [see Impl]         *)
(*    Unwrap(r)  tokens.Unwrap: decrypt, expiry, IsBlacklisted [tokens.mutex] *)
(*    Add(r)     caches.Add(TokenCache, token, tok)        [cacheLock]        *)
(*  cipher.Validate / cipher.Extract: Call(r) = decrypt, expiry, IsBlacklisted *)
(*  tokens.Blacklist : BlInsert ; BlPurgeBL ; BlPurgeTok   (mutex held across) *)
(*  tokens.Delete    : DelDB ; DelCache                    (mutex held across) *)
(*  tokens.Flush     : FlPurge ; FlDB                      (mutex held across) *)
(*  admin cache purge: PurgeTok, PurgeBL  (no mutex)                          *)
(*  cache expiry     : ExpireTok(t), ExpireBL(t): the entry's lifetime ran out *)
(*                     and the sweeper removed it (abstraction of Caches!Sweep:*)
(*                     any entry may be dead, time is unconstrained here)      *)
(*  Tick             : the lifetime of every "short" token runs out            *)
(*                                                                            *)
(* tokens.mutex is modelled by adm.op: it is held from the first to the last   *)
(* step of an administrative operation; IsBlacklisted (inside Unwrap / Call /  *)
(* the fixed Hit) is one atomic step that needs the mutex free.                *)
(*                                                                            *)
(* Impl = "asis"  : a TokenCache hit is accepted after the expiry test only    *)
(*                  (the revocation list is not consulted on the hit path)     *)
(* Impl = "fixed" : a TokenCache hit of an unexpired token also asks           *)
(*                  IsBlacklisted; a revoked entry is evicted like an expired  *)
(*                  one and the request falls through to Unwrap                *)
EXTENDS Integers, FiniteSets, Sequences, TLC

CONSTANTS Tok,         \* token names (strings)
          Req,         \* request slots = number of requests in flight at once
          Kinds,       \* subset of {"long","short","neg","foreign"}
          Forms,       \* subset of {"exact","mut"}: the string presented is the token / a one-byte mutation of it
          Vias,        \* subset of {"validate","extract"}: single-step entry points offered besides the router
          AdminOps,    \* subset of {"blacklist","delete","flush"}
          MaxStarts, MaxAdmin, MaxCacheOps, MaxTick,
          Impl

VARIABLES kind,     \* [Tok -> Kinds]   how the token was issued: long lifetime / lifetime that ends at Tick /
                    \*                  negative lifetime / issued under another server's key
          clock,    \* 0..MaxTick
          db,       \* the revocation table: set of token ids (one id per token)
          tcache,   \* TokenCache: the tokens whose exact string is a key
          bcache,   \* BlacklistCache: [Tok -> "none" | "active" | "inactive"]
          req,      \* [Req -> [pc, t, form, via, res]]
          adm,      \* the administrative operation holding tokens.mutex: [op, t, pc, before]
          ghost,    \* [Req -> [acc, rej]] history: outcomes the statement allows for the request so far
          cnt,      \* [starts, admins, cacheops] bounds
          last      \* observation: the last step and what the code did (reply)

vars == <<kind, clock, db, tcache, bcache, req, adm, ghost, cnt, last>>

NoAdm  == [op |-> "none", t |-> "", pc |-> "", before |-> {}]
Idle   == [pc |-> "idle", t |-> "", form |-> "", via |-> "", res |-> ""]
NoBL   == [t \in Tok |-> "none"]

MutexFree == adm.op = "none"
Expired(t) == kind[t] = "neg" \/ (kind[t] = "short" /\ clock >= 1)
Genuine(t, f) == f = "exact" /\ kind[t] # "foreign"

(* tokens.IsBlacklisted, one critical section under tokens.mutex:             *)
(* BlacklistCache hit (positive or negative) answers; otherwise the table is   *)
(* read and the answer is cached                                              *)
BLResult(t) == IF bcache[t] # "none" THEN bcache[t] = "active" ELSE t \in db
BLAfter(t)  == IF bcache[t] # "none" THEN bcache
               ELSE [bcache EXCEPT ![t] = IF t \in db THEN "active" ELSE "inactive"]

-----------------------------------------------------------------------------
(* What the statement of C21 allows.  A request occupies a span of time; the  *)
(* statement fixes the outcome by the facts "at the time of the request".     *)
(* An outcome is allowed if it is the right one at SOME instant of the span,  *)
(* where an administrative operation in progress may count as not yet or     *)
(* already effective (its effect happens somewhere between call and return).  *)
CanAccIn(t, f, d, c, a) ==
    /\ f = "exact" /\ kind[t] \notin {"foreign", "neg"} /\ ~(kind[t] = "short" /\ c >= 1)
    /\ (t \notin d \/ (a.op # "none" /\ t \notin a.before))
CanRejIn(t, f, d, c, a) ==
    \/ f # "exact" \/ kind[t] \in {"foreign", "neg"} \/ (kind[t] = "short" /\ c >= 1)
    \/ t \in d \/ (a.op # "none" /\ t \in a.before)

(* ghost bookkeeping, conjoined to every step: a request in flight (or the one *)
(* that just took its first or last step) accumulates the outcomes allowed in  *)
(* the new state                                                              *)
Started(r) == last'.p = r /\ last'.act \in {"Find"} \cup Vias
Track ==
  ghost' = [r \in Req |->
     LET allowed == [acc |-> CanAccIn(req'[r].t, req'[r].form, db', clock', adm'),
                     rej |-> CanRejIn(req'[r].t, req'[r].form, db', clock', adm')]
     IN  IF Started(r) THEN allowed
         ELSE IF req[r].pc \in {"idle", "done"} THEN ghost[r]
         ELSE [acc |-> ghost[r].acc \/ allowed.acc, rej |-> ghost[r].rej \/ allowed.rej]]

Obs(a, p, t, f, reply) == last' = [act |-> a, p |-> p, t |-> t, form |-> f, reply |-> reply]

Init == /\ kind \in [Tok -> Kinds]
        /\ clock = 0 /\ db = {} /\ tcache = {} /\ bcache = NoBL
        /\ req = [r \in Req |-> Idle] /\ adm = NoAdm
        /\ ghost = [r \in Req |-> [acc |-> FALSE, rej |-> FALSE]]
        /\ cnt = [starts |-> 0, admins |-> 0, cacheops |-> 0]
        /\ last = [act |-> "Init", p |-> "", t |-> "", form |-> "", reply |-> ""]

-----------------------------------------------------------------------------
(* requests through the router *)

Free(r) == req[r].pc \in {"idle", "done"}

Find(r, t, f) ==
  /\ Free(r) /\ cnt.starts < MaxStarts
  /\ cnt' = [cnt EXCEPT !.starts = @ + 1]
  /\ IF f = "exact" /\ t \in tcache
       THEN /\ req' = [req EXCEPT ![r] = [pc |-> "found", t |-> t, form |-> f, via |-> "router", res |-> ""]]
            /\ Obs("Find", r, t, f, "auth.cacheFound")
       ELSE /\ req' = [req EXCEPT ![r] = [pc |-> "unwrap", t |-> t, form |-> f, via |-> "router", res |-> ""]]
            /\ Obs("Find", r, t, f, "auth.beforeUnwrap")
  /\ UNCHANGED <<kind, clock, db, tcache, bcache, adm>>

Finish(r, res) == req' = [req EXCEPT ![r].pc = "done", ![r].res = res]

Hit(r) ==
  LET t == req[r].t IN
  /\ req[r].pc = "found"
  /\ IF Expired(t)
       THEN /\ tcache' = tcache \ {t}                        \* caches.Delete(TokenCache, token)
            /\ req' = [req EXCEPT ![r].pc = "unwrap"]
            /\ Obs("Hit", r, t, req[r].form, "auth.beforeUnwrap")
            /\ UNCHANGED bcache
       ELSE IF Impl = "asis"
       THEN /\ Finish(r, "accept")
            /\ Obs("Hit", r, t, req[r].form, "accept")
            /\ UNCHANGED <<tcache, bcache>>
       ELSE /\ MutexFree                                      \* tokens.IsBlacklisted(*tok)
            /\ bcache' = BLAfter(t)
            /\ IF BLResult(t)
                 THEN /\ tcache' = tcache \ {t}
                      /\ req' = [req EXCEPT ![r].pc = "unwrap"]
                      /\ Obs("Hit", r, t, req[r].form, "auth.beforeUnwrap")
                 ELSE /\ Finish(r, "accept")
                      /\ Obs("Hit", r, t, req[r].form, "accept")
                      /\ UNCHANGED tcache
  /\ UNCHANGED <<kind, clock, db, adm, cnt>>

(* decrypt + expiry test + IsBlacklisted; the first two touch no shared state  *)
Checked(t, f) ==   \* <<result, BlacklistCache afterwards>>
  IF ~Genuine(t, f) \/ Expired(t) THEN <<"reject", bcache>>
  ELSE IF BLResult(t) THEN <<"reject", BLAfter(t)>> ELSE <<"ok", BLAfter(t)>>
NeedsMutex(t, f) == Genuine(t, f) /\ ~Expired(t)

Unwrap(r) ==
  LET t == req[r].t  f == req[r].form  c == Checked(t, f) IN
  /\ req[r].pc = "unwrap"
  /\ NeedsMutex(t, f) => MutexFree
  /\ bcache' = c[2]
  /\ IF c[1] = "ok"
       THEN /\ req' = [req EXCEPT ![r].pc = "add"]
            /\ Obs("Unwrap", r, t, f, "auth.beforeTokenCacheAdd")
       ELSE /\ Finish(r, "reject")
            /\ Obs("Unwrap", r, t, f, "reject")
  /\ UNCHANGED <<kind, clock, db, tcache, adm, cnt>>

Add(r) ==
  /\ req[r].pc = "add"
  /\ tcache' = tcache \cup {req[r].t}
  /\ Finish(r, "accept")
  /\ Obs("Add", r, req[r].t, req[r].form, "accept")
  /\ UNCHANGED <<kind, clock, db, bcache, adm, cnt>>

(* cipher.Validate(token) / cipher.Extract(token): one step *)
Call(r, t, f, via) ==
  LET c == Checked(t, f) IN
  /\ Free(r) /\ cnt.starts < MaxStarts
  /\ NeedsMutex(t, f) => MutexFree
  /\ cnt' = [cnt EXCEPT !.starts = @ + 1]
  /\ bcache' = c[2]
  /\ req' = [req EXCEPT ![r] = [pc |-> "done", t |-> t, form |-> f, via |-> via,
                                res |-> IF c[1] = "ok" THEN "accept" ELSE "reject"]]
  /\ Obs(via, r, t, f, IF c[1] = "ok" THEN "accept" ELSE "reject")
  /\ UNCHANGED <<kind, clock, db, tcache, adm>>

-----------------------------------------------------------------------------
(* administrative operations (tokens.mutex held from first to last step) *)

Begin(op) == op \in AdminOps /\ MutexFree /\ cnt.admins < MaxAdmin /\ cnt' = [cnt EXCEPT !.admins = @ + 1]

(* the table has a unique key on the id: revoking a listed id again fails in   *)
(* handle.Insert and Blacklist returns the error before it purges anything     *)
BlInsert(t) ==
  /\ Begin("blacklist")
  /\ IF t \in db
       THEN /\ UNCHANGED <<db, adm>>
            /\ Obs("BlInsert", "adm", t, "", "error")
       ELSE /\ db' = db \cup {t}
            /\ adm' = [op |-> "blacklist", t |-> t, pc |-> "inserted", before |-> db]
            /\ Obs("BlInsert", "adm", t, "", "blacklist.inserted")
  /\ UNCHANGED <<kind, clock, tcache, bcache, req>>

BlPurgeBL ==
  /\ adm.op = "blacklist" /\ adm.pc = "inserted"
  /\ bcache' = NoBL
  /\ adm' = [adm EXCEPT !.pc = "purgedBL"]
  /\ Obs("BlPurgeBL", "adm", adm.t, "", "blacklist.purgedBlacklistCache")
  /\ UNCHANGED <<kind, clock, db, tcache, req, cnt>>

BlPurgeTok ==
  /\ adm.op = "blacklist" /\ adm.pc = "purgedBL"
  /\ tcache' = {}
  /\ adm' = NoAdm
  /\ Obs("BlPurgeTok", "adm", adm.t, "", "ok")
  /\ UNCHANGED <<kind, clock, db, bcache, req, cnt>>

DelDB(t) ==
  /\ Begin("delete")
  /\ IF t \in db
       THEN /\ db' = db \ {t}
            /\ adm' = [op |-> "delete", t |-> t, pc |-> "deleted", before |-> db]
            /\ Obs("DelDB", "adm", t, "", "delete.deleted")
       ELSE /\ UNCHANGED <<db, adm>>
            /\ Obs("DelDB", "adm", t, "", "notfound")
  /\ UNCHANGED <<kind, clock, tcache, bcache, req>>

DelCache ==
  /\ adm.op = "delete"
  /\ bcache' = [bcache EXCEPT ![adm.t] = "none"]
  /\ adm' = NoAdm
  /\ Obs("DelCache", "adm", adm.t, "", "ok")
  /\ UNCHANGED <<kind, clock, db, tcache, req, cnt>>

FlPurge ==
  /\ Begin("flush")
  /\ bcache' = NoBL
  /\ adm' = [op |-> "flush", t |-> "", pc |-> "purged", before |-> db]
  /\ Obs("FlPurge", "adm", "", "", "flush.purged")
  /\ UNCHANGED <<kind, clock, db, tcache, req>>

FlDB ==
  /\ adm.op = "flush"
  /\ db' = {}
  /\ adm' = NoAdm
  /\ Obs("FlDB", "adm", "", "", ToString(Cardinality(db)))
  /\ UNCHANGED <<kind, clock, bcache, tcache, req, cnt>>

-----------------------------------------------------------------------------
(* caches emptied from outside, entries expiring, time passing *)

CacheOp == cnt.cacheops < MaxCacheOps /\ cnt' = [cnt EXCEPT !.cacheops = @ + 1]

PurgeTok == /\ CacheOp /\ tcache' = {}
            /\ Obs("PurgeTok", "", "", "", "")
            /\ UNCHANGED <<kind, clock, db, bcache, req, adm>>
PurgeBL  == /\ CacheOp /\ bcache' = NoBL
            /\ Obs("PurgeBL", "", "", "", "")
            /\ UNCHANGED <<kind, clock, db, tcache, req, adm>>
ExpireTok(t) == /\ CacheOp /\ t \in tcache /\ tcache' = tcache \ {t}
                /\ Obs("ExpireTok", "", t, "", "true")
                /\ UNCHANGED <<kind, clock, db, bcache, req, adm>>
ExpireBL(t)  == /\ CacheOp /\ bcache[t] # "none" /\ bcache' = [bcache EXCEPT ![t] = "none"]
                /\ Obs("ExpireBL", "", t, "", "true")
                /\ UNCHANGED <<kind, clock, db, tcache, req, adm>>

Tick == /\ clock < MaxTick /\ clock' = clock + 1
        /\ \E t \in Tok : kind[t] = "short"          \* otherwise nothing changes
        /\ Obs("Tick", "", "", "", "")
        /\ UNCHANGED <<kind, db, tcache, bcache, req, adm, cnt>>

Step == \/ \E r \in Req, t \in Tok, f \in Forms : Find(r, t, f)
        \/ \E r \in Req, t \in Tok, f \in Forms, v \in Vias : Call(r, t, f, v)
        \/ \E r \in Req : Hit(r) \/ Unwrap(r) \/ Add(r)
        \/ \E t \in Tok : BlInsert(t) \/ DelDB(t) \/ ExpireTok(t) \/ ExpireBL(t)
        \/ BlPurgeBL \/ BlPurgeTok \/ DelCache \/ FlPurge \/ FlDB
        \/ PurgeTok \/ PurgeBL \/ Tick

Next == Step /\ Track
Spec == Init /\ [][Next]_vars

-----------------------------------------------------------------------------
TypeOK == /\ db \subseteq Tok /\ tcache \subseteq Tok
          /\ \A t \in Tok : bcache[t] \in {"none", "active", "inactive"}
          /\ \A r \in Req : req[r].pc \in {"idle", "found", "unwrap", "add", "done"}
          /\ adm.op \in {"none", "blacklist", "delete", "flush"}

(* C21: every completed request got an outcome the statement allows *)
Honoured == \A r \in Req : req[r].pc = "done" =>
               /\ req[r].res = "accept" => ghost[r].acc
               /\ req[r].res = "reject" => ghost[r].rej

(* supporting design invariants *)
(* outside administrative operations the BlacklistCache agrees with the table *)
BLConsistent == MutexFree => \A t \in Tok : bcache[t] # "none" => (bcache[t] = "active") <=> (t \in db)
(* only genuine tokens ever get into the TokenCache *)
TokCacheGenuine == \A t \in tcache : kind[t] \notin {"foreign", "neg"}

(* the bookkeeping is total: some outcome is always allowed *)
GhostTotal == \A r \in Req : req[r].pc # "idle" => ghost[r].acc \/ ghost[r].rej

View == <<kind, clock, db, tcache, bcache, req, adm, ghost, cnt>>
=============================================================================

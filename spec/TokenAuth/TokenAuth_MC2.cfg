SPECIFICATION Spec
CONSTANTS
  Tok = {"t1", "t2"}
  Req = {"r1", "r2"}
  Kinds = {"long", "short"}
  Forms = {"exact"}
  Vias = {"validate"}
  AdminOps = {"blacklist", "delete", "flush"}
  MaxStarts = 3
  MaxAdmin = 2
  MaxCacheOps = 1
  MaxTick = 1
  Impl = "fixed"
INVARIANTS TypeOK Honoured BLConsistent TokCacheGenuine GhostTotal
VIEW View
CHECK_DEADLOCK FALSE

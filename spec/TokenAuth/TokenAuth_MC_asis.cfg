SPECIFICATION Spec
CONSTANTS
  Tok = {"t1"}
  Req = {"r1", "r2"}
  Kinds = {"long"}
  Forms = {"exact"}
  Vias = {"validate"}
  AdminOps = {"blacklist", "delete", "flush"}
  MaxStarts = 2
  MaxAdmin = 1
  MaxCacheOps = 0
  MaxTick = 0
  Impl = "asis"
INVARIANTS TypeOK Honoured BLConsistent TokCacheGenuine GhostTotal
VIEW View
CHECK_DEADLOCK FALSE

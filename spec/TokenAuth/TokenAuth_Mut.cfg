SPECIFICATION Spec
INVARIANTS Report
CHECK_DEADLOCK FALSE

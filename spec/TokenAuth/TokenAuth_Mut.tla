---------------------------- MODULE TokenAuth_Mut ----------------------------
(* Contract (binding F) for the "has not been altered" clause of C21.         *)
(* io.ndjson holds one record per single-byte mutation of a genuine, valid,   *)
(* unrevoked token string that the harness presented to the router,           *)
(* cipher.Validate and cipher.Extract while the genuine token was cached:     *)
(*   [i, n, orig, repl, router, validate, extract, cached]                    *)
(* The token string is the hexadecimal text of                                *)
(*   magic(4) salt(16) nonce(12) ciphertext tag(16)                           *)
(* Reading of "altered": the bytes the string denotes differ.  Replacing a    *)
(* hexadecimal digit by the same digit in the other case denotes the same     *)
(* bytes; the statement does not say whether that is an alteration, so both   *)
(* outcomes are allowed there.  Every other mutation must be rejected at all  *)
(* three entry points and must not become a TokenCache key.                   *)
EXTENDS Integers, Sequences, FiniteSets, TLC, Json

Log == ndJsonDeserialize("io.ndjson")

VARIABLES i, bad, notwf

Lower == <<"0", "1", "2", "3", "4", "5", "6", "7", "8", "9", "a", "b", "c", "d", "e", "f">>
Upper == <<"0", "1", "2", "3", "4", "5", "6", "7", "8", "9", "A", "B", "C", "D", "E", "F">>
Val(c) == IF \E k \in 1..16 : Lower[k] = c THEN CHOOSE k \in 1..16 : Lower[k] = c
          ELSE IF \E k \in 1..16 : Upper[k] = c THEN CHOOSE k \in 1..16 : Upper[k] = c
          ELSE 0                                   \* not a hexadecimal digit

(* domain: a real one-character mutation of a position of a hexadecimal string *)
WF(e) == /\ e.i \in 1..e.n /\ e.n >= 2 * (4 + 16 + 12 + 16) /\ e.n % 2 = 0
         /\ e.orig # e.repl /\ Val(e.orig) # 0

SameBytes(e) == Val(e.repl) # 0 /\ Val(e.repl) = Val(e.orig)

Post(e) == SameBytes(e) \/ (~e.router /\ ~e.validate /\ ~e.extract /\ ~e.cached)

Region(e) == LET b == (e.i - 1) \div 2  nb == e.n \div 2 IN
             IF b < 4 THEN "magic" ELSE IF b < 20 THEN "salt" ELSE IF b < 32 THEN "nonce"
             ELSE IF b >= nb - 16 THEN "tag" ELSE "ciphertext"
Key(e) == "altered/" \o Region(e) \o "/" \o (IF Val(e.repl) # 0 THEN "hexdigit" ELSE "nonhex") \o "/accepted-by"
          \o (IF e.router THEN "+router" ELSE "") \o (IF e.validate THEN "+validate" ELSE "")
          \o (IF e.extract THEN "+extract" ELSE "") \o (IF e.cached THEN "+cached" ELSE "")

Init == i = 1 /\ bad = {} /\ notwf = 0
Next == /\ i <= Len(Log)
        /\ i' = i + 1
        /\ notwf' = IF WF(Log[i]) THEN notwf ELSE notwf + 1
        /\ bad' = IF WF(Log[i]) /\ ~Post(Log[i]) THEN bad \cup {[idx |-> i, key |-> Key(Log[i])]} ELSE bad
Spec == Init /\ [][Next]_<<i, bad, notwf>>

Report == i <= Len(Log) \/ PrintT(ToJson([n |-> Len(Log), bad |-> bad, notwf |-> notwf]))
=============================================================================

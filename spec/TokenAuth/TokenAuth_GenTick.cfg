SPECIFICATION GenSpec
CONSTANTS
  Tok = {"t1"}
  Req = {"r1", "r2"}
  Kinds = {"short"}
  Forms = {"exact"}
  Vias = {"validate"}
  AdminOps = {"blacklist"}
  MaxStarts = 3
  MaxAdmin = 1
  MaxCacheOps = 0
  MaxTick = 1
  Impl = "fixed"
  Depth = 7
  Focus = "tick"
INVARIANTS Emit
CHECK_DEADLOCK FALSE

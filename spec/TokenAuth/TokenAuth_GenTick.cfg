SPECIFICATION GenSpec
CONSTANTS
  Tok = {"t1"}
  Req = {"r1", "r2"}
  Kinds = {"short"}
  Forms = {"exact"}
  Vias = {"validate"}
  AdminOps = {}
  MaxStarts = 3
  MaxAdmin = 0
  MaxCacheOps = 0
  MaxTick = 1
  Impl = "fixed"
  Depth = 8
  Focus = "tick"
INVARIANTS Emit
CHECK_DEADLOCK FALSE

SPECIFICATION GenSpec
CONSTANTS
  Tok = {"t1"}
  Req = {"r1", "r2"}
  Kinds = {"long"}
  Forms = {"exact"}
  Vias = {"validate"}
  AdminOps = {"blacklist"}
  MaxStarts = 3
  MaxAdmin = 1
  MaxCacheOps = 0
  MaxTick = 0
  Impl = "fixed"
  Depth = 10
  Focus = "revcached"
INVARIANTS Emit
CHECK_DEADLOCK FALSE

SPECIFICATION Spec
CONSTANTS
  Tok = {"t1"}
  Req = {"r1", "r2"}
  Kinds = {"long", "short", "neg", "foreign"}
  Forms = {"exact", "mut"}
  Vias = {"validate", "extract"}
  AdminOps = {"blacklist", "delete", "flush"}
  MaxStarts = 4
  MaxAdmin = 2
  MaxCacheOps = 2
  MaxTick = 1
  Impl = "fixed"
INVARIANTS TypeOK Honoured BLConsistent TokCacheGenuine GhostTotal
VIEW View
CHECK_DEADLOCK FALSE

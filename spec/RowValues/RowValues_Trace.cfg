SPECIFICATION TSpec
CONSTANTS
  Tier = "thorough"
INVARIANTS Report
CHECK_DEADLOCK FALSE

---------------------------- MODULE RowValueDefs ----------------------------
(* C18 - row values survive a REST round trip.                               *)
(*                                                                           *)
(* Pure definitions shared by the model (RowValues), the cell generator      *)
(* (RowValues_Gen) and the contract that judges logged I/O of the real       *)
(* server (RowValues_Trace):                                                 *)
(*   - the abstract value alphabet (what a JSON value of a row denotes),     *)
(*   - the table  column type -> kind, domain ("every value that type can    *)
(*     hold") and the boundary classes of each domain,                       *)
(*   - Same(kind, in, out): "read back as the same value of the column's     *)
(*     documented type",                                                     *)
(*   - WF / Post / Key for the F binding.                                    *)
(*                                                                           *)
(* Abstract values (records tagged by k):                                    *)
(*   [k |-> "null"]                                                          *)
(*   [k |-> "int",  neg, d]        integer, d = decimal digits (big-endian,  *)
(*                                 no leading zeros, zero = <<0>>)           *)
(*   [k |-> "num",  neg, d, e]     d1.d2d3... * 10^e, no trailing zeros      *)
(*   [k |-> "str",  cp]            sequence of Unicode code points           *)
(*   [k |-> "bool", b]                                                       *)
(*   [k |-> "ts", y, mo, dd, h, mi, s, ns, off]  civil time + offset (min)   *)
(*   [k |-> "other"]               anything the projection cannot name       *)
(* TLC integers are 32 bit: 64-bit integers and doubles are digit sequences. *)
EXTENDS Integers, Sequences, FiniteSets, TLC

CONSTANT Tier        \* "quick": a sub-grid of the time cells; "thorough": the full grid
ASSUME Tier \in {"quick", "thorough"}

(* ------------------------------------------------------------------------ *)
(* decimal digit sequences                                                   *)
Rev(s) == [i \in 1..Len(s) |-> s[Len(s) + 1 - i]]

RECURSIVE StripLead(_)
StripLead(s) == IF Len(s) > 1 /\ Head(s) = 0 THEN StripLead(Tail(s)) ELSE s

RECURSIVE StripTrail(_)
StripTrail(s) == IF Len(s) > 1 /\ s[Len(s)] = 0 THEN StripTrail(SubSeq(s, 1, Len(s) - 1)) ELSE s

RECURSIVE Digits(_)
Digits(n) == IF n < 10 THEN <<n>> ELSE Digits(n \div 10) \o <<n % 10>>

RECURSIVE DblR(_, _)   \* little-endian doubling with carry
DblR(s, c) == IF s = <<>> THEN (IF c = 0 THEN <<>> ELSE <<c>>)
              ELSE LET x == 2 * Head(s) + c IN <<x % 10>> \o DblR(Tail(s), x \div 10)
Dbl(d) == Rev(DblR(Rev(d), 0))

RECURSIVE MulR(_, _, _)   \* little-endian multiplication by a small natural m (m < 10^8)
MulR(s, m, c) == IF s = <<>> THEN (IF c = 0 THEN <<>> ELSE Rev(Digits(c)))
                 ELSE LET x == m * Head(s) + c IN <<x % 10>> \o MulR(Tail(s), m, x \div 10)
MulSmall(d, m) == Rev(MulR(Rev(d), m, 0))

RECURSIVE IncR(_)
IncR(s) == IF s = <<>> THEN <<1>>
           ELSE IF Head(s) < 9 THEN <<Head(s) + 1>> \o Tail(s) ELSE <<0>> \o IncR(Tail(s))
Inc(d) == Rev(IncR(Rev(d)))

RECURSIVE DecR(_)      \* argument > 0
DecR(s) == IF Head(s) > 0 THEN <<Head(s) - 1>> \o Tail(s) ELSE <<9>> \o DecR(Tail(s))
Dec(d) == StripLead(Rev(DecR(Rev(d))))

RECURSIVE LexLeq(_, _)  \* equal lengths
LexLeq(a, b) == IF a = <<>> THEN TRUE
                ELSE IF Head(a) # Head(b) THEN Head(a) < Head(b) ELSE LexLeq(Tail(a), Tail(b))
MagLeq(a, b) == Len(a) < Len(b) \/ (Len(a) = Len(b) /\ LexLeq(a, b))

IsDigitSeq(d) == /\ Len(d) >= 1 /\ \A i \in 1..Len(d) : d[i] \in 0..9
                 /\ (Len(d) > 1 => d[1] # 0)

(* ------------------------------------------------------------------------ *)
(* integers                                                                  *)
IntV(neg, d) == [k |-> "int", neg |-> neg, d |-> d]
I(n) == IF n < 0 THEN IntV(TRUE, Digits(0 - n)) ELSE IntV(FALSE, Digits(n))
IsZeroInt(v) == v.d = <<0>>
IntCanon(v) == IF IsZeroInt(v) THEN IntV(FALSE, <<0>>) ELSE IntV(v.neg, v.d)   \* -0 = 0
IntLeq(a0, b0) ==
    LET a == IntCanon(a0)  b == IntCanon(b0)
    IN IF a.neg /\ ~b.neg THEN TRUE
       ELSE IF ~a.neg /\ b.neg THEN FALSE
       ELSE IF ~a.neg THEN MagLeq(a.d, b.d) ELSE MagLeq(b.d, a.d)
IntMax(a, b) == IF IntLeq(a, b) THEN b ELSE a
IntMin(a, b) == IF IntLeq(a, b) THEN a ELSE b
IsInt(v) == v.k = "int" /\ v.neg \in BOOLEAN /\ IsDigitSeq(v.d)

\* powers of two built by shallow recursion only (TLC evaluates on the Java stack)
Two31 == Inc(Digits(2147483647))
Two32 == Dbl(Two31)
Two53 == MulSmall(Two32, 2097152)
Two62 == MulSmall(Two53, 512)
Two63 == Dbl(Two62)

(* ------------------------------------------------------------------------ *)
(* decimal numbers (the values of the floating point column types are named  *)
(* by their shortest round-trip decimal, which the projection computes)      *)
NumV(neg, d, e) == [k |-> "num", neg |-> neg, d |-> d, e |-> e]
Norm(v) ==           \* one canonical shape for every number; -0 = 0
    IF v.k = "int"
    THEN IF IsZeroInt(v) THEN NumV(FALSE, <<0>>, 0)
         ELSE NumV(v.neg, StripTrail(v.d), Len(v.d) - 1)
    ELSE IF v.d = <<0>> THEN NumV(FALSE, <<0>>, 0)
         ELSE NumV(v.neg, StripTrail(v.d), v.e)
IsNum(v) == \/ IsInt(v)
            \/ /\ v.k = "num" /\ v.neg \in BOOLEAN /\ IsDigitSeq(v.d) /\ v.e \in -400..400

(* ------------------------------------------------------------------------ *)
(* civil time (proleptic Gregorian calendar, as RFC 3339)                    *)
TsV(y, mo, dd, h, mi, s, ns, off) ==
    [k |-> "ts", y |-> y, mo |-> mo, dd |-> dd, h |-> h, mi |-> mi, s |-> s, ns |-> ns, off |-> off]

IsLeap(y) == (y % 4 = 0 /\ y % 100 # 0) \/ y % 400 = 0
DaysIn(y, m) == IF m = 2 THEN (IF IsLeap(y) THEN 29 ELSE 28)
                ELSE IF m \in {4, 6, 9, 11} THEN 30 ELSE 31

DaysFromCivil(y, m, d) ==     \* days since 1970-01-01
    LET yy  == IF m <= 2 THEN y - 1 ELSE y
        era == yy \div 400
        yoe == yy - era * 400
        mp  == IF m > 2 THEN m - 3 ELSE m + 9
        doy == (153 * mp + 2) \div 5 + d - 1
        doe == yoe * 365 + yoe \div 4 - yoe \div 100 + doy
    IN era * 146097 + doe - 719468

CivilFromDays(z0) ==
    LET z   == z0 + 719468
        era == z \div 146097
        doe == z - era * 146097
        yoe == (doe - doe \div 1460 + doe \div 36524 - doe \div 146096) \div 365
        y   == yoe + era * 400
        doy == doe - (365 * yoe + yoe \div 4 - yoe \div 100)
        mp  == (5 * doy + 2) \div 153
        d   == doy - (153 * mp + 2) \div 5 + 1
        m   == IF mp < 10 THEN mp + 3 ELSE mp - 9
    IN [y |-> IF m <= 2 THEN y + 1 ELSE y, mo |-> m, dd |-> d]

Instant(t) ==                 \* the UTC instant a civil time + offset denotes, to the second
    LET secs == t.h * 3600 + t.mi * 60 + t.s - t.off * 60
    IN [day |-> DaysFromCivil(t.y, t.mo, t.dd) + (secs \div 86400), sec |-> secs % 86400]

ToUTC(t) ==                   \* the same instant written in UTC, whole seconds
    LET i == Instant(t)  c == CivilFromDays(i.day)
    IN TsV(c.y, c.mo, c.dd, i.sec \div 3600, (i.sec % 3600) \div 60, i.sec % 60, 0, 0)

IsTs(v) == /\ v.k = "ts"
           /\ v.y \in 0..9999 /\ v.mo \in 1..12 /\ v.dd \in 1..DaysIn(v.y, v.mo)
           /\ v.h \in 0..23 /\ v.mi \in 0..59 /\ v.s \in 0..59
           /\ v.ns \in 0..999999999 /\ v.off \in -1439..1439

FirstDay == DaysFromCivil(0, 1, 1)       \* RFC 3339 years are 0000..9999
LastDay  == DaysFromCivil(9999, 12, 31)
UTCExpressible(t) == LET i == Instant(t) IN i.day >= FirstDay /\ i.day <= LastDay

ASSUME /\ DaysFromCivil(1970, 1, 1) = 0
       /\ DaysFromCivil(2000, 3, 1) = 11017
       /\ DaysFromCivil(1, 1, 1) = -719162
       /\ DaysFromCivil(0, 12, 31) = -719163
       /\ DaysFromCivil(9999, 12, 31) = 2932896
       /\ CivilFromDays(0) = [y |-> 1970, mo |-> 1, dd |-> 1]
       /\ CivilFromDays(-719163) = [y |-> 0, mo |-> 12, dd |-> 31]
       /\ CivilFromDays(11016) = [y |-> 2000, mo |-> 2, dd |-> 29]
       /\ Instant(TsV(2024, 6, 15, 12, 0, 0, 0, -300)) = Instant(TsV(2024, 6, 15, 17, 0, 0, 0, 0))
       /\ Instant(TsV(1, 1, 1, 0, 0, 0, 0, 60)) = Instant(TsV(0, 12, 31, 23, 0, 0, 0, 0))
       /\ ToUTC(TsV(2024, 6, 15, 23, 59, 59, 5, 840)) = TsV(2024, 6, 15, 9, 59, 59, 0, 0)
       /\ ToUTC(TsV(2024, 2, 29, 23, 30, 0, 0, -60)) = TsV(2024, 3, 1, 0, 30, 0, 0, 0)
       /\ Two53 = <<9,0,0,7,1,9,9,2,5,4,7,4,0,9,9,2>>
       /\ Dec(Two63) = <<9,2,2,3,3,7,2,0,3,6,8,5,4,7,7,5,8,0,7>>
       /\ Inc(<<9,9>>) = <<1,0,0>> /\ Dec(<<1,0,0>>) = <<9,9>>

(* ------------------------------------------------------------------------ *)
(* the column types the server accepts (defs.TableColumnTypeNames) and the   *)
(* kind of value each is documented to hold (docs/TABLES.md, docs/API.md)    *)
Types == {"byte", "int", "int8", "int16", "int32", "int64", "string", "float", "double",
          "float32", "float64", "time", "timestamp", "date", "bool"}
Documented == {"string", "int", "int16", "int32", "float32", "float64", "bool", "timestamp", "date", "time"}

KindOf(t) == CASE t \in {"byte", "int", "int8", "int16", "int32", "int64"} -> "int"
               [] t \in {"float", "double", "float64"} -> "float64"
               [] t = "float32" -> "float32"
               [] t = "string" -> "string"
               [] t = "bool" -> "bool"
               [] t = "timestamp" -> "timestamp"
               [] t = "date" -> "date"
               [] t = "time" -> "time"
IntTypes == {t \in Types : KindOf(t) = "int"}
FloatKinds == {"float32", "float64"}
TimeKinds == {"timestamp", "date", "time"}

Lo(t) == CASE t = "byte" -> I(0) [] t = "int8" -> I(-128) [] t = "int16" -> I(-32768)
           [] t = "int32" -> IntV(TRUE, Two31) [] t \in {"int", "int64"} -> IntV(TRUE, Two63)
Hi(t) == CASE t = "byte" -> I(255) [] t = "int8" -> I(127) [] t = "int16" -> I(32767)
           [] t = "int32" -> IntV(FALSE, Dec(Two31)) [] t \in {"int", "int64"} -> IntV(FALSE, Dec(Two63))
InRange(t, v) == IntLeq(Lo(t), v) /\ IntLeq(v, Hi(t))

(* ---- boundary classes: integers ---- *)
Pt(n, v) == [n |-> n, fixed |-> TRUE, v |-> v, lo |-> v, hi |-> v]
Rg(n, lo, hi) == [n |-> n, fixed |-> FALSE, v |-> lo, lo |-> lo, hi |-> hi]
P(neg, d) == IntV(neg, d)

IntPoints == {
  Pt("0", I(0)), Pt("1", I(1)), Pt("-1", I(-1)), Pt("9", I(9)), Pt("10", I(10)),
  Pt("127", I(127)), Pt("128", I(128)), Pt("-128", I(-128)), Pt("-129", I(-129)),
  Pt("255", I(255)), Pt("256", I(256)),
  Pt("32767", I(32767)), Pt("32768", I(32768)), Pt("-32768", I(-32768)), Pt("-32769", I(-32769)),
  Pt("65535", I(65535)), Pt("65536", I(65536)), Pt("1000000", I(1000000)),
  Pt("2p31-1", P(FALSE, Dec(Two31))), Pt("2p31", P(FALSE, Two31)),
  Pt("-2p31", P(TRUE, Two31)), Pt("-2p31-1", P(TRUE, Inc(Two31))),
  Pt("2p32-1", P(FALSE, Dec(Two32))), Pt("2p32", P(FALSE, Two32)),
  Pt("1e15", P(FALSE, <<1,0,0,0,0,0,0,0,0,0,0,0,0,0,0,0>>)),
  Pt("2p53-1", P(FALSE, Dec(Two53))), Pt("2p53", P(FALSE, Two53)),
  Pt("2p53+1", P(FALSE, Inc(Two53))), Pt("2p53+2", P(FALSE, Inc(Inc(Two53)))),
  Pt("-2p53", P(TRUE, Two53)), Pt("-2p53-1", P(TRUE, Inc(Two53))),
  Pt("1e16+1", P(FALSE, <<1,0,0,0,0,0,0,0,0,0,0,0,0,0,0,0,1>>)),
  Pt("123456789012345678", P(FALSE, <<1,2,3,4,5,6,7,8,9,0,1,2,3,4,5,6,7,8>>)),
  Pt("-999999999999999999", P(TRUE, <<9,9,9,9,9,9,9,9,9,9,9,9,9,9,9,9,9,9>>)),
  Pt("2p62", P(FALSE, Two62)), Pt("2p62+1", P(FALSE, Inc(Two62))),
  Pt("2p63-2", P(FALSE, Dec(Dec(Two63)))), Pt("2p63-1", P(FALSE, Dec(Two63))),
  Pt("-2p63+1", P(TRUE, Dec(Two63))), Pt("-2p63", P(TRUE, Two63)) }

IntRanges == {
  Rg("rnd-small", I(-1000), I(1000)),
  Rg("rnd-i32", P(TRUE, Two31), P(FALSE, Dec(Two31))),
  Rg("rnd-safe", P(TRUE, Two53), P(FALSE, Two53)),
  Rg("rnd-big", P(FALSE, Inc(Two53)), P(FALSE, Dec(Two63))),
  Rg("rnd-negbig", P(TRUE, Two63), P(TRUE, Inc(Two53))) }

IntClasses(t) ==
    {p \in IntPoints : InRange(t, p.v)}
    \cup {Rg(r.n, IntMax(r.lo, Lo(t)), IntMin(r.hi, Hi(t))) :
            r \in {q \in IntRanges : IntLeq(IntMax(q.lo, Lo(t)), IntMin(q.hi, Hi(t)))}}

(* ---- boundary classes: floating point (named by shortest round-trip decimal) ---- *)
F(n, neg, d, e) == Pt(n, NumV(neg, d, e))
Float64Points == {
  Pt("0", I(0)), Pt("-0", IntV(TRUE, <<0>>)), Pt("1", I(1)), Pt("-1", I(-1)), Pt("-123456", I(-123456)),
  F("0.5", FALSE, <<5>>, -1), F("0.1", FALSE, <<1>>, -1), F("-0.1", TRUE, <<1>>, -1), F("1.5", FALSE, <<1,5>>, 0),
  F("4.35", FALSE, <<4,3,5>>, 0), F("1234.5678", FALSE, <<1,2,3,4,5,6,7,8>>, 3),
  F("1/3", FALSE, <<3,3,3,3,3,3,3,3,3,3,3,3,3,3,3,3>>, -1),
  F("0.1+0.2", FALSE, <<3,0,0,0,0,0,0,0,0,0,0,0,0,0,0,0,4>>, -1),
  F("pi", FALSE, <<3,1,4,1,5,9,2,6,5,3,5,8,9,7,9,3>>, 0),
  F("123456789.12345679", FALSE, <<1,2,3,4,5,6,7,8,9,1,2,3,4,5,6,7,9>>, 8),
  Pt("2p53", P(FALSE, Two53)), Pt("-2p53", P(TRUE, Two53)),
  F("1e15", FALSE, <<1>>, 15), F("1e16", FALSE, <<1>>, 16), F("1e20", FALSE, <<1>>, 20),
  F("1e21", FALSE, <<1>>, 21), F("1e22", FALSE, <<1>>, 22), F("1e23", FALSE, <<1>>, 23),
  F("1e100", FALSE, <<1>>, 100), F("1e300", FALSE, <<1>>, 300),
  F("1e-5", FALSE, <<1>>, -5), F("1e-6", FALSE, <<1>>, -6), F("1e-7", FALSE, <<1>>, -7), F("1e-100", FALSE, <<1>>, -100),
  F("max", FALSE, <<1,7,9,7,6,9,3,1,3,4,8,6,2,3,1,5,7>>, 308),
  F("-max", TRUE, <<1,7,9,7,6,9,3,1,3,4,8,6,2,3,1,5,7>>, 308),
  F("minnormal", FALSE, <<2,2,2,5,0,7,3,8,5,8,5,0,7,2,0,1,4>>, -308),
  F("minsub", FALSE, <<5>>, -324), F("-minsub", TRUE, <<5>>, -324), F("sub2", FALSE, <<1>>, -323) }

Float32Points == {
  Pt("0", I(0)), Pt("-0", IntV(TRUE, <<0>>)), Pt("1", I(1)), Pt("-1", I(-1)), Pt("16777216", I(16777216)),
  F("0.5", FALSE, <<5>>, -1), F("0.1", FALSE, <<1>>, -1), F("-0.1", TRUE, <<1>>, -1), F("1.5", FALSE, <<1,5>>, 0),
  F("1/3", FALSE, <<3,3,3,3,3,3,3,4>>, -1), F("pi", FALSE, <<3,1,4,1,5,9,2,7>>, 0),
  F("1e10", FALSE, <<1>>, 10), F("1e-5", FALSE, <<1>>, -5),
  F("max", FALSE, <<3,4,0,2,8,2,3,5>>, 38), F("-max", TRUE, <<3,4,0,2,8,2,3,5>>, 38),
  F("minnormal", FALSE, <<1,1,7,5,4,9,4,4>>, -38), F("minsub", FALSE, <<1>>, -45) }

\* random fill: the concretiser draws doubles / singles; only the shape can be checked here
FloatRanges == { Rg("rnd-unit", I(0), I(1)), Rg("rnd-wide", I(0), I(0)), Rg("rnd-intval", I(0), I(0)) }
FloatClasses(kind) == (IF kind = "float32" THEN Float32Points ELSE Float64Points) \cup FloatRanges
MaxDigits(kind) == IF kind = "float32" THEN 9 ELSE 17
MaxExp(kind) == IF kind = "float32" THEN 38 ELSE 308
MinExp(kind) == IF kind = "float32" THEN -45 ELSE -324

(* ---- boundary classes: strings ---- *)
S(n, cp) == [n |-> n, fixed |-> TRUE, cp |-> cp, ranges |-> <<>>, minlen |-> Len(cp), maxlen |-> Len(cp)]
SR(n, ranges, minlen, maxlen) == [n |-> n, fixed |-> FALSE, cp |-> <<>>, ranges |-> ranges, minlen |-> minlen, maxlen |-> maxlen]
StringPoints == {
  S("empty", <<>>), S("space", <<32>>), S("pad", <<32, 32, 120, 32, 32>>), S("a", <<97>>),
  S("null-word", <<110, 117, 108, 108>>), S("NULL-word", <<78, 85, 76, 76>>),
  S("true-word", <<116, 114, 117, 101>>), S("false-word", <<102, 97, 108, 115, 101>>),
  S("zero-digit", <<48>>), S("digits", <<49, 50, 51>>), S("neg-digits", <<45, 49>>),
  S("exp-digits", <<49, 101, 53>>), S("dec-digits", <<49, 50, 46, 48>>),
  S("bigint-digits", <<57, 48, 48, 55, 49, 57, 57, 50, 53, 52, 55, 52, 48, 57, 57, 51>>),
  S("nan-word", <<78, 97, 78>>),
  S("ts-text", <<50, 48, 50, 52, 45, 48, 54, 45, 49, 53, 84, 49, 50, 58, 48, 48, 58, 48, 48, 90>>),
  S("date-text", <<50, 48, 50, 52, 45, 48, 54, 45, 49, 53>>), S("time-text", <<49, 50, 58, 51, 52, 58, 53, 54>>),
  S("template", <<123, 123, 116, 97, 98, 108, 101, 125, 125>>), S("dollar1", <<36, 49>>), S("qmark", <<63>>),
  S("percent-s", <<37, 115>>), S("percent", <<37>>), S("underscore", <<95>>),
  S("apostrophe", <<105, 116, 39, 115>>), S("two-apos", <<39, 39>>),
  S("dquote", <<115, 97, 121, 32, 34, 104, 105, 34>>), S("backslash", <<97, 92, 98>>),
  S("backslash-n", <<97, 92, 110, 98>>), S("trailing-backslash", <<120, 92>>),
  S("sql-inject", <<39, 59, 32, 68, 82, 79, 80, 32, 84, 65, 66, 76, 69, 32, 116, 95, 117, 110, 115, 112, 101, 99, 59, 32, 45, 45>>),
  S("sql-comment", <<97, 32, 45, 45, 32, 98, 32, 47, 42, 32, 99, 32, 42, 47>>), S("semicolon", <<97, 59, 98>>),
  S("html", <<60, 115, 99, 114, 105, 112, 116, 62, 97, 108, 101, 114, 116, 40, 49, 41, 60, 47, 115, 99, 114, 105, 112, 116, 62>>),
  S("amp", <<38, 97, 109, 112, 59>>),
  S("json-object", <<123, 34, 97, 34, 58, 91, 49, 44, 50, 44, 123, 34, 98, 34, 58, 110, 117, 108, 108, 125, 93, 44, 34, 99, 34, 58, 34, 100, 34, 125>>),
  S("json-array", <<91, 49, 44, 50, 93>>),
  S("uuid-lower", <<53, 53, 48, 101, 56, 52, 48, 48, 45, 101, 50, 57, 98, 45, 52, 49, 100, 52, 45, 97, 55, 49, 54, 45, 52, 52, 54, 54, 53, 53, 52, 52, 48, 48, 48, 48>>),
  S("uuid-upper", <<53, 53, 48, 69, 56, 52, 48, 48, 45, 69, 50, 57, 66, 45, 52, 49, 68, 52, 45, 65, 55, 49, 54, 45, 52, 52, 54, 54, 53, 53, 52, 52, 48, 48, 48, 48>>),
  S("tab", <<97, 9, 98>>), S("newline", <<97, 10, 98>>), S("cr", <<97, 13, 98>>), S("crlf", <<97, 13, 10, 98>>),
  S("nul", <<97, 0, 98>>), S("soh", <<1>>), S("us", <<31>>), S("del", <<127>>), S("c1", <<128, 159>>),
  S("latin1", <<99, 97, 102, 233>>), S("combining", <<99, 97, 102, 101, 769>>), S("nbsp", <<97, 160, 98>>),
  S("replacement", <<65533>>), S("bom", <<65279, 120>>), S("zwsp", <<97, 8203, 98>>), S("rlo", <<8238, 97, 98, 99>>),
  S("line-sep", <<97, 8232, 98, 8233, 99>>), S("ffff", <<65535>>), S("cjk", <<20013, 25991>>),
  S("arabic", <<1605, 1585, 1581, 1576, 1575>>), S("ideographic-space", <<12288>>),
  S("astral-first", <<65536>>), S("emoji", <<128512>>), S("emoji-zwj", <<128104, 8205, 128105, 8205, 128103>>),
  S("max-cp", <<1114111>>), S("private-use", <<57344>>) }

StringRanges == {
  SR("rnd-ascii", << <<32, 126>> >>, 1, 40),
  SR("rnd-punct", << <<33, 47>>, <<58, 64>>, <<91, 96>>, <<123, 126>> >>, 1, 12),
  SR("rnd-control", << <<1, 31>>, <<127, 159>> >>, 1, 8),
  SR("rnd-latin", << <<160, 591>> >>, 1, 20),
  SR("rnd-bmp", << <<32, 55295>>, <<57344, 65533>> >>, 1, 20),
  SR("rnd-astral", << <<65536, 1114111>> >>, 1, 10),
  SR("rnd-mixed", << <<1, 55295>>, <<57344, 1114111>> >>, 1, 30),
  SR("long-ascii", << <<32, 126>> >>, 3000, 6000) }
StringClasses == StringPoints \cup StringRanges

IsScalarCp(c) == c \in 0..55295 \/ c \in 57344..1114111     \* a Unicode string: no surrogates
InRanges(c, rs) == \E j \in 1..Len(rs) : c >= rs[j][1] /\ c <= rs[j][2]

(* ---- boundary classes: time ---- *)
Dates == IF Tier = "quick"
         THEN {<<1, 1, 1>>, <<1969, 12, 31>>, <<2000, 2, 29>>, <<2024, 6, 15>>, <<9999, 12, 31>>}
         ELSE {<<1, 1, 1>>, <<1582, 10, 10>>, <<1900, 3, 1>>, <<1969, 12, 31>>, <<1970, 1, 1>>,
               <<2000, 2, 29>>, <<2024, 6, 15>>, <<2038, 1, 19>>, <<9999, 12, 31>>}
Times == IF Tier = "quick" THEN {<<0, 0, 0>>, <<23, 59, 59>>} ELSE {<<0, 0, 0>>, <<12, 34, 56>>, <<23, 59, 59>>}
Offs  == IF Tier = "quick" THEN {0, -300, 330, 840} ELSE {0, -300, 330, 345, 840, -720, -1}
Fracs == IF Tier = "quick" THEN {0, 500000000} ELSE {0, 500000000, 999999999}

(* how a civil time is spelled in the request (all are RFC 3339 or the forms  *)
(* docs/TABLES.md shows); the spelling is lexical, 1:1 with the fields        *)
TsForms == {"rfc3339",      \* 2024-06-15T12:00:00Z / 2024-06-15T12:00:00-05:00 (fraction when ns # 0)
            "rfc3339num",   \* offset always numeric: +00:00
            "nozone",       \* 2024-06-15T12:00:00     (documented: no offset = UTC)
            "spaced",       \* 2024-06-15 12:00:00
            "dateonly",     \* 2024-06-15              (documented: midnight UTC)
            "timeonly"}     \* 12:34:56                (a time of day)

TsGrid == {TsV(d[1], d[2], d[3], t[1], t[2], t[3], f, o) : d \in Dates, t \in Times, f \in Fracs, o \in Offs}

TimestampCells ==
    {[n |-> "grid", form |-> "rfc3339", v |-> x] : x \in TsGrid}
    \cup {[n |-> "grid", form |-> fm, v |-> x] :
            fm \in {"rfc3339num", "nozone", "spaced"}, x \in {g \in TsGrid : g.off = 0 /\ g.ns = 0}}
    \cup {[n |-> "grid", form |-> "dateonly", v |-> x] : x \in {g \in TsGrid : g.off = 0 /\ g.ns = 0 /\ g.h = 0 /\ g.mi = 0 /\ g.s = 0}}

\* a date column holds a calendar date: midnight UTC of that day
DateCells ==
    {[n |-> "grid", form |-> fm, v |-> x] :
        fm \in {"dateonly", "rfc3339", "rfc3339num"},
        x \in {g \in TsGrid : g.off = 0 /\ g.ns = 0 /\ g.h = 0 /\ g.mi = 0 /\ g.s = 0}}

\* a time column holds a time of day
TimeCells ==
    {[n |-> "grid", form |-> "rfc3339", v |-> x] :
        x \in {g \in TsGrid : <<g.y, g.mo, g.dd>> \in {<<1, 1, 1>>, <<2024, 6, 15>>} /\ g.ns \in {0, 500000000}}}
    \cup {[n |-> "grid", form |-> "timeonly", v |-> x] :
            x \in {g \in TsGrid : <<g.y, g.mo, g.dd>> = <<1, 1, 1>> /\ g.off = 0 /\ g.ns = 0}}

TimeKindCells(kind) == CASE kind = "timestamp" -> TimestampCells [] kind = "date" -> DateCells [] kind = "time" -> TimeCells

FormOKForTs(kind, fm, v) ==
    /\ fm \in TsForms
    /\ (fm \in {"nozone", "spaced", "dateonly", "timeonly"} => v.off = 0)
    /\ (fm = "dateonly" => v.h = 0 /\ v.mi = 0 /\ v.s = 0 /\ v.ns = 0)
    /\ (fm = "timeonly" => kind = "time" /\ v.ns = 0)
    /\ (kind = "date" => v.h = 0 /\ v.mi = 0 /\ v.s = 0 /\ v.ns = 0 /\ v.off = 0)

(* ------------------------------------------------------------------------ *)
(* how a request is made                                                     *)
Paths == {"insert",      \* PUT rows                      (FormInsertQuery)
          "patch",       \* PATCH rows?filter=EQ(k,id)    (FormUpdateQuery)
          "insertid",    \* PUT rows on a DSN with row ids
          "patchid",     \* PATCH rows, _row_id_ in the payload
          "upsert"}      \* PUT rows?upsert, _row_id_ in the payload (update through InsertRows)
Shapes == {"single", "array", "rowset"}
NullVs == {"unspec", "null", "notnull"}     \* column attribute nullable: absent / true / false
ShapeOK(path, shape) == shape = "array" => path \in {"insert", "insertid", "upsert"}
Updates == {"patch", "patchid", "upsert"}

NumForms == {"native", "exp", "str"}       \* 1000 / 1e3 / "1000"
StrForms == {"utf8", "esc"}                \* raw UTF-8 / \uXXXX escapes
BoolForms == {"native", "str"}

(* ------------------------------------------------------------------------ *)
(* "the same value of the column's documented type"                          *)
SameFrac(in, out) == out.ns = in.ns \/ out.ns = 0     \* the documented format shows whole seconds
Same(kind, in, out) ==
    IF in.k = "null" THEN out.k = "null"
    ELSE CASE kind = "int"     -> out.k = "int" /\ IntCanon(out) = IntCanon(in)
           [] kind \in FloatKinds -> out.k \in {"int", "num"} /\ Norm(out) = Norm(in)
           [] kind = "string"  -> out.k = "str" /\ out.cp = in.cp
           [] kind = "bool"    -> out.k = "bool" /\ out.b = in.b
           [] kind \in {"timestamp", "date"} -> out.k = "ts" /\ Instant(out) = Instant(in) /\ SameFrac(in, out)
           [] kind = "time"    -> out.k = "ts" /\ Instant(out).sec = Instant(in).sec /\ SameFrac(in, out)

(* a second value, different from v, that a row holds before it is updated *)
StrV(cp) == [k |-> "str", cp |-> cp]
SeedFor(kind, v) ==
    CASE kind = "int" -> IF v.k = "int" /\ IntCanon(v) = I(7) THEN I(8) ELSE I(7)
      [] kind \in FloatKinds -> IF v.k \in {"int", "num"} /\ Norm(v) = Norm(I(7)) THEN I(8) ELSE I(7)
      [] kind = "string" -> IF v.k = "str" /\ v.cp = <<115, 101, 101, 100>> THEN StrV(<<115, 101, 101, 100, 50>>)
                            ELSE StrV(<<115, 101, 101, 100>>)
      [] kind = "bool" -> IF v.k = "bool" THEN [k |-> "bool", b |-> ~v.b] ELSE [k |-> "bool", b |-> TRUE]
      [] kind = "date" -> IF v.k = "ts" /\ Instant(v) = Instant(TsV(2001, 2, 3, 0, 0, 0, 0, 0))
                          THEN TsV(2002, 2, 3, 0, 0, 0, 0, 0) ELSE TsV(2001, 2, 3, 0, 0, 0, 0, 0)
      [] kind \in {"timestamp", "time"} ->
                          IF v.k = "ts" /\ Instant(v).sec = Instant(TsV(2001, 2, 3, 3, 4, 5, 0, 0)).sec
                          THEN TsV(2001, 2, 3, 4, 5, 6, 0, 0) ELSE TsV(2001, 2, 3, 3, 4, 5, 0, 0)

(* ------------------------------------------------------------------------ *)
(* the cells: every (column type, value class, spelling)                     *)
Nul == [k |-> "null"]
VCell(t, cls, form, fixed, v, lo, hi, ranges, minlen, maxlen) ==
    [type |-> t, kind |-> KindOf(t), cls |-> cls, form |-> form, fixed |-> fixed, v |-> v, lo |-> lo, hi |-> hi,
     ranges |-> ranges, minlen |-> minlen, maxlen |-> maxlen]

IntCells(t) == {VCell(t, c.n, fm, c.fixed, c.v, c.lo, c.hi, <<>>, 0, 0) : c \in IntClasses(t), fm \in NumForms}
FloatCells(t) == {VCell(t, c.n, fm, c.fixed, c.v, c.lo, c.hi, <<>>, 0, 0) : c \in FloatClasses(KindOf(t)), fm \in NumForms}
StringCells == {VCell("string", c.n, fm, c.fixed, StrV(c.cp), Nul, Nul, c.ranges, c.minlen, c.maxlen) :
                  c \in StringClasses, fm \in StrForms}
BoolCells == {VCell("bool", IF b THEN "true" ELSE "false", fm, TRUE, [k |-> "bool", b |-> b], Nul, Nul, <<>>, 0, 0) :
                b \in BOOLEAN, fm \in BoolForms}
RndForm(kind) == IF kind = "date" THEN "dateonly" ELSE "rfc3339"
TimeCellsOf(t) == {VCell(t, c.n, c.form, TRUE, c.v, Nul, Nul, <<>>, 0, 0) : c \in TimeKindCells(KindOf(t))}
                  \cup {VCell(t, "rnd", RndForm(KindOf(t)), FALSE, TsV(2000, 1, 1, 0, 0, 0, 0, 0), Nul, Nul, <<>>, 0, 0)}
NullCell(t) == VCell(t, "null", "native", TRUE, Nul, Nul, Nul, <<>>, 0, 0)

CellsOfType(t) ==
    {NullCell(t)} \cup
    (CASE KindOf(t) = "int" -> IntCells(t)
       [] KindOf(t) \in FloatKinds -> FloatCells(t)
       [] KindOf(t) = "string" -> StringCells
       [] KindOf(t) = "bool" -> BoolCells
       [] KindOf(t) \in TimeKinds -> TimeCellsOf(t))
CellsOf == [t \in Types |-> CellsOfType(t)]
ValueCells == UNION {CellsOf[t] : t \in Types}

Combos == {c \in Paths \X Shapes \X {"unspec"} : ShapeOK(c[1], c[2])}
          \cup {<<p, "single", n>> : p \in {"insert", "patch"}, n \in {"null", "notnull"}}

(* does the abstract value v (the projection of what was actually sent) lie in cell c *)
InClass(c, v) ==
    IF c.cls = "null" THEN v.k = "null"
    ELSE IF c.fixed
    THEN CASE c.kind = "int" -> v.k = "int" /\ IntCanon(v) = IntCanon(c.v)
           [] c.kind \in FloatKinds -> v.k \in {"int", "num"} /\ Norm(v) = Norm(c.v)
           [] OTHER -> v = c.v
    ELSE CASE c.kind = "int" -> IsInt(v) /\ IntLeq(c.lo, v) /\ IntLeq(v, c.hi)
           [] c.kind \in FloatKinds ->
                 /\ IsNum(v)
                 /\ LET n == Norm(v) IN /\ Len(n.d) <= MaxDigits(c.kind)
                                        /\ (n.d # <<0>> => n.e >= MinExp(c.kind) /\ n.e <= MaxExp(c.kind))
           [] c.kind = "string" ->
                 /\ v.k = "str" /\ Len(v.cp) >= c.minlen /\ Len(v.cp) <= c.maxlen
                 /\ \A i \in 1..Len(v.cp) : IsScalarCp(v.cp[i]) /\ InRanges(v.cp[i], c.ranges)
           [] c.kind \in TimeKinds -> IsTs(v) /\ v.y >= 1 /\ v.off \in -840..840 /\ FormOKForTs(c.kind, c.form, v)
           [] OTHER -> FALSE

TsClass(v) ==
    LET i == Instant(v)
    IN IF i.day > LastDay THEN "utc-after-9999"
       ELSE IF i.day < DaysFromCivil(1, 1, 1) THEN "utc-before-0001"
       ELSE (IF v.off = 0 THEN "utc" ELSE IF v.off > 0 THEN "east" ELSE "west")
            \o (IF v.ns = 0 THEN "" ELSE "+fraction")
ClassKey(type, cls, v) ==
    IF v.k = "null" THEN "null"
    ELSE IF KindOf(type) \in TimeKinds /\ v.k = "ts" THEN TsClass(v) ELSE cls
=============================================================================

SPECIFICATION TSpec
CONSTANTS
  Tier = "quick"
INVARIANTS Report
CHECK_DEADLOCK FALSE

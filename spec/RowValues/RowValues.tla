------------------------------ MODULE RowValues ------------------------------
(* C18 - the documented life of one row value, one action per stage of the    *)
(* server's row path (rows.go / parsing/generators.go):                       *)
(*   Decode  json.Unmarshal of the request payload into map[string]any        *)
(*   Coerce  CoerceToColumnType + bindTimeValue (FormInsertQuery /            *)
(*           FormUpdateQuery): the value bound to the SQL placeholder         *)
(*   Store   the SQLite column holds it (INTEGER 64 bit / REAL / TEXT)        *)
(*   Read    readRowData: Scan + CoerceToColumnType + JSON response           *)
(* Property RoundTrip: an accepted write is read back as the same value of    *)
(* the column's documented type, for every cell of RowValueDefs.              *)
(* Impl = "doc"  : the documented pipeline (values keep their identity, time  *)
(*                 is normalised to a UTC instant the format can express).    *)
(* Impl = "asis" : two facts of the code as written, used as the negative     *)
(*                 control: JSON numbers travel through binary64 (integers    *)
(*                 beyond 2^53 lose their identity) and a time whose UTC      *)
(*                 form has a five digit year is stored although it cannot    *)
(*                 be parsed back.                                            *)
EXTENDS RowValueDefs

CONSTANT Impl
ASSUME Impl \in {"doc", "asis"}

VARIABLES cell, rep, pc, val, rej
vars == <<cell, rep, pc, val, rej>>

Reps(c) ==      \* the representatives of a cell the model walks through the pipeline
    IF c.fixed THEN {c.v}
    ELSE CASE c.kind = "int" -> {c.lo, c.hi}
           [] c.kind \in FloatKinds -> {NumV(FALSE, <<5>>, -1), NumV(TRUE, <<1, 2, 5>>, 2)}
           [] c.kind = "string" -> {StrV([i \in 1..c.minlen |-> c.ranges[1][1]]),
                                    StrV([i \in 1..c.minlen |-> c.ranges[Len(c.ranges)][2]])}
           [] OTHER -> {c.v}

Init == /\ cell \in ValueCells
        /\ rep \in Reps(cell)
        /\ pc = "request" /\ val = rep /\ rej = FALSE

Text(v) == [k |-> "text", of |-> v]
Unwrap(v) == IF v.k = "text" THEN v.of ELSE v

Decode == /\ pc = "request" /\ pc' = "decoded"
          /\ val' = IF cell.form = "str" THEN Text(val)            \* a JSON string spelling the number / boolean
                    ELSE IF Impl = "asis" /\ val.k = "int" /\ ~MagLeq(val.d, Two53)
                    THEN IntV(val.neg, Two53)                      \* binary64 cannot tell it from a neighbour
                    ELSE val
          /\ UNCHANGED <<cell, rep, rej>>

Coerce == /\ pc = "decoded" /\ pc' = "bound"
          /\ LET u == Unwrap(val)  k == cell.kind
             IN IF u.k = "null" THEN val' = u /\ UNCHANGED rej
                ELSE CASE k = "int" -> IF u.k = "int" /\ InRange(cell.type, u)
                                       THEN val' = IntCanon(u) /\ UNCHANGED rej
                                       ELSE val' = u /\ rej' = TRUE
                       [] k \in FloatKinds -> val' = Norm(u) /\ UNCHANGED rej
                       [] k \in {"string", "bool"} -> val' = u /\ UNCHANGED rej
                       [] k \in TimeKinds ->
                            IF cell.form = "timeonly" THEN val' = u /\ rej' = TRUE     \* no date: not a timestamp
                            ELSE IF UTCExpressible(u) THEN val' = ToUTC(u) /\ UNCHANGED rej
                            ELSE IF Impl = "doc" THEN val' = u /\ rej' = TRUE
                            ELSE val' = [k |-> "other"] /\ UNCHANGED rej
          /\ UNCHANGED <<cell, rep>>

Store == pc = "bound" /\ pc' = "stored" /\ UNCHANGED <<cell, rep, val, rej>>
Read  == pc = "stored" /\ pc' = "done" /\ UNCHANGED <<cell, rep, val, rej>>

Next == Decode \/ Coerce \/ Store \/ Read
Spec == Init /\ [][Next]_vars

TypeOK == /\ cell.type \in Types /\ cell.kind = KindOf(cell.type) /\ pc \in {"request", "decoded", "bound", "stored", "done"} /\ rej \in BOOLEAN
RoundTrip == (pc = "done" /\ ~rej) => Same(cell.kind, rep, val)
RepsInClass == InClass(cell, rep)                 \* the cells are well formed
SeedDiffers == ~Same(cell.kind, rep, SeedFor(cell.kind, rep)) \/ rep.k = "null"
=============================================================================

---------------------------- MODULE RowValues_Gen ----------------------------
(* Cell generator for the F binding: the model of RowValues is explored       *)
(* exhaustively (one behaviour per cell representative) and every cell is     *)
(* printed once as JSON; the driver concretises each cell (the fixed classes  *)
(* carry their value, the range classes carry bounds it draws from with       *)
(* VERIF_SEED), sends it through the real server and logs the pair.           *)
EXTENDS RowValues, Json

First(c) == CHOOSE r \in Reps(c) : TRUE
Emit == (pc = "request" /\ rep = First(cell)) =>
            PrintT(ToJson([rec |-> "cell", cell |-> cell, seeds |-> <<SeedFor(cell.kind, cell.v), SeedFor(cell.kind, SeedFor(cell.kind, cell.v))>>]))
ASSUME PrintT(ToJson([rec |-> "combos", combos |-> Combos]))
=============================================================================

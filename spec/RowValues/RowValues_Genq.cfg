SPECIFICATION Spec
CONSTANTS
  Impl = "doc"
  Tier = "quick"
INVARIANTS TypeOK RoundTrip RepsInClass SeedDiffers Emit
CHECK_DEADLOCK FALSE

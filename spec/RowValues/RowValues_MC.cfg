SPECIFICATION Spec
CONSTANTS
  Impl = "doc"
  Tier = "thorough"
INVARIANTS TypeOK RoundTrip RepsInClass SeedDiffers
CHECK_DEADLOCK FALSE

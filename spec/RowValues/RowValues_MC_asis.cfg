SPECIFICATION Spec
CONSTANTS
  Impl = "asis"
  Tier = "quick"
INVARIANTS TypeOK RoundTrip
CHECK_DEADLOCK FALSE

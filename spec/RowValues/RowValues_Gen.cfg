SPECIFICATION Spec
CONSTANTS
  Impl = "doc"
  Tier = "thorough"
INVARIANTS TypeOK RoundTrip RepsInClass SeedDiffers Emit
CHECK_DEADLOCK FALSE

--------------------------- MODULE RowValues_Trace ---------------------------
(* Binding F: judges the I/O pairs logged from the real `ego server`.         *)
(* One record per executed case:                                              *)
(*   type cls form path shape nullv     the abstract cell and request shape   *)
(*   in, seed                           projection of the JSON actually sent  *)
(*                                      (value under test / prior row value)  *)
(*   rejected                           the write was refused (status # 200)  *)
(*   absent                             afterwards no row has the case's key  *)
(*   readok                             every GET answered 200 with one row   *)
(*   out, has2, out2                    projection of column v as read back   *)
(*                                      (all columns / ?columns=v when has2)  *)
(*   hassib, sibin, sibout              a second row carried by the same      *)
(*                                      array / rowset payload                *)
(*   selftest                           a deliberately corrupted copy that    *)
(*                                      this contract must flag               *)
(* WF(r): the record is a case of the enumerated space (domain predicate; a   *)
(* failure is a generator/projection problem, never a verdict).               *)
(* Post(r): the contract of C18.  Every failing index is reported with the    *)
(* abstract Key of the case.                                                  *)
EXTENDS RowValueDefs, Json

Log == ndJsonDeserialize("io.ndjson")
N == Len(Log)

VARIABLES i, bad
tvars == <<i, bad>>

WF(r) ==
    /\ r.type \in Types
    /\ <<r.path, r.shape, r.nullv>> \in Combos
    /\ \E c \in CellsOf[r.type] : c.cls = r.cls /\ c.form = r.form /\ InClass(c, r.in)
    /\ r.seed = SeedFor(KindOf(r.type), r.in)
    /\ (r.hassib => r.sibin = r.seed)

Mode(r) ==
    LET kind == KindOf(r.type)
    IN IF r.rejected THEN "rejected-but-changed"
       ELSE IF ~r.readok THEN "unreadable"
       ELSE IF ~Same(kind, r.in, r.out) THEN "differs"
       ELSE IF r.has2 /\ ~Same(kind, r.in, r.out2) THEN "differs-columns-read"
       ELSE "neighbour-row"

Post(r) ==
    LET kind == KindOf(r.type)
    IN IF r.rejected
       THEN \* a refused write must leave nothing behind
            IF r.path \in Updates THEN r.readok /\ Same(kind, r.seed, r.out) ELSE r.absent
       ELSE /\ r.readok
            /\ Same(kind, r.in, r.out)
            /\ (r.has2 => Same(kind, r.in, r.out2))
            /\ (r.hassib => Same(kind, r.sibin, r.sibout))

Key(r) == r.type \o "/" \o r.form \o "/" \o ClassKey(r.type, r.cls, r.in) \o "/" \o r.path \o "/" \o Mode(r)

TInit == i = 1 /\ bad = {}
TNext == /\ i <= N
         /\ LET r == Log[i]
            IN bad' = IF ~WF(r) THEN bad \cup {[idx |-> i, key |-> "ILLFORMED"]}
                      ELSE IF ~Post(r) THEN bad \cup {[idx |-> i, key |-> Key(r)]}
                      ELSE bad
         /\ i' = i + 1
TSpec == TInit /\ [][TNext]_tvars

Report == i <= N \/ PrintT(ToJson([n |-> N, bad |-> bad]))
=============================================================================

SPECIFICATION Spec
CONSTANTS
  Impl = "doc"
  Tier = "quick"
INVARIANTS TypeOK RoundTrip RepsInClass SeedDiffers
CHECK_DEADLOCK FALSE

SPECIFICATION Spec
CONSTANTS
  Req = {"r1", "r2", "r3"}
  Codes = {"cA", "cB", "cBx"}
  Tokens = {"tA"}
  Presenters = {"A", "B", "Bbad"}
  Redirects = {"same", "other"}
  Verifiers = {"right", "wrong", "empty"}
  Chain = TRUE
  Bogus = TRUE
  Focus = FALSE
  Impl = "fixed"
INVARIANTS TypeOK SingleUse PKCEOnly
PROPERTIES NeverForbidden
CHECK_DEADLOCK FALSE

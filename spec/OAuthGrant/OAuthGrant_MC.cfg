SPECIFICATION Spec
CONSTANTS
  Req = {"r1", "r2", "r3"}
  Codes = {"cA", "cB", "cBx"}
  Tokens = {"tA"}
  Presenters = {"A", "B"}
  Redirects = {"same", "other"}
  Verifiers = {"right", "wrong", "empty"}
  Chain = TRUE
  Bogus = FALSE
  Focus = FALSE
  Impl = "fixed"
INVARIANTS TypeOK SingleUse PKCEOnly
PROPERTIES NeverForbidden
CHECK_DEADLOCK FALSE

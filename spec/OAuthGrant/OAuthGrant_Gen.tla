--------------------------- MODULE OAuthGrant_Gen ---------------------------
(* Behaviour generator for binding R: OAuthGrant plus a history variable.    *)
(* Every complete behaviour (all requests answered) is printed as JSON and   *)
(* forced, step by step, on the real TokenHandler through the gate hook:     *)
(*   Arrive(r,a) = start request r and let it run to the gate or to its end  *)
(*   Consume(r)  = open r's gate and let it run to its end                   *)
(* Requests are symmetric, so they arrive in the order r1, r2, ... (this      *)
(* removes permutations of identical schedules, nothing else).               *)
EXTENDS OAuthGrant, Json

VARIABLE h

Present == {g \in Grant : store[g]}

StepRec(r) ==
  [call |-> [act |-> last'.act, r |-> r, kind |-> req'[r].kind, target |-> req'[r].target,
             client |-> req'[r].client, redirect |-> req'[r].redirect, verifier |-> req'[r].verifier],
   st   |-> [events |-> last'.events, done |-> pc'[r] = "done",
             status |-> resp'[r].status, err |-> resp'[r].err, minted |-> resp'[r].minted,
             forbid |-> last'.forbid, present |-> {g \in Grant : store'[g]}]]

Idx(r) == CASE r = "r1" -> 1 [] r = "r2" -> 2 [] r = "r3" -> 3 [] r = "r4" -> 4
InOrder(r) == \A q \in Req : Idx(q) < Idx(r) => pc[q] # "idle"

GenInit == Init /\ h = <<>>
GenNext == \E r \in Req :
             /\ \/ (InOrder(r) /\ \E a \in Attrs : Arrive(r, a))
                \/ Consume(r)
             /\ h' = Append(h, StepRec(r))
GenSpec == GenInit /\ [][GenNext]_<<vars, h>>

AllDone == \A r \in Req : pc[r] = "done"
Emit == ~AllDone \/ PrintT(ToJson(h))
=============================================================================

SPECIFICATION GenSpec
CONSTANTS
  Req = {"r1", "r2", "r3"}
  Codes = {"cA"}
  Tokens = {"tA"}
  Presenters = {"A"}
  Redirects = {"same"}
  Verifiers = {"right", "wrong"}
  Chain = TRUE
  Bogus = FALSE
  Focus = TRUE
  Impl = "fixed"
INVARIANTS Emit SingleUse PKCEOnly
CHECK_DEADLOCK FALSE

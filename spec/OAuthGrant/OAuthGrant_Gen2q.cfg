SPECIFICATION GenSpec
CONSTANTS
  Req = {"r1", "r2"}
  Codes = {"cA", "cB"}
  Tokens = {"tA"}
  Presenters = {"A", "B"}
  Redirects = {"same", "other"}
  Verifiers = {"right", "wrong", "empty"}
  Chain = TRUE
  Bogus = FALSE
  Focus = TRUE
  Impl = "fixed"
INVARIANTS Emit SingleUse PKCEOnly
CHECK_DEADLOCK FALSE

SPECIFICATION Spec
CONSTANTS
  Req = {"r1", "r2"}
  Codes = {"cA"}
  Tokens = {"tA"}
  Presenters = {"A"}
  Redirects = {"same"}
  Verifiers = {"right", "wrong", "empty"}
  Chain = TRUE
  Bogus = FALSE
  Focus = FALSE
  Impl = "broken"
INVARIANTS SingleUse PKCEOnly
CHECK_DEADLOCK FALSE

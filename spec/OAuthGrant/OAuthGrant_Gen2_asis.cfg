SPECIFICATION GenSpec
CONSTANTS
  Req = {"r1", "r2"}
  Codes = {"cA"}
  Tokens = {"tA"}
  Presenters = {"A"}
  Redirects = {"same"}
  Verifiers = {"right", "wrong"}
  Chain = TRUE
  Bogus = FALSE
  Focus = TRUE
  Impl = "asis"
INVARIANTS Emit
CHECK_DEADLOCK FALSE

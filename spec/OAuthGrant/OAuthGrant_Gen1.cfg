SPECIFICATION GenSpec
CONSTANTS
  Req = {"r1"}
  Codes = {"cA", "cAn", "cB", "cBp", "cBx", "cC"}
  Tokens = {"tA", "tB"}
  Presenters = {"A", "B", "C", "Bbad", "nobody"}
  Redirects = {"same", "other"}
  Verifiers = {"right", "wrong", "empty", "padded", "space", "prefix", "challenge"}
  Chain = FALSE
  Bogus = TRUE
  Focus = FALSE
  Impl = "fixed"
INVARIANTS Emit SingleUse PKCEOnly
CHECK_DEADLOCK FALSE

SPECIFICATION TSpec
CONSTANTS
  Req = {"r1", "r2", "r3", "r4", "r5", "r6", "r7", "r8", "r9", "r10"}
  Codes = {"cA", "cB"}
  Tokens = {"tA"}
  Presenters = {"A", "B", "Bbad"}
  Redirects = {"same", "other"}
  Verifiers = {"right", "wrong", "empty"}
  Chain = TRUE
  Bogus = TRUE
  Focus = FALSE
  Impl = "either"
INVARIANTS TSingleUse TPKCEOnly
CONSTRAINT Reached
POSTCONDITION Accepted
CHECK_DEADLOCK FALSE

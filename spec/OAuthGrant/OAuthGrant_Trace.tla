-------------------------- MODULE OAuthGrant_Trace --------------------------
(* Binding T: validates logs of UNFORCED concurrent executions of the real   *)
(* token endpoint.  Logged, in one total order:                              *)
(*   Call(r, attributes)        before TokenHandler is entered               *)
(*   Find / Delete / Add(key)   caches.VerifSink, i.e. under cacheLock       *)
(*   Resp(r, status, error, minted)   after TokenHandler returned            *)
(* A cache event does not say which request ran it: TLC picks any request    *)
(* that could have (same grant, right program counter).  The configuration   *)
(* uses Impl = "either": a request whose Delete removed nothing may be       *)
(* refused or served, so a double redemption is a behaviour of the model and *)
(* it is the invariant TSingleUse that rejects the log.                      *)
EXTENDS OAuthGrant, Json

VARIABLES l, run, called, added, answered

TraceLog == ndJsonDeserialize("trace.ndjson")
N == Len(TraceLog)
tvars == <<vars, l, run, called, added, answered>>

TInit == /\ TLCSet(42, 0) /\ Init /\ l = 1 /\ run = 0     \* every recorded run starts with a Reset event
         /\ called = [r \in Req |-> NoReq] /\ added = {} /\ answered = {}

E == TraceLog[l]
Is(e) == l <= N /\ E.run = run /\ E.ev = e
Step == l' = l + 1 /\ run' = run

TCall == /\ Is("Call") /\ E.r \in Req /\ pc[E.r] = "idle" /\ called[E.r] = NoReq
         /\ LET a == [kind |-> E.kind, target |-> E.target, client |-> E.client, redirect |-> E.redirect, verifier |-> E.verifier]
            IN  a \in Attrs /\ Known(a.target) /\ called' = [called EXCEPT ![E.r] = a]
         /\ Step /\ UNCHANGED <<vars, added, answered>>

TFind == /\ Is("Find")
         /\ \E r \in Req : /\ called[r] # NoReq /\ pc[r] = "idle" /\ called[r].target = E.key
                           /\ Arrive(r, called[r])
                           /\ last'.events = <<Ev("Find", E.key, E.ok)>>
         /\ Step /\ UNCHANGED <<called, added, answered>>

TDelete == /\ Is("Delete")
           /\ \E r \in Req : /\ pc[r] = "found" /\ req[r].target = E.key
                             /\ Consume(r)
                             /\ last'.events[1] = Ev("Delete", E.key, E.ok)
           /\ Step /\ UNCHANGED <<called, added, answered>>

TAdd == /\ Is("Add") /\ E.ok
        /\ \E r \in Req \ added : pc[r] = "done" /\ resp[r].minted /\ Minted(r) = E.key /\ added' = added \cup {r}
        /\ Step /\ UNCHANGED <<vars, called, answered>>

Logged == [status |-> E.status, err |-> E.err, minted |-> E.minted]
TResp == /\ Is("Resp") /\ E.r \in Req \ answered /\ called[E.r] # NoReq
         /\ \/ /\ pc[E.r] = "done" /\ resp[E.r] = Logged /\ (resp[E.r].minted => E.r \in added)
               /\ UNCHANGED vars
            \/ /\ pc[E.r] = "idle" /\ Arrive(E.r, called[E.r])      \* refused before the cache was consulted
               /\ last'.events = <<>> /\ resp'[E.r] = Logged
         /\ answered' = answered \cup {E.r}
         /\ Step /\ UNCHANGED <<called, added>>

(* next recorded run: every request of the previous one was answered *)
TReset == /\ l <= N /\ E.run # run /\ E.ev = "Reset"
          /\ \A r \in Req : called[r] # NoReq => r \in answered
          /\ store' = [g \in Grant |-> g \in Codes \cup Tokens]
          /\ towner' = [g \in MintedSet |-> ""]
          /\ pc' = [r \in Req |-> "idle"] /\ req' = [r \in Req |-> NoReq] /\ resp' = [r \in Req |-> NoResp]
          /\ issued' = [g \in Grant |-> 0]
          /\ last' = [act |-> "Init", r |-> "", events |-> <<>>, forbid |-> ""]
          /\ called' = [r \in Req |-> NoReq] /\ added' = {} /\ answered' = {}
          /\ run' = E.run /\ l' = l + 1

(* The model is nondeterministic at a lost race (Impl = "either"); a branch TLC guessed wrongly dies at the  *)
(* Resp event.  The property is therefore stated over the responses the log CONFIRMED (answered).          *)
TSingleUse == \A g \in Grant : Cardinality({r \in answered : resp[r].status = 200 /\ req[r].target = g}) <= 1
TPKCEOnly  == \A r \in answered : (resp[r].status = 200 /\ req[r].kind = "code" /\ Challenge(req[r].target) # "none")
                                      => req[r].verifier = "right"

TNext == TCall \/ TFind \/ TDelete \/ TAdd \/ TResp \/ TReset
TSpec == TInit /\ [][TNext]_tvars

Reached == TLCSet(42, IF TLCGet(42) < l THEN l ELSE TLCGet(42))
Accepted == /\ PrintT(<<"HIGHWATER", TLCGet(42), N + 1>>)
            /\ TLCGet(42) = N + 1
=============================================================================

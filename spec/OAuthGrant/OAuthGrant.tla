----------------------------- MODULE OAuthGrant -----------------------------
(* Code-shaped specification of the token endpoint of tucats/ego's OAuth2    *)
(* authorization server (internal/server/oauth/authserver token.go, codes.go)*)
(* as far as property C23 is concerned: redemption of authorization codes    *)
(* and refresh tokens kept in caches.OAuthCodeCache / OAuthRefreshCache.     *)
(*                                                                           *)
(* One action per critical section of a token request:                       *)
(*   Arrive(r,a)  client authentication, grant-type check (no shared state)  *)
(*                and the cache lookup  caches.Find  (under cacheLock)       *)
(*   Consume(r)   caches.Delete (under cacheLock) followed by the purely     *)
(*                local checks (client binding, redirect, PKCE), token       *)
(*                creation and, on success, caches.Add of a freshly minted   *)
(*                refresh token under a brand-new random key (independent of *)
(*                every other action until the response discloses the key)   *)
(* Between the two the request is at the point "code.afterFind" /            *)
(* "refresh.afterFind" -- any other request may run there.                   *)
(*                                                                           *)
(* Impl = "asis" : the result of caches.Delete is ignored                    *)
(* Impl = "fixed": a request whose Delete removed nothing is refused         *)
(*                 (Delete's boolean arbitrates between concurrent redeemers)*)
(* Impl = "either": such a request may be refused or served (used by trace  *)
(*                 validation so that SingleUse, not a stuck trace, judges)  *)
(* Impl = "broken": negative control only -- "asis" and, in addition, an    *)
(*                 absent verifier skips the PKCE comparison                 *)
EXTENDS Integers, FiniteSets, Sequences, TLC

CONSTANTS Req,        \* request ids, e.g. {"r1","r2","r3"}
          Codes,      \* authorization codes that were issued (subset of AllCodes)
          Tokens,     \* refresh tokens that exist initially (subset of AllTokens)
          Presenters, \* client identities a request may present
          Redirects,  \* subset of {"same","other"}
          Verifiers,  \* verifier classes a request may send
          Chain,      \* TRUE: refresh tokens minted by a request may be presented by the others
          Bogus,      \* TRUE: a request may present a string that was never issued
          Focus,      \* TRUE: all requests present grants of one family (a grant and what was minted from it)
          Impl

(* ---- the registry (fixed world the harness builds) ----------------------- *)
(* A public client (no secret), B confidential, C confidential without the    *)
(* refresh_token grant.  "Bbad" = B with a wrong secret, "nobody" = unknown.  *)
RealClient(p) == IF p = "Bbad" THEN "B" ELSE p
Authenticates(p) == p \in {"A", "B", "C"}
IsPublic(c) == c = "A"
AllowsRefresh(c) == c \in {"A", "B"}

(* codes: who they were issued to and the PKCE challenge stored with them.    *)
(* The client's secret verifier is the string class "right";                  *)
(*   "s256"  : challenge = BASE64URL(SHA256(right)), method S256              *)
(*   "plain" : challenge = right itself, method "plain"                       *)
AllCodes == {"cA", "cAn", "cB", "cBp", "cBx", "cC"}
CodeOwner(c) == CASE c \in {"cA", "cAn"} -> "A" [] c \in {"cB", "cBp", "cBx"} -> "B" [] OTHER -> "C"
Challenge(c) == CASE c \in {"cA", "cBp"} -> "s256" [] c = "cBx" -> "plain" [] OTHER -> "none"
AllTokens == {"tA", "tB"}
TokenOwner0(t) == IF t = "tA" THEN "A" ELSE "B"

Minted(r) == "m_" \o r
MintedSet == {Minted(r) : r \in Req}
Grant == Codes \cup Tokens \cup MintedSet \cup {"bogus"}

NoReq  == [kind |-> "none", target |-> "", client |-> "", redirect |-> "", verifier |-> ""]
NoResp == [status |-> 0, err |-> "", minted |-> FALSE]
Attrs == [kind : {"code"}, target : Codes \cup (IF Bogus THEN {"bogus"} ELSE {}), client : Presenters,
          redirect : Redirects, verifier : Verifiers]
         \cup
         [kind : {"refresh"}, target : Tokens \cup (IF Chain THEN MintedSet ELSE {}) \cup (IF Bogus THEN {"bogus"} ELSE {}),
          client : Presenters, redirect : {"same"}, verifier : {"empty"}]

VARIABLES store,    \* [Grant -> BOOLEAN]  the entry is in its cache
          towner,   \* [MintedSet -> client | ""]  owner of a minted refresh token
          pc,       \* [Req -> "idle" | "found" | "done"]
          req,      \* [Req -> attributes of the request]
          resp,     \* [Req -> response]
          issued,   \* history: [Grant -> number of successful token responses obtained with it]
          last      \* observation: the step just taken and the cache critical sections it ran

vars == <<store, towner, pc, req, resp, issued, last>>

Init == /\ store = [g \in Grant |-> g \in Codes \cup Tokens]
        /\ towner = [g \in MintedSet |-> ""]
        /\ pc = [r \in Req |-> "idle"]
        /\ req = [r \in Req |-> NoReq]
        /\ resp = [r \in Req |-> NoResp]
        /\ issued = [g \in Grant |-> 0]
        /\ last = [act |-> "Init", r |-> "", events |-> <<>>, forbid |-> ""]

Reply(s, e, m) == [status |-> s, err |-> e, minted |-> m]
Ev(op, g, ok) == [op |-> op, key |-> g, ok |-> ok]

(* a grant string a client can know: issued initially, or disclosed by a response *)
Known(g) == \/ g \in Codes \cup Tokens \cup {"bogus"}
            \/ \E q \in Req : g = Minted(q) /\ pc[q] = "done" /\ resp[q].minted

RECURSIVE Root(_)
Root(g) == IF g \in MintedSet
             THEN Root(req[CHOOSE q \in Req : g = Minted(q)].target)   \* presented only after it was minted: terminates
             ELSE g
Focused(a) == Focus => \A q \in Req : req[q] # NoReq => Root(req[q].target) = Root(a.target)

(* ---- what the STATEMENT of C23 forbids (independent of how the code decides) ---- *)
(* a success is forbidden when the grant already yielded tokens, or when the code      *)
(* carries a challenge and the verifier is not the matching one                        *)
Forbidden(a) == IF issued[a.target] >= 1 THEN "reuse"
                ELSE IF a.kind = "code" /\ a.target \in Codes /\ Challenge(a.target) # "none" /\ a.verifier # "right"
                       THEN "pkce" ELSE ""

(* ---- local checks after the entry was obtained (token.go) -------------------------- *)
CodeVerdict(a) ==
  LET c == a.target  cl == RealClient(a.client) IN
  IF CodeOwner(c) # cl THEN Reply(401, "invalid_client", FALSE)
  ELSE IF a.redirect # "same" THEN Reply(400, "invalid_grant", FALSE)
  ELSE IF IsPublic(cl) /\ Challenge(c) = "none" THEN Reply(400, "invalid_grant", FALSE)
  ELSE IF Challenge(c) = "plain" THEN Reply(400, "invalid_grant", FALSE)
  ELSE IF Challenge(c) = "s256" /\ a.verifier # "right" /\ ~(Impl = "broken" /\ a.verifier = "empty")
       THEN Reply(400, "invalid_grant", FALSE)
  ELSE Reply(200, "", AllowsRefresh(cl))

TokOwner(t) == IF t \in MintedSet THEN towner[t] ELSE TokenOwner0(t)
RefreshVerdict(a) ==
  IF TokOwner(a.target) # RealClient(a.client) THEN Reply(401, "invalid_client", FALSE)
  ELSE Reply(200, "", TRUE)

Verdict(a) == IF a.kind = "code" THEN CodeVerdict(a) ELSE RefreshVerdict(a)

Finish(act, r, a, rp, evs) ==
  /\ resp' = [resp EXCEPT ![r] = rp]
  /\ pc' = [pc EXCEPT ![r] = "done"]
  /\ last' = [act |-> act, r |-> r, events |-> evs, forbid |-> Forbidden(a)]

(* ---- Arrive: authentication, grant check, caches.Find ------------------------------ *)
Arrive(r, a) ==
  /\ pc[r] = "idle" /\ a \in Attrs /\ Known(a.target) /\ Focused(a)
  /\ req' = [req EXCEPT ![r] = a]
  /\ IF ~Authenticates(a.client)
       THEN /\ Finish("Arrive", r, a, Reply(401, "invalid_client", FALSE), <<>>)
            /\ UNCHANGED <<store, towner, issued>>
     ELSE IF a.kind = "refresh" /\ ~AllowsRefresh(RealClient(a.client))
       THEN /\ Finish("Arrive", r, a, Reply(400, "unauthorized_client", FALSE), <<>>)
            /\ UNCHANGED <<store, towner, issued>>
     ELSE IF ~store[a.target]
       THEN /\ Finish("Arrive", r, a, Reply(400, "invalid_grant", FALSE), <<Ev("Find", a.target, FALSE)>>)
            /\ UNCHANGED <<store, towner, issued>>
     ELSE /\ pc' = [pc EXCEPT ![r] = "found"]
          /\ last' = [act |-> "Arrive", r |-> r, events |-> <<Ev("Find", a.target, TRUE)>>, forbid |-> ""]
          /\ UNCHANGED <<store, towner, resp, issued>>

(* ---- Consume: caches.Delete, then the local checks and the response ---------------- *)
Refused == Reply(400, "invalid_grant", FALSE)
(* what a request may answer after its Delete returned d *)
Outcomes(a, d) == IF d THEN {Verdict(a)}
                  ELSE CASE Impl = "fixed"  -> {Refused}
                         [] Impl = "either" -> {Refused, Verdict(a)}    \* trace validation: let the invariants judge
                         [] OTHER           -> {Verdict(a)}             \* "asis"/"broken": the result of Delete is ignored
Consume(r) ==
  LET a == req[r]
      g == a.target
      d == store[g]
      m == Minted(r)
  IN  /\ pc[r] = "found"
      /\ \E v \in Outcomes(a, d) :
           /\ store' = [store EXCEPT ![g] = FALSE, ![m] = IF v.minted THEN TRUE ELSE @]
           /\ towner' = IF v.minted THEN [towner EXCEPT ![m] = RealClient(a.client)] ELSE towner
           /\ issued' = IF v.status = 200 THEN [issued EXCEPT ![g] = @ + 1] ELSE issued
           /\ Finish("Consume", r, a, v, <<Ev("Delete", g, d)>> \o (IF v.minted THEN <<Ev("Add", m, TRUE)>> ELSE <<>>))
      /\ UNCHANGED req

Next == \/ \E r \in Req : \E a \in Attrs : Arrive(r, a)
        \/ \E r \in Req : Consume(r)
Spec == Init /\ [][Next]_vars

(* ---- properties ---------------------------------------------------------------------- *)
TypeOK == /\ store \in [Grant -> BOOLEAN]
          /\ pc \in [Req -> {"idle", "found", "done"}]
          /\ \A r \in Req : req[r] = NoReq \/ req[r] \in Attrs
          /\ \A r \in Req : resp[r].status \in {0, 200, 400, 401}
          /\ issued \in [Grant -> 0..Cardinality(Req)]

(* C23-a/b: a code / a refresh token yields tokens at most once *)
SingleUse == \A g \in Grant : issued[g] <= 1

(* C23-c: a code issued with a challenge yields tokens only with the matching verifier *)
PKCEOnly == \A r \in Req :
              (resp[r].status = 200 /\ req[r].kind = "code" /\ Challenge(req[r].target) # "none")
                 => req[r].verifier = "right"

(* the step-level form used by the replay binding: no response is a success the statement forbids *)
NeverForbidden == [][ \A r \in Req : (resp'[r].status = 200 /\ resp[r].status = 0) => last'.forbid = "" ]_vars

(* sanity (not part of C23): something can be redeemed at all -- used as a vacuity guard through a *)
(* negated invariant in OAuthGrant_MC_live.cfg                                                      *)
NothingIssued == \A g \in Grant : issued[g] = 0
ChainNeverUsed == \A r \in Req : ~(resp[r].status = 200 /\ req[r].target \in MintedSet)
=============================================================================

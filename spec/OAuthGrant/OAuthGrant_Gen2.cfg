SPECIFICATION GenSpec
CONSTANTS
  Req = {"r1", "r2"}
  Codes = {"cA", "cAn", "cB", "cBp", "cBx", "cC"}
  Tokens = {"tA", "tB"}
  Presenters = {"A", "B", "C", "Bbad"}
  Redirects = {"same", "other"}
  Verifiers = {"right", "wrong", "empty", "padded"}
  Chain = TRUE
  Bogus = TRUE
  Focus = TRUE
  Impl = "fixed"
INVARIANTS Emit SingleUse PKCEOnly
CHECK_DEADLOCK FALSE

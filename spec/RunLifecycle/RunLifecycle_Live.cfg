SPECIFICATION Spec
CONSTANTS
  MaxUnits = 1
  MaxDepth = 1
  MaxExec = 2
  Impl = "fixed"
  Eager = FALSE
PROPERTIES Settles
CHECK_DEADLOCK FALSE

SPECIFICATION Spec
CONSTANTS
  MaxUnits = 2
  MaxDepth = 2
  MaxExec = 1
  Impl = "fixed"
  Eager = TRUE
INVARIANTS TypeOK Accounted NothingLeft Emit
CHECK_DEADLOCK FALSE

-------------------------- MODULE RunLifecycle_Trace --------------------------
(* Binding T.  The log is what one or more harness processes recorded while    *)
(* executing Ego programs / test files / services many times in-process:       *)
(*   Base   first event of a process: the goroutines that exist after the one- *)
(*          time initialisation, and the id of the goroutine that performs the *)
(*          executions (driver)                                                *)
(*   Exec   one finished execution: how it ended (kind), and the projected     *)
(*          goroutine profile taken after a short settling wait                *)
(*   Final  profile taken after the process has been still for a while         *)
(* Profiles are logged as differences to the previous one of the same process  *)
(* (add: new or changed goroutines, del: ids that are gone); `raw` is the      *)
(* current profile.                                                            *)
(* Every goroutine of every profile is classified here (by the function that   *)
(* created it) and every table is judged with Orphans of RunLifecycle - the    *)
(* operator of the invariant NothingLeft.  A goroutine is reported only if it  *)
(* is an orphan in the table of an execution AND still one in the next Final   *)
(* table: a helper that was told to stop but had not been scheduled yet is     *)
(* gone by then, a leaked one never goes.  Failing goroutines are accumulated  *)
(* with the abstract identity of the case (Key), the log is always consumed    *)
(* to its end.                                                                 *)
(* guard: for generated cases, the program goroutines an execution leaves for  *)
(* good must be exactly the residue the model computed (RunLifecycle_Gen) -    *)
(* so that the projection of `frames` and the rendering of the cases are       *)
(* pinned down; a difference with no orphan is a defect of the model or the    *)
(* renderer (no verdict), never a violation.                                   *)
EXTENDS RunLifecycleJudge, Json, TLC

VARIABLES i,       \* next event
          raw,     \* the projected goroutine profile after the last event
          base,    \* ids of the goroutines of the Base event
          driver,
          prev,    \* ids present in the previous table
          susp,    \* orphans seen since the last Final: [id, idx, key]
          pend,    \* generated executions since the last Final: [idx, ids (new program goroutines), expect, key]
          done,    \* ids already reported
          bad, guard, stats
tvars == <<i, raw, base, driver, prev, susp, pend, done, bad, guard, stats>>

Log == ndJsonDeserialize("trace.ndjson")
N   == Len(Log)
Ev  == Log[i]

Range(s) == {s[k] : k \in DOMAIN s}
BC == "github.com/tucats/ego/internal/language/bytecode"
KindOf(g) == g.cpkg \o "." \o g.cfn
OnceKinds == {SigKind, CacheKind, "github.com/tucats/ego/internal/cli/ui.OpenLogFile"}

ClassOf(g, b, d) ==
  IF g.id = d THEN "driver"
  ELSE IF g.cpkg = BC /\ g.cfn = "(*Context).RunFromAddress" THEN "watcher"
  ELSE IF g.cpkg = BC /\ g.cfn = "goByteCode" THEN "prog"
  ELSE IF KindOf(g) \in OnceKinds THEN "once"
  ELSE IF g.id \in b THEN "base"
  ELSE IF g.ego THEN "interp"
  ELSE "lib"     \* started by a Go library on behalf of an object the program opened (database/sql, net/http): not judged

Table(R, b, d) == {[id |-> g.id, cls |-> ClassOf(g, b, d), host |-> g.host, frames |-> g.frames, kind |-> KindOf(g)]
                   : g \in R}
Patch(R, e) == LET gone == Range(e.del) \cup {g.id : g \in Range(e.add)}
               IN {g \in R : g.id \notin gone} \cup Range(e.add)
Ids(V) == {g.id : g \in V}

HostCls(V, w) == IF \E h \in V : h.id = w.host THEN (CHOOSE h \in V : h.id = w.host).cls ELSE "gone"
What(V, g) == IF g.cls = "watcher" THEN "watcher/host=" \o HostCls(V, g)
              ELSE IF g.cls = "prog" THEN "prog/finished"
              ELSE IF g.cls = "once" THEN "once-grows/" \o g.kind
              ELSE "interp/" \o g.kind
Key(e, V, g) == e.path \o "/exit=" \o e.kind \o "/" \o What(V, g)

Expect(e) == {[f |-> x.f, w |-> x.w, n |-> x.n] : x \in Range(e.expect)}

TInit == /\ i = 1 /\ raw = {} /\ base = {} /\ driver = 0 /\ prev = {} /\ susp = {} /\ pend = {} /\ done = {}
         /\ bad = {} /\ guard = {}
         /\ stats = [execs |-> 0, tables |-> 0, goroutines |-> 0, helpers |-> 0, parked |-> 0, lib |-> 0, finals |-> 0]

TBase == /\ Ev.ev = "Base"
         /\ LET R == Range(Ev.add)
                V == Table(R, {g.id : g \in R}, Ev.driver)
            IN /\ raw' = R
               /\ base' = Ids(V) /\ driver' = Ev.driver /\ prev' = Ids(V)
               /\ susp' = {[id |-> g.id, idx |-> i, key |-> "init/" \o What(V, g)] : g \in Orphans(V)}
               /\ pend' = {} /\ done' = {}
               /\ stats' = [stats EXCEPT !.tables = @ + 1, !.goroutines = @ + Cardinality(V)]
         /\ UNCHANGED <<bad, guard>>

TExec == /\ Ev.ev = "Exec"
         /\ LET R   == Patch(raw, Ev)
                V   == Table(R, base, driver)
                O   == {g \in Orphans(V) : g.id \notin done}
                new == {g \in Parked(V) : g.id \notin prev}
            IN /\ raw' = R
               /\ susp' = {s \in susp : s.id \in Ids(O)}
                          \cup {[id |-> g.id, idx |-> i, key |-> Key(Ev, V, g)] : g \in {o \in O : o.id \notin Ids(susp)}}
               /\ pend' = IF Ev.hasexp
                          THEN pend \cup {[idx |-> i, ids |-> Ids(new), expect |-> Expect(Ev), key |-> Ev.key]}
                          ELSE pend
               /\ prev' = Ids(V)
               /\ stats' = [stats EXCEPT !.execs = @ + 1, !.tables = @ + 1, !.goroutines = @ + Cardinality(V),
                                         !.helpers = @ + Cardinality(ExplainedSet(V)),
                                         !.parked = @ + Cardinality(new),
                                         !.lib = @ + Cardinality({g \in V : g.cls = "lib" /\ g.id \notin prev})]
         /\ UNCHANGED <<base, driver, done, bad, guard>>

TFinal == /\ Ev.ev = "Final"
          /\ LET R    == Patch(raw, Ev)
                 V    == Table(R, base, driver)
                 O    == {g \in Orphans(V) : g.id \notin done}
                 late == {g \in O : g.id \notin Ids(susp)}
                 hit  == {s \in susp : s.id \in Ids(O)}
             IN /\ raw' = R
                /\ bad' = bad \cup {[idx |-> s.idx, key |-> s.key] : s \in hit}
                               \cup {[idx |-> i, key |-> "late/" \o What(V, g)] : g \in late}
                /\ done' = done \cup Ids(O)
                /\ guard' = guard \cup {[idx |-> p.idx, key |-> p.key] :
                                        p \in {q \in pend : ResidueOf(V, {g \in Parked(V) : g.id \in q.ids}) # q.expect}}
                /\ susp' = {} /\ pend' = {} /\ prev' = Ids(V)
                /\ stats' = [stats EXCEPT !.finals = @ + 1, !.tables = @ + 1, !.goroutines = @ + Cardinality(V)]
          /\ UNCHANGED <<base, driver>>

TNext == i <= N /\ i' = i + 1 /\ (TBase \/ TExec \/ TFinal)
TSpec == TInit /\ [][TNext]_tvars

Report == i <= N \/ PrintT(ToJson([n |-> N, bad |-> bad, guard |-> guard, stats |-> stats,
                                   open |-> Cardinality(susp) + Cardinality(pend)]))
=============================================================================

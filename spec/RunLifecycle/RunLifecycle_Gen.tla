--------------------------- MODULE RunLifecycle_Gen ---------------------------
(* Case generator for the binding: every case at the bound is executed by    *)
(* the model (one top-level execution, pending exits taken eagerly) and       *)
(* printed, once it is quiescent, with what the model says is left behind:    *)
(*   units   the case (rendered as an Ego program by checks/C09.py)           *)
(*   status  how main ends: ok | error | panic                                *)
(*   expect  the legitimate residue: program goroutines that never finish,    *)
(*           as a bag of [f: executions active on it, w: helpers it hosts]    *)
(*   key     identity of the case                                             *)
EXTENDS RunLifecycle, Json

UStr(u) == u.s \o ":" \o (IF u.b THEN "block" ELSE u.x) \o "@" \o ToString(u.d)
RECURSIVE KeyOf(_, _)
KeyOf(c, i) == IF i > Len(c) THEN "" ELSE (IF i > 1 THEN " " ELSE "") \o UStr(c[i]) \o KeyOf(c, i + 1)

CaseRec == [units |-> cs, status |-> status, expect |-> Residue(View), key |-> KeyOf(cs, 1)]
Emit == ~(nexec = 1 /\ Quiescent) \/ PrintT(ToJson(CaseRec))
=============================================================================

SPECIFICATION Spec
CONSTANTS
  MaxUnits = 1
  MaxDepth = 2
  MaxExec = 2
  Impl = "respawn"
  Eager = FALSE
INVARIANTS TypeOK Accounted NothingLeft
CHECK_DEADLOCK FALSE

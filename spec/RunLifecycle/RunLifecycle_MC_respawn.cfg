SPECIFICATION Spec
CONSTANTS
  MaxUnits = 1
  MaxDepth = 1
  MaxExec = 2
  Impl = "respawn"
  Eager = FALSE
INVARIANTS NothingLeft
CHECK_DEADLOCK FALSE

SPECIFICATION Spec
CONSTANTS
  MaxUnits = 2
  MaxDepth = 2
  MaxExec = 1
  Impl = "noerr"
  Eager = FALSE
INVARIANTS NothingLeft
CHECK_DEADLOCK FALSE

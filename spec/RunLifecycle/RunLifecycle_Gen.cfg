SPECIFICATION Spec
CONSTANTS
  MaxUnits = 3
  MaxDepth = 3
  MaxExec = 1
  Impl = "fixed"
  Eager = TRUE
INVARIANTS TypeOK Accounted NothingLeft Emit
CHECK_DEADLOCK FALSE

SPECIFICATION Spec
CONSTANTS
  MaxUnits = 3
  MaxDepth = 3
  MaxExec = 1
  Impl = "fixed"
  Eager = FALSE
INVARIANTS TypeOK Accounted NothingLeft
CHECK_DEADLOCK FALSE

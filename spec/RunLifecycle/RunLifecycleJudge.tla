---------------------------- MODULE RunLifecycleJudge ----------------------------
(* C09: the judgement on a table of goroutines.  No variables, no constants:  *)
(* RunLifecycle applies it to the model's own state (invariant NothingLeft),  *)
(* RunLifecycle_Trace applies it to tables projected from goroutine profiles  *)
(* of the real process.                                                       *)
EXTENDS Integers, Sequences, FiniteSets

SigKind == "os/signal.Notify.func1.1"
CacheKind == "github.com/tucats/ego/internal/caches.newCache"

(* ------------------------------------------------------------------------ *)
(* The judgement, on a goroutine table V = set of                            *)
(*   [id, cls, host, frames, kind]                                           *)
(*   cls    driver | prog | watcher | once | interp | lib | base             *)
(*   host   id of the goroutine that created it                              *)
(*   frames number of executions (RunFromAddress calls) active on it         *)
(* It is used on the model's own state (invariant NothingLeft) and, by        *)
(* RunLifecycle_Trace, on tables projected from goroutine profiles of the     *)
(* real process.                                                             *)
(* ------------------------------------------------------------------------ *)
OnceMax(k) == IF k = CacheKind THEN 16 ELSE 1   \* one sweeper per cache class (9 built-in classes)

Watchers(V)    == {g \in V : g.cls = "watcher"}
HostedBy(V, h) == {w \in Watchers(V) : w.host = h.id}
(* a helper is accounted for iff the goroutine that started it is alive, can  *)
(* host executions, and is still inside at least as many executions as it     *)
(* has helpers                                                                *)
GoodHosts(V) == LET W == Watchers(V)
                IN {h.id : h \in {x \in V : /\ x.cls \in {"prog", "driver"}
                                            /\ Cardinality({w \in W : w.host = x.id}) <= x.frames}}
Explained(V, w) == w.host \in GoodHosts(V)
ExplainedSet(V) == LET G == GoodHosts(V) IN {w \in Watchers(V) : w.host \in G}
TooMany(V) == LET O == {g \in V : g.cls = "once"}
              IN {g \in O : Cardinality({o \in O : o.kind = g.kind}) > OnceMax(g.kind)}
Orphans(V) == (Watchers(V) \ ExplainedSet(V))
              \cup {g \in V : g.cls = "prog" /\ g.frames = 0}       \* the program function is over (or never began)
              \cup {g \in V : g.cls = "interp"}                     \* any other interpreter-started goroutine
              \cup TooMany(V)                                       \* a one-time worker started again

(* the legitimate residue: program goroutines still inside their function,   *)
(* as a bag of (frames, helpers)                                             *)
Parked(V) == {g \in V : g.cls = "prog" /\ g.frames >= 1}
Shape(V, g) == [f |-> g.frames, w |-> Cardinality(HostedBy(V, g))]
ResidueOf(V, P) == {[f |-> s.f, w |-> s.w, n |-> Cardinality({g \in P : Shape(V, g) = s})]
                    : s \in {Shape(V, g) : g \in P}}
Residue(V) == ResidueOf(V, Parked(V))

=============================================================================

----------------------------- MODULE RunLifecycle -----------------------------
(* C09 - finished executions leave nothing running.                           *)
(*                                                                            *)
(* Shaped like internal/language/bytecode: an *execution* is one call of      *)
(* Context.RunFromAddress.  Entering it starts a helper goroutine (the     *)
(* SIGINT watcher, run.go) that belongs to that call; leaving it - normally,  *)
(* with an error, or because an unrecovered panic unwound it - must give the  *)
(* helper its stop signal (close(done) in the deferred cleanup), after which  *)
(* the helper exits on its own schedule.  Executions nest on one goroutine    *)
(* (callbacks of runtime functions: sort comparator, String() method,         *)
(* os.Expand mapper, tables.Find predicate, deferred calls: each runs a       *)
(* Context of its own) and start program goroutines (`go`: goByteCode ->      *)
(* GoRoutine -> Run on a new goroutine), which may never finish.  The first   *)
(* signal.Notify of a process starts the os/signal loop: a one-time           *)
(* process-wide worker.                                                       *)
(*                                                                            *)
(* A program is a *case*: run units in pre-order with their depth.            *)
(*   s  site   main | cb (callback of a runtime function) | defer | go         *)
(*   x  exit   ok | error | panic      how the unit's execution ends          *)
(*   d  depth  0 for main                                                     *)
(*   b  blocks the unit never returns (only inside a program goroutine)       *)
(* The generated Ego programs make the walk sequential (a parent waits until  *)
(* a `go` child has finished or has announced that it blocks), so the only    *)
(* real concurrency is between the walk and the exits of released helpers     *)
(* and finished program goroutines - which is the concurrency that matters    *)
(* for C09.                                                                   *)
(*                                                                            *)
(* Impl: "fixed"   the cleanup releases the helper on every exit (the code)   *)
(*       "asis"    GORTNS-1: signal.Stop only, the helper is never released   *)
(*       "noerr"   the helper is released on the normal exit path only        *)
(*       "respawn" the one-time worker is started by every top-level run      *)
EXTENDS RunLifecycleJudge, TLC

CONSTANTS MaxUnits,   \* units of a case besides main
          MaxDepth,   \* nesting depth of units (main = 0)
          MaxExec,    \* top-level executions in one process
          Impl,
          Eager       \* TRUE: pending exits happen before the walk goes on (case generation)

Sites == {"cb", "defer", "go"}
Exits == {"ok", "error", "panic"}

(* ------------------------------------------------------------------------ *)
(* Cases                                                                     *)
(* ------------------------------------------------------------------------ *)
Unit     == [s : Sites, x : Exits, d : 1..MaxDepth, b : BOOLEAN]
MainUnit == [s : {"main"}, x : Exits, d : {0}, b : {FALSE}]

Parent(c, i) == IF c[i].d = 0 THEN 0
                ELSE CHOOSE j \in 1..(i - 1) : /\ c[j].d = c[i].d - 1
                                               /\ \A k \in (j + 1)..(i - 1) : c[k].d >= c[i].d
RECURSIVE GoRoot(_, _)
GoRoot(c, i) == IF i = 0 THEN 0 ELSE IF c[i].s = "go" THEN i ELSE GoRoot(c, Parent(c, i))
Subtree(c, i) == {j \in (i + 1)..Len(c) : \A k \in (i + 1)..j : c[k].d > c[i].d}
(* the unit never returns: it, or a descendant on the same goroutine, blocks *)
NeverExits(c, k) == \E j \in Subtree(c, k) \cup {k} : c[j].b /\ GoRoot(c, j) = GoRoot(c, k)

GoFails(c, i) == /\ c[i].s = "go"
                 /\ \/ c[i].x # "ok"
                    \/ \E k \in Subtree(c, i) : Parent(c, k) = i /\ c[k].s = "defer" /\ c[k].x # "ok"

WFCase(c) ==
  /\ Len(c) >= 1 /\ c[1] \in MainUnit
  /\ \A i \in 2..Len(c) : c[i] \in Unit /\ c[i].d <= c[i - 1].d + 1
  /\ \A i \in 1..Len(c) :
       /\ c[i].b => /\ GoRoot(c, i) # 0
                    \* nothing else runs on a goroutine after it blocks
                    /\ (i = Len(c) \/ c[i + 1].d <= c[GoRoot(c, i)].d)
       /\ NeverExits(c, i) => c[i].x = "ok"                       \* canonical form: the exit is never taken
       /\ c[i].s = "defer" => ~c[i].b /\ \A j \in Subtree(c, i) : c[j].s # "go"
       \* an error or an unrecovered panic leaving a program goroutine - from its function or
       \* from one of the function's deferred calls - stops the context that launched it at an
       \* arbitrary point (GoRoutine: parentCtx.goErr, running = false): only as the last thing
       \* of a case
       /\ GoFails(c, i) => Subtree(c, i) = (i + 1)..Len(c)

Cases == UNION {{c \in {<<m>> \o t : m \in MainUnit, t \in [1..n -> Unit]} : WFCase(c)} : n \in 0..MaxUnits}

(* ------------------------------------------------------------------------ *)
(* The machine                                                               *)
(* ------------------------------------------------------------------------ *)
VARIABLES cs,      \* the case being executed
          pc,      \* next unit to start; 0 = no top-level execution in progress
          stk,     \* active units, innermost last: [u: unit index, g: goroutine, w: its helper]
          gor,     \* live goroutines: id -> record
          nid,     \* next goroutine id
          nexec,   \* top-level executions begun
          status   \* how the last finished top-level execution ended ("" before)
vars == <<cs, pc, stk, gor, nid, nexec, status>>

Rec(cls, host, lvl, kind) ==
  [cls |-> cls, host |-> host, lvl |-> lvl, kind |-> kind,
   rel |-> FALSE,      \* helper: its stop signal has been given
   frames |-> 0,       \* driver/prog: executions active on it
   fin |-> FALSE]      \* prog: GoRoutine has returned from Run

Driver == 0
Init == /\ cs = <<>> /\ pc = 0 /\ stk = <<>> /\ nid = 1 /\ nexec = 0 /\ status = ""
        /\ gor = (Driver :> Rec("driver", 0, 0, ""))

Top == stk[Len(stk)]
Pending == \E i \in DOMAIN gor : (gor[i].cls = "watcher" /\ gor[i].rel) \/ (gor[i].cls = "prog" /\ gor[i].fin)
CanWalk == ~Eager \/ ~Pending

Begin(c) == /\ pc = 0 /\ nexec < MaxExec /\ CanWalk
            /\ cs' = c /\ pc' = 1 /\ stk' = <<>> /\ nexec' = nexec + 1
            /\ UNCHANGED <<gor, nid, status>>

(* RunFromAddress is entered: on a new goroutine for `go`, else on the one    *)
(* that runs the parent unit.  signal.Notify + the watcher goroutine.        *)
Enter ==
  /\ pc \in 1..Len(cs) /\ cs[pc].d = Len(stk) /\ CanWalk
  /\ LET u     == cs[pc]
         isgo  == u.s = "go"
         par   == IF stk = <<>> THEN Driver ELSE Top.g
         g     == IF isgo THEN nid ELSE par
         w     == IF isgo THEN nid + 1 ELSE nid
         sig   == (~\E i \in DOMAIN gor : gor[i].cls = "once") \/ (Impl = "respawn" /\ u.s = "main")
         o     == w + 1
         g0    == IF isgo THEN Rec("prog", par, 0, "") ELSE gor[g]
         lvl   == g0.frames + 1
         news  == (g :> [g0 EXCEPT !.frames = lvl]) @@ (w :> Rec("watcher", g, lvl, ""))
                  @@ (IF sig THEN (o :> Rec("once", g, 0, SigKind)) ELSE <<>>)
     IN /\ gor' = news @@ gor
        /\ nid' = (IF sig THEN o ELSE w) + 1
        /\ stk' = Append(stk, [u |-> pc, g |-> g, w |-> w])
        /\ pc' = pc + 1
  /\ UNCHANGED <<cs, nexec, status>>

Released(x) == CASE Impl = "asis"  -> FALSE
                 [] Impl = "noerr" -> x = "ok"
                 [] OTHER          -> TRUE

NoChild == IF pc > Len(cs) THEN TRUE ELSE cs[pc].d # Len(stk)

(* the innermost unit has run its children and returns from RunFromAddress    *)
Leave ==
  /\ stk # <<>> /\ NoChild /\ ~cs[Top.u].b /\ CanWalk
  /\ LET u   == cs[Top.u]
         g   == Top.g
         lvl == gor[g].frames
     IN /\ gor' = [i \in DOMAIN gor |->
                     IF i = g THEN [gor[i] EXCEPT !.frames = lvl - 1, !.fin = (u.s = "go")]
                     ELSE IF i = Top.w      \* the deferred cleanup of this call: signal.Stop; close(done)
                          THEN [gor[i] EXCEPT !.rel = Released(u.x)]
                     ELSE gor[i]]
        /\ stk' = SubSeq(stk, 1, Len(stk) - 1)
        /\ IF Len(stk) = 1 THEN pc' = 0 /\ status' = u.x ELSE UNCHANGED <<pc, status>>
  /\ UNCHANGED <<cs, nid, nexec>>

(* the innermost unit blocks for ever: its goroutine stays inside all the     *)
(* executions it has entered; the walk continues with whoever waited for it  *)
Park ==
  /\ stk # <<>> /\ NoChild /\ cs[Top.u].b /\ CanWalk
  /\ stk' = SelectSeq(stk, LAMBDA e : e.g # Top.g)
  /\ UNCHANGED <<cs, pc, gor, nid, nexec, status>>

WatcherExit(i) == /\ gor[i].cls = "watcher" /\ gor[i].rel
                  /\ gor' = [j \in DOMAIN gor \ {i} |-> gor[j]]
                  /\ UNCHANGED <<cs, pc, stk, nid, nexec, status>>
ProgExit(i) == /\ gor[i].cls = "prog" /\ gor[i].fin
               /\ gor' = [j \in DOMAIN gor \ {i} |-> gor[j]]
               /\ UNCHANGED <<cs, pc, stk, nid, nexec, status>>

Next == \/ \E c \in Cases : Begin(c)
        \/ Enter \/ Leave \/ Park
        \/ \E i \in DOMAIN gor : WatcherExit(i) \/ ProgExit(i)
Spec == Init /\ [][Next]_vars /\ WF_vars(Next)

(* ------------------------------------------------------------------------ *)
(* Properties                                                                *)
(* ------------------------------------------------------------------------ *)
View == {[id |-> i, cls |-> gor[i].cls, host |-> gor[i].host, frames |-> gor[i].frames, kind |-> gor[i].kind]
         : i \in DOMAIN gor}

TypeOK == /\ pc \in 0..(Len(cs) + 1)
          /\ \A i \in DOMAIN gor : gor[i].cls \in {"driver", "prog", "watcher", "once"} /\ gor[i].frames >= 0
          /\ \A k \in 1..Len(stk) : stk[k].g \in DOMAIN gor

(* every helper that has not been told to stop belongs to an execution that   *)
(* is still in progress on a live goroutine                                   *)
Accounted == \A i \in DOMAIN gor :
               (gor[i].cls = "watcher" /\ ~gor[i].rel)
                 => (gor[i].host \in DOMAIN gor /\ gor[gor[i].host].frames >= gor[i].lvl)

(* nothing is executing on the driver, and everything that was told to stop   *)
(* has stopped                                                                *)
Quiescent == pc = 0 /\ ~Pending

(* C09: at quiescence the only goroutines left are program goroutines that    *)
(* have not finished, the helpers of the executions still in progress on      *)
(* them, and the one-time workers - however many executions there were       *)
NothingLeft == Quiescent => Orphans(View) = {}

(* whatever happens, the process settles *)
Settles == []<>Quiescent
=============================================================================

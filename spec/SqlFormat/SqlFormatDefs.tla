--------------------------- MODULE SqlFormatDefs ---------------------------
(* C16 - SQL reformatting preserves statements.                              *)
(* The generated space of CASES (one statement each), assembled from         *)
(*   SqlFormatExpr   expression sub-grammar + model of reader/printer/lexer  *)
(*   SqlFormatIdent  identifier quoting classes x grammar positions          *)
(*   SqlFormatStmt   clause/option matrices of every statement kind          *)
(* A case is a record                                                        *)
(*   fam    "expr" | "ident" | "select" | "insert" | "update" | "delete" |   *)
(*          "create_table" | "create_index" | "create_view" | "drop" |       *)
(*          "alter" | "txn" | "misc"                                         *)
(*   d      dialect the statement is parsed and formatted in                 *)
(*   what   abstract identity of the case (set of strings)                   *)
(*   sql    the statement; fx/pre/probe/fresh: how to observe its effect     *)
(*   etoks  (expr) the expression's tokens, for the model reader             *)
(*   pos, cls, name, srcq  (ident) the planted name                          *)
EXTENDS SqlFormatExpr, SqlFormatIdent, SqlFormatStmt

CONSTANT EBound    \* "small": operator pairs over one representative per ladder level; "full": every operator spelling

Dialects == {"sqlite", "pg"}

Case(fam, d, what, sql, fx, pre, probe, fresh, etoks, pos, cls, name, srcq) ==
  [fam |-> fam, d |-> d, what |-> what, sql |-> sql, fx |-> fx, pre |-> pre, probe |-> probe, fresh |-> fresh,
   etoks |-> etoks, pos |-> pos, cls |-> cls, name |-> name, srcq |-> srcq]
Plain(fam, d, what, sql, pre, probe, fresh) == Case(fam, d, what, sql, <<>>, pre, probe, fresh, <<>>, "", "", "", FALSE)

(* expressions: framed so that every operator result is observable           *)
Frame(e) == "SELECT " \o e \o " AS r FROM t ORDER BY id"
EBounded == IF EBound = "full" THEN ECases ELSE ESmall
EWhat(c) == {c.form} \cup {ToString(i) \o ":" \o c.cls[i] : i \in 1..Len(c.cls)}
ExprCases == {Case("expr", "sqlite", EWhat(c), Frame(Join(c.toks)), <<>>, <<>>, <<>>, FALSE, c.toks, "", "", "", FALSE) : c \in EBounded}

IdentCases ==
  UNION {UNION {{LET ic == IdCase(p, i) IN
                 Case("ident", d, {i.cls \o "@" \o p}, ic.sql, ic.fx, ic.pre, ic.probe, ic.fresh, <<>>, p, i.cls, i.name, i.q)
                 : d \in Dialects} : i \in Spellings} : p \in Positions}
  \cup UNION {UNION {{LET ic == EngineCase(p, i) IN
                 Case("ident", d, {i.cls \o "@" \o p}, ic.sql, ic.fx, ic.pre, ic.probe, ic.fresh, <<>>, p, i.cls, i.name, i.q)
                 : d \in Dialects} : i \in EngineSpellings(p)} : p \in EnginePositions}

Fam(fam, Base, Vals, Sql(_), probe) ==
  UNION {{Plain(fam, d, Feat(Base, s), Sql(s), <<>>, probe, FALSE) : d \in Dialects} : s \in Space(Base, Vals)}

StmtCases ==
  Fam("select", SelBase, SelVals, SelSql, <<>>)
  \cup Fam("insert", InsBase, InsVals, InsSql, <<>>)
  \cup Fam("update", UpdBase, UpdVals, UpdSql, <<>>)
  \cup Fam("delete", DelBase, DelVals, DelSql, <<>>)
  \cup Fam("create_table", CtBase, CtVals, CtSql, CtProbe)
  \cup Fam("create_index", CiBase, CiVals, CiSql, CiProbe)
  \cup Fam("create_view", CvBase, CvVals, CvSql, CvProbe)
  \cup Fam("drop", DropBase, DropVals, DropSql, <<>>)
  \cup Fam("alter", AltBase, AltVals, AltSql, AltProbe)
  \cup UNION {{Plain("txn", d, c.feat, c.sql, c.pre, TxnProbe, TRUE) : d \in Dialects} : c \in TxnCases}
  \cup UNION {{Plain("misc", d, {c.name}, c.sql, <<>>, <<>>, FALSE) : d \in Dialects} : c \in MiscCases}

Cases == ExprCases \cup IdentCases \cup StmtCases
=============================================================================

--------------------------- MODULE SqlFormat_Gen ---------------------------
(* Generator: every case of the bound is one initial state, printed with its *)
(* statement text for the binding (F).                                       *)
EXTENDS SqlFormatDefs, Json

VARIABLE s

GenInit == /\ s \in Cases
           /\ PrintT(ToJson(s))
GenNext == UNCHANGED s
GenSpec == GenInit /\ [][GenNext]_s

(* printed once: the fixture shared by every case that has none of its own   *)
ASSUME PrintT(ToJson([fixture |-> Fixture]))
=============================================================================

SPECIFICATION Spec
CONSTANTS
  UnaryGlue = "spaced"
  IdentQuote = "asis"
  EBound = "small"
INVARIANTS KeepsRole KeepsExec KeepsDenotation
CHECK_DEADLOCK FALSE

SPECIFICATION Spec
CONSTANTS
  UnaryGlue = "spaced"
  IdentQuote = "asis"
  EBound = "small"
INVARIANTS KeepsRole
CHECK_DEADLOCK FALSE

SPECIFICATION Spec
CONSTANTS
  UnaryGlue = "spaced"
  IdentQuote = "asis"
  EBound = "small"
INVARIANTS KeepsDenotation
CHECK_DEADLOCK FALSE

----------------------------- MODULE SqlFormat -----------------------------
(* C16 - SQL reformatting preserves statements: the design, model checked.   *)
(*                                                                           *)
(* One behaviour = one source item through the pipeline the @sql endpoint    *)
(* runs:  parse -> Format -> (the database's / the parser's own) re-reading  *)
(* of the printed text -> Format again.                                      *)
(*   kind = "expr":  an expression of the bounded space; Read/Fmt/Lex are    *)
(*                   the models of expr.go / format_expr.go / lexer.go       *)
(*   kind = "ident": a planted name in a dialect; how format.go writes it    *)
(*                   back (quoted or bare) and what that spelling means      *)
(* UnaryGlue / IdentQuote select the printer: "asis" models the unchanged    *)
(* tree (negative control), the other value the behaviour the property asks  *)
(* for.                                                                      *)
EXTENDS SqlFormatDefs

CONSTANT IdentQuote   \* "asis": quoted iff PostgreSQL or not a plain word; "design": quoted iff the source spelled it quoted

VARIABLES kind, src, phase, t1, out, t2, out2
vars == <<kind, src, phase, t1, out, t2, out2>>

NoTree == Fail(0)
NoOut  == <<>>

IdentItems == {[sp |-> sp, d |-> d] : sp \in Spellings \cup CollSpellings \cup FuncSpellings \cup TypeSpellings \cup SchemaSpellings, d \in Dialects}

Init == /\ \/ kind = "expr" /\ src \in EBounded
           \/ kind = "ident" /\ src \in IdentItems
        /\ phase = "source" /\ t1 = NoTree /\ out = NoOut /\ t2 = NoTree /\ out2 = NoOut

(* ---- expressions ---- *)
Parse1 == /\ kind = "expr" /\ phase = "source"
          /\ t1' = Read(src.toks)
          /\ phase' = IF t1'.ok THEN "parsed" ELSE "rejected"
          /\ UNCHANGED <<kind, src, out, t2, out2>>
Format1 == /\ kind = "expr" /\ phase = "parsed"
           /\ out' = Fmt(t1.t) /\ phase' = "formatted"
           /\ UNCHANGED <<kind, src, t1, t2, out2>>
Parse2 == /\ kind = "expr" /\ phase = "formatted"
          /\ t2' = Read(Lex(out)) /\ phase' = "reparsed"
          /\ UNCHANGED <<kind, src, t1, out, out2>>
Format2 == /\ kind = "expr" /\ phase = "reparsed" /\ t2.ok
           /\ out2' = Fmt(t2.t) /\ phase' = "done"
           /\ UNCHANGED <<kind, src, t1, out, t2>>

(* ---- identifiers ---- *)
PrintQuoted(sp, d) == IF IdentQuote = "design" THEN sp.q ELSE (d = "pg" \/ sp.name \notin BareNames)
WriteIdent == /\ kind = "ident" /\ phase = "source"
              /\ out' = <<[t |-> src.sp.name, g |-> PrintQuoted(src.sp, src.d)]>>     \* g: written quoted
              /\ phase' = "done"
              /\ UNCHANGED <<kind, src, t1, t2, out2>>

Next == Parse1 \/ Format1 \/ Parse2 \/ Format2 \/ WriteIdent
Spec == Init /\ [][Next]_vars

TypeOK == /\ kind \in {"expr", "ident"}
          /\ phase \in {"source", "parsed", "rejected", "formatted", "reparsed", "done"}

(* the property, on the model *)
RoundTrip  == (kind = "expr" /\ phase \in {"reparsed", "done"}) => (t2.ok /\ Show(t2.t) = Show(t1.t))
Idempotent == (kind = "expr" /\ phase = "done") => Text(out2) = Text(out)
Written    == kind = "ident" /\ phase = "done"
(* a name the source had to quote because the reader (resp. SQLite) gives the bare word a role stays quoted *)
KeepsRole  == Written => (out[1].g \/ ~src.sp.q \/ Lower(src.sp.name) \notin ReaderWords)
KeepsExec  == Written => (out[1].g \/ ~src.sp.q \/ Lower(src.sp.name) \notin SqliteReserved)
KeepsName  == Written => (out[1].g \/ src.sp.name \in LexBare)                         \* a bare spelling must lex as one word
KeepsDenotation == Written => Denote(src.d, out[1].g, src.sp.name) = Denote(src.d, src.sp.q, src.sp.name)
=============================================================================

SPECIFICATION Spec
CONSTANTS
  UnaryGlue = "spaced"
  IdentQuote = "design"
  EBound = "small"
INVARIANTS TypeOK RoundTrip Idempotent KeepsRole KeepsExec KeepsName KeepsDenotation
CHECK_DEADLOCK FALSE

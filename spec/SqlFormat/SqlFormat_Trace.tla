-------------------------- MODULE SqlFormat_Trace --------------------------
(* Binding F: judges the log of what the REAL code did (io.ndjson) against   *)
(* C16.  One record = one generated statement:                               *)
(*   parsed, ast1           sqlparse.New(text): accepted?, projected tree    *)
(*   text2                  Format() of it                                   *)
(*   parsed2, ast2, text3   sqlparse.New(text2): accepted?, tree, Format()   *)
(*   toks2                  the real lexer's tokens of text2                 *)
(*   x1, x2                 what a scratch SQLite database did with text and *)
(*                          with text2: ran, ok, digest of the result rows,  *)
(*                          digest of (probe outcomes, database state)       *)
(*   e1, e2txt (expr)       projected tree / printed text of the expression  *)
(* plus the case's identity from the generator (fam, d, what, etoks, pos,    *)
(* cls, name, srcq).                                                         *)
(*                                                                           *)
(* The property, clause by clause (statement of C16):                        *)
(*   reparse  the reformatted text parses to the same syntax tree            *)
(*   idem     reformatting the reformatted text changes nothing              *)
(*   exec     executing the reformatted text has the same effect and result  *)
(*   denote   (where nothing can be executed: PostgreSQL) every planted name *)
(*            still denotes the same object under PostgreSQL's folding rule  *)
(* Domain WF: the parser accepts the statement.  exec is decided only where  *)
(* both texts were run, SQLite's own grammar accepts the original ("where    *)
(* the dialect allows") and (SQLite dialect, or SQLite executed the original).*)
EXTENDS SqlFormatDefs, Json

VARIABLES i, bad, xbad, cnt, aux

Log == ndJsonDeserialize("io.ndjson")
N == Len(Log)
ToSet(seq) == {seq[j] : j \in 1..Len(seq)}

WF(r) == r.parsed

Reparse(r) == r.parsed2 /\ r.ast2 = r.ast1
Idem(r)    == r.parsed2 => r.text3 = r.text2
ExecDom(r) == r.x1.ran /\ r.x2.ran /\ ~r.x1.syn /\ (r.d = "sqlite" \/ r.x1.ok)
Exec(r)    == ExecDom(r) => (r.x1.ok = r.x2.ok /\ r.x1.rows = r.x2.rows /\ r.x1.state = r.x2.state)
Occ(r)     == {j \in 1..Len(r.toks2) : r.toks2[j].k = "identifier" /\ Lower(r.toks2[j].t) = Lower(r.name)}
DenoteDom(r) == r.fam = "ident" /\ r.d = "pg" /\ r.cls \notin KwClasses /\ r.parsed2
DenoteOK(r) == DenoteDom(r) =>
                 /\ Occ(r) # {}
                 /\ \A j \in Occ(r) : Denote("pg", r.toks2[j].q, r.toks2[j].t) = Denote("pg", r.srcq, r.name)

Failed(r) == (IF Reparse(r) THEN {} ELSE {"reparse"}) \cup (IF Idem(r) THEN {} ELSE {"idem"})
             \cup (IF Exec(r) THEN {} ELSE {"exec"}) \cup (IF DenoteOK(r) THEN {} ELSE {"denote"})
Post(r) == Failed(r) = {}

(* model fidelity (expression family): the spec's reader and printer agree   *)
(* with the real parser and printer on this input                            *)
Fid(r) == LET m == Read(r.etoks) IN
          /\ m.ok = r.parsed
          /\ r.parsed => (r.e1 = Show(m.t) /\ r.e2txt = Text(Fmt(m.t)))

(* abstract identity of a failing case (what) and the clauses that go into   *)
(* its key (kcl).                                                            *)
(*  statement families: the non-default options; when one of them fails the  *)
(*    same clauses on its own, that option is the identity                   *)
(*  identifiers: kind@route when every class of that kind fails at every     *)
(*    position of that route, else class@route when the class fails at every *)
(*    position of the route, else class@position; the key's clauses are then *)
(*    the union over the aggregated cells                                    *)
(* aux (computed once): F[j] = failed clauses of record j; single = options  *)
(* failing on their own; kr / cr = the verdict per (dialect, kind, route) /  *)
(* (dialect, class, route) group of identifier cells.                        *)
IsMatrix(r) == r.fam \notin {"expr", "ident"}
Cell(x) == [d |-> x.d, cls |-> x.cls, pos |-> x.pos]
KR(x) == [d |-> x.d, k |-> Kind(x.cls), r |-> Route(x.pos)]
CR(x) == [d |-> x.d, c |-> x.cls, r |-> Route(x.pos)]
Group(all, badc, sel(_), g) ==
  LET a == {x \in all : sel(x) = g}
      b == {y \in badc : sel(y) = g} IN
  [full |-> Cardinality(a) > 1 /\ a = {Cell(y) : y \in b}, cl |-> UNION {y.cl : y \in b}]

Aux ==
  LET F        == [j \in 1..N |-> IF WF(Log[j]) THEN Failed(Log[j]) ELSE {}]
      BadSet   == {j \in 1..N : F[j] # {}}
      identall == {Cell(Log[j]) : j \in {k \in 1..N : Log[k].fam = "ident" /\ WF(Log[k])}}
      identbad == {[d |-> Log[j].d, cls |-> Log[j].cls, pos |-> Log[j].pos, cl |-> F[j]] : j \in {k \in BadSet : Log[k].fam = "ident"}}
  IN [F      |-> F,
      single |-> {[fam |-> Log[j].fam, d |-> Log[j].d, f |-> Log[j].what[1], cl |-> F[j]]
                  : j \in {k \in BadSet : IsMatrix(Log[k]) /\ Len(Log[k].what) = 1}},
      kr     |-> [g \in {KR(x) : x \in identbad} |-> Group(identall, identbad, KR, g)],
      cr     |-> [g \in {CR(x) : x \in identbad} |-> Group(identall, identbad, CR, g)]]

Id(r, cl) ==
  LET w == ToSet(r.what) IN
  IF r.fam = "ident" THEN
    IF aux.kr[KR(r)].full THEN [what |-> {Kind(r.cls) \o "@" \o Route(r.pos)}, kcl |-> aux.kr[KR(r)].cl]
    ELSE IF aux.cr[CR(r)].full THEN [what |-> {r.cls \o "@" \o Route(r.pos)}, kcl |-> aux.cr[CR(r)].cl]
    ELSE [what |-> w, kcl |-> cl]
  ELSE IF IsMatrix(r) THEN
    LET cu == {f \in w : [fam |-> r.fam, d |-> r.d, f |-> f, cl |-> cl] \in aux.single} IN
    [what |-> IF cu # {} THEN cu ELSE w, kcl |-> cl]
  ELSE [what |-> w, kcl |-> cl]

TInit == /\ i = 1 /\ bad = {} /\ xbad = {}
         /\ cnt = [rejected |-> 0, decided_exec |-> 0, decided_denote |-> 0, fid |-> 0]
         /\ aux = Aux
TNext == /\ i <= N
         /\ LET r  == Log[i]
                cl == aux.F[i] IN
              /\ bad' = IF cl # {}
                          THEN LET id == Id(r, cl) IN
                               bad \cup {[idx |-> i, fam |-> r.fam, d |-> r.d, what |-> id.what, clauses |-> id.kcl, own |-> cl]}
                          ELSE bad
              /\ xbad' = IF r.fam = "expr" /\ ~Fid(r) THEN xbad \cup {i} ELSE xbad
              /\ cnt' = [rejected |-> cnt.rejected + (IF WF(r) THEN 0 ELSE 1),
                         decided_exec |-> cnt.decided_exec + (IF WF(r) /\ ExecDom(r) /\ (r.x1.ok \/ r.x2.ok) THEN 1 ELSE 0),
                         decided_denote |-> cnt.decided_denote + (IF WF(r) /\ DenoteDom(r) THEN 1 ELSE 0),
                         fid |-> cnt.fid + (IF r.fam = "expr" THEN 1 ELSE 0)]
         /\ i' = i + 1
         /\ UNCHANGED aux
TSpec == TInit /\ [][TNext]_<<i, bad, xbad, cnt, aux>>

Report == i <= N \/ PrintT(ToJson([n |-> N, bad |-> bad, xbad |-> xbad, cnt |-> cnt]))
=============================================================================

SPECIFICATION GenSpec
CONSTANTS
  UnaryGlue = "spaced"
  EBound = "small"
CHECK_DEADLOCK FALSE

SPECIFICATION TSpec
CONSTANTS
  UnaryGlue = "spaced"
  EBound = "small"
INVARIANTS Report
CHECK_DEADLOCK FALSE

SPECIFICATION Spec
CONSTANTS
  UnaryGlue = "asis"
  IdentQuote = "design"
  EBound = "small"
INVARIANTS RoundTrip
CHECK_DEADLOCK FALSE

--------------------------- MODULE SqlFormatExpr ---------------------------
(* C16 - SQL reformatting preserves statements: the EXPRESSION sub-grammar.  *)
(*                                                                           *)
(* Definitions only.  A model, shaped like the code, of                      *)
(*   Read   internal/sqlparse/expr.go: the precedence ladder                 *)
(*          OR < AND < NOT < comparison/IS/IN/LIKE/BETWEEN < bitwise <       *)
(*          additive < multiplicative < concat < unary < COLLATE < primary   *)
(*          (one PE level per parse function, loops = left associativity,    *)
(*          self-recursion = prefix operators; no word is reserved: any      *)
(*          word that is not NULL/TRUE/FALSE/CASE/CAST/EXISTS is a name)     *)
(*   Fmt    internal/sqlparse/format_expr.go: the flat printer that relies   *)
(*          on ParenExpr nodes and writes symbolic unary operators flush     *)
(*          against their operand                                            *)
(*   Lex    what the lexer makes of printed text: two minus signs written    *)
(*          without a blank start a comment that swallows the rest of line   *)
(*   Show   the canonical text of a tree (same format as the harness'        *)
(*          projection of the real ast nodes)                                *)
(* and the bounded space of source expressions ECases (operator pairs nested *)
(* left/right with and without source parentheses, prefix/postfix/mixfix     *)
(* operators against every infix operator, CASE/function/CAST embeddings).   *)
(*                                                                           *)
(* Trees are tuples whose first element is the node kind:                    *)
(*  <<"col",n>> <<"num",t>> <<"str",t>> <<"null">> <<"un",op,X>>             *)
(*  <<"bin",op,X,Y>> <<"paren",X>> <<"isnull",not,X>> <<"is",not,dist,X,Y>>  *)
(*  <<"btw",not,X,Lo,Hi>> <<"in",not,X,items>> <<"like",not,op,X,Pat,hasE,E>>*)
(*  <<"coll",name,X>> <<"fn",name,args>> <<"cast",X,type>>                   *)
(*  <<"case",hasOp,Op,whens,hasElse,Else>>     (flags are "T"/"F")           *)
EXTENDS Integers, Sequences, FiniteSets, TLC

CONSTANT UnaryGlue   \* "asis": -,+,~ always flush against the operand; "spaced": a blank between two consecutive minus signs

-----------------------------------------------------------------------------
(* token classes                                                             *)
Nums    == {"0", "1", "2", "3"}
StrVal  == ("'x'" :> "x") @@ ("'x%'" :> "x%") @@ ("'!'" :> "!")
Strs    == DOMAIN StrVal
Puncts  == {"(", ")", ",", ".", ";"}
RelOps  == {"<=", ">=", "<>", "!=", "==", "=", "<", ">"}
BitOps  == {"<<", ">>", "&", "|"}
AddOps  == {"+", "-"}
MulOps  == {"*", "/", "%"}
CatOps  == {"||", "->>", "->"}
SymOps  == RelOps \cup BitOps \cup AddOps \cup MulOps \cup CatOps \cup {"~"}
LikeFam == {"LIKE", "GLOB", "REGEXP", "MATCH", "ILIKE"}
EOF     == "$EOF"
IsWord(t) == t \notin (Nums \cup Strs \cup Puncts \cup SymOps \cup {EOF})

Tok(ts, p) == IF p >= 1 /\ p <= Len(ts) THEN ts[p] ELSE EOF
R(t, p)  == [ok |-> TRUE, t |-> t, p |-> p]
Fail(p)  == [ok |-> FALSE, t |-> <<"fail">>, p |-> p]
None     == <<"none">>
B(b)     == IF b THEN "T" ELSE "F"

(* levels of the ladder (expr.go)                                            *)
LOr == 1  LAnd == 2  LNot == 3  LCmp == 4  LBit == 5  LAdd == 6  LMul == 7  LCat == 8  LUn == 9  LColl == 10  LPrim == 11
LevelOps(k) == CASE k = LOr  -> {"OR"}
                 [] k = LAnd -> {"AND"}
                 [] k = LBit -> BitOps
                 [] k = LAdd -> AddOps
                 [] k = LMul -> MulOps
                 [] k = LCat -> CatOps
                 [] OTHER    -> {}
LoopLevels == {LOr, LAnd, LBit, LAdd, LMul, LCat}

RECURSIVE PE(_, _, _), Loop(_, _, _, _), CmpLoop(_, _, _), CollLoop(_, _, _), Prim(_, _), Args(_, _, _), Whens(_, _, _)

(* parseOrExpr .. parseConcatExpr: operand at the next tighter level, then   *)
(* loop while an operator of this level follows (left associative)           *)
Loop(k, ts, left, p) ==
  IF Tok(ts, p) \in LevelOps(k)
    THEN LET r == PE(k + 1, ts, p + 1) IN
         IF r.ok THEN Loop(k, ts, <<"bin", Tok(ts, p), left, r.t>>, r.p) ELSE r
    ELSE R(left, p)

(* parseComparisonExpr: relational operators, IS [NOT] [NULL | DISTINCT FROM],*)
(* ISNULL, NOTNULL, [NOT] BETWEEN, [NOT] IN (list), [NOT] LIKE-family [ESCAPE] *)
CmpLoop(ts, left, p) ==
  LET t == Tok(ts, p) IN
  IF t \in RelOps THEN
    LET r == PE(LBit, ts, p + 1) IN IF r.ok THEN CmpLoop(ts, <<"bin", t, left, r.t>>, r.p) ELSE r
  ELSE IF t = "IS" THEN
    LET not == Tok(ts, p + 1) = "NOT"
        q   == IF not THEN p + 2 ELSE p + 1 IN
    IF Tok(ts, q) = "NULL" THEN CmpLoop(ts, <<"isnull", B(not), left>>, q + 1)
    ELSE IF Tok(ts, q) = "DISTINCT" THEN
      IF Tok(ts, q + 1) = "FROM"
        THEN LET r == PE(LBit, ts, q + 2) IN
             IF r.ok THEN CmpLoop(ts, <<"is", B(not), "T", left, r.t>>, r.p) ELSE r
        ELSE Fail(q + 1)
    ELSE LET r == PE(LBit, ts, q) IN
         IF r.ok THEN CmpLoop(ts, <<"is", B(not), "F", left, r.t>>, r.p) ELSE r
  ELSE IF t = "ISNULL" THEN CmpLoop(ts, <<"isnull", "F", left>>, p + 1)
  ELSE IF t = "NOTNULL" THEN CmpLoop(ts, <<"isnull", "T", left>>, p + 1)
  ELSE
    LET not == t = "NOT" /\ Tok(ts, p + 1) \in ({"BETWEEN", "IN"} \cup LikeFam)
        q   == IF not THEN p + 1 ELSE p
        t2  == Tok(ts, q) IN
    IF t2 = "BETWEEN" THEN
      LET lo == PE(LBit, ts, q + 1) IN
      IF ~lo.ok THEN lo
      ELSE IF Tok(ts, lo.p) # "AND" THEN Fail(lo.p)
      ELSE LET hi == PE(LBit, ts, lo.p + 1) IN
           IF hi.ok THEN CmpLoop(ts, <<"btw", B(not), left, lo.t, hi.t>>, hi.p) ELSE hi
    ELSE IF t2 = "IN" THEN
      IF Tok(ts, q + 1) # "(" THEN Fail(q + 1)
      ELSE IF Tok(ts, q + 2) = ")" THEN CmpLoop(ts, <<"in", B(not), left, <<>>>>, q + 3)
      ELSE LET a == Args(ts, q + 2, <<>>) IN
           IF ~a.ok THEN a
           ELSE IF Tok(ts, a.p) # ")" THEN Fail(a.p)
           ELSE CmpLoop(ts, <<"in", B(not), left, a.t>>, a.p + 1)
    ELSE IF t2 \in LikeFam THEN
      LET pat == PE(LBit, ts, q + 1) IN
      IF ~pat.ok THEN pat
      ELSE IF Tok(ts, pat.p) = "ESCAPE"
        THEN LET e == PE(LBit, ts, pat.p + 1) IN
             IF e.ok THEN CmpLoop(ts, <<"like", B(not), t2, left, pat.t, "T", e.t>>, e.p) ELSE e
        ELSE CmpLoop(ts, <<"like", B(not), t2, left, pat.t, "F", None>>, pat.p)
    ELSE R(left, p)

(* parseCollateExpr: postfix COLLATE name, repeated                          *)
CollLoop(ts, x, p) ==
  IF Tok(ts, p) = "COLLATE"
    THEN IF IsWord(Tok(ts, p + 1)) THEN CollLoop(ts, <<"coll", Tok(ts, p + 1), x>>, p + 2) ELSE Fail(p + 1)
    ELSE R(x, p)

(* comma separated expressions (function arguments, IN lists)                *)
Args(ts, p, acc) ==
  LET e == PE(LOr, ts, p) IN
  IF ~e.ok THEN e
  ELSE IF Tok(ts, e.p) = "," THEN Args(ts, e.p + 1, Append(acc, e.t))
  ELSE R(Append(acc, e.t), e.p)

(* WHEN c THEN r ...                                                         *)
Whens(ts, p, acc) ==
  IF Tok(ts, p) # "WHEN" THEN R(acc, p)
  ELSE LET c == PE(LOr, ts, p + 1) IN
       IF ~c.ok THEN c
       ELSE IF Tok(ts, c.p) # "THEN" THEN Fail(c.p)
       ELSE LET r == PE(LOr, ts, c.p + 1) IN
            IF ~r.ok THEN r ELSE Whens(ts, r.p, Append(acc, <<c.t, r.t>>))

(* parsePrimary                                                              *)
Prim(ts, p) ==
  LET t == Tok(ts, p) IN
  IF t \in Nums THEN R(<<"num", t>>, p + 1)
  ELSE IF t \in Strs THEN R(<<"str", t>>, p + 1)
  ELSE IF t = "NULL" THEN R(<<"null">>, p + 1)
  ELSE IF t = "CASE" THEN
    LET hasOp == Tok(ts, p + 1) # "WHEN"
        op    == IF hasOp THEN PE(LOr, ts, p + 1) ELSE R(None, p + 1) IN
    IF ~op.ok THEN op
    ELSE IF Tok(ts, op.p) # "WHEN" THEN Fail(op.p)
    ELSE LET w == Whens(ts, op.p, <<>>) IN
         IF ~w.ok THEN w
         ELSE LET hasElse == Tok(ts, w.p) = "ELSE"
                  el      == IF hasElse THEN PE(LOr, ts, w.p + 1) ELSE R(None, w.p) IN
              IF ~el.ok THEN el
              ELSE IF Tok(ts, el.p) # "END" THEN Fail(el.p)
              ELSE R(<<"case", B(hasOp), op.t, w.t, B(hasElse), el.t>>, el.p + 1)
  ELSE IF t = "CAST" THEN
    IF Tok(ts, p + 1) # "(" THEN Fail(p + 1)
    ELSE LET x == PE(LOr, ts, p + 2) IN
         IF ~x.ok THEN x
         ELSE IF Tok(ts, x.p) # "AS" \/ ~IsWord(Tok(ts, x.p + 1)) \/ Tok(ts, x.p + 2) # ")" THEN Fail(x.p)
         ELSE R(<<"cast", x.t, Tok(ts, x.p + 1)>>, x.p + 3)
  ELSE IF t = "(" THEN
    LET e == PE(LOr, ts, p + 1) IN
    IF ~e.ok THEN e
    ELSE IF Tok(ts, e.p) # ")" THEN Fail(e.p)
    ELSE R(<<"paren", e.t>>, e.p + 1)
  ELSE IF IsWord(t) /\ t \notin {"TRUE", "FALSE", "EXISTS"} THEN
    IF Tok(ts, p + 1) = "("
      THEN IF Tok(ts, p + 2) = ")" THEN R(<<"fn", t, <<>>>>, p + 3)
           ELSE LET a == Args(ts, p + 2, <<>>) IN
                IF ~a.ok THEN a
                ELSE IF Tok(ts, a.p) # ")" THEN Fail(a.p)
                ELSE R(<<"fn", t, a.t>>, a.p + 1)
      ELSE R(<<"col", t>>, p + 1)
  ELSE Fail(p)

PE(k, ts, p) ==
  IF k \in LoopLevels THEN
    LET l == PE(k + 1, ts, p) IN IF l.ok THEN Loop(k, ts, l.t, l.p) ELSE l
  ELSE IF k = LNot THEN
    IF Tok(ts, p) = "NOT" /\ Tok(ts, p + 1) # "EXISTS"
      THEN LET x == PE(LNot, ts, p + 1) IN IF x.ok THEN R(<<"un", "NOT", x.t>>, x.p) ELSE x
      ELSE PE(LCmp, ts, p)
  ELSE IF k = LCmp THEN
    LET l == PE(LBit, ts, p) IN IF l.ok THEN CmpLoop(ts, l.t, l.p) ELSE l
  ELSE IF k = LUn THEN
    IF Tok(ts, p) \in {"-", "+", "~"}
      THEN LET x == PE(LUn, ts, p + 1) IN IF x.ok THEN R(<<"un", Tok(ts, p), x.t>>, x.p) ELSE x
      ELSE PE(LColl, ts, p)
  ELSE IF k = LColl THEN
    LET x == Prim(ts, p) IN IF x.ok THEN CollLoop(ts, x.t, x.p) ELSE x
  ELSE Prim(ts, p)

(* a whole expression: every token must be consumed (in the statement frame  *)
(* " AS r FROM ..." follows, so a left-over token makes the statement fail)  *)
Read(ts) == LET r == PE(LOr, ts, 1) IN
            IF r.ok /\ r.p = Len(ts) + 1 THEN r ELSE Fail(r.p)

-----------------------------------------------------------------------------
(* canonical text of a tree = the harness' projection of the real ast node   *)
RECURSIVE Show(_), ShowSeq(_, _), ShowWhens(_, _)
ShowSeq(s, i) == IF i > Len(s) THEN ""
                 ELSE (IF i > 1 THEN " " ELSE "") \o Show(s[i]) \o ShowSeq(s, i + 1)
ShowWhens(s, i) == IF i > Len(s) THEN ""
                   ELSE (IF i > 1 THEN " " ELSE "") \o "(WhenClause Cond:" \o Show(s[i][1]) \o " Result:" \o Show(s[i][2]) \o ")"
                        \o ShowWhens(s, i + 1)
NotF(f) == IF f = "T" THEN " Not:T" ELSE ""
Show(t) ==
  LET k == t[1] IN
  CASE k = "col"    -> "(ColumnRef Column:<" \o t[2] \o ">)"
    [] k = "num"    -> "(Literal LitKind:1 Value:<" \o t[2] \o ">)"
    [] k = "str"    -> "(Literal LitKind:3 Value:<" \o StrVal[t[2]] \o ">)"
    [] k = "null"   -> "(Literal LitKind:6 Value:<null>)"
    [] k = "un"     -> "(UnaryExpr Op:<" \o t[2] \o "> X:" \o Show(t[3]) \o ")"
    [] k = "bin"    -> "(BinaryExpr Op:<" \o t[2] \o "> X:" \o Show(t[3]) \o " Y:" \o Show(t[4]) \o ")"
    [] k = "paren"  -> "(ParenExpr X:" \o Show(t[2]) \o ")"
    [] k = "isnull" -> "(IsNullExpr X:" \o Show(t[3]) \o NotF(t[2]) \o ")"
    [] k = "is"     -> "(IsExpr X:" \o Show(t[4]) \o NotF(t[2]) \o (IF t[3] = "T" THEN " Distinct:T" ELSE "") \o " Y:" \o Show(t[5]) \o ")"
    [] k = "btw"    -> "(BetweenExpr X:" \o Show(t[3]) \o NotF(t[2]) \o " Low:" \o Show(t[4]) \o " High:" \o Show(t[5]) \o ")"
    [] k = "in"     -> "(InExpr X:" \o Show(t[3]) \o NotF(t[2])
                       \o (IF Len(t[4]) > 0 THEN " List:[" \o ShowSeq(t[4], 1) \o "]" ELSE "") \o ")"
    [] k = "like"   -> "(LikeExpr X:" \o Show(t[4]) \o NotF(t[2]) \o " Op:<" \o t[3] \o "> Pattern:" \o Show(t[5])
                       \o (IF t[6] = "T" THEN " Escape:" \o Show(t[7]) ELSE "") \o ")"
    [] k = "coll"   -> "(CollateExpr X:" \o Show(t[3]) \o " Collation:<" \o t[2] \o ">)"
    [] k = "fn"     -> "(FuncCall Name:<" \o t[2] \o ">"
                       \o (IF Len(t[3]) > 0 THEN " Args:[" \o ShowSeq(t[3], 1) \o "]" ELSE "") \o ")"
    [] k = "cast"   -> "(CastExpr X:" \o Show(t[2]) \o " Type:(TypeName Name:<" \o t[3] \o ">))"
    [] k = "case"   -> "(CaseExpr" \o (IF t[2] = "T" THEN " Operand:" \o Show(t[3]) ELSE "")
                       \o " Whens:[" \o ShowWhens(t[4], 1) \o "]"
                       \o (IF t[5] = "T" THEN " Else:" \o Show(t[6]) ELSE "") \o ")"
    [] OTHER        -> "(?)"

-----------------------------------------------------------------------------
(* the printer (format_expr.go).  Output: printed tokens, g = written        *)
(* without a blank before it.                                                *)
W(s) == <<[t |-> s, g |-> FALSE]>>
G(s) == <<[t |-> s, g |-> TRUE]>>
GlueFirst(s) == IF Len(s) = 0 THEN s ELSE <<[t |-> s[1].t, g |-> TRUE]>> \o SubSeq(s, 2, Len(s))
OptNot(f) == IF f = "T" THEN W("NOT") ELSE <<>>

RECURSIVE Fmt(_), FmtList(_, _), FmtWhens(_, _)
FmtList(s, i) == IF i > Len(s) THEN <<>>
                 ELSE (IF i > 1 THEN G(",") \o Fmt(s[i]) ELSE GlueFirst(Fmt(s[i]))) \o FmtList(s, i + 1)
FmtWhens(s, i) == IF i > Len(s) THEN <<>>
                  ELSE W("WHEN") \o Fmt(s[i][1]) \o W("THEN") \o Fmt(s[i][2]) \o FmtWhens(s, i + 1)
Fmt(t) ==
  LET k == t[1] IN
  CASE k = "col"    -> W(t[2])
    [] k = "num"    -> W(t[2])
    [] k = "str"    -> W(t[2])
    [] k = "null"   -> W("NULL")
    [] k = "un"     -> IF t[2] = "NOT" THEN W("NOT") \o Fmt(t[3])
                       ELSE IF UnaryGlue = "spaced" /\ t[2] = "-" /\ t[3][1] = "un" /\ t[3][2] = "-"
                              THEN W("-") \o Fmt(t[3])
                       ELSE W(t[2]) \o GlueFirst(Fmt(t[3]))
    [] k = "bin"    -> Fmt(t[3]) \o W(t[2]) \o Fmt(t[4])
    [] k = "paren"  -> W("(") \o GlueFirst(Fmt(t[2])) \o G(")")
    [] k = "isnull" -> Fmt(t[3]) \o W("IS") \o OptNot(t[2]) \o W("NULL")
    [] k = "is"     -> Fmt(t[4]) \o W("IS") \o OptNot(t[2]) \o (IF t[3] = "T" THEN W("DISTINCT") \o W("FROM") ELSE <<>>) \o Fmt(t[5])
    [] k = "btw"    -> Fmt(t[3]) \o OptNot(t[2]) \o W("BETWEEN") \o Fmt(t[4]) \o W("AND") \o Fmt(t[5])
    [] k = "in"     -> Fmt(t[3]) \o OptNot(t[2]) \o W("IN") \o W("(") \o FmtList(t[4], 1) \o G(")")
    [] k = "like"   -> Fmt(t[4]) \o OptNot(t[2]) \o W(t[3]) \o Fmt(t[5]) \o (IF t[6] = "T" THEN W("ESCAPE") \o Fmt(t[7]) ELSE <<>>)
    [] k = "coll"   -> Fmt(t[3]) \o W("COLLATE") \o W(t[2])
    [] k = "fn"     -> W(t[2]) \o G("(") \o FmtList(t[3], 1) \o G(")")
    [] k = "cast"   -> W("CAST") \o G("(") \o GlueFirst(Fmt(t[2])) \o W("AS") \o W(t[3]) \o G(")")
    [] k = "case"   -> W("CASE") \o (IF t[2] = "T" THEN Fmt(t[3]) ELSE <<>>) \o FmtWhens(t[4], 1)
                       \o (IF t[5] = "T" THEN W("ELSE") \o Fmt(t[6]) ELSE <<>>) \o W("END")
    [] OTHER        -> W("?")

RECURSIVE TextFrom(_, _)
TextFrom(pt, i) == IF i > Len(pt) THEN ""
                   ELSE (IF i > 1 /\ ~pt[i].g THEN " " ELSE "") \o pt[i].t \o TextFrom(pt, i + 1)
Text(pt) == TextFrom(pt, 1)

(* what the lexer reads back from the printed line: "--" starts a comment    *)
CommentAt(pt) == {i \in 1..(Len(pt) - 1) : pt[i].t = "-" /\ pt[i + 1].t = "-" /\ pt[i + 1].g}
Lex(pt) == LET cut == CommentAt(pt)
               n   == IF cut = {} THEN Len(pt) ELSE (CHOOSE i \in cut : \A j \in cut : i <= j) - 1
           IN [i \in 1..n |-> pt[i].t]

-----------------------------------------------------------------------------
(* the bounded space of source expressions                                   *)
A == <<"a">>  Bb == <<"b">>  C == <<"c">>  D == <<"2">>
P(x) == <<"(">> \o x \o <<")">>

Infix == { <<"OR">>, <<"AND">>,
           <<"=">>, <<"==">>, <<"<">>, <<"<=">>, <<">">>, <<">=">>, <<"<>">>, <<"!=">>,
           <<"IS">>, <<"IS", "NOT">>, <<"IS", "DISTINCT", "FROM">>, <<"IS", "NOT", "DISTINCT", "FROM">>,
           <<"LIKE">>, <<"NOT", "LIKE">>, <<"GLOB">>, <<"NOT", "GLOB">>, <<"REGEXP">>, <<"MATCH">>, <<"ILIKE">>,
           <<"<<">>, <<">>">>, <<"&">>, <<"|">>, <<"+">>, <<"-">>, <<"*">>, <<"/">>, <<"%">>, <<"||">>, <<"->">>, <<"->>">> }
Prefix  == { <<"-">>, <<"+">>, <<"~">>, <<"NOT">> }
Postfix == { <<"IS", "NULL">>, <<"IS", "NOT", "NULL">>, <<"ISNULL">>, <<"NOTNULL">>, <<"COLLATE", "nocase">> }

RECURSIVE JoinFrom(_, _)
JoinFrom(s, i) == IF i > Len(s) THEN "" ELSE (IF i > 1 THEN " " ELSE "") \o s[i] \o JoinFrom(s, i + 1)
Join(s) == JoinFrom(s, 1)

(* the class (ladder level) of an operator spelling: the abstract identity   *)
OpClass(o) ==
  LET h == o[1] IN
  CASE h = "OR" -> "or" [] h = "AND" -> "and"
    [] h \in RelOps -> "rel"
    [] h = "IS" -> (IF o[Len(o)] = "NULL" THEN "isnull" ELSE "is")
    [] h \in {"ISNULL", "NOTNULL"} -> "isnull"
    [] h \in LikeFam -> "like"
    [] h = "NOT" /\ Len(o) > 1 -> (IF o[2] = "IN" THEN "notin" ELSE IF o[2] = "BETWEEN" THEN "notbetween" ELSE "notlike")
    [] h = "IN" -> "in" [] h = "BETWEEN" -> "between"
    [] h = "NOT" -> "not"
    [] h = "COLLATE" -> "collate"
    [] h \in BitOps -> "bit" [] h \in MulOps -> "mul" [] h \in CatOps -> "cat"
    [] h = "~" -> "tilde"
    [] h = "+" -> "plus" [] h = "-" -> "minus"
    [] OTHER -> "other"

EC(form, ops, toks) == [form |-> form, ops |-> [i \in 1..Len(ops) |-> Join(ops[i])],
                        cls |-> [i \in 1..Len(ops) |-> OpClass(ops[i])], toks |-> toks]

Rep == {<<"OR">>, <<"AND">>, <<"=">>, <<"&">>, <<"-">>, <<"*">>, <<"||">>}

EGen(In) ==
  (* two infix operators: flat, left operand parenthesized, right operand parenthesized *)
     {EC("pair-flat",   <<o1, o2>>, A \o o1 \o Bb \o o2 \o C) : o1 \in In, o2 \in In}
  \cup {EC("pair-lparen", <<o1, o2>>, P(A \o o1 \o Bb) \o o2 \o C) : o1 \in In, o2 \in In}
  \cup {EC("pair-rparen", <<o1, o2>>, A \o o1 \o P(Bb \o o2 \o C)) : o1 \in In, o2 \in In}
  (* prefix against infix *)
  \cup {EC("pre-flat",    <<u, o>>, u \o A \o o \o Bb) : u \in Prefix, o \in In}
  \cup {EC("pre-paren",   <<u, o>>, u \o P(A \o o \o Bb)) : u \in Prefix, o \in In}
  \cup {EC("pre-right",   <<o, u>>, A \o o \o u \o Bb) : u \in Prefix, o \in In}
  \cup {EC("pre-rparen",  <<o, u>>, A \o o \o P(u \o Bb)) : u \in Prefix, o \in In}
  (* prefix against prefix (and three in a row) *)
  \cup {EC("prepre-flat",  <<u1, u2>>, u1 \o u2 \o A) : u1 \in Prefix, u2 \in Prefix}
  \cup {EC("prepre-paren", <<u1, u2>>, u1 \o P(u2 \o A)) : u1 \in Prefix, u2 \in Prefix}
  \cup {EC("prepre-num",   <<u1, u2>>, u1 \o u2 \o D) : u1 \in Prefix, u2 \in Prefix}
  \cup {EC("pre3-flat",    <<u1, u2, u3>>, u1 \o u2 \o u3 \o A) : u1 \in Prefix, u2 \in Prefix, u3 \in Prefix}
  \cup {EC("prepre-inbin", <<o, u1, u2>>, A \o o \o u1 \o u2 \o Bb) : o \in {<<"-">>, <<"+">>, <<"*">>, <<"=">>, <<"AND">>}, u1 \in Prefix, u2 \in Prefix}
  (* postfix against infix and prefix *)
  \cup {EC("post-flat",   <<o, q>>, A \o o \o Bb \o q) : o \in In, q \in Postfix}
  \cup {EC("post-paren",  <<o, q>>, P(A \o o \o Bb) \o q) : o \in In, q \in Postfix}
  \cup {EC("post-left",   <<q, o>>, A \o q \o o \o Bb) : o \in In, q \in Postfix}
  \cup {EC("prepost-flat",   <<u, q>>, u \o A \o q) : u \in Prefix, q \in Postfix}
  \cup {EC("prepost-lparen", <<u, q>>, P(u \o A) \o q) : u \in Prefix, q \in Postfix}
  \cup {EC("prepost-rparen", <<u, q>>, u \o P(A \o q)) : u \in Prefix, q \in Postfix}
  \cup {EC("postpost",       <<q1, q2>>, A \o q1 \o q2) : q1 \in Postfix, q2 \in Postfix}
  (* BETWEEN / IN / LIKE .. ESCAPE against infix *)
  \cup {EC("btw-low",   <<n, o>>, A \o n \o Bb \o o \o C \o <<"AND">> \o D) : n \in {<<"BETWEEN">>, <<"NOT", "BETWEEN">>}, o \in In}
  \cup {EC("btw-left",  <<o, n>>, A \o o \o Bb \o n \o C \o <<"AND">> \o D) : n \in {<<"BETWEEN">>, <<"NOT", "BETWEEN">>}, o \in In}
  \cup {EC("btw-high",  <<n, o>>, A \o n \o Bb \o <<"AND">> \o C \o o \o D) : n \in {<<"BETWEEN">>, <<"NOT", "BETWEEN">>}, o \in In}
  \cup {EC("btw-hparen", <<n, o>>, A \o n \o Bb \o <<"AND">> \o P(C \o o \o D)) : n \in {<<"BETWEEN">>, <<"NOT", "BETWEEN">>}, o \in In}
  \cup {EC("in-left",   <<o, n>>, A \o o \o Bb \o n \o P(C \o <<",">> \o D)) : n \in {<<"IN">>, <<"NOT", "IN">>}, o \in In}
  \cup {EC("in-item",   <<n, o>>, A \o n \o P(Bb \o o \o C \o <<",">> \o D)) : n \in {<<"IN">>, <<"NOT", "IN">>}, o \in In}
  \cup {EC("in-after",  <<n, o>>, A \o n \o P(Bb \o <<",">> \o C) \o o \o D) : n \in {<<"IN">>, <<"NOT", "IN">>}, o \in In}
  \cup {EC("in-empty",  <<n>>, A \o n \o <<"(", ")">>) : n \in {<<"IN">>, <<"NOT", "IN">>}}
  \cup {EC("esc-after", <<n, o>>, A \o n \o <<"'x%'", "ESCAPE", "'!'">> \o o \o Bb) : n \in {<<"LIKE">>, <<"NOT", "LIKE">>}, o \in In}
  \cup {EC("esc-pat",   <<n, o>>, A \o n \o Bb \o o \o C \o <<"ESCAPE", "'!'">>) : n \in {<<"LIKE">>, <<"NOT", "LIKE">>}, o \in In}
  (* embeddings *)
  \cup {EC("case-when",  <<o1, o2>>, <<"CASE", "WHEN">> \o A \o o1 \o Bb \o <<"THEN">> \o C \o <<"ELSE", "2", "END">> \o o2 \o A) : o1 \in In, o2 \in {<<"+">>, <<"=">>, <<"AND">>}}
  \cup {EC("case-operand", <<o>>, <<"CASE">> \o A \o o \o Bb \o <<"WHEN", "1", "THEN">> \o C \o <<"WHEN", "0", "THEN", "2", "END">>) : o \in In}
  \cup {EC("fn-arg",     <<o>>, <<"coalesce", "(">> \o A \o o \o Bb \o <<",">> \o C \o <<")">>) : o \in In}
  \cup {EC("fn-after",   <<o>>, <<"abs", "(">> \o A \o <<")">> \o o \o Bb) : o \in In}
  \cup {EC("cast-arg",   <<o>>, <<"CAST", "(">> \o A \o o \o Bb \o <<"AS", "INTEGER", ")">>) : o \in In}
  (* three infix operators, one representative per ladder level *)
  \cup {EC("triple-flat", <<o1, o2, o3>>, A \o o1 \o Bb \o o2 \o C \o o3 \o D) :
          o1 \in Rep, o2 \in Rep, o3 \in Rep}
ECases == EGen(Infix)
(* the small bound: one operator spelling per ladder level (plus IS, <, LIKE, NOT LIKE) *)
SmallInfix == Rep \cup {<<"IS">>, <<"<">>, <<"LIKE">>, <<"NOT", "LIKE">>}
ESmall == EGen(SmallInfix)
=============================================================================

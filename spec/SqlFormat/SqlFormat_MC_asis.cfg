SPECIFICATION Spec
CONSTANTS
  UnaryGlue = "asis"
  IdentQuote = "asis"
  EBound = "small"
INVARIANTS RoundTrip KeepsRole KeepsExec KeepsDenotation
CHECK_DEADLOCK FALSE

--------------------------- MODULE SqlFormatIdent ---------------------------
(* C16 - IDENTIFIERS: quoting classes x grammar positions, and the model of  *)
(* how a name is written back (format.go ident / isBareIdent / quoteIdent).  *)
(*                                                                           *)
(* A spelling is [cls, name, src, dq, q]: the class, the decoded name, how   *)
(* the SOURCE spells it, its always-double-quoted spelling (used to build    *)
(* the fixture) and whether the source spelling is quoted.                   *)
(* A position is a place of the grammar that holds a name; IdCase(p, sp)     *)
(* gives the fixture that makes the statement executable, the statement,     *)
(* statements to run before / after it.                                      *)
EXTENDS Integers, Sequences, FiniteSets, TLC

Spell(cls, name, src, dq, q) == [cls |-> cls, name |-> name, src |-> src, dq |-> dq, q |-> q]
DQ(n) == "\"" \o n \o "\""

Spellings == {
  Spell("plain",        "col1",    "col1",        DQ("col1"),    FALSE),
  Spell("plain-q",      "col1",    DQ("col1"),    DQ("col1"),    TRUE),
  Spell("mixed",        "MixCol",  "MixCol",      DQ("MixCol"),  FALSE),
  Spell("mixed-q",      "MixCol",  DQ("MixCol"),  DQ("MixCol"),  TRUE),
  Spell("upper",        "UPCOL",   "UPCOL",       DQ("UPCOL"),   FALSE),
  Spell("underscore",   "_c_1",    "_c_1",        DQ("_c_1"),    FALSE),
  Spell("dollar",       "a$b",     "a$b",         DQ("a$b"),     FALSE),
  Spell("space-q",      "my col",  DQ("my col"),  DQ("my col"),  TRUE),
  Spell("space-br",     "my col",  "[my col]",    DQ("my col"),  TRUE),
  Spell("space-bt",     "my col",  "`my col`",    DQ("my col"),  TRUE),
  Spell("dquote-q",     "a\"b",    "\"a\"\"b\"",  "\"a\"\"b\"",  TRUE),
  Spell("digit-q",      "1abc",    DQ("1abc"),    DQ("1abc"),    TRUE),
  Spell("dash-q",       "a-b",     DQ("a-b"),     DQ("a-b"),     TRUE),
  Spell("dot-q",        "a.b",     DQ("a.b"),     DQ("a.b"),     TRUE),
  Spell("kw-order-q",   "order",   DQ("order"),   DQ("order"),   TRUE),
  Spell("kw-select-q",  "select",  DQ("select"),  DQ("select"),  TRUE),
  Spell("kw-from-q",    "from",    DQ("from"),    DQ("from"),    TRUE),
  Spell("kw-primary-q", "primary", DQ("primary"), DQ("primary"), TRUE),
  Spell("kw-not-q",     "not",     DQ("not"),     DQ("not"),     TRUE),
  Spell("kw-Table-q",   "Table",   DQ("Table"),   DQ("Table"),   TRUE),
  Spell("kw-soft",      "key",     "key",         DQ("key"),     FALSE) }
KwClasses == {"kw-order-q", "kw-select-q", "kw-from-q", "kw-primary-q", "kw-not-q", "kw-Table-q", "kw-soft"}

(* spellings of names that must exist in the engine (collations, functions, types, schemas)                        *)
CollSpellings == { Spell("plain", "nocase", "nocase", DQ("nocase"), FALSE), Spell("upper", "NOCASE", "NOCASE", DQ("NOCASE"), FALSE),
                   Spell("mixed", "NoCase", "NoCase", DQ("NoCase"), FALSE), Spell("plain-q", "nocase", DQ("nocase"), DQ("nocase"), TRUE),
                   Spell("mixed-q", "NoCase", DQ("NoCase"), DQ("NoCase"), TRUE) }
FuncSpellings == { Spell("plain", "abs", "abs", DQ("abs"), FALSE), Spell("upper", "ABS", "ABS", DQ("ABS"), FALSE),
                   Spell("mixed", "Abs", "Abs", DQ("Abs"), FALSE), Spell("plain-q", "abs", DQ("abs"), DQ("abs"), TRUE),
                   Spell("mixed-q", "Abs", DQ("Abs"), DQ("Abs"), TRUE), Spell("space-q", "my func", DQ("my func"), DQ("my func"), TRUE),
                   Spell("kw-order-q", "order", DQ("order"), DQ("order"), TRUE) }
TypeSpellings == { Spell("plain", "integer", "integer", DQ("integer"), FALSE), Spell("upper", "INTEGER", "INTEGER", DQ("INTEGER"), FALSE),
                   Spell("mixed", "Integer", "Integer", DQ("Integer"), FALSE), Spell("plain-q", "integer", DQ("integer"), DQ("integer"), TRUE),
                   Spell("space-q", "my type", DQ("my type"), DQ("my type"), TRUE), Spell("kw-order-q", "order", DQ("order"), DQ("order"), TRUE) }
SchemaSpellings == { Spell("plain", "main", "main", DQ("main"), FALSE), Spell("upper", "MAIN", "MAIN", DQ("MAIN"), FALSE),
                     Spell("mixed", "Main", "Main", DQ("Main"), FALSE), Spell("plain-q", "main", DQ("main"), DQ("main"), TRUE),
                     Spell("mixed-q", "Main", DQ("Main"), DQ("Main"), TRUE) }

(* the abstract identity of an identifier case: the KIND of spelling (what quoting it needs) and the ROUTE by     *)
(* which format.go writes a name at that position (format.go, "Known limitations": REFERENCES targets, function   *)
(* names and type names are written as stored, everything else goes through ident())                              *)
Kind(cls) ==
  IF cls \in {"plain", "plain-q", "underscore"} THEN "plain"
  ELSE IF cls \in {"mixed", "upper"} THEN "case-bare"
  ELSE IF cls = "mixed-q" THEN "case-quoted"
  ELSE IF cls = "kw-soft" THEN "soft-keyword"
  ELSE IF cls = "dollar" THEN "bare-dollar"
  ELSE IF cls \in KwClasses THEN "keyword"
  ELSE "needs-quotes"
Route(pos) ==
  IF pos \in {"reftbl", "fkreftbl"} THEN "ref-table"
  ELSE IF pos = "func" THEN "func-name"
  ELSE IF pos \in {"type-coldef", "type-cast"} THEN "type-name"
  ELSE "name"

-----------------------------------------------------------------------------
T0     == "CREATE TABLE t (id INTEGER PRIMARY KEY, a INTEGER, b INTEGER, s TEXT)"
T0Rows == "INSERT INTO t VALUES (1, 10, 20, 'x'), (2, 30, 40, 'X'), (3, -5, 0, 'y')"
U0     == "CREATE TABLE u (id INTEGER PRIMARY KEY, a INTEGER)"
U0Rows == "INSERT INTO u VALUES (1, 7), (2, 8)"
TC(i)  == "CREATE TABLE t (id INTEGER PRIMARY KEY, a INTEGER, " \o i.dq \o " INTEGER UNIQUE, s TEXT)"   \* t with a column named i
UC(i)  == "CREATE TABLE u (id INTEGER PRIMARY KEY, a INTEGER, " \o i.dq \o " INTEGER)"
UCRows == "INSERT INTO u VALUES (1, 7, 20), (2, 8, 41)"
TN(i)  == "CREATE TABLE " \o i.dq \o " (id INTEGER PRIMARY KEY, a INTEGER, b INTEGER)"                  \* a table named i
TNRows(i) == "INSERT INTO " \o i.dq \o " VALUES (1, 10, 20), (2, 30, 40)"

IC(fx, sql, pre, probe, fresh) == [fx |-> fx, sql |-> sql, pre |-> pre, probe |-> probe, fresh |-> fresh]
FxT  == <<T0, T0Rows, U0, U0Rows>>
FxC(i) == <<TC(i), T0Rows, UC(i), UCRows>>
FxN(i) == <<TN(i), TNRows(i), T0, T0Rows>>
NProbe == <<"INSERT INTO n VALUES (1, 2)", "INSERT INTO n VALUES (1, 2)", "INSERT INTO n VALUES (99, 98)", "SELECT * FROM n">>

Positions == {"colref", "qualcol", "wherecol", "ordercol", "groupcol", "fnarg", "tblref", "qualtbl", "startbl", "jointbl",
              "colalias", "colalias-bare", "tblalias", "tblalias-bare", "subqalias", "subqalias-bare", "ctename", "ctecol", "usingcol",
              "inscol", "instbl", "insalias", "cflcol", "setcol", "settuple", "updtbl", "updalias", "deltbl", "delalias", "retalias",
              "idxname", "idxtbl", "idxcol", "dropidx", "viewname", "viewcol", "dropview", "ctname", "ctcol", "ctcol2",
              "colcname", "tblcname", "pkcol", "uqcol", "fkcol", "reftbl", "refcol", "fkreftbl", "fkrefcol", "droptbl",
              "alttbl", "addcol", "dropcol", "rencolfrom", "rencolto", "rento", "savepoint", "release", "rollbackto",
              "indexedby", "begin-name"}

IdCase(p, i) ==
  LET I == i.src IN
  CASE p = "colref"    -> IC(FxC(i), "SELECT " \o I \o " FROM t ORDER BY id", <<>>, <<>>, FALSE)
    [] p = "qualcol"   -> IC(FxC(i), "SELECT t." \o I \o " FROM t ORDER BY id", <<>>, <<>>, FALSE)
    [] p = "wherecol"  -> IC(FxC(i), "SELECT id FROM t WHERE " \o I \o " > 25", <<>>, <<>>, FALSE)
    [] p = "ordercol"  -> IC(FxC(i), "SELECT id FROM t ORDER BY " \o I \o " DESC", <<>>, <<>>, FALSE)
    [] p = "groupcol"  -> IC(FxC(i), "SELECT " \o I \o ", count(*) FROM t GROUP BY " \o I, <<>>, <<>>, FALSE)
    [] p = "fnarg"     -> IC(FxC(i), "SELECT max(" \o I \o ") FROM t", <<>>, <<>>, FALSE)
    [] p = "tblref"    -> IC(FxN(i), "SELECT a FROM " \o I \o " ORDER BY id", <<>>, <<>>, FALSE)
    [] p = "qualtbl"   -> IC(FxN(i), "SELECT " \o I \o ".a FROM " \o I \o " ORDER BY id", <<>>, <<>>, FALSE)
    [] p = "startbl"   -> IC(FxN(i), "SELECT " \o I \o ".* FROM " \o I \o " ORDER BY id", <<>>, <<>>, FALSE)
    [] p = "jointbl"   -> IC(FxN(i), "SELECT t.a FROM t JOIN " \o I \o " ON t.id = " \o I \o ".id ORDER BY t.id", <<>>, <<>>, FALSE)
    [] p = "colalias"  -> IC(FxT, "SELECT a AS " \o I \o " FROM t ORDER BY " \o I \o " DESC", <<>>, <<>>, FALSE)
    [] p = "colalias-bare" -> IC(FxT, "SELECT a " \o I \o " FROM t ORDER BY " \o I \o " DESC", <<>>, <<>>, FALSE)
    [] p = "tblalias"  -> IC(FxT, "SELECT " \o I \o ".a FROM t AS " \o I \o " ORDER BY " \o I \o ".id", <<>>, <<>>, FALSE)
    [] p = "tblalias-bare" -> IC(FxT, "SELECT " \o I \o ".a FROM t " \o I \o " ORDER BY " \o I \o ".id", <<>>, <<>>, FALSE)
    [] p = "subqalias" -> IC(FxT, "SELECT " \o I \o ".a FROM (SELECT a FROM t) AS " \o I \o " ORDER BY 1", <<>>, <<>>, FALSE)
    [] p = "subqalias-bare" -> IC(FxT, "SELECT " \o I \o ".a FROM (SELECT a FROM t) " \o I \o " ORDER BY 1", <<>>, <<>>, FALSE)
    [] p = "ctename"   -> IC(FxT, "WITH " \o I \o " AS (SELECT a FROM t) SELECT a FROM " \o I \o " ORDER BY 1", <<>>, <<>>, FALSE)
    [] p = "ctecol"    -> IC(FxT, "WITH q (" \o I \o ") AS (SELECT a FROM t) SELECT " \o I \o " FROM q ORDER BY 1", <<>>, <<>>, FALSE)
    [] p = "usingcol"  -> IC(FxC(i), "SELECT t.id FROM t JOIN u USING (" \o I \o ") ORDER BY t.id", <<>>, <<>>, FALSE)
    [] p = "inscol"    -> IC(FxC(i), "INSERT INTO t (id, " \o I \o ") VALUES (4, 50)", <<>>, <<>>, FALSE)
    [] p = "instbl"    -> IC(FxN(i), "INSERT INTO " \o I \o " (id, a) VALUES (4, 50)", <<>>, <<>>, FALSE)
    [] p = "insalias"  -> IC(FxT, "INSERT INTO t AS " \o I \o " (id, a) VALUES (1, 5) ON CONFLICT (id) DO UPDATE SET a = " \o I \o ".a + 1", <<>>, <<>>, FALSE)
    [] p = "cflcol"    -> IC(FxC(i), "INSERT INTO t (id, " \o I \o ") VALUES (9, 20) ON CONFLICT (" \o I \o ") DO UPDATE SET a = 77", <<>>, <<>>, FALSE)
    [] p = "setcol"    -> IC(FxC(i), "UPDATE t SET " \o I \o " = 5 WHERE id = 1", <<>>, <<>>, FALSE)
    [] p = "settuple"  -> IC(FxC(i), "UPDATE t SET (a, " \o I \o ") = (1, 2) WHERE id = 1", <<>>, <<>>, FALSE)
    [] p = "updtbl"    -> IC(FxN(i), "UPDATE " \o I \o " SET a = 5 WHERE id = 1", <<>>, <<>>, FALSE)
    [] p = "updalias"  -> IC(FxT, "UPDATE t AS " \o I \o " SET a = 5 WHERE " \o I \o ".id = 1", <<>>, <<>>, FALSE)
    [] p = "deltbl"    -> IC(FxN(i), "DELETE FROM " \o I \o " WHERE id = 1", <<>>, <<>>, FALSE)
    [] p = "delalias"  -> IC(FxT, "DELETE FROM t AS " \o I \o " WHERE " \o I \o ".id = 1", <<>>, <<>>, FALSE)
    [] p = "retalias"  -> IC(FxT, "DELETE FROM t WHERE id = 1 RETURNING a AS " \o I, <<>>, <<>>, FALSE)
    [] p = "idxname"   -> IC(FxT, "CREATE INDEX " \o I \o " ON t (a)", <<>>, <<>>, FALSE)
    [] p = "idxtbl"    -> IC(FxN(i), "CREATE INDEX i1 ON " \o I \o " (a)", <<>>, <<>>, FALSE)
    [] p = "idxcol"    -> IC(FxC(i), "CREATE INDEX i1 ON t (" \o I \o " DESC)", <<>>, <<>>, FALSE)
    [] p = "dropidx"   -> IC(FxT \o <<"CREATE INDEX " \o i.dq \o " ON t (a)">>, "DROP INDEX " \o I, <<>>, <<>>, FALSE)
    [] p = "viewname"  -> IC(FxT, "CREATE VIEW " \o I \o " AS SELECT a FROM t", <<>>, <<>>, FALSE)
    [] p = "viewcol"   -> IC(FxT, "CREATE VIEW v1 (" \o I \o ") AS SELECT a FROM t", <<>>, <<>>, FALSE)
    [] p = "dropview"  -> IC(FxT \o <<"CREATE VIEW " \o i.dq \o " AS SELECT a FROM t">>, "DROP VIEW " \o I, <<>>, <<>>, FALSE)
    [] p = "ctname"    -> IC(FxT, "CREATE TABLE " \o I \o " (x INTEGER)", <<>>, <<>>, FALSE)
    [] p = "ctcol"     -> IC(FxT, "CREATE TABLE n (" \o I \o " INTEGER, y INTEGER)", <<>>, NProbe, FALSE)
    [] p = "ctcol2"    -> IC(FxT, "CREATE TABLE n (y INTEGER, " \o I \o " INTEGER)", <<>>, NProbe, FALSE)
    [] p = "colcname"  -> IC(FxT, "CREATE TABLE n (x INTEGER CONSTRAINT " \o I \o " NOT NULL, y INTEGER)", <<>>, NProbe, FALSE)
    [] p = "tblcname"  -> IC(FxT, "CREATE TABLE n (x INTEGER, y INTEGER, CONSTRAINT " \o I \o " UNIQUE (x))", <<>>, NProbe, FALSE)
    [] p = "pkcol"     -> IC(FxT, "CREATE TABLE n (" \o I \o " INTEGER, y INTEGER, PRIMARY KEY (" \o I \o "))", <<>>, NProbe, FALSE)
    [] p = "uqcol"     -> IC(FxT, "CREATE TABLE n (" \o I \o " INTEGER, y INTEGER, UNIQUE (y, " \o I \o " DESC))", <<>>, NProbe, FALSE)
    [] p = "fkcol"     -> IC(FxT, "CREATE TABLE n (" \o I \o " INTEGER, y INTEGER, FOREIGN KEY (" \o I \o ") REFERENCES t (id))", <<>>, NProbe, FALSE)
    [] p = "reftbl"    -> IC(FxN(i), "CREATE TABLE n (x INTEGER REFERENCES " \o I \o " (id), y INTEGER)", <<>>, NProbe, FALSE)
    [] p = "refcol"    -> IC(FxC(i), "CREATE TABLE n (x INTEGER REFERENCES t (" \o I \o "), y INTEGER)", <<>>, NProbe, FALSE)
    [] p = "fkreftbl"  -> IC(FxN(i), "CREATE TABLE n (x INTEGER, y INTEGER, FOREIGN KEY (x) REFERENCES " \o I \o " (id))", <<>>, NProbe, FALSE)
    [] p = "fkrefcol"  -> IC(FxC(i), "CREATE TABLE n (x INTEGER, y INTEGER, FOREIGN KEY (x) REFERENCES t (" \o I \o "))", <<>>, NProbe, FALSE)
    [] p = "droptbl"   -> IC(FxN(i), "DROP TABLE " \o I, <<>>, <<>>, FALSE)
    [] p = "alttbl"    -> IC(FxN(i), "ALTER TABLE " \o I \o " ADD COLUMN z INTEGER", <<>>, <<>>, FALSE)
    [] p = "addcol"    -> IC(FxT, "ALTER TABLE t ADD COLUMN " \o I \o " INTEGER", <<>>, <<>>, FALSE)
    [] p = "dropcol"   -> IC(<<UC(i), UCRows>>, "ALTER TABLE u DROP COLUMN " \o I, <<>>, <<>>, FALSE)
    [] p = "rencolfrom" -> IC(FxC(i), "ALTER TABLE t RENAME COLUMN " \o I \o " TO z", <<>>, <<>>, FALSE)
    [] p = "rencolto"  -> IC(FxT, "ALTER TABLE t RENAME COLUMN b TO " \o I, <<>>, <<>>, FALSE)
    [] p = "rento"     -> IC(FxT, "ALTER TABLE t RENAME TO " \o I, <<>>, <<>>, FALSE)
    [] p = "savepoint" -> IC(FxT, "SAVEPOINT " \o I, <<>>, <<"INSERT INTO u VALUES (5, 5)", "ROLLBACK TO " \o i.dq, "SELECT count(*) FROM u">>, TRUE)
    [] p = "release"   -> IC(FxT, "RELEASE " \o I, <<"SAVEPOINT " \o i.dq, "INSERT INTO u VALUES (5, 5)">>, <<"SELECT count(*) FROM u">>, TRUE)
    [] p = "rollbackto" -> IC(FxT, "ROLLBACK TO " \o I, <<"SAVEPOINT " \o i.dq, "INSERT INTO u VALUES (5, 5)">>, <<"SELECT count(*) FROM u">>, TRUE)
    [] p = "indexedby" -> IC(FxT \o <<"CREATE INDEX " \o i.dq \o " ON t (a)">>, "SELECT a FROM t INDEXED BY " \o I \o " WHERE a > 0 ORDER BY a", <<>>, <<>>, FALSE)
    [] p = "begin-name" -> IC(FxT, "BEGIN TRANSACTION " \o I, <<>>, <<"INSERT INTO u VALUES (5, 5)", "ROLLBACK", "SELECT count(*) FROM u">>, TRUE)
    [] OTHER -> IC(<<>>, "?pos?", <<>>, <<>>, FALSE)

(* names that exist in the engine                                            *)
EnginePositions == {"coll-expr", "coll-order", "coll-coldef", "coll-index", "func", "type-coldef", "type-cast", "schema-tbl", "schema-col", "schema-ddl"}
EngineSpellings(p) ==
  IF p \in {"coll-expr", "coll-order", "coll-coldef", "coll-index"} THEN CollSpellings
  ELSE IF p = "func" THEN FuncSpellings
  ELSE IF p \in {"type-coldef", "type-cast"} THEN TypeSpellings
  ELSE SchemaSpellings
EngineCase(p, i) ==
  LET I == i.src IN
  CASE p = "coll-expr"   -> IC(FxT, "SELECT id FROM t WHERE s COLLATE " \o I \o " = 'x' ORDER BY id", <<>>, <<>>, FALSE)
    [] p = "coll-order"  -> IC(FxT, "SELECT s FROM t ORDER BY s COLLATE " \o I \o " DESC, id", <<>>, <<>>, FALSE)
    [] p = "coll-coldef" -> IC(FxT, "CREATE TABLE n (x TEXT COLLATE " \o I \o " UNIQUE, y INTEGER)", <<>>, <<"INSERT INTO n VALUES ('a', 1)", "INSERT INTO n VALUES ('A', 2)", "SELECT * FROM n">>, FALSE)
    [] p = "coll-index"  -> IC(FxT, "CREATE UNIQUE INDEX i1 ON t (s COLLATE " \o I \o ")", <<>>, <<"INSERT INTO t VALUES (9, 1, 1, 'Y')">>, FALSE)
    [] p = "func"        -> IC(FxT, "SELECT " \o I \o "(a) FROM t ORDER BY id", <<>>, <<>>, FALSE)
    [] p = "type-coldef" -> IC(FxT, "CREATE TABLE n (x " \o I \o ", y INTEGER)", <<>>, <<"INSERT INTO n VALUES ('12', 1)", "SELECT typeof(x) FROM n">>, FALSE)
    [] p = "type-cast"   -> IC(FxT, "SELECT CAST(s AS " \o I \o "), CAST('7' AS " \o I \o ") FROM t ORDER BY id", <<>>, <<>>, FALSE)
    [] p = "schema-tbl"  -> IC(FxT, "SELECT a FROM " \o I \o ".t ORDER BY id", <<>>, <<>>, FALSE)
    [] p = "schema-col"  -> IC(FxT, "SELECT " \o I \o ".t.a FROM t ORDER BY id", <<>>, <<>>, FALSE)
    [] p = "schema-ddl"  -> IC(FxT, "CREATE TABLE " \o I \o ".n (x INTEGER)", <<>>, <<>>, FALSE)
    [] OTHER -> IC(<<>>, "?pos?", <<>>, <<>>, FALSE)

-----------------------------------------------------------------------------
(* PostgreSQL's folding rule (the model of "which object does this spelling  *)
(* denote" where nothing can be executed): a quoted name denotes itself, an  *)
(* unquoted one its lower-case form.  Lower-casing is a table over the       *)
(* spellings this module plants.                                             *)
LowerTab == ("MixCol" :> "mixcol") @@ ("UPCOL" :> "upcol") @@ ("Table" :> "table") @@ ("NOCASE" :> "nocase") @@ ("NoCase" :> "nocase")
            @@ ("ABS" :> "abs") @@ ("Abs" :> "abs") @@ ("INTEGER" :> "integer") @@ ("Integer" :> "integer")
            @@ ("MAIN" :> "main") @@ ("Main" :> "main") @@ ("MY TYPE" :> "my type") @@ ("ORDER" :> "order")
Lower(n) == IF n \in DOMAIN LowerTab THEN LowerTab[n] ELSE n
Denote(d, quoted, text) == IF d = "pg" THEN (IF quoted THEN text ELSE Lower(text)) ELSE Lower(text)

(* format.go: isBareIdent over the planted names (a table, TLA+ has no       *)
(* character access): letters, digits and underscore, not starting with a digit *)
BareNames == {"col1", "MixCol", "UPCOL", "_c_1", "order", "select", "from", "primary", "not", "Table", "key",
              "nocase", "NOCASE", "NoCase", "abs", "ABS", "Abs", "integer", "INTEGER", "Integer", "main", "MAIN", "Main"}
LexBare == BareNames \cup {"a$b"}      \* spellings the lexer reads as one word when written bare
(* words the reader gives a role to somewhere, and words SQLite reserves     *)
ReaderWords    == {"order", "select", "from", "primary", "not", "table", "key"}
SqliteReserved == {"order", "select", "from", "primary", "not", "table"}
=============================================================================

SPECIFICATION Spec
CONSTANTS
  UnaryGlue = "spaced"
  IdentQuote = "design"
  EBound = "full"
INVARIANTS TypeOK RoundTrip Idempotent KeepsRole KeepsExec KeepsName KeepsDenotation
CHECK_DEADLOCK FALSE

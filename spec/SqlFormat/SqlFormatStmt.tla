--------------------------- MODULE SqlFormatStmt ---------------------------
(* C16 - the STATEMENT families: clause-presence / option matrices of the    *)
(* supported grammar (select.go, dml.go, ddl.go, txn.go).                    *)
(*                                                                           *)
(* A shape of a family is a record of options; every option has a default.   *)
(* The generated space is: the base shape, every shape with ONE non-default  *)
(* option and every shape with TWO.  Feat(shape) = the set of its non-default*)
(* "field=value" strings is the abstract identity of a case.                 *)
(* Sql(shape) is the source text for the fixture schema Fixture.             *)
EXTENDS Integers, Sequences, FiniteSets, TLC

Fixture == <<
  "CREATE TABLE t (id INTEGER PRIMARY KEY, a INTEGER, b INTEGER, c INTEGER, s TEXT, k INTEGER UNIQUE)",
  "INSERT INTO t VALUES (1, 1, 2, 3, 'x', 10), (2, -4, 0, NULL, 'Y', 20), (3, NULL, 5, -2, NULL, 30), (4, 2, 2, 7, 'x%', 40)",
  "CREATE TABLE u (id INTEGER PRIMARY KEY, a INTEGER, b INTEGER, c INTEGER, s TEXT, k INTEGER UNIQUE)",
  "INSERT INTO u VALUES (1, 1, 9, 9, 'x', 10), (2, 2, 2, 7, 'z', 20), (5, 7, 0, 1, NULL, 50)",
  "CREATE TABLE p (id INTEGER PRIMARY KEY, q INTEGER)",
  "INSERT INTO p VALUES (1, 100), (3, 300)",
  "CREATE INDEX ix ON t (a)",
  "CREATE VIEW vw AS SELECT id, a FROM t" >>

Singles(Base, Vals) == UNION {{[Base EXCEPT ![f] = v] : v \in Vals[f]} : f \in DOMAIN Vals}
Pairs(Base, Vals) ==
  UNION {UNION {UNION {{[Base EXCEPT ![f] = v, ![g] = w] : w \in Vals[g]} : v \in Vals[f]}
                : g \in DOMAIN Vals \ {f}} : f \in DOMAIN Vals}
Space(Base, Vals) == {Base} \cup Singles(Base, Vals) \cup Pairs(Base, Vals)
Feat(Base, s) == {f \o "=" \o s[f] : f \in {g \in DOMAIN Base : s[g] # Base[g]}}

Sp(a, b) == IF a = "" THEN b ELSE IF b = "" THEN a ELSE a \o " " \o b
RECURSIVE SpAll(_, _)
SpAll(s, i) == IF i > Len(s) THEN "" ELSE Sp(s[i], SpAll(s, i + 1))
Cat(s) == SpAll(s, 1)            \* the non-empty pieces joined by one blank

-----------------------------------------------------------------------------
(* SELECT                                                                    *)
SelBase == [with |-> "none", quant |-> "none", cols |-> "plain", from |-> "table", where |-> "none",
            group |-> "none", compound |-> "none", order |-> "none", limit |-> "none"]
SelVals == [with     |-> {"cte", "cte-cols", "two", "recursive"},
            quant    |-> {"distinct", "all"},
            cols     |-> {"star", "tstar", "alias", "expr", "case", "func"},
            from     |-> {"alias", "alias-bare", "schema", "notindexed", "indexedby", "join", "inner", "left", "left-outer",
                          "right", "full-outer", "cross", "natural", "natural-left-outer", "using", "using2", "comma",
                          "join3", "paren-left", "paren-right", "paren-right-left", "paren-single", "subq", "subq-bare",
                          "subq-compound"},
            where    |-> {"simple", "andor", "in-sub", "exists", "not-exists", "scalar-sub", "between-like", "isnull"},
            group    |-> {"group", "group2", "group-having"},
            compound |-> {"union", "union-all", "intersect", "except", "chain3"},
            order    |-> {"asc", "desc", "nulls-first", "nulls-last", "collate", "two", "pos"},
            limit    |-> {"limit", "limit-offset", "limit-comma", "limit-expr"}]

SelFrom(f) ==     \* [txt, m]: the FROM text and the name its columns are qualified with
  CASE f = "table"      -> [txt |-> "t", m |-> "t"]
    [] f = "alias"      -> [txt |-> "t AS x", m |-> "x"]
    [] f = "alias-bare" -> [txt |-> "t x", m |-> "x"]
    [] f = "schema"     -> [txt |-> "main.t", m |-> "t"]
    [] f = "notindexed" -> [txt |-> "t NOT INDEXED", m |-> "t"]
    [] f = "indexedby"  -> [txt |-> "t INDEXED BY ix", m |-> "t"]
    [] f = "join"       -> [txt |-> "t JOIN u ON t.id = u.id", m |-> "t"]
    [] f = "inner"      -> [txt |-> "t INNER JOIN u ON t.id = u.id", m |-> "t"]
    [] f = "left"       -> [txt |-> "t LEFT JOIN u ON t.id = u.id", m |-> "t"]
    [] f = "left-outer" -> [txt |-> "t LEFT OUTER JOIN u ON t.id = u.id", m |-> "t"]
    [] f = "right"      -> [txt |-> "t RIGHT JOIN u ON t.id = u.id", m |-> "t"]
    [] f = "full-outer" -> [txt |-> "t FULL OUTER JOIN u ON t.id = u.id", m |-> "t"]
    [] f = "cross"      -> [txt |-> "t CROSS JOIN p", m |-> "t"]
    [] f = "natural"    -> [txt |-> "t NATURAL JOIN p", m |-> "t"]
    [] f = "natural-left-outer" -> [txt |-> "t NATURAL LEFT OUTER JOIN p", m |-> "t"]
    [] f = "using"      -> [txt |-> "t JOIN u USING (id)", m |-> "t"]
    [] f = "using2"     -> [txt |-> "t JOIN u USING (id, k)", m |-> "t"]
    [] f = "comma"      -> [txt |-> "t, p", m |-> "t"]
    [] f = "join3"      -> [txt |-> "t JOIN u ON t.id = u.id JOIN p ON p.id = t.id", m |-> "t"]
    [] f = "paren-left" -> [txt |-> "(t JOIN u ON t.id = u.id) JOIN p ON p.id = t.id", m |-> "t"]
    [] f = "paren-right" -> [txt |-> "t JOIN (u JOIN p ON u.id = p.id) ON t.id = u.id", m |-> "t"]
    [] f = "paren-right-left" -> [txt |-> "t LEFT JOIN (u CROSS JOIN p) ON t.id = u.id", m |-> "t"]
    [] f = "paren-single" -> [txt |-> "(t)", m |-> "t"]
    [] f = "subq"       -> [txt |-> "(SELECT * FROM t WHERE id > 1) AS x", m |-> "x"]
    [] f = "subq-bare"  -> [txt |-> "(SELECT * FROM t) x", m |-> "x"]
    [] f = "subq-compound" -> [txt |-> "(SELECT * FROM t UNION ALL SELECT * FROM u) AS x", m |-> "x"]
    [] OTHER            -> [txt |-> "?from?", m |-> "t"]

SelCols(c, m) ==
  CASE c = "plain" -> m \o ".a, " \o m \o ".b"
    [] c = "star"  -> "*"
    [] c = "tstar" -> m \o ".*"
    [] c = "alias" -> m \o ".a AS x1, " \o m \o ".b y1"
    [] c = "expr"  -> m \o ".a + " \o m \o ".b * 2, " \o m \o ".s || 'z'"
    [] c = "case"  -> "CASE WHEN " \o m \o ".a > 0 THEN 'p' WHEN " \o m \o ".a < 0 THEN 'n' ELSE 'z' END, CAST(" \o m \o ".b AS TEXT)"
    [] c = "func"  -> "count(*), max(" \o m \o ".a), count(DISTINCT " \o m \o ".b), sum(" \o m \o ".c) FILTER (WHERE " \o m \o ".c > 0)"
    [] OTHER       -> "?cols?"
SelWhere(w, m) ==
  CASE w = "none"   -> ""
    [] w = "simple" -> "WHERE " \o m \o ".a > 0"
    [] w = "andor"  -> "WHERE (" \o m \o ".a > 0 OR " \o m \o ".b = 0) AND NOT " \o m \o ".c IS NULL"
    [] w = "in-sub" -> "WHERE " \o m \o ".a IN (SELECT a FROM u)"
    [] w = "exists" -> "WHERE EXISTS (SELECT 1 FROM p WHERE p.id = " \o m \o ".id)"
    [] w = "not-exists" -> "WHERE NOT EXISTS (SELECT 1 FROM p WHERE p.id = " \o m \o ".id)"
    [] w = "scalar-sub" -> "WHERE " \o m \o ".a = (SELECT min(a) FROM u)"
    [] w = "between-like" -> "WHERE " \o m \o ".a BETWEEN 0 AND 5 AND " \o m \o ".s LIKE 'x%' ESCAPE '!'"
    [] w = "isnull" -> "WHERE " \o m \o ".c ISNULL OR " \o m \o ".s NOTNULL"
    [] OTHER        -> "?where?"
SelGroup(g, m) ==
  CASE g = "none"   -> ""
    [] g = "group"  -> "GROUP BY " \o m \o ".b"
    [] g = "group2" -> "GROUP BY " \o m \o ".b, " \o m \o ".c"
    [] g = "group-having" -> "GROUP BY " \o m \o ".b HAVING count(*) > 0"
    [] OTHER        -> "?group?"
SelOrder(o, m) ==
  CASE o = "none"  -> ""
    [] o = "asc"   -> "ORDER BY " \o m \o ".a ASC"
    [] o = "desc"  -> "ORDER BY " \o m \o ".a DESC"
    [] o = "nulls-first" -> "ORDER BY " \o m \o ".a NULLS FIRST"
    [] o = "nulls-last"  -> "ORDER BY " \o m \o ".a DESC NULLS LAST"
    [] o = "collate" -> "ORDER BY " \o m \o ".s COLLATE nocase DESC"
    [] o = "two"   -> "ORDER BY " \o m \o ".a, " \o m \o ".b DESC"
    [] o = "pos"   -> "ORDER BY 1 DESC, 2"
    [] OTHER       -> "?order?"
SelLimit(l) ==
  CASE l = "none" -> "" [] l = "limit" -> "LIMIT 2" [] l = "limit-offset" -> "LIMIT 2 OFFSET 1"
    [] l = "limit-comma" -> "LIMIT 1, 2" [] l = "limit-expr" -> "LIMIT 1 + 1" [] OTHER -> "?limit?"
SelWith(w) ==
  CASE w = "none" -> ""
    [] w = "cte" -> "WITH q AS (SELECT id, a FROM u)"
    [] w = "cte-cols" -> "WITH q (x, y) AS (SELECT id, a FROM u)"
    [] w = "two" -> "WITH q AS (SELECT id, a FROM u), r AS (SELECT 1 AS one)"
    [] w = "recursive" -> "WITH RECURSIVE q (n) AS (SELECT 1 UNION ALL SELECT n + 1 FROM q WHERE n < 3)"
    [] OTHER -> "?with?"
SelQuant(q) == CASE q = "none" -> "" [] q = "distinct" -> "DISTINCT" [] q = "all" -> "ALL" [] OTHER -> "?q?"
SelCompound(c, cols) ==
  CASE c = "none" -> ""
    [] c = "union" -> "UNION SELECT " \o cols \o " FROM u"
    [] c = "union-all" -> "UNION ALL SELECT " \o cols \o " FROM u"
    [] c = "intersect" -> "INTERSECT SELECT " \o cols \o " FROM u"
    [] c = "except" -> "EXCEPT SELECT " \o cols \o " FROM u"
    [] c = "chain3" -> "UNION SELECT " \o cols \o " FROM u EXCEPT SELECT " \o cols \o " FROM u WHERE u.id > 4"
    [] OTHER -> "?compound?"
SelSql(s) ==
  LET fr == SelFrom(s.from) IN
  Cat(<<SelWith(s.with), "SELECT", SelQuant(s.quant), SelCols(s.cols, fr.m), "FROM", fr.txt, SelWhere(s.where, fr.m),
        SelGroup(s.group, fr.m), SelCompound(s.compound, SelCols(IF s.cols = "alias" THEN "plain" ELSE s.cols, "u")),
        SelOrder(s.order, fr.m), SelLimit(s.limit)>>)

-----------------------------------------------------------------------------
(* INSERT                                                                    *)
InsBase == [or |-> "none", alias |-> "no", cols |-> "list", source |-> "values", conflict |-> "none", returning |-> "none"]
InsVals == [or |-> {"replace", "ignore", "abort", "fail", "rollback"},
            alias |-> {"as"},
            cols |-> {"none"},
            source |-> {"values2", "values-expr", "default", "select", "select-compound", "select-with"},
            conflict |-> {"nothing", "nothing-target", "update", "update-where", "target-where", "update-tuple",
                          "target-two", "target-desc", "target-collate", "target-expr", "pk-conflict-target-k"},
            returning |-> {"star", "cols", "alias", "expr"}]
InsSource(src, cols) ==      \* a row that collides with t on k = 10 (and not on id)
  CASE src = "values"  -> IF cols = "none" THEN "VALUES (9, 5, 6, 7, 'n', 10)" ELSE "VALUES (9, 5, 10)"
    [] src = "values2" -> IF cols = "none" THEN "VALUES (9, 5, 6, 7, 'n', 10), (8, 1, 1, 1, 'm', 88)" ELSE "VALUES (9, 5, 10), (8, 1, 88)"
    [] src = "values-expr" -> IF cols = "none" THEN "VALUES (9, 2 + 3, -6, NULL, 'n' || 'o', 5 * 2)" ELSE "VALUES (4 + 5, -(2 - 7), 5 * 2)"
    [] src = "default" -> "DEFAULT VALUES"
    [] src = "select"  -> IF cols = "none" THEN "SELECT id + 10, a, b, c, s, k + 1 FROM u WHERE u.id < 5" ELSE "SELECT id + 10, a, k + 1 FROM u WHERE u.id < 5"
    [] src = "select-compound" -> IF cols = "none" THEN "SELECT 9, 5, 6, 7, 'n', 10 UNION ALL SELECT 8, 1, 1, 1, 'm', 88" ELSE "SELECT 9, 5, 10 UNION ALL SELECT 8, 1, 88"
    [] src = "select-with" -> IF cols = "none" THEN "WITH q AS (SELECT 9 AS i) SELECT i, 5, 6, 7, 'n', 10 FROM q" ELSE "WITH q AS (SELECT 9 AS i) SELECT i, 5, 10 FROM q"
    [] OTHER -> "?source?"
InsConflict(c) ==
  CASE c = "none" -> ""
    [] c = "nothing" -> "ON CONFLICT DO NOTHING"
    [] c = "nothing-target" -> "ON CONFLICT (k) DO NOTHING"
    [] c = "update" -> "ON CONFLICT (k) DO UPDATE SET a = excluded.a + 100"
    [] c = "update-where" -> "ON CONFLICT (k) DO UPDATE SET a = excluded.a, b = 77 WHERE t.a > 0"
    [] c = "target-where" -> "ON CONFLICT (k) WHERE k > 0 DO UPDATE SET a = 55"
    [] c = "update-tuple" -> "ON CONFLICT (k) DO UPDATE SET (a, b) = (excluded.a, 66)"
    [] c = "target-two" -> "ON CONFLICT (id, k) DO NOTHING"
    [] c = "target-desc" -> "ON CONFLICT (k DESC) DO NOTHING"
    [] c = "target-collate" -> "ON CONFLICT (k COLLATE binary) DO NOTHING"
    [] c = "target-expr" -> "ON CONFLICT (abs(k)) DO NOTHING"
    [] c = "pk-conflict-target-k" -> "ON CONFLICT (k COLLATE binary) DO UPDATE SET a = 44"
    [] OTHER -> "?conflict?"
Returning(r) ==
  CASE r = "none" -> "" [] r = "star" -> "RETURNING *" [] r = "cols" -> "RETURNING id, a"
    [] r = "alias" -> "RETURNING id AS i, a aa" [] r = "expr" -> "RETURNING a + 1, s || 'r'" [] OTHER -> "?returning?"
OrAction(o) == IF o = "none" THEN "" ELSE
  CASE o = "replace" -> "OR REPLACE" [] o = "ignore" -> "OR IGNORE" [] o = "abort" -> "OR ABORT"
    [] o = "fail" -> "OR FAIL" [] o = "rollback" -> "OR ROLLBACK" [] OTHER -> "?or?"
InsSql(s) ==
  Cat(<<"INSERT", OrAction(s.or), "INTO t", IF s.alias = "as" THEN "AS tt" ELSE "",
        IF s.cols = "list" /\ s.source # "default" THEN "(id, a, k)" ELSE "",
        InsSource(s.source, IF s.source = "default" THEN "none" ELSE s.cols), InsConflict(s.conflict), Returning(s.returning)>>)

(* UPDATE                                                                    *)
UpdBase == [or |-> "none", alias |-> "no", set |-> "one", from |-> "none", where |-> "simple", returning |-> "none"]
UpdVals == [or |-> {"replace", "ignore", "abort", "fail", "rollback"},
            alias |-> {"as", "bare"},
            set |-> {"two", "tuple", "tuple-sub", "expr", "sub", "collide"},
            from |-> {"table", "join", "subq", "paren-right"},
            where |-> {"none", "andor", "in-sub", "exists"},
            returning |-> {"star", "cols", "alias", "expr"}]
UpdSet(v) ==
  CASE v = "one" -> "SET a = 5" [] v = "two" -> "SET a = 5, b = b + 1" [] v = "tuple" -> "SET (a, b) = (5, 6)"
    [] v = "tuple-sub" -> "SET (a, b) = (SELECT a, b FROM u WHERE u.id = 2)"
    [] v = "expr" -> "SET a = -a * (b + 1), s = s || 'u'" [] v = "sub" -> "SET a = (SELECT max(a) FROM u)"
    [] v = "collide" -> "SET k = 10"
    [] OTHER -> "?set?"
UpdFrom(v) ==
  CASE v = "none" -> "" [] v = "table" -> "FROM u" [] v = "join" -> "FROM u JOIN p ON u.id = p.id"
    [] v = "subq" -> "FROM (SELECT id, a FROM u) AS u" [] v = "paren-right" -> "FROM u JOIN (p JOIN vw ON p.id = vw.id) ON u.id = p.id"
    [] OTHER -> "?from?"
UpdWhere(v, m, from) ==
  LET j == IF from = "none" THEN "" ELSE " AND u.id = " \o m \o ".id" IN
  CASE v = "none" -> IF from = "none" THEN "" ELSE "WHERE u.id = " \o m \o ".id"
    [] v = "simple" -> "WHERE " \o m \o ".id > 1" \o j
    [] v = "andor" -> "WHERE (" \o m \o ".a > 0 OR " \o m \o ".b = 0) AND NOT " \o m \o ".c IS NULL" \o j
    [] v = "in-sub" -> "WHERE " \o m \o ".id IN (SELECT id FROM p)" \o j
    [] v = "exists" -> "WHERE EXISTS (SELECT 1 FROM p WHERE p.id = " \o m \o ".id)" \o j
    [] OTHER -> "?where?"
UpdSql(s) ==
  LET m == IF s.alias = "no" THEN "t" ELSE "tt" IN
  Cat(<<"UPDATE", OrAction(s.or), "t", IF s.alias = "as" THEN "AS tt" ELSE IF s.alias = "bare" THEN "tt" ELSE "",
        UpdSet(s.set), UpdFrom(s.from), UpdWhere(s.where, m, s.from), Returning(s.returning)>>)

(* DELETE                                                                    *)
DelBase == [alias |-> "no", using |-> "none", where |-> "simple", returning |-> "none"]
DelVals == [alias |-> {"as", "bare"}, using |-> {"table", "join"}, where |-> {"none", "andor", "in-sub", "exists"},
            returning |-> {"star", "cols", "alias", "expr"}]
DelSql(s) ==
  LET m == IF s.alias = "no" THEN "t" ELSE "tt" IN
  Cat(<<"DELETE FROM t", IF s.alias = "as" THEN "AS tt" ELSE IF s.alias = "bare" THEN "tt" ELSE "",
        IF s.using = "table" THEN "USING u" ELSE IF s.using = "join" THEN "USING u JOIN p ON u.id = p.id" ELSE "",
        UpdWhere(s.where, m, s.using), Returning(s.returning)>>)

-----------------------------------------------------------------------------
(* CREATE TABLE n (x <type> <column constraints>, y INTEGER [, <table constraint>]) [WITHOUT ROWID]            *)
CtBase == [temp |-> "none", ine |-> "no", schema |-> "no", type |-> "INTEGER", pk |-> "none", notnull |-> "none",
           unique |-> "none", check |-> "none", default |-> "none", collate |-> "none", refs |-> "none",
           generated |-> "none", tcons |-> "none", rowid |-> "yes", as |-> "no"]
CtVals == [temp |-> {"temp", "temporary"}, ine |-> {"yes"}, schema |-> {"main"},
           type |-> {"none", "integer", "TEXT", "varchar(10)", "DECIMAL(10,2)", "double precision", "unsigned big int"},
           pk |-> {"pk", "pk-asc", "pk-desc", "pk-auto", "pk-conflict", "pk-named"},
           notnull |-> {"nn", "nn-conflict", "nn-named"},
           unique |-> {"unique", "unique-conflict", "unique-named"},
           check |-> {"check", "check-named", "check-andor"},
           default |-> {"num", "neg", "str", "paren", "null", "named", "true"},
           collate |-> {"nocase", "named"},
           refs |-> {"ref", "ref-cols", "ref-delete", "ref-update-delete", "ref-deferrable", "ref-not-deferrable", "ref-named", "ref-schema"},
           generated |-> {"stored", "virtual", "short", "always-default"},
           tcons |-> {"pk", "pk-desc-conflict", "unique", "unique-two-named", "check", "check-named", "fk", "fk-actions",
                      "fk-named-deferrable", "two"},
           rowid |-> {"without"}, as |-> {"select", "select-compound"}]
CtPk(v) == CASE v = "none" -> "" [] v = "pk" -> "PRIMARY KEY" [] v = "pk-asc" -> "PRIMARY KEY ASC" [] v = "pk-desc" -> "PRIMARY KEY DESC"
             [] v = "pk-auto" -> "PRIMARY KEY AUTOINCREMENT" [] v = "pk-conflict" -> "PRIMARY KEY ON CONFLICT REPLACE"
             [] v = "pk-named" -> "CONSTRAINT c_pk PRIMARY KEY" [] OTHER -> "?pk?"
CtNn(v) == CASE v = "none" -> "" [] v = "nn" -> "NOT NULL" [] v = "nn-conflict" -> "NOT NULL ON CONFLICT IGNORE"
             [] v = "nn-named" -> "CONSTRAINT c_nn NOT NULL" [] OTHER -> "?nn?"
CtUq(v) == CASE v = "none" -> "" [] v = "unique" -> "UNIQUE" [] v = "unique-conflict" -> "UNIQUE ON CONFLICT REPLACE"
             [] v = "unique-named" -> "CONSTRAINT c_uq UNIQUE" [] OTHER -> "?uq?"
CtCk(v) == CASE v = "none" -> "" [] v = "check" -> "CHECK (x > 0)" [] v = "check-named" -> "CONSTRAINT c_ck CHECK (x <> 3)"
             [] v = "check-andor" -> "CHECK (x > 0 AND (x < 5 OR x = 7))" [] OTHER -> "?ck?"
CtDf(v) == CASE v = "none" -> "" [] v = "num" -> "DEFAULT 5" [] v = "neg" -> "DEFAULT -1" [] v = "str" -> "DEFAULT 'it''s'"
             [] v = "paren" -> "DEFAULT (1 + 2 * 3)" [] v = "null" -> "DEFAULT NULL" [] v = "named" -> "CONSTRAINT c_df DEFAULT 4"
             [] v = "true" -> "DEFAULT TRUE" [] OTHER -> "?df?"
CtCo(v) == CASE v = "none" -> "" [] v = "nocase" -> "COLLATE nocase" [] v = "named" -> "CONSTRAINT c_co COLLATE nocase" [] OTHER -> "?co?"
CtRf(v) == CASE v = "none" -> "" [] v = "ref" -> "REFERENCES p" [] v = "ref-cols" -> "REFERENCES p (id)"
             [] v = "ref-delete" -> "REFERENCES p (id) ON DELETE CASCADE"
             [] v = "ref-update-delete" -> "REFERENCES p (id) ON UPDATE SET NULL ON DELETE SET DEFAULT"
             [] v = "ref-deferrable" -> "REFERENCES p (id) ON DELETE NO ACTION DEFERRABLE INITIALLY DEFERRED"
             [] v = "ref-not-deferrable" -> "REFERENCES p (id) ON UPDATE RESTRICT NOT DEFERRABLE INITIALLY IMMEDIATE"
             [] v = "ref-named" -> "CONSTRAINT c_fk REFERENCES p (id)"
             [] v = "ref-schema" -> "REFERENCES main.p (id)"
             [] OTHER -> "?rf?"
CtGen(v) == CASE v = "none" -> "" [] v = "stored" -> ", g INTEGER GENERATED ALWAYS AS (y * 2) STORED"
              [] v = "virtual" -> ", g INTEGER GENERATED ALWAYS AS (y + 1) VIRTUAL" [] v = "short" -> ", g INTEGER AS (y - 1)"
              [] v = "always-default" -> ", g INTEGER GENERATED ALWAYS AS (y * y)" [] OTHER -> "?gen?"
CtTc(v) == CASE v = "none" -> "" [] v = "pk" -> ", PRIMARY KEY (x, y)" [] v = "pk-desc-conflict" -> ", PRIMARY KEY (x DESC, y ASC) ON CONFLICT IGNORE"
             [] v = "unique" -> ", UNIQUE (y)" [] v = "unique-two-named" -> ", CONSTRAINT t_uq UNIQUE (x, y COLLATE nocase) ON CONFLICT REPLACE"
             [] v = "check" -> ", CHECK (x <> y)" [] v = "check-named" -> ", CONSTRAINT t_ck CHECK (x + y > 0 OR y IS NULL)"
             [] v = "fk" -> ", FOREIGN KEY (y) REFERENCES p (id)" [] v = "fk-actions" -> ", FOREIGN KEY (y) REFERENCES p (id) ON DELETE CASCADE ON UPDATE SET NULL"
             [] v = "fk-named-deferrable" -> ", CONSTRAINT t_fk FOREIGN KEY (y) REFERENCES p DEFERRABLE INITIALLY DEFERRED"
             [] v = "two" -> ", UNIQUE (y), CHECK (y < 1000)"
             [] OTHER -> "?tc?"
CtSql(s) ==
  LET head == Cat(<<"CREATE", IF s.temp = "none" THEN "" ELSE IF s.temp = "temp" THEN "TEMP" ELSE "TEMPORARY", "TABLE",
                    IF s.ine = "yes" THEN "IF NOT EXISTS" ELSE "", IF s.schema = "main" THEN "main.n" ELSE "n">>) IN
  IF s.as # "no" THEN head \o " AS " \o (IF s.as = "select" THEN "SELECT id, a FROM t WHERE a > 0" ELSE "SELECT id, a FROM t UNION SELECT id, a FROM u ORDER BY 1 LIMIT 3")
  ELSE head \o " (" \o Cat(<<"x", IF s.type = "none" THEN "" ELSE s.type, CtPk(s.pk), CtNn(s.notnull), CtUq(s.unique), CtCk(s.check),
                            CtDf(s.default), CtCo(s.collate), CtRf(s.refs)>>) \o ", y INTEGER" \o CtGen(s.generated) \o CtTc(s.tcons) \o ")"
       \o (IF s.rowid = "without" THEN " WITHOUT ROWID" ELSE "")
CtProbe == <<"INSERT INTO n (x, y) VALUES (1, 1)", "INSERT INTO n (x, y) VALUES (1, 3)", "INSERT INTO n (x, y) VALUES (2, 1)",
             "INSERT INTO n (x, y) VALUES (NULL, 3)", "INSERT INTO n (y) VALUES (1)", "INSERT INTO n (x, y) VALUES (3, 99)",
             "INSERT INTO n (x, y) VALUES (-5, 1)", "INSERT INTO n (x, y) VALUES ('A', 3)", "INSERT INTO n (x, y) VALUES ('a', 1)",
             "INSERT INTO n (x, y) VALUES (7, NULL)", "INSERT INTO n (x, y) VALUES (6, 6)",
             "UPDATE p SET id = 11 WHERE id = 1", "DELETE FROM p WHERE id = 3",
             "SELECT * FROM n ORDER BY 1, 2", "SELECT count(*) FROM n WHERE x = 'a'">>

(* CREATE INDEX / VIEW, DROP, ALTER                                          *)
CiBase == [unique |-> "no", ine |-> "no", cols |-> "one", where |-> "none"]
CiVals == [unique |-> {"yes"}, ine |-> {"yes"}, cols |-> {"two", "desc", "asc", "collate", "expr", "func"}, where |-> {"simple", "andor"}]
CiSql(s) ==
  Cat(<<"CREATE", IF s.unique = "yes" THEN "UNIQUE" ELSE "", "INDEX", IF s.ine = "yes" THEN "IF NOT EXISTS" ELSE "", "i1 ON t",
        CASE s.cols = "one" -> "(b)" [] s.cols = "two" -> "(b, c)" [] s.cols = "desc" -> "(b DESC, c)" [] s.cols = "asc" -> "(b ASC)"
          [] s.cols = "collate" -> "(s COLLATE nocase DESC)" [] s.cols = "expr" -> "(b + c, a)" [] s.cols = "func" -> "(lower(s))" [] OTHER -> "?cols?",
        CASE s.where = "none" -> "" [] s.where = "simple" -> "WHERE b > 0" [] s.where = "andor" -> "WHERE b > 0 AND (c IS NOT NULL OR a = 1)" [] OTHER -> "?where?">>)
CiProbe == <<"INSERT INTO t VALUES (9, 9, 2, 3, 'X', 90)", "INSERT INTO t VALUES (10, 9, 5, -2, 'q', 91)", "SELECT id FROM t ORDER BY b DESC, id">>

CvBase == [temp |-> "none", ine |-> "no", cols |-> "none", body |-> "simple", replace |-> "no"]
CvVals == [temp |-> {"temp", "temporary"}, ine |-> {"yes"}, cols |-> {"list"}, body |-> {"where", "compound", "order-limit", "join", "with"}, replace |-> {"yes"}]
CvSql(s) ==
  Cat(<<"CREATE", IF s.replace = "yes" THEN "OR REPLACE" ELSE "", IF s.temp = "none" THEN "" ELSE IF s.temp = "temp" THEN "TEMP" ELSE "TEMPORARY",
        "VIEW", IF s.ine = "yes" THEN "IF NOT EXISTS" ELSE "", "v1", IF s.cols = "list" THEN "(c1, c2)" ELSE "", "AS",
        CASE s.body = "simple" -> "SELECT id, a FROM t" [] s.body = "where" -> "SELECT id, a + 1 AS a1 FROM t WHERE a > 0 OR b = 0"
          [] s.body = "compound" -> "SELECT id, a FROM t UNION SELECT id, a FROM u"
          [] s.body = "order-limit" -> "SELECT id, a FROM t ORDER BY a DESC NULLS LAST LIMIT 2 OFFSET 1"
          [] s.body = "join" -> "SELECT t.id, u.a FROM t LEFT JOIN u ON t.id = u.id"
          [] s.body = "with" -> "WITH q AS (SELECT id, a FROM u) SELECT id, a FROM q"
          [] OTHER -> "?body?">>)
CvProbe == <<"SELECT * FROM v1 ORDER BY 1, 2">>

DropBase == [kind |-> "table", ifexists |-> "no", schema |-> "no", tail |-> "none", missing |-> "no"]
DropVals == [kind |-> {"index", "view"}, ifexists |-> {"yes"}, schema |-> {"main"}, tail |-> {"cascade", "restrict"}, missing |-> {"yes"}]
DropSql(s) ==
  LET obj == IF s.missing = "yes" THEN "nope" ELSE IF s.kind = "table" THEN "p" ELSE IF s.kind = "index" THEN "ix" ELSE "vw" IN
  Cat(<<"DROP", IF s.kind = "table" THEN "TABLE" ELSE IF s.kind = "index" THEN "INDEX" ELSE "VIEW", IF s.ifexists = "yes" THEN "IF EXISTS" ELSE "",
        IF s.schema = "main" THEN "main." \o obj ELSE obj, IF s.tail = "cascade" THEN "CASCADE" ELSE IF s.tail = "restrict" THEN "RESTRICT" ELSE "">>)

AltBase == [action |-> "add-column", schema |-> "no"]
AltVals == [action |-> {"add", "add-constraints", "add-default-collate", "add-refs", "add-generated", "drop-column", "drop",
                        "rename-column", "rename-col-short", "rename-to"}, schema |-> {"main"}]
AltSql(s) ==
  "ALTER TABLE " \o (IF s.schema = "main" THEN "main.u" ELSE "u") \o " " \o
  (CASE s.action = "add-column" -> "ADD COLUMN z INTEGER" [] s.action = "add" -> "ADD z TEXT"
     [] s.action = "add-constraints" -> "ADD COLUMN z INTEGER NOT NULL DEFAULT 7 CHECK (z > 0)"
     [] s.action = "add-default-collate" -> "ADD COLUMN z TEXT DEFAULT 'q' COLLATE nocase"
     [] s.action = "add-refs" -> "ADD COLUMN z INTEGER REFERENCES p (id) ON DELETE SET NULL"
     [] s.action = "add-generated" -> "ADD COLUMN z INTEGER GENERATED ALWAYS AS (a + b) VIRTUAL"
     [] s.action = "drop-column" -> "DROP COLUMN c" [] s.action = "drop" -> "DROP c"
     [] s.action = "rename-column" -> "RENAME COLUMN c TO cc" [] s.action = "rename-col-short" -> "RENAME c TO cc"
     [] s.action = "rename-to" -> "RENAME TO u2" [] OTHER -> "?action?")
AltProbe == <<"INSERT INTO u (id, a, k) VALUES (70, 1, 700)", "INSERT INTO u2 (id, a, k) VALUES (71, 1, 701)",
              "UPDATE u SET z = -1 WHERE id = 70", "UPDATE u SET z = 3 WHERE id = 1", "DELETE FROM p WHERE id = 3">>

(* transaction control: each runs on a fresh connection after its Pre        *)
TxnCases ==
  {[sql |-> q, pre |-> <<>>, feat |-> {q}] :
     q \in {"BEGIN", "BEGIN TRANSACTION", "BEGIN WORK", "BEGIN DEFERRED", "BEGIN IMMEDIATE", "BEGIN EXCLUSIVE",
            "BEGIN DEFERRED TRANSACTION", "BEGIN IMMEDIATE TRANSACTION", "BEGIN EXCLUSIVE TRANSACTION", "BEGIN TRANSACTION tx1",
            "SAVEPOINT sp1", "begin immediate", "savepoint sp1"}}
  \cup {[sql |-> q, pre |-> <<"BEGIN", "INSERT INTO p VALUES (9, 900)">>, feat |-> {q}] :
          q \in {"COMMIT", "COMMIT TRANSACTION", "COMMIT WORK", "END", "END TRANSACTION", "ROLLBACK", "ROLLBACK TRANSACTION",
                 "ROLLBACK WORK", "commit", "end transaction", "rollback"}}
  \cup {[sql |-> q, pre |-> <<"BEGIN", "INSERT INTO p VALUES (9, 900)", "SAVEPOINT sp1", "INSERT INTO p VALUES (8, 800)">>, feat |-> {q}] :
          q \in {"ROLLBACK TO sp1", "ROLLBACK TO SAVEPOINT sp1", "ROLLBACK TRANSACTION TO SAVEPOINT sp1", "ROLLBACK TRANSACTION TO sp1",
                 "RELEASE sp1", "RELEASE SAVEPOINT sp1", "release savepoint sp1", "rollback to sp1"}}
TxnProbe == <<"INSERT INTO p VALUES (7, 700)", "ROLLBACK", "SELECT count(*) FROM p">>

(* assorted statements written out in full (spellings the matrices do not vary: lower-case keywords, literals,      *)
(* placeholders, comments, nesting)                                                                                 *)
MiscCases ==
  {[name |-> "lowercase-select", sql |-> "select a, b from t where s like 'x%' and b between 1 and 2 or c isnull order by a desc limit 1 offset 0"],
   [name |-> "lowercase-dml", sql |-> "insert or replace into t (id, a, k) values (1, 2, 3) on conflict (k) do update set a = excluded.a returning id"],
   [name |-> "lowercase-ddl", sql |-> "create table if not exists n (x integer primary key autoincrement, y text not null default 'q' collate nocase references p (id) on delete cascade)"],
   [name |-> "literals", sql |-> "SELECT x'ab', X'CD', 1e3, .5, 1., 0x1F, 12345678901234567890, 1.5e-3, 'it''s', '', NULL, null, TRUE, false FROM t WHERE id = 1"],
   [name |-> "string-newline-tab", sql |-> "SELECT 'a  b', 'semi;colon', '-- not a comment', '/* nor this */' FROM t WHERE id = 1"],
   [name |-> "comments", sql |-> "SELECT a /* inline */ , b -- trailing\n FROM t /* another */ WHERE id = 1"],
   [name |-> "placeholders", sql |-> "SELECT a FROM t WHERE a = ?1 AND b = :nm AND c = ? AND s = @x AND id = $1"],
   [name |-> "semicolon", sql |-> "SELECT a FROM t WHERE id = 1;"],
   [name |-> "nested-sub", sql |-> "SELECT (SELECT max(a) FROM u WHERE u.id IN (SELECT id FROM p WHERE q > (SELECT 0))) + 1, (a) FROM t ORDER BY id"],
   [name |-> "nested-case", sql |-> "SELECT CASE a WHEN 1 THEN CASE WHEN b > 1 THEN 'x' END ELSE 'y' END FROM t ORDER BY id"],
   [name |-> "row-values", sql |-> "SELECT id FROM t WHERE (a, b) = (1, 2) OR (a, b) IN (SELECT a, b FROM u)"],
   [name |-> "func-variants", sql |-> "SELECT COUNT(*), Max(a), coalesce(NULL, a, 0), substr(s, 1, 1), abs(-a), count() FROM t"],
   [name |-> "qualified", sql |-> "SELECT main.t.a, t.b, main.t.id FROM main.t ORDER BY main.t.id"],
   [name |-> "value-keywords", sql |-> "SELECT length(current_date), length(current_time), length(current_timestamp) FROM t WHERE id = 1"],
   [name |-> "cte-used", sql |-> "WITH q AS (SELECT id, a FROM u), r (i) AS (SELECT id FROM p) SELECT t.id, q.a FROM t JOIN q ON q.id = t.id WHERE t.id IN (SELECT i FROM r) ORDER BY t.id"],
   [name |-> "exists-with", sql |-> "SELECT id FROM t WHERE EXISTS (WITH q AS (SELECT 1 AS one) SELECT one FROM q) ORDER BY id"],
   [name |-> "not-chain", sql |-> "SELECT NOT NOT a, NOT a IS NULL, NOT a IN (1, 2), NOT a BETWEEN 0 AND 1, NOT EXISTS (SELECT 1), NOT (a = 1 OR b = 2) FROM t ORDER BY id"],
   [name |-> "minus-forms", sql |-> "SELECT 1 - -2, 1 + - 2, - (- a), -(a - b), a - (- b), - a - - b FROM t ORDER BY id"],
   [name |-> "isnull-rel", sql |-> "SELECT a ISNULL < b, a NOTNULL >= b, a ISNULL = b FROM t ORDER BY id"],
   [name |-> "deep-paren", sql |-> "SELECT ((a + b)) * ((c)), (((a))) FROM t ORDER BY id"],
   [name |-> "select-noFrom", sql |-> "SELECT 1, 'two', 3 * 4 WHERE 1 = 1 ORDER BY 1 LIMIT 1"],
   [name |-> "insert-default-schema", sql |-> "INSERT INTO main.p DEFAULT VALUES"],
   [name |-> "update-all-clauses", sql |-> "UPDATE OR IGNORE main.t AS z SET (a, b) = (1, 2), c = z.c + 1 FROM u WHERE u.id = z.id AND z.id > 1 RETURNING z.id, z.a AS aa"],
   [name |-> "delete-all-clauses", sql |-> "DELETE FROM main.t AS z WHERE z.id IN (SELECT id FROM p) RETURNING *"],
   [name |-> "index-schema-table", sql |-> "CREATE UNIQUE INDEX IF NOT EXISTS i2 ON t (a DESC, b COLLATE nocase ASC) WHERE a IS NOT NULL"],
   [name |-> "pg-escape-string", sql |-> "SELECT E'a\\'b' FROM t WHERE id = 1"],
   [name |-> "pg-ilike", sql |-> "SELECT id FROM t WHERE s ILIKE 'X' ORDER BY id"]}
=============================================================================

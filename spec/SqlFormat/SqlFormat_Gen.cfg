SPECIFICATION GenSpec
CONSTANTS
  UnaryGlue = "spaced"
  EBound = "full"
CHECK_DEADLOCK FALSE

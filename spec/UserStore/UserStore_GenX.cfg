SPECIFICATION GenSpec
CONSTANTS
  Names = {"admin", "bob"}
  DefaultUser = "admin"
  Templates <- TemplatesSmall
  GrantPerms = {"px"}
  Policy = "empty"
  FileNilify = TRUE
  AbsBoot = "empty"
  FileBoot = "empty"
  DbBoot = "empty"
  Mask = "********"
  FileMask = "********"
  DbMask = "********"
  DefaultPw = ""
  FileBootPw = "documented"
  BootObs = "coarse"
  Allowed <- ExhaustiveCalls
  ReopenModes <- BothProcesses
  Depth = 3
  Mode = "all"
  FinalList = FALSE
INVARIANTS Emit
CHECK_DEADLOCK FALSE

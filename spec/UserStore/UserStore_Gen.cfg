SPECIFICATION GenSpec
CONSTANTS
  Names = {"admin", "bob", "Bob"}
  DefaultUser = "admin"
  Templates <- TemplatesFull
  GrantPerms = {"logon", "px", "py"}
  Policy = "empty"
  FileNilify = TRUE
  AbsBoot = "empty"
  FileBoot = "empty"
  DbBoot = "empty"
  Mask = "********"
  FileMask = "********"
  DbMask = "********"
  DefaultPw = ""
  FileBootPw = "documented"
  BootObs = "coarse"
  Allowed <- AllCalls
  ReopenModes <- AllModes
  Depth = 20
  Mode = "random"
  FinalList = TRUE
INVARIANTS Emit
CHECK_DEADLOCK FALSE

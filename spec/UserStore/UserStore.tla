----------------------------- MODULE UserStore -----------------------------
(* C31 - the file-backed and the database-backed user store of tucats/ego    *)
(* (internal/server/auth: users_file.go, users_sqldb.go, permissions.go,     *)
(* users.go userIOService) give identical answers and persist.               *)
(*                                                                           *)
(* Three stores move in lock step, one action per service call:              *)
(*   abs  the abstract store: a map name -> record, faithful persistence     *)
(*   fs   fileService:     data map, dirty flag, JSON image on disk          *)
(*   ds   databaseService: credentials table, AuthCache in front of it       *)
(* and the property says the answers of fs and of ds are the answers of abs  *)
(* after every step (so they agree with one another) and across Reopen.      *)
(*                                                                           *)
(* The refinements are shaped like the code; the switches below select, for  *)
(* each place where the two services were found to differ, the behaviour     *)
(* "as it is in the tree" or the consistent one.  The conformance check      *)
(* replays behaviours of the abstract store (UserStore_Gen) into the two     *)
(* real services; the as-is switch settings are the negative controls.       *)
(*                                                                           *)
(* A record carries pnil: Go distinguishes a nil permission list from an     *)
(* empty one and setPermission (permissions.go) tests "== nil".  nil and     *)
(* empty are THE SAME ANSWER (Answer drops pnil) - what is compared is what  *)
(* later calls make of it.                                                   *)
EXTENDS Integers, Sequences, FiniteSets, TLC

CONSTANTS
  Names,        \* user names (strings)
  DefaultUser,  \* the default credential's user name (\in Names)
  Templates,    \* what WriteUser may store: set of <<cred, kind, perms>>, kind \in {"nil","list"}
  GrantPerms,   \* permission names setPermission is called with
  Policy,       \* permissions.go: install the default <<"logon">> when the list is "nilonly" | "empty"
  FileNilify,   \* users_file.go : JSON round trip turns an empty list into an absent one (omitempty)
  AbsBoot,      \* open creates the default user when the store is "empty" | when the default user is "missing"
  FileBoot,     \* users_file.go : "empty" (len(svc.data) == 0)
  DbBoot,       \* users_sqldb.go: "missing" (ReadUser(defaultUser) fails) as is | "empty"
  Mask,         \* defs.ElidedPassword
  FileMask,     \* users_file.go ListUsers(true)
  DbMask,       \* users_sqldb.go ListUsers(true)
  DefaultPw,    \* the default credential's password ("" = none given)
  FileBootPw,   \* "documented": "" => generated, else given ; "inverted": as is in users_file.go
  BootObs,      \* "coarse": a bootstrapped credential is observed as "boot" ; "fine": "given"/"generated"
  Allowed,      \* the calls that are made: subset of AllCalls (generator configurations narrow the alphabet)
  ReopenModes   \* set of <<flushFirst, restart>>

VARIABLES abs, fs, ds, last

vars == <<abs, fs, ds, last>>

BootPerms == <<"ego.root", "ego.logon">>
NoUser == [on |-> FALSE, cred |-> "", perms |-> <<>>, pnil |-> TRUE]
Rec(c, kind, l) == [on |-> TRUE, cred |-> c, perms |-> l, pnil |-> (kind = "nil")]
None == [n \in Names |-> NoUser]

Documented == IF DefaultPw = "" THEN "generated" ELSE "given"
Inverted   == IF DefaultPw = "" THEN "given" ELSE "generated"
BootCred(who) == IF BootObs = "coarse" THEN "boot"
                 ELSE IF who = "file" /\ FileBootPw = "inverted" THEN Inverted ELSE Documented
BootRec(who) == [on |-> TRUE, cred |-> BootCred(who), perms |-> BootPerms, pnil |-> FALSE]

Empty(m)   == \A n \in Names : ~m[n].on
NeedBoot(rule, m) == IF rule = "empty" THEN Empty(m) ELSE ~m[DefaultUser].on
Boot(who, m) == [m EXCEPT ![DefaultUser] = BootRec(who)]

(* what a caller can see of a record: nil and empty lists are one observation *)
Answer(r) == IF r.on THEN [on |-> TRUE, cred |-> r.cred, perms |-> r.perms]
                     ELSE [on |-> FALSE, cred |-> "", perms |-> <<>>]
AnswerMap(m) == [n \in Names |-> Answer(m[n])]
ReadReply(r) == Answer(r)                        \* on = FALSE stands for ErrNoSuchUser
PermsReply(r) == IF r.on THEN r.perms ELSE <<>>  \* GetPermissions: nil for an unknown user
(* ListUsers(false) and ListUsers(true) together: the records, and the set of texts shown in place of passwords *)
Shown(m, mask) == [users |-> AnswerMap(m), masks |-> IF Empty(m) THEN {} ELSE {mask}]

-----------------------------------------------------------------------------
(* permissions.go setPermission, on the record ReadUser returned *)
Defaulted(r) == IF (Policy = "nilonly" /\ r.pnil) \/ (Policy = "empty" /\ Len(r.perms) = 0)
                  THEN <<"logon">> ELSE r.perms
Has(l, p)    == \E i \in 1..Len(l) : l[i] = p
Without(l, p) == SelectSeq(l, LAMBDA x : x # p)
Changed(r, p, on) == LET l == Defaulted(r)
                     IN  [r EXCEPT !.pnil = FALSE,
                                   !.perms = IF on THEN (IF Has(l, p) THEN l ELSE Append(l, p))
                                                   ELSE Without(l, p)]

-----------------------------------------------------------------------------
(* fileService (users_file.go) *)
FRead(f, n)   == f.data[n]
FWrite(f, n, r) == [f EXCEPT !.data[n] = r, !.dirty = TRUE]
FDelete(f, n) == IF f.data[n].on THEN [f EXCEPT !.data[n] = NoUser, !.dirty = TRUE] ELSE f
FFlush(f)     == IF f.dirty THEN [f EXCEPT !.disk = f.data, !.dirty = FALSE] ELSE f
Reload(m)     == [n \in Names |-> IF m[n].on /\ FileNilify THEN [m[n] EXCEPT !.pnil = (Len(m[n].perms) = 0)] ELSE m[n]]
FOpen(disk)   == LET m == Reload(disk)
                 IN  IF NeedBoot(FileBoot, m) THEN [data |-> Boot("file", m), dirty |-> TRUE, disk |-> disk]
                                              ELSE [data |-> m, dirty |-> FALSE, disk |-> disk]
FReopen(f)    == FOpen(FFlush(f).disk)          \* Close() is Flush()

(* databaseService (users_sqldb.go): every read goes through the AuthCache *)
DRead(d, n)   == IF d.cache[n].on THEN <<d.cache[n], d>>
                 ELSE IF d.table[n].on THEN <<d.table[n], [d EXCEPT !.cache[n] = d.table[n]]>>
                 ELSE <<NoUser, d>>
DWrite(d, n, r) == [table |-> [d.table EXCEPT ![n] = r], cache |-> [d.cache EXCEPT ![n] = r]]
DDelete(d, n) == [table |-> [d.table EXCEPT ![n] = NoUser], cache |-> [d.cache EXCEPT ![n] = NoUser]]
DOpen(table, cache) ==
  IF DbBoot = "empty"
    THEN IF Empty(table) THEN [table |-> Boot("db", table), cache |-> cache] ELSE [table |-> table, cache |-> cache]
    ELSE LET rd == DRead([table |-> table, cache |-> cache], DefaultUser)     \* ReadUser(0, defaultUser, true)
         IN  IF rd[1].on THEN rd[2] ELSE [table |-> Boot("db", table), cache |-> cache]
DReopen(d, restart) == DOpen(d.table, IF restart THEN None ELSE d.cache)

-----------------------------------------------------------------------------
Init == /\ abs = Boot("abs", None)
        /\ fs = FOpen(None)
        /\ ds = DOpen(None, None)
        /\ last = [call |-> [act |-> "Init", n |-> "", cred |-> "", kind |-> "", perms |-> <<>>, p |-> "",
                             on |-> FALSE, ctx |-> ""],
                   ra |-> "ok", rf |-> "ok", rd |-> "ok"]

Call(a, n, c, k, l, p, on, ctx) == [act |-> a, n |-> n, cred |-> c, kind |-> k, perms |-> l, p |-> p, on |-> on, ctx |-> ctx]
Obs(call, ra, rf, rd) == last' = [call |-> call, ra |-> ra, rf |-> rf, rd |-> rd]

(* users_sqldb.go WriteUser: caches.Delete ; ReadUser (may re-cache the old row) ; Update|Insert ; caches.Add *)
DbWrite(d, n, r) == LET d1 == [d EXCEPT !.cache[n] = NoUser]
                        d2 == DRead(d1, n)[2]
                    IN  DWrite(d2, n, r)

WriteUser(n, t) ==
  LET r == Rec(t[1], t[2], t[3]) IN
  /\ abs' = [abs EXCEPT ![n] = r]
  /\ fs'  = FWrite(fs, n, r)
  /\ ds'  = DbWrite(ds, n, r)
  /\ Obs(Call("Write", n, t[1], t[2], t[3], "", FALSE, IF abs[n].on THEN "update" ELSE "create"), "ok", "ok", "ok")

DeleteUser(n) ==
  /\ abs' = [abs EXCEPT ![n] = NoUser]
  /\ fs'  = FDelete(fs, n)
  /\ ds'  = DDelete(ds, n)
  /\ Obs(Call("Delete", n, "", "", <<>>, "", FALSE, IF abs[n].on THEN "present" ELSE "absent"), "ok", "ok", "ok")

ReadUser(n) ==
  /\ UNCHANGED <<abs, fs>>
  /\ ds' = DRead(ds, n)[2]
  /\ Obs(Call("Read", n, "", "", <<>>, "", FALSE, IF abs[n].on THEN "present" ELSE "absent"),
         ReadReply(abs[n]), ReadReply(FRead(fs, n)), ReadReply(DRead(ds, n)[1]))

GetPermissions(n) ==
  /\ UNCHANGED <<abs, fs>>
  /\ ds' = DRead(ds, n)[2]
  /\ Obs(Call("GetPerms", n, "", "", <<>>, "", FALSE, IF abs[n].on THEN "present" ELSE "absent"),
         PermsReply(abs[n]), PermsReply(FRead(fs, n)), PermsReply(DRead(ds, n)[1]))

ListUsers ==
  /\ UNCHANGED <<abs, fs, ds>>
  /\ Obs(Call("List", "", "", "", <<>>, "", FALSE, ""), Shown(abs, Mask), Shown(fs.data, FileMask), Shown(ds.table, DbMask))

(* permissions.go setPermission: ReadUser ; edit ; WriteUser ; Flush *)
PermCtx(r, on) == IF ~r.on THEN "absent"
                  ELSE (IF Len(r.perms) = 0 THEN "empty/" ELSE "nonempty/") \o (IF on THEN "grant" ELSE "revoke")
SetPermission(n, p, on) ==
  LET rd == DRead(ds, n) IN
  /\ abs' = IF abs[n].on THEN [abs EXCEPT ![n] = Changed(abs[n], p, on)] ELSE abs
  /\ fs'  = IF FRead(fs, n).on THEN FFlush(FWrite(fs, n, Changed(FRead(fs, n), p, on))) ELSE fs
  /\ ds'  = IF rd[1].on THEN DbWrite(rd[2], n, Changed(rd[1], p, on)) ELSE rd[2]
  /\ Obs(Call("SetPerm", n, "", "", <<>>, p, on, PermCtx(abs[n], on)),
         IF abs[n].on THEN "ok" ELSE "nosuchuser",
         IF FRead(fs, n).on THEN "ok" ELSE "nosuchuser",
         IF rd[1].on THEN "ok" ELSE "nosuchuser")

Flush ==
  /\ UNCHANGED <<abs, ds>>
  /\ fs' = FFlush(fs)
  /\ Obs(Call("Flush", "", "", "", <<>>, "", FALSE, ""), "ok", "ok", "ok")

(* Flush (optional) ; Close ; open again.  restart: a new process (the AuthCache is gone) *)
ReopenCtx == IF Empty(abs) THEN "empty-store" ELSE IF abs[DefaultUser].on THEN "default-present" ELSE "default-missing"
Reopen(flushFirst, restart) ==
  /\ abs' = IF NeedBoot(AbsBoot, abs) THEN Boot("abs", abs) ELSE abs
  /\ fs'  = FReopen(fs)
  /\ ds'  = DReopen(ds, restart)
  /\ Obs(Call("Reopen", "", "", IF restart THEN "restart" ELSE "same-process", <<>>, "", flushFirst, ReopenCtx), "ok", "ok", "ok")

AllCalls == {"Write", "Delete", "SetPerm", "Read", "GetPerms", "List", "Flush", "Reopen"}
ExhaustiveCalls == AllCalls \ {"GetPerms"}      \* GetPermissions is ReadUser(..).Permissions; the end-of-behaviour sweep calls it
BootCalls == {"Delete", "Reopen"}
NoTemplates == {}
AllModes == BOOLEAN \X BOOLEAN
RestartOnly == {<<FALSE, TRUE>>}
BothProcesses == {<<FALSE, TRUE>>, <<FALSE, FALSE>>}

Mutate == \/ "Write" \in Allowed /\ \E n \in Names, t \in Templates : WriteUser(n, t)
          \/ "Delete" \in Allowed /\ \E n \in Names : DeleteUser(n)
          \/ "SetPerm" \in Allowed /\ \E n \in Names, p \in GrantPerms, on \in BOOLEAN : SetPermission(n, p, on)
Lookup == \/ "Read" \in Allowed /\ \E n \in Names : ReadUser(n)
          \/ "GetPerms" \in Allowed /\ \E n \in Names : GetPermissions(n)
          \/ "List" \in Allowed /\ ListUsers
Persist == \/ "Flush" \in Allowed /\ Flush
           \/ "Reopen" \in Allowed /\ \E m \in ReopenModes : Reopen(m[1], m[2])

Next == Mutate \/ Lookup \/ Persist
Spec == Init /\ [][Next]_vars

-----------------------------------------------------------------------------
(* C31 *)
TypeOK == /\ \A n \in Names : abs[n].on \in BOOLEAN /\ fs.data[n].on \in BOOLEAN /\ ds.table[n].on \in BOOLEAN
          /\ fs.dirty \in BOOLEAN

(* the reply of the call just made is the same from the three stores *)
AgreeReply == last.rf = last.ra /\ last.rd = last.ra

(* whatever is asked next, the three stores answer alike *)
AgreeRead == \A n \in Names : /\ ReadReply(FRead(fs, n)) = ReadReply(abs[n])
                              /\ ReadReply(DRead(ds, n)[1]) = ReadReply(abs[n])
AgreeList == /\ AnswerMap(fs.data) = AnswerMap(abs) /\ AnswerMap(ds.table) = AnswerMap(abs)
             /\ FileMask = Mask /\ DbMask = Mask
(* (the bootstrapped credential is part of the records: FileBootPw = "inverted" breaks AgreeRead in the initial state) *)

(* the cache never answers differently from the table (what makes restart = same-process) *)
CacheCoherent == \A n \in Names : ds.cache[n].on => ds.cache[n] = ds.table[n]

(* what is on disk is what a reopen will answer with: nothing unflushed survives only in memory after Flush *)
FlushedIsDurable == ~fs.dirty => AnswerMap(Reload(fs.disk)) = AnswerMap(fs.data)

(* closing and reopening NOW would change no answer (except the designed bootstrap of an empty store): *)
(* a state predicate, so it is evaluated in every reachable state whatever call led there           *)
ReopenKeeps == \A restart \in BOOLEAN :
                 /\ AnswerMap(FReopen(fs).data) = AnswerMap(IF NeedBoot(AbsBoot, abs) THEN Boot("abs", abs) ELSE abs)
                 /\ AnswerMap(DReopen(ds, restart).table) = AnswerMap(IF NeedBoot(AbsBoot, abs) THEN Boot("abs", abs) ELSE abs)
                 /\ (~NeedBoot(AbsBoot, abs) => /\ AnswerMap(FReopen(fs).data) = AnswerMap(fs.data)
                                                /\ AnswerMap(DReopen(ds, restart).table) = AnswerMap(ds.table))

(* hidden state agrees too: a later setPermission cannot tell the stores apart *)
SameFuture == \A n \in Names, p \in GrantPerms, on \in BOOLEAN :
                abs[n].on => /\ Answer(Changed(FRead(fs, n), p, on)) = Answer(Changed(abs[n], p, on))
                             /\ Answer(Changed(DRead(ds, n)[1], p, on)) = Answer(Changed(abs[n], p, on))

(* template sets for the configuration files (a .cfg cannot spell nested tuples) *)
TemplatesSmall == {<<"c1", "nil", <<>>>>, <<"c1", "list", <<>>>>, <<"c2", "list", <<"px">>>>}
TemplatesFull  == {<<"c1", "nil", <<>>>>, <<"c1", "list", <<>>>>, <<"c2", "list", <<"px">>>>,
                   <<"c2", "list", <<"logon", "px">>>>, <<"c3", "list", <<"py", "logon">>>>}

(* the replies in "last" are functions of the state before the call and the call; AgreeRead/AgreeList/  *)
(* SameFuture in that state already cover them, so the observation variable stays out of the view.     *)
View == <<abs, fs, ds>>
=============================================================================

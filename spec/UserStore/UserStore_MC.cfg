SPECIFICATION Spec
CONSTANTS
  Names = {"admin", "bob", "Bob"}
  DefaultUser = "admin"
  Templates <- TemplatesSmall
  GrantPerms = {"px"}
  Policy = "empty"
  FileNilify = TRUE
  AbsBoot = "empty"
  FileBoot = "empty"
  DbBoot = "empty"
  Mask = "********"
  FileMask = "********"
  DbMask = "********"
  DefaultPw = ""
  FileBootPw = "documented"
  BootObs = "fine"
  Allowed <- AllCalls
  ReopenModes <- BothProcesses
INVARIANTS TypeOK AgreeReply AgreeRead AgreeList CacheCoherent FlushedIsDurable SameFuture ReopenKeeps
VIEW View
CHECK_DEADLOCK FALSE

SPECIFICATION GenSpec
CONSTANTS
  Names = {"admin"}
  DefaultUser = "admin"
  Templates <- NoTemplates
  GrantPerms = {}
  Policy = "empty"
  FileNilify = TRUE
  AbsBoot = "empty"
  FileBoot = "empty"
  DbBoot = "empty"
  Mask = "********"
  FileMask = "********"
  DbMask = "********"
  DefaultPw = ""
  FileBootPw = "documented"
  BootObs = "fine"
  Allowed <- BootCalls
  ReopenModes <- RestartOnly
  Depth = 1
  Mode = "all"
  FinalList = FALSE
INVARIANTS Emit
CHECK_DEADLOCK FALSE

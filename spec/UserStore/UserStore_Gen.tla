--------------------------- MODULE UserStore_Gen ---------------------------
(* Behaviour generator for binding R of C31: the abstract store plus a       *)
(* history variable printed as JSON.  Each element is the call, the reply    *)
(* the abstract store gives and the contents every store must then show.     *)
(* The first element is the Init "call" (both services started on paths that *)
(* do not exist yet).  With the consistent switch settings the three stores  *)
(* of UserStore agree, so the abstract values are THE expected values for    *)
(* both real services.                                                       *)
EXTENDS UserStore, Json

CONSTANTS Depth,
          FinalList,  \* TRUE: the last step is a List (so a simulated trace prints exactly one behaviour)
          Mode        \* "all": every enabled call is a successor (BFS) ; "random": one call drawn per step (simulation)
VARIABLE h

Proj == Shown(abs, Mask)

(* Random walk: TLC's simulator otherwise builds every successor (about 50) before picking one.  The bag   *)
(* weights the kinds of call; \E over a singleton binds each drawn value once.                             *)
KindBag == <<"Write", "Write", "Write", "Write", "Delete", "Delete", "SetPerm", "SetPerm", "SetPerm", "SetPerm",
             "Read", "Read", "GetPerms", "List", "Flush", "Reopen", "Reopen", "Reopen">>
RandomCall ==
  \E k \in {RandomElement(1..Len(KindBag))} :
    \/ KindBag[k] = "Write"    /\ \E n \in {RandomElement(Names)}, t \in {RandomElement(Templates)} : WriteUser(n, t)
    \/ KindBag[k] = "Delete"   /\ \E n \in {RandomElement(Names)} : DeleteUser(n)
    \/ KindBag[k] = "SetPerm"  /\ \E n \in {RandomElement(Names)}, p \in {RandomElement(GrantPerms)}, on \in {RandomElement(BOOLEAN)} :
                                     SetPermission(n, p, on)
    \/ KindBag[k] = "Read"     /\ \E n \in {RandomElement(Names)} : ReadUser(n)
    \/ KindBag[k] = "GetPerms" /\ \E n \in {RandomElement(Names)} : GetPermissions(n)
    \/ KindBag[k] = "List"     /\ ListUsers
    \/ KindBag[k] = "Flush"    /\ Flush
    \/ KindBag[k] = "Reopen"   /\ \E m \in {RandomElement(ReopenModes)} : Reopen(m[1], m[2])

GenInit == Init /\ h = <<[call |-> last.call, reply |-> last.ra, st |-> Proj]>>
GenNext == /\ Len(h) < Depth
           /\ IF FinalList /\ Len(h) = Depth - 1 THEN ListUsers
              ELSE IF Mode = "random" THEN RandomCall ELSE Next
           /\ h' = Append(h, [call |-> last'.call, reply |-> last'.ra, st |-> Proj'])
GenSpec == GenInit /\ [][GenNext]_<<vars, h>>

Emit == Len(h) < Depth \/ PrintT(ToJson(h))
=============================================================================

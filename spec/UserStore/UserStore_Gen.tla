--------------------------- MODULE UserStore_Gen ---------------------------
(* Behaviour generator for binding R of C31: the abstract store plus a       *)
(* history variable printed as JSON.  Each element is the call, the reply    *)
(* the abstract store gives and the contents every store must then show.     *)
(* The first element is the Init "call" (both services started on paths that *)
(* do not exist yet).  With the consistent switch settings the three stores  *)
(* of UserStore agree, so the abstract values are THE expected values for    *)
(* both real services.                                                       *)
EXTENDS UserStore, Json

CONSTANTS Depth,
          FinalList   \* TRUE: the last step is a List (so a simulated trace prints exactly one behaviour)
VARIABLE h

Proj == Shown(abs, Mask)

GenInit == Init /\ h = <<[call |-> last.call, reply |-> last.ra, st |-> Proj]>>
GenNext == /\ Len(h) < Depth
           /\ IF FinalList /\ Len(h) = Depth - 1 THEN ListUsers ELSE Next
           /\ h' = Append(h, [call |-> last'.call, reply |-> last'.ra, st |-> Proj'])
GenSpec == GenInit /\ [][GenNext]_<<vars, h>>

Emit == Len(h) < Depth \/ PrintT(ToJson(h))
=============================================================================

---------------------------- MODULE ClusterFlush ----------------------------
(* Cluster cache invalidation of tucats/ego (internal/server/cluster,        *)
(* internal/caches purge.go), shaped like the code:                           *)
(*  OriginPurge(n)  caches.Purge on node n: the local cache is discarded and  *)
(*                  OnPurge starts ONE broadcaster goroutine (go OnPurge(id)) *)
(*                  holding the list of the other active members              *)
(*  Send(t)         BroadcastCacheFlush sends to the next peer of its list    *)
(*                  with hop count 1 and WAITS for the answer (sequential)    *)
(*  Deliver(m)      FlushCacheHandler on the receiver: hops > MaxHops =>      *)
(*                  ignored, else caches.PurgeLocal -- which never broadcasts *)
(*  Lose(m)         the request fails (peer unreachable / timeout): logged,   *)
(*                  the broadcaster moves on                                  *)
(*  Fill(n)         ordinary traffic re-populates the cache on node n         *)
(* Impl = "relay" is the pre-CLUSTER-1 receiver (calls Purge, i.e. broadcasts *)
(* again, forwarding hops+1): the negative control the invariants must catch. *)
EXTENDS Integers, FiniteSets, Sequences, TLC

CONSTANTS Node, Active,
          Class,             \* cache classes (each purge and each flush message names one)      \* Active \subseteq Node: members listed "active"
          MaxHops,           \* 4 in the code
          MaxPurges,         \* bound on origin purges (model checking only)
          MaxLoss,           \* bound on lost messages
          MaxFill,
          Impl               \* "local" (as written) | "relay" (negative control)

VARIABLES present,   \* [Node -> [Class -> BOOLEAN]]   that cache holds something on that node
          tasks,     \* broadcaster goroutines: [id, from, c, todo (set of peers not yet contacted), hops, root]
          inflight,  \* messages awaiting the peer's answer: [task, from, to, c, hops, root]
          sent,      \* history: [root purge -> number of flush messages sent on its behalf]
          discards,  \* history: [root -> set of nodes that discarded because of it]
          orig,      \* history: [root -> node where the purge originated | ""]
          relays,    \* history: sends made on behalf of a flush that was RECEIVED
          npurge, nloss, nfill, ntask,
          last

vars == <<present, tasks, inflight, sent, discards, orig, relays, npurge, nloss, nfill, ntask, last>>

PeerList(n) == Active \ {n}     \* the other members listed active (contacted in the listing's order: any order)

Obs(a, n, to, c, h, r, p) == last' = [act |-> a, n |-> n, to |-> to, c |-> c, hops |-> h, root |-> r, purged |-> p]

Init == /\ present = [n \in Node |-> [c \in Class |-> FALSE]]
        /\ tasks = {} /\ inflight = {}
        /\ sent = [p \in 1..MaxPurges |-> 0]
        /\ discards = [p \in 1..MaxPurges |-> {}]
        /\ orig = [p \in 1..MaxPurges |-> ""]
        /\ relays = 0 /\ npurge = 0 /\ nloss = 0 /\ nfill = 0 /\ ntask = 0
        /\ last = [act |-> "Init", n |-> "", to |-> "", c |-> "", hops |-> 0, root |-> 0, purged |-> FALSE]

Fill(n, c) == /\ nfill < MaxFill /\ ~present[n][c]
           /\ present' = [present EXCEPT ![n][c] = TRUE]
           /\ nfill' = nfill + 1
           /\ Obs("Fill", n, "", c, 0, 0, FALSE)
           /\ UNCHANGED <<tasks, inflight, sent, discards, orig, relays, npurge, nloss, ntask>>

(* caches.Purge(id) on node n *)
OriginPurge(n, c) ==
  /\ npurge < MaxPurges
  /\ present' = [present EXCEPT ![n][c] = FALSE]
  /\ npurge' = npurge + 1 /\ ntask' = ntask + 1
  /\ tasks' = tasks \cup {[id |-> ntask + 1, from |-> n, c |-> c, todo |-> PeerList(n), hops |-> 1, root |-> npurge + 1]}
  /\ discards' = [discards EXCEPT ![npurge + 1] = @ \cup {n}]
  /\ orig' = [orig EXCEPT ![npurge + 1] = n]
  /\ Obs("OriginPurge", n, "", c, 0, npurge + 1, TRUE)
  /\ UNCHANGED <<inflight, sent, relays, nloss, nfill>>

(* the broadcaster sends to its next peer and waits (one request in flight per broadcaster) *)
SendTo(t, to) ==
  /\ t \in tasks /\ to \in t.todo
  /\ ~\E m \in inflight : m.task = t.id
  /\ inflight' = inflight \cup {[task |-> t.id, from |-> t.from, to |-> to, c |-> t.c, hops |-> t.hops, root |-> t.root]}
  /\ tasks' = (tasks \ {t}) \cup {[t EXCEPT !.todo = @ \ {to}]}
  /\ sent' = [sent EXCEPT ![t.root] = @ + 1]
  /\ relays' = IF t.hops > 1 THEN relays + 1 ELSE relays
  /\ Obs("Send", t.from, to, t.c, t.hops, t.root, FALSE)
  /\ UNCHANGED <<present, discards, orig, npurge, nloss, nfill, ntask>>

Send(t) == \E to \in t.todo : SendTo(t, to)

Finish(t) == /\ t \in tasks /\ t.todo = {} /\ ~\E m \in inflight : m.task = t.id
             /\ tasks' = tasks \ {t}
             /\ Obs("Finish", t.from, "", t.c, 0, t.root, FALSE)
             /\ UNCHANGED <<present, inflight, sent, discards, orig, relays, npurge, nloss, nfill, ntask>>

(* FlushCacheHandler on m.to *)
Deliver(m) ==
  /\ m \in inflight
  /\ inflight' = inflight \ {m}
  /\ IF m.hops > MaxHops
       THEN /\ UNCHANGED <<present, discards, tasks, ntask>>
            /\ Obs("Deliver", m.to, m.from, m.c, m.hops, m.root, FALSE)
       ELSE /\ present' = [present EXCEPT ![m.to][m.c] = FALSE]
            /\ discards' = [discards EXCEPT ![m.root] = @ \cup {m.to}]
            /\ Obs("Deliver", m.to, m.from, m.c, m.hops, m.root, TRUE)
            /\ IF Impl = "relay"     \* pre-fix receiver: Purge => OnPurge => broadcast again
                 THEN /\ ntask' = ntask + 1
                      /\ tasks' = tasks \cup {[id |-> ntask + 1, from |-> m.to, c |-> m.c, todo |-> PeerList(m.to),
                                               hops |-> m.hops + 1, root |-> m.root]}
                 ELSE UNCHANGED <<tasks, ntask>>
  /\ UNCHANGED <<sent, orig, relays, npurge, nloss, nfill>>

Lose(m) == /\ m \in inflight /\ nloss < MaxLoss
           /\ inflight' = inflight \ {m}
           /\ nloss' = nloss + 1
           /\ Obs("Lose", m.to, m.from, m.c, m.hops, m.root, FALSE)
           /\ UNCHANGED <<present, tasks, sent, discards, orig, relays, npurge, nfill, ntask>>

(* a flush request that did not come from a broadcaster of this model: an older build, a hand-written
   request, or a relayed one -- carries any hop count; the receiver applies the same rule and never sends *)
Foreign(n, c, h) ==
  /\ nfill < MaxFill            \* (bounded like Fill for model checking)
  /\ nfill' = nfill + 1
  /\ IF h > MaxHops
       THEN /\ UNCHANGED present /\ Obs("Foreign", n, "", c, h, 0, FALSE)
       ELSE /\ present' = [present EXCEPT ![n][c] = FALSE] /\ Obs("Foreign", n, "", c, h, 0, TRUE)
  /\ UNCHANGED <<tasks, inflight, sent, discards, orig, relays, npurge, nloss, ntask>>

Next == \/ \E n \in Node, c \in Class : Fill(n, c) \/ OriginPurge(n, c)
        \/ \E n \in Node, c \in Class, h \in 0..(MaxHops + 2) : Foreign(n, c, h)
        \/ \E t \in tasks : Send(t) \/ Finish(t)
        \/ \E m \in inflight : Deliver(m) \/ Lose(m)

Spec == Init /\ [][Next]_vars
LiveSpec == Spec /\ WF_vars(\E t \in tasks : Send(t) \/ Finish(t)) /\ WF_vars(\E m \in inflight : Deliver(m))

-----------------------------------------------------------------------------
(* C29 *)
(* total number of flush messages per purge is bounded by the number of peers *)
MessageBound == \A p \in 1..MaxPurges : sent[p] <= Cardinality(Active \ {orig[p]})
(* a node never re-broadcasts a flush it received *)
NeverRelays == relays = 0 /\ \A t \in tasks : t.hops = 1
OnlyHopOne  == \A m \in inflight : m.hops = 1

(* completeness: once a purge's broadcast is over and nothing was lost, every active peer
   has discarded the cache at least once on its behalf *)
Done(p) == p <= npurge /\ (~\E t \in tasks : t.root = p) /\ (~\E m \in inflight : m.root = p)
Complete == \A p \in 1..MaxPurges : (Done(p) /\ nloss = 0) => Active \subseteq discards[p]
EventuallyDone == \A p \in 1..MaxPurges : (p <= npurge) ~> Done(p)

View == <<present, tasks, inflight, sent, discards, orig, relays, npurge, nloss, nfill, ntask>>
=============================================================================

------------------------- MODULE ClusterFlush_Trace -------------------------
(* Binding T: events observed by the driver's proxies on a REAL multi-process  *)
(* cluster, validated against the actions of ClusterFlush.  The purge a        *)
(* message belongs to is not logged: TLC infers it (any broadcaster of the     *)
(* sender with that peer still to contact).  Finish is silent.                 *)
EXTENDS ClusterFlush, Json

VARIABLES l, run
TraceLog == ndJsonDeserialize("trace.ndjson")
N == Len(TraceLog)
Ev == TraceLog[l]
Is(e) == l <= N /\ Ev.run = run /\ Ev.ev = e
Step == l' = l + 1 /\ run' = run

(* the observed cache state, where the class is observable ("unk" = this class has no counter in the status reply) *)
Seen(b) == Ev.obs = "unk" \/ (Ev.obs = "yes") = b

TInit == TLCSet(42, 0) /\ Init /\ l = 1 /\ run = IF N > 0 THEN TraceLog[1].run ELSE 0

TFill    == Is("Fill") /\ Fill(Ev.n, Ev.c) /\ Step
TPurge   == Is("OriginPurge") /\ OriginPurge(Ev.n, Ev.c) /\ Step
TSend    == Is("Send") /\ Step /\ \E t \in tasks : t.from = Ev.n /\ t.c = Ev.c /\ t.hops = Ev.hops /\ SendTo(t, Ev.to)
TDeliver == Is("Deliver") /\ Step
            /\ \E m \in inflight : m.to = Ev.n /\ m.from = Ev.to /\ m.c = Ev.c /\ m.hops = Ev.hops /\ Deliver(m)
            /\ Seen(present'[Ev.n][Ev.c]) /\ Ev.status = 200
TLose    == Is("Lose") /\ Step /\ \E m \in inflight : m.to = Ev.n /\ m.from = Ev.to /\ m.c = Ev.c /\ m.hops = Ev.hops /\ Lose(m)
TForeign == Is("Foreign") /\ Step /\ Foreign(Ev.n, Ev.c, Ev.hops) /\ Seen(present'[Ev.n][Ev.c])
(* quiescent observation point: every broadcast is over, and the node's cache state is the spec's *)
TCheck   == Is("Check") /\ Step /\ UNCHANGED vars
            /\ \A p \in 1..npurge : Done(p)
            /\ Seen(present[Ev.n][Ev.c])
TSilent  == \E t \in tasks : Finish(t) /\ UNCHANGED <<l, run>>
TReset   == /\ l <= N /\ Ev.ev = "Reset" /\ Ev.run # run
            /\ present' = [n \in Node |-> [c \in Class |-> FALSE]] /\ tasks' = {} /\ inflight' = {}
            /\ sent' = [p \in 1..MaxPurges |-> 0] /\ discards' = [p \in 1..MaxPurges |-> {}]
            /\ orig' = [p \in 1..MaxPurges |-> ""]
            /\ relays' = 0 /\ npurge' = 0 /\ nloss' = 0 /\ nfill' = 0 /\ ntask' = 0
            /\ last' = [act |-> "Init", n |-> "", to |-> "", c |-> "", hops |-> 0, root |-> 0, purged |-> FALSE]
            /\ run' = Ev.run /\ l' = l + 1

TNext == TFill \/ TPurge \/ TSend \/ TDeliver \/ TLose \/ TForeign \/ TCheck \/ TSilent \/ TReset
TSpec == TInit /\ [][TNext]_<<vars, l, run>>

Reached == TLCSet(42, IF TLCGet(42) < l THEN l ELSE TLCGet(42))
Accepted == /\ PrintT(<<"HIGHWATER", TLCGet(42), N + 1>>)
            /\ TLCGet(42) = N + 1
=============================================================================

SPECIFICATION LiveSpec
CONSTANTS
  Node = {"n1", "n2", "n3"}
  Active = {"n1", "n2", "n3"}
  Class = {"dsn"}
  MaxHops = 4
  MaxPurges = 2
  MaxLoss = 0
  MaxFill = 1
  Impl = "local"
INVARIANTS MessageBound NeverRelays Complete
PROPERTIES EventuallyDone
CHECK_DEADLOCK FALSE

SPECIFICATION TSpec
CONSTANTS
  Node = {"n1", "n2", "n3", "n4", "n5"}
  Active = {"n1", "n2", "n3", "n4", "n5"}
  Class = {"dsn"}
  MaxHops = 4
  MaxPurges = 64
  MaxLoss = 1000
  MaxFill = 100000
  Impl = "local"
INVARIANTS MessageBound NeverRelays OnlyHopOne Complete
CONSTRAINT Reached
POSTCONDITION Accepted
CHECK_DEADLOCK FALSE

SPECIFICATION Spec
CONSTANTS
  Node = {"n1", "n2", "n3"}
  Active = {"n1", "n2", "n3"}
  Class = {"dsn"}
  MaxHops = 4
  MaxPurges = 2
  MaxLoss = 1
  MaxFill = 3
  Impl = "relay"
INVARIANTS MessageBound NeverRelays OnlyHopOne Complete
VIEW View
CHECK_DEADLOCK FALSE

SPECIFICATION Spec
CONSTANTS
  PathVars = 2
  QueryParams = 8
  BodyLeaves = 12
  Impl = "total"
  PanicAt = {}
  RecoverySettings = {TRUE, FALSE}
  NReq = 2
INVARIANTS TypeOK Contract ObsSound StatusDetects LocksFree
CHECK_DEADLOCK TRUE

SPECIFICATION Spec
CONSTANTS
  PathVars = 2
  QueryParams = 8
  BodyLeaves = 12
  Impl = "partial"
  PanicAt = {"find", "session", "auth", "media", "perms", "params", "body", "validate", "handler", "log"}
  RecoverySettings = {TRUE, FALSE}
  NReq = 2
INVARIANTS TypeOK ObsSound LocksFree
CHECK_DEADLOCK TRUE

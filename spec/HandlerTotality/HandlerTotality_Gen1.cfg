SPECIFICATION GenSpec
CONSTANTS
  PathVars = 2
  QueryParams = 8
  BodyLeaves = 8
  Radius = 1
INVARIANTS Emit
CHECK_DEADLOCK FALSE

------------------------- MODULE HandlerTotality_Gen -------------------------
(* Case generator for binding F: every abstract request of the domain within  *)
(* Radius deviations of the base request is one initial state, printed as     *)
(* JSON.  The driver instantiates each case for every route of the real route *)
(* table, sends it to the real server and logs the observation next to it.    *)
EXTENDS HandlerRequests, Json

CONSTANT Radius
VARIABLE cur

GenInit == cur \in Ball(Radius)
GenNext == UNCHANGED cur
GenSpec == GenInit /\ [][GenNext]_cur
Emit == PrintT(ToJson(cur))
=============================================================================

SPECIFICATION GenSpec
CONSTANTS
  PathVars = 2
  QueryParams = 8
  BodyLeaves = 12
  Radius = 2
INVARIANTS Emit
CHECK_DEADLOCK FALSE

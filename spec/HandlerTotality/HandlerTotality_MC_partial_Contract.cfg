SPECIFICATION Spec
CONSTANTS
  PathVars = 2
  QueryParams = 8
  BodyLeaves = 8
  Impl = "partial"
  PanicAt = {"handler"}
  RecoverySettings = {TRUE}
  NReq = 1
INVARIANTS Contract
CHECK_DEADLOCK TRUE

--------------------------- MODULE HandlerRequests ---------------------------
(* C40 - the request domain of the quantifier and the outcome contract.       *)
(* Constant-level definitions shared by the model of the request pipeline     *)
(* (HandlerTotality), the case generator (HandlerTotality_Gen) and the        *)
(* contract that judges every real (request, observation) pair                *)
(* (HandlerTotality_Trace).                                                   *)
(*                                                                            *)
(* An abstract request is a choice per dimension (a function Dim -> value).   *)
(* The statement quantifies over "any method, path, query, headers and body", *)
(* the quantifier names malformed paths, query parameters, headers (Range,    *)
(* Accept, Authorization, Content-Type) and bodies (invalid JSON, wrong       *)
(* types, huge values), as admin and non-admin.  Every dimension has a base   *)
(* value (the route's well-formed request by the administrator) and           *)
(* deviations.  A value "kind@i" deviates at the i-th path variable / declared*)
(* query parameter / leaf of the route's base body; the driver instantiates   *)
(* it for the route of the real table (and drops it when the route has no     *)
(* i-th such item).  The concrete bytes of every value are a fixed table of   *)
(* the driver (a projection, documented in notes/C40.md); nothing below       *)
(* depends on them.                                                           *)
EXTENDS Integers, Sequences, FiniteSets, TLC

CONSTANTS PathVars,    \* number of path-variable positions addressed        (2)
          QueryParams, \* number of declared-query-parameter positions       (8)
          BodyLeaves   \* number of base-body node positions                (12)

At(kinds, n) == {k \o "@" \o ToString(i) : k \in kinds, i \in 1..n}

Dims == {"method", "path", "query", "range", "accept", "auth", "ctype", "lang", "enc", "body"}

Base == [method |-> "route", path |-> "normal", query |-> "absent", range |-> "absent", accept |-> "json",
         auth |-> "admin", ctype |-> "auto", lang |-> "absent", enc |-> "absent", body |-> "base"]

PathKinds  == {"nosuch", "empty", "long", "nul", "unicode", "dotdot", "encslash", "quote", "space", "pct"}
QueryKinds == {"valid", "wrong", "empty", "dup", "huge", "flag", "e1", "e2", "e3", "e4"}
BodyKinds  == {"null", "wrong", "missing", "huge", "neg", "nest", "weird"}

Dom == [method |-> {"route", "other", "lower", "bogus", "options", "head"},
        path   |-> {"normal", "trailing", "slashflip", "dblslash", "case", "semicolon"} \cup At(PathKinds, PathVars),
        query  |-> {"absent", "all", "unknown", "malformed", "many", "semicolon"} \cup At(QueryKinds, QueryParams),
        range  |-> {"absent", "valid", "nodash", "reversed", "beyond", "suffix", "multi", "junk", "hugenum", "empty", "unit"},
        accept |-> {"json", "absent", "any", "vendor", "text", "html", "wrong", "malformed", "huge", "empty", "multi"},
        auth   |-> {"admin", "adminbasic", "power", "user", "userbasic", "anon", "badpw", "notoken", "garbage", "tampered",
                    "badb64", "nocolon", "emptybasic", "hugetoken", "scheme", "nonascii", "dupheader", "jwtlike"},
        ctype  |-> {"auto", "absent", "json", "text", "form", "multipart", "vendor", "malformed", "huge", "charset", "empty"},
        lang   |-> {"absent", "fr", "weighted", "malformed", "wild", "huge"},
        enc    |-> {"absent", "gzip", "zero", "malformed"},
        body   |-> {"base", "none", "emptyobj", "emptyarr", "null", "string", "number", "true", "truncated", "garbage",
                    "nonutf8", "dupkeys", "deep", "bigstr", "bignum", "wraparr", "wrapobj", "form"} \cup At(BodyKinds, BodyLeaves)]

ASSUME \A d \in Dims : Base[d] \in Dom[d]

Deviations(c) == {d \in Dims : c[d] # Base[d]}

\* a case of the domain: every dimension takes a value of its domain, at most `radius` of them away from the base
IsCase(c, radius) == /\ DOMAIN c = Dims
                     /\ \A d \in Dims : c[d] \in Dom[d]
                     /\ Cardinality(Deviations(c)) <= radius

Ball0 == {Base}
Ball1 == {[Base EXCEPT ![d] = v] : <<d, v>> \in UNION {{<<d, v>> : v \in Dom[d] \ {Base[d]}} : d \in Dims}}
Ball2 == UNION {{[c EXCEPT ![d] = v] : <<d, v>> \in UNION {{<<d, v>> : v \in Dom[d] \ {Base[d]}} : d \in Dims \ Deviations(c)}} : c \in Ball1}
Ball(radius) == IF radius = 0 THEN Ball0 ELSE IF radius = 1 THEN Ball0 \cup Ball1 ELSE Ball0 \cup Ball1 \cup Ball2

(* ------------------------------------------------------------------------ *)
(* The observation of one request against the real server:                    *)
(*   responded : the client read a complete HTTP response                     *)
(*   status    : its status code (0 when there was none)                      *)
(*   recovered : the router's last-resort recovery reported this request      *)
(*               (server.panic.recovered in the server log)                   *)
(*   escaped   : a panic left the request's goroutine some other way (the     *)
(*               net/http connection-level recovery or the Go runtime wrote   *)
(*               a panic report to the server's output)                       *)
(*   alive     : the server process was still running after the request       *)
(*   site      : where the panic was raised ("" when there was none)          *)
(* C40: the request is answered by the handler's own success or error         *)
(* response and the last-resort recovery does not fire.                       *)
Answered(o) == o.responded /\ o.status \in 100..599
NoCrash(o)  == ~o.recovered /\ ~o.escaped /\ o.alive
Holds(o)    == Answered(o) /\ NoCrash(o)

\* abstract identity of a failing observation: the route and the place that crashed - never the concrete request
Failure(o) == IF o.recovered \/ o.escaped THEN (IF o.site = "" THEN "panic" ELSE o.site)
              ELSE IF ~o.alive THEN "server-died"
              ELSE "no-response"
=============================================================================

--------------------------- MODULE HandlerTotality ---------------------------
(* C40 - no request can crash a handler.                                      *)
(*                                                                            *)
(* A model of the request pipeline shaped like internal/router/serve.go       *)
(* Router.ServeHTTP: one action per stage of the function, in the order of    *)
(* the code, with the deferred calls (recover closure, ServerShutdownLock     *)
(* release, RequestsActive decrement, route.Unlock) run by Unwind / Return in *)
(* last-in-first-out order.  Requests are served one after the other          *)
(* (NReq of them) over the state the code shares between requests (the        *)
(* shutdown mutex, the in-flight counter, the route lock), so that a lock     *)
(* stranded by a crashed request would stall the next one.                    *)
(*                                                                            *)
(* What a stage does with a particular request is not modelled: every stage   *)
(* chooses its outcome nondeterministically among the outcomes the code has   *)
(* (pass / answer with an error and return / answer with an error and go on / *)
(* for the handler: write a success or an error response).  Impl decides      *)
(* whether a stage can also panic:                                            *)
(*   "total"   no stage panics                 - what C40 demands of the code *)
(*   "partial" the stages in PanicAt may panic - the defect class the NILPTR  *)
(*             and INDEX audits name (negative control)                       *)
(*                                                                            *)
(* Properties                                                                 *)
(*   Contract   every finished request satisfies HandlerRequests!Holds        *)
(*              (answered, recovery did not fire, no panic escaped).          *)
(*   ObsSound   a finished request panicked  <=>  recovered \/ escaped : the   *)
(*              two things the binding observes (the server.panic.recovered   *)
(*              log entry; a panic report on the server's output together     *)
(*              with a connection closed without response) detect exactly     *)
(*              the panics, whatever ego.server.panic.recovery is.            *)
(*   StatusDetects (negative control) "a recovered panic always shows as the  *)
(*              recovery's 500" is FALSE - a handler that panics after it     *)
(*              began its response keeps its own status line; this is why     *)
(*              the binding reads the log and does not look for 500s.         *)
(*   LocksFree  no finished request leaves the shutdown mutex, the in-flight  *)
(*              counter or the route lock taken (also after a panic), and     *)
(*              the next request is never stalled (deadlock check).           *)
EXTENDS HandlerRequests

CONSTANTS Impl, PanicAt, RecoverySettings, NReq

Stages == <<"find", "session", "auth", "media", "perms", "params", "body", "validate", "handler", "log">>
StageSet == {Stages[k] : k \in DOMAIN Stages}
ASSUME Impl \in {"total", "partial"} /\ PanicAt \subseteq StageSet /\ RecoverySettings \subseteq BOOLEAN /\ NReq \in 1..3

VARIABLES n,           \* number of the request being served
          pc,          \* "idle" | a stage | "unwind" | "done"
          recovery,    \* ego.server.panic.recovery for this request
          mutex,       \* ServerShutdownLock: 0 free, else the request holding it
          held,        \* the local shutdownLockHeld
          active,      \* RequestsActive
          routeLock,   \* 1 while the route found by FindRoute is locked by this request
          status,      \* the local `status`: "ok" | "err"
          light,       \* route.lightweight
          written,     \* what was written to the ResponseWriter so far: "none" | "ok" | "err" | "r500"
          panicked,    \* history: some stage of this request panicked
          obs          \* observations of the finished requests (sequence)
vars == <<n, pc, recovery, mutex, held, active, routeLock, status, light, written, panicked, obs>>

NoObs == [responded |-> FALSE, status |-> 0, recovered |-> FALSE, escaped |-> FALSE, alive |-> TRUE, site |-> ""]
StatusOf(w) == CASE w = "ok" -> 200 [] w = "err" -> 400 [] w = "r500" -> 500 [] OTHER -> 200   \* nothing written: net/http sends 200

Init == /\ n = 1 /\ pc = "idle" /\ recovery \in RecoverySettings /\ mutex = 0 /\ held = FALSE /\ active = 0
        /\ routeLock = 0 /\ status = "ok" /\ light = FALSE /\ written = "none" /\ panicked = FALSE /\ obs = <<>>

MayPanic(stage) == Impl = "partial" /\ stage \in PanicAt

(* entry: defer recover-closure; Lock; defer conditional Unlock; RequestsActive.Add(1); defer Add(-1) *)
Enter == /\ pc = "idle" /\ mutex = 0
         /\ mutex' = n /\ held' = TRUE /\ active' = active + 1 /\ pc' = "find"
         /\ UNCHANGED <<n, recovery, routeLock, status, light, written, panicked, obs>>

(* a stage panics: the Go runtime starts unwinding the deferred calls *)
Panic == /\ pc \in StageSet /\ MayPanic(pc)
         /\ panicked' = TRUE /\ pc' = "unwind"
         /\ UNCHANGED <<n, recovery, mutex, held, active, routeLock, status, light, written, obs>>

(* a handler that began its response before it crashed *)
PanicLate == /\ pc = "handler" /\ MayPanic("handler") /\ status = "ok"
             /\ \E w \in {"ok", "err"} : written' = w
             /\ panicked' = TRUE /\ pc' = "unwind"
             /\ UNCHANGED <<n, recovery, mutex, held, active, routeLock, status, light, obs>>

(* FindRoute under the shutdown mutex; defer route.Unlock; early release of the mutex *)
Find == /\ pc = "find"
        /\ \E r \in {"ok", "light", "notfound", "badmethod"} :
             /\ routeLock' = IF r \in {"ok", "light"} THEN 1 ELSE 0
             /\ light' = (r = "light")
             /\ held' = FALSE /\ mutex' = 0
             /\ IF r \in {"ok", "light"} THEN pc' = "session" /\ status' = "ok" /\ written' = written
                ELSE pc' = "return" /\ status' = "err" /\ written' = "err"       \* ErrorResponse / not-found page, log, return
        /\ UNCHANGED <<n, recovery, active, panicked, obs>>

(* build the Session: partsMap, parmMap, Accept flags, AcceptsGzip, negotiateLanguage *)
Session == /\ pc = "session"
           /\ pc' = IF light THEN "media" ELSE "auth"
           /\ UNCHANGED <<n, recovery, mutex, held, active, routeLock, status, light, written, panicked, obs>>

(* LogRequest; session.Authenticate; 429 when locked out; 403 when authentication is required; 500 for a nil handler *)
Auth == /\ pc = "auth"
        /\ \/ pc' = "media" /\ written' = written
           \/ pc' = "return" /\ written' = "err"
        /\ UNCHANGED <<n, recovery, mutex, held, active, routeLock, status, light, panicked, obs>>

(* the stages that answer with an error and fall through with status # OK *)
Check(stage, next) == /\ pc = stage
                      /\ \/ pc' = next /\ UNCHANGED <<status, written>>
                         \/ status = "ok" /\ status' = "err" /\ written' = "err" /\ pc' = next
                      /\ UNCHANGED <<n, recovery, mutex, held, active, routeLock, light, panicked, obs>>

Media  == Check("media", "perms")
(* permission check; GetPermissions; a redirect returns *)
Perms  == \/ Check("perms", "params")
          \/ /\ pc = "perms" /\ status = "ok" /\ pc' = "return" /\ written' = "ok"
             /\ UNCHANGED <<n, recovery, mutex, held, active, routeLock, status, light, panicked, obs>>
(* Disallowed, ValidateParameters, validatePaging; 401 for an unauthenticated session returns *)
Params == \/ Check("params", "body")
          \/ /\ pc = "params" /\ status = "ok" /\ pc' = "return" /\ written' = "err"
             /\ UNCHANGED <<n, recovery, mutex, held, active, routeLock, status, light, panicked, obs>>
(* read the body under MaxBytesReader; 413 returns *)
Body   == \/ /\ pc = "body" /\ pc' = "validate"
             /\ UNCHANGED <<n, recovery, mutex, held, active, routeLock, status, light, written, panicked, obs>>
          \/ /\ pc = "body" /\ pc' = "return" /\ written' = IF written = "none" THEN "err" ELSE written
             /\ UNCHANGED <<n, recovery, mutex, held, active, routeLock, status, light, panicked, obs>>
Validate == Check("validate", "handler")

(* the handler runs only when every earlier stage left status = OK *)
Handler == /\ pc = "handler"
           /\ IF status = "ok" THEN \E w \in {"none", "ok", "err"} : written' = w      \* "none": net/http answers 200 itself
              ELSE written' = written
           /\ pc' = "log"
           /\ UNCHANGED <<n, recovery, mutex, held, active, routeLock, status, light, panicked, obs>>

LogStage == /\ pc = "log" /\ pc' = "return"
            /\ UNCHANGED <<n, recovery, mutex, held, active, routeLock, status, light, written, panicked, obs>>

(* deferred calls, last in first out: route.Unlock; RequestsActive.Add(-1); the conditional mutex release;    *)
(* then the recover closure (a no-op on a normal return)                                                       *)
RunDefers == /\ routeLock' = 0 /\ active' = active - 1
             /\ mutex' = (IF held THEN 0 ELSE mutex) /\ held' = FALSE

Finish(o) == /\ obs' = Append(obs, o)
             /\ pc' = "done"

Return == /\ pc = "return" /\ RunDefers
          /\ Finish([NoObs EXCEPT !.responded = TRUE, !.status = StatusOf(written)])
          /\ UNCHANGED <<n, recovery, status, light, written, panicked>>

(* unwinding after a panic: the same deferred calls, then recover() in the closure and reportRequestPanic:      *)
(* recovery on : log server.panic.recovered, ErrorResponse 500 (ignored by net/http if the status line is out)  *)
(* recovery off: re-panic; net/http's connection-level recover prints the panic and closes the connection       *)
Unwind == /\ pc = "unwind" /\ RunDefers
          /\ IF recovery
             THEN /\ written' = IF written = "none" THEN "r500" ELSE written
                  /\ Finish([NoObs EXCEPT !.responded = TRUE, !.status = StatusOf(written'), !.recovered = TRUE, !.site = "stage"])
             ELSE /\ written' = written
                  /\ \E seen \in (IF written = "none" THEN {FALSE} ELSE BOOLEAN) :
                       Finish([NoObs EXCEPT !.responded = seen, !.status = IF seen THEN StatusOf(written) ELSE 0,
                                            !.escaped = TRUE, !.site = "stage"])
          /\ UNCHANGED <<n, recovery, status, light, panicked>>

NextRequest == /\ pc = "done" /\ n < NReq
               /\ n' = n + 1 /\ pc' = "idle" /\ status' = "ok" /\ light' = FALSE /\ written' = "none" /\ panicked' = FALSE
               /\ \E r \in RecoverySettings : recovery' = r
               /\ UNCHANGED <<mutex, held, active, routeLock, obs>>

AllDone == pc = "done" /\ n = NReq /\ UNCHANGED vars

Next == \/ Enter \/ Panic \/ PanicLate \/ Find \/ Session \/ Auth \/ Media \/ Perms \/ Params \/ Body \/ Validate
        \/ Handler \/ LogStage \/ Return \/ Unwind \/ NextRequest \/ AllDone
Spec == Init /\ [][Next]_vars

TypeOK == /\ n \in 1..NReq /\ pc \in StageSet \cup {"idle", "return", "unwind", "done"}
          /\ mutex \in 0..NReq /\ active \in 0..1 /\ routeLock \in 0..1
          /\ status \in {"ok", "err"} /\ written \in {"none", "ok", "err", "r500"}
          /\ Len(obs) <= NReq

Contract == \A k \in DOMAIN obs : Holds(obs[k])
ObsSound == pc = "done" => (panicked <=> (obs[n].recovered \/ obs[n].escaped))
StatusDetects == \A k \in DOMAIN obs : obs[k].recovered => obs[k].status = 500
LocksFree == pc = "done" => (mutex = 0 /\ active = 0 /\ routeLock = 0 /\ ~held)
=============================================================================

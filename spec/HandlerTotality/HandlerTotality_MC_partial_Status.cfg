SPECIFICATION Spec
CONSTANTS
  PathVars = 2
  QueryParams = 8
  BodyLeaves = 12
  Impl = "partial"
  PanicAt = {"handler"}
  RecoverySettings = {TRUE}
  NReq = 1
INVARIANTS StatusDetects
CHECK_DEADLOCK TRUE

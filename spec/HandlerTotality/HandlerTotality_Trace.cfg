SPECIFICATION TSpec
CONSTANTS
  PathVars = 2
  QueryParams = 8
  BodyLeaves = 12
  Radius = 2
INVARIANTS Report
CHECK_DEADLOCK FALSE

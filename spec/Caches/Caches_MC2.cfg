SPECIFICATION Spec
CONSTANTS
  Class = {"c1", "c2"}
  Key = {"k1", "k2"}
  Val = {"v1", "v2"}
  Limit = 2
  DefaultLife = 2
  Lives = {1}
  MaxClock = 2
  MaxGen = 3
  MaxBroadcast = 2
  Impl = "fixed"
INVARIANTS TypeOK LookupLatest Bounded AtMostOnce OnlyRemoved NothingLost LifeKept
PROPERTIES RemovedGrowsOnly PurgeLocalNeverBroadcasts
VIEW View
CHECK_DEADLOCK FALSE

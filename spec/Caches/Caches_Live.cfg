SPECIFICATION Spec
CONSTANTS
  Class = {"c1"}
  Key = {"k1", "k2"}
  Val = {"v1"}
  Limit = 2
  DefaultLife = 1
  Lives = {1}
  MaxClock = 1
  MaxGen = 2
  MaxBroadcast = 2
  Impl = "fixed"
INVARIANTS TypeOK NothingLost
PROPERTIES EventuallyReportedOrBusy
CHECK_DEADLOCK FALSE

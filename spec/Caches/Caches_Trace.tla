---------------------------- MODULE Caches_Trace ----------------------------
(* Binding T: validates event logs recorded from the real package (hooks     *)
(* under cacheLock + the eviction listener) against the actions of Caches.   *)
(* Every event is bound to exactly one spec action with its logged arguments *)
(* and reply; Notify picks the pending entry (its generation is not logged). *)
(* run changes => TraceReset, so many recorded runs are checked in one JVM.  *)
EXTENDS Caches, Json

VARIABLES l, run

TraceLog == ndJsonDeserialize("trace.ndjson")
N == Len(TraceLog)

TInit == TLCSet(42, 0) /\ Init /\ l = 1 /\ run = IF N > 0 THEN TraceLog[1].run ELSE 0

Ev == TraceLog[l]
Is(e) == l <= N /\ Ev.run = run /\ Ev.ev = e
Step == l' = l + 1 /\ run' = run

TAdd   == Is("Add") /\ Add(Ev.c, Ev.k, Ev.v) /\ last'.reply = Ev.reply /\ Step
TFind  == Is("Find") /\ Find(Ev.c, Ev.k) /\ last'.reply = Ev.reply /\ Step
TDel   == Is("Delete") /\ Delete(Ev.c, Ev.k) /\ last'.reply = Ev.reply /\ Step
TPurge == Is("Purge") /\ Purge(Ev.c) /\ Step
TPurgeL == Is("PurgeLocal") /\ PurgeLocal(Ev.c) /\ Step
TSetE  == Is("SetExpiration") /\ SetExpiration(Ev.c, Ev.d) /\ Step
TSweep == Is("Sweep") /\ Sweep(Ev.c) /\ last'.reply = Ev.reply
          /\ (Present(Ev.c) => Cardinality(Dead(Ev.c)) = Ev.d) /\ Step
TTick  == Is("Tick") /\ Tick /\ Step
TNotify == Is("Notify") /\ Step
           /\ \E e \in pending : /\ e.c = Ev.c /\ e.k = Ev.k /\ e.v = Ev.v
                                 /\ pending' = pending \ {e}
                                 /\ notified' = Append(notified, e)
                                 /\ Obs("Notify", e.c, e.k, e.v, "", e.n)
                                 /\ UNCHANGED <<cache, configured, clock, removed, gen, latest, broadcasts>>
TBroadcast == Is("Broadcast") /\ Step /\ UNCHANGED vars   \* OnPurge ran (its count is checked at Reset)

(* next recorded run: the previous one must have delivered every notice and   *)
(* fired exactly the broadcasts the spec counted                              *)
TReset == /\ l <= N /\ Ev.run # run /\ Ev.ev = "Reset"
          /\ pending = {} /\ broadcasts = Ev.d
          /\ cache' = [c \in Class |-> NoCache] /\ configured' = [c \in Class |-> 0]
          /\ clock' = 0 /\ pending' = {} /\ notified' = <<>> /\ removed' = {} /\ gen' = 0
          /\ latest' = [c \in Class |-> [k \in Key |-> "none"]] /\ broadcasts' = 0
          /\ last' = [act |-> "Init", c |-> "", k |-> "", v |-> "", reply |-> "", d |-> 0]
          /\ run' = Ev.run /\ l' = l + 1

TNext == TAdd \/ TFind \/ TDel \/ TPurge \/ TPurgeL \/ TSetE \/ TSweep \/ TTick \/ TNotify \/ TBroadcast \/ TReset
TSpec == TInit /\ [][TNext]_<<vars, l, run>>

(* acceptance: the whole log was consumed *)
Reached == TLCSet(42, IF TLCGet(42) < l THEN l ELSE TLCGet(42))
Accepted == /\ PrintT(<<"HIGHWATER", TLCGet(42), N + 1>>)
            /\ TLCGet(42) = N + 1
=============================================================================

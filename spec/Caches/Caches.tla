------------------------------- MODULE Caches -------------------------------
(* Code-shaped specification of internal/caches (tucats/ego).               *)
(* One action per critical section under cacheLock:                         *)
(*   Add, Find, Delete, Purge, PurgeLocal, SetExpiration, Sweep              *)
(* plus Tick (time passes) and Notify (eviction callback, delivered AFTER   *)
(* the lock was released -- a separate step so TLC explores what happens in *)
(* the window).                                                             *)
(* Deliberate behaviours of the code that the statement of C28 allows are   *)
(* modelled as they are: Find does not test expiry (only Sweep removes),    *)
(* a Find hit refreshes the expiry, Add of a NEW key to a full cache is     *)
(* rejected, Purge/replace owe no eviction notice.                          *)
(* Impl = "asis"  : Purge forgets the cache record (delete(cacheList,id))   *)
(*                  and nothing else remembers the configured lifetime      *)
(* Impl = "fixed" : the configured lifetime survives (what C28-P4 demands)  *)
EXTENDS Integers, FiniteSets, Sequences, TLC

CONSTANTS Class, Key, Val,
          Limit,        \* MaxSize given to every new cache
          DefaultLife,  \* lifetime a lazily created cache gets
          Lives,        \* lifetimes SetExpiration may install
          MaxClock, MaxGen, MaxBroadcast,
          Impl

NoItem  == [val |-> "none", exp |-> 0, n |-> 0]
NoCache == [on |-> FALSE, items |-> [k \in Key |-> NoItem], life |-> 0]

VARIABLES cache,       \* [Class -> [on: BOOLEAN, items: [Key -> item], life: Nat]]
          configured,  \* [Class -> 0 | lifetime]   last value given to SetExpiration
          clock,
          pending,     \* evictions gathered under the lock, not yet reported
          notified,    \* sequence of evictions reported to the listener
          removed,     \* history: entries removed by Sweep or Delete
          gen,         \* history: number of accepted Adds (entry identity)
          latest,      \* history: [Class -> [Key -> value a lookup must return | "none"]]
          broadcasts,  \* history: number of OnPurge firings (cluster broadcast requests)
          last         \* observation: the last call and its reply

vars == <<cache, configured, clock, pending, notified, removed, gen, latest, broadcasts, last>>
hist == <<removed, gen, latest, broadcasts, last>>

Present(c) == cache[c].on
NewCache(c) == [on |-> TRUE, items |-> [k \in Key |-> NoItem],
                life  |-> IF Impl = "fixed" /\ configured[c] # 0 THEN configured[c] ELSE DefaultLife]
Ensure(c)  == IF Present(c) THEN cache[c] ELSE NewCache(c)
Size(r)    == Cardinality({k \in Key : r.items[k] # NoItem})
Entry(c, k, it) == [c |-> c, k |-> k, v |-> it.val, n |-> it.n]

Init == /\ cache = [c \in Class |-> NoCache]
        /\ configured = [c \in Class |-> 0]
        /\ clock = 0 /\ pending = {} /\ notified = <<>> /\ removed = {} /\ gen = 0
        /\ latest = [c \in Class |-> [k \in Key |-> "none"]]
        /\ broadcasts = 0
        /\ last = [act |-> "Init", c |-> "", k |-> "", v |-> "", reply |-> "", d |-> 0]

Obs(a, c, k, v, r, d) == last' = [act |-> a, c |-> c, k |-> k, v |-> v, reply |-> r, d |-> d]

(* caches.Add: lazily create; drop an existing entry for the key; reject when full *)
Add(c, k, v) ==
  LET base   == Ensure(c)
      items0 == [base.items EXCEPT ![k] = NoItem]
      full   == Size([base EXCEPT !.items = items0]) >= Limit
  IN  /\ gen < MaxGen
      /\ IF full
           THEN /\ cache' = [cache EXCEPT ![c] = [base EXCEPT !.items = items0]]
                /\ gen' = gen
                /\ latest' = [latest EXCEPT ![c][k] = "none"]
                /\ Obs("Add", c, k, v, "rejected", 0)
           ELSE /\ cache' = [cache EXCEPT ![c] = [base EXCEPT !.items =
                              [items0 EXCEPT ![k] = [val |-> v, exp |-> clock + base.life, n |-> gen + 1]]]]
                /\ gen' = gen + 1
                /\ latest' = [latest EXCEPT ![c][k] = v]
                /\ Obs("Add", c, k, v, "stored", 0)
      /\ UNCHANGED <<configured, clock, pending, notified, removed, broadcasts>>

(* caches.Find: no expiry test; a hit refreshes the expiry *)
Find(c, k) ==
  /\ IF Present(c) /\ cache[c].items[k] # NoItem
       THEN /\ cache' = [cache EXCEPT ![c].items[k].exp = clock + cache[c].life]
            /\ Obs("Find", c, k, "", cache[c].items[k].val, 0)
       ELSE /\ cache' = cache
            /\ Obs("Find", c, k, "", "miss", 0)
  /\ UNCHANGED <<configured, clock, pending, notified, removed, gen, latest, broadcasts>>

(* caches.Delete: remove under the lock, remember the entry for the listener *)
Delete(c, k) ==
  /\ IF Present(c) /\ cache[c].items[k] # NoItem
       THEN /\ cache' = [cache EXCEPT ![c].items[k] = NoItem]
            /\ pending' = pending \cup {Entry(c, k, cache[c].items[k])}
            /\ removed' = removed \cup {Entry(c, k, cache[c].items[k])}
            /\ Obs("Delete", c, k, "", "true", 0)
       ELSE /\ UNCHANGED <<cache, pending, removed>>
            /\ Obs("Delete", c, k, "", "false", 0)
  /\ latest' = [latest EXCEPT ![c][k] = "none"]
  /\ UNCHANGED <<configured, clock, notified, gen, broadcasts>>

PurgeBody(c, notify) ==
  /\ notify => broadcasts < MaxBroadcast
  /\ cache' = [cache EXCEPT ![c] = NoCache]
  /\ latest' = [latest EXCEPT ![c] = [k \in Key |-> "none"]]
  /\ broadcasts' = IF notify THEN broadcasts + 1 ELSE broadcasts
  /\ Obs(IF notify THEN "Purge" ELSE "PurgeLocal", c, "", "", "", 0)
  /\ UNCHANGED <<configured, clock, pending, notified, removed, gen>>

Purge(c)      == PurgeBody(c, TRUE)      \* originates here: fires OnPurge even if no such cache
PurgeLocal(c) == PurgeBody(c, FALSE)     \* arrived from a peer: never fires OnPurge

SetExpiration(c, d) ==
  /\ cache' = [cache EXCEPT ![c] = [Ensure(c) EXCEPT !.life = d]]
  /\ configured' = [configured EXCEPT ![c] = d]
  /\ Obs("SetExpiration", c, "", "", "", d)
  /\ UNCHANGED <<clock, pending, notified, removed, gen, latest, broadcasts>>

(* sweepExpired: one critical section removes every entry whose time is up *)
Dead(c) == {k \in Key : cache[c].items[k] # NoItem /\ cache[c].items[k].exp <= clock}
Sweep(c) ==
  /\ IF Present(c)
       THEN /\ cache' = [cache EXCEPT ![c].items = [k \in Key |-> IF k \in Dead(c) THEN NoItem ELSE @[k]]]
            /\ pending' = pending \cup {Entry(c, k, cache[c].items[k]) : k \in Dead(c)}
            /\ removed' = removed \cup {Entry(c, k, cache[c].items[k]) : k \in Dead(c)}
            /\ latest' = [latest EXCEPT ![c] = [k \in Key |-> IF k \in Dead(c) THEN "none" ELSE @[k]]]
            /\ Obs("Sweep", c, "", "", "true", 0)
       ELSE /\ UNCHANGED <<cache, pending, removed, latest>>
            /\ Obs("Sweep", c, "", "", "false", 0)
  /\ UNCHANGED <<configured, clock, notified, gen, broadcasts>>

Tick == /\ clock < MaxClock
        /\ clock' = clock + 1
        /\ Obs("Tick", "", "", "", "", 0)
        /\ UNCHANGED <<cache, configured, pending, notified, removed, gen, latest, broadcasts>>

(* the eviction callback, invoked after cacheLock was released *)
Notify == \E e \in pending :
            /\ pending' = pending \ {e}
            /\ notified' = Append(notified, e)
            /\ Obs("Notify", e.c, e.k, e.v, "", e.n)
            /\ UNCHANGED <<cache, configured, clock, removed, gen, latest, broadcasts>>

Api == \/ \E c \in Class, k \in Key, v \in Val : Add(c, k, v)
       \/ \E c \in Class, k \in Key : Find(c, k) \/ Delete(c, k)
       \/ \E c \in Class : Purge(c) \/ PurgeLocal(c) \/ Sweep(c)
       \/ \E c \in Class, d \in Lives : SetExpiration(c, d)
       \/ Tick

Next == Api \/ Notify
Spec == Init /\ [][Next]_vars /\ WF_vars(Notify)

-----------------------------------------------------------------------------
(* C28, as invariants of the design *)

TypeOK == /\ \A c \in Class : Present(c) => cache[c].life \in Nat
          /\ clock \in 0..MaxClock /\ gen \in 0..MaxGen

(* P1 a lookup returns the latest value stored and not since deleted/purged/expired;
      never a value after its deletion *)
LookupLatest == \A c \in Class, k \in Key :
    LET v == IF Present(c) THEN cache[c].items[k].val ELSE "none"
    IN  v = latest[c][k]

(* P2 never more entries than the limit *)
Bounded == \A c \in Class : Present(c) => Size(cache[c]) <= Limit

(* P3 each entry removed by expiry or deletion is reported exactly once *)
Range(s) == {s[i] : i \in 1..Len(s)}
AtMostOnce  == \A i, j \in 1..Len(notified) : notified[i] = notified[j] => i = j
OnlyRemoved == Range(notified) \subseteq removed /\ pending \subseteq removed
NothingLost == Range(notified) \cup pending = removed
(* liveness under WF(Notify): a gathered eviction is eventually delivered *)
EventuallyReportedOrBusy == \A e \in [c : Class, k : Key, v : Val, n : 1..MaxGen] :
                               (e \in pending) ~> (e \in Range(notified))

(* P4 the configured lifetime stays in force, also after a purge and re-creation *)
LifeKept == \A c \in Class : (Present(c) /\ configured[c] # 0) => cache[c].life = configured[c]

(* action properties *)
NotifiedGrowsOnly == [][\E s \in Seq(removed') : notified' = notified \o s]_vars
RemovedGrowsOnly  == [][removed \subseteq removed']_vars
PurgeLocalNeverBroadcasts == [][last'.act = "PurgeLocal" => broadcasts' = broadcasts]_vars

View == <<cache, configured, clock, pending, Range(notified), removed, latest>>
=============================================================================

SPECIFICATION Spec
CONSTANTS
  Class = {"c1"}
  Key = {"k1", "k2", "k3"}
  Val = {"v1", "v2"}
  Limit = 2
  DefaultLife = 2
  Lives = {1, 3}
  MaxClock = 3
  MaxGen = 4
  MaxBroadcast = 2
  Impl = "asis"
INVARIANTS TypeOK LookupLatest Bounded AtMostOnce OnlyRemoved NothingLost LifeKept
PROPERTIES RemovedGrowsOnly PurgeLocalNeverBroadcasts
VIEW View
CHECK_DEADLOCK FALSE

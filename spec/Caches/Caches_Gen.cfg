SPECIFICATION GenSpec
CONSTANTS
  Class = {"c1", "c2"}
  Key = {"k1", "k2", "k3"}
  Val = {"v1", "v2"}
  Limit = 2
  DefaultLife = 2
  Lives = {1, 3}
  MaxClock = 6
  MaxGen = 100
  MaxBroadcast = 1000000
  Impl = "fixed"
  Depth = 14
INVARIANTS Emit
CHECK_DEADLOCK FALSE

SPECIFICATION TSpec
CONSTANTS
  Class = {"c1", "c2"}
  Key = {"k1", "k2", "k3"}
  Val = {}
  Limit = 2
  DefaultLife = 2
  Lives = {1, 3}
  MaxClock = 1000000
  MaxGen = 1000000
  MaxBroadcast = 1000000
  Impl = "fixed"
INVARIANTS LookupLatest Bounded AtMostOnce OnlyRemoved NothingLost LifeKept
CONSTRAINT Reached
POSTCONDITION Accepted
CHECK_DEADLOCK FALSE

----------------------------- MODULE Caches_Gen -----------------------------
(* Behaviour generator: Caches + a history variable whose value is printed   *)
(* as JSON for replay into the real package (binding R).  Only API steps are *)
(* taken (sequential callers: the eviction callback has run when the call    *)
(* returns, so the harness compares notified \cup pending).                  *)
EXTENDS Caches, Json

CONSTANT Depth
VARIABLE h

Proj == [cache |-> [c \in Class |->
                      [on |-> cache[c].on, life |-> cache[c].life,
                       items |-> [k \in {x \in Key : cache[c].items[x] # NoItem} |->
                                    [val |-> cache[c].items[k].val, ttl |-> cache[c].items[k].exp - clock]]]],
         evicted |-> {[c |-> e.c, k |-> e.k, v |-> e.v] : e \in Range(notified) \cup pending},
         nevicted |-> Len(notified) + Cardinality(pending),
         broadcasts |-> broadcasts]

GenInit == Init /\ h = <<>>
GenNext == /\ Len(h) < Depth
           /\ Api
           /\ h' = Append(h, [call |-> last', st |-> Proj'])
GenSpec == GenInit /\ [][GenNext]_<<vars, h>>

Emit == Len(h) < Depth \/ PrintT(ToJson(h))
=============================================================================

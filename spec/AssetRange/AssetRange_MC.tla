--------------------------- MODULE AssetRange_MC ---------------------------
(* Model checking of the handler model against the contract.  The minifier /  *)
(* renderer oracle is instantiated with fixed stand-in values (any value that *)
(* differs from the raw bytes exercises the same paths).                      *)
EXTENDS AssetRange

MCReps == [id \in DOMAIN Raw |->
             [min  |-> IF id = "j" THEN <<97,61,49,59>>                         \* "a=1;"
                       ELSE IF id = "c" THEN <<112,123,99,58,100,125>>          \* "p{c:d}"
                       ELSE Raw[id],
              html |-> IF id = "m" THEN <<60,104,49,62,84,60,47,104,49,62,10>>  \* "<h1>T</h1>\n"
                       ELSE Raw[id]]]
=============================================================================

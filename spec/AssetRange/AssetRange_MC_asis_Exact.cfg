SPECIFICATION Spec
CONSTANTS
  Impl = "asis"
  Reps <- MCReps
  Wide = FALSE
INVARIANTS Exact
CHECK_DEADLOCK FALSE

SPECIFICATION GenSpec
CONSTANTS
  Impl = "fixed"
  Reps <- GenReps
  Wide = FALSE
INVARIANTS Emit
CHECK_DEADLOCK FALSE

SPECIFICATION CSpec
CONSTANTS
  Impl = "fixed"
  Reps <- MCReps
  Wide = FALSE
  Limits = {2097152, 5242880, 10485760}
  Procs = {"p1", "p2"}
  PoolIds = {"b1", "b2"}
  ConcSet = "large"
INVARIANTS ConcConforms AllAnswered
CHECK_DEADLOCK FALSE

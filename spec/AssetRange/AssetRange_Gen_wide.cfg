SPECIFICATION GenSpec
CONSTANTS
  Impl = "fixed"
  Reps <- GenReps
  Wide = TRUE
INVARIANTS Emit
CHECK_DEADLOCK FALSE

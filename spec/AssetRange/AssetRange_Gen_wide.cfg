SPECIFICATION GenSpec
CONSTANTS
  Impl = "fixed"
  Reps <- GenReps
  Wide = TRUE
  Limits = {2097152, 5242880, 10485760}
INVARIANTS Emit
CHECK_DEADLOCK FALSE

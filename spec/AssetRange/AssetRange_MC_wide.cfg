SPECIFICATION Spec
CONSTANTS
  Impl = "fixed"
  Reps <- MCReps
  Wide = TRUE
INVARIANTS NoPanic NoOutside Exact Conforms
CHECK_DEADLOCK FALSE

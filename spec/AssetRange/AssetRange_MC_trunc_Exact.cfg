SPECIFICATION Spec
CONSTANTS
  Impl = "trunc"
  Reps <- MCReps
  Wide = FALSE
  Limits = {2097152, 5242880, 10485760}
INVARIANTS Exact
CHECK_DEADLOCK FALSE

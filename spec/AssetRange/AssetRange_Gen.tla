--------------------------- MODULE AssetRange_Gen ---------------------------
(* Case generator for binding F: every case of the quantifier (Cases) is one  *)
(* initial state, printed as JSON; the fixture is printed once.  The harness  *)
(* builds the fixture, executes each case on the real handler and logs the    *)
(* response next to the case.                                                 *)
EXTENDS AssetRange, Json

VARIABLE cur
GenReps == <<>>

ASSUME PrintT(ToJson([fixture |-> Fixture]))

GenInit == cache = <<>> /\ cfg = FALSE /\ last = NoLast /\ steps = 0 /\ cur \in Cases
GenNext == UNCHANGED <<vars, cur>>
GenSpec == GenInit /\ [][GenNext]_<<vars, cur>>
Emit == PrintT(ToJson(cur))
=============================================================================

------------------------------ MODULE AssetConc ------------------------------
(* C39, concurrent stage.  Several requests are in flight at once; each is a   *)
(* process that goes through the handler's phases (AssetRange!Pre, the Loader  *)
(* split at its critical sections, AssetRange!Reply) and the phases of         *)
(* different requests interleave freely.  Shared state: the asset cache and -  *)
(* in the "pool" variant - read buffers that are handed back when the Loader   *)
(* returns although the handler still holds the slice.  Every finished request *)
(* must satisfy the same contract AssetRange!Allowed: its body is the exact    *)
(* bytes of ITS OWN file and range, whatever the others did meanwhile.         *)
EXTENDS AssetRange

CONSTANTS Procs, PoolIds,
          ConcSet   \* "small" | "large": which requests the processes choose from
VARIABLES pc,      \* p -> "idle" | "lookup" | "read" | "range" | "write" | "done"
          rq,      \* p -> the request
          plan,    \* p -> parsed range
          buf,     \* p -> the buffer its data slice points into
          tot,     \* p -> total size reported by the Loader
          bufs,    \* buffer -> bytes (run-length form)
          done     \* finished (in, out) pairs
cvars == <<pc, rq, plan, buf, tot, bufs, done, vars>>

MCReps == [id \in DOMAIN Raw |->
             [min  |-> IF id = "j" THEN <<97,61,49,59>> ELSE IF id = "c" THEN <<112,123,99,58,100,125>> ELSE Raw[id],
              html |-> IF id = "m" THEN <<60,104,49,62,84,60,47,104,49,62,10>> ELSE Raw[id]]]

CPaths == {p \in SmallPathCases : p.url \in {"/assets/a.txt", "/assets/sub/a.txt", "/assets/s.js"}}
CRanges == {NoRange, FROM(0), AB(1, 2), FROM(2), AB(0, 0), FROM(9)}
ConcRequests == IF ConcSet = "large"
                  THEN {[method |-> me, path |-> p, range |-> r] : me \in {"GET", "HEAD"}, p \in CPaths, r \in CRanges}
                  ELSE {[method |-> "GET", path |-> p, range |-> r] : p \in {q \in CPaths : q.url # "/assets/s.js"},
                                                                     r \in {NoRange, AB(1, 2), FROM(1), FROM(0)}}
NoReq == [method |-> "", path |-> <<>>, range |-> NoRange]
InOf(req) == [method |-> req.method, min |-> cfg, prime |-> "", path |-> req.path, range |-> req.range]

CInit == /\ cache = <<>> /\ cfg \in BOOLEAN /\ last = NoLast /\ steps = 0
         /\ pc = [p \in Procs |-> "idle"] /\ rq = [p \in Procs |-> NoReq] /\ plan = [p \in Procs |-> NoPR]
         /\ buf = [p \in Procs |-> p] /\ tot = [p \in Procs |-> 0]
         /\ bufs = [b \in Procs \cup PoolIds |-> <<>>] /\ done = {}

Finish(p, req, out) == done' = done \cup {[who |-> p, in |-> InOf(req), out |-> out]}

(* the request arrives; everything up to the Loader call touches no shared state *)
Start(p) == /\ pc[p] = "idle"
            /\ \E req \in ConcRequests :
                 LET a == Pre(req) IN
                 /\ rq' = [rq EXCEPT ![p] = req] /\ plan' = [plan EXCEPT ![p] = a.pr]
                 /\ IF a.k = "resp" THEN Finish(p, req, a.out) /\ pc' = [pc EXCEPT ![p] = "done"]
                    ELSE done' = done /\ pc' = [pc EXCEPT ![p] = IF IsFullLoad(a.pr) THEN "lookup" ELSE "range"]
            /\ UNCHANGED <<buf, tot, bufs, vars>>

(* Loader, whole asset: lookupCachedAsset under AssetMux *)
CacheLookup(p) ==
  /\ pc[p] = "lookup"
  /\ IF rq[p].path.url \in DOMAIN cache
       THEN /\ bufs' = [bufs EXCEPT ![p] = cache[rq[p].path.url]]
            /\ tot' = [tot EXCEPT ![p] = RLen(cache[rq[p].path.url])]
            /\ pc' = [pc EXCEPT ![p] = "write"]
       ELSE /\ pc' = [pc EXCEPT ![p] = "read"]
            /\ UNCHANGED <<bufs, tot>>
  /\ UNCHANGED <<rq, plan, buf, done, vars>>

(* Loader, whole asset, after a miss: read (+ minify), then cacheAsset under AssetMux.  The   *)
(* cache may have been filled by another request meanwhile; LoadStep on a cache without this *)
(* entry is exactly the miss path.                                                            *)
ReadInsert(p) == /\ pc[p] = "read"
                 /\ LET url == rq[p].path.url
                        l == LoadStep(rq[p], plan[p], cfg, [k \in DOMAIN cache \ {url} |-> cache[k]])
                    IN IF l.k = "resp"
                         THEN /\ Finish(p, rq[p], l.out) /\ pc' = [pc EXCEPT ![p] = "done"]
                              /\ UNCHANGED <<bufs, tot, cache>>
                         ELSE /\ bufs' = [bufs EXCEPT ![p] = l.data] /\ tot' = [tot EXCEPT ![p] = l.total]
                              /\ cache' = (url :> l.data) @@ cache
                              /\ pc' = [pc EXCEPT ![p] = "write"] /\ done' = done
                 /\ UNCHANGED <<rq, plan, buf, cfg, last, steps>>

(* Loader, ranged: readAssetRange.  Design: a buffer of its own.  "pool": any pooled buffer - *)
(* recycled or new - and it is back in the pool when the Loader returns.                      *)
ReadRange(p) == /\ pc[p] = "range"
                /\ LET l == LoadStep(rq[p], plan[p], cfg, cache) IN
                   IF l.k = "resp"
                     THEN /\ Finish(p, rq[p], l.out) /\ pc' = [pc EXCEPT ![p] = "done"]
                          /\ UNCHANGED <<bufs, tot, buf>>
                     ELSE /\ \E b \in (IF Impl = "pool" THEN PoolIds ELSE {p}) :
                               /\ bufs' = [bufs EXCEPT ![b] = l.data] /\ buf' = [buf EXCEPT ![p] = b]
                          /\ tot' = [tot EXCEPT ![p] = l.total]
                          /\ pc' = [pc EXCEPT ![p] = "write"] /\ done' = done
                /\ UNCHANGED <<rq, plan, vars>>

(* headers and body: what the slice holds NOW (abstraction: a recycled buffer is modelled as   *)
(* replaced wholesale; the real slice keeps its own length)                                    *)
Write(p) == /\ pc[p] = "write"
            /\ Finish(p, rq[p], Reply(rq[p], plan[p], bufs[buf[p]], tot[p]))
            /\ pc' = [pc EXCEPT ![p] = "done"]
            /\ UNCHANGED <<rq, plan, buf, tot, bufs, vars>>

CNext == \E p \in Procs : Start(p) \/ CacheLookup(p) \/ ReadInsert(p) \/ ReadRange(p) \/ Write(p)
CSpec == CInit /\ [][CNext]_cvars

ConcConforms == \A d \in done : Allowed(d.in, d.out)
(* vacuity guard: every finished process has its pair recorded *)
AllAnswered == \A p \in Procs : pc[p] = "done" => \E d \in done : d.who = p
=============================================================================

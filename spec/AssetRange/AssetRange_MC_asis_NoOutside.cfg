SPECIFICATION Spec
CONSTANTS
  Impl = "asis"
  Reps <- MCReps
  Wide = FALSE
INVARIANTS NoOutside
CHECK_DEADLOCK FALSE

-------------------------- MODULE AssetRange_Trace --------------------------
(* Binding F: io.ndjson holds one record per executed case,                   *)
(*   [stage, in |-> the case as generated, out |-> the real response].        *)
(* reps.json holds the oracle (real minifier / renderer applied to each whole *)
(* raw file).  Every record is judged by the contract Allowed; records whose  *)
(* input is not a case of the spec (WF) are reported too (the check turns     *)
(* those into "no verdict", never into a violation).                          *)
EXTENDS AssetRange, Json

VARIABLES i, bad

Log == ndJsonDeserialize("io.ndjson")
TraceReps == JsonDeserialize("reps.json")

(* stage "conc": the pair was recorded while other requests were in flight (the cache history is *)
(* then whatever the schedule made it; the contract does not depend on it)                     *)
Judge(rec) == IF ~WF(rec.in) THEN "not-a-case"
              ELSE IF Allowed(rec.in, rec.out) THEN ""
              ELSE Key(rec.in, rec.out) \o (IF rec.stage = "conc" /\ (rec.out.panicked \/ ~OutsideCase(rec.in, rec.out))
                                             THEN "/concurrent" ELSE "")

TInit == cache = <<>> /\ cfg = FALSE /\ last = NoLast /\ steps = 0 /\ i = 1 /\ bad = {}
TNext == /\ i <= Len(Log)
         /\ LET k == Judge(Log[i]) IN bad' = IF k = "" THEN bad ELSE bad \cup {[idx |-> i, key |-> k]}
         /\ i' = i + 1
         /\ UNCHANGED vars
TSpec == TInit /\ [][TNext]_<<vars, i, bad>>
Report == i <= Len(Log) \/ PrintT(ToJson([n |-> Len(Log), bad |-> bad]))
=============================================================================

SPECIFICATION TSpec
CONSTANTS
  Impl = "fixed"
  Reps <- TraceReps
  Wide = TRUE
INVARIANTS Report
CHECK_DEADLOCK FALSE

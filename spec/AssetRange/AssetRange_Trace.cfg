SPECIFICATION TSpec
CONSTANTS
  Impl = "fixed"
  Reps <- TraceReps
  Wide = FALSE
  Limits = {2097152, 5242880, 10485760}
INVARIANTS Report
CHECK_DEADLOCK FALSE

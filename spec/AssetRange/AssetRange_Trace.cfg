SPECIFICATION TSpec
CONSTANTS
  Impl = "fixed"
  Reps <- TraceReps
  Wide = FALSE
INVARIANTS Report
CHECK_DEADLOCK FALSE

SPECIFICATION Spec
CONSTANTS
  Impl = "asis"
  Reps <- MCReps
  Wide = FALSE
INVARIANTS NoPanic
CHECK_DEADLOCK FALSE

----------------------------- MODULE AssetRange -----------------------------
(* C39 - static assets are served exactly and only from the asset root.      *)
(*                                                                           *)
(* Three things live here:                                                   *)
(*  1. the FIXTURE: a small file tree (asset root "lib", a sibling directory *)
(*     "libx" that is OUTSIDE the root, symbolic links) with its contents as  *)
(*     byte sequences.  The harness builds exactly this tree on disk.         *)
(*  2. the REQUEST DOMAIN of the property's quantifier: path spellings x      *)
(*     Range header shapes (relative to the size of the named file) x         *)
(*     HEAD/GET x minify setting x cache history (cold / primed).             *)
(*  3. the CONTRACT Allowed(in, out): which responses the statement permits,  *)
(*     and Key(in, out), the abstract identity of a failing case.             *)
(* plus a MODEL of the handler shaped like the code (AssetsHandler -> Loader  *)
(* -> cache | readAssetRange), in two variants: Impl = "fixed" (the design,   *)
(* must satisfy the contract for every request and history) and "asis" (the   *)
(* defect classes found by reading; the negative control must reject it).     *)
(*                                                                           *)
(* Minification and Markdown rendering are NOT specified here (C19/C33/C34    *)
(* cover the minifiers): Reps is an oracle parameter, id -> [min, html],      *)
(* instantiated from the real functions applied to the whole raw file.        *)
EXTENDS Integers, Sequences, FiniteSets, TLC

CONSTANTS Impl,     \* "fixed" | "asis"
          Reps,     \* [id -> [min |-> bytes, html |-> bytes]]  (oracle)
          Wide,     \* FALSE: quick domain; TRUE: every spelling gets the full Range table, both minify settings
          Limits    \* the size constants of handler.go / cache.go (read from the source by the check)

N(x) == ToString(x)
Big  == 2147483647          \* stands for "larger than any file" (TLC ints are 32 bit)
Min2(x, y) == IF x < y THEN x ELSE y
Max2(x, y) == IF x > y THEN x ELSE y

(* Byte strings are compared in run-length form <<byte, count>>,... (canonical: neighbours differ,  *)
(* counts > 0) so that assets larger than the handler's size constants can be specified exactly.  *)
RECURSIVE ToR(_, _, _)
ToR(b, i, acc) == IF i > Len(b) THEN acc
                  ELSE IF acc # <<>> /\ acc[Len(acc)][1] = b[i]
                         THEN ToR(b, i + 1, [acc EXCEPT ![Len(acc)] = <<b[i], @[2] + 1>>])
                  ELSE ToR(b, i + 1, Append(acc, <<b[i], 1>>))
ToRLE(b) == ToR(b, 1, <<>>)
RECURSIVE RLenR(_, _)
RLenR(r, i) == IF i > Len(r) THEN 0 ELSE r[i][2] + RLenR(r, i + 1)
RLen(r) == RLenR(r, 1)
RECURSIVE RSl(_, _, _, _, _, _)
RSl(r, i, off, s, e, acc) ==                       \* off: position of the first byte of run i
  IF i > Len(r) \/ off > e THEN acc
  ELSE LET n  == r[i][2]
           lo == Max2(s, off)
           hi == Min2(e, off + (n - 1))
       IN IF lo <= hi THEN RSl(r, i + 1, off + n, s, e, Append(acc, <<r[i][1], (hi - lo) + 1>>))
          ELSE RSl(r, i + 1, off + n, s, e, acc)
RSlice(r, s, e) == IF e < s THEN <<>> ELSE RSl(r, 1, 0, s, e, <<>>)     \* bytes s..e (0-based, inclusive)

------------------------------------------------------------------------------
(* 1. Fixture.  Paths are sequences of names relative to the asset root.      *)

Raw == [ a  |-> <<97,98,99,100,101,102>>,        \* assets/a.txt      "abcdef"
         e  |-> <<>>,                            \* assets/e.txt      (empty)
         s  |-> <<88,89,90>>,                    \* assets/sub/a.txt  "XYZ"
         j  |-> <<97,32,61,32,49,32,59,10>>,     \* assets/s.js       "a = 1 ;\n"
         c  |-> <<112,32,123,99,58,100,125,10>>, \* assets/c.css      "p {c:d}\n"
         m  |-> <<35,32,84,10>>,                 \* assets/m.md       "# T\n"
         x  |-> <<76,73,66>> ]                   \* x.txt             "LIB" (in the root, not under assets/)

Secret == <<1,2,3,4>>                            \* libx/secret.txt : OUTSIDE the root
Canary == {1,2,3,4}                              \* bytes that occur nowhere inside the root nor in error texts

Files == { [p |-> <<"assets","a.txt">>,       id |-> "a", kind |-> "plain"],
           [p |-> <<"assets","e.txt">>,       id |-> "e", kind |-> "plain"],
           [p |-> <<"assets","sub","a.txt">>, id |-> "s", kind |-> "plain"],
           [p |-> <<"assets","s.js">>,        id |-> "j", kind |-> "js"],
           [p |-> <<"assets","c.css">>,       id |-> "c", kind |-> "css"],
           [p |-> <<"assets","m.md">>,        id |-> "m", kind |-> "md"],
           [p |-> <<"x.txt">>,                id |-> "x", kind |-> "plain"] }
(* One asset just above each size constant of the handler (quick: only the largest).  Content:  *)
(* runs of one byte value, a new run at every multiple of Band and at K-1, K, K+1 for every      *)
(* constant K, so that a slice cut, shifted or padded around a constant has a different form.    *)
Band == 524287
MaxLimit == CHOOSE k \in Limits : \A j \in Limits : j <= k
BigKs == IF Wide THEN Limits ELSE {MaxLimit}
BigSize(k) == k + 3
Bounds(sz) == {x \in UNION {{k - 1, k, k + 1} : k \in Limits} \cup {i * Band : i \in 1 .. (sz \div Band)} : x > 0 /\ x < sz}
RECURSIVE BigRuns(_, _, _, _)
BigRuns(bs, from, sz, j) ==                         \* bs: boundaries not yet used
  IF bs = {} THEN <<<<33 + (j % 89), sz - from>>>>
  ELSE LET b == CHOOSE x \in bs : \A y \in bs : x <= y
       IN <<<<33 + (j % 89), b - from>>>> \o BigRuns(bs \ {b}, b, sz, j + 1)
BigFiles == { [p |-> <<"assets", "big" \o N(k) \o ".bin">>, id |-> "big" \o N(k), kind |-> "plain",
               size |-> BigSize(k), rle |-> BigRuns(Bounds(BigSize(k)), 0, BigSize(k), 0)] : k \in BigKs }
BigIds == {f.id : f \in BigFiles}
Dirs  == { <<>>, <<"assets">>, <<"assets","sub">> }
OutFiles == { [p |-> <<"secret.txt">>, bytes |-> Secret] }       \* relative to libx/
Links == { [p |-> <<"assets","lin">>,  zone |-> "in",  tgt |-> <<"assets","a.txt">>],
           [p |-> <<"assets","lout">>, zone |-> "out", tgt |-> <<"secret.txt">>],
           [p |-> <<"assets","dout">>, zone |-> "out", tgt |-> <<>>] }
Fixture == [raw |-> Raw, files |-> Files, bigfiles |-> BigFiles, dirs |-> Dirs, outfiles |-> OutFiles, links |-> Links,
            outdir |-> "libx", root |-> "lib"]
(* raw content of a file, run-length form *)
RawR(id) == IF id \in BigIds THEN (CHOOSE f \in BigFiles : f.id = id).rle ELSE ToRLE(Raw[id])
SecretR == ToRLE(Secret)

IsPrefix(p, q) == Len(p) <= Len(q) /\ SubSeq(q, 1, Len(p)) = p
NoNode == [t |-> "none", id |-> "", kind |-> ""]
(* the object a cleaned, root-relative path denotes (links resolved) *)
Lookup(p) ==
  IF \E f \in Files : f.p = p
    THEN LET f == CHOOSE f \in Files : f.p = p IN [t |-> "file", id |-> f.id, kind |-> f.kind]
  ELSE IF \E f \in BigFiles : f.p = p
    THEN LET f == CHOOSE f \in BigFiles : f.p = p IN [t |-> "file", id |-> f.id, kind |-> f.kind]
  ELSE IF \E l \in Links : l.zone = "in" /\ l.p = p
    THEN LET l == CHOOSE l \in Links : l.zone = "in" /\ l.p = p
             f == CHOOSE f \in Files : f.p = l.tgt IN [t |-> "file", id |-> f.id, kind |-> f.kind]
  ELSE IF \E l \in Links : l.zone = "out" /\ IsPrefix(l.p, p)
    THEN LET l == CHOOSE l \in Links : l.zone = "out" /\ IsPrefix(l.p, p)
             q == l.tgt \o SubSeq(p, Len(l.p) + 1, Len(p))
         IN IF \E o \in OutFiles : o.p = q THEN [t |-> "outside", id |-> "", kind |-> ""]
            ELSE IF q = <<>> THEN [t |-> "dir", id |-> "", kind |-> ""] ELSE NoNode
  ELSE IF p \in Dirs THEN [t |-> "dir", id |-> "", kind |-> ""]
  ELSE NoNode

(* lexical resolution of the decoded request path below the root *)
RECURSIVE CleanR(_, _)
CleanR(segs, acc) ==
  IF segs = <<>> THEN [ok |-> TRUE, p |-> acc]
  ELSE LET h == Head(segs) IN
       IF h \in {"", "."} THEN CleanR(Tail(segs), acc)
       ELSE IF h = ".." THEN (IF acc = <<>> THEN [ok |-> FALSE, p |-> <<>>]
                              ELSE CleanR(Tail(segs), SubSeq(acc, 1, Len(acc) - 1)))
       ELSE CleanR(Tail(segs), Append(acc, h))
Clean(segs) == CleanR(segs, <<>>)

(* what a request path NAMES: a file inside the root, an object outside it, or nothing servable *)
NamedOf(segs) == LET c == Clean(segs) IN
                 IF ~c.ok THEN [t |-> "escaped", id |-> "", kind |-> ""] ELSE Lookup(c.p)

------------------------------------------------------------------------------
(* 2. Request domain.                                                         *)

Part(w, s) == [w |-> w, s |-> s]          \* written form / decoded segments
S(x) == Part(x, <<x>>)
RECURSIVE UrlOf(_), SegsOf(_)
UrlOf(parts)  == IF parts = <<>> THEN "" ELSE "/" \o Head(parts).w \o UrlOf(Tail(parts))
SegsOf(parts) == IF parts = <<>> THEN <<>> ELSE Head(parts).s \o SegsOf(Tail(parts))
(* ext: the suffix the handler sees on the decoded path ("" | "js" | "css" | "md") *)
PC(cls, parts, ext) == [cls |-> cls, url |-> UrlOf(parts), segs |-> SegsOf(parts), ext |-> ext]

A == S("assets")
DD == S("..")
EDD == Part("%2e%2e", <<"..">>)
SmallPathCases ==
  { PC("direct", <<A, S("a.txt")>>, ""), PC("direct", <<A, S("e.txt")>>, ""),
    PC("direct", <<A, S("sub"), S("a.txt")>>, ""), PC("direct", <<A, S("s.js")>>, "js"),
    PC("direct", <<A, S("c.css")>>, "css"), PC("direct", <<A, S("m.md")>>, "md"),
    PC("symlink-in", <<A, S("lin")>>, ""),
    \* other spellings of a file inside the root
    PC("dblslash", <<A, S(""), S("a.txt")>>, ""),
    PC("dblslash", <<A, S("sub"), S(""), S(""), S("a.txt")>>, ""),
    PC("dot", <<A, S("."), S("a.txt")>>, ""),
    PC("dotdot-inside", <<A, S("sub"), DD, S("a.txt")>>, ""),
    PC("dotdot-inside", <<A, S("sub"), EDD, S("a.txt")>>, ""),
    PC("enc-slash", <<Part("assets%2fa.txt", <<"assets","a.txt">>)>>, ""),
    PC("enc-letter", <<A, Part("%61.txt", <<"a.txt">>)>>, ""),
    PC("trailing-dot", <<A, S("a.txt"), S(".")>>, ""),
    PC("trailing-dot", <<A, S("m.md"), S(".")>>, ""),
    PC("trailing-dot", <<A, S("s.js"), S(".")>>, ""),
    PC("trailing-slash", <<A, S("a.txt"), S("")>>, ""),
    PC("leading-dblslash", <<S(""), A, S("a.txt")>>, ""),
    \* inside the root but not below assets/
    PC("root-not-assets", <<A, DD, S("x.txt")>>, ""),
    PC("root-not-assets", <<A, EDD, S("x.txt")>>, ""),
    \* attempts to leave the root
    PC("escape", <<A, DD, DD, S("libx"), S("secret.txt")>>, ""),
    PC("escape", <<A, EDD, EDD, S("libx"), S("secret.txt")>>, ""),
    PC("escape", <<A, Part(".%2e", <<"..">>), Part("%2E.", <<"..">>), S("libx"), S("secret.txt")>>, ""),
    PC("escape", <<A, Part("..%2f..%2flibx%2fsecret.txt", <<"..","..","libx","secret.txt">>)>>, ""),
    PC("escape", <<A, S("sub"), DD, DD, DD, S("libx"), S("secret.txt")>>, ""),
    PC("escape", <<A, S("sub"), Part("..%2F..%2F..", <<"..","..","..">>), S("libx"), S("secret.txt")>>, ""),
    PC("escape", <<A, S("...."), S("...."), S("libx"), S("secret.txt")>>, ""),
    PC("escape-trailing", <<A, DD>>, ""), PC("escape-trailing", <<A, DD, DD>>, ""),
    PC("escape-trailing", <<A, EDD, EDD>>, ""), PC("escape-trailing", <<A, S("sub"), DD>>, ""),
    \* absolute path of the outside file as the item (harness substitutes @OUT@)
    PC("absolute", <<A, S(""), S("@OUT@"), S("secret.txt")>>, ""),
    \* symbolic links that leave the root
    PC("symlink-out-file", <<A, S("lout")>>, ""),
    PC("symlink-out-dir", <<A, S("dout"), S("secret.txt")>>, ""),
    PC("symlink-out-dir", <<A, S("dout")>>, ""),
    \* nothing servable
    PC("dir", <<A, S("sub")>>, ""), PC("dir", <<A>>, ""), PC("dir", <<A, S("sub"), S("")>>, ""),
    PC("dir", <<A, S("")>>, ""),
    PC("missing", <<A, S("nope.txt")>>, ""), PC("missing", <<A, S("a.txt"), S("x")>>, ""),
    PC("missing", <<A, Part("a.txt%00", <<"a.txt<NUL>">>)>>, "") }
PathCases == SmallPathCases \cup { PC("big", <<A, S("big" \o N(k) \o ".bin")>>, "") : k \in BigKs }

Rawlen(path) == LET n == NamedOf(path.segs) IN IF n.t = "file" THEN RLen(RawR(n.id)) ELSE 0

(* sem: what the header MEANS (RFC 9110 single range forms) - used by the contract;   *)
(* shape: finer label of the spelling - used by the model's parser and by Key.        *)
RC(shape, sem, text, a, b) == [shape |-> shape, sem |-> sem, text |-> text, a |-> a, b |-> b]
NoRange == RC("none", "none", "", 0, 0)
Vals(L) == (0 .. (L + (IF Wide THEN 2 ELSE 1))) \cup {Big}
FullRanges(L) ==
  {NoRange}
  \cup {RC("ab", "ab", "bytes=" \o N(a) \o "-" \o N(b), a, b) : a \in Vals(L), b \in Vals(L)}
  \cup {RC("from", "from", "bytes=" \o N(a) \o "-", a, 0) : a \in Vals(L)}
  \cup {RC("suffix", "suffix", "bytes=-" \o N(n), n, 0) : n \in {0, 1, L, L + 1}}
  \cup {RC("nodash", "other", "bytes=" \o N(a), a, 0) : a \in {0, 1, L, L + 1}}
  \cup {RC("abc", "other", "bytes=1-2-3", 1, 2), RC("abc", "other", "bytes=0-0-0", 0, 0),
        RC("abc", "other", "bytes=" \o N(L + 1) \o "-" \o N(L + 2) \o "-0", L + 1, L + 2)}
  \cup {RC("multi", "other", t, 0, 0) : t \in {"bytes=0-0,2-3", "bytes=0-,1-1", "bytes=1-1,0-", "bytes=0-0,-1"}}
  \cup {RC("junk", "other", t, 0, 0) : t \in {"bytes=x-y", "bytes=1-y", "bytes=", "bytes=-", "bytes= 1-2",
                                              "bytes=--1", "bytes=-1-2", "bytes=1--2", "bytes=0x1-2",
                                              "bytes=+1-2", "bytes", "-", "items=1-2", "1-2"}}
  \* the end value 2^63-1 is the handler's "open ended" sentinel; 2^63 and 2^64 overflow int64
  \cup {RC("ab-max63", "ab", "bytes=0-9223372036854775807", 0, Big),
        RC("ab-max63", "ab", "bytes=1-9223372036854775807", 1, Big),
        RC("ab-max63", "ab", "bytes=" \o N(L) \o "-9223372036854775807", L, Big),
        RC("from-max63", "from", "bytes=9223372036854775807-", Big, 0),
        RC("over63", "ab", "bytes=0-9223372036854775808", 0, Big),
        RC("over63", "from", "bytes=9223372036854775808-", Big, 0),
        RC("over63", "ab", "bytes=1-18446744073709551616", 1, Big)}
SmallRanges ==
  {NoRange, RC("ab", "ab", "bytes=0-1", 0, 1), RC("from", "from", "bytes=1-", 1, 0),
   RC("from", "from", "bytes=0-", 0, 0), RC("from", "from", "bytes=9-", 9, 0),
   RC("nodash", "other", "bytes=1", 1, 0), RC("multi", "other", "bytes=0-0,2-3", 0, 0),
   RC("suffix", "suffix", "bytes=-1", 1, 0)}
(* ranges of an asset of size sz that cover exactly / more than each size constant K, from the    *)
(* start, from the end, across K, and the whole asset                                           *)
AB(a, b) == RC("ab", "ab", "bytes=" \o N(a) \o "-" \o N(b), a, b)
FROM(a)  == RC("from", "from", "bytes=" \o N(a) \o "-", a, 0)
BigRanges(sz) ==
  {NoRange, FROM(0), FROM(1), AB(0, sz - 1), AB(1, sz - 1), AB(0, sz), AB(0, Big), FROM(sz - 1), FROM(sz), AB(sz, sz + 1),
   RC("nodash", "nodash-big", "bytes=" \o N(sz - 1), sz - 1, 0)}
  \cup UNION { {AB(0, k - 1), AB(0, k), AB(1, k), AB(1, k + 1), AB(k - 1, k + 1), AB((sz - k) - 1, sz - 1),
                FROM((sz - k) - 1), FROM(sz - k), RC("suffix", "suffix", "bytes=-" \o N(k + 1), k + 1, 0)}
              : k \in {j \in Limits : j + 1 <= sz} }
RangesOf(path) == IF path.cls = "big" THEN BigRanges(Rawlen(path)) ELSE IF path.cls \in {"direct", "symlink-in"} \/ (Wide /\ NamedOf(path.segs).t \in {"file", "outside"})
                  THEN FullRanges(Rawlen(path)) ELSE SmallRanges

Cross(u) == IF u = "/assets/a.txt" THEN "/assets/sub/a.txt"
            ELSE IF u = "/assets/sub/a.txt" THEN "/assets/a.txt" ELSE ""
Minifiable(path) == path.ext \in {"js", "css"} \/ NamedOf(path.segs).kind \in {"js", "css"}
MinsOf(path)   == IF (Minifiable(path) \/ Wide) /\ path.cls # "big" THEN BOOLEAN ELSE {FALSE}
PrimesOf(path) == {""} \cup (IF NamedOf(path.segs).t \in {"file", "outside"} /\ (Wide \/ path.cls # "big") THEN {path.url} ELSE {})
                       \cup (IF Cross(path.url) # "" THEN {Cross(path.url)} ELSE {})
Methods == {"GET", "HEAD"}

(* one case of the quantifier.  prime = "" (cold cache) or the URL fetched (plain GET) just before *)
Cases == UNION { { [method |-> me, min |-> mi, prime |-> pr, path |-> p, range |-> r]
                   : me \in Methods, mi \in MinsOf(p), pr \in PrimesOf(p), r \in RangesOf(p) }
                 : p \in PathCases }
WF(in) == /\ in.path \in PathCases /\ in.range \in RangesOf(in.path) /\ in.method \in Methods
          /\ in.min \in MinsOf(in.path) /\ in.prime \in PrimesOf(in.path)

------------------------------------------------------------------------------
(* 3. Contract.  out = [status, cr (Content-Range or ""), cl (Content-Length or ""), panicked    *)
(*    (a panic left the handler), and the body: big = FALSE -> body (bytes), big = TRUE -> rle (the     *)
(*    same bytes in canonical run-length form; the harness uses it for bodies over 256 bytes)]          *)

OutR(f, min) == CASE f.kind = "md" -> ToRLE(Reps[f.id].html)
                  [] f.kind \in {"js", "css"} /\ min -> ToRLE(Reps[f.id].min)
                  [] OTHER -> RawR(f.id)
CR(s, e, L) == "bytes " \o N(s) \o "-" \o N(e) \o "/" \o N(L)
BodyR(out) == IF out.big THEN out.rle ELSE ToRLE(out.body)
BodyIs(in, out, rep) == /\ out.cl \in {"", N(RLen(rep))}
                        /\ BodyR(out) = IF in.method = "HEAD" THEN <<>> ELSE rep

NoPanicOut(out)   == ~out.panicked
NoOutsideOut(out) == /\ \A i \in 1 .. Len(out.body) : out.body[i] \notin Canary
                     /\ \A i \in 1 .. Len(out.rle) : out.rle[i][1] \notin Canary
IsError(out)      == out.status \in 400 .. 599

Full200(in, out, f) == out.status = 200 /\ out.cr = "" /\ BodyIs(in, out, OutR(f, in.min))
PartOK(in, out, rep, s, e) == out.cr = CR(s, e, RLen(rep)) /\ BodyIs(in, out, RSlice(rep, s, e))
(* a ranged answer may come from either representation (raw file or rendered/minified) as long  *)
(* as range, total and body agree for that representation; for a well-formed single range the   *)
(* answered range must be the requested one clamped to the representation.                      *)
Partial206(in, out, f) ==
  /\ out.status = 206
  /\ \E rep \in {RawR(f.id), OutR(f, in.min)} :
       LET L == RLen(rep)
           r == in.range
       IN CASE r.sem = "ab"     -> r.a <= r.b /\ r.a < L /\ PartOK(in, out, rep, r.a, Min2(r.b, L - 1))
            [] r.sem = "from"   -> r.a < L /\ PartOK(in, out, rep, r.a, L - 1)
            [] r.sem = "suffix" -> r.a > 0 /\ L > 0 /\ PartOK(in, out, rep, Max2(0, L - r.a), L - 1)
            [] r.sem = "other"  -> \E s \in 0 .. (L - 1) : \E e \in s .. (L - 1) : PartOK(in, out, rep, s, e)
            [] OTHER            -> FALSE      \* no Range header (or a malformed one on a big asset): a 206 is not an answer

Served(in, out) == LET f == NamedOf(in.path.segs) IN
                   f.t = "file" /\ (Full200(in, out, f) \/ Partial206(in, out, f))
Allowed(in, out) == NoPanicOut(out) /\ NoOutsideOut(out) /\ (IsError(out) \/ Served(in, out))

(* abstract identity of a failing case *)
Rel(in) == LET L == Rawlen(in.path)
               r == in.range
               ra == IF r.a < L THEN "a<L" ELSE IF r.a = L THEN "a=L" ELSE "a>L"
               rb == IF r.b < r.a THEN "b<a" ELSE IF r.b < L THEN "b<L" ELSE "b>=L"
           IN CASE r.shape \in {"ab", "abc", "ab-max63", "over63"} -> ra \o "," \o rb
                [] r.shape \in {"from", "from-max63", "nodash"} -> ra
                [] r.shape = "suffix" -> IF r.a = 0 THEN "n=0" ELSE IF r.a <= L THEN "n<=L" ELSE "n>L"
                [] OTHER -> "-"
Kind(in) == LET f == NamedOf(in.path.segs) IN IF f.t = "file" THEN f.kind ELSE f.t
Hist(in) == IF in.prime = "" THEN "cold" ELSE IF in.prime = in.path.url THEN "warm" ELSE "cross"
OutsideCase(in, out) == ~NoOutsideOut(out) \/ (NamedOf(in.path.segs).t \in {"outside", "escaped"} /\ ~IsError(out))
Key(in, out) ==
  IF ~NoPanicOut(out) THEN "panic/" \o in.range.shape \o "/" \o Rel(in)
  ELSE IF OutsideCase(in, out)
       THEN "outside-content/" \o in.path.cls       \* bytes, or (HEAD, empty range) existence and size, of an outside object
  ELSE LET what == IF out.status = 200 THEN "body200" ELSE IF out.status = 206 THEN "range206"
                   ELSE "status" \o N(out.status)
       IN what \o "/" \o in.path.cls \o "/" \o Kind(in) \o "/" \o in.range.shape \o "/" \o Rel(in) \o "/" \o Hist(in)

------------------------------------------------------------------------------
(* 4. Model of the handler (one action = one request served; the asset cache is the state). *)

VARIABLES cache,    \* decoded path (here: url) -> bytes held by the asset cache
          cfg,      \* the minify setting (fixed for a behaviour)
          last,     \* [on, in, out] of the request just served
          steps
vars == <<cache, cfg, last, steps>>

Resp(st, cr, cl, rle) == [status |-> st, cr |-> cr, cl |-> cl, body |-> <<>>, big |-> TRUE, rle |-> rle, panicked |-> FALSE]
ErrResp(st) == Resp(st, "", "", <<>>)       \* error texts are abstracted to an empty body
PanicResp   == [status |-> 500, cr |-> "", cl |-> "", body |-> <<>>, big |-> TRUE, rle |-> <<>>, panicked |-> TRUE]
(* Impl: "fixed" = the design; "asis" = the defects read off the code; "trunc", "pool" = the design plus   *)
(* one more defect class each (negative controls of the size-constant and of the concurrent stage).      *)

PR(k, has, s, e, open) == [k |-> k, has |-> has, s |-> s, e |-> e, open |-> open]
(* the suffix that selects minification / rendering: as-is it is taken from the request   *)
(* spelling, in the design from the file the path names                                   *)
ExtOf(path) == IF Impl = "asis" THEN path.ext
               ELSE LET n == NamedOf(path.segs) IN IF n.t = "file" /\ n.kind # "plain" THEN n.kind ELSE ""
Parse(path, r) ==
  IF Impl # "asis" /\ ExtOf(path) = "md" THEN PR("ok", FALSE, 0, 0, TRUE)       \* design: rendered pages ignore Range
  ELSE CASE r.shape = "none" -> PR("ok", FALSE, 0, 0, TRUE)
         [] r.shape \in {"ab", "abc"} -> PR("ok", TRUE, r.a, r.b, FALSE)
         [] r.shape = "ab-max63" -> PR("ok", TRUE, r.a, 0, TRUE)      \* 2^63-1 is the open-ended sentinel
         [] r.shape \in {"from", "from-max63"} -> PR("ok", TRUE, r.a, 0, TRUE)
         [] r.shape = "nodash" -> PR(IF Impl = "asis" THEN "panic" ELSE "bad", FALSE, 0, 0, TRUE)   \* ranges[1] without a length check
         [] OTHER -> PR("bad", FALSE, 0, 0, TRUE)
NoPR == PR("ok", FALSE, 0, 0, TRUE)

(* The handler in three phases (the concurrent model interleaves them):                    *)
(*   Pre      - checks and Range parsing that touch no shared state                        *)
(*   LoadStep - Loader: the cache (lookup / read + insert) or readAssetRange               *)
(*   Reply    - rendering, headers, body                                                   *)
Phase(k, out, pr) == [k |-> k, out |-> out, pr |-> pr]
Pre(req) ==
  LET segs == req.path.segs
      pr   == Parse(req.path, req.range)
  IN
  IF Len(segs) = 0 \/ segs[1] # "assets" THEN Phase("resp", ErrResp(404), NoPR)                     \* router
  ELSE IF segs[Len(segs)] = "" THEN Phase("resp", ErrResp(403), NoPR)                               \* index read
  ELSE IF \E i \in 1 .. (Len(segs) - 1) : segs[i] = ".." THEN Phase("resp", ErrResp(403), NoPR)     \* "/../"
  ELSE IF pr.k = "panic" THEN Phase("resp", PanicResp, NoPR)
  ELSE IF pr.k = "bad" THEN Phase("resp", ErrResp(400), NoPR)
  ELSE IF pr.has /\ ~pr.open /\ pr.e < pr.s THEN Phase("resp", ErrResp(400), NoPR)
  ELSE Phase("load", ErrResp(404), pr)

Readable(node) == node.t = "file" \/ (Impl = "asis" /\ node.t = "outside")   \* as-is follows links out of the root
ContentOf(node) == IF node.t = "file" THEN RawR(node.id) ELSE SecretR
IsFullLoad(pr) == pr.s = 0 /\ pr.open
MinLimit == CHOOSE k \in Limits : \A j \in Limits : k <= j

Loaded(k, out, data, total, ch) == [k |-> k, out |-> out, data |-> data, total |-> total, cache |-> ch]
LoadStep(req, pr, min, ch) ==
  LET path == req.path
      node == NamedOf(path.segs)
      ext  == ExtOf(path)
      content == ContentOf(node)
  IN
  IF IsFullLoad(pr)
    THEN (IF path.url \in DOMAIN ch
            THEN Loaded("data", ErrResp(404), ch[path.url], IF Impl = "asis" THEN 0 ELSE RLen(ch[path.url]), ch)   \* as-is: size forgotten on a hit
          ELSE IF ~Readable(node) THEN Loaded("resp", ErrResp(404), <<>>, 0, ch)
          ELSE LET d == IF ext \in {"js", "css"} /\ min /\ node.t = "file" THEN ToRLE(Reps[node.id].min) ELSE content
               IN Loaded("data", ErrResp(404), d, RLen(d), (path.url :> d) @@ ch))
  ELSE IF ~Readable(node) THEN Loaded("resp", ErrResp(404), <<>>, 0, ch)
  ELSE LET total == RLen(content)
           e2 == IF pr.open \/ pr.e >= total THEN total - 1 ELSE pr.e
           size == (e2 - pr.s) + 1
           e3 == IF Impl = "trunc" /\ size > MinLimit THEN pr.s + (MinLimit - 1) ELSE e2    \* "trunc": reads capped at a size constant
       IN IF size < 0 THEN (IF Impl = "asis" THEN Loaded("resp", PanicResp, <<>>, 0, ch)       \* make([]byte, negative)
                            ELSE Loaded("data", ErrResp(404), <<>>, total, ch))
          ELSE Loaded("data", ErrResp(404), RSlice(content, pr.s, e3), total, ch)

Reply(req, pr, data, total) ==
  LET node == NamedOf(req.path.segs)
      ext  == ExtOf(req.path)
      html == IF node.t = "file" /\ node.id \notin BigIds THEN ToRLE(Reps[node.id].html) ELSE <<<<63, 1>>>>
      d2   == IF ext # "md" THEN data ELSE IF data = ContentOf(node) THEN html ELSE <<<<63, 1>>>>   \* render of a fragment: garbage
      re   == IF pr.open \/ pr.e >= total THEN total - 1 ELSE pr.e
      body == IF req.method = "HEAD" THEN <<>> ELSE d2
  IN IF pr.has
       THEN (IF Impl # "asis" /\ pr.s >= total THEN ErrResp(416)
             ELSE Resp(206, CR(pr.s, re, total), N(RLen(d2)), body))
       ELSE Resp(200, "", IF req.method = "HEAD" THEN N(RLen(d2)) ELSE "", body)

Handle(req, min, ch) ==
  LET a == Pre(req) IN
  IF a.k = "resp" THEN [out |-> a.out, cache |-> ch]
  ELSE LET l == LoadStep(req, a.pr, min, ch) IN
       IF l.k = "resp" THEN [out |-> l.out, cache |-> l.cache]
       ELSE [out |-> Reply(req, a.pr, l.data, l.total), cache |-> l.cache]

BaseRequests == UNION { { [method |-> me, path |-> p, range |-> r] : me \in Methods, r \in RangesOf(p) } : p \in PathCases }
IsPrimer(req) == req.method = "GET" /\ req.range.shape = "none"
NoLast == [on |-> FALSE, in |-> <<>>, out |-> ErrResp(404)]

Init == cache = <<>> /\ cfg \in BOOLEAN /\ last = NoLast /\ steps = 0

Serve(req) ==
  /\ LET r  == Handle(req, cfg, cache)
         pm == IF DOMAIN cache = {} THEN "" ELSE CHOOSE k \in DOMAIN cache : TRUE
     IN /\ last' = [on |-> TRUE, out |-> r.out,
                    in |-> [method |-> req.method, min |-> cfg, prime |-> pm, path |-> req.path, range |-> req.range]]
        /\ cache' = r.cache
  /\ steps' = steps + 1
  /\ UNCHANGED cfg

(* histories: one request on a cold cache, or a plain GET that filled the cache followed by one *)
(* request for the same path or for its same-named sibling (cache keys must not collide)        *)
Related(k) == {req \in BaseRequests : req.path.url = k \/ Cross(req.path.url) = k}
Next == \/ steps = 0 /\ \E req \in BaseRequests : Serve(req)
        \/ /\ steps = 1 /\ IsPrimer(last.in) /\ DOMAIN cache # {}
           /\ \E req \in Related(CHOOSE k \in DOMAIN cache : TRUE) : Serve(req)
Spec == Init /\ [][Next]_vars

(* the property, clause by clause (all are implied by Conforms) *)
NoPanic   == last.on => NoPanicOut(last.out)
NoOutside == last.on => NoOutsideOut(last.out)
Exact     == last.on => (IsError(last.out) \/ last.out.panicked \/ Served(last.in, last.out))
Conforms  == last.on => Allowed(last.in, last.out)
=============================================================================

SPECIFICATION Spec
CONSTANTS
  Impl = "fixed"
  Reps <- MCReps
  Wide = FALSE
INVARIANTS NoPanic NoOutside Exact Conforms
CHECK_DEADLOCK FALSE

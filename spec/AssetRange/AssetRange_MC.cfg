SPECIFICATION Spec
CONSTANTS
  Impl = "fixed"
  Reps <- MCReps
  Wide = FALSE
  Limits = {2097152, 5242880, 10485760}
INVARIANTS NoPanic NoOutside Exact Conforms
CHECK_DEADLOCK FALSE

CONSTANTS
  Sigma = {"0", "1", "b", "_", "x", "o"}
  L = 4
  LH = 4
  StrMode = "quick"
SPECIFICATION MCSpec
INVARIANTS AgreeBroken
CHECK_DEADLOCK FALSE

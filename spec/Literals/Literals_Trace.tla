--------------------------- MODULE Literals_Trace ---------------------------
(* F binding for C06: the contract Literals!Post judges what a real run       *)
(* (ego, or the Go toolchain for the cross-check of the spec itself) printed  *)
(* for each literal.  io.ndjson, one record per literal:                      *)
(*   {"lit": [atoms], "obs": [ {"ctx", "st", "ty", "neg", "digs", "exp",      *)
(*                              "neg2", "digs2", "exp2", "bytes"} ... ]}      *)
(* (identical observations of one literal in one context are merged by the    *)
(* harness).  A pair is judged only inside the contract's domain WF.          *)
(* At the last record the report [n, judged, bad] is printed; bad carries the *)
(* abstract identity Key of each failing (literal, context).                  *)
EXTENDS Literals, Json

Log == ndJsonDeserialize("io.ndjson")

VARIABLES i, bad, judged

Fails(k) ==
    LET r == Log[k] IN
    {[idx |-> k, obs |-> j, key |-> Key(r.lit, r.obs[j].ctx)] :
        j \in {j \in 1..Len(r.obs) : WF(r.lit, r.obs[j].ctx) /\ ~Post(r.lit, r.obs[j].ctx, r.obs[j])}}

InDomain(k) == LET r == Log[k] IN Cardinality({j \in 1..Len(r.obs) : WF(r.lit, r.obs[j].ctx)})

Init == i = 1 /\ bad = {} /\ judged = 0
Next == /\ i <= Len(Log)
        /\ i' = i + 1
        /\ bad' = bad \cup Fails(i)
        /\ judged' = judged + InDomain(i)

Report == i <= Len(Log) \/ PrintT(ToJson([n |-> Len(Log), judged |-> judged, bad |-> bad]))
=============================================================================

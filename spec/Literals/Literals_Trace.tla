--------------------------- MODULE Literals_Trace ---------------------------
(* F binding for C06: the contract Literals!Post judges what a real run       *)
(* (ego, or the Go toolchain for the cross-check of the spec itself) printed  *)
(* for each literal.  io.ndjson, one record per literal:                      *)
(*   {"lit": [atoms], "obs": [ {"ctxs", "st", "ty", "neg", "digs", "exp",     *)
(*                              "neg2", "digs2", "exp2", "bytes"} ... ]}      *)
(* (ctxs: the contexts in which exactly this was printed; merged by the       *)
(* harness).  A pair is judged only inside the contract's domain WF.          *)
(* At the last record the report [n, judged, bad] is printed; bad carries the *)
(* abstract identity Key of each failing (literal, context).                  *)
EXTENDS Literals, Json

Log == ndJsonDeserialize("io.ndjson")

VARIABLES i, bad, judged

(* Post reads the context only through (ctx = "neg"): judged once for the negated and once for the other contexts *)
Fails(k) ==
    LET r == Log[k] IN
    UNION {LET o   == r.obs[j]
               cs  == {x \in {o.ctxs[n] : n \in 1..Len(o.ctxs)} : WF(r.lit, x)}
               pos == cs \ {"neg"}
               badPos == pos # {} /\ ~Post(r.lit, CHOOSE x \in pos : TRUE, o)
               badNeg == "neg" \in cs /\ ~Post(r.lit, "neg", o)
           IN {[idx |-> k, obs |-> j, ctx |-> x, key |-> Key(r.lit, x)] :
                  x \in (IF badPos THEN pos ELSE {}) \cup (IF badNeg THEN {"neg"} ELSE {})}
          : j \in 1..Len(r.obs)}

InDomain(k) == LET r == Log[k] IN
    LET Cnt[j \in 0..Len(r.obs)] == IF j = 0 THEN 0
                                    ELSE Cnt[j - 1] + Cardinality({x \in {r.obs[j].ctxs[n] : n \in 1..Len(r.obs[j].ctxs)} : WF(r.lit, x)})
    IN Cnt[Len(r.obs)]

Init == i = 1 /\ bad = {} /\ judged = 0
Next == /\ i <= Len(Log)
        /\ i' = i + 1
        /\ bad' = bad \cup Fails(i)
        /\ judged' = judged + InDomain(i)

Report == i <= Len(Log) \/ PrintT(ToJson([n |-> Len(Log), judged |-> judged, bad |-> bad]))
=============================================================================

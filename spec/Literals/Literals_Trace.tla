--------------------------- MODULE Literals_Trace ---------------------------
(* F binding for C06: the contract Literals!Post judges what a real run       *)
(* (ego, or the Go toolchain for the cross-check of the spec itself) printed  *)
(* for each literal.  io.ndjson, one record per literal:                      *)
(*   {"lit": [atoms], "obs": [ {"ctxs", "st", "ty", "neg", "digs", "exp",     *)
(*                              "neg2", "digs2", "exp2", "bytes"} ... ]}      *)
(* (ctxs: the contexts in which exactly this was printed; merged by the       *)
(* harness).  A pair is judged only inside the contract's domain WF.          *)
(* At the last record the report [n, judged, bad] is printed; bad carries the *)
(* abstract identity Key of each failing (literal, context).                  *)
EXTENDS Literals, Json

Log == ndJsonDeserialize("io.ndjson")

VARIABLES i, bad, judged

(* Post reads the context only through (ctx = "neg"): judged once for the negated and once for the other contexts. *)
(* <<failing (literal, context) pairs, number of pairs in the domain>> of record k                                   *)
Judge(k) ==
    LET r   == Log[k]
        a   == An(r.lit)
        dom == DomCtx(a)
        J(j) == LET o   == r.obs[j]
                    cs  == {o.ctxs[n] : n \in 1..Len(o.ctxs)} \cap dom
                    pos == cs \ {"neg"}
                    badPos == pos # {} /\ ~PostA(a, CHOOSE x \in pos : TRUE, o)
                    badNeg == "neg" \in cs /\ ~PostA(a, "neg", o)
                IN [n |-> Cardinality(cs),
                    bad |-> {[idx |-> k, obs |-> j, ctx |-> x, key |-> Key(r.lit, x)] :
                                x \in (IF badPos THEN pos ELSE {}) \cup (IF badNeg THEN {"neg"} ELSE {})}]
        js == [j \in 1..Len(r.obs) |-> J(j)]
        Sum[j \in 0..Len(r.obs)] == IF j = 0 THEN 0 ELSE Sum[j - 1] + js[j].n
    IN [bad |-> UNION {js[j].bad : j \in 1..Len(r.obs)}, n |-> Sum[Len(r.obs)]]

Init == i = 1 /\ bad = {} /\ judged = 0
Next == /\ i <= Len(Log)
        /\ i' = i + 1
        /\ LET res == Judge(i) IN bad' = bad \cup res.bad /\ judged' = judged + res.n

Report == i <= Len(Log) \/ PrintT(ToJson([n |-> Len(Log), judged |-> judged, bad |-> bad]))
=============================================================================

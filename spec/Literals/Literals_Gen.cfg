CONSTANTS
  Sigma = {"0", "1", "9", "a", "e", "_", ".", "+", "-", "x", "X", "o", "b", "p", "E", "i"}
  L = 5
  LH = 6
  StrMode = "full"
INIT Init
NEXT Next
INVARIANTS Derived Emit
CHECK_DEADLOCK FALSE

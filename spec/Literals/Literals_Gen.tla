---------------------------- MODULE Literals_Gen ----------------------------
(* Generator for C06: every literal spelling the Go grammar derives over a   *)
(* reduced alphabet Sigma up to length L (numbers), the boundary spellings,  *)
(* and rune / string / raw-string literals built from a catalogue of body    *)
(* elements.  The sets are built production by production (derivation, not   *)
(* filtering); Literals_MC checks derivation = recogniser exhaustively.      *)
(* One TLC state per literal; the invariant Emit prints the case as JSON:    *)
(*   [lit |-> atoms, kind |-> production, ctx |-> contexts where WF holds,   *)
(*    grp |-> "core" | "derived"]                                             *)
EXTENDS Literals, Json

CONSTANTS Sigma,      \* alphabet of the number literals
          L,          \* maximum length of a number literal
          LH,         \* maximum length of a hexadecimal floating-point literal (they start at 5 characters)
          StrMode     \* "quick" | "full": how many string / raw combinations

VARIABLE cur

-----------------------------------------------------------------------------
Cat(A, B) == {a \o b : a \in A, b \in B}
Opt(A)    == A \cup {<<>>}
One(S)    == {<<x>> : x \in S}

RDec == Sigma \cap DecD
ROct == Sigma \cap OctD
RBin == Sigma \cap BinD
RHex == Sigma \cap HexD

(* digit { [ "_" ] digit }  of exactly n characters *)
DGn(D, n) == IF n <= 0 THEN {} ELSE {s \in [1..n -> D \cup (Sigma \cap {"_"})] : Digits(s, D)}
LM == IF LH > L THEN LH ELSE L
DecN == [n \in 0..LM |-> DGn(RDec, n)]
OctN == [n \in 0..L |-> DGn(ROct, n)]
BinN == [n \in 0..L |-> DGn(RBin, n)]
HexN == [n \in 0..LM |-> DGn(RHex, n)]
UpTo(F, n)  == UNION {F[k] : k \in 1..n}
(* [ "_" ] digits, at most n characters *)
UUpTo(F, n) == UpTo(F, n) \cup (IF "_" \in Sigma /\ n >= 2 THEN Cat({<<"_">>}, UpTo(F, n - 1)) ELSE {})

Pfx(Ls) == {<<"0", p>> : p \in Ls \cap Sigma}

GenDecimal == (IF "0" \in Sigma THEN {<<"0">>} ELSE {}) \cup {s \in UpTo(DecN, L) : s[1] # "0"}
GenBinary  == Cat(Pfx({"b", "B"}), UUpTo(BinN, L - 2))
GenOctal   == Cat(Pfx({"o", "O"}), UUpTo(OctN, L - 2))
              \cup (IF "0" \in Sigma THEN Cat({<<"0">>}, UUpTo(OctN, L - 1)) ELSE {})
GenHex     == Cat(Pfx({"x", "X"}), UUpTo(HexN, L - 2))
GenInt     == GenDecimal \cup GenBinary \cup GenOctal \cup GenHex

(* exponents of exactly n characters *)
ExpSet(M, n) == IF n < 2 THEN {}
                ELSE UNION {Cat(Cat(One(M \cap Sigma), {sg}), DecN[n - 1 - Len(sg)]) :
                              sg \in {g \in {<<>>, <<"+">>, <<"-">>} : (g = <<>> \/ g[1] \in Sigma) /\ n - 1 - Len(g) >= 1}}
OptExp(M, n) == IF n = 0 THEN {<<>>} ELSE ExpSet(M, n)      \* exactly n characters, n = 0 : absent

Dot == IF "." \in Sigma THEN {<<".">>} ELSE {}

(* length splits <<nl, nr, nx>> with  extra + nl + nr + nx <= max *)
SplitsM(extra, minl, minr, minx, max) ==
    {t \in (minl..max) \X (minr..max) \X ({0} \cup (2..max)) : t[3] >= minx /\ extra + t[1] + t[2] + t[3] <= max}
Splits(extra, minl, minr, minx) == SplitsM(extra, minl, minr, minx, L)
SplitsH(extra, minl, minr, minx) == SplitsM(extra, minl, minr, minx, LH)

(* decimal_float_lit, by the lengths of its parts *)
GenDecFloat ==
    UNION {Cat(Cat(Cat(DecN[t[1]], Dot), IF t[2] = 0 THEN {<<>>} ELSE DecN[t[2]]), OptExp({"e", "E"}, t[3])) :
              t \in Splits(1, 1, 0, 0)}                                                     \* digits "." [ digits ] [ exp ]
    \cup UNION {Cat(DecN[t[1]], ExpSet({"e", "E"}, t[3])) : t \in {u \in Splits(0, 1, 0, 2) : u[2] = 0}}   \* digits exp
    \cup UNION {Cat(Cat(Dot, DecN[t[2]]), OptExp({"e", "E"}, t[3])) : t \in {u \in Splits(1, 0, 1, 0) : u[1] = 0}}  \* "." digits [ exp ]

(* [ "_" ] hex_digits of exactly n characters *)
UHexN(n) == HexN[n] \cup (IF "_" \in Sigma /\ n >= 2 THEN Cat({<<"_">>}, HexN[n - 1]) ELSE {})

GenHexFloat ==
    Cat(Pfx({"x", "X"}),
        UNION {Cat(Cat(Cat(UHexN(t[1]), Dot), IF t[2] = 0 THEN {<<>>} ELSE HexN[t[2]]), ExpSet({"p", "P"}, t[3])) :
                  t \in SplitsH(3, 1, 0, 2)}
        \cup UNION {Cat(UHexN(t[1]), ExpSet({"p", "P"}, t[3])) : t \in {u \in SplitsH(2, 1, 0, 2) : u[2] = 0}}
        \cup UNION {Cat(Cat(Dot, HexN[t[2]]), ExpSet({"p", "P"}, t[3])) : t \in {u \in SplitsH(3, 0, 1, 2) : u[1] = 0}})

GenFloat == GenDecFloat \cup GenHexFloat

(* imaginary_lit = (decimal_digits | int_lit | float_lit) "i", at most L characters *)
GenImag == IF "i" \notin Sigma THEN {}
           ELSE {s \o <<"i">> : s \in {t \in UpTo(DecN, L - 1) \cup GenInt \cup GenFloat :
                                            Len(t) <= (IF t \in GenHexFloat THEN LH ELSE L) - 1}}

GenNumbers == GenInt \cup GenFloat \cup GenImag

-----------------------------------------------------------------------------
(* boundary spellings (outside the reduced alphabet / length bound) *)

Boundary == {
    \* integers around 2^31, 2^32, 2^63 in every radix
    <<"2","1","4","7","4","8","3","6","4","7">>,
    <<"2","1","4","7","4","8","3","6","4","8">>,
    <<"4","2","9","4","9","6","7","2","9","5">>,
    <<"4","2","9","4","9","6","7","2","9","6">>,
    <<"9","2","2","3","3","7","2","0","3","6","8","5","4","7","7","5","8","0","7">>,
    <<"9","2","2","3","3","7","2","0","3","6","8","5","4","7","7","5","8","0","8">>,
    <<"9","_","2","2","3","_","3","7","2","_","0","3","6","_","8","5","4","_","7","7","5","_","8","0","7">>,
    <<"0","x","7","f","f","f","f","f","f","f">>,
    <<"0","x","8","0","0","0","0","0","0","0">>,
    <<"0","x","f","f","f","f","f","f","f","f">>,
    <<"0","X","F","F","F","F","F","F","F","F">>,
    <<"0","x","1","0","0","0","0","0","0","0","0">>,
    <<"0","x","7","f","f","f","f","f","f","f","f","f","f","f","f","f","f","f">>,
    <<"0","x","7","f","f","f","_","f","f","f","f","_","f","f","f","f","_","f","f","f","f">>,
    <<"0","x","8","0","0","0","0","0","0","0","0","0","0","0","0","0","0","0">>,
    <<"0","x","d","e","a","d","b","e","e","f">>,
    <<"0","x","D","E","A","D","_","B","E","E","F">>,
    <<"0","x","a","b","c","d","e","f">>,
    <<"0","X","A","B","C","D","E","F">>,
    <<"0","1","7","7","7","7","7","7","7","7","7","7">>,
    <<"0","2","0","0","0","0","0","0","0","0","0","0">>,
    <<"0","o","7","7","7","7","7","7","7","7","7","7","7","7","7","7","7","7","7","7","7","7","7">>,
    <<"0","7","7","7","7","7","7","7","7","7","7","7","7","7","7","7","7","7","7","7","7","7">>,
    <<"0","o","1","0","0","0","0","0","0","0","0","0","0","0","0","0","0","0","0","0","0","0","0","0">>,
    <<"0","b","1","1","1","1","1","1","1","1","1","1","1","1","1","1","1","1","1","1","1","1","1","1","1","1","1","1","1","1","1","1","1">>,
    <<"0","b","1","0","0","0","0","0","0","0","0","0","0","0","0","0","0","0","0","0","0","0","0","0","0","0","0","0","0","0","0","0","0","0">>,
    <<"0","b","1","1","1","1","1","1","1","1","1","1","1","1","1","1","1","1","1","1","1","1","1","1","1","1","1","1","1","1","1","1","1","1","1","1","1","1","1","1","1","1","1","1","1","1","1","1","1","1","1","1","1","1","1","1","1","1","1","1","1","1","1","1","1">>,
    <<"0","b","1","0","0","0","_","0","0","0","0">>,
    <<"1","2","3","4","5","6","7","8","9","0">>,
    <<"0","1","2","3","4","5","6","7">>,
    <<"0","o","1","2","3","4","5","6","7">>,
    <<"0","O","1","7">>,
    <<"0","B","1","1">>,
    <<"0","_","7">>,
    <<"0","x","_","1">>,
    <<"0","b","_","1">>,
    <<"0","o","_","7">>,
    \* floats: long mantissas, halfway cases, range ends
    <<"0",".","1">>,
    <<"0",".","3">>,
    <<"2",".","5">>,
    <<"3",".","1","4","1","5","9","2","6","5","3","5","8","9","7","9","3","2","3","8","4","6","2","6">>,
    <<"1",".","7","9","7","6","9","3","1","3","4","8","6","2","3","1","5","7","e","3","0","8">>,
    <<"1","e","3","0","8">>,
    <<"1","E","+","3","0","8">>,
    <<"4",".","9","4","0","6","5","6","4","5","8","4","1","2","4","6","5","4","e","-","3","2","4">>,
    <<"5","e","-","3","2","4">>,
    <<"2","e","-","3","2","4">>,
    <<"3","e","-","3","2","4">>,
    <<"2",".","4","7","0","3","2","8","2","2","9","2","0","6","2","3","2","7","e","-","3","2","4">>,
    <<"2",".","4","7","0","3","2","8","2","2","9","2","0","6","2","3","2","8","e","-","3","2","4">>,
    <<"1","e","-","4","0","0">>,
    <<"2",".","2","2","5","0","7","3","8","5","8","5","0","7","2","0","1","4","e","-","3","0","8">>,
    <<"2",".","2","2","5","0","7","3","8","5","8","5","0","7","2","0","1","1","e","-","3","0","8">>,
    <<"9","0","0","7","1","9","9","2","5","4","7","4","0","9","9","3",".","0">>,
    <<"9","0","0","7","1","9","9","2","5","4","7","4","0","9","9","5",".","0">>,
    <<"9","0","0","7","1","9","9","2","5","4","7","4","0","9","9","3",".","0","0","0","0","0","0","0","0","0","0","0","1">>,
    <<"1",".","0","0","0","0","0","0","0","0","0","0","0","0","0","0","0","1","1","1","0","2","2","3","0","2","4","6","2","5","1","5","6","5","4","0","4","2","3","6","3","1","6","6","8","0","9","0","8","2","0","3","1","2","5">>,
    <<"1","2","3","4","5","6","7","8","9","0","1","2","3","4","5","6","7","8","9","0","1","2","3","4","5","6","7","8","9","0",".","0">>,
    <<"1","_","0","0","0",".","0","0","_","1","e","+","1","_","0">>,
    <<"0","x","1","p","-","1","0","7","4">>,
    <<"0","x","1","p","-","1","0","7","5">>,
    <<"0","x","1",".","8","p","-","1","0","7","5">>,
    <<"0","x","1",".","f","f","f","f","f","f","f","f","f","f","f","f","f","p","1","0","2","3">>,
    <<"0","x","1",".","f","f","f","f","f","f","f","f","f","f","f","f","f","7","p","1","0","2","3">>,
    <<"0","x","1",".","0","0","0","0","0","0","0","0","0","0","0","0","0","8","p","0">>,
    <<"0","x","1",".","0","0","0","0","0","0","0","0","0","0","0","0","1","8","p","0">>,
    <<"0","X","1",".","F","p","+","1","0">>,
    <<"0","x","_","1","_","0",".","8","p","0","1">>,
    <<"1","e","+","0","0">>,
    <<"0","0",".","5">>,
    <<"0","9",".","5">>,
    <<"0","9","e","1">>,
    <<"1",".","e","+","0">>,
    <<".","0","e","-","0">>,
    \* imaginary
    <<"0","1","2","3","i">>,
    <<"0","8","i">>,
    <<"0","9","_","0","i">>,
    <<"0","o","1","7","i">>,
    <<"0","b","1","1","i">>,
    <<"0","x","1","f","i">>,
    <<"0","x","1","p","-","2","i">>,
    <<"1",".","5","e","3","i">>,
    <<"1","e","3","0","8","i">>,
    <<"0",".","i">>,
    <<".","5","i">>,
    <<"0","1","7","7","i">>,
    <<"1","_","0","i">>,
    <<"0","i">>
}

-----------------------------------------------------------------------------
(* rune / string bodies: catalogue of elements *)

PlainCommon == {<<"a">>, <<" ">>, <<"0">>, <<"`">>, <<"$">>, <<"%">>, <<"{">>, <<"/">>, <<";">>, <<"<TAB>">>,
                <<"<U+E9>">>, <<"<U+7FF>">>, <<"<U+4E16>">>, <<"<U+1F600>">>, <<"<U+10FFFF>">>}
EscSimple == {<<"\\", x>> : x \in DOMAIN Simple}
EscOct == {<<"\\","0","0","0">>, <<"\\","0","0","7">>, <<"\\","1","0","1">>, <<"\\","3","7","7">>}
EscHex == {<<"\\","x","0","0">>, <<"\\","x","4","1">>, <<"\\","x","7","f">>, <<"\\","x","8","0">>,
           <<"\\","x","f","f">>, <<"\\","x","F","F">>, <<"\\","x","e","9">>}
EscU4  == {<<"\\","u","0","0","4","1">>, <<"\\","u","0","0","e","9">>, <<"\\","u","0","7","f","f">>,
           <<"\\","u","0","8","0","0">>, <<"\\","u","4","e","1","6">>, <<"\\","u","4","E","1","6">>,
           <<"\\","u","d","7","f","f">>, <<"\\","u","e","0","0","0">>, <<"\\","u","f","f","f","f">>}
EscU8  == {<<"\\","U","0","0","0","0","0","0","4","1">>, <<"\\","U","0","0","0","1","f","6","0","0">>,
           <<"\\","U","0","0","0","1","F","6","0","0">>, <<"\\","U","0","0","1","0","f","f","f","f">>,
           <<"\\","U","0","0","0","0","d","7","f","f">>}
Escapes == EscSimple \cup EscOct \cup EscHex \cup EscU4 \cup EscU8

RuneElems   == PlainCommon \cup {<<"\"">>, <<"\\", "'">>} \cup Escapes
StringElems == PlainCommon \cup {<<"'">>, <<"\\", "\"">>, <<"/", "/">>, <<"/", "*">>} \cup Escapes

Wrap(q, B) == {<<q>> \o b \o <<q>> : b \in B}

GenRunes == Wrap("'", RuneElems)

A1 == {<<"a">>}
GenStrings ==
    Wrap("\"", {<<>>} \cup StringElems \cup Cat(A1, StringElems) \cup Cat(StringElems, A1) \cup Cat(Cat(A1, StringElems), A1)
               \cup (IF StrMode = "full" THEN Cat(StringElems, StringElems) ELSE Cat(Escapes, {<<"\\", "n">>, <<"<U+E9>">>, <<"\\", "x", "f", "f">>})))

RawElems == {<<"a">>, <<" ">>, <<"\\">>, <<"\"">>, <<"'">>, <<"$">>, <<"%">>, <<"{">>, <<"/">>, <<";">>,
             <<"<TAB>">>, <<"<LF>">>, <<"<CR>">>, <<"<U+E9>">>, <<"<U+4E16>">>, <<"<U+1F600>">>, <<"\\", "n">>, <<"/", "/">>}
RawCore == {<<"a">>, <<" ">>, <<"<LF>">>, <<"<CR>">>, <<"<TAB>">>, <<"\\">>}
RawMore == RawCore \cup {<<"\"">>, <<"<U+E9>">>, <<"/", "/">>}
GenRaws ==
    Wrap("`", {<<>>} \cup RawElems \cup Cat(RawElems, RawElems)
              \cup (IF StrMode = "full" THEN Cat(Cat(RawMore, RawMore), RawMore) ELSE Cat(Cat(RawCore, RawCore), RawCore)))

-----------------------------------------------------------------------------
AllLits == GenNumbers \cup Boundary \cup GenRunes \cup GenStrings \cup GenRaws

(* the spellings every run uses (the quick tier samples the others) *)
CoreLits == Boundary \cup GenRunes \cup Wrap("\"", StringElems) \cup Wrap("`", RawElems)

Case(s) == LET a == An(s) IN
           [lit |-> s, kind |-> a.k, ctx |-> DomCtx(a),
            grp |-> IF s \in CoreLits THEN "core" ELSE "derived"]

(* the empty spelling is the start state; every literal is one step away, so that all the *)
(* evaluation happens in TLC worker threads (run with a large -Xss: BigNat recursion is deep) *)
(* buckets <<"#", k>> in between only spread the literals over the workers *)
Buckets == {"0", "1", "2", "3", "4", "5", "6", "7"}
BucketOf(s) == Ascii[17 + ((Len(s) + Ord[s[(Len(s) + 1) \div 2]]) % 8)]
IsLitState == cur # <<>> /\ cur[1] # "#"
Init == cur = <<>>
Next == \/ cur = <<>> /\ \E k \in Buckets : cur' = <<"#", k>>
        \/ Len(cur) = 2 /\ cur[1] = "#" /\ cur' \in {s \in AllLits : BucketOf(s) = cur[2]}
Spec == Init /\ [][Next]_cur

(* every derived spelling is accepted by the recogniser, by the intended production *)
Derived == ~IsLitState \/
           /\ (cur \in GenInt => Kind(cur) = "int")
           /\ (cur \in GenFloat => Kind(cur) = "float")
           /\ (cur \in GenImag => Kind(cur) = "imag")
           /\ (cur \in GenRunes => Kind(cur) = "rune")
           /\ (cur \in GenStrings => Kind(cur) = "string")
           /\ (cur \in GenRaws => Kind(cur) = "raw")
           /\ Kind(cur) # "none"

Emit == ~IsLitState \/ PrintT(ToJson(Case(cur)))
=============================================================================

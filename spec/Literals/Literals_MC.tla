----------------------------- MODULE Literals_MC -----------------------------
(* Exhaustive design check of the Literals grammar at a small bound:          *)
(* over ALL strings of length <= L over Sigma,                                *)
(*   - the production-by-production derivation (Literals_Gen) and the         *)
(*     recognisers (Literals) define the same language, production by         *)
(*     production, and the productions are pairwise disjoint;                 *)
(*   - the integer denotation round-trips through its own radix;              *)
(*   - digit separators never change a value.                                 *)
EXTENDS Literals_Gen

(* every string over Sigma of length <= L is a state (grown one character at a time, so workers share the work) *)
MCInit == cur = <<>>
MCNext == Len(cur) < L /\ \E x \in Sigma : cur' = Append(cur, x)
MCSpec == MCInit /\ [][MCNext]_cur

GrammarAgree == /\ (cur \in GenInt) = IntLit(cur)
                /\ (cur \in GenFloat) = FloatLit(cur)
                /\ (cur \in GenImag) = ImaginaryLit(cur)

Disjoint == Cardinality({p \in {"i", "f", "c"} :
                \/ (p = "i" /\ IntLit(cur)) \/ (p = "f" /\ FloatLit(cur)) \/ (p = "c" /\ ImaginaryLit(cur))}) <= 1

RECURSIVE DropZeros(_)
DropZeros(ds) == IF ds # <<>> /\ ds[1] = 0 THEN DropZeros(Tail(ds)) ELSE ds

IntRoundTrip ==
    IntLit(cur) =>
        LET f == IntForm(cur)
            t == NoUS(cur)
            base == CASE f = "hex" -> 16 [] f = "bin" -> 2 [] f \in {"oct", "legoct"} -> 8 [] OTHER -> 10
            ds == CASE f \in {"hex", "bin", "oct"} -> From(t, 3) [] f = "legoct" -> Tail(t) [] OTHER -> t
        IN BNIsNat(IntValue(cur)) /\ BNDigits(IntValue(cur), base) = DropZeros(Vals(ds))

SeparatorsIgnored ==
    /\ (IntLit(cur) => (IntLit(NoUS(cur)) /\ IntValue(NoUS(cur)) = IntValue(cur)))
    /\ (FloatLit(cur) => (FloatLit(NoUS(cur)) /\ FloatValue(NoUS(cur)) = FloatValue(cur)))

(* a float literal that is an integer < 2^53 denotes exactly that float64 (Nearest accepts it and not its neighbour) *)
SmallIntegerFloats ==
    (FloatLit(cur) /\ FloatValue(cur).p10 >= 0 /\ FloatValue(cur).p10 <= 3 /\ FloatValue(cur).p2 = 0 /\ FloatValue(cur).n # <<>>) =>
        LET v == FloatValue(cur)
            x == BNMul(v.n, BNPow10(v.p10))            \* < 10^(L+3)
        IN \* x = x * 2^0 ; written with a 53-bit mantissa: x * 2^k * 2^-k
           \E k \in 0..52 : LET m == BNMul(x, BNPow2(k)) IN
               /\ BNLe(Two52, m) /\ BNLt(m, Two53)
               /\ Nearest(v, m, 0 - k)
               /\ ~Nearest(v, BNAdd(m, <<1>>), 0 - k)
               /\ ~Nearest(v, BNSub(m, <<1>>), 0 - k)

(* negative control: a recogniser without the separator after a radix prefix must disagree *)
IntLitNoPrefixUS(s) ==
    \/ DecimalLit(s)
    \/ (HasPrefix(s, {"b", "B"}) /\ Digits(From(s, 3), BinD))
    \/ (HasPrefix(s, {"o", "O"}) /\ Digits(From(s, 3), OctD))
    \/ (Len(s) >= 2 /\ s[1] = "0" /\ Digits(Tail(s), OctD))
    \/ (HasPrefix(s, {"x", "X"}) /\ Digits(From(s, 3), HexD))
AgreeBroken == (cur \in GenInt) = IntLitNoPrefixUS(cur)
=============================================================================

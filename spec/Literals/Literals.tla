------------------------------ MODULE Literals ------------------------------
(* C06 - literal values agree with Go.                                       *)
(*                                                                           *)
(* The lexical grammar of the Go specification ("Integer literals",          *)
(* "Floating-point literals", "Imaginary literals", "Rune literals",         *)
(* "String literals") written as recognisers over a spelling, and the value  *)
(* each accepted spelling denotes.                                           *)
(*                                                                           *)
(* A spelling is a sequence of ATOMS.  An atom is a one-character string for *)
(* printable ASCII ("0", "x", "\\", ...) or a name "<LF>", "<U+E9>" ... for  *)
(* the few other characters used (table Named).  TLC cannot look inside a    *)
(* string, hence the sequence.                                               *)
(*                                                                           *)
(* Values:  integers and runes - a BigNat;  floats - N * 10^p10 * 2^p2 with  *)
(* N a BigNat (the exact rational the literal denotes);  strings - the byte  *)
(* sequence.  Whether a float64 m*2^e is the correctly rounded value of such *)
(* a rational is decided exactly (Nearest) with BigNat arithmetic, so there  *)
(* is no limit on the number of significant digits.                          *)
EXTENDS Integers, Sequences, FiniteSets, TLC, BigNat

-----------------------------------------------------------------------------
(* characters *)

Ascii == <<
    " ", "!", "\"", "#", "$", "%", "&", "'", "(", ")", "*", "+", ",", "-", ".", "/",
    "0", "1", "2", "3", "4", "5", "6", "7", "8", "9", ":", ";", "<", "=", ">", "?",
    "@", "A", "B", "C", "D", "E", "F", "G", "H", "I", "J", "K", "L", "M", "N", "O",
    "P", "Q", "R", "S", "T", "U", "V", "W", "X", "Y", "Z", "[", "\\", "]", "^", "_",
    "`", "a", "b", "c", "d", "e", "f", "g", "h", "i", "j", "k", "l", "m", "n", "o",
    "p", "q", "r", "s", "t", "u", "v", "w", "x", "y", "z", "{", "|", "}", "~" >>

Named == [a \in {"<TAB>", "<LF>", "<CR>", "<U+E9>", "<U+7FF>", "<U+4E16>", "<U+1F600>", "<U+10FFFF>"} |->
            CASE a = "<TAB>" -> 9 [] a = "<LF>" -> 10 [] a = "<CR>" -> 13
              [] a = "<U+E9>" -> 233 [] a = "<U+7FF>" -> 2047 [] a = "<U+4E16>" -> 19990
              [] a = "<U+1F600>" -> 128512 [] a = "<U+10FFFF>" -> 1114111]

AsciiSet == {Ascii[i] : i \in 1..Len(Ascii)}
Atoms    == AsciiSet \cup DOMAIN Named
Ord      == [a \in Atoms |-> IF a \in DOMAIN Named THEN Named[a]
                             ELSE 31 + (CHOOSE i \in 1..Len(Ascii) : Ascii[i] = a)]

DecD == {"0", "1", "2", "3", "4", "5", "6", "7", "8", "9"}
OctD == {"0", "1", "2", "3", "4", "5", "6", "7"}
BinD == {"0", "1"}
HexD == DecD \cup {"a", "b", "c", "d", "e", "f", "A", "B", "C", "D", "E", "F"}

DigVal == [c \in HexD |->
    CASE c \in DecD -> Ord[c] - 48
      [] c \in {"a", "b", "c", "d", "e", "f"} -> Ord[c] - 87
      [] OTHER -> Ord[c] - 55]

-----------------------------------------------------------------------------
(* sequence helpers *)

Sub(s, a, b) == IF a > b THEN <<>> ELSE SubSeq(s, a, b)
From(s, a)   == Sub(s, a, Len(s))
Front(s)     == Sub(s, 1, Len(s) - 1)
Last(s)      == s[Len(s)]
NoUS(s)      == SelectSeq(s, LAMBDA c : c # "_")
FirstIn(s, S) == IF \E i \in 1..Len(s) : s[i] \in S
                 THEN CHOOSE i \in 1..Len(s) : s[i] \in S /\ \A j \in 1..(i - 1) : s[j] \notin S
                 ELSE 0
Vals(s) == [i \in 1..Len(s) |-> DigVal[s[i]]]

-----------------------------------------------------------------------------
(* number grammar:  recognisers, named after the productions *)

(* digits = digit { [ "_" ] digit } *)
Digits(s, D) == /\ s # <<>>
                /\ s[1] \in D /\ s[Len(s)] \in D
                /\ \A i \in 1..Len(s) : s[i] \in D \cup {"_"}
                /\ \A i \in 1..(Len(s) - 1) : ~(s[i] = "_" /\ s[i + 1] = "_")
(* [ "_" ] digits *)
UDigits(s, D) == Digits(s, D) \/ (Len(s) > 1 /\ s[1] = "_" /\ Digits(Tail(s), D))

HasPrefix(s, L) == Len(s) >= 2 /\ s[1] = "0" /\ s[2] \in L

DecimalLit(s) == s = <<"0">> \/ (s # <<>> /\ s[1] \in (DecD \ {"0"}) /\ Digits(s, DecD))
BinaryLit(s)  == HasPrefix(s, {"b", "B"}) /\ UDigits(From(s, 3), BinD)
OctalLit(s)   == \/ HasPrefix(s, {"o", "O"}) /\ UDigits(From(s, 3), OctD)
                 \/ Len(s) >= 2 /\ s[1] = "0" /\ UDigits(Tail(s), OctD)
HexLit(s)     == HasPrefix(s, {"x", "X"}) /\ UDigits(From(s, 3), HexD)
IntLit(s)     == DecimalLit(s) \/ BinaryLit(s) \/ OctalLit(s) \/ HexLit(s)

(* exponent = marker [ "+" | "-" ] decimal_digits   (s starts at the marker) *)
Exponent(s, M) == /\ Len(s) >= 2 /\ s[1] \in M
                  /\ LET r == IF s[2] \in {"+", "-"} THEN From(s, 3) ELSE Tail(s) IN Digits(r, DecD)

DecimalFloatLit(s) ==
    LET k == FirstIn(s, {"e", "E"})
        m == IF k = 0 THEN s ELSE Sub(s, 1, k - 1)
        x == IF k = 0 THEN <<>> ELSE From(s, k)
        j == FirstIn(m, {"."})
        l == Sub(m, 1, j - 1)
        r == From(m, j + 1)
    IN /\ (k = 0 \/ Exponent(x, {"e", "E"}))
       /\ IF j = 0 THEN k # 0 /\ Digits(m, DecD)                       \* decimal_digits decimal_exponent
          ELSE \/ Digits(l, DecD) /\ (r = <<>> \/ Digits(r, DecD))      \* decimal_digits "." [ decimal_digits ] [ exp ]
               \/ l = <<>> /\ Digits(r, DecD)                           \* "." decimal_digits [ exp ]

HexFloatLit(s) ==
    /\ HasPrefix(s, {"x", "X"})
    /\ LET t == From(s, 3)
           k == FirstIn(t, {"p", "P"})
           m == Sub(t, 1, k - 1)
           x == From(t, k)
           j == FirstIn(m, {"."})
           l == Sub(m, 1, j - 1)
           r == From(m, j + 1)
       IN /\ k # 0 /\ Exponent(x, {"p", "P"})
          /\ IF j = 0 THEN UDigits(m, HexD)                             \* [ "_" ] hex_digits
             ELSE \/ UDigits(l, HexD) /\ (r = <<>> \/ Digits(r, HexD))  \* [ "_" ] hex_digits "." [ hex_digits ]
                  \/ l = <<>> /\ Digits(r, HexD)                        \* "." hex_digits

FloatLit(s) == IF HasPrefix(s, {"x", "X"}) THEN HexFloatLit(s) ELSE DecimalFloatLit(s)

(* imaginary_lit = (decimal_digits | int_lit | float_lit) "i" *)
ImaginaryLit(s) == /\ Len(s) >= 2 /\ Last(s) = "i"
                   /\ LET f == Front(s) IN Digits(f, DecD) \/ IntLit(f) \/ FloatLit(f)

-----------------------------------------------------------------------------
(* rune and string grammar: a scanner over the body, shaped like the grammar *)

Simple == [c \in {"a", "b", "f", "n", "r", "t", "v", "\\"} |->
    CASE c = "a" -> 7 [] c = "b" -> 8 [] c = "f" -> 12 [] c = "n" -> 10
      [] c = "r" -> 13 [] c = "t" -> 9 [] c = "v" -> 11 [] c = "\\" -> 92]

AllIn(s, a, b, D) == b <= Len(s) /\ \A i \in a..b : s[i] \in D
RECURSIVE SmallHorner(_, _, _)
SmallHorner(ds, base, acc) == IF ds = <<>> THEN acc ELSE SmallHorner(Tail(ds), base, acc * base + ds[1])
SmallVal(s, a, b, base) == SmallHorner(Vals(Sub(s, a, b)), base, 0)
ValidCodePoint(v) == v <= 1114111 /\ ~(v >= 55296 /\ v <= 57343)

ScanBad == [ok |-> FALSE, el |-> <<>>]
Cons(e, rest) == IF rest.ok THEN [ok |-> TRUE, el |-> <<e>> \o rest.el] ELSE ScanBad

(* elements of a rune/interpreted-string body: [v |-> number, byte |-> is a byte_value].   *)
(* q is the delimiting quote: it may not appear raw and is the only quote escape allowed. *)
RECURSIVE Scan(_, _, _)
Scan(s, i, q) ==
    IF i > Len(s) THEN [ok |-> TRUE, el |-> <<>>]
    ELSE LET c == s[i] IN
      IF c # "\\" THEN
          IF c = q \/ c = "<LF>" \/ c \notin Atoms THEN ScanBad
          ELSE Cons([v |-> Ord[c], byte |-> FALSE], Scan(s, i + 1, q))
      ELSE IF i = Len(s) THEN ScanBad
      ELSE LET d == s[i + 1] IN
        CASE d \in DOMAIN Simple -> Cons([v |-> Simple[d], byte |-> FALSE], Scan(s, i + 2, q))
          [] d = q -> Cons([v |-> Ord[d], byte |-> FALSE], Scan(s, i + 2, q))
          [] d \in OctD ->
                IF AllIn(s, i + 1, i + 3, OctD) /\ SmallVal(s, i + 1, i + 3, 8) <= 255
                THEN Cons([v |-> SmallVal(s, i + 1, i + 3, 8), byte |-> TRUE], Scan(s, i + 4, q))
                ELSE ScanBad
          [] d = "x" ->
                IF AllIn(s, i + 2, i + 3, HexD)
                THEN Cons([v |-> SmallVal(s, i + 2, i + 3, 16), byte |-> TRUE], Scan(s, i + 4, q))
                ELSE ScanBad
          [] d = "u" ->
                IF AllIn(s, i + 2, i + 5, HexD) /\ ValidCodePoint(SmallVal(s, i + 2, i + 5, 16))
                THEN Cons([v |-> SmallVal(s, i + 2, i + 5, 16), byte |-> FALSE], Scan(s, i + 6, q))
                ELSE ScanBad
          [] d = "U" ->
                IF /\ AllIn(s, i + 2, i + 9, HexD) /\ s[i + 2] = "0" /\ s[i + 3] = "0"
                   /\ ValidCodePoint(SmallVal(s, i + 4, i + 9, 16))
                THEN Cons([v |-> SmallVal(s, i + 4, i + 9, 16), byte |-> FALSE], Scan(s, i + 10, q))
                ELSE ScanBad
          [] OTHER -> ScanBad

Quoted(s, q) == Len(s) >= 2 /\ s[1] = q /\ Last(s) = q
Body(s)      == Sub(s, 2, Len(s) - 1)

RuneLit(s)   == Quoted(s, "'") /\ LET r == Scan(Body(s), 1, "'") IN r.ok /\ Len(r.el) = 1
StringLit(s) == Quoted(s, "\"") /\ Scan(Body(s), 1, "\"").ok
RawLit(s)    == Quoted(s, "`") /\ \A i \in 2..(Len(s) - 1) : s[i] \in Atoms /\ s[i] # "`"

-----------------------------------------------------------------------------
(* which production accepts the spelling *)

Kind(s) == CASE s = <<>> -> "none"
             [] s[1] = "'" -> IF RuneLit(s) THEN "rune" ELSE "none"
             [] s[1] = "\"" -> IF StringLit(s) THEN "string" ELSE "none"
             [] s[1] = "`" -> IF RawLit(s) THEN "raw" ELSE "none"
             [] IntLit(s) -> "int"
             [] FloatLit(s) -> "float"
             [] ImaginaryLit(s) -> "imag"
             [] OTHER -> "none"

-----------------------------------------------------------------------------
(* denotation *)

IntForm(s) == CASE HexLit(s) -> "hex" [] BinaryLit(s) -> "bin"
                [] OctalLit(s) -> (IF s[2] \in {"o", "O"} THEN "oct" ELSE "legoct")
                [] OTHER -> "dec"

IntValue(s) ==
    LET t == NoUS(s) f == IntForm(s) IN
    CASE f = "hex" -> BNFromDigits(Vals(From(t, 3)), 16)
      [] f = "bin" -> BNFromDigits(Vals(From(t, 3)), 2)
      [] f = "oct" -> BNFromDigits(Vals(From(t, 3)), 8)
      [] f = "legoct" -> BNFromDigits(Vals(Tail(t)), 8)
      [] OTHER -> BNFromDigits(Vals(t), 10)

(* value of [ "+" | "-" ] decimal_digits, as a TLC integer (WF bounds its length) *)
SignedSmall(s) == IF s[1] = "-" THEN 0 - SmallHorner(Vals(Tail(s)), 10, 0)
                  ELSE IF s[1] = "+" THEN SmallHorner(Vals(Tail(s)), 10, 0)
                  ELSE SmallHorner(Vals(s), 10, 0)

(* [n, p10, p2] : the rational n * 10^p10 * 2^p2 *)
FloatValue(s) ==
    LET t == NoUS(s) IN
    IF HasPrefix(t, {"x", "X"}) THEN
        LET u == From(t, 3)
            k == FirstIn(u, {"p", "P"})
            m == Sub(u, 1, k - 1)
            j == FirstIn(m, {"."})
            l == IF j = 0 THEN m ELSE Sub(m, 1, j - 1)
            r == IF j = 0 THEN <<>> ELSE From(m, j + 1)
        IN [n |-> BNFromDigits(Vals(l \o r), 16), p10 |-> 0, p2 |-> SignedSmall(From(u, k + 1)) - 4 * Len(r)]
    ELSE
        LET k == FirstIn(t, {"e", "E"})
            m == IF k = 0 THEN t ELSE Sub(t, 1, k - 1)
            j == FirstIn(m, {"."})
            l == IF j = 0 THEN m ELSE Sub(m, 1, j - 1)
            r == IF j = 0 THEN <<>> ELSE From(m, j + 1)
            x == IF k = 0 THEN 0 ELSE SignedSmall(From(t, k + 1))
        IN [n |-> BNFromDigits(Vals(l \o r), 10), p10 |-> x - Len(r), p2 |-> 0]

ExpDigits(s) ==     \* number of digit characters in the exponent (0 when there is none)
    LET t == NoUS(s)
        u == IF HasPrefix(t, {"x", "X"}) THEN From(t, 3) ELSE t
        k == FirstIn(u, IF HasPrefix(t, {"x", "X"}) THEN {"p", "P"} ELSE {"e", "E"})
    IN IF k = 0 THEN 0 ELSE Len(SelectSeq(From(u, k + 1), LAMBDA c : c \in DecD))

(* imaginary part; "an integer part consisting entirely of decimal digits (and possibly *)
(* underscores) is considered a decimal integer, even if it starts with a leading 0"    *)
ImagValue(s) ==
    LET f == Front(s) IN
    IF Digits(f, DecD) THEN [n |-> BNFromDigits(Vals(NoUS(f)), 10), p10 |-> 0, p2 |-> 0]
    ELSE IF IntLit(f) THEN [n |-> IntValue(f), p10 |-> 0, p2 |-> 0]
    ELSE FloatValue(f)
ImagExpDigits(s) == LET f == Front(s) IN IF Digits(f, DecD) \/ IntLit(f) THEN 0 ELSE ExpDigits(f)

RuneValue(s) == Scan(Body(s), 1, "'").el[1].v

UTF8(v) == IF v < 128 THEN <<v>>
           ELSE IF v < 2048 THEN <<192 + (v \div 64), 128 + (v % 64)>>
           ELSE IF v < 65536 THEN <<224 + (v \div 4096), 128 + ((v \div 64) % 64), 128 + (v % 64)>>
           ELSE <<240 + (v \div 262144), 128 + ((v \div 4096) % 64), 128 + ((v \div 64) % 64), 128 + (v % 64)>>

RECURSIVE Flatten(_)
Flatten(ss) == IF ss = <<>> THEN <<>> ELSE ss[1] \o Flatten(Tail(ss))

StringValue(s) == LET el == Scan(Body(s), 1, "\"").el
                  IN Flatten([i \in 1..Len(el) |-> IF el[i].byte THEN <<el[i].v>> ELSE UTF8(el[i].v)])
(* "Carriage return characters ('\r') inside raw string literals are discarded" *)
RawValue(s) == LET b == SelectSeq(Body(s), LAMBDA c : c # "<CR>")
               IN Flatten([i \in 1..Len(b) |-> UTF8(Ord[b[i]])])

-----------------------------------------------------------------------------
(* float64:  is  m * 2^e  the correctly rounded (nearest, ties to even) value of v ? *)

Two52 == BNPow2(52)
Two53 == BNPow2(53)
MaxE  == 971
MinE  == 0 - 1074

Max(a, b) == IF a > b THEN a ELSE b

(* the form in which fmt's %b prints a finite float64 *)
CanonF64(m, e) == \/ e = MinE /\ BNLt(m, Two52)                              \* zero and subnormals
                  \/ e >= MinE /\ e <= MaxE /\ BNLe(Two52, m) /\ BNLt(m, Two53)

MEven(m) == m = <<>> \/ m[1] % 2 = 0

Nearest(v, m, e) ==
    LET s10 == Max(0 - v.p10, 0)
        s2  == Max(0 - v.p2, 0)
        A == BNMul(BNMul(v.n, BNPow10(Max(v.p10, 0))), BNPow2(Max(v.p2, 0) + Max(0 - e, 0)))
        G == BNMul(BNPow10(s10), BNPow2(Max(e, 0) + s2))
        B == BNMul(m, G)
        D2 == BNMulS(BNAbsDiff(A, B), 2)
        D4 == BNMulS(D2, 2)
    IN IF BNLe(B, A)
       THEN BNLt(D2, G) \/ (D2 = G /\ MEven(m))                       \* at or above m*2^e: half of the gap 2^e
       ELSE IF m = Two52 /\ e > MinE
            THEN BNLt(D4, G) \/ (D4 = G)                              \* below a power of two the gap is 2^(e-1)
            ELSE BNLt(D2, G) \/ (D2 = G /\ MEven(m))

(* does v round to a finite float64:  v < 2^1024 - 2^970 (strictly: the tie rounds to infinity) *)
(* (an operator with a parameter so that TLC does not evaluate it at start-up: it is needed for range-end spellings only) *)
MaxFiniteBound(unused) == BNMul(BNSub(BNPow2(54), <<1>>), BNPow2(970))
DigitCount(n) == IF n = <<>> THEN 0
                 ELSE 4 * (Len(n) - 1) + (IF n[Len(n)] >= 1000 THEN 4 ELSE IF n[Len(n)] >= 100 THEN 3
                                          ELSE IF n[Len(n)] >= 10 THEN 2 ELSE 1)
Finite(v) ==
    IF v.n = <<>> THEN TRUE
    ELSE IF v.p2 = 0 /\ DigitCount(v.n) + v.p10 <= 300 THEN TRUE
    ELSE IF v.p2 = 0 /\ DigitCount(v.n) + v.p10 > 310 THEN FALSE
    ELSE IF v.p10 = 0 /\ 4 * DigitCount(v.n) + v.p2 <= 1000 THEN TRUE
    ELSE IF v.p10 = 0 /\ 3 * (DigitCount(v.n) - 1) + v.p2 > 1030 THEN FALSE
    ELSE BNLt(BNMul(BNMul(v.n, BNPow10(Max(v.p10, 0))), BNPow2(Max(v.p2, 0))),
              BNMul(BNMul(MaxFiniteBound(0), BNPow10(Max(0 - v.p10, 0))), BNPow2(Max(0 - v.p2, 0))))

(* does v round to zero:  v <= 2^-1075  (cheap bounds first: 10^(d-1) <= n < 10^d for d = DigitCount(n)) *)
RoundsToZero(v) ==
    IF v.n = <<>> THEN TRUE
    ELSE IF v.p2 = 0 /\ DigitCount(v.n) + v.p10 >= 0 - 300 THEN FALSE
    ELSE IF v.p10 = 0 /\ 3 * (DigitCount(v.n) - 1) + v.p2 >= 0 - 1000 THEN FALSE
    ELSE Nearest(v, <<>>, MinE)

-----------------------------------------------------------------------------
(* contexts in which a literal is embedded, and the domain of the contract *)

Contexts == {"arg", "var", "paren", "neg"}

Two63 == BNPow2(63)

(* everything the contract needs to know about a spelling, computed once *)
An(s) ==
    LET k == Kind(s) IN
    [k |-> k,
     v |-> CASE k = "int" -> IntValue(s)
             [] k = "rune" -> BNFromInt(RuneValue(s))
             [] k = "float" -> FloatValue(s)
             [] k = "imag" -> ImagValue(s)
             [] k = "string" -> StringValue(s)
             [] k = "raw" -> RawValue(s)
             [] OTHER -> <<>>,
     xd |-> CASE k = "float" -> ExpDigits(s) [] k = "imag" -> ImagExpDigits(s) [] OTHER -> 0]

(* the contexts in which the case is a legal Go program whose output the property speaks about *)
DomCtx(a) ==
    CASE a.k = "int"   -> IF BNLt(a.v, Two63) THEN Contexts ELSE IF a.v = Two63 THEN {"neg"} ELSE {}
      [] a.k = "rune"  -> Contexts
      [] a.k = "float" -> IF a.xd <= 4 /\ Finite(a.v)
                          \* -x for an x that rounds to 0 is about constant arithmetic (Go has no negative zero constant)
                          THEN (IF RoundsToZero(a.v) THEN Contexts \ {"neg"} ELSE Contexts)
                          ELSE {}
      [] a.k = "imag"  -> IF a.xd <= 4 /\ Finite(a.v) THEN Contexts \ {"neg"} ELSE {}
      [] a.k \in {"string", "raw"} -> Contexts \ {"neg"}
      [] OTHER -> {}

WF(s, ctx) == ctx \in DomCtx(An(s))

-----------------------------------------------------------------------------
(* the contract: what a run printed for the case *)
(*   st    "ok" (a line was printed and parsed) | "error" (compile/run error) | "garbled"     *)
(*   ty    the %T text                                                                          *)
(*   neg, digs            %d :  sign and decimal digits          (int, rune)                    *)
(*   neg, digs, exp       %b :  sign, mantissa digits, exponent  (float; imag: real part)       *)
(*   neg2, digs2, exp2    %b of the imaginary part               (imag)                         *)
(*   bytes                %x :  the bytes                        (string, raw)                  *)

IntTypes == {"int", "int8", "int16", "int32", "int64", "uint", "uint8", "uint16", "uint32", "uint64", "byte", "rune"}

DecChars(ds) == ds # <<>> /\ \A i \in 1..Len(ds) : ds[i] \in DecD
Num(ds) == BNFromDigits(Vals(ds), 10)

FloatOK(v, wantNeg, neg, digs, exp) ==
    /\ DecChars(digs) /\ neg = wantNeg
    /\ LET m == Num(digs) IN CanonF64(m, exp) /\ Nearest(v, m, exp)

PostA(a, ctx, o) ==
    LET k == a.k IN
    /\ o.st = "ok"
    /\ CASE k \in {"int", "rune"} ->
              /\ o.ty \in IntTypes /\ DecChars(o.digs) /\ Num(o.digs) = a.v
              /\ o.neg = (ctx = "neg" /\ a.v # <<>>)
         [] k = "float" -> o.ty = "float64" /\ FloatOK(a.v, ctx = "neg", o.neg, o.digs, o.exp)
         [] k = "imag" -> /\ o.ty = "complex128"
                          /\ o.digs = <<"0">> /\ o.exp = MinE /\ o.neg = FALSE
                          /\ FloatOK(a.v, FALSE, o.neg2, o.digs2, o.exp2)
         [] k \in {"string", "raw"} -> o.ty = "string" /\ o.bytes = a.v
         [] OTHER -> FALSE

Post(s, ctx, o) == PostA(An(s), ctx, o)

-----------------------------------------------------------------------------
(* abstract identity of a case (class of spelling x context), for findings *)

USClass(s) == IF \A i \in 1..Len(s) : s[i] # "_" THEN "plain"
              ELSE IF Len(s) >= 3 /\ s[3] = "_" /\ s[1] = "0" /\ s[2] \notin DecD THEN "us-after-prefix"
              ELSE IF Len(s) >= 2 /\ s[1] = "0" /\ s[2] = "_" THEN "us-after-0"
              ELSE "us"
Upper(s) == IF \E i \in 1..Len(s) : s[i] \in {"X", "O", "B", "E", "P"} THEN "upper" ELSE "lower"

IntSize(v) == IF BNLt(v, BNPow2(31)) THEN "lt2^31" ELSE IF BNLt(v, Two63) THEN "lt2^63" ELSE "eq2^63"

MantShape(s) ==     \* shape of a float spelling: mantissa form and exponent form
    LET t == NoUS(s)
        hex == HasPrefix(t, {"x", "X"})
        u == IF hex THEN From(t, 3) ELSE t
        k == FirstIn(u, IF hex THEN {"p", "P"} ELSE {"e", "E"})
        m == IF k = 0 THEN u ELSE Sub(u, 1, k - 1)
        j == FirstIn(m, {"."})
        ms == IF j = 0 THEN "d" ELSE IF j = 1 THEN ".d" ELSE IF j = Len(m) THEN "d." ELSE "d.d"
        xs == IF k = 0 THEN "" ELSE IF u[k + 1] = "+" THEN "e+" ELSE IF u[k + 1] = "-" THEN "e-" ELSE "e"
    IN (IF hex THEN "hex:" ELSE "dec:") \o ms \o xs

ElemClass(s, i) ==      \* class of the body element starting at i, and its length
    IF s[i] # "\\" THEN
        [c |-> IF s[i] \in DOMAIN Named THEN s[i]
               ELSE IF s[i] \in {"`", "'", "\"", "$", "%", "{", "/", ";"} THEN "char:" \o s[i] ELSE "char", n |-> 1]
    ELSE LET d == s[i + 1] IN
        CASE d \in OctD -> [c |-> "\\ooo", n |-> 4]
          [] d = "x" -> [c |-> "\\x", n |-> 4]
          [] d = "u" -> [c |-> "\\u", n |-> 6]
          [] d = "U" -> [c |-> "\\U", n |-> 10]
          [] OTHER -> [c |-> "\\" \o d, n |-> 2]

RECURSIVE ElemClasses(_, _)
ElemClasses(s, i) == IF i > Len(s) THEN {} ELSE LET e == ElemClass(s, i) IN {e.c} \cup ElemClasses(s, i + e.n)

(* [head, cls]: printed as head or head/c1+c2+.. (cls sorted) *)
Key(s, ctx) ==
    LET k == Kind(s) IN
    CASE k = "int" -> [head |-> "int/" \o IntForm(s) \o "/" \o USClass(s) \o "/" \o Upper(s) \o "/" \o IntSize(IntValue(s)) \o "/" \o ctx, cls |-> {}]
      [] k = "float" -> [head |-> "float/" \o MantShape(s) \o "/" \o USClass(s) \o "/" \o Upper(s) \o "/" \o ctx, cls |-> {}]
      [] k = "imag" -> [head |-> "imag/" \o (LET f == Front(s) IN
                           IF Digits(f, DecD) THEN (IF Len(f) > 1 /\ f[1] = "0" THEN "dec0" ELSE "dec")
                           ELSE IF IntLit(f) THEN IntForm(f) ELSE MantShape(f))
                       \o "/" \o USClass(s) \o "/" \o ctx, cls |-> {}]
      [] k \in {"rune", "string"} -> [head |-> k \o "/" \o ctx, cls |-> ElemClasses(Body(s), 1)]
      [] k = "raw" -> [head |-> k \o "/" \o ctx,
                      cls |-> {IF Body(s)[i] \in DOMAIN Named \/ Body(s)[i] \in {"\\", "'", "\"", "$", "%", "{", "/", ";"}
                               THEN Body(s)[i] ELSE "char" : i \in 1..Len(Body(s))}]
      [] OTHER -> [head |-> "none/" \o ctx, cls |-> {}]
=============================================================================

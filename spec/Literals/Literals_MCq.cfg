CONSTANTS
  Sigma = {"0", "1", "9", "b", "e", "_", ".", "+", "-", "x", "o", "p", "i"}
  L = 4
  LH = 4
  StrMode = "quick"
SPECIFICATION MCSpec
INVARIANTS GrammarAgree Disjoint IntRoundTrip SeparatorsIgnored SmallIntegerFloats
CHECK_DEADLOCK FALSE

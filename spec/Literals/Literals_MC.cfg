CONSTANTS
  Sigma = {"0", "1", "b", "e", "_", ".", "-", "x", "o", "p", "i"}
  L = 5
  LH = 5
  StrMode = "quick"
SPECIFICATION MCSpec
INVARIANTS GrammarAgree Disjoint IntRoundTrip SeparatorsIgnored SmallIntegerFloats
CHECK_DEADLOCK FALSE

------------------------------- MODULE BigNat -------------------------------
(* Arbitrary-size natural numbers for TLC (whose own integers are 32 bit).   *)
(* A number is the little-endian sequence of its base-10000 limbs with no    *)
(* high zero limb; zero is <<>>.  Equality of numbers is equality of tuples. *)
(* Every intermediate product is < 10^8 + 10^4, well inside TLC's integers.  *)
EXTENDS Integers, Sequences

BNBase == 10000
BNZero == <<>>

RECURSIVE BNFromInt(_)
BNFromInt(n) == IF n = 0 THEN <<>> ELSE <<n % BNBase>> \o BNFromInt(n \div BNBase)

RECURSIVE BNStrip(_)
BNStrip(x) == IF x = <<>> THEN x
              ELSE IF x[Len(x)] = 0 THEN BNStrip(SubSeq(x, 1, Len(x) - 1)) ELSE x

BNIsNat(x) == /\ \A i \in 1..Len(x) : x[i] \in 0..(BNBase - 1)
              /\ (x = <<>> \/ x[Len(x)] # 0)

(* x*k + c   for 0 <= k < BNBase, 0 <= c < 10^9 *)
RECURSIVE BNMulSA(_, _, _)
BNMulSA(x, k, c) ==
    IF x = <<>> THEN BNFromInt(c)
    ELSE LET t == x[1] * k + c IN <<t % BNBase>> \o BNMulSA(Tail(x), k, t \div BNBase)

BNMulS(x, k) == IF k = 0 THEN <<>> ELSE BNMulSA(x, k, 0)

RECURSIVE BNAddC(_, _, _)
BNAddC(x, y, c) ==
    IF x = <<>> /\ y = <<>> THEN (IF c = 0 THEN <<>> ELSE <<c>>)
    ELSE LET a  == IF x = <<>> THEN 0 ELSE x[1]
             b  == IF y = <<>> THEN 0 ELSE y[1]
             t  == a + b + c
             xt == IF x = <<>> THEN x ELSE Tail(x)
             yt == IF y = <<>> THEN y ELSE Tail(y)
         IN <<t % BNBase>> \o BNAddC(xt, yt, t \div BNBase)

BNAdd(x, y) == BNAddC(x, y, 0)

(* -1 / 0 / 1 *)
RECURSIVE BNCmpAt(_, _, _)
BNCmpAt(x, y, i) == IF i = 0 THEN 0
                    ELSE IF x[i] < y[i] THEN -1
                    ELSE IF x[i] > y[i] THEN 1
                    ELSE BNCmpAt(x, y, i - 1)
BNCmp(x, y) == IF Len(x) < Len(y) THEN -1
               ELSE IF Len(x) > Len(y) THEN 1
               ELSE BNCmpAt(x, y, Len(x))
BNLt(x, y) == BNCmp(x, y) = -1
BNLe(x, y) == BNCmp(x, y) # 1

(* x - y  for x >= y *)
RECURSIVE BNSubB(_, _, _)
BNSubB(x, y, b) ==
    IF x = <<>> THEN <<>>
    ELSE LET s  == IF y = <<>> THEN 0 ELSE y[1]
             t  == x[1] - s - b
             yt == IF y = <<>> THEN y ELSE Tail(y)
         IN IF t < 0 THEN <<t + BNBase>> \o BNSubB(Tail(x), yt, 1)
                     ELSE <<t>> \o BNSubB(Tail(x), yt, 0)
BNSub(x, y) == BNStrip(BNSubB(x, y, 0))

BNAbsDiff(x, y) == IF BNLt(x, y) THEN BNSub(y, x) ELSE BNSub(x, y)

BNShift(x, n) == IF x = <<>> THEN x ELSE [i \in 1..n |-> 0] \o x     \* x * BNBase^n

(* recursion over the limbs of the second operand: BNMul puts the shorter one there *)
RECURSIVE BNMulR(_, _)
BNMulR(x, y) == IF y = <<>> THEN <<>>
                ELSE BNAdd(BNMulS(x, y[1]), BNShift(BNMulR(x, Tail(y)), 1))
BNMul(x, y) == IF x = <<>> \/ y = <<>> THEN <<>>
               ELSE IF Len(x) < Len(y) THEN BNMulR(y, x) ELSE BNMulR(x, y)

RECURSIVE BNPow2(_)
BNPow2(n) == IF n < 13 THEN <<2 ^ n>> ELSE BNMulS(BNPow2(n - 13), 8192)

BNPow10(n) == BNShift(<<10 ^ (n % 4)>>, n \div 4)

(* quotient and remainder by a small k (0 < k < BNBase), most significant limb first *)
RECURSIVE BNDivAt(_, _, _, _)
BNDivAt(x, k, i, r) ==       \* returns <<quotient limbs i..1 (little endian), remainder>>
    IF i = 0 THEN [q |-> <<>>, r |-> r]
    ELSE LET t    == r * BNBase + x[i]
             rest == BNDivAt(x, k, i - 1, t % k)
         IN [q |-> rest.q \o <<t \div k>>, r |-> rest.r]
BNDivS(x, k) == LET d == BNDivAt(x, k, Len(x), 0) IN [q |-> BNStrip(d.q), r |-> d.r]

(* digits (values, most significant first) of x in a small base; <<>> for zero *)
RECURSIVE BNDigits(_, _)
BNDigits(x, base) == IF x = <<>> THEN <<>>
                     ELSE LET d == BNDivS(x, base) IN BNDigits(d.q, base) \o <<d.r>>

(* Horner: digit values (most significant first) in a small base *)
RECURSIVE BNHorner(_, _, _)
BNHorner(ds, base, acc) == IF ds = <<>> THEN acc
                           ELSE BNHorner(Tail(ds), base, BNMulSA(acc, base, ds[1]))
BNFromDigits(ds, base) == BNStrip(BNHorner(ds, base, <<>>))
=============================================================================

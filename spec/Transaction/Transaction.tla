----------------------------- MODULE Transaction -----------------------------
(* Code-shaped specification of the @transaction request handler of          *)
(* tucats/ego (internal/server/tables/scripting/handler.go Handler, with     *)
(* database.Begin/Commit/Rollback/Close of internal/server/tables/database). *)
(*                                                                            *)
(* One action per step of the handler that matters for C17:                   *)
(*   Decode -> Validate (opcode pass) -> Open -> Begin ->                     *)
(*   ( RunOp_i -> Cond_{i,j} )* -> Commit | Rollback | (as-is) no rollback    *)
(*   -> Close (deferred) -> done                                              *)
(* The request itself is composed nondeterministically first (AddOp/Submit)  *)
(* so that TLC enumerates / samples "all operation sequences x failure        *)
(* point".  Failures are NOT flags: they follow from the data, exactly as     *)
(* they are provoked on the real SQLite database by the binding:              *)
(*   insert of an existing key, update/delete/select/readrows with            *)
(*   emptyError and no matching row, drop / sql on a table that is gone,      *)
(*   symbols with a table name, a deferred FOREIGN KEY violation that only    *)
(*   COMMIT detects (commit failure), a DSN whose file cannot be opened       *)
(*   (begin failure), error conditions that are false / true / depend on      *)
(*   _rows_ / do not parse / do not evaluate.                                 *)
(*                                                                            *)
(* The little database: table t (rows id 1,2 -> v), table d (one counter row, *)
(* can be dropped), parent p (row 99 or not) and child k (row 1 -> p.99,      *)
(* DEFERRABLE INITIALLY DEFERRED).                                            *)
(*                                                                            *)
(* Impl = "asis"  : the handler as found: the exit after an error condition   *)
(*                  that fails to EVALUATE returns without Rollback (and the  *)
(*                  deferred Close skips a Database whose Transaction is set, *)
(*                  so the transaction stays open for the server's life);     *)
(*                  a failed Commit is answered with the last operation's     *)
(*                  status, i.e. 200.                                         *)
(* Impl = "fixed" : both exits roll back / report failure (the proposed fix). *)
EXTENDS Integers, Sequences, FiniteSets, TLC

CONSTANTS MaxLen,     \* longest request
          OpKinds,    \* operation kinds used (subset of AllKinds)
          CondKinds,  \* error-condition shapes used (subset of AllConds)
          Dsns,       \* subset of {"good", "nodir"}
          Prune,      \* TRUE: a request is only extended while everything so far would succeed
                      \*       (operations after the first failing one are never executed, so
                      \*       this drops only irrelevant suffixes)
          ForceClean, \* the first ForceClean operations are chosen so that they succeed
                      \*       (puts the failure point late: pending writes, then a failure)
          Impl

AllKinds == {"insert", "update", "delete", "select", "readrows", "symbols", "symbad",
             "drop", "sql", "sqlbad", "insertk", "insertp", "bogus"}
AllConds == {"none", "never", "always", "norows", "badparse", "badeval",
             "never+always", "never+badeval", "never+badparse", "never+never"}
ASSUME OpKinds \subseteq AllKinds /\ CondKinds \subseteq AllConds /\ Dsns \subseteq {"good", "nodir"}
ASSUME Impl \in {"asis", "fixed"} /\ Prune \in BOOLEAN /\ ForceClean \in Nat

Ids   == {1, 2}
NoRow == -1
(* t[i] = v of row i or NoRow; d = counter value or NoRow when the table is dropped *)
DB0 == [t |-> <<10, NoRow>>, d |-> 0, p |-> FALSE, k |-> FALSE]

Keyed == {"update", "delete", "select", "readrows"}
Alphabet ==
  {[op |-> o, id |-> i, ee |-> e, cond |-> c] :
       o \in Keyed \cap OpKinds, i \in Ids, e \in BOOLEAN, c \in CondKinds}
  \cup {[op |-> "insert", id |-> i, ee |-> FALSE, cond |-> c] :
       i \in IF "insert" \in OpKinds THEN Ids ELSE {}, c \in CondKinds}
  \cup {[op |-> o, id |-> 0, ee |-> FALSE, cond |-> c] :
       o \in (OpKinds \ (Keyed \cup {"insert"})), c \in CondKinds}

Conds(c) == CASE c = "none"           -> <<>>
              [] c = "never+always"   -> <<"never", "always">>
              [] c = "never+badeval"  -> <<"never", "badeval">>
              [] c = "never+badparse" -> <<"never", "badparse">>
              [] c = "never+never"    -> <<"never", "never">>
              [] OTHER                -> <<c>>

(* What one operation does to the database as the transaction sees it.       *)
(* A statement that fails changes nothing (SQLite statement atomicity).      *)
(* count is the value the handler binds to _rows_.                            *)
Res(db, n, e) == [db |-> db, count |-> n, err |-> e]
Effect(o, db) ==
  CASE o.op = "insert"   -> IF db.t[o.id] # NoRow THEN Res(db, 1, TRUE)
                            ELSE Res([db EXCEPT !.t[o.id] = 5], 1, FALSE)
    [] o.op = "update"   -> IF db.t[o.id] = NoRow THEN Res(db, 0, o.ee)
                            ELSE Res([db EXCEPT !.t[o.id] = 7], 1, FALSE)
    [] o.op = "delete"   -> IF db.t[o.id] = NoRow THEN Res(db, 0, o.ee)
                            ELSE Res([db EXCEPT !.t[o.id] = NoRow], 1, FALSE)
    [] o.op \in {"select", "readrows"}
                         -> IF db.t[o.id] = NoRow THEN Res(db, 0, o.ee) ELSE Res(db, 1, FALSE)
    [] o.op = "symbols"  -> Res(db, 0, FALSE)
    [] o.op = "symbad"   -> Res(db, 0, TRUE)
    [] o.op = "drop"     -> IF db.d = NoRow THEN Res(db, 0, TRUE) ELSE Res([db EXCEPT !.d = NoRow], 0, FALSE)
    [] o.op = "sql"      -> IF db.d = NoRow THEN Res(db, 0, TRUE) ELSE Res([db EXCEPT !.d = db.d + 1], 1, FALSE)
    [] o.op = "sqlbad"   -> Res(db, 0, TRUE)
    [] o.op = "insertk"  -> IF db.k THEN Res(db, 1, TRUE) ELSE Res([db EXCEPT !.k = TRUE], 1, FALSE)
    [] o.op = "insertp"  -> IF db.p THEN Res(db, 1, TRUE) ELSE Res([db EXCEPT !.p = TRUE], 1, FALSE)
    [] OTHER             -> Res(db, 0, TRUE)

FKViolated(db) == db.k /\ ~db.p      \* only COMMIT notices (deferred constraint)
CondTrue(c, n) == c = "always" \/ (c = "norows" /\ n = 0)

(* What applying a whole operation sequence means, independently of the handler's control     *)
(* flow: fold the operations over the initial database; ok only if no operation fails and no   *)
(* condition trips or is malformed.                                                            *)
RECURSIVE FoldSeq(_, _, _)
FoldSeq(s, n, acc) ==   \* acc = [db, ok]
  IF n > Len(s) THEN acc
  ELSE LET r  == Effect(s[n], acc.db)
           cs == Conds(s[n].cond)
           clean == \A m \in 1..Len(cs) : cs[m] = "never" \/ (cs[m] = "norows" /\ r.count # 0)
       IN FoldSeq(s, n + 1, [db |-> r.db, ok |-> acc.ok /\ ~r.err /\ clean /\ s[n].op # "bogus"])
RunAll(s) == FoldSeq(s, 1, [db |-> DB0, ok |-> TRUE])

VARIABLES req,     \* the request: sequence of operations
          dsn,     \* which DSN it is sent to
          pc, i, j,
          htx,     \* d.Transaction # nil  (what the handler believes)
          dbtx,    \* the database transaction: "none" | "open" | "committed" | "rolledback"
          work,    \* the database as seen inside the transaction
          disk,    \* the database as seen by every other connection
          count, operr,
          status,  \* "none" | "ok" (HTTP 200) | "fail" (anything else)
          opened, closed,  \* handle obtained / really closed by the deferred Close
          exit     \* which exit of the handler was taken (abstract identity of the case)

vars == <<req, dsn, pc, i, j, htx, dbtx, work, disk, count, operr, status, opened, closed, exit>>

Init == /\ req = <<>> /\ dsn = "good" /\ pc = "compose" /\ i = 0 /\ j = 0
        /\ htx = FALSE /\ dbtx = "none" /\ work = DB0 /\ disk = DB0
        /\ count = 0 /\ operr = FALSE /\ status = "none"
        /\ opened = FALSE /\ closed = FALSE /\ exit = "none"

(* ---- composing the request (the quantifier of C17) ---- *)
AddOp(o) == /\ pc = "compose" /\ Len(req) < MaxLen
            /\ Prune => RunAll(req).ok
            /\ Len(req) < ForceClean => RunAll(Append(req, o)).ok
            /\ req' = Append(req, o)
            /\ UNCHANGED <<dsn, pc, i, j, htx, dbtx, work, disk, count, operr, status, opened, closed, exit>>
Submit(dn) == /\ pc = "compose" /\ Len(req) >= ForceClean
              /\ dsn' = dn /\ pc' = "decode"
              /\ UNCHANGED <<req, i, j, htx, dbtx, work, disk, count, operr, status, opened, closed, exit>>

(* ---- the handler ---- *)
Decode == /\ pc = "decode"
          /\ IF Len(req) = 0
               THEN status' = "ok" /\ pc' = "done" /\ exit' = "empty"
               ELSE status' = status /\ pc' = "validate" /\ exit' = exit
          /\ UNCHANGED <<req, dsn, i, j, htx, dbtx, work, disk, count, operr, opened, closed>>

Validate == /\ pc = "validate"
            /\ IF \E n \in 1..Len(req) : req[n].op = "bogus"
                 THEN status' = "fail" /\ pc' = "done" /\ exit' = "invalid-opcode"
                 ELSE status' = status /\ pc' = "open" /\ exit' = exit
            /\ UNCHANGED <<req, dsn, i, j, htx, dbtx, work, disk, count, operr, opened, closed>>

Open == /\ pc = "open" /\ opened' = TRUE /\ pc' = "begin"
        /\ UNCHANGED <<req, dsn, i, j, htx, dbtx, work, disk, count, operr, status, closed, exit>>

BeginOK == /\ pc = "begin" /\ dsn = "good"
           /\ htx' = TRUE /\ dbtx' = "open" /\ work' = disk /\ i' = 1 /\ pc' = "op"
           /\ UNCHANGED <<req, dsn, j, disk, count, operr, status, opened, closed, exit>>
BeginFail == /\ pc = "begin" /\ dsn = "nodir"
             /\ status' = "fail" /\ exit' = "begin-fail" /\ pc' = "close"
             /\ UNCHANGED <<req, dsn, i, j, htx, dbtx, work, disk, count, operr, opened, closed>>

Advance == IF i < Len(req) THEN i' = i + 1 /\ pc' = "op" ELSE i' = i /\ pc' = "commit"

RunOp == /\ pc = "op"
         /\ LET r == Effect(req[i], work) IN
              /\ work' = r.db /\ count' = r.count /\ operr' = r.err
              /\ IF r.err THEN pc' = "rollback" /\ exit' = "op-error" /\ i' = i /\ j' = j
                 ELSE IF Conds(req[i].cond) # <<>> THEN pc' = "cond" /\ j' = 1 /\ i' = i /\ exit' = exit
                 ELSE Advance /\ j' = j /\ exit' = exit
         /\ UNCHANGED <<req, dsn, htx, dbtx, disk, status, opened, closed>>

Cond == /\ pc = "cond"
        /\ LET cs == Conds(req[i].cond)
               c  == cs[j] IN
             CASE c = "badparse" -> pc' = "rollback" /\ exit' = "cond-badparse" /\ i' = i /\ j' = j
               [] c = "badeval"  -> /\ exit' = "cond-badeval" /\ i' = i /\ j' = j
                                    /\ pc' = IF Impl = "asis" THEN "norollback" ELSE "rollback"
               [] CondTrue(c, count) -> pc' = "rollback" /\ exit' = "cond-true" /\ i' = i /\ j' = j
               [] OTHER -> IF j < Len(cs) THEN j' = j + 1 /\ pc' = "cond" /\ i' = i /\ exit' = exit
                           ELSE Advance /\ j' = j /\ exit' = exit
        /\ UNCHANGED <<req, dsn, htx, dbtx, work, disk, count, operr, status, opened, closed>>

(* database.Rollback: d.Transaction.Rollback(); d.Transaction = nil; then the error response *)
Rollback == /\ pc = "rollback" /\ htx /\ dbtx = "open"
            /\ dbtx' = "rolledback" /\ htx' = FALSE /\ work' = disk
            /\ status' = "fail" /\ pc' = "close"
            /\ UNCHANGED <<req, dsn, i, j, disk, count, operr, opened, closed, exit>>

(* as-is only: "Invalid error condition in task n" is returned with the transaction still open *)
NoRollback == /\ pc = "norollback"
              /\ status' = "fail" /\ pc' = "close"
              /\ UNCHANGED <<req, dsn, i, j, htx, dbtx, work, disk, count, operr, opened, closed, exit>>

CommitOK == /\ pc = "commit" /\ ~FKViolated(work)
            /\ dbtx' = "committed" /\ disk' = work /\ htx' = FALSE
            /\ status' = "ok" /\ exit' = "committed" /\ pc' = "close"
            /\ UNCHANGED <<req, dsn, i, j, work, count, operr, opened, closed>>

(* COMMIT fails: the sql.Tx is finished and the driver has rolled back.  As-is the handler     *)
(* answers with the last operation's status (200) and keeps d.Transaction; the statement of    *)
(* C17 does not say whether the now useless handle must be released, so "fixed" allows both.   *)
CommitFail == /\ pc = "commit" /\ FKViolated(work)
              /\ dbtx' = "rolledback" /\ work' = disk
              /\ htx' \in (IF Impl = "asis" THEN {TRUE} ELSE BOOLEAN)
              /\ status' = (IF Impl = "asis" THEN "ok" ELSE "fail")
              /\ exit' = "commit-fail" /\ pc' = "close"
              /\ UNCHANGED <<req, dsn, i, j, disk, count, operr, opened, closed>>

(* deferred db.Close(): does nothing while d.Transaction is set *)
Close == /\ pc = "close"
         /\ closed' = ~htx /\ pc' = "done"
         /\ UNCHANGED <<req, dsn, i, j, htx, dbtx, work, disk, count, operr, status, opened, exit>>

Handler == Decode \/ Validate \/ Open \/ BeginOK \/ BeginFail \/ RunOp \/ Cond
           \/ Rollback \/ NoRollback \/ CommitOK \/ CommitFail \/ Close
Compose == (\E o \in Alphabet : AddOp(o)) \/ (\E dn \in Dsns : Submit(dn))
Next == Compose \/ Handler
Spec == Init /\ [][Next]_vars /\ WF_vars(Next)

(* ---- the property ---- *)
Terminal == pc = "done"

(* what "every one of its operations applied" means: RunAll (above), computed independently of *)
(* the handler's control flow, plus: the result can be committed.                               *)
Whole == LET f == RunAll(req) IN [db |-> f.db, ok |-> f.ok /\ ~FKViolated(f.db)]

TypeOK == /\ pc \in {"compose", "decode", "validate", "open", "begin", "op", "cond", "rollback",
                     "norollback", "commit", "close", "done"}
          /\ dbtx \in {"none", "open", "committed", "rolledback"}
          /\ status \in {"none", "ok", "fail"} /\ htx \in BOOLEAN /\ Len(req) <= MaxLen

(* C17, first sentence: all and success, or nothing and failure *)
AllOrNothing == Terminal =>
                  \/ status = "ok"   /\ Whole.ok /\ disk = Whole.db
                  \/ status = "fail" /\ disk = DB0
(* C17, second sentence: by any path, no database transaction (hence no lock) stays open *)
NothingHeld  == Terminal => dbtx # "open"
(* the handler's own bookkeeping never disagrees with the database in the dangerous direction *)
Believes     == dbtx = "open" => htx
(* every request is answered *)
Answers      == <>(pc = "done")
=============================================================================

SPECIFICATION Spec
CONSTANTS
  MaxLen = 3
  OpKinds = {"insert", "update", "delete", "select", "readrows", "symbols", "symbad", "drop", "sql", "sqlbad", "insertk", "insertp"}
  CondKinds = {"none", "norows", "badeval"}
  Dsns = {"good"}
  Prune = TRUE
  ForceClean = 0
  Impl = "fixed"
INVARIANTS TypeOK AllOrNothing NothingHeld Believes
CHECK_DEADLOCK FALSE

SPECIFICATION TSpec
CONSTANTS
  MaxLen = 100
  OpKinds = {"insert", "update", "delete", "select", "readrows", "symbols", "symbad", "drop", "sql", "sqlbad", "insertk", "insertp", "bogus"}
  CondKinds = {"none", "never", "always", "norows", "badparse", "badeval", "never+always", "never+badeval", "never+badparse", "never+never"}
  Dsns = {"good", "nodir"}
  Prune = FALSE
  ForceClean = 0
  Impl = "fixed"
INVARIANTS AllOrNothing NothingHeld Believes
CONSTRAINT Reached
POSTCONDITION Accepted
CHECK_DEADLOCK FALSE

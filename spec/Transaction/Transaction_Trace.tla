-------------------------- MODULE Transaction_Trace --------------------------
(* Binding T: validates what REALLY happened during @transaction requests    *)
(* sent to a real ego server against the actions of Transaction.             *)
(* One recorded run = one request:                                            *)
(*   Req    (written by the driver: the request and the DSN kind)            *)
(*   begin / commit / rollback / close   (written by the verif hook inside    *)
(*          database.Begin/Commit/Rollback/Close, selected by session id)    *)
(*   Resp   (written by the driver: status class, the database contents read  *)
(*          from the SQLite file by another connection, whether a write lock  *)
(*          is still held)                                                    *)
(* Steps of the handler that do not touch the database object (decode,        *)
(* validate, running an operation, testing a condition) are not recorded:     *)
(* they are taken silently.  Every hook event must be explained by exactly    *)
(* the database action the specification takes at that point, with the same   *)
(* outcome; the Resp line must agree with the terminal state.  The property   *)
(* invariants are evaluated on every state of every validated run.            *)
EXTENDS Transaction, Json

VARIABLES l

TraceLog == ndJsonDeserialize("trace.ndjson")
N == Len(TraceLog)

TInit == TLCSet(42, 0) /\ Init /\ l = 1

Ev == TraceLog[l]
Is(e) == l <= N /\ Ev.ev = e
Step == l' = l + 1

(* a new run: forget the previous request (it must have been answered) *)
TReq == /\ Is("Req") /\ pc \in {"compose", "done"}
        /\ req' = Ev.req /\ dsn' = Ev.dsn /\ pc' = "decode" /\ i' = 0 /\ j' = 0
        /\ htx' = FALSE /\ dbtx' = "none" /\ work' = DB0 /\ disk' = DB0
        /\ count' = 0 /\ operr' = FALSE /\ status' = "none"
        /\ opened' = FALSE /\ closed' = FALSE /\ exit' = "none"
        /\ Step

Silent == (Decode \/ Validate \/ Open \/ RunOp \/ Cond \/ NoRollback) /\ l' = l

TBeginOK   == Is("begin")    /\ Ev.ok  /\ BeginOK   /\ Step
TBeginFail == Is("begin")    /\ ~Ev.ok /\ BeginFail /\ Step
TCommitOK  == Is("commit")   /\ Ev.ok  /\ CommitOK  /\ Step
TCommitFail == Is("commit")  /\ ~Ev.ok /\ CommitFail /\ Step
TRollback  == Is("rollback") /\ Ev.ok  /\ Rollback  /\ Step
TClose     == Is("close")    /\ Close /\ closed' = ~Ev.tx /\ Step

(* the answer and the observed world: status class and database contents must be the   *)
(* specification's; a write lock seen by another connection means a transaction is open *)
TResp == /\ Is("Resp") /\ pc = "done"
         /\ Ev.status = status
         /\ (Ev.observed => Ev.disk = disk)
         /\ (Ev.locked => dbtx = "open")
         /\ Step /\ UNCHANGED vars

TNext == TReq \/ Silent \/ TBeginOK \/ TBeginFail \/ TCommitOK \/ TCommitFail \/ TRollback \/ TClose \/ TResp
TSpec == TInit /\ [][TNext]_<<vars, l>>

Reached == TLCSet(42, IF TLCGet(42) < l THEN l ELSE TLCGet(42))
Accepted == /\ PrintT(<<"HIGHWATER", TLCGet(42), N + 1>>)
            /\ TLCGet(42) = N + 1
=============================================================================

--------------------------- MODULE Transaction_Gen ---------------------------
(* Behaviour generator for binding R.  Every complete behaviour of           *)
(* Transaction (a composed request run to "done") is printed as one JSON      *)
(* record: the request, the DSN, and what the specification says the world    *)
(* looks like after the response: status class, database contents seen by     *)
(* other connections, whether a transaction is still open, which exit was     *)
(* taken.  The check sends the request to a real ego server and compares the  *)
(* projected real state with these values for equality.                       *)
(* Exhaustive (BFS) for short requests; -simulate samples long ones (the      *)
(* invariant is evaluated on every generated successor, so every printed      *)
(* record is a complete legitimate behaviour).                                *)
EXTENDS Transaction, Json

Out == [req |-> req, dsn |-> dsn, status |-> status, disk |-> disk,
        held |-> (dbtx = "open"), exit |-> exit, dbtx |-> dbtx, len |-> Len(req)]
Emit == pc # "done" \/ PrintT(ToJson(Out))
=============================================================================

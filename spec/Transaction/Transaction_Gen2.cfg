SPECIFICATION Spec
CONSTANTS
  MaxLen = 2
  OpKinds = {"insert", "update", "delete", "select", "readrows", "symbols", "symbad", "drop", "sql", "sqlbad", "insertk", "insertp", "bogus"}
  CondKinds = {"none", "never", "always", "norows", "badparse", "badeval"}
  Dsns = {"good"}
  Prune = TRUE
  ForceClean = 0
  Impl = "fixed"
INVARIANTS Emit AllOrNothing NothingHeld
CHECK_DEADLOCK FALSE

SPECIFICATION Spec
CONSTANTS
  MaxLen = 1
  OpKinds = {"insert", "update", "delete", "select", "readrows", "symbols", "symbad", "drop", "sql", "sqlbad", "insertk", "insertp", "bogus"}
  CondKinds = {"none", "never", "always", "norows", "badparse", "badeval", "never+always", "never+badeval", "never+badparse", "never+never"}
  Dsns = {"good"}
  Prune = FALSE
  ForceClean = 0
  Impl = "fixed"
INVARIANTS Emit AllOrNothing NothingHeld
CHECK_DEADLOCK FALSE

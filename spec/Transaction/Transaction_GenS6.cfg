SPECIFICATION Spec
CONSTANTS
  MaxLen = 6
  OpKinds = {"insert", "update", "delete", "select", "readrows", "symbols", "symbad", "drop", "sql", "sqlbad", "insertk", "insertp"}
  CondKinds = {"none", "never", "always", "norows", "badparse", "badeval", "never+always", "never+badeval", "never+badparse", "never+never"}
  Dsns = {"good"}
  Prune = TRUE
  ForceClean = 5
  Impl = "fixed"
INVARIANTS Emit AllOrNothing NothingHeld
CHECK_DEADLOCK FALSE

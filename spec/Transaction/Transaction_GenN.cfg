SPECIFICATION Spec
CONSTANTS
  MaxLen = 1
  OpKinds = {"insert", "select", "symbols", "sql", "bogus"}
  CondKinds = {"none", "badeval"}
  Dsns = {"nodir"}
  Prune = FALSE
  ForceClean = 0
  Impl = "fixed"
INVARIANTS Emit AllOrNothing NothingHeld
CHECK_DEADLOCK FALSE

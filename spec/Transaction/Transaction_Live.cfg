SPECIFICATION Spec
CONSTANTS
  MaxLen = 2
  OpKinds = {"insert", "update", "delete", "select", "readrows", "symbols", "symbad", "drop", "sql", "sqlbad", "insertk", "insertp"}
  CondKinds = {"none", "norows", "badeval"}
  Dsns = {"good", "nodir"}
  Prune = TRUE
  ForceClean = 0
  Impl = "fixed"
PROPERTIES Answers
CHECK_DEADLOCK FALSE

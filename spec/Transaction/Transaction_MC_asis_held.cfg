SPECIFICATION Spec
CONSTANTS
  MaxLen = 1
  OpKinds = {"insert", "update", "delete", "select", "readrows", "symbols", "symbad", "drop", "sql", "sqlbad", "insertk", "insertp", "bogus"}
  CondKinds = {"none", "never", "always", "norows", "badparse", "badeval"}
  Dsns = {"good", "nodir"}
  Prune = FALSE
  ForceClean = 0
  Impl = "asis"
INVARIANTS TypeOK NothingHeld
CHECK_DEADLOCK FALSE

------------------------------ MODULE Gate_Gen ------------------------------
(* Generator for the binding: every builder-call sequence of length          *)
(* <= MaxCalls (each is a behaviour prefix of Gate: one line                 *)
(* [kind |-> "seq", calls]) and every request of the quantifier (one line    *)
(* [kind |-> "req", ...]).  The harness declares a real route with each      *)
(* sequence, reads back the real route record after every call, sends the    *)
(* requests through Router.ServeHTTP and logs what happened; Gate_Trace      *)
(* judges the log.                                                           *)
EXTENDS Gate, Json

GenNext == (\E c \in BuilderCalls : Build(c)) \/ (calls = <<>> /\ \E r \in Requests : Serve(r))
GenSpec == Init /\ [][GenNext]_vars

Emit == IF phase = "build"
        THEN PrintT(ToJson([kind |-> "seq", calls |-> calls]))
        ELSE PrintT(ToJson([kind |-> "req", form |-> req.form, method |-> req.method, sub |-> req.sub,
                            subperms |-> req.subperms, idperms |-> req.idperms]))
=============================================================================

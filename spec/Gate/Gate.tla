-------------------------------- MODULE Gate --------------------------------
(* C20 - state machine: a route is declared by a sequence of builder calls   *)
(* (any order, up to MaxCalls), then one request of any credential form by   *)
(* any user is served through the gate.  Property: the handler runs only if  *)
(* the request satisfies what the final route record declares.               *)
EXTENDS GateCore

CONSTANTS MaxCalls,    \* longest builder-call sequence
          Impl         \* "asis" (the gate as written) | "fixed" (repaired)

VARIABLES flags, calls, phase, req, out

vars == <<flags, calls, phase, req, out>>

(* ------------------------------------------------------------- the world *)
Users == {"u_none", "u_logon", "u_p", "u_q", "u_pq", "u_root"}
P == [u \in Users |->
        CASE u = "u_none"  -> {}
          [] u = "u_logon" -> {Logon}
          [] u = "u_p"     -> {Logon, "p"}
          [] u = "u_q"     -> {Logon, "q"}
          [] u = "u_pq"    -> {Logon, "p", "q"}
          [] u = "u_root"  -> {Logon, Root}]

PermArgs == {<<>>, <<"p">>, <<"q">>, <<"p", "q">>, <<Root>>}

BuilderCalls ==
     {[op |-> o, b |-> b, ps |-> <<>>] : o \in Ops \ {"Permissions"}, b \in BOOLEAN}
\cup {[op |-> "Permissions", b |-> FALSE, ps |-> ps] : ps \in PermArgs}

(* a verified JWT always carries at least logon (oauth/claims.go)             *)
JwtPerms(u) == IF P[u] = {} THEN {Logon} ELSE P[u]

Req(form, method, sub, sp, ip) == [form |-> form, method |-> method, sub |-> sub, subperms |-> sp, idperms |-> ip]

(* tokens/JWTs that are expired, tampered with or revoked belong to the users
   who hold the most, so that honouring one would show.  A dead native token
   costs the server an Argon2id key derivation per request: one owner (root). *)
Strong == {"u_pq", "u_root"}
TokenStrong == {"u_root"}

Requests ==
     {Req(f, m, "", {}, {}) : f \in {"none", "malformed", "badscheme"}, m \in Methods}
\cup {Req("basic_unknown", "GET", "nobody", {}, {})}
\cup {Req(f, "GET", u, P[u], P[u]) : f \in {"basic_wrong", "basic_right", "token_valid"}, u \in Users}
\cup {Req(f, "GET", u, P[u], P[u]) : f \in {"token_expired", "token_tampered", "token_revoked"}, u \in TokenStrong}
\cup {Req(f, "POST", u, P[u], P[u]) : f \in BodyForms, u \in Users}
\cup {Req("body_right", "GET", u, P[u], P[u]) : u \in Strong}
     \* a JWT names a subject and carries claims; the subject may also be a local user holding more or less
\cup {Req("jwt_valid", "GET", u, P[u], JwtPerms(u)) : u \in Users}
\cup {Req("jwt_valid", "GET", "u_root", P["u_root"], JwtPerms("u_logon")),
      Req("jwt_valid", "GET", "u_pq", P["u_pq"], JwtPerms("u_q")),
      Req("jwt_valid", "GET", "u_logon", P["u_logon"], JwtPerms("u_pq")),
      Req("jwt_valid", "GET", "u_logon", P["u_logon"], JwtPerms("u_root"))}
\cup {Req(f, "GET", u, P[u], JwtPerms(u)) : f \in {"jwt_badsig", "jwt_expired"}, u \in Strong}

NoReq == Req("none", "GET", "", {}, {})
NoOut == [invoked |-> FALSE, status |-> 0]

(* ----------------------------------------------------------------- steps *)
Init == flags = Flags0 /\ calls = <<>> /\ phase = "build" /\ req = NoReq /\ out = NoOut

Build(c) == /\ phase = "build" /\ Len(calls) < MaxCalls
            /\ flags' = Apply(flags, c)
            /\ calls' = Append(calls, c)
            /\ UNCHANGED <<phase, req, out>>

Serve(r) == /\ phase = "build"
            /\ phase' = "done" /\ req' = r
            /\ out' = Gate(flags, r, Impl)
            /\ UNCHANGED <<flags, calls>>

Next == (\E c \in BuilderCalls : Build(c)) \/ (\E r \in Requests : Serve(r))
Spec == Init /\ [][Next]_vars

View == <<flags, Len(calls), phase, req, out>>

(* ------------------------------------------------------------ properties *)
TypeOK == /\ flags.ma \in BOOLEAN /\ flags.lw \in BOOLEAN /\ flags.ca \in BOOLEAN /\ flags.cc \in BOOLEAN
          /\ flags.pnil \in BOOLEAN /\ flags.redir \in BOOLEAN /\ flags.ar \in BOOLEAN
          /\ phase \in {"build", "done"} /\ req.form \in Forms
          /\ out.status \in {0, 200, 307, 401, 403}

(* C20 *)
OnlyAuthorized == (phase = "done" /\ out.invoked) => Satisfies(flags, req)

(* the two halves, separately (diagnostics) *)
AuthWhenRequired == (phase = "done" /\ out.invoked /\ NeedsAuth(flags)) => Authentic(flags, req)
PermsWhenRequired == (phase = "done" /\ out.invoked /\ NeedsPerms(flags)) =>
                        /\ Authentic(flags, req)
                        /\ (Root \in IdPerms(flags, req) \/ Range(flags.perms) \subseteq IdPerms(flags, req))

(* facts about the builder the reading of "declared requirements" rests on *)
PermsImplyList == flags.pnil => flags.perms = <<>>
NoDuplicates == Cardinality(Range(flags.perms)) = Len(flags.perms)

(* non-vacuity witnesses (each must be VIOLATED = reachable) *)
NeverInvoked == ~(phase = "done" /\ out.invoked)
NeverInvokedWithPerms == ~(phase = "done" /\ out.invoked /\ NeedsPerms(flags) /\ NeedsAuth(flags))
=============================================================================

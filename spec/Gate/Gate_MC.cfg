SPECIFICATION Spec
CONSTANTS
  MaxCalls = 5
  Impl = "fixed"
INVARIANTS TypeOK OnlyAuthorized AuthWhenRequired PermsWhenRequired PermsImplyList NoDuplicates
VIEW View
CHECK_DEADLOCK FALSE

SPECIFICATION GenSpec
CONSTANTS
  MaxCalls = 3
  Impl = "asis"
INVARIANTS Emit
CHECK_DEADLOCK FALSE

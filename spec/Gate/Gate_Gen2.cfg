SPECIFICATION GenSpec
CONSTANTS
  MaxCalls = 2
  Impl = "asis"
INVARIANTS Emit
CHECK_DEADLOCK FALSE

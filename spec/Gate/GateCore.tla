------------------------------ MODULE GateCore ------------------------------
(* C20 - routes run only for authorized requests.                            *)
(*                                                                           *)
(* Pure definitions shared by the state machine (Gate), the generator        *)
(* (Gate_Gen) and the contract that judges what the real router did          *)
(* (Gate_Trace):                                                             *)
(*   - the route record and the assignment every builder call performs       *)
(*     (internal/router/router.go New/Authentication/Permissions/LightWeight/*)
(*     CanAuthenticate/Credentials/Redirect);                                *)
(*   - the credential forms and what Session.Authenticate leaves in the      *)
(*     session for each (internal/router/auth.go);                           *)
(*   - the gate of Router.ServeHTTP, conditional by conditional              *)
(*     (internal/router/serve.go), as it is ("asis") and repaired ("fixed"); *)
(*   - the statement: Satisfies(flags, request).                             *)
EXTENDS Integers, Sequences, FiniteSets, TLC

Root  == "ego.root"
Logon == "ego.logon"

Range(s) == {s[i] : i \in DOMAIN s}
Bool2S(b) == IF b THEN "T" ELSE "F"

(* ------------------------------------------------------------------ route *)
(* ma mustAuthenticate, ca canAuthenticate, lw lightweight, cc checkCredentials,
   ar allowRedirects, pnil requiredPermissions == nil, perms requiredPermissions
   (ordered, duplicates dropped, as the code keeps it), redir redirect != ""  *)
Flags0 == [ma |-> FALSE, ca |-> FALSE, lw |-> FALSE, cc |-> FALSE, ar |-> TRUE,
           pnil |-> TRUE, perms |-> <<>>, redir |-> FALSE]

RECURSIVE AddPerms(_, _)
AddPerms(have, more) ==
  IF more = <<>> THEN have
  ELSE AddPerms(IF Head(more) \in Range(have) THEN have ELSE Append(have, Head(more)), Tail(more))

(* one builder call: [op, b, ps] *)
Apply(f, c) ==
  CASE c.op = "Authentication"  -> [f EXCEPT !.ma = c.b, !.ar = ~c.b]
    [] c.op = "Permissions"     -> [f EXCEPT !.ma = TRUE, !.ar = FALSE, !.pnil = FALSE,
                                             !.perms = AddPerms(f.perms, c.ps)]
    [] c.op = "LightWeight"     -> [f EXCEPT !.lw = c.b, !.ma = ~c.b]
    [] c.op = "CanAuthenticate" -> [f EXCEPT !.ca = c.b]
    [] c.op = "Credentials"     -> [f EXCEPT !.cc = c.b]
    [] c.op = "Redirect"        -> [f EXCEPT !.redir = c.b]

Ops == {"Authentication", "Permissions", "LightWeight", "CanAuthenticate", "Credentials", "Redirect"}

(* ------------------------------------------------------------ credentials *)
(* A request: [form, method, sub, subperms, idperms]
     sub      the user name the credential names ("" when it names none)
     subperms the permissions the local user database holds for sub ({} if no such user)
     idperms  the permissions of the identity the credential proves when it is
              authentic (for a JWT: what its claims grant; otherwise subperms)  *)
DeadForms   == {"none", "malformed", "badscheme", "token_expired", "token_tampered", "token_revoked",
                "jwt_badsig", "jwt_expired"}
BasicForms  == {"basic_unknown", "basic_wrong", "basic_right"}
BodyForms   == {"body_wrong", "body_right"}
Forms       == DeadForms \cup BasicForms \cup BodyForms \cup {"token_valid", "jwt_valid"}
Methods     == {"GET", "POST"}

(* Body credentials are only looked at on a route declared Credentials(true), for
   PUT/POST, when there is no Authorization header (auth.go).                  *)
Effective(f, r) ==
  IF r.form \in BodyForms
  THEN IF f.cc /\ r.method \in {"POST", "PUT"}
       THEN (IF r.form = "body_right" THEN "basic_right" ELSE "basic_wrong")
       ELSE "none"
  ELSE r.form

NoSession == [auth |-> FALSE, user |-> "", admin |-> FALSE, resolved |-> {}]

(* what Session.Authenticate leaves behind (auth, User, Admin, Permissions)     *)
Session(f, r) ==
  LET e == Effective(f, r) IN
  IF f.lw THEN NoSession                                   \* lightweight: Authenticate is never called
  ELSE CASE e \in DeadForms -> NoSession
         [] e \in {"basic_unknown", "basic_wrong"} -> [NoSession EXCEPT !.user = r.sub]
         [] e = "basic_right" ->                           \* ValidatePassword also wants logon or root
              LET ok == (Root \in r.subperms \/ Logon \in r.subperms) IN
              [auth |-> ok, user |-> r.sub, admin |-> ok /\ Root \in r.subperms, resolved |-> {}]
         [] e = "token_valid" ->
              [auth |-> TRUE, user |-> r.sub, admin |-> Root \in r.subperms, resolved |-> r.subperms]
         [] e = "jwt_valid" ->
              [auth |-> TRUE, user |-> r.sub, admin |-> Root \in r.idperms, resolved |-> r.idperms]

(* --------------------------------------------------------------- the gate *)
(* permission loop of ServeHTTP: first missing permission, 0 if none is missing *)
RECURSIVE FirstMissing(_, _, _)
FirstMissing(perms, have, i) ==
  IF i > Len(perms) THEN 0
  ELSE IF perms[i] \in have THEN FirstMissing(perms, have, i + 1) ELSE i

Gate(f, r, impl) ==
  LET s == Session(f, r)
      \* GetPermission(session.User, p) reads the user database by NAME
      byname == IF s.user = r.sub THEN r.subperms ELSE {}
      have == IF s.resolved # {} THEN s.resolved ELSE byname
      held == IF impl = "fixed" /\ ~s.auth THEN {} ELSE have
      miss == IF f.pnil \/ s.admin THEN 0 ELSE FirstMissing(f.perms, held, 1)
  IN
  IF ~f.lw /\ ~s.auth /\ f.ma THEN [invoked |-> FALSE, status |-> 403]
  ELSE IF miss # 0 THEN [invoked |-> FALSE, status |-> IF s.user = "" /\ f.ca THEN 401 ELSE 403]
  ELSE IF f.redir THEN [invoked |-> FALSE, status |-> 307]
  ELSE IF f.ma /\ ~s.auth /\ f.ca THEN [invoked |-> FALSE, status |-> 401]
  ELSE [invoked |-> TRUE, status |-> 200]

(* ---------------------------------------------------------- the statement *)
(* Ground truth about the credential (the harness builds each form so that this
   is what it is): does the request prove an identity in a form this route
   accepts?  Chosen as weak as the statement allows: a right password counts
   even for an account the server refuses to log on.                          *)
Authentic(f, r) == Effective(f, r) \in {"basic_right", "token_valid", "jwt_valid"}

IdPerms(f, r) == IF Effective(f, r) = "jwt_valid" THEN r.idperms ELSE r.subperms

(* declared requirements = final flags (+ a lightweight route takes no authentication) *)
NeedsAuth(f)  == f.ma /\ ~f.lw
NeedsPerms(f) == Len(f.perms) > 0

Satisfies(f, r) ==
  /\ NeedsAuth(f) => Authentic(f, r)
  /\ NeedsPerms(f) => /\ Authentic(f, r)
                      /\ (Root \in IdPerms(f, r) \/ Range(f.perms) \subseteq IdPerms(f, r))

(* abstract identity of an unauthorized dispatch *)
ViolKey(f, r) ==
  "handler-reached/" \o (IF ~Authentic(f, r) THEN "unauthenticated" ELSE "missing-permission")
  \o "/" \o Effective(f, r)
  \o "/ma=" \o Bool2S(f.ma) \o ",lw=" \o Bool2S(f.lw) \o ",perms=" \o Bool2S(NeedsPerms(f))
  \* what the user NAMED by the credential holds in the local database (whose rights leaked, if any)
  \o "/named-holds=" \o Bool2S(r.sub # "" /\ NeedsPerms(f) /\ Range(f.perms) \subseteq r.subperms)
  \o ",named-root=" \o Bool2S(Root \in r.subperms)
=============================================================================

SPECIFICATION Spec
CONSTANTS
  MaxCalls = 3
  Impl = "asis"
INVARIANTS TypeOK OnlyAuthorized AuthWhenRequired PermsWhenRequired PermsImplyList NoDuplicates
VIEW View
CHECK_DEADLOCK FALSE

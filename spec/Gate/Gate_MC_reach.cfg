SPECIFICATION Spec
CONSTANTS
  MaxCalls = 2
  Impl = "fixed"
INVARIANTS NeverInvokedWithPerms
VIEW View
CHECK_DEADLOCK FALSE

----------------------------- MODULE Gate_Trace -----------------------------
(* Binding: io.ndjson is what the real router did.                            *)
(*  [kind |-> "build", calls, after]   a route declared on a real Router with *)
(*        the builder calls, and the real route record read back after each   *)
(*        call;                                                               *)
(*  [kind |-> "req", src, route, flags, req, invoked, status, n, calls]       *)
(*        one request sent through the real Router.ServeHTTP to a route whose *)
(*        real record is flags (src "gen": a generated declaration, "table":  *)
(*        a route of the server's real route table); invoked = the handler    *)
(*        ran.                                                                *)
(* Judged here, record by record:                                             *)
(*   viol   the handler ran for a request that does not satisfy what the      *)
(*          route record declares (C20), or a builder call left the record    *)
(*          declaring less than the call says;                                *)
(*   notwf  the record is not a case of the specification (harness error);    *)
(*   da/df  the outcome differs from the code-shaped gate as it is / repaired *)
(*          (diagnostic: which model the code conforms to).                   *)
EXTENDS GateCore, Json

VARIABLES i, bad, notwf, da, df

Log == ndJsonDeserialize("io.ndjson")

AllMethods == {"GET", "HEAD", "POST", "DELETE", "UPDATE", "PUT", "PATCH"}

IsFlags(f) == /\ DOMAIN f = DOMAIN Flags0
              /\ \A k \in {"ma", "ca", "lw", "cc", "ar", "pnil", "redir"} : f[k] \in BOOLEAN
              /\ (f.pnil => Len(f.perms) = 0)

R(q) == [form |-> q.form, method |-> q.method, sub |-> q.sub,
         subperms |-> Range(q.subperms), idperms |-> Range(q.idperms)]

WFReq(rec) == /\ IsFlags(rec.flags)
              /\ rec.req.form \in Forms /\ rec.req.method \in AllMethods
              /\ rec.invoked \in BOOLEAN /\ rec.status \in 100..599
              /\ (rec.req.form = "jwt_valid" => Range(rec.req.idperms) # {})

WFBuild(rec) == /\ Len(rec.after) = Len(rec.calls)
                /\ \A k \in 1..Len(rec.calls) : rec.calls[k].op \in Ops /\ IsFlags(rec.after[k])

Before(rec, k) == IF k = 1 THEN Flags0 ELSE rec.after[k - 1]

(* the record declares less than the builder call says *)
Weaker(real, want) == \/ NeedsAuth(want) /\ ~NeedsAuth(real)
                      \/ ~(Range(want.perms) \subseteq Range(real.perms))

BuildViol(rec) ==
  LET ks == {k \in 1..Len(rec.calls) : Weaker(rec.after[k], Apply(Before(rec, k), rec.calls[k]))} IN
  IF ks = {} THEN "" ELSE "declaration-weakened/" \o rec.calls[CHOOSE k \in ks : \A j \in ks : k <= j].op

BuildDrift(rec) ==
  LET ks == {k \in 1..Len(rec.calls) : rec.after[k] # Apply(Before(rec, k), rec.calls[k])} IN
  IF ks = {} THEN "" ELSE "builder/" \o rec.calls[CHOOSE k \in ks : \A j \in ks : k <= j].op

Outcome(rec) == [invoked |-> rec.invoked, status |-> rec.status]

DriftKey(rec, impl) ==
  LET f == rec.flags
      r == R(rec.req)
      g == Gate(f, r, impl) IN
  IF Outcome(rec) = g THEN ""
  ELSE "gate/" \o Effective(f, r) \o "/ma=" \o Bool2S(f.ma) \o ",lw=" \o Bool2S(f.lw) \o ",ca=" \o Bool2S(f.ca)
       \o ",perms=" \o Bool2S(NeedsPerms(f)) \o ",redir=" \o Bool2S(f.redir)
       \o "/got=" \o ToString(rec.status) \o Bool2S(rec.invoked) \o "/model=" \o ToString(g.status) \o Bool2S(g.invoked)

Add(s, k, idx) == IF k = "" THEN s ELSE s \cup {[idx |-> idx, key |-> k]}
(* records the check appends as its binding self-test carry a field st: judged, but not counted as drift *)
AddD(s, k, idx, rec) == IF "st" \in DOMAIN rec THEN s ELSE Add(s, k, idx)

TInit == i = 1 /\ bad = {} /\ notwf = {} /\ da = {} /\ df = {}
TNext == /\ i <= Len(Log)
         /\ LET rec == Log[i] IN
            IF rec.kind = "build"
            THEN IF ~WFBuild(rec)
                 THEN notwf' = notwf \cup {i} /\ UNCHANGED <<bad, da, df>>
                 ELSE /\ bad' = Add(bad, BuildViol(rec), i)
                      /\ da' = AddD(da, BuildDrift(rec), i, rec)
                      /\ df' = AddD(df, BuildDrift(rec), i, rec)
                      /\ UNCHANGED notwf
            ELSE IF ~WFReq(rec)
                 THEN notwf' = notwf \cup {i} /\ UNCHANGED <<bad, da, df>>
                 ELSE /\ bad' = Add(bad, IF rec.invoked /\ ~Satisfies(rec.flags, R(rec.req))
                                         THEN ViolKey(rec.flags, R(rec.req)) ELSE "", i)
                      /\ da' = AddD(da, DriftKey(rec, "asis"), i, rec)
                      /\ df' = AddD(df, DriftKey(rec, "fixed"), i, rec)
                      /\ UNCHANGED notwf
         /\ i' = i + 1
TSpec == TInit /\ [][TNext]_<<i, bad, notwf, da, df>>

Keys(s) == {x.key : x \in s}
Report == i <= Len(Log) \/
          PrintT(ToJson([n |-> Len(Log), bad |-> bad, notwf |-> notwf,
                         nda |-> Cardinality(da), ndf |-> Cardinality(df),
                         dakeys |-> Keys(da), dfkeys |-> Keys(df)]))
=============================================================================

-------------------------- MODULE ServiceIsolation --------------------------
(* Code-shaped specification of how `ego server` runs a service written in   *)
(* Ego (internal/server/services/service.go, cache.go; the first-use lock of *)
(* the route in internal/router/router.go), for ONE endpoint.                *)
(*                                                                           *)
(* A request r owns its values Own(r, f) (URL part, query parameter, body,   *)
(* user, header).  ServiceHandler builds a private symbol table tab[r] for   *)
(* it, takes the compiled service from the cache (or compiles and caches     *)
(* it), merges the symbols the cache entry saved after the first successful  *)
(* run into tab[r], runs the shared bytecode in a private child table rt[r], *)
(* and finally offers tab[r] to the cache entry as its saved symbols.        *)
(*                                                                           *)
(* One action per critical section / linearization point:                    *)
(*   Arrive   FindRoute + Route.Lock (first use of a route is serialized),   *)
(*            setupServerSymbols ... URL parts; ends at serviceConcurrency    *)
(*   Lookup   serviceConcurrency.Lock; ServiceCache[endpoint] under mutex    *)
(*   ReadS    cachedItem.s under mutex, Merge, serviceConcurrency.Unlock     *)
(*   Add      compile, addToCache under mutex, serviceConcurrency.Unlock     *)
(*   Run      ctx.Run() on the child table: private, computes the response   *)
(*   RunErr   runtime error: delete(ServiceCache, endpoint) under mutex      *)
(*   Finish   updateCachedServiceSymbols under mutex                         *)
(*   Leave    deferred Route.Unlock in ServeHTTP; the response is complete   *)
(*   Flush    FlushServiceCache / aging in addToCache (NeedsLock(true))      *)
(*                                                                           *)
(* Defects \subseteq {"parts", "unsaved", "unlock"} selects the as-is behaviour *)
(* of three places (the empty set is the repaired design):                   *)
(*  "parts"   URL-part variables are stored in tab[r] BEFORE the merge and   *)
(*            the saved table is the first request's whole tab[r]; repaired: *)
(*            they are stored in the child table rt[r] (never saved/merged)  *)
(*  "unsaved" a cache entry whose symbols have not been saved yet (its first *)
(*            run is still in progress) is used as a hit, so the request     *)
(*            runs without the symbols compilation provides (the auto-       *)
(*            imported packages); repaired: such an entry counts as a miss   *)
(*  "unlock"  Route.Unlock releases the mutex whenever its counter becomes 1 *)
(*            (fatal when nobody holds it); repaired: only if a first use    *)
(*            holds it                                                        *)
(* Lock = FALSE: the route lock is not modelled (trace validation)           *)
EXTENDS Integers, FiniteSets, Sequences, TLC

CONSTANTS Reqs,       \* request ids (strings)
          Bad,        \* requests whose service run ends in a runtime error
          Shapes,     \* the service shapes (sets of observation keys) considered
          MaxEvict,   \* bound on Flush steps
          Defects, Lock

(* what an observation key of a generated service reads *)
Kind == [parm |-> "req", body |-> "req", user |-> "req", hdr |-> "req", partmap |-> "req",
         partvar |-> "sym", pkg |-> "lib",
         loc |-> "local", arr |-> "local", mp |-> "local", rec |-> "local", fn |-> "local"]
Field == [parm |-> "parm", body |-> "body", user |-> "user", hdr |-> "hdr", partmap |-> "part",
          partvar |-> "part", pkg |-> "parm",
          loc |-> "parm", arr |-> "parm", mp |-> "parm", rec |-> "parm", fn |-> "parm"]
Keys == DOMAIN Kind

Own(r, f) == r \o "_" \o f
NoTab == [n \in {} |-> ""]
ReadOnly(n) == n = "_request"           \* names starting with "_" are skipped by Merge

VARIABLES svc,      \* the shape of the service behind the endpoint
          pc,       \* [Reqs -> program point]
          tab,      \* [Reqs -> table]  the request's own (root) symbol table
          rt,       \* [Reqs -> table]  its runtime child table
          ref,      \* [Reqs -> item id | 0]  the cache entry a request picked up in Lookup
          items,    \* [1..n -> [saved, s]]  every cache entry ever created (a flushed one may still be referenced)
          cur,      \* id of the entry ServiceCache[endpoint] holds, 0 = none
          sc,       \* holder of serviceConcurrency, "none"
          route,    \* [counter, locked]  first-use lock of the route
          resp,     \* [Reqs -> response]
          evicts, crashed,
          last      \* observation: the last step

vars == <<svc, pc, tab, rt, ref, items, cur, sc, route, resp, evicts, crashed, last>>

NoResp == [status |-> 0, body |-> NoTab]
InFlight(r) == pc[r] \in {"entered", "hit", "miss", "ready", "ran", "finished", "failed"}

InitSvc(shape) ==
        /\ svc = shape
        /\ pc = [r \in Reqs |-> "new"]
        /\ tab = [r \in Reqs |-> NoTab] /\ rt = [r \in Reqs |-> NoTab]
        /\ ref = [r \in Reqs |-> 0]
        /\ items = <<>> /\ cur = 0 /\ sc = "none"
        /\ route = [counter |-> 0, locked |-> FALSE]
        /\ resp = [r \in Reqs |-> NoResp]
        /\ evicts = 0 /\ crashed = FALSE
        /\ last = [act |-> "Init", r |-> "", reply |-> ""]
Init == \E shape \in Shapes : InitSvc(shape)

Obs(a, r, y) == last' = [act |-> a, r |-> r, reply |-> y]

(* setupServerSymbols + the request object + (as is) the URL-part variables *)
BaseTab(r) == [n \in {"_request"} \cup (IF "parts" \in Defects THEN {"part"} ELSE {}) |->
                 CASE n = "_request" -> r
                   [] n = "part"     -> Own(r, "part")]
With(t, n, v) == [m \in DOMAIN t \cup {n} |-> IF m = n THEN v ELSE t[m]]

(* symbols.Merge: every symbol of the source that is not read-only is stored in the target *)
Merge(t, s) == [n \in DOMAIN t \cup {m \in DOMAIN s : ~ReadOnly(m)} |->
                  IF n \in DOMAIN s /\ ~ReadOnly(n) THEN s[n] ELSE t[n]]

(* the child table created for the run; (fixed) the URL-part variables live here *)
ChildTab(r) == IF "parts" \notin Defects THEN [n \in {"part"} |-> Own(r, "part")] ELSE NoTab

(* scope chain lookup: child table first, then the request's root table *)
Look(r, n) == IF n \in DOMAIN rt[r] THEN rt[r][n]
              ELSE IF n \in DOMAIN tab[r] THEN tab[r][n] ELSE "undefined"

(* ---- the route's first-use lock ---- *)
Enter(r) == /\ pc' = [pc EXCEPT ![r] = "entered"]
            /\ tab' = [tab EXCEPT ![r] = BaseTab(r)]

Arrive(r) ==
  /\ ~crashed /\ pc[r] = "new"
  /\ IF ~Lock \/ ~route.locked
     THEN /\ Enter(r)
          /\ route' = IF Lock /\ route.counter = 0 THEN [route EXCEPT !.locked = TRUE] ELSE route
          /\ Obs("Arrive", r, "acquire")
     ELSE /\ pc' = [pc EXCEPT ![r] = "waiting"]
          /\ UNCHANGED <<tab, route>>
          /\ Obs("Arrive", r, "waiting")
  /\ UNCHANGED <<svc, rt, ref, items, cur, sc, resp, evicts, crashed>>

(* requests parked on the route mutex get through once it is released: the counter is >= 1 by then *)
Woken == [r \in Reqs |-> IF pc[r] = "waiting" THEN "entered" ELSE pc[r]]
WokenTab == [r \in Reqs |-> IF pc[r] = "waiting" THEN BaseTab(r) ELSE tab[r]]

Leave(r) ==
  /\ ~crashed /\ pc[r] \in {"finished", "failed"}
  /\ LET c1 == route.counter + 1
         release == CASE ~Lock -> FALSE
                      [] "unlock" \in Defects -> c1 = 1
                      [] OTHER -> route.locked
     IN /\ IF release /\ ~route.locked
           THEN /\ crashed' = TRUE                       \* sync: unlock of unlocked mutex (fatal)
                /\ pc' = pc /\ tab' = tab /\ route' = route
           ELSE /\ crashed' = crashed
                /\ route' = IF ~Lock THEN route
                            ELSE [counter |-> c1, locked |-> IF release THEN FALSE ELSE route.locked]
                /\ pc' = IF release THEN [Woken EXCEPT ![r] = "done"] ELSE [pc EXCEPT ![r] = "done"]
                /\ tab' = IF release THEN WokenTab ELSE tab
        /\ Obs("Leave", r, IF release /\ ~route.locked THEN "crash" ELSE "done")
  /\ UNCHANGED <<svc, rt, ref, items, cur, sc, resp, evicts>>

(* ---- the service cache ---- *)
Usable == cur # 0 /\ ("unsaved" \in Defects \/ items[cur].saved)
Lookup(r) ==
  /\ ~crashed /\ pc[r] = "entered" /\ sc = "none"
  /\ sc' = r
  /\ tab' = [tab EXCEPT ![r] = With(tab[r], "auto", "AUTO")]          \* AutoImport(false) under serviceConcurrency
  /\ ref' = [ref EXCEPT ![r] = cur]
  /\ pc' = [pc EXCEPT ![r] = IF Usable THEN "hit" ELSE "miss"]
  /\ Obs("Lookup", r, IF Usable THEN "hit" ELSE "miss")
  /\ UNCHANGED <<svc, rt, items, cur, route, resp, evicts, crashed>>

ReadS(r) ==
  /\ ~crashed /\ pc[r] = "hit" /\ sc = r
  /\ LET it == items[ref[r]]
     IN /\ tab' = [tab EXCEPT ![r] = IF it.saved THEN Merge(tab[r], it.s) ELSE tab[r]]
        /\ Obs("ReadS", r, IF it.saved THEN "merged" ELSE "nosyms")
  /\ rt' = [rt EXCEPT ![r] = ChildTab(r)]
  /\ sc' = "none"
  /\ pc' = [pc EXCEPT ![r] = "ready"]
  /\ UNCHANGED <<svc, ref, items, cur, route, resp, evicts, crashed>>

(* compile: AddStandard and AutoImport(ego.compiler.import = true) on the request's table, then addToCache *)
Add(r) ==
  /\ ~crashed /\ pc[r] = "miss" /\ sc = r
  /\ tab' = [tab EXCEPT ![r] = With(tab[r], "lib", "LIB")]
  /\ items' = Append(items, [saved |-> FALSE, s |-> NoTab])
  /\ cur' = Len(items) + 1
  /\ ref' = [ref EXCEPT ![r] = Len(items) + 1]
  /\ rt' = [rt EXCEPT ![r] = ChildTab(r)]
  /\ sc' = "none"
  /\ pc' = [pc EXCEPT ![r] = "ready"]
  /\ Obs("Add", r, "added")
  /\ UNCHANGED <<svc, route, resp, evicts, crashed>>

(* ---- running the shared bytecode in the private child table ---- *)
Value(r, k) == CASE Kind[k] = "req"   -> Own(Look(r, "_request"), Field[k])
                 [] Kind[k] = "sym"   -> Look(r, "part")
                 [] Kind[k] = "lib"   -> Own(Look(r, "_request"), Field[k])   \* strings.ToLower(parameter): needs the auto-imported package
                 [] Kind[k] = "local" -> Own(Look(r, "_request"), Field[k])   \* a local assigned from the parameter, read back later

Fails(r) == r \in Bad \/ (\E k \in svc : Kind[k] = "lib" /\ Look(r, "lib") = "undefined")
Run(r) ==
  /\ ~crashed /\ pc[r] = "ready" /\ ~Fails(r)
  /\ resp' = [resp EXCEPT ![r] = [status |-> 200, body |-> [k \in svc |-> Value(r, k)]]]
  /\ pc' = [pc EXCEPT ![r] = "ran"]
  /\ Obs("Run", r, "ok")
  /\ UNCHANGED <<svc, tab, rt, ref, items, cur, sc, route, evicts, crashed>>

RunErr(r) ==
  /\ ~crashed /\ pc[r] = "ready" /\ Fails(r)
  /\ resp' = [resp EXCEPT ![r] = [status |-> 500, body |-> NoTab]]
  /\ cur' = 0                              \* delete(ServiceCache, endpoint); the route counter is NOT reset
  /\ pc' = [pc EXCEPT ![r] = "failed"]
  /\ Obs("RunErr", r, "error")
  /\ UNCHANGED <<svc, tab, rt, ref, items, sc, route, evicts, crashed>>

Finish(r) ==
  /\ ~crashed /\ pc[r] = "ran"
  /\ IF cur # 0 /\ ~items[cur].saved
     THEN /\ items' = [items EXCEPT ![cur] = [saved |-> TRUE, s |-> tab[r]]]
          /\ Obs("Finish", r, "saved")
     ELSE /\ items' = items
          /\ Obs("Finish", r, "kept")
  /\ pc' = [pc EXCEPT ![r] = "finished"]
  /\ UNCHANGED <<svc, tab, rt, ref, cur, sc, route, resp, evicts, crashed>>

(* FlushServiceCache, or aging in addToCache: the route of a cached entry goes back to first use *)
Flush ==
  /\ ~crashed /\ evicts < MaxEvict
  /\ evicts' = evicts + 1
  /\ cur' = 0
  /\ route' = IF cur # 0 /\ Lock THEN [route EXCEPT !.counter = 0] ELSE route
  /\ Obs("Flush", "", IF cur # 0 THEN "evicted" ELSE "empty")
  /\ UNCHANGED <<svc, pc, tab, rt, ref, items, sc, resp, crashed>>

Step(r) == Arrive(r) \/ Lookup(r) \/ ReadS(r) \/ Add(r) \/ Run(r) \/ RunErr(r) \/ Finish(r) \/ Leave(r)
Next == (\E r \in Reqs : Step(r)) \/ Flush
Spec == Init /\ [][Next]_vars

View == <<svc, pc, tab, rt, ref, items, cur, sc, route, resp, evicts, crashed>>

(* ------------------------------ properties ------------------------------ *)
TypeOK == /\ svc \in Shapes
          /\ pc \in [Reqs -> {"new", "waiting", "entered", "hit", "miss", "ready", "ran", "finished", "failed", "done"}]
          /\ cur \in 0..Len(items) /\ sc \in Reqs \cup {"none"}
          /\ route.counter \in 0..Cardinality(Reqs) /\ route.locked \in BOOLEAN
          /\ evicts \in 0..MaxEvict /\ crashed \in BOOLEAN

(* C42: the response of a request is a function of that request alone *)
Expected(r) == IF r \in Bad THEN [status |-> 500, body |-> NoTab]
               ELSE [status |-> 200, body |-> [k \in svc |-> Own(r, Field[k])]]
Answered(r) == pc[r] \in {"ran", "finished", "failed", "done"}
Isolated == \A r \in Reqs : Answered(r) => resp[r] = Expected(r)

(* nothing a request owns is visible in another request's tables or in the cache entry *)
OwnedBy(v) == {r \in Reqs : \E f \in {"part", "parm", "body", "user", "hdr"} : v = Own(r, f)}
Foreign(r, t) == \E n \in DOMAIN t : (OwnedBy(t[n]) \ {r}) # {} \/ (n = "_request" /\ t[n] # r)
NoForeignSymbols == \A r \in Reqs : InFlight(r) => ~Foreign(r, tab[r]) /\ ~Foreign(r, rt[r])
SavedIsNeutral == \A i \in 1..Len(items) : \A n \in DOMAIN items[i].s : n = "_request" \/ OwnedBy(items[i].s[n]) = {}

(* serving a request never takes the whole server down *)
NoCrash == ~crashed

(* serviceConcurrency is held exactly between Lookup and ReadS/Add *)
ScDiscipline == \A r \in Reqs : (sc = r) <=> pc[r] \in {"hit", "miss"}

(* every request that arrived is answered unless the lock of the route is held (no lost wake-up) *)
NoLostWakeup == (\E r \in Reqs : pc[r] = "waiting") => route.locked
=============================================================================

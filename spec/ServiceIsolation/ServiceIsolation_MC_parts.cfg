SPECIFICATION Spec
CONSTANTS
  Reqs = {"r1", "r2", "r3"}
  Bad = {"r3"}
  Shapes = {{"parm", "partvar", "loc", "pkg"}}
  MaxEvict = 1
  Defects = {"parts"}
  Lock = TRUE
INVARIANTS Isolated NoCrash
VIEW View
CHECK_DEADLOCK FALSE

----------------------- MODULE ServiceIsolation_Trace -----------------------
(* Binding T: validates event logs recorded from concurrent batches of real  *)
(* service requests (hooks under serviceCacheMutex + the gates of            *)
(* ServiceHandler + the response each client received) against the actions   *)
(* of ServiceIsolation.  Every event is bound to exactly one action with its *)
(* logged request; what the real code decided (symbols merged or not, saved  *)
(* or not) and the response the client got must be what the spec computes.   *)
(* The first-use lock of the route is not modelled here (Lock = FALSE): its  *)
(* critical sections are not logged.  A "Reset" event starts the next        *)
(* recorded run (fresh cache, new service shape).                            *)
EXTENDS ServiceIsolation, Json

VARIABLES l, run

TraceLog == ndJsonDeserialize("trace.ndjson")
N == Len(TraceLog)
Range(f) == {f[i] : i \in DOMAIN f}

TraceReqs == UNION {Range(TraceLog[i].reqs) : i \in {j \in 1..N : TraceLog[j].ev = "Reset"}}
TraceBad  == UNION {Range(TraceLog[i].bad) : i \in {j \in 1..N : TraceLog[j].ev = "Reset"}}

Ev == TraceLog[l]
Is(e) == l <= N /\ Ev.run = run /\ Ev.ev = e
Adv == l' = l + 1 /\ run' = run

TInit == /\ TLCSet(42, 0) /\ l = 2
         /\ N > 0 /\ TraceLog[1].ev = "Reset"
         /\ run = TraceLog[1].run
         /\ InitSvc(Range(TraceLog[1].svc))

TEnter  == Is("Enter") /\ Arrive(Ev.r) /\ Adv
TLookup == Is("Lookup") /\ Lookup(Ev.r) /\ Adv
TReadS  == Is("ReadS") /\ ReadS(Ev.r) /\ ((last'.reply = "merged") <=> Ev.had) /\ Adv
TAdd    == Is("Add") /\ Add(Ev.r) /\ Adv
TRun    == Is("Run") /\ Run(Ev.r) /\ Adv
TRunErr == Is("RunErr") /\ RunErr(Ev.r) /\ Adv
TFinish == Is("Finish") /\ Finish(Ev.r) /\ ((last'.reply = "saved") <=> Ev.saved) /\ Adv
TResp   == Is("Resp") /\ Leave(Ev.r) /\ Adv
           /\ resp[Ev.r].status = Ev.status
           /\ resp[Ev.r].body = Ev.body
TFlush  == Is("Flush") /\ Flush /\ Adv

(* next recorded run: every request of the previous one was answered *)
TReset == /\ l <= N /\ Ev.ev = "Reset" /\ Ev.run # run
          /\ \A r \in Reqs : pc[r] \in {"new", "done"}
          /\ svc' = Range(Ev.svc)
          /\ pc' = [r \in Reqs |-> "new"]
          /\ tab' = [r \in Reqs |-> NoTab] /\ rt' = [r \in Reqs |-> NoTab]
          /\ ref' = [r \in Reqs |-> 0]
          /\ items' = <<>> /\ cur' = 0 /\ sc' = "none"
          /\ route' = [counter |-> 0, locked |-> FALSE]
          /\ resp' = [r \in Reqs |-> NoResp]
          /\ evicts' = 0 /\ crashed' = FALSE
          /\ last' = [act |-> "Init", r |-> "", reply |-> ""]
          /\ run' = Ev.run /\ l' = l + 1

TNext == TEnter \/ TLookup \/ TReadS \/ TAdd \/ TRun \/ TRunErr \/ TFinish \/ TResp \/ TFlush \/ TReset
TSpec == TInit /\ [][TNext]_<<vars, l, run>>

Reached == TLCSet(42, IF TLCGet(42) < l THEN l ELSE TLCGet(42))
Accepted == /\ PrintT(<<"HIGHWATER", TLCGet(42), N + 1>>)
            /\ TLCGet(42) = N + 1
=============================================================================

SPECIFICATION TSpec
CONSTANTS
  Reqs <- TraceReqs
  Bad <- TraceBad
  Shapes = {}
  MaxEvict = 1000000
  Defects = {}
  Lock = FALSE
INVARIANTS Isolated NoForeignSymbols SavedIsNeutral NoCrash ScDiscipline
CONSTRAINT Reached
POSTCONDITION Accepted
CHECK_DEADLOCK FALSE

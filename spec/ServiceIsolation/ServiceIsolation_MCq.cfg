SPECIFICATION Spec
CONSTANTS
  Reqs = {"r1", "r2", "r3"}
  Bad = {"r3"}
  Shapes = {{"parm", "partvar", "loc"}}
  MaxEvict = 1
  Impl = "fixed"
  Lock = "fixed"
INVARIANTS TypeOK Isolated NoForeignSymbols SavedIsNeutral NoCrash ScDiscipline NoLostWakeup
VIEW View
CHECK_DEADLOCK FALSE

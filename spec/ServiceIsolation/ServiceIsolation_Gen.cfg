SPECIFICATION GenSpec
CONSTANTS
  Reqs = {"r1", "r2", "r3"}
  Bad = {"r3"}
  Shapes = {{"parm", "body", "user", "hdr", "partmap", "partvar", "loc", "arr", "map", "rec", "fn"}}
  MaxEvict = 1
  Impl = "fixed"
  Lock = "fixed"
  Depth = 20
INVARIANTS Emit
CHECK_DEADLOCK FALSE

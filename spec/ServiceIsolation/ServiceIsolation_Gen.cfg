SPECIFICATION GenSpec
CONSTANTS
  Reqs = {"r1", "r2", "r3"}
  Bad = {"r3"}
  Shapes = {{"parm", "body", "user", "hdr", "partmap", "partvar", "pkg", "loc", "arr", "mp", "rec", "fn"}}
  MaxEvict = 1
  Defects = {}
  Lock = TRUE
  Depth = 20
  EvictingOnly = TRUE
INVARIANTS Emit
CHECK_DEADLOCK FALSE

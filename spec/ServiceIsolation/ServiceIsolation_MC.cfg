SPECIFICATION Spec
CONSTANTS
  Reqs = {"r1", "r2", "r3", "r4"}
  Bad = {"r3"}
  Shapes = {{"parm", "partvar", "loc", "pkg"}, {"body", "partvar"}}
  MaxEvict = 2
  Defects = {}
  Lock = TRUE
INVARIANTS TypeOK Isolated NoForeignSymbols SavedIsNeutral NoCrash ScDiscipline NoLostWakeup
VIEW View
CHECK_DEADLOCK FALSE

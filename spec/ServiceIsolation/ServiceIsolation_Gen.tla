------------------------ MODULE ServiceIsolation_Gen ------------------------
(* Behaviour generator for binding R.  The harness parks every request at   *)
(* the verifGate points of ServiceHandler ("acquire", "run", "finish",      *)
(* "leave"), so one replayed step is the code between two gates:            *)
(*   Arrive | Lookup;ReadS | Lookup;Add | Run | RunErr;Leave | Finish | Leave | Flush *)
(* The fine-grained actions of ServiceIsolation are taken, but a request    *)
(* that is between two gates (Mid) finishes its composite step first, and   *)
(* the history records only gate-to-gate steps: the gate the request lands  *)
(* on and the projected state TLC computed.                                  *)
EXTENDS ServiceIsolation, Json

CONSTANTS Depth,
          EvictingOnly   \* TRUE: only flushes that throw the entry out (a flush of an empty cache changes nothing)
VARIABLE h

Mid == {r \in Reqs : pc[r] \in {"hit", "miss", "failed"}}
Terminal == crashed \/ \A r \in Reqs : pc[r] = "done"

Gate(p) == CASE p = "entered"  -> "acquire"
             [] p = "ready"    -> "run"
             [] p = "ran"      -> "finish"
             [] p = "finished" -> "leave"
             [] OTHER          -> p              \* new, waiting, done

Pub(t) == [n \in DOMAIN t \ {"_request"} |-> t[n]]
Parked(r) == pc[r] \in {"entered", "ready", "ran", "finished"}

Proj == [at    |-> [r \in Reqs |-> Gate(pc[r])],
         cache |-> IF cur = 0 THEN [on |-> FALSE, saved |-> FALSE, s |-> NoTab]
                   ELSE [on |-> TRUE, saved |-> items[cur].saved, s |-> Pub(items[cur].s)],
         tabs  |-> [r \in {q \in Reqs : Parked(q)} |-> Pub(tab[r])],
         sees  |-> [r \in {q \in Reqs : pc[q] \in {"ready", "ran", "finished"}} |-> Look(r, "part")],
         resp  |-> [r \in {q \in Reqs : pc[q] = "done"} |-> resp[r]],
         route |-> route,
         crashed |-> crashed]

GenInit == Init /\ h = <<>>
GenNext == /\ ~Terminal /\ Len(h) < Depth
           /\ Next
           /\ (Mid # {} => last'.r \in Mid)
           /\ (last'.act = "Flush" => /\ \E r \in Reqs : pc[r] # "done"
                                     /\ (EvictingOnly => cur # 0))
           /\ h' = IF Mid' = {}
                   THEN Append(h, [call |-> [act |-> last'.act, r |-> last'.r,
                                             reply |-> IF crashed' THEN "crash"
                                                       ELSE IF last'.r = "" THEN last'.reply
                                                       ELSE Gate(pc'[last'.r])],
                                    st |-> Proj'])
                   ELSE h
GenSpec == GenInit /\ [][GenNext]_<<vars, h>>

Emit == ~(Terminal /\ Mid = {}) \/ PrintT(ToJson([svc |-> svc, bad |-> Bad, steps |-> h]))
=============================================================================

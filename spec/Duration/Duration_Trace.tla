--------------------------- MODULE Duration_Trace ---------------------------
(* Binding F: the contract that judges logged I/O of the real functions.      *)
(* io.ndjson, one record per call pair made by a harness (via = "util": Go,   *)
(* in-package; via = "ego": an Ego program using the time package):           *)
(*   k = "rt": x = a duration; text = characters FormatDuration(x, true)      *)
(*             returned; err / y = what ParseDuration(text) returned          *)
(*   k = "sp": neg, parts = a documented spelling, chars = the text the       *)
(*             harness passed; err / y = what ParseDuration returned          *)
(* WF = the domain of C37 (|x| <= 10^6 h; a documented spelling whose text is *)
(* the one the spec gives it).  Post = C37.  Key = abstract identity of the   *)
(* case (computed here, not by the harness).  Records outside WF are counted  *)
(* (skipped), never judged.                                                   *)
(* Violations are grouped by Key: the report carries, per key, the first      *)
(* failing record and how many failed.                                        *)
(* Besides the verdict the contract reports, as diagnostics only: how many    *)
(* printed texts equal the spec's Fmt, and with which of the two code-shaped  *)
(* parser models ("asis", "fixed") the real replies agree.                    *)
EXTENDS DurationDefs, Json

VARIABLES i, bad, classes, cnt, off

Log == ndJsonDeserialize("io.ndjson")
N == Len(Log)

IsDur(d) == /\ d.neg \in BOOLEAN /\ d.min \in Nat /\ d.sec \in 0..59 /\ d.ns \in 0..999999999
            /\ d = Dur(d.neg, d.min, d.sec, d.ns)
SpOf(r) == [neg |-> r.neg, parts |-> r.parts]
Bounded(sp) == \A j \in 1..Len(sp.parts) :
                 LET p == sp.parts[j] IN
                 p.v <= (CASE p.u = "d" -> 41666 [] p.u = "h" -> 1000000 [] p.u = "m" -> 1000000
                           [] p.u = "s" -> 1000000 [] p.u = "ms" -> 2000)

WF(r) == IF r.k = "rt" THEN IsDur(r.x) /\ InRange(r.x)
         ELSE r.k = "sp" /\ InDoc(SpOf(r)) /\ Bounded(SpOf(r)) /\ r.chars = Chars(SpOf(r))

Post(r) == /\ ~r.err
           /\ IF r.k = "rt" THEN IsDur(r.y) /\ Close(r.y, r.x) ELSE r.y = Den(SpOf(r))

(* ---- abstract identity ---- *)
Sign(neg) == IF neg THEN "neg" ELSE "pos"
RtPattern(x) == (IF x.min >= 1440 THEN "d" ELSE "") \o (IF (x.min \div 60) % 24 > 0 THEN "h" ELSE "")
                \o (IF x.min % 60 > 0 THEN "m" ELSE "") \o (IF x.sec > 0 THEN "s" ELSE "")
                \o (IF x.ns > 0 THEN "f" ELSE "")
SpPattern(ps) == LET F[j \in 0..Len(ps)] == IF j = 0 THEN "" ELSE F[j - 1] \o (IF ps[j].u = "ms" THEN "M" ELSE ps[j].u)
                 IN F[Len(ps)]
Spacing(ps) == LET gaps == {ps[j].sp : j \in 2..Len(ps)}
               IN IF gaps = {} THEN "single" ELSE IF gaps = {TRUE} THEN "spaced"
                  ELSE IF gaps = {FALSE} THEN "tight" ELSE "mixed"
Class(r) == r.via \o ":" \o
            (IF r.k = "rt" THEN "rt/" \o Sign(r.x.neg) \o "/" \o (IF r.x = Zero THEN "zero" ELSE RtPattern(r.x))
             ELSE "sp/" \o Sign(r.neg) \o "/" \o SpPattern(r.parts) \o "/" \o Spacing(r.parts))
(* Key = identity of a failing case for the verdict (coarser than Class, which is *)
(* used for coverage): path, kind, sign, with or without a day field, how many    *)
(* fields / how they are separated, and how it failed                             *)
HasDay(r) == IF r.k = "rt" THEN r.x.min >= 1440 ELSE \E j \in 1..Len(r.parts) : r.parts[j].u = "d"
Fields(x) == (IF x.min >= 1440 THEN 1 ELSE 0) + (IF (x.min \div 60) % 24 > 0 THEN 1 ELSE 0)
             + (IF x.min % 60 > 0 THEN 1 ELSE 0) + (IF x.sec > 0 THEN 1 ELSE 0)
Key(r) == r.via \o ":" \o r.k \o "/" \o Sign(IF r.k = "rt" THEN r.x.neg ELSE r.neg) \o "/"
          \o (IF HasDay(r) THEN "day" ELSE "noday") \o "/"
          \o (IF r.k = "rt" THEN (IF Fields(r.x) <= 1 THEN "single" ELSE "multi") ELSE Spacing(r.parts)) \o "/"
          \o (IF r.err THEN "rejected" ELSE "wrong-value")

(* ---- diagnostics (never part of the verdict) ---- *)
(* gen = the case came from TLC (Duration_Gen): only those are compared with   *)
(* the two parser models (the bulk of window / seeded round trips is not)      *)
TextOf(r) == IF r.k = "rt" THEN r.text ELSE r.chars
Reply(r) == IF r.err THEN Err ELSE Ok(r.y)
OnModel(r) == r.k = "rt" /\ Printable(r.x) /\ r.text = Chars(Fmt(r.x))
Bump(c, r) ==
  LET on  == OnModel(r)
      mod == r.gen /\ (r.k = "sp" \/ on)        \* text is in the alphabet of the models
  IN [c EXCEPT
   !.judged    = @ + 1,
   !.rt        = @ + (IF r.k = "rt" THEN 1 ELSE 0),
   !.sp        = @ + (IF r.k = "sp" THEN 1 ELSE 0),
   !.printable = @ + (IF r.k = "rt" /\ Printable(r.x) THEN 1 ELSE 0),
   !.onmodel   = @ + (IF on THEN 1 ELSE 0),
   !.modelled  = @ + (IF mod THEN 1 ELSE 0),
   !.asis      = @ + (IF mod /\ Reply(r) = ParseModel("asis", TextOf(r)) THEN 1 ELSE 0),
   !.fixed     = @ + (IF mod /\ Reply(r) = ParseModel("fixed", TextOf(r)) THEN 1 ELSE 0)]

(* state: index, per failing key its first record and a count, classes seen, counters, *)
(* first few records whose printed text is not the spec's Fmt                         *)
TInit == /\ i = 1 /\ bad = <<>> /\ classes = {} /\ off = {}
         /\ cnt = [judged |-> 0, skipped |-> 0, rt |-> 0, sp |-> 0, printable |-> 0, onmodel |-> 0,
                   modelled |-> 0, asis |-> 0, fixed |-> 0]
TNext == /\ i <= N
         /\ i' = i + 1
         /\ LET r == Log[i] IN
            IF WF(r)
            THEN /\ bad' = IF Post(r) THEN bad
                           ELSE LET k == Key(r) IN
                                IF k \in DOMAIN bad THEN [bad EXCEPT ![k].n = @ + 1]
                                ELSE bad @@ (k :> [idx |-> i, n |-> 1, class |-> Class(r)])
                 /\ classes' = classes \cup {Class(r)}
                 /\ cnt' = Bump(cnt, r)
                 /\ off' = IF r.k = "rt" /\ Printable(r.x) /\ ~OnModel(r) /\ Cardinality(off) < 8 THEN off \cup {i} ELSE off
            ELSE /\ cnt' = [cnt EXCEPT !.skipped = @ + 1]
                 /\ UNCHANGED <<bad, classes, off>>
TSpec == TInit /\ [][TNext]_<<i, bad, classes, cnt, off>>

Report == i <= N \/ PrintT(ToJson([n |-> N, bad |-> {[key |-> k, idx |-> bad[k].idx, count |-> bad[k].n, class |-> bad[k].class] : k \in DOMAIN bad},
                                    classes |-> classes, cnt |-> cnt, offmodel |-> off]))
=============================================================================

\* exhaustive check of the fixed parser model at a fixed bound (the check also writes seeded cfgs of this shape)
SPECIFICATION Spec
CONSTANTS
  Impl = "fixed"
  Mixed = TRUE
  Signs = {TRUE, FALSE}
  TD = {0, 1, 41666}
  TH = {1, 24}
  TM = {1, 60}
  TS = {1, 90}
  TMs = {5}
  PD = {0, 1, 2, 10, 41666}
  PH = {0, 1, 23}
  PM = {0, 1, 59}
  PS = {0, 1, 59}
  PNs = {0, 500000000}
INVARIANTS TypeOK Correct PrintedIsDocumented TypedIsDocumented MachineIsModel
CHECK_DEADLOCK FALSE

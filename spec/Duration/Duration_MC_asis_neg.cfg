\* negative control B: the parser as found, negative durations that all carry a day field: must violate Correct
SPECIFICATION Spec
CONSTANTS
  Impl = "asis"
  Mixed = FALSE
  Signs = {TRUE}
  TD = {1}
  TH = {}
  TM = {}
  TS = {}
  TMs = {}
  PD = {1}
  PH = {0, 2}
  PM = {0}
  PS = {0}
  PNs = {0}
INVARIANTS TypeOK Correct PrintedIsDocumented TypedIsDocumented MachineIsModel
CHECK_DEADLOCK FALSE

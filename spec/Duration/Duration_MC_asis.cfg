\* negative control A: the parser as found, positive durations only: the spaced forms without a day field must violate Correct
SPECIFICATION Spec
CONSTANTS
  Impl = "asis"
  Mixed = FALSE
  Signs = {FALSE}
  TD = {1}
  TH = {2}
  TM = {3}
  TS = {}
  TMs = {}
  PD = {0, 1}
  PH = {0, 2}
  PM = {0, 3}
  PS = {0}
  PNs = {0}
INVARIANTS TypeOK Correct PrintedIsDocumented TypedIsDocumented MachineIsModel
CHECK_DEADLOCK FALSE

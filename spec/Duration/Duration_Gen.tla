---------------------------- MODULE Duration_Gen ----------------------------
(* Model checking and case generation in one run: Duration is checked as it   *)
(* is, and every initial state (one per printed duration of the grid, one per *)
(* typed documented spelling) is also printed as a JSON case for the harness  *)
(* of the F binding.  Values come from the constants of the cfg (boundaries   *)
(* plus seeded representatives; the check writes the cfg).                    *)
EXTENDS Duration, Json

Case == IF src = "print" THEN [k |-> "rt", x |-> x]
        ELSE [k |-> "sp", neg |-> sp.neg, parts |-> sp.parts, chars |-> text]
Emit == pc # "call" \/ PrintT(ToJson(Case))
=============================================================================

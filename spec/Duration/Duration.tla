------------------------------ MODULE Duration ------------------------------
(* C37: the state machine "one call of util.ParseDuration" over the texts that *)
(* FormatDuration(x, TRUE) prints and over typed documented spellings; see     *)
(* DurationDefs.tla for the three layers.                                      *)
EXTENDS DurationDefs

CONSTANTS Impl,
          TD, TH, TM, TS, TMs,   \* values a typed field may carry (per unit)
          Mixed,                 \* TRUE: every gap independently "" or " "; FALSE: all gaps alike
          Signs,                 \* subset of BOOLEAN: TRUE = negative durations / spellings with a leading "-"
          PD, PH, PM, PS, PNs    \* printed durations: days, hours<24, minutes<60, seconds<60, nanoseconds


(* ------------------------------------------------------------------------ *)
(* the state machine: one call of ParseDuration                              *)
VARIABLES pc,     \* "call" | "scan" | "done"
          src,    \* "print": text came out of FormatDuration(x, TRUE); "typed": a documented spelling
          x,      \* the duration printed / the duration the typed spelling denotes
          sp,     \* the spelling
          text,   \* characters still to be handled by the parser
          i,      \* loop index of the scan
          st,     \* locals of parseDurationWithDays
          negate, \* fixed variant: a sign was taken off
          res     \* reply of ParseDuration
vars == <<pc, src, x, sp, text, i, st, negate, res>>

(* documented spellings over the configured field values: a choice gives, per *)
(* unit, a value or -1 (field absent); bits say which fields have a space     *)
(* in front (never the first one)                                             *)
Choice == {<<a, b, c, d, e>> : a \in TD \cup {-1}, b \in TH \cup {-1}, c \in TM \cup {-1},
                               d \in TS \cup {-1}, e \in TMs \cup {-1}} \ {<<-1, -1, -1, -1, -1>>}
FirstOf(c) == CHOOSE k \in 1..5 : c[k] >= 0 /\ \A q \in 1..5 : c[q] >= 0 => k <= q
GoodBits(c, b) == /\ \A k \in 1..5 : b[k] => (c[k] >= 0 /\ k # FirstOf(c))
                  /\ Mixed \/ \A k, q \in 1..5 : (c[k] >= 0 /\ c[q] >= 0 /\ k # FirstOf(c) /\ q # FirstOf(c)) => b[k] = b[q]
Mk(neg, c, b) == LET idx == SelectSeq(<<1, 2, 3, 4, 5>>, LAMBDA k : c[k] >= 0)
                 IN [neg |-> neg, parts |-> [j \in 1..Len(idx) |-> [v |-> c[idx[j]], u |-> Units[idx[j]], sp |-> b[idx[j]]]]]
TypedDom == {Mk(t[1], t[2], t[3]) : t \in {tt \in Signs \X Choice \X [1..5 -> BOOLEAN] : GoodBits(tt[2], tt[3])}}

Printed == {Dur(neg, d * 1440 + h * 60 + m, s, ns) : neg \in Signs, d \in PD, h \in PH, m \in PM, s \in PS, ns \in PNs}

Init == /\ pc = "call" /\ i = 1 /\ st = St0 /\ negate = FALSE /\ res = Err
        /\ \/ /\ src = "print" /\ x \in {p \in Printed : Printable(p) /\ InRange(p)} /\ sp = Fmt(x)
           \/ /\ src = "typed"
              /\ sp \in TypedDom
              /\ x = Den(sp)
        /\ text = Chars(sp)


(* ParseDuration up to the call of parseDurationWithDays *)
Enter == /\ pc = "call"
         /\ IF Impl = "asis"
            THEN IF ~HasD(text)
                 THEN pc' = "done" /\ res' = GoParse(text) /\ UNCHANGED <<text, negate>>
                 ELSE pc' = "scan" /\ UNCHANGED <<res, text, negate>>
            ELSE IF ~HasD(text)
                 THEN pc' = "done" /\ res' = GoParse(NoSpace(text)) /\ UNCHANGED <<text, negate>>
                 ELSE /\ pc' = "scan" /\ UNCHANGED res
                      /\ IF text[1] = "-" THEN text' = Tail(text) /\ negate' = TRUE
                                          ELSE UNCHANGED <<text, negate>>
         /\ UNCHANGED <<src, x, sp, i, st>>

(* one iteration of "for _, ch := range durationString" *)
Scan == /\ pc = "scan" /\ i <= Len(text)
        /\ st' = ScanStep(st, text[i]) /\ i' = i + 1
        /\ UNCHANGED <<pc, src, x, sp, text, negate, res>>

(* the code after the loop, and the return *)
Finish == /\ pc = "scan" /\ i > Len(text)
          /\ LET r == ScanTail(st) IN res' = IF r.ok /\ negate THEN Ok(Negate(r.val)) ELSE r
          /\ pc' = "done"
          /\ UNCHANGED <<src, x, sp, text, i, st, negate>>

Next == Enter \/ Scan \/ Finish
Spec == Init /\ [][Next]_vars

(* ------------------------------------------------------------------------ *)
(* C37                                                                       *)
Correct == pc = "done" => res.ok /\ res.val = (IF src = "print" THEN Trunc(x) ELSE x)
(* facts about the input of the call (evaluated once per behaviour, at the call) *)
PrintedIsDocumented == (pc = "call" /\ src = "print") => InDoc(sp) /\ Den(sp) = Trunc(x) /\ InRange(x)
TypedIsDocumented   == (pc = "call" /\ src = "typed") => InDoc(sp)
(* the step-by-step machine and the one-shot function used by the contract agree *)
MachineIsModel == pc = "done" => res = ParseModel(Impl, Chars(sp))
TypeOK == /\ pc \in {"call", "scan", "done"} /\ src \in {"print", "typed"}
          /\ i \in 1..(Len(text) + 1) /\ negate \in BOOLEAN /\ res.ok \in BOOLEAN
=============================================================================

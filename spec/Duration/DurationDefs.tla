---------------------------- MODULE DurationDefs ----------------------------
(* C37 - printed durations can be read back (tucats/ego internal/util/time.go) *)
(*                                                                            *)
(* Three layers:                                                              *)
(*  1. the DOCUMENTED meaning: a spelling is an optional "-" followed by      *)
(*     integer fields in the order d h m s ms, each gap "" or " "            *)
(*     (docs/LANGUAGE.md: Go's syntax plus a "d" suffix, "units may be        *)
(*     separated by spaces"); Den(sp) is the duration it denotes; Fmt(x) is   *)
(*     the extended print form of FormatDuration(x, true).                    *)
(*  2. a CODE-SHAPED model of util.ParseDuration at character level: one      *)
(*     action for the entry (dispatch on "contains d"), one per iteration of  *)
(*     the scanning loop of parseDurationWithDays, one for the tail (flush,   *)
(*     days->hours, Sprintf, time.ParseDuration).  time.ParseDuration itself  *)
(*     (Go's library) is modelled by GoParse for the alphabet used here.      *)
(*       Impl = "asis"  : the code as found                                   *)
(*       Impl = "fixed" : white space dropped before Go's parser is used, a   *)
(*                        leading sign taken off before the day-aware scan    *)
(*  3. the property: whatever is printed (src = "print") or typed in the      *)
(*     documented form (src = "typed") is parsed, without error, to the       *)
(*     duration it denotes  (Correct), and the printed form is a documented   *)
(*     spelling of the duration truncated to the second (PrintedIsDocumented).*)
(*                                                                            *)
(* TLC integers are 32 bit: a duration is [neg, min, sec, ns] (minutes up to  *)
(* 10^6 h = 6*10^7, seconds 0..59, nanoseconds 0..10^9-1), never a count of   *)
(* seconds or nanoseconds.                                                    *)
EXTENDS Integers, Sequences, FiniteSets, TLC

(* ------------------------------------------------------------------------ *)
(* durations                                                                *)
Dur(neg, min, sec, ns) == [neg |-> neg /\ (min # 0 \/ sec # 0 \/ ns # 0), min |-> min, sec |-> sec, ns |-> ns]
Zero      == Dur(FALSE, 0, 0, 0)
Trunc(x)  == Dur(x.neg, x.min, x.sec, 0)           \* towards zero, to the second
Negate(x) == Dur(~x.neg, x.min, x.sec, x.ns)
MaxMin    == 60000000                              \* 10^6 hours
InRange(x) == x.min < MaxMin \/ (x.min = MaxMin /\ x.sec = 0 /\ x.ns = 0)

(* "the same duration to the second": the two differ by less than one second *)
(* (for whole-second durations this is equality).  No product may overflow.  *)
Close(a, b) ==
  IF a.neg # b.neg /\ a # Zero /\ b # Zero
  THEN a.min = 0 /\ b.min = 0 /\ a.sec = 0 /\ b.sec = 0 /\ a.ns + b.ns < 1000000000
  ELSE LET dm == a.min - b.min IN
       /\ dm \in {-1, 0, 1}
       /\ LET ds == dm * 60 + (a.sec - b.sec) IN      \* whole seconds a-b (magnitudes)
          \/ ds = 0
          \/ ds = 1  /\ a.ns < b.ns
          \/ ds = -1 /\ b.ns < a.ns

(* ------------------------------------------------------------------------ *)
(* spellings: [neg: BOOLEAN, parts: Seq([v: Nat, u: unit, sp: BOOLEAN])]      *)
(* sp = "a space precedes this field"                                        *)
Units == <<"d", "h", "m", "s", "ms">>
UnitSet == {"d", "h", "m", "s", "ms"}
UnitIndex == [u \in UnitSet |-> CHOOSE i \in 1..5 : Units[i] = u]
UnitIx(u) == UnitIndex[u]

RECURSIVE TotUpTo(_, _, _)
TotUpTo(ps, u, n) == IF n = 0 THEN 0 ELSE TotUpTo(ps, u, n - 1) + (IF ps[n].u = u THEN ps[n].v ELSE 0)
Tot(ps, u) == TotUpTo(ps, u, Len(ps))

(* value of a bag of unit totals (all >= 0, bounded so nothing overflows) *)
Norm(neg, d, h, m, s, ms) ==
  LET secT == s + ms \div 1000
  IN Dur(neg, d * 1440 + h * 60 + m + secT \div 60, secT % 60, (ms % 1000) * 1000000)

Den(sp) == Norm(sp.neg, Tot(sp.parts, "d"), Tot(sp.parts, "h"), Tot(sp.parts, "m"), Tot(sp.parts, "s"), Tot(sp.parts, "ms"))

InDoc(sp) == /\ Len(sp.parts) >= 1
             /\ sp.parts[1].sp = FALSE
             /\ \A i \in 1..Len(sp.parts) : sp.parts[i].v \in Nat /\ sp.parts[i].u \in UnitSet
             /\ \A i, j \in 1..Len(sp.parts) : i < j => UnitIx(sp.parts[i].u) < UnitIx(sp.parts[j].u)

(* text of a spelling, as a sequence of one-character strings *)
Digit == <<"0", "1", "2", "3", "4", "5", "6", "7", "8", "9">>
RECURSIVE NatChars(_)
NatChars(n) == IF n < 10 THEN <<Digit[n + 1]>> ELSE NatChars(n \div 10) \o <<Digit[(n % 10) + 1]>>
IntChars(n) == IF n < 0 THEN <<"-">> \o NatChars(-n) ELSE NatChars(n)
UnitChars(u) == IF u = "ms" THEN <<"m", "s">> ELSE <<u>>
PartChars(p) == (IF p.sp THEN <<" ">> ELSE <<>>) \o NatChars(p.v) \o UnitChars(p.u)
RECURSIVE CharsUpTo(_, _)
CharsUpTo(sp, n) == IF n = 0 THEN (IF sp.neg THEN <<"-">> ELSE <<>>) ELSE CharsUpTo(sp, n - 1) \o PartChars(sp.parts[n])
Chars(sp) == CharsUpTo(sp, Len(sp.parts))

(* the extended print form (FormatDuration(x, TRUE)) for x = 0 or |x| >= 1s:  *)
(* days only when there are 24 hours or more, a field only when it is not    *)
(* zero, fields separated by one space, the fraction of a second dropped.    *)
Printable(x) == x = Zero \/ x.min > 0 \/ x.sec > 0
Fmt(x) ==
  IF x.min = 0 /\ x.sec = 0 THEN [neg |-> FALSE, parts |-> <<[v |-> 0, u |-> "s", sp |-> FALSE]>>]
  ELSE LET all == <<[v |-> x.min \div 1440, u |-> "d"], [v |-> (x.min \div 60) % 24, u |-> "h"],
                    [v |-> x.min % 60, u |-> "m"], [v |-> x.sec, u |-> "s"]>>
           nz  == SelectSeq(all, LAMBDA p : p.v > 0)
       IN [neg |-> x.neg, parts |-> [i \in 1..Len(nz) |-> [v |-> nz[i].v, u |-> nz[i].u, sp |-> i > 1]]]

(* ------------------------------------------------------------------------ *)
(* Go's time.ParseDuration on the alphabet {-, 0-9, space, d h m s}:          *)
(* [-]? (digits unit)+ ; a unit is the run of characters up to the next       *)
(* digit and must be one of h m s ms (so "h " and "d" are unknown units).     *)
DigitSet == {"0", "1", "2", "3", "4", "5", "6", "7", "8", "9"}
DigitValue == [c \in DigitSet |-> (CHOOSE k \in 1..10 : Digit[k] = c) - 1]
IsDigit(c) == c \in DigitSet
DigitVal(c) == DigitValue[c]
RECURSIVE NatValUpTo(_, _, _)
NatValUpTo(cs, a, b) == IF b < a THEN 0 ELSE NatValUpTo(cs, a, b - 1) * 10 + DigitVal(cs[b])   \* value of cs[a..b]
NatVal(cs) == NatValUpTo(cs, 1, Len(cs))
RunEnd(cs, k, digits) ==      \* first index >= k whose character is (not) a digit, or Len+1
  LET S == {j \in k..Len(cs) : IsDigit(cs[j]) # digits} IN IF S = {} THEN Len(cs) + 1 ELSE CHOOSE j \in S : \A q \in S : j <= q
Err == [ok |-> FALSE, val |-> Zero]
Ok(v) == [ok |-> TRUE, val |-> v]
RECURSIVE GoItems(_, _, _)
GoItems(cs, k, acc) ==        \* acc = [h, m, s, ms]
  IF k > Len(cs) THEN [ok |-> TRUE, acc |-> acc]
  ELSE LET e1 == RunEnd(cs, k, TRUE)
           e2 == RunEnd(cs, e1, FALSE)
           u  == SubSeq(cs, e1, e2 - 1)
           n  == NatValUpTo(cs, k, e1 - 1)
       IN IF e1 = k \/ e2 = e1 THEN [ok |-> FALSE, acc |-> acc]
          ELSE IF u = <<"h">> THEN GoItems(cs, e2, [acc EXCEPT !.h = @ + n])
          ELSE IF u = <<"m">> THEN GoItems(cs, e2, [acc EXCEPT !.m = @ + n])
          ELSE IF u = <<"s">> THEN GoItems(cs, e2, [acc EXCEPT !.s = @ + n])
          ELSE IF u = <<"m", "s">> THEN GoItems(cs, e2, [acc EXCEPT !.ms = @ + n])
          ELSE [ok |-> FALSE, acc |-> acc]
GoParse(cs) ==
  LET neg  == cs # <<>> /\ cs[1] = "-"
      body == IF neg THEN Tail(cs) ELSE cs
      r    == GoItems(body, 1, [h |-> 0, m |-> 0, s |-> 0, ms |-> 0])
  IN IF body = <<>> \/ ~r.ok THEN Err ELSE Ok(Norm(neg, 0, r.acc.h, r.acc.m, r.acc.s, r.acc.ms))

(* ------------------------------------------------------------------------ *)
(* the scanning loop of parseDurationWithDays                                *)
(* egostrings.Atoi on what the buffer can hold here: [-]digits               *)
IsInt(cs) == LET from == IF cs # <<>> /\ cs[1] = "-" THEN 2 ELSE 1
             IN from <= Len(cs) /\ \A k \in from..Len(cs) : IsDigit(cs[k])
IntVal(cs) == IF cs[1] = "-" THEN -NatValUpTo(cs, 2, Len(cs)) ELSE NatVal(cs)

St0 == [chars |-> <<>>, mSeen |-> FALSE, days |-> 0, hours |-> 0, mins |-> 0, secs |-> 0, ms |-> 0, err |-> FALSE]

ScanStep(st, ch) ==
  IF st.err THEN st
  ELSE IF st.chars # <<>> /\ ~IsInt(st.chars) THEN [st EXCEPT !.err = TRUE]      \* Atoi fails at the top of the loop
  ELSE LET value == IF st.chars = <<>> THEN 0 ELSE IntVal(st.chars)
           mflush == st.mSeen /\ st.chars # <<>>
       IN CASE ch = "d" -> [st EXCEPT !.mins = IF mflush THEN value ELSE @, !.days = IF mflush THEN 0 ELSE value,
                                       !.mSeen = FALSE, !.chars = <<>>]
            [] ch = "h" -> [st EXCEPT !.mins = IF mflush THEN value ELSE @, !.hours = IF mflush THEN 0 ELSE value,
                                       !.mSeen = FALSE, !.chars = <<>>]
            [] ch = "m" -> [st EXCEPT !.mSeen = TRUE]
            [] ch = "s" -> IF st.mSeen THEN [st EXCEPT !.ms = value, !.chars = <<>>, !.mSeen = FALSE]
                           ELSE IF st.chars # <<>> THEN [st EXCEPT !.secs = value, !.chars = <<>>]
                           ELSE st
            [] OTHER    -> LET s1 == IF st.mSeen
                                     THEN [st EXCEPT !.mins = IF st.chars # <<>> THEN value ELSE @, !.chars = <<>>, !.mSeen = FALSE]
                                     ELSE st
                           IN IF ch = " " THEN s1 ELSE [s1 EXCEPT !.chars = Append(@, ch)]

(* after the loop: pending minutes, left-over text, days into hours, Sprintf + Go's parser *)
ScanTail(st) ==
  IF st.err THEN Err
  ELSE IF st.mSeen /\ st.chars # <<>> /\ ~IsInt(st.chars) THEN Err
  ELSE LET mins  == IF st.mSeen /\ st.chars # <<>> THEN IntVal(st.chars) ELSE st.mins
           rest  == IF st.mSeen THEN <<>> ELSE st.chars
           hours == st.hours + st.days * 24
       IN IF rest # <<>> THEN Err
          ELSE GoParse(IntChars(hours) \o <<"h">> \o IntChars(mins) \o <<"m">> \o IntChars(st.secs) \o <<"s">>
                       \o IntChars(st.ms) \o <<"m", "s">>)

(* the whole parser as one function of the text (the same steps the machine in *)
(* Duration.tla takes one at a time) *)
HasD(cs) == \E k \in 1..Len(cs) : cs[k] = "d"
NoSpace(cs) == SelectSeq(cs, LAMBDA c : c # " ")
RECURSIVE ScanUpTo(_, _)
ScanUpTo(cs, n) == IF n = 0 THEN St0 ELSE ScanStep(ScanUpTo(cs, n - 1), cs[n])
ScanAll(cs) == ScanUpTo(cs, Len(cs))
ParseModel(impl, cs) ==
  IF impl = "asis"
  THEN IF ~HasD(cs) THEN GoParse(cs) ELSE ScanTail(ScanAll(cs))
  ELSE IF ~HasD(cs) THEN GoParse(NoSpace(cs))
       ELSE LET neg  == cs[1] = "-"
                r    == ScanTail(ScanAll(IF neg THEN Tail(cs) ELSE cs))
            IN IF r.ok /\ neg THEN Ok(Negate(r.val)) ELSE r
=============================================================================

CONSTANTS
  ModS = 12
  ModV = 360
  Ext2 = 8
  ModP = 150
  ModQ = 150
  Seed = 1
INIT Init
NEXT Next
INVARIANTS Emit
CHECK_DEADLOCK FALSE

---------------------------- MODULE EgoCrash_Gen ----------------------------
(* Generator for C07: every single token-level edit (EgoCrashDefs!Apply) of every *)
(* base program of the corpus, enumerated by index <<b, i, k, v>>; a tier     *)
(* takes the slice Sel1 (a residue class of a linear form of the index, moved *)
(* by Seed: the slices of Seed = 0..Mod-1 partition the whole space; the      *)
(* thorough tier takes ModS = 1, every edit of the one-variant kinds), and a  *)
(* sample of second edits applied to the result of a first one.               *)
(* Init enumerates the small index records; Next builds the mutated token     *)
(* sequence; the invariant Emit prints each finished case as JSON:            *)
(*   [b |-> base name, n |-> number of edits, cls |-> <<edit classes>>,       *)
(*    at |-> <<positions>>, toks |-> <<spellings>>]                           *)
EXTENDS EgoCrashDefs, Json

CONSTANTS ModS,     \* 1 of ModS edits of the kinds with one variant per position (del dup swap trunc) and of lit is taken
          ModV,     \* 1 of ModV edits of the kinds with many variants per position (rep ins) is taken
          Ext2,     \* 1 of Ext2 first edits gets second edits: at 1 of ModP positions, 1 of ModQ variants
          ModP, ModQ,
          Seed

Corpus == ndJsonDeserialize("corpus.ndjson")     \* <<[name, toks: <<[t, lx]>>]>>

VARIABLES st,      \* "idx" (index chosen) | "one" | "two"
          b, i, k, v,
          toks, cls, at

gvars == <<st, b, i, k, v, toks, cls, at>>

KindNo(kk) == CHOOSE n \in 1..Len(Kinds) : Kinds[n] = kk
H(bb, ii, kk, vv) == bb * 37 + ii * 11 + KindNo(kk) * 5 + vv

ModK(kk) == IF kk \in {"rep", "ins"} THEN ModV ELSE ModS
Sel1(bb, ii, kk, vv) == (H(bb, ii, kk, vv) + Seed) % ModK(kk) = 0
(* the variants Sel1 takes at <<bb, ii, kk>>, computed instead of filtered (v has coefficient 1 in H) *)
VSel(bb, ii, kk, nv) == LET m == ModK(kk)
                            r == (H(bb, ii, kk, 0) + Seed) % m
                        IN  {(m - r) + n * m : n \in 0..(nv \div m)} \cap (1..nv)
SelX(bb, ii, kk, vv) == ((H(bb, ii, kk, vv) + Seed) \div ModK(kk)) % Ext2 = 0
SelP(h, jj)          == (h + jj * 13 + Seed) % ModP = 0
SelQ(h, jj, k2, v2)  == (h * 3 + jj + KindNo(k2) * 5 + v2) % ModQ = 0

KindSet == {Kinds[n] : n \in 1..Len(Kinds)}

Init == /\ st = "idx"
        /\ b \in 1..Len(Corpus)
        /\ i \in 1..Len(Corpus[b].toks)
        /\ k \in KindSet
        /\ v \in VSel(b, i, k, NVar(Corpus[b].toks, i, k))
        /\ Sel1(b, i, k, v)
        /\ Applicable(Corpus[b].toks, i, k, v)
        /\ toks = <<>> /\ cls = <<>> /\ at = <<>>

First == /\ st = "idx"
         /\ st' = "one"
         /\ toks' = Apply(Corpus[b].toks, i, k, v)
         /\ cls' = <<EditClass(Corpus[b].toks, i, k, v)>>
         /\ at' = <<i>>
         /\ UNCHANGED <<b, i, k, v>>

Second == /\ st = "one" /\ SelX(b, i, k, v)
          /\ \E jj \in 1..Len(toks) :
             /\ SelP(H(b, i, k, v), jj)
             /\ \E k2 \in KindSet \ {"trunc"} : \E v2 \in 1..NVar(toks, jj, k2) :
                /\ SelQ(H(b, i, k, v), jj, k2, v2)
                /\ Applicable(toks, jj, k2, v2)
                /\ toks' = Apply(toks, jj, k2, v2)
                /\ cls' = Append(cls, EditClass(toks, jj, k2, v2))
                /\ at' = Append(at, jj)
          /\ st' = "two"
          /\ UNCHANGED <<b, i, k, v>>

Next == First \/ Second

Emit == st = "idx" \/ PrintT(ToJson([b |-> Corpus[b].name, n |-> Len(cls), cls |-> cls, at |-> at,
                                     toks |-> [j \in 1..Len(toks) |-> toks[j].t]]))
=============================================================================

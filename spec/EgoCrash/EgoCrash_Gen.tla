---------------------------- MODULE EgoCrash_Gen ----------------------------
(* Generator for C07: every single token-level edit (EgoCrashDefs!Apply) of every *)
(* base program of the corpus, enumerated by index <<b, i, k, v>>; a tier     *)
(* takes the slice Sel (a residue class of a linear form of the index, moved  *)
(* by Seed: the slices of Seed = 0..Mod1-1 partition the whole space), and a  *)
(* sample of second edits applied to the result of a first one.               *)
(* Init enumerates the small index records; Next builds the mutated token     *)
(* sequence; the invariant Emit prints each finished case as JSON:            *)
(*   [b |-> base name, n |-> number of edits, cls |-> <<edit classes>>,       *)
(*    at |-> <<positions>>, toks |-> <<spellings>>]                           *)
EXTENDS EgoCrashDefs, Json

CONSTANTS Mod1,     \* 1 of Mod1 single edits is taken
          Mod2,     \* 1 of Mod2 second edits is taken, after ...
          Ext2,     \* ... 1 of Ext2 first edits
          Seed

Corpus == ndJsonDeserialize("corpus.ndjson")     \* <<[name, toks: <<[t, lx]>>]>>

VARIABLES st,      \* "idx" (index chosen) | "one" | "two"
          b, i, k, v,
          toks, cls, at

gvars == <<st, b, i, k, v, toks, cls, at>>

KindNo(kk) == CHOOSE n \in 1..Len(Kinds) : Kinds[n] = kk
H(bb, ii, kk, vv) == bb * 37 + ii * 11 + KindNo(kk) * 5 + vv * 7

Sel1(bb, ii, kk, vv) == (H(bb, ii, kk, vv) + Seed) % Mod1 = 0
SelX(bb, ii, kk, vv) == ((H(bb, ii, kk, vv) + Seed) \div Mod1) % Ext2 = 0
Sel2(bb, ii, kk, vv, jj, k2, v2) == (H(bb, ii, kk, vv) * 3 + jj * 13 + KindNo(k2) * 5 + v2 * 7 + Seed) % Mod2 = 0

KindSet == {Kinds[n] : n \in 1..Len(Kinds)}
MaxVar == Len(Pool) + Len(Markers)

Init == /\ st = "idx"
        /\ b \in 1..Len(Corpus)
        /\ i \in 1..Len(Corpus[b].toks)
        /\ k \in KindSet
        /\ v \in 1..MaxVar
        /\ v <= NVar(Corpus[b].toks, i, k)
        /\ Sel1(b, i, k, v)
        /\ Applicable(Corpus[b].toks, i, k, v)
        /\ toks = <<>> /\ cls = <<>> /\ at = <<>>

First == /\ st = "idx"
         /\ st' = "one"
         /\ toks' = Apply(Corpus[b].toks, i, k, v)
         /\ cls' = <<EditClass(Corpus[b].toks, i, k, v)>>
         /\ at' = <<i>>
         /\ UNCHANGED <<b, i, k, v>>

Second == /\ st = "one" /\ SelX(b, i, k, v)
          /\ \E jj \in 1..Len(toks), k2 \in KindSet \ {"trunc"}, v2 \in 1..MaxVar :
                /\ v2 <= NVar(toks, jj, k2)
                /\ Sel2(b, i, k, v, jj, k2, v2)
                /\ Applicable(toks, jj, k2, v2)
                /\ toks' = Apply(toks, jj, k2, v2)
                /\ cls' = Append(cls, EditClass(toks, jj, k2, v2))
                /\ at' = Append(at, jj)
          /\ st' = "two"
          /\ UNCHANGED <<b, i, k, v>>

Next == First \/ Second

Emit == st = "idx" \/ PrintT(ToJson([b |-> Corpus[b].name, n |-> Len(cls), cls |-> cls, at |-> at,
                                     toks |-> [j \in 1..Len(toks) |-> toks[j].t]]))
=============================================================================

------------------------------ MODULE EgoCrash ------------------------------
(* C07 - no source text crashes the host process.                            *)
(*                                                                           *)
(* Part 1 (host model): one process hosting the interpreter, entered through *)
(* `ego run file` ("run"), the console reading its program from standard     *)
(* input ("repl") or the server's /admin/run handler ("server").  A text is  *)
(* abstracted by the place where it makes the implementation meet an         *)
(* anomaly (a token stream ending early, an operand of an unexpected shape,  *)
(* a native function called with something it cannot take ...).  The code's  *)
(* mechanisms are the ones named by the property: every stage turns the      *)
(* anomaly into an error return (compiler, bytecode); a native call runs     *)
(* under safeReflectCall; the router recovers a panicking handler goroutine. *)
(* Nothing recovers a panic on any other goroutine or in `ego run`.          *)
(* The property: the process is never lost to a Go panic / fatal error and   *)
(* every text ends in one of AllowedEnd.                                     *)
(*                                                                           *)
(* EgoCrashDefs has part 2 (texts: the token-level edits EgoCrash_Gen        *)
(* enumerates) and part 3 (contract: Outcome / Post / Key judge one logged   *)
(* execution of the real code, EgoCrash_Trace).                              *)
EXTENDS EgoCrashDefs

CONSTANTS Impl,       \* "guarded" (what C07 demands) | "noguard" (native calls run bare) | "unchecked" (the parse stage panics)
          MaxTexts    \* texts handled by one repl / server process in the model

Stages   == <<"lex", "parse", "exec">>
(* where a text makes the implementation meet an anomaly *)
Faults   == {"none", "lex", "parse", "exec", "native", "childexec", "childnative", "spin"}

Checked(stage) == ~(Impl = "unchecked" /\ stage = "parse")
NativeGuard    == Impl # "noguard"

VARIABLES entry,    \* entry point of this process
          proc,     \* "up" | "exited" (normal end) | "killed" (time bound of the environment) | "crashed" (Go panic / fatal error)
          phase,    \* "idle" | "lex" | "parse" | "exec" | "report"
          text,     \* fault class of the text being handled
          end,      \* how the handling of the current text ended ("none" while running)
          served    \* texts handled so far

hvars == <<entry, proc, phase, text, end, served>>

HInit == /\ entry \in Entries
         /\ proc = "up" /\ phase = "idle" /\ text = "none" /\ end = "none" /\ served = 0

Submit(f) == /\ proc = "up" /\ phase = "idle" /\ served < MaxTexts
             /\ text' = f /\ phase' = "lex" /\ end' = "none"
             /\ UNCHANGED <<entry, proc, served>>

(* a Go panic raised on goroutine g ("main": the goroutine that serves the text; "child": one started by a go statement) *)
GoPanic(g, inNative) ==
    IF inNative /\ NativeGuard
    THEN /\ end' = "error" /\ phase' = "report" /\ UNCHANGED proc          \* safeReflectCall turns it into an error
    ELSE IF g = "main" /\ entry = "server"
    THEN /\ end' = "recovered" /\ phase' = "report" /\ UNCHANGED proc      \* router: deferred recover in ServeHTTP
    ELSE /\ proc' = "crashed" /\ end' = "hostcrash" /\ phase' = "report"   \* nothing else recovers

Anomaly(stage, g) ==
    IF Checked(stage)
    THEN /\ end' = "error" /\ phase' = "report" /\ UNCHANGED proc
    ELSE GoPanic(g, FALSE)

Lex == /\ proc = "up" /\ phase = "lex"
       /\ IF text = "lex" THEN Anomaly("lex", "main") ELSE phase' = "parse" /\ UNCHANGED <<proc, end>>
       /\ UNCHANGED <<entry, text, served>>

Parse == /\ proc = "up" /\ phase = "parse"
         /\ IF text = "parse" THEN Anomaly("parse", "main") ELSE phase' = "exec" /\ UNCHANGED <<proc, end>>
         /\ UNCHANGED <<entry, text, served>>

Exec == /\ proc = "up" /\ phase = "exec" /\ text # "spin"
        /\ CASE text = "exec"        -> Anomaly("exec", "main")
             [] text = "childexec"   -> Anomaly("exec", "child")
             [] text = "native"      -> GoPanic("main", TRUE)
             [] text = "childnative" -> GoPanic("child", TRUE)
             [] OTHER                -> end' = "output" /\ phase' = "report" /\ UNCHANGED proc
        /\ UNCHANGED <<entry, text, served>>

(* the environment's time / memory bound: a text that is still running is given up *)
Bound(how) == /\ proc = "up" /\ phase \in {"lex", "parse", "exec"}
              /\ end' = how /\ phase' = "report"
              /\ proc' = IF entry \in {"run", "repl"} THEN "killed" ELSE proc
              /\ UNCHANGED <<entry, text, served>>

Report == /\ phase = "report" /\ proc = "up"
          /\ served' = served + 1
          /\ phase' = "idle"
          /\ proc' = IF entry \in {"run", "repl"} THEN "exited" ELSE "up"    \* a program given at once runs exactly once
          /\ UNCHANGED <<entry, text, end>>

HNext == \/ \E f \in Faults : Submit(f)
         \/ Lex \/ Parse \/ Exec \/ Report
         \/ \E how \in {"timeout", "resource"} : Bound(how)

HSpec == HInit /\ [][HNext]_hvars

(* the property *)
NoHostCrash == proc # "crashed"
EndSound    == phase = "report" => end \in AllowedEnd(entry)
HTypeOK     == /\ proc \in {"up", "exited", "killed", "crashed"}
               /\ phase \in {"idle", "lex", "parse", "exec", "report"}
               /\ text \in Faults /\ served \in 0..MaxTexts
               /\ end \in {"none", "output", "error", "timeout", "resource", "recovered", "hostcrash"}
=============================================================================

---------------------------- MODULE EgoCrashDefs ----------------------------
(* C07 - definitions shared by the host model (EgoCrash), the generator      *)
(* (EgoCrash_Gen) and the contract (EgoCrash_Trace): how the handling of a   *)
(* text may end, token-level edits of valid programs, and the contract over  *)
(* one logged execution of the real code.                                    *)
EXTENDS Integers, Sequences, FiniteSets, TLC

Entries  == {"run", "repl", "server", "lib"}     \* "lib": the run path driven in-process (recover() around app.Run)

(* how the handling of one text may end, as seen from outside *)
AllowedEnd(e) == {"output", "error", "timeout", "resource"} \cup (IF e = "server" THEN {"recovered"} ELSE {})

-----------------------------------------------------------------------------
(* Part 2: texts.  A token is [t |-> spelling, lx |-> lexical category]; lx is what a scanner sees from the first *)
(* character ("word" "num" "str" "at" "punct" "nl" "blob"); the class refines it.                                  *)
Keywords == {"break", "case", "const", "continue", "default", "defer", "else", "fallthrough", "for", "func", "go", "if",
             "import", "make", "nil", "package", "panic", "range", "recover", "return", "switch", "type", "var",
             "try", "catch", "throw", "print", "call", "exit", "true", "false", "iota", "struct"}
TypeWords == {"int", "int8", "int16", "int32", "int64", "uint", "uint8", "uint16", "uint32", "uint64", "float32", "float64",
              "complex64", "complex128", "string", "bool", "byte", "chan", "map", "any", "error", "interface"}
Opens  == {"(", "[", "{"}
Closes == {")", "]", "}"}
Seps   == {",", ";", ":", "."}

Class(tok) ==
    CASE tok.lx = "word"  -> IF tok.t \in Keywords THEN "kw" ELSE IF tok.t \in TypeWords THEN "ty" ELSE "id"
      [] tok.lx = "punct" -> IF tok.t \in Opens THEN "open" ELSE IF tok.t \in Closes THEN "close"
                             ELSE IF tok.t \in Seps THEN "sep" ELSE "op"
      [] OTHER            -> tok.lx

W(s) == [t |-> s, lx |-> "word"]
P(s) == [t |-> s, lx |-> "punct"]
N(s) == [t |-> s, lx |-> "num"]
S(s) == [t |-> s, lx |-> "str"]
B(s) == [t |-> s, lx |-> "blob"]

(* replacement tokens, a few per class *)
Pool == << W("func"), W("for"), W("return"), W("if"), W("switch"), W("defer"), W("go"), W("range"), W("type"), W("struct"),
           W("import"), W("try"), W("nil"), W("case"),
           W("int"), W("string"), W("map"), W("chan"), W("interface"), W("any"),
           W("x"), W("main"), W("fmt"), W("_"),
           N("0"), N("9223372036854775807"), N("1.5"),
           S("\"s\""), S("`r`"), S("'c'"),
           P("("), P("["), P("{"), P(")"), P("]"), P("}"),
           P("+"), P("-"), P("*"), P("/"), P(":="), P("="), P("=="), P("<"), P("<-"), P("&"), P("!"), P("++"), P("..."),
           P("&&"), P("{}"), P("?"),
           P(","), P(";"), P(":"), P("."),
           [t |-> "@", lx |-> "at"], [t |-> "@wait", lx |-> "at"],
           [t |-> "NL", lx |-> "nl"] >>

(* inserted without a partner: brackets, quotes, comment and directive markers, and byte blobs the renderer expands  *)
(* (<NUL> a zero byte, <BADUTF8> bytes that are not UTF-8, <BOM>, <CR>, <HUGEID> a 100 000 character identifier,     *)
(* <HUGENUM> a 5 000 digit number, <LONGSTR> a 200 000 character string literal, <DEEP(> <DEEP[> <DEEP{> 20 000      *)
(* opening brackets, <DEEPNEG> 20 000 unary minus signs)                                                             *)
Markers == << P("("), P("["), P("{"), P(")"), P("]"), P("}"), S("\""), S("`"), S("'"), P("/*"), P("//"),
              [t |-> "@", lx |-> "at"], P("\\"), P("#"), P("$"),
              B("<NUL>"), B("<BADUTF8>"), B("<BOM>"), B("<CR>"), B("<HUGEID>"), B("<HUGENUM>"), B("<LONGSTR>"),
              B("<DEEP(>"), B("<DEEP[>"), B("<DEEP{>"), B("<DEEPNEG>") >>

(* boundary spellings that replace a literal of the same class *)
NumLits == << N("0"), N("1"), N("9223372036854775807"), N("9223372036854775808"), N("99999999999999999999999"), N("1e999"),
              N("0x"), N("1_0"), N("007"), N("4294967296"), N("1000000000000") >>
StrLits == << S("\"\""), S("\"%\""), S("\"%d%s%v%!\""), S("\"{{\""), S("\"\\x\""), S("``"), S("''"), S("'ab'") >>

Kinds == <<"del", "dup", "swap", "trunc", "rep", "ins", "lit">>

RemoveAt(s, i)    == SubSeq(s, 1, i - 1) \o SubSeq(s, i + 1, Len(s))
InsertAt(s, i, x) == SubSeq(s, 1, i - 1) \o <<x>> \o SubSeq(s, i, Len(s))
ReplaceAt(s, i, x) == [s EXCEPT ![i] = x]

Lits(tok) == IF Class(tok) = "num" THEN NumLits ELSE IF Class(tok) = "str" THEN StrLits ELSE <<>>

(* number of variants of edit kind k at position i of s *)
NVar(s, i, k) ==
    CASE k \in {"del", "dup", "trunc"} -> 1
      [] k = "swap" -> IF i < Len(s) THEN 1 ELSE 0
      [] k = "rep"  -> Len(Pool)
      [] k = "ins"  -> Len(Markers)
      [] k = "lit"  -> Len(Lits(s[i]))

(* is variant v of kind k applicable at i (a replacement must change the class, a literal must change the spelling) *)
Applicable(s, i, k, v) ==
    /\ i \in 1..Len(s) /\ v \in 1..NVar(s, i, k)
    /\ k = "rep" => Class(Pool[v]) # Class(s[i])
    /\ k = "lit" => Lits(s[i])[v].t # s[i].t
    /\ k = "trunc" => i < Len(s)

Apply(s, i, k, v) ==
    CASE k = "del"   -> RemoveAt(s, i)
      [] k = "dup"   -> InsertAt(s, i, s[i])
      [] k = "swap"  -> [s EXCEPT ![i] = s[i + 1], ![i + 1] = s[i]]
      [] k = "trunc" -> SubSeq(s, 1, i)
      [] k = "rep"   -> ReplaceAt(s, i, Pool[v])
      [] k = "ins"   -> InsertAt(s, i, Markers[v])
      [] k = "lit"   -> ReplaceAt(s, i, Lits(s[i])[v])

(* abstract class of an edit: kind, class of the token it touches, what it puts there *)
EditClass(s, i, k, v) ==
    k \o "/" \o Class(s[i]) \o
    (CASE k = "rep" -> ">" \o Class(Pool[v])
       [] k = "ins" -> "<" \o Markers[v].t
       [] k = "lit" -> ">" \o Lits(s[i])[v].t
       [] k = "swap" -> "~" \o Class(s[i + 1])
       [] OTHER -> "")

-----------------------------------------------------------------------------
(* Part 3: the contract over one logged execution.                                                                 *)
(* rec: [entry, timeout, oom, trace, signal, alive, recovered, err, kind, site, cls]                               *)
(*   timeout   the environment's time bound expired (the process was killed / the request abandoned by the driver)  *)
(*   oom       the Go runtime reported "out of memory" under the driver's address-space limit                       *)
(*   trace     a Go runtime trace was printed (panic: / fatal error: + goroutine dump) or, for "lib", a Go panic    *)
(*             reached the recover() around app.Run                                                                 *)
(*   signal    the process was ended by this signal (0: none, or killed by the driver's own time bound)             *)
(*   alive     run/repl/lib: the process ended by itself with an exit status; server: it still answers afterwards   *)
(*   recovered server: the router answered 500 after recovering a panic of the handler                              *)
(*   err       an Ego error was reported (message / non-zero status / "error" field)                                *)
Outcome(r) ==
    IF r.oom THEN "resource"
    ELSE IF r.trace THEN "hostcrash"
    ELSE IF r.timeout THEN "timeout"
    ELSE IF r.signal # 0 \/ ~r.alive THEN "hostcrash"
    ELSE IF r.recovered THEN "recovered"
    ELSE IF r.err THEN "error"
    ELSE "output"

WF(r)   == r.entry \in Entries
Post(r) == Outcome(r) \in AllowedEnd(r.entry)

(* identity of a failing case: what the host died of and where (top frame inside tucats/ego); the edit class when   *)
(* the place is unknown                                                                                             *)
Key(r) == IF r.site # "?" /\ r.site # ""
          THEN "crash/" \o r.kind \o "@" \o r.site
          ELSE "crash/" \o r.kind \o "/" \o r.entry \o "/" \o r.cls
=============================================================================

--------------------------- MODULE EgoCrash_Trace ---------------------------
(* F binding for C07: the contract EgoCrashDefs!Post judges every logged          *)
(* execution of the real code (io.ndjson, one record per (case, entry point)  *)
(* with the observation fields described at EgoCrashDefs!Outcome).  Each record   *)
(* is also a two-step behaviour of the host model: Submit ; <end>, so Post is *)
(* "the observed end is one the guarded model can reach" (EgoCrash_MC checks  *)
(* that those are exactly the ends in AllowedEnd).  At the last record the    *)
(* report [n, judged, bad, ends] is printed; bad carries Key of each failure. *)
EXTENDS EgoCrashDefs, Json

Log == ndJsonDeserialize("io.ndjson")

VARIABLES j, bad, judged, ends

Init == j = 1 /\ bad = {} /\ judged = 0 /\ ends = [o \in {"output", "error", "timeout", "resource", "recovered", "hostcrash"} |-> 0]
Next == /\ j <= Len(Log)
        /\ j' = j + 1
        /\ LET r == Log[j] IN
           /\ judged' = IF WF(r) THEN judged + 1 ELSE judged
           /\ bad' = IF WF(r) /\ ~Post(r) THEN bad \cup {[idx |-> j, id |-> r.id, entry |-> r.entry, key |-> Key(r)]} ELSE bad
           /\ ends' = IF WF(r) THEN [ends EXCEPT ![Outcome(r)] = @ + 1] ELSE ends

Report == j <= Len(Log) \/ PrintT(ToJson([n |-> Len(Log), judged |-> judged, bad |-> bad, ends |-> ends]))
=============================================================================

CONSTANTS
  Mod1 = 4
  Mod2 = 997
  Ext2 = 6
  Seed = 1
INIT Init
NEXT Next
INVARIANTS Emit
CHECK_DEADLOCK FALSE

CONSTANTS
  Impl = "guarded"
  MaxTexts = 3
INIT HInit
NEXT HNext
INVARIANTS HTypeOK NoHostCrash EndSound
CHECK_DEADLOCK FALSE

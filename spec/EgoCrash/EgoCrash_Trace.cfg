INIT Init
NEXT Next
INVARIANTS Report
CHECK_DEADLOCK FALSE

------------------------- MODULE SharedTables_Trace -------------------------
(* Binding T for C08: event logs recorded from real `ego run` processes      *)
(* (hooks verifAccess / verifLock in internal/language/symbols, verifFork /  *)
(* verifStart in bytecode/goroutine.go) are replayed as the actions of       *)
(* SharedTables and judged by its invariants.                                *)
(*                                                                            *)
(* trace.ndjson, one record per event, all fields always present:             *)
(*   run   number of the recorded process ("reset" starts a new one)          *)
(*   e     "acc" | "fork" | "start" | "reset"                                 *)
(*   g     goroutine (runtime goroutine id)        n  fork number             *)
(*   f     the function of package symbols that made the access               *)
(*   t     table (acc)   w  write   l  the goroutine really held the table's  *)
(*         mutex   x  ..for writing   s  the table's shared flag at that moment *)
(*   h     chains handed over: sequence of chains, a chain = sequence of      *)
(*         <<table, flag>> from a table up to its root.  acc: the chain of t   *)
(*         the first time t is mentioned (this is how parents are learned);   *)
(*         fork: the captured scope of the launched function value and of      *)
(*         every function value among the arguments, AFTER goByteCode did its  *)
(*         marking and before the child exists; start: the child's own table   *)
(* Table numbers are the real ids + 1 (0 = no parent).                        *)
(*                                                                            *)
(* The spec state is what SharedTables has: parent, shared, reach.  Unknown   *)
(* tables enter with the flag observed (Learn).  acc is Begin;End of the      *)
(* goroutine on the table (reach grows by the goroutine: it evidently can     *)
(* name the table); fork is Fork(g, child token, H, A) of Impl "fixed"; start *)
(* is Start.  Judgement, accumulated in `bad` (the log is always consumed to  *)
(* the end, so every offending event is reported, with its rule):             *)
(*   I2         an access to a flagged table made without its mutex (a site   *)
(*              that does not follow Begin) and an access by another          *)
(*              goroutine to the same part of the same table (name map, value  *)
(*              slots, slot bank: Reads/Writes below), one of them writing     *)
(*   Lock       the mutex of a table that is not flagged was held              *)
(*   I1         after the event, a table two goroutines can name is flagged   *)
(*   ForkSound  after Fork the handed chains are flagged (what Fork of the    *)
(*              demanded protocol leaves) - observed flags must agree         *)
(*   StartSound the child's table hangs under flagged tables only             *)
(*   FlagsGrow  no flag is ever seen cleared                                  *)
EXTENDS SharedTables, Json

VARIABLES l, run, bad,
          hist,    \* [table -> [r, w, ur, uw]]: <<goroutine, part>> read / written; ..without the mutex though flagged
          loose    \* accesses to flagged tables without the mutex, by site (reported, not judged)

TraceLog == ndJsonDeserialize("trace.ndjson")
N == Len(TraceLog)
Ev == TraceLog[l]

Ids(chain) == {chain[i][1] : i \in DOMAIN chain}
AllIds(h) == UNION {Ids(h[i]) : i \in DOMAIN h}
(* parent and observed flag of table x according to the chains of this event *)
ParOf(h, x) == LET c == CHOOSE c \in {h[i] : i \in DOMAIN h} : x \in Ids(c)
                   i == CHOOSE i \in DOMAIN c : c[i][1] = x
               IN IF i = Len(c) THEN 0 ELSE c[i + 1][1]
FlagOf(h, x) == LET c == CHOOSE c \in {h[i] : i \in DOMAIN h} : x \in Ids(c)
                    i == CHOOSE i \in DOMAIN c : c[i][1] = x
                IN c[i][2] = 1

(* Learn: tables never seen before enter the tree as observed *)
LPar(h) == IF h = <<>> THEN parent ELSE [x \in Tables \cup AllIds(h) |-> IF x \in Tables THEN parent[x] ELSE ParOf(h, x)]
LSh(h) == IF h = <<>> THEN shared ELSE [x \in Tables \cup AllIds(h) |-> IF x \in AllIds(h) THEN FlagOf(h, x) ELSE shared[x]]
LReach(h) == IF h = <<>> THEN reach ELSE [x \in Tables \cup AllIds(h) |-> IF x \in Tables THEN reach[x] ELSE {}]

Cleared(h) == {x \in AllIds(h) \cap Tables : shared[x] /\ ~FlagOf(h, x)}
Bad(rule, x) == [idx |-> l, run |-> run, rule |-> rule, t |-> x, g |-> Ev.g, e |-> Ev.e, f |-> Ev.f]
NoHist == [r |-> {}, w |-> {}, ur |-> {}, uw |-> {}]

(* what the functions of package symbols touch of a table: its name map "m",   *)
(* its value slots "v", its slot bank "b" (SLOTS.md registers)                 *)
Reads(f) == CASE f \in {"Get", "GetAnyScope", "GetLocal", "GetWithAttributes"} -> {"m", "v", "b"}
              [] f = "Set" -> {"m", "v"}
              [] f = "GetRegister" -> {"b"}
              [] f = "SetRegister" -> {}
              [] OTHER -> {"m"}
Writes(f) == CASE f = "Set" -> {"v"}
               [] f \in {"SetAlways", "SetWithAttributes", "SetConstant", "Create"} -> {"m", "v"}
               [] f \in {"Delete", "SetReadOnly"} -> {"m"}
               [] f = "SetRegister" -> {"b"}
               [] OTHER -> {}
HistOf(x) == IF x \in DOMAIN hist THEN hist[x] ELSE NoHist

I1At(sh, rc, T) == {x \in T : Cardinality(rc[x]) >= 2 /\ ~sh[x]}

TInit == /\ l = 1 /\ run = 0 /\ bad = {} /\ hist = <<>> /\ loose = {}
         /\ parent = <<>> /\ shared = <<>> /\ reach = <<>>
         /\ acc = <<>> /\ live = {} /\ born = {} /\ pend = <<>> /\ started = {}

Frame == UNCHANGED <<acc, live, born, pend, started>>

TReset == /\ l <= N /\ Ev.e = "reset"
          /\ parent' = <<>> /\ shared' = <<>> /\ reach' = <<>>
          /\ run' = Ev.run /\ bad' = bad /\ l' = l + 1 /\ hist' = <<>> /\ loose' = loose /\ Frame

TAcc == /\ l <= N /\ Ev.e = "acc"
        /\ LET h == Ev.h
               par == LPar(h)
               sh0 == LSh(h)
               sh == [sh0 EXCEPT ![Ev.t] = Ev.s]
               rc == [LReach(h) EXCEPT ![Ev.t] = @ \cup {Ev.g}]
               o == HistOf(Ev.t)
               myR == Reads(Ev.f)
               myW == Writes(Ev.f)
               un == Ev.s /\ ~(IF myW # {} /\ "x" \in DOMAIN Ev THEN Ev.x ELSE Ev.l)     \* flagged, yet not the mutex the access needs
               hits(S, cls) == \E p \in S : p[1] # Ev.g /\ p[2] \in cls      \* another goroutine touched one of cls
               clash == \/ un /\ (hits(o.w, myR \cup myW) \/ hits(o.r, myW))
                        \/ hits(o.uw, myR \cup myW) \/ hits(o.ur, myW)
               mine(cls) == {<<Ev.g, c>> : c \in cls}
               n == [r |-> o.r \cup mine(myR), w |-> o.w \cup mine(myW),
                     ur |-> IF un THEN o.ur \cup mine(myR) ELSE o.ur,
                     uw |-> IF un THEN o.uw \cup mine(myW) ELSE o.uw]
           IN /\ parent' = par /\ shared' = sh /\ reach' = rc
              /\ hist' = [x \in DOMAIN hist \cup {Ev.t} |-> IF x = Ev.t THEN n ELSE hist[x]]
              /\ loose' = IF un THEN loose \cup {[f |-> Ev.f, w |-> Ev.w]} ELSE loose
              /\ bad' = bad \cup {Bad("FlagsGrow", x) : x \in Cleared(h)}
                            \cup (IF Ev.l /\ ~Ev.s THEN {Bad("Lock", Ev.t)} ELSE {})
                            \cup (IF clash THEN {Bad("I2", Ev.t)} ELSE {})
                            \cup {Bad("I1", x) : x \in I1At(sh, rc, {Ev.t})}
        /\ run' = run /\ l' = l + 1 /\ Frame

(* the child does not exist yet: it is named by the fork number (negative)    *)
TFork == /\ l <= N /\ Ev.e = "fork"
         /\ LET h == Ev.h
                par == LPar(h)
                heads == {h[i][1][1] : i \in DOMAIN h}
                got == AncAll(par, heads)
                want == Mark(LSh(h), par, heads)           \* what Fork of the demanded protocol leaves
                obs == LSh(h)                              \* what goByteCode left
                rc == [x \in DOMAIN par |-> IF x \in got THEN LReach(h)[x] \cup {Ev.g, 0 - Ev.n} ELSE LReach(h)[x]]
            IN /\ parent' = par /\ shared' = obs /\ reach' = rc
               /\ bad' = bad \cup {Bad("FlagsGrow", x) : x \in Cleared(h)}
                             \cup {Bad("ForkSound", x) : x \in {y \in got : want[y] # obs[y]}}
         /\ run' = run /\ l' = l + 1 /\ UNCHANGED <<hist, loose>> /\ Frame

TStart == /\ l <= N /\ Ev.e = "start"
          /\ LET h == Ev.h
                 par == LPar(h)
                 own == h[1][1][1]
                 up == Anc(par, par[own])
                 sh == LSh(h)
                 rc == [x \in DOMAIN par |-> IF x \in up \cup {own} THEN LReach(h)[x] \cup {Ev.g} ELSE LReach(h)[x]]
             IN /\ parent' = par /\ shared' = sh /\ reach' = rc
                /\ bad' = bad \cup {Bad("FlagsGrow", x) : x \in Cleared(h)}
                              \cup {Bad("StartSound", x) : x \in {y \in up : ~sh[y]}}
                              \cup {Bad("I1", x) : x \in I1At(sh, rc, up)}
          /\ run' = run /\ l' = l + 1 /\ UNCHANGED <<hist, loose>> /\ Frame

TDone == /\ l = N + 1
         /\ PrintT(ToJson([n |-> N, bad |-> bad, loose |-> loose]))
         /\ l' = N + 2 /\ UNCHANGED <<parent, shared, reach, run, bad, hist, loose>> /\ Frame

TNext == TReset \/ TAcc \/ TFork \/ TStart \/ TDone
TSpec == TInit /\ [][TNext]_<<vars, l, run, bad, hist, loose>>
=============================================================================

------------------------------ MODULE ConcProg ------------------------------
(* C08, clause I3: a program whose shared state is only touched under a      *)
(* mutex or through channels prints the same result under every schedule.    *)
(*                                                                            *)
(* A small concurrent language (goroutines, one mutex, one WaitGroup,         *)
(* buffered channels with close/range) with an interleaving small-step       *)
(* semantics.  A behaviour = one program (chosen in Init from the families    *)
(* below) + one schedule.  TLC explores every schedule (BFS) or samples       *)
(* schedules of bigger programs (-simulate); at the end of main the values    *)
(* printed must be the ones the program's builder declared (Deterministic),   *)
(* no schedule may wedge (NoWedge) or send on a closed channel.               *)
(* The finished behaviour is emitted as a case (ConcProg_Gen): the program    *)
(* as an AST that lib-side code only pretty-prints, and what it must print.   *)
(*                                                                            *)
(* How a goroutine is launched and where (form, site) changes nothing in     *)
(* this semantics - it selects which symbol-table sharing path of the         *)
(* interpreter (SharedTables: Fork with H, with A, Give, nested NewTable)     *)
(* the concrete program drives:                                               *)
(*   form  clo     go func() {...}()            captures everything by name   *)
(*         clop    go func(k int, ..) {...}(i)  parameters + captured names   *)
(*         named   go worker(i, &x, &mu, &wg)   top-level function, pointers  *)
(*         namedg  go worker(i)                 top-level function, globals   *)
(*         cloarg  go runner(body, i)           closure handed over as an     *)
(*                                              argument of a named function  *)
(*         chanclo worker receives the closure through a channel              *)
(*   site  top | block | loop   (where the go statement stands)               *)
(*                                                                            *)
(* Statement   [k, a, b, c, x, ch, body]   (uniform record; unused = 0/Nil)   *)
(*   inc   x            mu.Lock(); X = X + x; mu.Unlock()                     *)
(*   rep   a body       for j := 0; j < a; j++ { body }                       *)
(*   send  ch x         ch <- x                                               *)
(*   recv  ch           v = <-ch                                              *)
(*   addv               acc = acc + v                                         *)
(*   range ch body      for v = range ch { body }                             *)
(*   close ch           close(ch)                                             *)
(*   spawn a b c        launch template a for k = b..c                        *)
(*   wgadd a | wgdone | wgwait                                                *)
(*   decl  a            d<a> := a     (a new variable in the current scope)   *)
(*   print x            fmt.Printf("%d\n", x)                                 *)
(*   app   a            S = S*10 + a  (S is shared and NOT under the mutex:   *)
(*                      only channel messages order the accesses)             *)
(* Expression  [e, n]:  lit n | k | kn (k*n) | v | acc | v10 (v*10+n) |       *)
(*                      vk (v*10+k) | X | S                                   *)
(* Channel     [e, n]:  c n (the channel variable c<n>) | ck n (c<k+n>) |     *)
(*                      p n (n-th channel parameter of the template)          *)
EXTENDS Integers, Sequences, FiniteSets, TLC

CONSTANTS Fams,     \* subset of {"counter","fanin","pipe","handoff"}
          Forms,    \* subset of the forms above            } rendering attributes: every compatible
          Sites,    \* subset of {"top","block","loop"}     } (form, site) of a finished behaviour is a case
          Ns,       \* numbers of workers / stages
          Reps,     \* iteration counts
          Lock      \* FALSE = negative control: Lock/Unlock do nothing

Nil == [e |-> "lit", n |-> 0]
St(k, a, b, c, x, ch, body) == [k |-> k, a |-> a, b |-> b, c |-> c, x |-> x, ch |-> ch, body |-> body]
Lit(n) == [e |-> "lit", n |-> n]
E(e) == [e |-> e, n |-> 0]
En(e, n) == [e |-> e, n |-> n]
Inc(x) == St("inc", 0, 0, 0, x, Nil, <<>>)
Rep(a, body) == St("rep", a, 0, 0, Nil, Nil, body)
Send(ch, x) == St("send", 0, 0, 0, x, ch, <<>>)
Recv(ch) == St("recv", 0, 0, 0, Nil, ch, <<>>)
AddV == St("addv", 0, 0, 0, Nil, Nil, <<>>)
Range(ch, body) == St("range", 0, 0, 0, Nil, ch, body)
Close(ch) == St("close", 0, 0, 0, Nil, ch, <<>>)
Spawn(t, lo, hi) == St("spawn", t, lo, hi, Nil, Nil, <<>>)
WgAdd(n) == St("wgadd", n, 0, 0, Nil, Nil, <<>>)
WgDone == St("wgdone", 0, 0, 0, Nil, Nil, <<>>)
WgWait == St("wgwait", 0, 0, 0, Nil, Nil, <<>>)
Decl(a) == St("decl", a, 0, 0, Nil, Nil, <<>>)
Prt(x) == St("print", 0, 0, 0, x, Nil, <<>>)
App(a) == St("app", a, 0, 0, Nil, Nil, <<>>)
C(n) == En("c", n)
P(n) == En("p", n)

(* a goroutine template: body + the channels passed as parameters (in terms of k);  *)
(* role "worker" = launched in the form / at the site of the case, the others are    *)
(* always `go func() {...}()` at the top of their launcher                           *)
Tm(role, chp, body) == [role |-> role, chp |-> chp, body |-> body]

RECURSIVE SumTo(_)
SumTo(n) == IF n = 0 THEN 0 ELSE n + SumTo(n - 1)
RECURSIVE Digits(_, _)      \* v followed by the decimal digits 1..n
Digits(v, n) == IF n = 0 THEN v ELSE Digits(v, n - 1) * 10 + n
RECURSIVE Alt(_)            \* 12 repeated r times
Alt(r) == IF r = 0 THEN 0 ELSE Alt(r - 1) * 100 + 12

Opt(b, s) == IF b THEN s ELSE <<>>

(* ---- families ----------------------------------------------------------- *)
(* n workers add their number r times to X under the mutex, main adds 100;    *)
(* shape "nested": main launches a goroutine that launches the workers        *)
Counter(shape, n, r, join, decl) ==
  LET sig == IF join = "wg" THEN <<WgDone>> ELSE <<Send(C(1), Lit(1))>>
      w == Tm("worker", <<>>, <<Rep(r, <<Inc(E("k"))>>)>> \o sig)
      wait == IF join = "wg" THEN <<WgWait>> ELSE <<Rep(n, <<Recv(C(1))>>)>>
      nested == shape = "nested"
      mid == Tm("mid", <<>>, <<Spawn(1, 1, n), Inc(Lit(7))>> \o sig)
      cnt == IF nested THEN n + 1 ELSE n
      wait2 == IF join = "wg" THEN <<WgWait>> ELSE <<Rep(cnt, <<Recv(C(1))>>)>>
  IN [fam |-> "counter", shape |-> shape, n |-> n, r |-> r, join |-> join, decl |-> decl, cap |-> cnt,
      caps |-> <<cnt>>,
      tm |-> IF nested THEN <<w, mid>> ELSE <<w>>,
      main |-> Opt(join = "wg", <<WgAdd(cnt)>>)
               \o (IF nested THEN <<Spawn(2, 0, 0)>> ELSE <<Spawn(1, 1, n)>>)
               \o Opt(decl, <<Decl(1), Decl(2)>>) \o <<Inc(Lit(100))>> \o wait2 \o <<Prt(E("X"))>>,
      exp |-> <<100 + r * SumTo(n) + (IF nested THEN 7 ELSE 0)>>]

(* n producers send k*10 r times, main sums what it receives *)
FanIn(n, r, cap, decl) ==
  LET w == Tm("worker", <<>>, <<Rep(r, <<Send(C(1), En("kn", 10))>>)>>)
  IN [fam |-> "fanin", shape |-> "flat", n |-> n, r |-> r, join |-> "count", decl |-> decl, cap |-> cap,
      caps |-> <<cap>>,
      tm |-> <<w>>,
      main |-> <<Spawn(1, 1, n)>> \o Opt(decl, <<Decl(1)>>)
               \o <<Rep(n * r, <<Recv(C(1)), AddV>>), Prt(E("acc"))>>,
      exp |-> <<10 * r * SumTo(n)>>]

(* n stages: stage k reads c<k>, appends digit k, writes c<k+1>; a feeder     *)
(* sends 1..r and closes; main prints what leaves the last stage, in order     *)
Pipe(n, r, cap, decl) ==
  LET st == Tm("worker", <<En("ck", 0), En("ck", 1)>>,
               <<Range(P(1), <<Send(P(2), E("vk"))>>), Close(P(2))>>)
      fd == Tm("feeder", <<>>, [j \in 1..r |-> Send(C(1), Lit(j))] \o <<Close(C(1))>>)
  IN [fam |-> "pipe", shape |-> "flat", n |-> n, r |-> r, join |-> "close", decl |-> decl, cap |-> cap,
      caps |-> [i \in 1..(n + 1) |-> cap],
      tm |-> <<st, fd>>,
      main |-> <<Spawn(1, 1, n), Spawn(2, 0, 0)>> \o Opt(decl, <<Decl(1)>>)
               \o <<Range(C(n + 1), <<Prt(E("v"))>>)>>,
      exp |-> [j \in 1..r |-> Digits(j, n)]]

(* main and one worker append to S in turn; only the two channels order them *)
Handoff(r, decl) ==
  LET w == Tm("worker", <<>>, <<Rep(r, <<Recv(C(1)), App(2), Send(C(2), E("v"))>>)>>)
  IN [fam |-> "handoff", shape |-> "flat", n |-> 1, r |-> r, join |-> "pingpong", decl |-> decl, cap |-> 1,
      caps |-> <<1, 1>>,
      tm |-> <<w>>,
      main |-> <<Spawn(1, 1, 1)>> \o Opt(decl, <<Decl(1)>>)
               \o <<Rep(r, <<App(1), Send(C(1), Lit(5)), Recv(C(2))>>), Prt(E("S"))>>,
      exp |-> <<Alt(r)>>]

Programs ==
     {Counter(s, n, r, j, d) : s \in {"flat", "nested"}, n \in Ns, r \in Reps, j \in {"wg", "chan"}, d \in BOOLEAN}
\cup {FanIn(n, r, c, TRUE) : n \in Ns, r \in Reps, c \in {1, 2}}
\cup {Pipe(n, r, c, FALSE) : n \in Ns, r \in Reps, c \in {1, 2}}
\cup {Handoff(r, d) : r \in Reps \cap (1..4), d \in BOOLEAN}      \* S holds 2r decimal digits

Cases == {p \in Programs : p.fam \in Fams}

(* the launch forms and sites a program can be written in (they select the      *)
(* interpreter path, not the meaning)                                           *)
ParamForms == {"clop", "named", "namedg", "cloarg", "chanclo"}     \* forms with a parameter k
OkForm(p, form, site) ==
    /\ (site = "loop" => form \in ParamForms /\ p.n >= 2)
    /\ (p.fam = "pipe" => form \in {"clop", "named"} /\ site # "loop")
    /\ (p.fam = "handoff" => form # "named" /\ site # "loop")
Variants(p) == {fs \in Forms \X Sites : OkForm(p, fs[1], fs[2])}

(* ---- flat code ---------------------------------------------------------- *)
(* micro-op [op, a, x, ch, j]; j = absolute jump target                       *)
Op(op, a, x, ch, j) == [op |-> op, a |-> a, x |-> x, ch |-> ch, j |-> j]

RECURSIVE Flat(_, _)
(* code of a statement list placed at offset off (first op has index off+1) *)
Flat(ss, off) ==
  IF ss = <<>> THEN <<>>
  ELSE LET s == Head(ss)
           one == CASE s.k = "inc" -> <<Op("lock", 0, Nil, Nil, 0), Op("rd", 0, Nil, Nil, 0),
                                        Op("wr", 0, s.x, Nil, 0), Op("unlock", 0, Nil, Nil, 0)>>
                    [] s.k = "rep" -> LET RECURSIVE Un(_, _)
                                          Un(i, o) == IF i = 0 THEN <<>>
                                                      ELSE LET b == Flat(s.body, o) IN b \o Un(i - 1, o + Len(b))
                                      IN Un(s.a, off)
                    [] s.k = "range" -> LET b == Flat(s.body, off + 1)
                                        IN <<Op("rhead", 0, Nil, s.ch, off + Len(b) + 3)>> \o b
                                           \o <<Op("jmp", 0, Nil, Nil, off + 1)>>
                    [] s.k = "spawn" -> [i \in 1..(s.c - s.b + 1) |-> Op("spawn", s.a, Lit(s.b + i - 1), Nil, 0)]
                    [] s.k = "app" -> <<Op("srd", 0, Nil, Nil, 0), Op("swr", s.a, Nil, Nil, 0)>>
                    [] OTHER -> <<Op(s.k, s.a, s.x, s.ch, 0)>>
       IN one \o Flat(Tail(ss), off + Len(one))

(* ---- state -------------------------------------------------------------- *)
VARIABLES prog,   \* the program of this behaviour
          gs,     \* goroutines: [code, pc, k, v, acc, tmp, cp]
          X, S, mu, wg, chs, out, fault
vars == <<prog, gs, X, S, mu, wg, chs, out, fault>>

NewG(code, k, cp) == [code |-> code, pc |-> 1, k |-> k, v |-> 0, acc |-> 0, tmp |-> 0, cp |-> cp]

Init == /\ prog \in Cases
        /\ gs = <<NewG(Flat(prog.main, 0), 0, <<>>)>>
        /\ X = 0 /\ S = 0 /\ mu = 0 /\ wg = 0 /\ fault = ""
        /\ chs = [i \in DOMAIN prog.caps |-> [q |-> <<>>, cap |-> prog.caps[i], closed |-> FALSE]]
        /\ out = <<>>

Val(g, x) == CASE x.e = "lit" -> x.n
               [] x.e = "k" -> g.k
               [] x.e = "kn" -> g.k * x.n
               [] x.e = "v" -> g.v
               [] x.e = "acc" -> g.acc
               [] x.e = "v10" -> g.v * 10 + x.n
               [] x.e = "vk" -> g.v * 10 + g.k
               [] x.e = "X" -> X
               [] x.e = "S" -> S

ChanOf(g, c) == CASE c.e = "c" -> c.n
                  [] c.e = "ck" -> g.k + c.n
                  [] c.e = "p" -> g.cp[c.n]

Running(i) == gs[i].pc <= Len(gs[i].code)
Finished == ~Running(1)          \* main returned: the program is over

Adv(i, g) == [gs EXCEPT ![i] = [g EXCEPT !.pc = g.pc + 1]]

Step(i) ==
  LET g == gs[i]
      o == g.code[g.pc]
  IN /\ ~Finished /\ Running(i) /\ fault = ""
     /\ CASE o.op = "lock" ->
               /\ (Lock => mu = 0)
               /\ mu' = IF Lock THEN i ELSE mu
               /\ gs' = Adv(i, g) /\ UNCHANGED <<X, S, wg, chs, out, fault>>
          [] o.op = "unlock" ->
               /\ mu' = IF Lock THEN 0 ELSE mu
               /\ gs' = Adv(i, g) /\ UNCHANGED <<X, S, wg, chs, out, fault>>
          [] o.op = "rd" ->
               /\ gs' = Adv(i, [g EXCEPT !.tmp = X]) /\ UNCHANGED <<X, S, mu, wg, chs, out, fault>>
          [] o.op = "wr" ->
               /\ X' = g.tmp + Val(g, o.x)
               /\ gs' = Adv(i, [g EXCEPT !.tmp = 0]) /\ UNCHANGED <<S, mu, wg, chs, out, fault>>
          [] o.op = "srd" ->
               /\ gs' = Adv(i, [g EXCEPT !.tmp = S]) /\ UNCHANGED <<X, S, mu, wg, chs, out, fault>>
          [] o.op = "swr" ->
               /\ S' = g.tmp * 10 + o.a
               /\ gs' = Adv(i, [g EXCEPT !.tmp = 0]) /\ UNCHANGED <<X, mu, wg, chs, out, fault>>
          [] o.op = "send" ->
               LET c == ChanOf(g, o.ch) IN
               IF chs[c].closed
               THEN fault' = "send on closed channel" /\ UNCHANGED <<gs, X, S, mu, wg, chs, out>>
               ELSE /\ Len(chs[c].q) < chs[c].cap
                    /\ chs' = [chs EXCEPT ![c].q = Append(@, Val(g, o.x))]
                    /\ gs' = Adv(i, g) /\ UNCHANGED <<X, S, mu, wg, out, fault>>
          [] o.op = "recv" ->
               LET c == ChanOf(g, o.ch) IN
               /\ chs[c].q # <<>> \/ chs[c].closed
               /\ IF chs[c].q # <<>>
                  THEN /\ chs' = [chs EXCEPT ![c].q = Tail(@)]
                       /\ gs' = Adv(i, [g EXCEPT !.v = Head(chs[c].q)])
                  ELSE /\ chs' = chs /\ gs' = Adv(i, [g EXCEPT !.v = 0])
               /\ UNCHANGED <<X, S, mu, wg, out, fault>>
          [] o.op = "rhead" ->
               LET c == ChanOf(g, o.ch) IN
               /\ chs[c].q # <<>> \/ chs[c].closed
               /\ IF chs[c].q # <<>>
                  THEN /\ chs' = [chs EXCEPT ![c].q = Tail(@)]
                       /\ gs' = Adv(i, [g EXCEPT !.v = Head(chs[c].q)])
                  ELSE /\ chs' = chs /\ gs' = [gs EXCEPT ![i] = [g EXCEPT !.pc = o.j]]
               /\ UNCHANGED <<X, S, mu, wg, out, fault>>
          [] o.op = "jmp" ->
               /\ gs' = [gs EXCEPT ![i] = [g EXCEPT !.pc = o.j]] /\ UNCHANGED <<X, S, mu, wg, chs, out, fault>>
          [] o.op = "close" ->
               LET c == ChanOf(g, o.ch) IN
               IF chs[c].closed
               THEN fault' = "close of closed channel" /\ UNCHANGED <<gs, X, S, mu, wg, chs, out>>
               ELSE /\ chs' = [chs EXCEPT ![c].closed = TRUE]
                    /\ gs' = Adv(i, g) /\ UNCHANGED <<X, S, mu, wg, out, fault>>
          [] o.op = "addv" ->
               /\ gs' = Adv(i, [g EXCEPT !.acc = g.acc + g.v]) /\ UNCHANGED <<X, S, mu, wg, chs, out, fault>>
          [] o.op = "spawn" ->
               LET t == prog.tm[o.a]
                   k == o.x.n
                   child == NewG(Flat(t.body, 0), k, [j \in DOMAIN t.chp |-> ChanOf([g EXCEPT !.k = k], t.chp[j])])
               IN /\ gs' = Append(Adv(i, g), child) /\ UNCHANGED <<X, S, mu, wg, chs, out, fault>>
          [] o.op = "wgadd" ->
               /\ wg' = wg + o.a /\ gs' = Adv(i, g) /\ UNCHANGED <<X, S, mu, chs, out, fault>>
          [] o.op = "wgdone" ->
               IF wg = 0
               THEN fault' = "negative WaitGroup counter" /\ UNCHANGED <<gs, X, S, mu, wg, chs, out>>
               ELSE wg' = wg - 1 /\ gs' = Adv(i, g) /\ UNCHANGED <<X, S, mu, chs, out, fault>>
          [] o.op = "wgwait" ->
               /\ wg = 0 /\ gs' = Adv(i, g) /\ UNCHANGED <<X, S, mu, wg, chs, out, fault>>
          [] o.op = "decl" ->
               /\ gs' = Adv(i, g) /\ UNCHANGED <<X, S, mu, wg, chs, out, fault>>
          [] o.op = "print" ->
               /\ out' = Append(out, Val(g, o.x))
               /\ gs' = Adv(i, g) /\ UNCHANGED <<X, S, mu, wg, chs, fault>>
     /\ UNCHANGED prog

Next == \E i \in DOMAIN gs : Step(i)      \* no step after main returned or after a fault
Spec == Init /\ [][Next]_vars

(* ------------------------------------------------------------------------ *)
(* I3: whatever the schedule, main prints what the builder declared *)
Deterministic == Finished => out = prog.exp
NoFault == fault = ""
(* no schedule wedges: until main returns somebody can move *)
CanStep(i) == LET g == gs[i]
                  o == g.code[g.pc]
              IN CASE o.op = "lock" -> (Lock => mu = 0)
                   [] o.op = "send" -> chs[ChanOf(g, o.ch)].closed \/ Len(chs[ChanOf(g, o.ch)].q) < chs[ChanOf(g, o.ch)].cap
                   [] o.op \in {"recv", "rhead"} -> chs[ChanOf(g, o.ch)].q # <<>> \/ chs[ChanOf(g, o.ch)].closed
                   [] o.op = "wgwait" -> wg = 0
                   [] OTHER -> TRUE
NoWedge == Finished \/ fault # "" \/ \E i \in DOMAIN gs : Running(i) /\ CanStep(i)
(* prefix property: nothing wrong is ever printed on the way *)
PrefixOK == Len(out) <= Len(prog.exp) /\ \A j \in DOMAIN out : out[j] = prog.exp[j]
(* the mutex is what it says *)
MutexSound == Lock => \A i, j \in DOMAIN gs :
                 (i # j /\ Running(i) /\ Running(j)) =>
                    ~(gs[i].code[gs[i].pc].op \in {"rd", "wr", "unlock"} /\ gs[j].code[gs[j].pc].op \in {"rd", "wr", "unlock"})
=============================================================================

SPECIFICATION Spec
CONSTANTS
  MaxT = 5
  MaxG = 2
  Impl = "fixed"
  Gives = TRUE
INVARIANTS TypeOK ReachClosed I1 I2 NoTornUnlock
PROPERTY FlagsGrow
CHECK_DEADLOCK FALSE

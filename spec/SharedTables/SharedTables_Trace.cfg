SPECIFICATION TSpec
CONSTANTS
  MaxT = 1000000
  MaxG = 1000000
  Impl = "fixed"
  Gives = TRUE
CHECK_DEADLOCK FALSE

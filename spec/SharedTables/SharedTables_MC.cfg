SPECIFICATION Spec
CONSTANTS
  MaxT = 4
  MaxG = 3
  Impl = "fixed"
  Gives = TRUE
INVARIANTS TypeOK ReachClosed I1 I2 NoTornUnlock
PROPERTY FlagsGrow
CHECK_DEADLOCK FALSE

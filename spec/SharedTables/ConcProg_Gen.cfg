SPECIFICATION Spec
CONSTANTS
  Fams = {"counter","fanin","pipe","handoff"}
  Forms = {"clo","clop","named","namedg","cloarg","chanclo"}
  Sites = {"top","block","loop"}
  Ns = {1,2,3}
  Reps = {1,2}
  Lock = TRUE
INVARIANTS Deterministic NoFault NoWedge PrefixOK MutexSound Emit
CHECK_DEADLOCK FALSE

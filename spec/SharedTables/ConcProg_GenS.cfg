SPECIFICATION Spec
CONSTANTS
  Fams = {"counter","fanin","pipe","handoff"}
  Forms = {"clo","clop","named","namedg","cloarg","chanclo"}
  Sites = {"top","block","loop"}
  Ns = {2,3,4}
  Reps = {10,25}
  Lock = TRUE
INVARIANTS Deterministic NoFault NoWedge PrefixOK MutexSound Emit
CHECK_DEADLOCK FALSE

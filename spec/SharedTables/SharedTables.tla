---------------------------- MODULE SharedTables ----------------------------
(* C08 - concurrent Ego programs cannot corrupt the interpreter.              *)
(* The sharing protocol of internal/language/symbols + bytecode/goroutine.go. *)
(*                                                                            *)
(* Symbol tables form a tree (parent = 0 for a root).  A table has a `shared` *)
(* flag; every access made through the symbols package (Get, Set, Create,     *)
(* Delete, SetAlways, ...) takes the table's RW mutex iff the flag is set at  *)
(* the moment the access starts (get.go / set.go: `if s.shared.Load()`).      *)
(* reach[t] is the set of goroutines that can name table t: through the       *)
(* scopes and call frames they have open, or through a function value whose   *)
(* captured scope is t (a closure is nothing but its captured table here).    *)
(* A table can reach all its ancestors (Get walks the chain), so reach is     *)
(* kept closed under parent.                                                  *)
(*                                                                            *)
(* Actions (one per critical section of the code):                           *)
(*   NewTable(g,t,p)   pushScope / callFramePush / closure call: a fresh      *)
(*                     private table under a table g can reach                *)
(*   Begin/End(g,..)   one table access; locked iff shared[t] at Begin        *)
(*   Fork(g,h,H,A)     goByteCode: H = captured scope of the launched         *)
(*                     function value (<= 1 table), A = captured scopes of    *)
(*                     function values among the arguments; marks, then the   *)
(*                     child h exists                                         *)
(*   Start(h)          GoRoutine: the child's own table under the first       *)
(*                     shared ancestor of the launcher's scope                *)
(*   Give(g,h,t)       a function value capturing t travels from g to h       *)
(*                     through a channel or a variable both can reach         *)
(*   LateMark(h)       Impl "late" only: the child marks H itself (BUG-94)    *)
(*   Exit(g)                                                                  *)
(*                                                                            *)
(* Impl: "fixed"  what C08 demands: whatever becomes reachable from a second  *)
(*                goroutine is marked (with its ancestors) by the goroutine   *)
(*                that hands it over, before the hand-over                    *)
(*       "code"   goroutine.go as it is: only the launched closure's own      *)
(*                captured scope is marked; function values among the         *)
(*                arguments or travelling through channels are not            *)
(*       "late"   BUG-94: the child marks, after the fork                     *)
(*       "noanc"  Shared(true) does not crawl up the parent chain             *)
EXTENDS Integers, Sequences, FiniteSets, TLC

CONSTANTS MaxT,    \* tables
          MaxG,    \* goroutines
          Impl,
          Gives    \* BOOLEAN: function values travel between live goroutines

Main == 1
NoAcc == [on |-> FALSE, t |-> 0, w |-> FALSE, l |-> FALSE]

VARIABLES parent,   \* [table -> parent table or 0]
          shared,   \* [table -> BOOLEAN]
          reach,    \* [table -> SUBSET goroutine]
          acc,      \* [goroutine -> access in progress]
          live,     \* goroutines that exist
          born,     \* goroutines ever created (ids are not reused)
          pend,     \* [goroutine -> tables it still has to mark / FALSE-started], Impl "late"
          started   \* goroutines whose own table exists
vars == <<parent, shared, reach, acc, live, born, pend, started>>

Tables == DOMAIN parent

RECURSIVE Anc(_, _)
Anc(par, t) == IF t = 0 THEN {} ELSE {t} \cup Anc(par, par[t])      \* t and its ancestors
AncAll(par, S) == UNION {Anc(par, t) : t \in S}

RECURSIVE SharedParent(_, _, _)
SharedParent(par, sh, t) == IF t = 0 THEN 0 ELSE IF sh[t] THEN t ELSE SharedParent(par, sh, par[t])

Reachable(g) == {t \in Tables : g \in reach[t]}

(* Shared(true) of tables.go on every table of S *)
Mark(sh, par, S) == LET M == IF Impl = "noanc" THEN S ELSE AncAll(par, S)
                    IN  [t \in DOMAIN sh |-> sh[t] \/ t \in M]

(* table 1 = the program's table (run.go: NewSymbolTable(name).Shared(true);  *)
(* its parent, the process root, is shared by init() and adds nothing),       *)
(* table 2 = main's frame                                                     *)
Init == /\ parent = (1 :> 0) @@ (2 :> 1)
        /\ shared = (1 :> TRUE) @@ (2 :> FALSE)
        /\ reach = (1 :> {Main}) @@ (2 :> {Main})
        /\ acc = (Main :> NoAcc)
        /\ live = {Main} /\ born = {Main} /\ started = {Main}
        /\ pend = (Main :> {})

Idle(g) == g \in live /\ g \in started /\ ~acc[g].on /\ pend[g] = {}

NewTable(g, p) ==
    /\ Idle(g) /\ p \in Reachable(g) /\ Cardinality(Tables) < MaxT
    /\ LET t == Cardinality(Tables) + 1 IN
       /\ parent' = parent @@ (t :> p)
       /\ shared' = shared @@ (t :> FALSE)
       /\ reach' = reach @@ (t :> {g})
    /\ UNCHANGED <<acc, live, born, pend, started>>

(* RW mutex of a shared table: held by the accesses in progress that took it *)
Holders(t) == {h \in live : acc[h].on /\ acc[h].t = t /\ acc[h].l}
CanLock(t, w) == IF w THEN Holders(t) = {} ELSE \A h \in Holders(t) : ~acc[h].w

Begin(g, t, w) ==
    /\ Idle(g) /\ t \in Reachable(g)
    /\ Cardinality({h \in live : acc[h].on}) <= 1      \* I2 is about pairs: two accesses in progress are enough
    /\ shared[t] => CanLock(t, w)
    /\ acc' = [acc EXCEPT ![g] = [on |-> TRUE, t |-> t, w |-> w, l |-> shared[t]]]
    /\ UNCHANGED <<parent, shared, reach, live, born, pend, started>>

End(g) ==
    /\ g \in live /\ acc[g].on
    /\ acc' = [acc EXCEPT ![g] = NoAcc]
    /\ UNCHANGED <<parent, shared, reach, live, born, pend, started>>

(* what the launcher marks before the child exists *)
ForkMarks(H, A) == CASE Impl = "fixed" -> H \cup A
                     [] Impl = "code"  -> H
                     [] Impl = "noanc" -> H
                     [] Impl = "late"  -> {}

Fork(g, H, A) ==
    /\ Idle(g) /\ Cardinality(born) < MaxG
    /\ H \subseteq Reachable(g) /\ A \subseteq Reachable(g) /\ Cardinality(H) <= 1 /\ Cardinality(A) <= 1
    /\ LET h == Cardinality(born) + 1
           sh == Mark(shared, parent, ForkMarks(H, A))
           got == AncAll(parent, H \cup A)
       IN /\ shared' = sh
          /\ reach' = [t \in Tables |-> IF t \in got THEN reach[t] \cup {h} ELSE reach[t]]
          /\ live' = live \cup {h} /\ born' = born \cup {h}
          /\ acc' = acc @@ (h :> NoAcc)
          /\ pend' = pend @@ (h :> IF Impl = "late" THEN H ELSE {})
    /\ UNCHANGED <<parent, started>>

LateMark(h) ==
    /\ h \in live /\ pend[h] # {}
    /\ shared' = Mark(shared, parent, pend[h])
    /\ pend' = [pend EXCEPT ![h] = {}]
    /\ UNCHANGED <<parent, reach, acc, live, born, started>>

(* GoRoutine: functionSymbols = child of parentSymbols.SharedParent(); the    *)
(* launcher's scope p is read when the child gets there, any table the        *)
(* launcher can reach may be current by then                                   *)
Start(h, p) ==
    /\ h \in live /\ h \notin started /\ pend[h] = {} /\ Cardinality(Tables) < MaxT
    /\ p \in Tables /\ \E g \in live \ {h} : g \in reach[p]
    /\ LET sp == SharedParent(parent, shared, p)
           t == Cardinality(Tables) + 1
       IN /\ sp # 0
          /\ parent' = parent @@ (t :> sp)
          /\ shared' = shared @@ (t :> FALSE)
          /\ reach' = [x \in Tables |-> IF x \in Anc(parent, sp) THEN reach[x] \cup {h} ELSE reach[x]] @@ (t :> {h})
    /\ started' = started \cup {h}
    /\ UNCHANGED <<acc, live, born, pend>>

Give(g, h, t) ==
    /\ Gives /\ Idle(g) /\ h \in live /\ h # g /\ h \in started /\ t \in Reachable(g) /\ h \notin reach[t]
    /\ shared' = IF Impl = "fixed" THEN Mark(shared, parent, {t}) ELSE shared
    /\ reach' = [x \in Tables |-> IF x \in Anc(parent, t) THEN reach[x] \cup {h} ELSE reach[x]]
    /\ UNCHANGED <<parent, acc, live, born, pend, started>>

Exit(g) ==
    /\ g # Main /\ Idle(g)
    /\ live' = live \ {g}
    /\ reach' = [t \in Tables |-> reach[t] \ {g}]
    /\ UNCHANGED <<parent, shared, acc, born, pend, started>>

Next == \/ \E g \in live : \/ \E p \in Tables : NewTable(g, p)
                           \/ \E t \in Tables, w \in BOOLEAN : Begin(g, t, w)
                           \/ End(g)
                           \/ \E H, A \in SUBSET Tables : Fork(g, H, A)
                           \/ LateMark(g)
                           \/ \E p \in Tables : Start(g, p)
                           \/ \E h \in live, t \in Tables : Give(g, h, t)
                           \/ Exit(g)

Spec == Init /\ [][Next]_vars

(* ------------------------------------------------------------------------ *)
TypeOK == /\ Tables = 1..Cardinality(Tables)
          /\ \A t \in Tables : parent[t] \in 0..(t - 1) /\ reach[t] \subseteq born
          /\ live \subseteq born /\ started \subseteq born

(* reach is closed under parent: who can name a table can name its ancestors *)
ReachClosed == \A t \in Tables : parent[t] # 0 => reach[t] \cap live \subseteq reach[parent[t]]

(* I1: a table two live goroutines can name is flagged *)
I1 == \A t \in Tables : Cardinality(reach[t] \cap live) >= 2 => shared[t]

(* I2: no two accesses in progress on one table conflict *)
I2 == \A g, h \in live : (g # h /\ acc[g].on /\ acc[h].on /\ acc[g].t = acc[h].t) => (~acc[g].w /\ ~acc[h].w)

(* the flag an access saw is still the flag when it ends: the sites that      *)
(* re-read the flag to decide about unlocking (Lock()/Unlock() pairs of        *)
(* tables.go) never unlock a mutex they did not take                           *)
NoTornUnlock == \A g \in live : acc[g].on => acc[g].l = shared[acc[g].t]

(* flags are never cleared *)
FlagsGrow == [][\A t \in Tables : shared[t] => shared'[t]]_vars
=============================================================================

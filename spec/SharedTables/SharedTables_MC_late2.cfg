SPECIFICATION Spec
CONSTANTS
  MaxT = 4
  MaxG = 3
  Impl = "late"
  Gives = FALSE
INVARIANTS TypeOK ReachClosed NoTornUnlock
PROPERTY FlagsGrow
CHECK_DEADLOCK FALSE

SPECIFICATION Spec
CONSTANTS
  MaxT = 4
  MaxG = 3
  Impl = "noanc"
  Gives = FALSE
INVARIANTS TypeOK ReachClosed I2
PROPERTY FlagsGrow
CHECK_DEADLOCK FALSE

---------------------------- MODULE ConcProg_Gen ----------------------------
(* Case generator for binding R: every finished behaviour of ConcProg is      *)
(* printed once per launch form and site it can be written in.                *)
(*   id    fam/shape/n/r/join/decl/cap/form/site   identity of the case       *)
(*   main, tm   the program (ConcProg statement records)                      *)
(*   caps  channel capacities;  out = what main must print, in order          *)
EXTENDS ConcProg, Json

B(b) == IF b THEN "d" ELSE "-"
Id(p, f, s) == p.fam \o "/" \o p.shape \o "/n" \o ToString(p.n) \o "/r" \o ToString(p.r) \o "/" \o p.join \o "/"
               \o B(p.decl) \o "/c" \o ToString(p.cap) \o "/" \o f \o "/" \o s
CaseRec(p, f, s) == [id |-> Id(p, f, s), fam |-> p.fam, shape |-> p.shape, form |-> f, site |-> s,
                     n |-> p.n, r |-> p.r, join |-> p.join,
                     main |-> p.main, tm |-> p.tm, caps |-> p.caps, out |-> out, exp |-> p.exp]
Emit == ~Finished \/ \A fs \in Variants(prog) : PrintT(ToJson(CaseRec(prog, fs[1], fs[2])))
=============================================================================

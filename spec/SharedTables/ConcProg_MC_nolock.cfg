SPECIFICATION Spec
CONSTANTS
  Fams = {"counter"}
  Forms = {"clo"}
  Sites = {"top"}
  Ns = {1}
  Reps = {1}
  Lock = FALSE
INVARIANTS Deterministic
CHECK_DEADLOCK FALSE

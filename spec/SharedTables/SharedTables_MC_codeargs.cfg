SPECIFICATION Spec
CONSTANTS
  MaxT = 4
  MaxG = 3
  Impl = "code"
  Gives = FALSE
INVARIANTS TypeOK ReachClosed I1
PROPERTY FlagsGrow
CHECK_DEADLOCK FALSE

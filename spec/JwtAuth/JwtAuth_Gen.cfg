SPECIFICATION GenSpec
CONSTANTS
  Slots = {"t1", "t2"}
  Jtis = {"j1", "j2"}
  Universe = "dyn"
  AudCfgs = {TRUE, FALSE}
  MaxClock = 1
  Impl = "fixed"
  Depth = 8
  Acts = "all"
  Pick = "any"
INVARIANTS Emit
CHECK_DEADLOCK FALSE

SPECIFICATION GenSpec
CONSTANTS
  Slots = {"t1", "t2"}
  Jtis = {"j1", "j2"}
  Universe = "pair"
  AudCfgs = {TRUE}
  MaxClock = 1
  Impl = "fixed"
  Depth = 5
  Acts = "all"
  Pick = "fixed"
INVARIANTS Emit
CHECK_DEADLOCK FALSE

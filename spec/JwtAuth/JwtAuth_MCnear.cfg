SPECIFICATION Spec
CONSTANTS
  Slots = {"t1"}
  Jtis = {"j1"}
  Universe = "near"
  AudCfgs = {TRUE, FALSE}
  MaxClock = 1
  Impl = "fixed"
INVARIANTS TypeOK CacheOnlyValidated BlCacheNeverHidesRevocation
PROPERTIES AcceptSound StaticSound ExpirySound RevokedSound
VIEW View
CHECK_DEADLOCK FALSE

SPECIFICATION GenSpec
CONSTANTS
  Slots = {"t1"}
  Jtis = {"j1"}
  Universe = "near"
  AudCfgs = {TRUE, FALSE}
  MaxClock = 1
  Impl = "fixed"
  Depth = 2
  Acts = "present"
  Pick = "any"
INVARIANTS Emit
CHECK_DEADLOCK FALSE

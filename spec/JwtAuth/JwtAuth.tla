------------------------------- MODULE JwtAuth -------------------------------
(* Code-shaped specification of JWT bearer authentication in OAuth          *)
(* resource-server mode (tucats/ego internal/server/oauth):                 *)
(*   Present(s)  one request carrying token s  = oauth.ValidateJWT:         *)
(*               result-cache lookup (hit: expiry + revocation check,       *)
(*               stale: evict) / miss: parseAndValidateJWT +                *)
(*               selectVerificationKey, then cache the result               *)
(*   Revoke(j)   POST /oauth2/revoke -> tokens.Blacklist(j): row inserted,  *)
(*               BlacklistCache purged (OAuthJWTCache is NOT purged)        *)
(*   Evict(s)    the OAuthJWTCache entry of s expires and is swept          *)
(*   BExpire(j)  the BlacklistCache entry of j expires and is swept         *)
(*   Tick        time passes (tokens with exp = "soon" expire at clock 1)   *)
(* A token is a vector of attributes; what the cryptography does with it is *)
(* ground truth (CryptoVerifies), what the code does with it is ParseOK,    *)
(* what the statement of C22 demands is Why(t) = {}.                        *)
(* Impl = "asis"  : the cache-miss path does not consult the blacklist      *)
(* Impl = "fixed" : it does (before the result is cached)                   *)
EXTENDS Integers, FiniteSets, Sequences, TLC

CONSTANTS Slots,     \* names of the token strings in play, e.g. {"t1","t2"}
          Jtis,      \* token ids that can be revoked, e.g. {"j1","j2"}
          Universe,  \* which attribute vectors Init may choose: "full" | "dyn" | "pair"
          AudCfgs,   \* subset of BOOLEAN: is an audience configured (ego.server.oauth.audience)
          MaxClock,
          Impl

Algs  == {"RS256", "ES256", "PS256", "HS256", "none"}
Keys  == {"k1", "k2", "x1", "x2"}       \* who signed: k1 RSA, k2 EC (both published, k1 first); x1 RSA, x2 EC never published
Kids  == {"k1", "k2", "unknown", "absent"}
(* iss / aud: equality classes AND near misses of the configured value c (string relations):      *)
(*   match   = c                     prefix  = a proper prefix of c                                *)
(*   extpath = c + "/partner"        exthost = c + ".attacker.example/"   (c is a proper prefix)  *)
(*   slash   = c + "/"               case    = c with letters of the other case                   *)
(*   other   = unrelated             absent  = no claim        multi (aud) = a list containing c  *)
Isss  == {"match", "prefix", "extpath", "exthost", "slash", "case", "other", "absent"}
Auds  == {"match", "multi", "prefix", "extpath", "exthost", "slash", "case", "other", "absent"}
Exps  == {"past", "soon", "far", "absent"}
JtiV  == Jtis \cup {"none"}

PublishedSeq == <<"k1", "k2">>            \* order of the JWKS document
PublishedSet == {"k1", "k2"}
KeyType(k)   == IF k \in {"k1", "x1"} THEN "RSA" ELSE "EC"

TokenSpace == [alg : Algs, key : Keys, sigok : BOOLEAN, kid : Kids, iss : Isss, aud : Auds, exp : Exps, jti : JtiV]

(* which vectors can be minted at all: RSA algorithms need an RSA private key, ES256 an EC one;  *)
(* HS256 = HMAC keyed with the *public* bytes of key (the algorithm-confusion attack);          *)
(* "none" carries no signature (one canonical vector)                                           *)
Realizable(t) == /\ t.alg \in {"RS256", "PS256"} => KeyType(t.key) = "RSA"
                 /\ t.alg = "ES256" => KeyType(t.key) = "EC"
                 /\ t.alg = "none" => (t.key = "k1" /\ t.sigok)

Full == {t \in TokenSpace : Realizable(t)}

(* profiles for the dynamic part: the interesting differences are exp, jti and whether the      *)
(* token is statically acceptable; a few statically bad ones ride along (they must never be     *)
(* accepted in any history, e.g. through an entry cached for another token)                     *)
Profile(t) == <<t.alg, t.key, t.sigok, t.kid, t.iss, t.aud>>
DynProfiles == { <<"RS256", "k1", TRUE,  "k1",     "match", "match">>,
                 <<"ES256", "k2", TRUE,  "k2",     "match", "multi">>,
                 <<"RS256", "k1", TRUE,  "absent", "match", "match">>,
                 <<"RS256", "k1", FALSE, "k1",     "match", "match">>,
                 <<"RS256", "x1", TRUE,  "k1",     "match", "match">>,
                 <<"ES256", "k2", TRUE,  "k2",     "exthost", "match">>,
                 <<"ES256", "k2", TRUE,  "k2",     "match", "extpath">> }
Dyn  == {t \in Full : Profile(t) \in DynProfiles}
Pair == {t \in Full : Profile(t) \in { <<"RS256", "k1", TRUE, "k1", "match", "match">>,
                                        <<"ES256", "k2", TRUE, "k2", "match", "multi">> }
                      /\ t.exp \in {"soon", "far"} /\ t.jti # "none"}

(* the neighbourhood of the acceptable tokens: every vector that differs from an acceptable base  *)
(* vector in at most two of the eight attributes (all single and double faults / near misses)     *)
Dims == {"alg", "key", "sigok", "kid", "iss", "aud", "exp", "jti"}
Dist(a, b) == Cardinality({d \in Dims : a[d] # b[d]})
BaseVecs == {[alg |-> p[1], key |-> p[2], sigok |-> TRUE, kid |-> p[3], iss |-> "match", aud |-> "match", exp |-> "far", jti |-> j] :
               p \in { <<"RS256", "k1", "k1">>, <<"RS256", "k1", "absent">>, <<"ES256", "k2", "k2">> }, j \in Jtis}
Near == {t \in Full : \E b \in BaseVecs : Dist(t, b) <= 2}

U == CASE Universe = "full" -> Full
       [] Universe = "near" -> Near
       [] Universe = "dyn"  -> Dyn
       [] Universe = "pair" -> Pair

VARIABLES tok,      \* [Slots -> attribute vector]   (chosen in Init, never changes)
          audcfg,   \* BOOLEAN                       (chosen in Init, never changes)
          clock,
          revoked,  \* set of jti in the blacklist table
          jc,       \* [Slots -> BOOLEAN]  OAuthJWTCache holds a validated result for the token
          bc,       \* [Jtis -> "none" | "active" | "inactive"]  BlacklistCache
          last      \* observation: the last call and its outcome

vars == <<tok, audcfg, clock, revoked, jc, bc, last>>

NoLast == [act |-> "Init", s |-> "", j |-> "", reply |-> "", path |-> ""]

Init == /\ tok \in [Slots -> U]
        /\ audcfg \in AudCfgs
        /\ clock = 0 /\ revoked = {}
        /\ jc = [s \in Slots |-> FALSE]
        /\ bc = [j \in Jtis |-> "none"]
        /\ last = NoLast

-----------------------------------------------------------------------------
(* ground truth about the token *)
ExpAt(t) == CASE t.exp = "past" -> 0 [] t.exp = "soon" -> 1 [] t.exp = "far" -> MaxClock + 1 [] OTHER -> -1
CryptoVerifies(t, k, alg) ==       \* does t's signature verify under key k with algorithm alg
  /\ t.sigok /\ t.key = k /\ alg = t.alg
  /\ alg # "none"
  /\ alg \in {"RS256", "PS256"} => KeyType(k) = "RSA"
  /\ alg = "ES256" => KeyType(k) = "EC"

(* --- what the statement of C22 demands of an accepted token ------------- *)
AllowedAlgs == {"RS256", "ES256"}
SigOK(t)      == t.alg \in AllowedAlgs /\ \E k \in PublishedSet : CryptoVerifies(t, k, t.alg)
IssOK(t)      == t.iss = "match"                           \* "match the configuration": equality, no near miss
AudOK(t)      == audcfg => t.aud \in {"match", "multi"}
NotExpired(t) == t.exp = "absent" \/ clock < ExpAt(t)     \* a token without exp "has not expired"
NotRevoked(t) == t.jti = "none" \/ t.jti \notin revoked
Why(t) == (IF t.alg \in AllowedAlgs THEN {} ELSE {"alg"})
          \cup (IF t.alg \in AllowedAlgs /\ ~SigOK(t) THEN {"sig"} ELSE {})
          \cup (IF IssOK(t) THEN {} ELSE {"iss"})
          \cup (IF AudOK(t) THEN {} ELSE {"aud"})
          \cup (IF NotExpired(t) THEN {} ELSE {"exp"})
          \cup (IF NotRevoked(t) THEN {} ELSE {"revoked"})
StmtOK(t)  == Why(t) = {}
Allowed(t) == IF StmtOK(t) THEN {"accept", "reject"} ELSE {"reject"}   \* "accepted only if"

(* --- what the code does -------------------------------------------------- *)
(* selectVerificationKey: only *SigningMethodRSA / *SigningMethodECDSA pass the type switch       *)
(* (PS256 is *SigningMethodRSAPSS, HS256 HMAC, none); kid present -> keyByID (refresh on miss,   *)
(* still unknown -> error); kid absent -> the FIRST cached key                                   *)
MethodOK(t) == t.alg \in {"RS256", "ES256"}
SelKey(t)   == IF t.kid = "absent" THEN PublishedSeq[1]
               ELSE IF t.kid \in PublishedSet THEN t.kid ELSE "nokey"
(* parseAndValidateJWT: WithExpirationRequired, WithIssuer(provider), WithAudience when configured *)
ParseOK(t)  == /\ MethodOK(t)
               /\ SelKey(t) # "nokey"
               /\ CryptoVerifies(t, SelKey(t), t.alg)
               /\ t.exp # "absent" /\ clock < ExpAt(t)
               /\ t.iss = "match"
               /\ audcfg => t.aud \in {"match", "multi"}

(* tokens.IsIDBlacklisted: BlacklistCache first, then the table; the answer is cached *)
Blk(j)     == IF bc[j] # "none" THEN bc[j] = "active" ELSE j \in revoked
BcAfter(j) == [bc EXCEPT ![j] = IF Blk(j) THEN "active" ELSE "inactive"]

Obs(a, s, j, r, p) == last' = [act |-> a, s |-> s, j |-> j, reply |-> r, path |-> p]

Present(s) ==
  LET t     == tok[s]
      fresh == jc[s] /\ clock < ExpAt(t)           \* entry.Expires mirrors exp
      named == t.jti # "none"
  IN  /\ IF fresh
           THEN IF named /\ Blk(t.jti)
                  THEN /\ jc' = [jc EXCEPT ![s] = FALSE]        \* evicted, ErrJWTRevoked
                       /\ bc' = BcAfter(t.jti)
                       /\ Obs("Present", s, "", "reject", "hit")
                  ELSE /\ jc' = jc
                       /\ bc' = IF named THEN BcAfter(t.jti) ELSE bc
                       /\ Obs("Present", s, "", "accept", "hit")
           ELSE \* miss, or a stale entry deleted first
                IF ParseOK(t)
                  THEN IF Impl = "fixed" /\ named /\ Blk(t.jti)
                         THEN /\ jc' = [jc EXCEPT ![s] = FALSE]
                              /\ bc' = BcAfter(t.jti)
                              /\ Obs("Present", s, "", "reject", "miss")
                         ELSE /\ jc' = [jc EXCEPT ![s] = TRUE]
                              /\ bc' = IF Impl = "fixed" /\ named THEN BcAfter(t.jti) ELSE bc
                              /\ Obs("Present", s, "", "accept", "miss")
                  ELSE /\ jc' = [jc EXCEPT ![s] = FALSE]
                       /\ bc' = bc
                       /\ Obs("Present", s, "", "reject", "miss")
      /\ UNCHANGED <<tok, audcfg, clock, revoked>>

Revoke(j) == /\ j \notin revoked
             /\ revoked' = revoked \cup {j}
             /\ bc' = [x \in Jtis |-> "none"]        \* caches.Purge(BlacklistCache)
             /\ Obs("Revoke", "", j, "", "")
             /\ UNCHANGED <<tok, audcfg, clock, jc>>

Evict(s) == /\ jc[s]
            /\ jc' = [jc EXCEPT ![s] = FALSE]
            /\ Obs("Evict", s, "", "", "")
            /\ UNCHANGED <<tok, audcfg, clock, revoked, bc>>

BExpire(j) == /\ bc[j] # "none"
              /\ bc' = [bc EXCEPT ![j] = "none"]
              /\ Obs("BExpire", "", j, "", "")
              /\ UNCHANGED <<tok, audcfg, clock, revoked, jc>>

Tick == /\ clock < MaxClock
        /\ clock' = clock + 1
        /\ Obs("Tick", "", "", "", "")
        /\ UNCHANGED <<tok, audcfg, revoked, jc, bc>>

Api == \/ \E s \in Slots : Present(s) \/ Evict(s)
       \/ \E j \in Jtis : Revoke(j) \/ BExpire(j)
       \/ Tick
Next == Api
Spec == Init /\ [][Next]_vars

-----------------------------------------------------------------------------
(* C22 *)
TypeOK == /\ clock \in 0..MaxClock /\ revoked \subseteq Jtis
          /\ jc \in [Slots -> BOOLEAN] /\ bc \in [Jtis -> {"none", "active", "inactive"}]

(* every accepted request carried a token that satisfies the statement at that request           *)
(* (Present changes neither tok, clock nor revoked: the unprimed values are the request's)       *)
AcceptSoundStep == (last'.act = "Present" /\ last'.reply = "accept") => StmtOK(tok[last'.s])
AcceptSound == [][AcceptSoundStep]_vars

(* the same split by clause, for diagnosis *)
StaticSound  == [][(last'.act = "Present" /\ last'.reply = "accept")
                     => (Why(tok[last'.s]) \cap {"alg", "sig", "iss", "aud"} = {})]_vars
ExpirySound  == [][(last'.act = "Present" /\ last'.reply = "accept") => NotExpired(tok[last'.s])]_vars
RevokedSound == [][(last'.act = "Present" /\ last'.reply = "accept") => NotRevoked(tok[last'.s])]_vars

(* design facts the cache-hit path relies on *)
CacheOnlyValidated == \A s \in Slots : jc[s] =>      \* an entry exists only for a token that passed every static test
                        Why(tok[s]) \cap {"alg", "sig", "iss", "aud"} = {}
BlCacheNeverHidesRevocation == \A j \in Jtis : (j \in revoked) => bc[j] # "inactive"

View == <<tok, audcfg, clock, revoked, jc, bc>>
=============================================================================

----------------------------- MODULE JwtAuth_Gen -----------------------------
(* Behaviour generator (binding R): JwtAuth + a history variable printed as  *)
(* JSON.  Every step carries, computed here by TLC: the call, the reply and  *)
(* projected cache state of the code-shaped model, and - for a Present -     *)
(* the set of replies the STATEMENT allows for that token at that moment     *)
(* (Allowed), the clauses it fails (Why), whether the model had the token    *)
(* cached and whether it had been presented before (abstract identity of     *)
(* the case).  The harness compares the real reply with Allowed.             *)
EXTENDS JwtAuth, Json

CONSTANTS Depth,
          Acts,     \* "all" | "present"  (present: only Present steps - the static sweep)
          Pick      \* "any" | "fixed"    (fixed: Init restricted to FixedPairs)
VARIABLE h

T(alg, key, kid, aud, exp, jti) ==
  [alg |-> alg, key |-> key, sigok |-> TRUE, kid |-> kid, iss |-> "match", aud |-> aud, exp |-> exp, jti |-> jti]
Rs(exp, jti) == T("RS256", "k1", "k1", "match", exp, jti)
Ec(exp, jti) == T("ES256", "k2", "k2", "multi", exp, jti)
(* histories explored exhaustively: two tokens sharing a token id (one short-lived),   *)
(* and two tokens with ids of their own                                                *)
FixedPairs == { [s \in Slots |-> IF s = "t1" THEN Rs("far", "j1") ELSE Ec("soon", "j1")],
                [s \in Slots |-> IF s = "t1" THEN Ec("soon", "j1") ELSE Rs("far", "j2")] }

Proj == [cached |-> {s \in Slots : jc[s]}, bc |-> bc, revoked |-> revoked, clock |-> clock]
Seen == {h[i].call.s : i \in {n \in 1..Len(h) : h[n].call.act = "Present"}}

GenInit == Init /\ h = <<>> /\ (Pick = "fixed" => tok \in FixedPairs)

GenPresent == \E s \in Slots :
                /\ Present(s)
                /\ h' = Append(h, [call |-> last', allowed |-> Allowed(tok[s]), why |-> Why(tok[s]),
                                   cachedBefore |-> jc[s], seenBefore |-> s \in Seen, st |-> Proj'])
GenOther == /\ Acts = "all"
            /\ \/ \E s \in Slots : Evict(s)
               \/ \E j \in Jtis : Revoke(j) \/ BExpire(j)
               \/ Tick
            /\ h' = Append(h, [call |-> last', allowed |-> {}, why |-> {},
                               cachedBefore |-> FALSE, seenBefore |-> FALSE, st |-> Proj'])
GenNext == Len(h) < Depth /\ (GenPresent \/ GenOther)
GenSpec == GenInit /\ [][GenNext]_<<vars, h>>

Emit == Len(h) < Depth \/ PrintT(ToJson([init |-> [tok |-> tok, audcfg |-> audcfg], steps |-> h]))
=============================================================================

SPECIFICATION Spec
CONSTANTS
  Slots = {"t1", "t2"}
  Jtis = {"j1", "j2"}
  Universe = "pair"
  AudCfgs = {TRUE}
  MaxClock = 1
  Impl = "asis"
INVARIANTS TypeOK CacheOnlyValidated BlCacheNeverHidesRevocation
PROPERTIES AcceptSound StaticSound ExpirySound RevokedSound
VIEW View
CHECK_DEADLOCK FALSE

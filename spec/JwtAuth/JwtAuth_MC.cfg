SPECIFICATION Spec
CONSTANTS
  Slots = {"t1", "t2"}
  Jtis = {"j1", "j2"}
  Universe = "dyn"
  AudCfgs = {TRUE, FALSE}
  MaxClock = 1
  Impl = "fixed"
INVARIANTS TypeOK CacheOnlyValidated BlCacheNeverHidesRevocation
PROPERTIES AcceptSound StaticSound ExpirySound RevokedSound
VIEW View
CHECK_DEADLOCK FALSE

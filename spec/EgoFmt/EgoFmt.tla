------------------------------- MODULE EgoFmt -------------------------------
(* C05 - `ego fmt` keeps programs and comments intact.                       *)
(*                                                                           *)
(* The formatter is a second front end: its own parser (internal/language/   *)
(* parse) builds a tree, a printer (parse/format) writes the tree back.  The *)
(* reference for "what the program means" is the language itself, so this    *)
(* module is a small reference definition of a fragment of Ego in three      *)
(* parts that all work on the same abstract syntax tree:                     *)
(*   1. Tk*  - the concrete syntax: the token sequence of a tree, every      *)
(*             token carrying the kind of line break the language permits    *)
(*             after it (statement end, block open, list comma, ...);        *)
(*   2. Ev*/Ex* - the meaning: a big-step evaluator giving the lines the     *)
(*             program prints;                                               *)
(*   3. the table of the property's quantifier: CONSTRUCT x POSITION, i.e.   *)
(*             every expression form placed in every syntactic position      *)
(*             whose hole has its type (if/for/switch headers, clauses of    *)
(*             the three-clause loop, case lists, call arguments, composite  *)
(*             elements, defer, return, ...), and for each such program the  *)
(*             LAYOUTS (where the permitted breaks are taken) and COMMENT    *)
(*             PLACEMENTS (after which tokens a line / block / own-line      *)
(*             comment is put).                                              *)
(* EgoFmt_Gen prints every program of the table with the output it must      *)
(* produce; checks/C05.py writes the tokens out as text (projection only),   *)
(* runs the real `ego fmt` and the real interpreter on the original and on   *)
(* the formatted text; EgoFmt_Trace judges every logged pair.                *)
(*                                                                           *)
(* Header rule (the place where the two grammars of the repository differ):  *)
(* BodyBrace(toks, Impl) is the index of the brace that opens the body of a  *)
(* header statement according to                                             *)
(*   "ref"  : the language (compiler): a brace directly after a type - a     *)
(*            slice / map / struct type or the name of a declared type -     *)
(*            starts a composite literal, everywhere;                        *)
(*   "asis" : the formatter's parser as found: inside a header no brace      *)
(*            outside parentheses / brackets starts a literal.               *)
(* Invariant HeaderBraceSound says the rule finds the true body brace of     *)
(* every generated program; it holds for "ref" and must fail for "asis"      *)
(* (negative control: the table does contain the programs that tell the two  *)
(* grammars apart).                                                          *)
EXTENDS Integers, Sequences, FiniteSets, TLC

CONSTANTS Tier,   \* "q": a seeded third of the table, two variants per program;  "t": the whole table, all variants
          Seed,
          Impl    \* "ref" | "asis"   (header rule, see above)

\* ============================================================================ trees
\* one node shape for everything: kind, string, number, four child lists, names/symbols
Nd(k, s, n, a, b, c, d, y) == [k |-> k, s |-> s, n |-> n, a |-> a, b |-> b, c |-> c, d |-> d, y |-> y]
E0 == <<>>

\* ---- expressions
Num(n)          == Nd("num", "", n, E0, E0, E0, E0, E0)
Str(q, syms)    == Nd("str", q, 0, E0, E0, E0, E0, syms)          \* q: "dq" "..." | "raw" `...`;  syms: symbol names
Id(x)           == Nd("id", x, 0, E0, E0, E0, E0, E0)
Bool(b)         == Nd("id", IF b THEN "true" ELSE "false", 0, E0, E0, E0, E0, E0)
Bin(op, l, r)   == Nd("bin", op, 0, <<l, r>>, E0, E0, E0, E0)
Un(op, x)       == Nd("un", op, 0, <<x>>, E0, E0, E0, E0)
Par(x)          == Nd("par", "", 0, <<x>>, E0, E0, E0, E0)
Call(f, args)   == Nd("call", f, 0, args, E0, E0, E0, E0)          \* f(args)
CallSp(f, args) == Nd("call", f, 1, args, E0, E0, E0, E0)          \* f(args...)   (last argument spread)
MCall(x, m, as) == Nd("mcall", m, 0, <<x>>, as, E0, E0, E0)        \* x.m(args)
Ix(x, i)        == Nd("ix", "", 0, <<x, i>>, E0, E0, E0, E0)
Slc(x, lo, hi)  == Nd("slc", "", 0, <<x>>, lo, hi, E0, E0)          \* lo, hi: <<e>> or <<>>
Sel(x, f)       == Nd("sel", f, 0, <<x>>, E0, E0, E0, E0)
Lit(ty, els)    == Nd("lit", ty, 0, els, E0, E0, E0, E0)            \* ty: "[]int" | "T" | "[][]int" | "" (inner, untyped)
ALit(els)       == Nd("al", "", 0, els, E0, E0, E0, E0)             \* [e1, e2]   (Ego array literal)
MLit(ks, vs)    == Nd("ml", "", 0, vs, E0, E0, E0, ks)              \* map[string]int{"k1": v1, ...}
SLit(fs, vs)    == Nd("st", "P", 0, vs, E0, E0, E0, fs)             \* P{a: v1, b: v2} or P{v1, v2} (fs = <<>>)
Conv(ty, x)     == Nd("conv", ty, 0, <<x>>, E0, E0, E0, E0)
IfX(c, t, e)    == Nd("ifx", "", 0, <<c, t, e>>, E0, E0, E0, E0)    \* if c { t } else { e }   (Ego expression)
FLC(ps, rt, body, args) == Nd("flc", rt, 0, args, body, E0, E0, ps) \* func(p1 int, ...) rt { body }(args)

\* ---- statements
Def(x, e)         == Nd("def", x, 0, <<e>>, E0, E0, E0, E0)
MDef(xs, es)      == Nd("mdef", "", 0, es, E0, E0, E0, xs)
Asg(op, l, r)     == Nd("asg", op, 0, <<l>>, <<r>>, E0, E0, E0)
MAsg(ls, rs)      == Nd("asg", "=", 0, ls, rs, E0, E0, E0)
IncS(op, l)       == Nd("inc", op, 0, <<l>>, E0, E0, E0, E0)
Var(xs, ty, es)   == Nd("var", ty, 0, es, E0, E0, E0, xs)
VarGrp(vs)        == Nd("vgrp", "", 0, E0, vs, E0, E0, E0)
Const(x, e)       == Nd("const", x, 0, <<e>>, E0, E0, E0, E0)
XS(e)             == Nd("xs", "", 0, <<e>>, E0, E0, E0, E0)
Out(es)           == XS(Call("fmt.Println", es))
If(init, c, t, el)      == Nd("if", "", IF el = E0 THEN 0 ELSE 1, <<c>>, t, el, init, E0)
IfElif(init, c, t, nxt) == Nd("if", "", 2, <<c>>, t, <<nxt>>, init, E0)
For3(i, c, p, body)     == Nd("for3", "", 0, c, body, p, i, E0)
ForC(c, body)           == Nd("forc", "", 0, <<c>>, body, E0, E0, E0)
ForI(body)              == Nd("fori", "", 0, E0, body, E0, E0, E0)
ForR(vs, op, r, body)   == Nd("forr", op, 0, <<r>>, body, E0, E0, vs)
Lab(l, st)        == Nd("lab", l, 0, <<st>>, E0, E0, E0, E0)
Brk(l)            == Nd("brk", l, 0, E0, E0, E0, E0, E0)
Cnt(l)            == Nd("cnt", l, 0, E0, E0, E0, E0, E0)
Sw(init, tag, cls) == Nd("sw", "", 0, tag, cls, E0, init, E0)
Cl(es, body)      == Nd("cl", "", 0, es, body, E0, E0, E0)
ClFT(es, body)    == Nd("cl", "", 1, es, body, E0, E0, E0)          \* ... ends with fallthrough
Try(body, v, cat) == Nd("try", v, 1, E0, body, cat, E0, E0)
Defer(call)       == Nd("defer", "", 0, <<call>>, E0, E0, E0, E0)
Ret(es)           == Nd("ret", "", 0, es, E0, E0, E0, E0)
Blk(ss)           == Nd("blk", "", 0, E0, ss, E0, E0, E0)
DefFn(name, ps, rs, body) == Nd("deffn", name, 0, E0, body, rs, ps, E0)   \* name := func(ps) rs { body }

\* ---- declarations
PG(xs, ty)        == Nd("pg", ty, 0, E0, E0, E0, E0, xs)            \* parameter group  x, y int
PGV(x, ty)        == Nd("pg", ty, 1, E0, E0, E0, E0, <<x>>)         \* variadic          xs ...int
RI(x, ty)         == Nd("ri", ty, 0, E0, E0, E0, E0, IF x = "" THEN E0 ELSE <<x>>)
Fn(name, ps, rs, body)      == Nd("fn", name, 0, E0, body, rs, ps, E0)
Meth(rv, ptr, name, ps, rs, body) == Nd("fn", name, IF ptr THEN 2 ELSE 1, <<Id(rv)>>, body, rs, ps, E0)
TypeD(name, toks) == Nd("type", name, 0, E0, E0, E0, E0, toks)

\* ============================================================================ 1. concrete syntax
\* token: s spelling, b break permitted after it, g glue (no blank l: before, r: after, b: both), q/y string literal
\*   b = "S" statement end (a line end, or ";")          "O" after the brace / colon that opens a statement list
\*       "L" after the brace that opens a literal        "K" after a comma of a literal
\*       "W" after the brace that opens the body of a switch and after the colon of a label: a line ends there, but the
\*           interpreter accepts no comment between that brace and the first case / between the label and its loop
\*       "F" a statement end after which the interpreter accepts no comment: around "fallthrough", inside "var ( )"
\*       "A" after a comma of a call's argument list: a line may end there, but (the interpreter's line splitter looks at
\*           the last character of the line) not with a comment
\*       "T" optional trailing comma before the closing brace of a literal (present only when a break is taken there)
Tok(s)       == [s |-> s, b |-> "", g |-> "", q |-> "", y |-> E0, body |-> FALSE]
TokG(s, g)   == [Tok(s) EXCEPT !.g = g]
TokB(s, g, b) == [Tok(s) EXCEPT !.g = g, !.b = b]
SEP          == TokB(";", "l", "S")
SEPF         == TokB(";", "l", "F")
OPEN         == TokB("{", "", "O")
BODYOPEN     == [OPEN EXCEPT !.body = TRUE]                          \* the brace that opens the body of a header statement
SWOPEN       == [BODYOPEN EXCEPT !.b = "W"]
CLOSE        == Tok("}")
StrTok(q, y) == [Tok("") EXCEPT !.q = q, !.y = y]

Cat(seqs) == LET RECURSIVE C(_)
                 C(i) == IF i > Len(seqs) THEN E0 ELSE seqs[i] \o C(i + 1)
             IN C(1)
\* items separated by a token
Join(items, sep) == LET RECURSIVE J(_)
                        J(i) == IF i > Len(items) THEN E0
                                ELSE (IF i > 1 THEN <<sep>> ELSE E0) \o items[i] \o J(i + 1)
                    IN J(1)
Map(f(_), s) == [i \in DOMAIN s |-> f(s[i])]
COMMA  == TokB(",", "l", "K")
COMMAA == TokB(",", "l", "A")
COMMA0 == TokG(",", "l")                                             \* comma where no break is taken (names, parameters)
TRAIL  == TokB(",", "l", "T")
TypeToks(ty) == CASE ty = "[]int"   -> <<TokG("[", "r"), TokG("]", "b"), Tok("int")>>
                  [] ty = "[][]int" -> <<TokG("[", "r"), TokG("]", "b"), TokG("[", "b"), TokG("]", "b"), Tok("int")>>
                  [] ty = "...int"  -> <<TokG("...", "r"), Tok("int")>>
                  [] ty = "*P"      -> <<TokG("*", "r"), Tok("P")>>
                  [] ty = "map"     -> <<Tok("map"), TokG("[", "b"), Tok("string"), TokG("]", "b"), Tok("int")>>
                  [] ty = ""        -> E0
                  [] OTHER          -> <<Tok(ty)>>

RECURSIVE TkE(_), TkS(_), TkSs(_), NoCommentAtEnd(_)
Names(xs) == Join([i \in DOMAIN xs |-> <<Tok(xs[i])>>], COMMA0)
Exprs0(es) == Join([i \in DOMAIN es |-> TkE(es[i])], COMMA0)        \* on one line
ExprsK(es) == Join([i \in DOMAIN es |-> TkE(es[i])], COMMA)         \* a break may follow each comma
ExprsA(es) == Join([i \in DOMAIN es |-> TkE(es[i])], COMMAA)
Braced(els) == <<TokB("{", "b", "L")>> \o (IF els = E0 THEN E0 ELSE ExprsK(els) \o <<TRAIL>>) \o <<TokG("}", "l")>>
Block(ss, open) == <<open>> \o TkSs(ss) \o <<CLOSE>>
Sig(ps, rs) == <<TokG("(", "b")>> \o Join([i \in DOMAIN ps |-> Names(ps[i].y) \o (IF ps[i].n = 1 THEN TypeToks("..." \o ps[i].s) ELSE TypeToks(ps[i].s))], COMMA0)
               \o <<TokG(")", "l")>>
               \o (IF rs = E0 THEN E0
                   ELSE IF Len(rs) = 1 /\ rs[1].y = E0 THEN TypeToks(rs[1].s)
                   ELSE <<TokG("(", "r")>> \o Join([i \in DOMAIN rs |-> Names(rs[i].y) \o TypeToks(rs[i].s)], COMMA0) \o <<TokG(")", "l")>>)
StartsMinus(ts) == ts # E0 /\ ts[1].q = "" /\ ts[1].s # "" /\ SubSeq(ts[1].s, 1, 1) = "-"

TkE(e) ==
  CASE e.k = "num"  -> <<Tok(ToString(e.n))>>
    [] e.k = "str"  -> <<StrTok(e.s, e.y)>>
    [] e.k = "id"   -> <<Tok(e.s)>>
    [] e.k = "bin"  -> TkE(e.a[1]) \o <<Tok(e.s)>> \o TkE(e.a[2])
    [] e.k = "un"   -> LET x == TkE(e.a[1]) IN <<IF e.s = "-" /\ StartsMinus(x) THEN Tok(e.s) ELSE TokG(e.s, "r")>> \o x
    [] e.k = "par"  -> <<TokG("(", "r")>> \o TkE(e.a[1]) \o <<TokG(")", "l")>>
    [] e.k = "call" -> <<Tok(e.s), TokG("(", "b")>> \o ExprsA(e.a) \o (IF e.n = 1 THEN <<TokG("...", "l")>> ELSE E0) \o <<TokG(")", "l")>>
    [] e.k = "mcall" -> TkE(e.a[1]) \o <<TokG(".", "b"), Tok(e.s), TokG("(", "b")>> \o ExprsA(e.b) \o <<TokG(")", "l")>>
    [] e.k = "ix"   -> TkE(e.a[1]) \o <<TokG("[", "b")>> \o TkE(e.a[2]) \o <<TokG("]", "l")>>
    [] e.k = "slc"  -> TkE(e.a[1]) \o <<TokG("[", "b")>> \o (IF e.b = E0 THEN E0 ELSE TkE(e.b[1])) \o <<TokG(":", "b")>>
                       \o (IF e.c = E0 THEN E0 ELSE TkE(e.c[1])) \o <<TokG("]", "l")>>
    [] e.k = "sel"  -> TkE(e.a[1]) \o <<TokG(".", "b"), Tok(e.s)>>
    [] e.k = "lit"  -> TypeToks(e.s) \o (IF e.s = "" THEN <<TokB("{", "r", "L")>> \o Tail(Braced(e.a)) ELSE Braced(e.a))
    [] e.k = "al"   -> <<TokG("[", "r")>> \o Exprs0(e.a) \o <<TokG("]", "l")>>
    [] e.k = "ml"   -> TypeToks("map") \o Braced([i \in DOMAIN e.a |-> Nd("kv", "", 0, <<Str("dq", <<e.y[i]>>), e.a[i]>>, E0, E0, E0, E0)])
    [] e.k = "st"   -> IF e.y = E0          \* positional: the interpreter takes no line end between the values
                       THEN <<Tok(e.s), TokG("{", "b")>> \o Exprs0(e.a) \o <<TokG("}", "l")>>
                       ELSE <<Tok(e.s)>> \o Braced([i \in DOMAIN e.a |-> Nd("kv", "", 0, <<Id(e.y[i]), e.a[i]>>, E0, E0, E0, E0)])
    [] e.k = "kv"   -> TkE(e.a[1]) \o <<TokG(":", "l")>> \o TkE(e.a[2])
    [] e.k = "conv" -> <<Tok(e.s), TokG("(", "b")>> \o TkE(e.a[1]) \o <<TokG(")", "l")>>
    [] e.k = "ifx"  -> <<Tok("if")>> \o TkE(e.a[1]) \o <<Tok("{")>> \o TkE(e.a[2]) \o <<Tok("}"), Tok("else"), Tok("{")>> \o TkE(e.a[3]) \o <<Tok("}")>>
    [] e.k = "flc"  -> <<Tok("func")>> \o Sig([i \in DOMAIN e.y |-> PG(<<e.y[i]>>, "int")], IF e.s = "" THEN E0 ELSE <<RI("", e.s)>>)
                       \o Block(e.b, OPEN) \o <<TokG("(", "b")>> \o Exprs0(e.a) \o <<TokG(")", "l")>>

\* a statement without its terminator (used in headers), and with it
RECURSIVE TkH(_)
Hdr(init) == IF init = E0 THEN E0 ELSE TkH(init[1]) \o <<TokG(";", "l")>>
TkH(s) ==
  CASE s.k = "def"   -> <<Tok(s.s), Tok(":=")>> \o TkE(s.a[1])
    [] s.k = "mdef"  -> Names(s.y) \o <<Tok(":=")>> \o Exprs0(s.a)
    [] s.k = "asg"   -> Exprs0(s.a) \o <<Tok(s.s)>> \o Exprs0(s.b)
    [] s.k = "inc"   -> TkE(s.a[1]) \o <<TokG(s.s, "l")>>
    [] s.k = "var"   -> <<Tok("var")>> \o Names(s.y) \o TypeToks(s.s) \o (IF s.a = E0 THEN E0 ELSE <<Tok("=")>> \o Exprs0(s.a))
    [] s.k = "vgrp"  -> <<Tok("var"), TokB("(", "", "W")>> \o Cat([i \in DOMAIN s.b |-> Tail(TkH(s.b[i])) \o <<SEPF>>]) \o <<Tok(")")>>
    [] s.k = "const" -> <<Tok("const"), Tok(s.s), Tok("=")>> \o TkE(s.a[1])
    [] s.k = "xs"    -> TkE(s.a[1])
    [] s.k = "if"    -> <<Tok("if")>> \o Hdr(s.d) \o TkE(s.a[1]) \o Block(s.b, BODYOPEN)
                        \o (CASE s.n = 0 -> E0
                              [] s.n = 1 -> <<Tok("else")>> \o Block(s.c, OPEN)
                              [] s.n = 2 -> <<Tok("else")>> \o TkH(s.c[1]))
    [] s.k = "for3"  -> <<Tok("for")>> \o (IF s.d = E0 THEN E0 ELSE TkH(s.d[1])) \o <<TokG(";", "l")>>
                        \o (IF s.a = E0 THEN E0 ELSE TkE(s.a[1])) \o <<TokG(";", "l")>>
                        \o (IF s.c = E0 THEN E0 ELSE TkH(s.c[1])) \o Block(s.b, BODYOPEN)
    [] s.k = "forc"  -> <<Tok("for")>> \o TkE(s.a[1]) \o Block(s.b, BODYOPEN)
    [] s.k = "fori"  -> <<Tok("for")>> \o Block(s.b, BODYOPEN)
    [] s.k = "forr"  -> <<Tok("for")>> \o Names(s.y) \o <<Tok(s.s), Tok("range")>> \o TkE(s.a[1]) \o Block(s.b, BODYOPEN)
    [] s.k = "lab"   -> <<Tok(s.s), TokB(":", "l", "W")>> \o TkH(s.a[1])       \* (no comment between a label and its loop)
    [] s.k = "brk"   -> <<Tok("break")>> \o (IF s.s = "" THEN E0 ELSE <<Tok(s.s)>>)
    [] s.k = "cnt"   -> <<Tok("continue")>> \o (IF s.s = "" THEN E0 ELSE <<Tok(s.s)>>)
    [] s.k = "sw"    -> <<Tok("switch")>> \o Hdr(s.d) \o (IF s.a = E0 THEN E0 ELSE TkE(s.a[1])) \o <<SWOPEN>>
                        \o Cat([i \in DOMAIN s.b |->
                                  LET c == s.b[i] IN
                                  (IF c.a = E0 THEN <<Tok("default")>> ELSE <<Tok("case")>> \o Exprs0(c.a)) \o <<TokB(":", "l", "O")>>
                                  \o (IF c.n = 1 THEN NoCommentAtEnd(TkSs(c.b)) \o <<Tok("fallthrough"), SEPF>> ELSE TkSs(c.b))])
                        \o <<CLOSE>>
    [] s.k = "try"   -> <<Tok("try")>> \o Block(s.b, OPEN) \o <<Tok("catch")>>
                        \o (IF s.s = "" THEN E0 ELSE <<TokG("(", "r"), Tok(s.s), TokG(")", "l")>>) \o Block(s.c, OPEN)
    [] s.k = "defer" -> <<Tok("defer")>> \o TkE(s.a[1])
    [] s.k = "ret"   -> <<Tok("return")>> \o Exprs0(s.a)
    [] s.k = "blk"   -> Block(s.b, OPEN)
    [] s.k = "deffn" -> <<Tok(s.s), Tok(":="), Tok("func")>> \o Sig(s.d, s.c) \o Block(s.b, OPEN)
    [] s.k = "fn"    -> <<Tok("func")>>
                        \o (IF s.n = 0 THEN E0 ELSE <<TokG("(", "r"), Tok(s.a[1].s)>> \o TypeToks(IF s.n = 2 THEN "*P" ELSE "P") \o <<TokG(")", "l")>>)
                        \o <<Tok(s.s)>> \o Sig(s.d, s.c) \o Block(s.b, OPEN)
    [] s.k = "type"  -> <<Tok("type"), Tok(s.s)>> \o s.y
NoCommentAtEnd(ts) == IF ts = E0 THEN ts ELSE [ts EXCEPT ![Len(ts)] = SEPF]
TkS(s)   == TkH(s) \o <<SEP>>
TkSs(ss) == IF ss = E0 THEN E0 ELSE TkS(Head(ss)) \o TkSs(Tail(ss))

\* ============================================================================ 2. meaning
\* values: t = "i" int, "b" bool (i = 0/1), "s" string (s: symbols), "l" []int, "p" struct P (l = <<a, b>>),
\*         "m" map[string]int (s: keys, l: values), "t" tuple of ints (several results), "e" error
Val(t, i, s, l) == [t |-> t, i |-> i, s |-> s, l |-> l]
VI(i)  == Val("i", i, E0, E0)
VB(b)  == Val("b", IF b THEN 1 ELSE 0, E0, E0)
VS(s)  == Val("s", 0, s, E0)
VL(l)  == Val("l", 0, E0, l)
VP(l)  == Val("p", 0, E0, l)
VM(k, l) == Val("m", 0, k, l)
VT(l)  == Val("t", 0, E0, l)
VE     == Val("e", 0, E0, E0)
Upd(env, x, v) == [y \in DOMAIN env \cup {x} |-> IF y = x THEN v ELSE env[y]]
Sum(l) == LET RECURSIVE S(_)
              S(i) == IF i > Len(l) THEN 0 ELSE l[i] + S(i + 1)
          IN S(1)
Pow2(n) == LET RECURSIVE P(_)
               P(i) == IF i = 0 THEN 1 ELSE 2 * P(i - 1)
           IN P(n)
Bits == 0..7
BitOf(x, i) == (x \div Pow2(i)) % 2
BitOp(op, x, y) == Sum([j \in 1..8 |-> LET i == j - 1
                                            bx == BitOf(x, i)
                                            by == BitOf(y, i)
                                            r == CASE op = "&" -> IF bx = 1 /\ by = 1 THEN 1 ELSE 0
                                                   [] op = "|" -> IF bx = 1 \/ by = 1 THEN 1 ELSE 0
                                                   [] op = "^" -> IF bx # by THEN 1 ELSE 0
                                        IN r * Pow2(i)])
FieldIx(f) == IF f = "a" THEN 1 ELSE 2
KeyIx(keys, k) == IF \E i \in DOMAIN keys : keys[i] = k THEN CHOOSE i \in DOMAIN keys : keys[i] = k ELSE 0
Fuel == 40

\* execution state: env, out (lines printed: each a sequence of values), ctl ("" | brk | cnt | ret | err), lab, ret, dfr
St(env, out, ctl, lab, ret, dfr) == [env |-> env, out |-> out, ctl |-> ctl, lab |-> lab, ret |-> ret, dfr |-> dfr]

RECURSIVE EvE(_, _, _), ExS(_, _, _), ExSs(_, _, _), ExLoop(_, _, _, _), ExRange(_, _, _, _, _), ExClauses(_, _, _, _), CallFn(_, _, _, _), RunDefers(_, _)
EvAll(es, env, fns) == [i \in DOMAIN es |-> EvE(es[i], env, fns)]
AnyErr(vs) == \E i \in DOMAIN vs : vs[i].t = "e"
Ints(vs) == [i \in DOMAIN vs |-> vs[i].i]

BinV(op, x, y) ==
  IF x.t = "e" \/ y.t = "e" THEN VE
  ELSE IF x.t = "s" /\ y.t = "s" THEN (CASE op = "+" -> VS(x.s \o y.s) [] op = "==" -> VB(x.s = y.s) [] op = "!=" -> VB(x.s # y.s) [] OTHER -> VE)
  ELSE IF x.t = "b" /\ y.t = "b" THEN (CASE op = "&&" -> VB(x.i = 1 /\ y.i = 1) [] op = "||" -> VB(x.i = 1 \/ y.i = 1)
                                         [] op = "==" -> VB(x.i = y.i) [] op = "!=" -> VB(x.i # y.i) [] OTHER -> VE)
  ELSE IF x.t = "i" /\ y.t = "i" THEN
       (CASE op = "+" -> VI(x.i + y.i) [] op = "-" -> VI(x.i - y.i) [] op = "*" -> VI(x.i * y.i)
          [] op = "/" -> IF y.i = 0 \/ x.i < 0 \/ y.i < 0 THEN VE ELSE VI(x.i \div y.i)
          [] op = "%" -> IF y.i = 0 \/ x.i < 0 \/ y.i < 0 THEN VE ELSE VI(x.i % y.i)
          [] op \in {"&", "|", "^"} -> IF x.i \in 0..255 /\ y.i \in 0..255 THEN VI(BitOp(op, x.i, y.i)) ELSE VE
          [] op = "<<" -> IF x.i >= 0 /\ y.i \in 0..8 THEN VI(x.i * Pow2(y.i)) ELSE VE
          [] op = ">>" -> IF x.i >= 0 /\ y.i \in 0..8 THEN VI(x.i \div Pow2(y.i)) ELSE VE
          [] op = "==" -> VB(x.i = y.i) [] op = "!=" -> VB(x.i # y.i) [] op = "<" -> VB(x.i < y.i)
          [] op = "<=" -> VB(x.i <= y.i) [] op = ">" -> VB(x.i > y.i) [] op = ">=" -> VB(x.i >= y.i) [] OTHER -> VE)
  ELSE VE

\* value of a literal element list
LitV(e, env, fns) == LET vs == EvAll(e.a, env, fns) IN IF AnyErr(vs) THEN VE ELSE VL(Ints(vs))

EvE(e, env, fns) ==
  CASE e.k = "num" -> VI(e.n)
    [] e.k = "str" -> VS(e.y)
    [] e.k = "id"  -> IF e.s = "true" THEN VB(TRUE) ELSE IF e.s = "false" THEN VB(FALSE)
                      ELSE IF e.s \in DOMAIN env THEN env[e.s] ELSE VE
    [] e.k = "bin" -> LET x == EvE(e.a[1], env, fns) IN
                      IF e.s = "&&" /\ x.t = "b" /\ x.i = 0 THEN x
                      ELSE IF e.s = "||" /\ x.t = "b" /\ x.i = 1 THEN x
                      ELSE BinV(e.s, x, EvE(e.a[2], env, fns))
    [] e.k = "un"  -> LET x == EvE(e.a[1], env, fns) IN
                      IF e.s = "-" /\ x.t = "i" THEN VI(0 - x.i) ELSE IF e.s = "!" /\ x.t = "b" THEN VB(x.i = 0) ELSE IF e.s = "&" THEN x ELSE VE
    [] e.k = "par" -> EvE(e.a[1], env, fns)
    [] e.k = "conv" -> EvE(e.a[1], env, fns)
    [] e.k = "ifx" -> LET c == EvE(e.a[1], env, fns) IN
                      IF c.t # "b" THEN VE ELSE IF c.i = 1 THEN EvE(e.a[2], env, fns) ELSE EvE(e.a[3], env, fns)
    [] e.k = "lit" -> IF e.s = "[][]int" THEN VE ELSE LitV(e, env, fns)           \* only indexed, see "ix"
    [] e.k = "al"  -> LitV(e, env, fns)
    [] e.k = "ml"  -> LET vs == EvAll(e.a, env, fns) IN IF AnyErr(vs) THEN VE ELSE VM(e.y, Ints(vs))
    [] e.k = "st"  -> LET vs == EvAll(e.a, env, fns) IN IF AnyErr(vs) \/ Len(vs) # 2 THEN VE ELSE VP(Ints(vs))
    [] e.k = "ix"  -> LET i == EvE(e.a[2], env, fns) IN
                      IF e.a[1].k = "lit" /\ e.a[1].s = "[][]int"
                      THEN (IF i.t = "i" /\ i.i + 1 \in DOMAIN e.a[1].a THEN LitV(e.a[1].a[i.i + 1], env, fns) ELSE VE)
                      ELSE LET x == EvE(e.a[1], env, fns) IN
                           IF x.t = "l" /\ i.t = "i" /\ i.i + 1 \in DOMAIN x.l THEN VI(x.l[i.i + 1])
                           ELSE IF x.t = "m" /\ i.t = "s" /\ Len(i.s) = 1 /\ KeyIx(x.s, i.s[1]) > 0 THEN VI(x.l[KeyIx(x.s, i.s[1])])
                           ELSE VE
    [] e.k = "slc" -> LET x  == EvE(e.a[1], env, fns)
                          lo == IF e.b = E0 THEN VI(0) ELSE EvE(e.b[1], env, fns)
                          hi == IF e.c = E0 THEN VI(IF x.t = "l" THEN Len(x.l) ELSE 0) ELSE EvE(e.c[1], env, fns)
                      IN IF x.t = "l" /\ lo.t = "i" /\ hi.t = "i" /\ 0 <= lo.i /\ lo.i <= hi.i /\ hi.i <= Len(x.l)
                         THEN VL(SubSeq(x.l, lo.i + 1, hi.i)) ELSE VE
    [] e.k = "sel" -> LET x == EvE(e.a[1], env, fns) IN IF x.t = "p" THEN VI(x.l[FieldIx(e.s)]) ELSE VE
    [] e.k = "call" ->
         LET vs == EvAll(e.a, env, fns) IN
         IF AnyErr(vs) THEN VE
         ELSE IF e.s = "len" THEN (IF Len(vs) = 1 /\ vs[1].t = "l" THEN VI(Len(vs[1].l)) ELSE VE)
         ELSE IF e.s = "append" THEN (IF Len(vs) = 2 /\ vs[1].t = "l" /\ vs[2].t = "i" THEN VL(Append(vs[1].l, vs[2].i)) ELSE VE)
         ELSE LET r == CallFn(e.s, IF e.n = 1 THEN [i \in 1..(Len(vs) - 1) |-> vs[i]] \o [i \in DOMAIN vs[Len(vs)].l |-> VI(vs[Len(vs)].l[i])] ELSE vs, <<>>, fns)
              IN IF r.ctl = "err" \/ Len(r.ret) # 1 THEN (IF r.ctl # "err" /\ Len(r.ret) > 1 THEN VT(Ints(r.ret)) ELSE VE) ELSE r.ret[1]
    [] e.k = "mcall" ->
         LET x == EvE(e.a[1], env, fns)
             vs == EvAll(e.b, env, fns)
         IN IF x.t = "e" \/ AnyErr(vs) THEN VE
            ELSE LET r == CallFn(e.s, vs, <<x>>, fns) IN IF r.ctl = "err" \/ Len(r.ret) # 1 THEN VE ELSE r.ret[1]
    [] e.k = "flc" ->
         LET vs == EvAll(e.a, env, fns) IN
         IF AnyErr(vs) \/ Len(vs) # Len(e.y) THEN VE
         ELSE LET env2 == [x \in DOMAIN env \cup {e.y[i] : i \in DOMAIN e.y} |->
                             IF \E i \in DOMAIN e.y : e.y[i] = x THEN vs[CHOOSE i \in DOMAIN e.y : e.y[i] = x] ELSE env[x]]
                  r == ExSs(e.b, St(env2, <<>>, "", "", <<>>, <<>>), fns)
              IN IF r.ctl = "ret" /\ Len(r.ret) = 1 THEN r.ret[1] ELSE VE

\* call of a declared function: positional parameters; a variadic last parameter takes the remaining (int) arguments as a list
FnOf(name, fns) == IF \E i \in DOMAIN fns : fns[i].s = name THEN fns[CHOOSE i \in DOMAIN fns : fns[i].s = name] ELSE Fn("", E0, E0, E0)
ParamNames(ps) == Cat([i \in DOMAIN ps |-> ps[i].y])
CallFn(name, args, recv, fns) ==
  LET f == FnOf(name, fns)
      ps == ParamNames(f.d)
      variadic == f.d # E0 /\ f.d[Len(f.d)].n = 1
      nfix == IF variadic THEN Len(ps) - 1 ELSE Len(ps)
      rnames == Cat([i \in DOMAIN f.c |-> f.c[i].y])
      bad == f.s = "" \/ Len(args) < nfix \/ (~variadic /\ Len(args) # nfix)
      env0 == [x \in {ps[i] : i \in DOMAIN ps} \cup {rnames[i] : i \in DOMAIN rnames} \cup (IF recv = E0 THEN {} ELSE {f.a[1].s}) |->
                 IF recv # E0 /\ x = f.a[1].s THEN recv[1]
                 ELSE IF \E i \in 1..nfix : ps[i] = x THEN args[CHOOSE i \in 1..nfix : ps[i] = x]
                 ELSE IF variadic /\ x = ps[Len(ps)] THEN VL([i \in 1..(Len(args) - nfix) |-> args[nfix + i].i])
                 ELSE VI(0)]
  IN IF bad THEN St(<<>>, <<>>, "err", "", <<>>, <<>>)
     ELSE LET r == ExSs(f.b, St(env0, <<>>, "", "", <<>>, <<>>), fns)
          IN IF r.ctl = "err" THEN r
             ELSE IF r.ctl = "ret" /\ r.ret = E0 /\ rnames # E0            \* bare return with named results
                  THEN [r EXCEPT !.ret = [i \in DOMAIN rnames |-> r.env[rnames[i]]]]
             ELSE r

\* assignment to a place
Store(l, v, st, fns) ==
  IF v.t = "e" THEN [st EXCEPT !.ctl = "err"]
  ELSE CASE l.k = "id"  -> [st EXCEPT !.env = Upd(st.env, l.s, v)]
         [] l.k = "ix"  -> LET x == EvE(l.a[1], st.env, fns)
                               i == EvE(l.a[2], st.env, fns)
                           IN IF l.a[1].k = "id" /\ x.t = "l" /\ i.t = "i" /\ i.i + 1 \in DOMAIN x.l /\ v.t = "i"
                              THEN [st EXCEPT !.env = Upd(st.env, l.a[1].s, VL([x.l EXCEPT ![i.i + 1] = v.i]))]
                              ELSE IF l.a[1].k = "id" /\ x.t = "m" /\ i.t = "s" /\ Len(i.s) = 1 /\ v.t = "i"
                              THEN (IF KeyIx(x.s, i.s[1]) > 0
                                    THEN [st EXCEPT !.env = Upd(st.env, l.a[1].s, VM(x.s, [x.l EXCEPT ![KeyIx(x.s, i.s[1])] = v.i]))]
                                    ELSE [st EXCEPT !.env = Upd(st.env, l.a[1].s, VM(Append(x.s, i.s[1]), Append(x.l, v.i)))])
                              ELSE [st EXCEPT !.ctl = "err"]
         [] l.k = "sel" -> LET x == EvE(l.a[1], st.env, fns) IN
                           IF l.a[1].k = "id" /\ x.t = "p" /\ v.t = "i"
                           THEN [st EXCEPT !.env = Upd(st.env, l.a[1].s, VP([x.l EXCEPT ![FieldIx(l.s)] = v.i]))]
                           ELSE [st EXCEPT !.ctl = "err"]
         [] OTHER -> [st EXCEPT !.ctl = "err"]
StoreAll(ls, vs, st, fns) ==
  LET RECURSIVE SA(_, _)
      SA(i, s) == IF i > Len(ls) \/ s.ctl # "" THEN s ELSE SA(i + 1, Store(ls[i], vs[i], s, fns))
  IN SA(1, st)
OpOf(aop) == SubSeq(aop, 1, Len(aop) - 1)                               \* "+=" -> "+"
PrintLine(vs, st) == IF AnyErr(vs) \/ \E i \in DOMAIN vs : vs[i].t \notin {"i", "b", "s"} THEN [st EXCEPT !.ctl = "err"]
                     ELSE [st EXCEPT !.out = Append(st.out, vs)]

\* clauses in order; the first whose list holds the tag (or, with no tag, a true expression) is taken, else the default clause;
\* its body runs; a clause ending in fallthrough continues with the body of the next clause
Same(x, y) == x.t = y.t /\ x.i = y.i /\ x.s = y.s /\ x.t \in {"i", "b", "s"}
Hits(c, tag, env, fns) == c.a # E0 /\ \E j \in DOMAIN c.a : Same(EvE(c.a[j], env, fns), tag)
MatchIx(cls, tag, env, fns) ==
  IF \E i \in DOMAIN cls : Hits(cls[i], tag, env, fns) THEN CHOOSE i \in DOMAIN cls : Hits(cls[i], tag, env, fns) /\ \A j \in 1..(i - 1) : ~Hits(cls[j], tag, env, fns)
  ELSE IF \E i \in DOMAIN cls : cls[i].a = E0 THEN CHOOSE i \in DOMAIN cls : cls[i].a = E0
  ELSE 0
ExS(s, st, fns) ==
  IF st.ctl # "" THEN st ELSE
  CASE s.k = "def"   -> Store(Id(s.s), EvE(s.a[1], st.env, fns), st, fns)
    [] s.k = "const" -> Store(Id(s.s), EvE(s.a[1], st.env, fns), st, fns)
    [] s.k = "mdef"  -> LET vs == IF Len(s.a) = 1 /\ Len(s.y) > 1
                                  THEN LET t == EvE(s.a[1], st.env, fns) IN IF t.t = "t" /\ Len(t.l) = Len(s.y) THEN [i \in DOMAIN t.l |-> VI(t.l[i])] ELSE <<VE>>
                                  ELSE EvAll(s.a, st.env, fns)
                        IN IF AnyErr(vs) \/ Len(vs) # Len(s.y) THEN [st EXCEPT !.ctl = "err"]
                           ELSE StoreAll([i \in DOMAIN s.y |-> Id(s.y[i])], vs, st, fns)
    [] s.k = "asg"   -> IF Len(s.a) = 1 /\ s.s # "="
                        THEN Store(s.a[1], BinV(OpOf(s.s), EvE(s.a[1], st.env, fns), EvE(s.b[1], st.env, fns)), st, fns)
                        ELSE LET vs == EvAll(s.b, st.env, fns) IN
                             IF AnyErr(vs) \/ Len(vs) # Len(s.a) THEN [st EXCEPT !.ctl = "err"] ELSE StoreAll(s.a, vs, st, fns)
    [] s.k = "inc"   -> Store(s.a[1], BinV(IF s.s = "++" THEN "+" ELSE "-", EvE(s.a[1], st.env, fns), VI(1)), st, fns)
    [] s.k = "var"   -> IF s.a = E0 THEN StoreAll([i \in DOMAIN s.y |-> Id(s.y[i])], [i \in DOMAIN s.y |-> VI(0)], st, fns)
                        ELSE LET vs == EvAll(s.a, st.env, fns) IN
                             IF AnyErr(vs) \/ Len(vs) # Len(s.y) THEN [st EXCEPT !.ctl = "err"]
                             ELSE StoreAll([i \in DOMAIN s.y |-> Id(s.y[i])], vs, st, fns)
    [] s.k = "vgrp"  -> ExSs(s.b, st, fns)
    [] s.k = "xs"    -> LET c == s.a[1] IN
                        IF c.k = "call" /\ c.s = "fmt.Println" THEN PrintLine(EvAll(c.a, st.env, fns), st)
                        ELSE IF c.k = "call" THEN          \* a declared function called for its effect: what it prints is printed here
                             LET vs == EvAll(c.a, st.env, fns) IN
                             IF AnyErr(vs) THEN [st EXCEPT !.ctl = "err"]
                             ELSE LET r == CallFn(c.s, vs, <<>>, fns) IN
                                  IF r.ctl = "err" THEN [st EXCEPT !.ctl = "err", !.out = st.out \o r.out] ELSE [st EXCEPT !.out = st.out \o r.out]
                        ELSE IF c.k = "mcall" /\ c.a[1].k = "id" THEN   \* pointer-receiver method on a variable: the variable takes the receiver's final value
                             LET x == EvE(c.a[1], st.env, fns)
                                 vs == EvAll(c.b, st.env, fns)
                                 r == CallFn(c.s, vs, <<x>>, fns)
                                 f == FnOf(c.s, fns)
                             IN IF x.t = "e" \/ AnyErr(vs) \/ r.ctl = "err" THEN [st EXCEPT !.ctl = "err"]
                                ELSE [st EXCEPT !.out = st.out \o r.out,
                                                !.env = IF f.n = 2 THEN Upd(st.env, c.a[1].s, r.env[f.a[1].s]) ELSE st.env]
                        ELSE IF c.k = "flc" THEN
                             LET r == RunDefers(ExSs(c.b, St(st.env, <<>>, "", "", <<>>, <<>>), fns), fns) IN
                             IF r.ctl = "err" \/ c.y # E0 THEN [st EXCEPT !.ctl = "err"] ELSE [st EXCEPT !.out = st.out \o r.out, !.env = [x \in DOMAIN st.env |-> r.env[x]]]
                        ELSE [st EXCEPT !.ctl = "err"]
    [] s.k = "if"    -> LET s1 == IF s.d = E0 THEN st ELSE ExS(s.d[1], st, fns)
                            c == IF s1.ctl # "" THEN VE ELSE EvE(s.a[1], s1.env, fns)
                        IN IF s1.ctl # "" THEN s1
                           ELSE IF c.t # "b" THEN [s1 EXCEPT !.ctl = "err"]
                           ELSE IF c.i = 1 THEN ExSs(s.b, s1, fns)
                           ELSE IF s.n = 0 THEN s1 ELSE ExSs(s.c, s1, fns)
    [] s.k \in {"for3", "forc", "fori"} ->
                        LET s1 == IF s.k = "for3" /\ s.d # E0 THEN ExS(s.d[1], st, fns) ELSE st IN ExLoop(s, s1, fns, Fuel)
    [] s.k = "forr"  -> LET r == EvE(s.a[1], st.env, fns) IN
                        IF r.t = "l" THEN ExRange(s, r.l, 1, st, fns)
                        ELSE IF r.t = "i" /\ r.i \in 0..Fuel THEN ExRange(s, [i \in 1..r.i |-> i - 1], 1, st, fns)   \* for i := range n
                        ELSE [st EXCEPT !.ctl = "err"]
    [] s.k = "lab"   -> LET r == ExS(s.a[1], [st EXCEPT !.lab = s.s], fns) IN [r EXCEPT !.lab = st.lab]
    [] s.k = "brk"   -> [st EXCEPT !.ctl = "brk", !.ret = <<VS(<<s.s>>)>>]
    [] s.k = "cnt"   -> [st EXCEPT !.ctl = "cnt", !.ret = <<VS(<<s.s>>)>>]
    [] s.k = "sw"    -> LET s1 == IF s.d = E0 THEN st ELSE ExS(s.d[1], st, fns)
                            tag == IF s.a = E0 THEN VB(TRUE) ELSE EvE(s.a[1], s1.env, fns)
                        IN IF s1.ctl # "" THEN s1 ELSE IF tag.t = "e" THEN [s1 EXCEPT !.ctl = "err"]
                           ELSE LET r == ExClauses(s.b, MatchIx(s.b, tag, s1.env, fns), s1, fns) IN
                                IF r.ctl = "brk" /\ r.ret = <<VS(<<"">>)>> THEN [r EXCEPT !.ctl = "", !.ret = <<>>] ELSE r
    [] s.k = "try"   -> LET r == ExSs(s.b, st, fns) IN
                        IF r.ctl = "err" THEN ExSs(s.c, [r EXCEPT !.ctl = "", !.env = IF s.s = "" THEN r.env ELSE Upd(r.env, s.s, VS(<<"err">>))], fns) ELSE r
    [] s.k = "defer" -> LET c == s.a[1] IN
                        IF c.k = "call" /\ c.s = "fmt.Println"
                        THEN LET vs == EvAll(c.a, st.env, fns) IN
                             IF AnyErr(vs) THEN [st EXCEPT !.ctl = "err"] ELSE [st EXCEPT !.dfr = Append(st.dfr, [line |-> vs, body |-> E0])]
                        ELSE IF c.k = "flc" /\ c.y = E0 THEN [st EXCEPT !.dfr = Append(st.dfr, [line |-> E0, body |-> c.b])]
                        ELSE [st EXCEPT !.ctl = "err"]
    [] s.k = "ret"   -> LET vs == IF Len(s.a) = 1 THEN LET v == EvE(s.a[1], st.env, fns) IN IF v.t = "t" THEN [i \in DOMAIN v.l |-> VI(v.l[i])] ELSE <<v>>
                                  ELSE EvAll(s.a, st.env, fns)
                        IN IF AnyErr(vs) THEN [st EXCEPT !.ctl = "err"] ELSE [st EXCEPT !.ctl = "ret", !.ret = vs]
    [] s.k = "blk"   -> ExSs(s.b, st, fns)
    [] OTHER         -> [st EXCEPT !.ctl = "err"]

\* a function value bound to a local name is callable by that name in the rest of the statement list
ExSs(ss, st, fns) == IF ss = E0 \/ st.ctl # "" THEN st
                     ELSE IF Head(ss).k = "deffn" THEN ExSs(Tail(ss), st, <<Fn(Head(ss).s, Head(ss).d, Head(ss).c, Head(ss).b)>> \o fns)
                     ELSE ExSs(Tail(ss), ExS(Head(ss), st, fns), fns)

\* after a loop pass: does a break / continue belong to this loop (unlabelled, or carrying this loop's label)?
Mine(r, lab) == r.ret = <<VS(<<"">>)>> \/ (lab # "" /\ r.ret = <<VS(<<lab>>)>>)
AfterPass(r, lab) == IF r.ctl \in {"brk", "cnt"} /\ Mine(r, lab) THEN [r EXCEPT !.ctl = "", !.ret = <<>>] ELSE r
ExLoop(s, st, fns, fuel) ==
  IF st.ctl # "" THEN st
  ELSE IF fuel = 0 THEN [st EXCEPT !.ctl = "err"]
  ELSE LET c == IF s.k = "fori" \/ s.a = E0 THEN VB(TRUE) ELSE EvE(s.a[1], st.env, fns) IN
       IF c.t # "b" THEN [st EXCEPT !.ctl = "err"]
       ELSE IF c.i = 0 THEN st
       ELSE LET lab == st.lab
                r == ExSs(s.b, [st EXCEPT !.lab = ""], fns)
                stop == r.ctl = "brk" /\ Mine(r, lab)
                r1 == [AfterPass(r, lab) EXCEPT !.lab = lab]
            IN IF stop \/ r1.ctl # "" THEN r1
               ELSE ExLoop(s, IF s.k = "for3" /\ s.c # E0 THEN ExS(s.c[1], r1, fns) ELSE r1, fns, fuel - 1)
ExRange(s, l, i, st, fns) ==
  IF st.ctl # "" \/ i > Len(l) THEN st
  ELSE LET lab == st.lab
           vs == IF Len(s.y) = 1 THEN <<VI(i - 1)>> ELSE <<VI(i - 1), VI(l[i])>>
           s0 == StoreAll([j \in DOMAIN s.y |-> Id(s.y[j])], vs,
                          [st EXCEPT !.lab = ""], fns)
           r == ExSs(s.b, s0, fns)
           stop == r.ctl = "brk" /\ Mine(r, lab)
           r1 == [AfterPass(r, lab) EXCEPT !.lab = lab]
       IN IF stop \/ r1.ctl # "" THEN r1 ELSE ExRange(s, l, i + 1, r1, fns)
\* a clause ending in fallthrough continues with the body of the next clause
ExClauses(cls, i, st, fns) ==
  IF i = 0 \/ i > Len(cls) \/ st.ctl # "" THEN st
  ELSE LET r == ExSs(cls[i].b, st, fns) IN IF cls[i].n = 1 /\ r.ctl = "" THEN ExClauses(cls, i + 1, r, fns) ELSE r

\* deferred calls of a finished function, last registered first
RunDefers(st, fns) ==
  LET RECURSIVE RD(_, _)
      RD(i, s) == IF i = 0 THEN s
                  ELSE LET d == st.dfr[i] IN
                       IF d.body = E0 THEN RD(i - 1, [s EXCEPT !.out = Append(s.out, d.line)])
                       ELSE LET r == ExSs(d.body, [s EXCEPT !.ctl = "", !.ret = <<>>], fns) IN RD(i - 1, [s EXCEPT !.out = r.out, !.env = r.env])
  IN RD(Len(st.dfr), st)
=============================================================================

SPECIFICATION Spec
CONSTANTS
  Tier = "t"
  Seed = 1
  Impl = "asis"
INVARIANTS TypeOK HeaderBraceSound
CHECK_DEADLOCK FALSE

SPECIFICATION Spec
CONSTANTS
  Tier = "n"
  Seed = 1
  Impl = "asis"
INVARIANTS TypeOK HeaderBraceSound
CHECK_DEADLOCK FALSE

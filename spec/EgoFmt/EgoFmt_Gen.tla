----------------------------- MODULE EgoFmt_Gen -----------------------------
(* The table CONSTRUCT x POSITION of C05, its layouts and comment placements, *)
(* and the state machine that builds, evaluates and prints every program.     *)
(*                                                                            *)
(* A state is one program: ix = (construct, position) indices (pc = "pre"),   *)
(* action Exec builds the tree (a function f_<c>_<p>(a, b int, sl []int)      *)
(* called with (3, 4, []int{5, 6, 7})), unparses it to tokens and evaluates it *)
(* (pc = "post").  Invariant Emit prints the record consumed by checks/C05.py:*)
(*   id, pc, cc    : identity; position class / construct class (finding key) *)
(*   toks          : the function as tokens {s, b, g, q, y} (see EgoFmt)      *)
(*   inv           : the tokens of the call statement                         *)
(*   out, status   : lines the call must print (each a list of values {t,i,s})*)
(*   go            : the program is also legal Go (cross-check of this spec)  *)
(*   vars          : variants {lay, mode, shape, cm}; cm = comment placements *)
(*                   {k: lc|bc|ol|ob|on, at: token indices}                   *)
(* The prelude (types and functions every file starts with) is printed once.  *)
EXTENDS EgoFmt, Json

VARIABLES pc, ix, cell
vars == <<pc, ix, cell>>

\* ------------------------------------------------------------------ short hands
vA == Id("a")
vB == Id("b")
vSl == Id("sl")
vX == Id("x")
vY == Id("y")
ii == Id("i")
jj == Id("j")
nn == Id("n")
vv == Id("v")
S1(t) == Str("dq", <<t>>)
O1(e) == Out(<<e>>)
OS(t) == Out(<<S1(t)>>)
Len1(e) == Call("len", <<e>>)
Sum1(e) == Call("sum", <<e>>)

\* ------------------------------------------------------------------ the prelude
PTypeP == TypeD("P", <<Tok("struct"), OPEN, Tok("a"), Tok("int"), SEP, Tok("b"), Tok("int"), SEP, CLOSE>>)
PTypeT == TypeD("T", TypeToks("[]int"))
Prelude == <<
  PTypeP, PTypeT,
  Fn("add", <<PG(<<"x", "y">>, "int")>>, <<RI("", "int")>>, <<Ret(<<Bin("+", vX, vY)>>)>>),
  Fn("twice", <<PG(<<"x">>, "int")>>, <<RI("", "int")>>, <<Ret(<<Bin("*", vX, Num(2))>>)>>),
  Fn("sum", <<PG(<<"l">>, "[]int")>>, <<RI("", "int")>>,
     <<Def("t", Num(0)), ForR(<<"_", "v">>, ":=", Id("l"), <<Asg("+=", Id("t"), vv)>>), Ret(<<Id("t")>>)>>),
  Fn("mk", <<PG(<<"x">>, "int")>>, <<RI("", "[]int")>>, <<Ret(<<Lit("[]int", <<vX, Bin("+", vX, Num(1))>>)>>)>>),
  Fn("vsum", <<PG(<<"k">>, "int"), PGV("xs", "int")>>, <<RI("", "int")>>,
     <<Def("t", Id("k")), ForR(<<"_", "v">>, ":=", Id("xs"), <<Asg("=", Id("t"), Bin("+", Id("t"), vv))>>), Ret(<<Id("t")>>)>>),
  Fn("divmod", <<PG(<<"x", "y">>, "int")>>, <<RI("q", "int"), RI("r", "int")>>,
     <<Asg("=", Id("q"), Bin("/", vX, vY)), Asg("=", Id("r"), Bin("%", vX, vY)), Ret(E0)>>),
  Fn("pair", <<PG(<<"x">>, "int")>>, <<RI("", "int"), RI("", "int")>>, <<Ret(<<vX, Bin("+", vX, Num(1))>>)>>),
  Fn("show", <<PG(<<"x">>, "int")>>, E0, <<Out(<<S1("show"), vX>>)>>),
  Meth("p", FALSE, "Sum", E0, <<RI("", "int")>>, <<Ret(<<Bin("+", Sel(Id("p"), "a"), Sel(Id("p"), "b"))>>)>>),
  Meth("p", TRUE, "Bump", <<PG(<<"k">>, "int")>>, E0, <<Asg("=", Sel(Id("p"), "a"), Bin("+", Sel(Id("p"), "a"), Id("k")))>>)
>>
Fns == SelectSeq(Prelude, LAMBDA f : f.k = "fn")
PreludeToks == Cat([i \in DOMAIN Prelude |-> TkS(Prelude[i])])

\* ------------------------------------------------------------------ constructs
\* id, class (for the finding key), type of the value, legal Go, nm: a composite literal of a NAMED type not inside ( ) or [ ],
\* min: length of a list value, simple: the only braces are those of composite literals
C(id, cls, ty, go, nm, min, simple, e) == [id |-> id, cls |-> cls, ty |-> ty, go |-> go, nm |-> nm, min |-> min, simple |-> simple, e |-> e, ss |-> E0]
Z(id, cls, go, ss) == [id |-> id, cls |-> cls, ty |-> "z", go |-> go, nm |-> FALSE, min |-> 0, simple |-> TRUE, e |-> Num(0), ss |-> ss]
PAB == SLit(<<"a", "b">>, <<vA, vB>>)
Constructs == <<
  C("I1", "literal", "i", TRUE, FALSE, 0, TRUE, Num(7)),
  C("I2", "arith", "i", TRUE, FALSE, 0, TRUE, Bin("+", vA, Bin("*", vB, Num(2)))),
  C("I3", "paren", "i", TRUE, FALSE, 0, TRUE, Bin("*", Par(Bin("+", vA, vB)), Num(2))),
  C("I4", "unary-unary", "i", TRUE, FALSE, 0, TRUE, Bin("+", Un("-", vA), Un("-", Un("-", vB)))),
  C("I5", "paren", "i", TRUE, FALSE, 0, TRUE, Bin("-", Num(9), Par(Bin("-", vB, Num(1))))),
  C("I6", "arith", "i", TRUE, FALSE, 0, TRUE, Bin("+", Bin("%", vB, Num(3)), Bin("/", Num(9), vA))),
  C("I7", "call", "i", TRUE, FALSE, 0, TRUE, Call("add", <<vA, vB>>)),
  C("I8", "call", "i", TRUE, FALSE, 0, TRUE, Call("add", <<Call("twice", <<vA>>), Len1(vSl)>>)),
  C("I9", "funclit", "i", TRUE, FALSE, 0, FALSE, FLC(<<"q">>, "int", <<Ret(<<Bin("*", Id("q"), Num(2))>>)>>, <<vA>>)),
  C("I10", "lit-slice", "i", TRUE, FALSE, 0, TRUE, Ix(Lit("[]int", <<vA, vB, Num(9)>>), Num(1))),
  C("I11", "lit-slice", "i", TRUE, FALSE, 0, TRUE, Len1(Lit("[]int", <<vA, vB>>))),
  C("I12", "lit-slice", "i", TRUE, FALSE, 0, TRUE, Sum1(Lit("[]int", <<Num(1), Num(2), Num(3)>>))),
  C("I13", "lit-struct", "i", TRUE, TRUE, 0, TRUE, Sel(PAB, "b")),
  C("I14", "lit-map", "i", TRUE, FALSE, 0, TRUE, Ix(MLit(<<"k1", "k2">>, <<vA, vB>>), S1("k2"))),
  C("I15", "conv", "i", TRUE, FALSE, 0, TRUE, Conv("int", vA)),
  C("I16", "bitop", "i", TRUE, FALSE, 0, TRUE, Bin("|", Par(Bin("<<", vA, Num(1))), Par(Bin("&", vB, Num(5))))),
  C("I17", "lit-array", "i", FALSE, FALSE, 0, TRUE, Ix(ALit(<<vA, vB, Num(5)>>), Num(2))),
  C("I18", "lit-nested", "i", TRUE, FALSE, 0, TRUE, Ix(Ix(Lit("[][]int", <<Lit("", <<Num(1)>>), Lit("", <<vA, vB>>)>>), Num(1)), Num(0))),
  C("I19", "slice-expr", "i", TRUE, FALSE, 0, TRUE, Ix(Slc(vSl, <<Num(1)>>, E0), Num(0))),
  C("I20", "slice-expr", "i", TRUE, FALSE, 0, TRUE, Len1(Slc(vSl, E0, <<Num(2)>>))),
  C("I21", "slice-expr", "i", TRUE, FALSE, 0, TRUE, Bin("+", Len1(Slc(vSl, <<Num(1)>>, <<Num(2)>>)), Ix(Slc(vSl, <<Num(1)>>, <<Num(2)>>), Num(0)))),
  C("I22", "ifexpr", "i", FALSE, FALSE, 0, FALSE, IfX(Bin(">", vA, Num(1)), Num(10), Num(20))),
  C("I23", "lit-struct", "i", TRUE, TRUE, 0, TRUE, Sel(SLit(E0, <<vA, vB>>), "a")),
  C("I24", "method", "i", TRUE, TRUE, 0, TRUE, MCall(SLit(<<"a", "b">>, <<vA, Num(2)>>), "Sum", E0)),
  C("I25", "variadic", "i", TRUE, FALSE, 0, TRUE, Call("vsum", <<Num(1), vA, vB>>)),
  C("I26", "variadic", "i", TRUE, FALSE, 0, TRUE, CallSp("vsum", <<Num(1), vSl>>)),
  C("I27", "lit-named", "i", TRUE, TRUE, 0, TRUE, Ix(Lit("T", <<vA, vB>>), Num(0))),
  C("I28", "call", "i", TRUE, FALSE, 0, TRUE, Sum1(Call("mk", <<vA>>))),
  C("I29", "lit-slice", "i", TRUE, FALSE, 0, TRUE, Len1(Call("append", <<Lit("[]int", <<Num(1)>>), vA>>))),
  C("I30", "unary-unary", "i", TRUE, FALSE, 0, TRUE, Un("-", Par(Un("-", vA)))),
  C("I31", "unary-unary", "i", TRUE, FALSE, 0, TRUE, Bin("-", vB, Un("-", vA))),
  C("I32", "funclit-lit", "i", TRUE, FALSE, 0, FALSE,
    FLC(<<"q">>, "int", <<Def("w", Lit("[]int", <<Id("q"), Num(2)>>)), Ret(<<Ix(Id("w"), Num(0))>>)>>, <<vA>>)),
  C("B1", "compare", "b", TRUE, FALSE, 0, TRUE, Bin("<", vA, vB)),
  C("B2", "logic", "b", TRUE, FALSE, 0, TRUE, Bin("&&", Bin("==", vA, Num(3)), Bin("!=", vB, Num(5)))),
  C("B3", "logic", "b", TRUE, FALSE, 0, TRUE, Bin("||", Un("!", Par(Bin(">", vA, vB))), Bin("==", vA, vB))),
  C("B4", "lit-slice", "b", TRUE, FALSE, 0, TRUE, Bin("==", Len1(Lit("[]int", <<vA, vB>>)), Num(2))),
  C("B5", "string", "b", TRUE, FALSE, 0, TRUE, Bin("==", Str("dq", <<"a", "b">>), Str("raw", <<"a", "b">>))),
  C("B6", "compare", "b", TRUE, FALSE, 0, TRUE, Bin(">", vA, vB)),
  C("B7", "lit-struct", "b", TRUE, TRUE, 0, TRUE, Bin("==", Sel(PAB, "a"), Num(3))),
  C("B8", "unary-unary", "b", TRUE, FALSE, 0, TRUE, Un("!", Par(Un("!", Par(Bin("<", vA, vB)))))),
  C("S1", "string", "s", TRUE, FALSE, 0, TRUE, Str("dq", <<"a", "b">>)),
  C("S2", "string-raw", "s", TRUE, FALSE, 0, TRUE, Str("raw", <<"a", "b">>)),
  C("S3", "string", "s", TRUE, FALSE, 0, TRUE, Bin("+", S1("a"), S1("b"))),
  C("S4", "string-slashes", "s", TRUE, FALSE, 0, TRUE, Str("dq", <<"a", "SL2", "b">>)),
  C("S5", "string-slashes", "s", TRUE, FALSE, 0, TRUE, Str("dq", <<"BC", "x", "CB">>)),
  C("S6", "string-escape", "s", TRUE, FALSE, 0, TRUE, Str("dq", <<"q", "DQ", "q">>)),
  C("S7", "string-escape", "s", TRUE, FALSE, 0, TRUE, Str("dq", <<"b", "BS", "s">>)),
  C("S8", "string-raw", "s", TRUE, FALSE, 0, TRUE, Str("raw", <<"r", "DQ", "BS", "n">>)),
  C("S9", "string-escape", "s", TRUE, FALSE, 0, TRUE, Str("dq", <<"t", "TAB", "t">>)),
  C("S10", "string-raw", "s", TRUE, FALSE, 0, TRUE, Str("raw", <<"SL2", "x", "BC">>)),
  C("L1", "lit-slice", "l", TRUE, FALSE, 3, TRUE, Lit("[]int", <<Num(1), Num(2), Num(3)>>)),
  C("L2", "lit-slice", "l", TRUE, FALSE, 2, TRUE, Lit("[]int", <<vA, vB>>)),
  C("L3", "lit-array", "l", FALSE, FALSE, 3, TRUE, ALit(<<vA, vB, Num(5)>>)),
  C("L4", "call", "l", TRUE, FALSE, 2, TRUE, Call("mk", <<vA>>)),
  C("L5", "var", "l", TRUE, FALSE, 3, TRUE, vSl),
  C("L6", "slice-expr", "l", TRUE, FALSE, 2, TRUE, Slc(vSl, <<Num(1)>>, E0)),
  C("L7", "lit-named", "l", TRUE, TRUE, 2, TRUE, Lit("T", <<Num(1), Num(2)>>)),
  C("L8", "lit-slice", "l", TRUE, FALSE, 2, TRUE, Call("append", <<Lit("[]int", <<Num(1)>>), vB>>)),
  C("L9", "lit-paren", "l", TRUE, FALSE, 2, TRUE, Par(Lit("[]int", <<Num(4), Num(5)>>))),
  C("L10", "lit-empty", "l", TRUE, FALSE, 0, TRUE, Lit("[]int", E0)),
  C("P1", "lit-struct", "p", TRUE, TRUE, 0, TRUE, SLit(<<"a", "b">>, <<Num(1), Num(2)>>)),
  C("P2", "lit-struct", "p", TRUE, TRUE, 0, TRUE, SLit(E0, <<vA, vB>>)),
  Z("Z1", "var-group", TRUE, <<VarGrp(<<Var(<<"u">>, "", <<Num(1)>>), Var(<<"w">>, "int", <<Num(2)>>)>>), Out(<<Id("u"), Id("w")>>)>>),
  Z("Z2", "const", TRUE, <<Const("k", Num(3)), O1(Bin("+", Id("k"), vA))>>),
  Z("Z3", "multi-result", TRUE, <<MDef(<<"q", "r">>, <<Call("divmod", <<Num(17), vA>>)>>), Out(<<Id("q"), Id("r")>>)>>),
  Z("Z4", "multi-result", TRUE, <<MDef(<<"x", "y">>, <<Call("pair", <<vB>>)>>), Out(<<vX, vY>>)>>),
  Z("Z5", "call-stmt", TRUE, <<XS(Call("show", <<vA>>))>>),
  Z("Z6", "var-multi", TRUE, <<Var(<<"x", "y">>, "int", <<Num(1), Num(2)>>), MAsg(<<vX, vY>>, <<vY, vX>>), Out(<<vX, vY>>)>>),
  Z("Z7", "var-zero", TRUE, <<Var(<<"x">>, "int", E0), O1(vX)>>),
  Z("Z8", "for-ever", TRUE, <<Def("n", Num(0)), ForI(<<IncS("++", nn), If(E0, Bin(">=", nn, Num(2)), <<Brk("")>>, E0)>>), O1(nn)>>),
  Z("Z9", "continue", TRUE, <<For3(<<Def("i", Num(0))>>, <<Bin("<", ii, Num(3))>>, <<IncS("++", ii)>>,
                                   <<If(E0, Bin("==", ii, Num(1)), <<Cnt("")>>, E0), O1(ii)>>)>>),
  Z("Z10", "else-chain", TRUE, <<IfElif(E0, Bin(">", vA, vB), <<OS("gt")>>, If(E0, Bin("==", vA, vB), <<OS("eq")>>, <<OS("lt")>>))>>),
  Z("Z11", "try-in-loop", FALSE, <<For3(<<Def("i", Num(0))>>, <<Bin("<", ii, Num(2))>>, <<IncS("++", ii)>>,
                                        <<Try(<<O1(Bin("/", Num(4), ii))>>, "", <<OS("c")>>)>>)>>),
  Z("Z12", "catch-var", FALSE, <<Def("z", Num(0)), Try(<<O1(Bin("/", Num(1), Id("z")))>>, "e", <<Asg("=", Id("_"), Id("e")), OS("caught")>>)>>),
  Z("Z13", "empty-body", TRUE, <<For3(<<Def("i", Num(0))>>, <<Bin("<", ii, Num(3))>>, <<IncS("++", ii)>>, E0), OS("done")>>),
  Z("Z14", "defer-order", TRUE, <<Defer(Call("fmt.Println", <<Num(1)>>)), Defer(Call("fmt.Println", <<Num(2)>>)), OS("b")>>),
  Z("Z15", "func-value", TRUE, <<DefFn("g", <<PG(<<"q">>, "int")>>, <<RI("", "int")>>, <<Ret(<<Bin("+", Id("q"), Num(1))>>)>>), O1(Call("g", <<vA>>))>>),
  Z("Z16", "ptr-method", TRUE, <<Def("pp", Un("&", SLit(<<"a", "b">>, <<Num(1), Num(2)>>))), XS(MCall(Id("pp"), "Bump", <<Num(2)>>)), O1(Sel(Id("pp"), "a"))>>),
  Z("Z17", "range-int", TRUE, <<ForR(<<"i">>, ":=", Num(3), <<O1(ii)>>)>>),
  Z("Z18", "switch-nomatch", TRUE, <<Sw(E0, <<vA>>, <<Cl(<<Num(1)>>, <<OS("one")>>), Cl(<<Num(2)>>, <<OS("two")>>)>>), OS("end")>>)
>>
NC == Len(Constructs)

\* ------------------------------------------------------------------ positions
\* id, class, type of the hole, legal Go, hb: the hole stands in a statement header outside ( ) and [ ], need: list length needed
PM(id, cls, ty, go, hb, need) == [id |-> id, cls |-> cls, ty |-> ty, go |-> go, hb |-> hb, need |-> need]
TF(c) == If(E0, c, <<OS("t")>>, <<OS("f")>>)
Loop3(v, lim, body) == For3(<<Def(v, Num(0))>>, <<Bin("<", Id(v), lim)>>, <<IncS("++", Id(v))>>, body)
Positions == <<
  PM("PI1", "define", "i", TRUE, FALSE, 0),       PM("PI2", "var", "i", TRUE, FALSE, 0),
  PM("PI3", "var", "i", TRUE, FALSE, 0),          PM("PI4", "assign", "i", TRUE, FALSE, 0),
  PM("PI5", "op-assign", "i", TRUE, FALSE, 0),    PM("PI6", "argument", "i", TRUE, FALSE, 0),
  PM("PI7", "if-cond", "i", TRUE, TRUE, 0),       PM("PI8", "if-init", "i", TRUE, TRUE, 0),
  PM("PI9", "elseif-cond", "i", TRUE, TRUE, 0),   PM("PI10", "for-cond", "i", TRUE, TRUE, 0),
  PM("PI11", "for-init", "i", TRUE, TRUE, 0),     PM("PI12", "for-post", "i", TRUE, TRUE, 0),
  PM("PI13", "while-cond", "i", TRUE, TRUE, 0),   PM("PI14", "switch-tag", "i", TRUE, TRUE, 0),
  PM("PI15", "switch-init", "i", TRUE, TRUE, 0),  PM("PI16", "case-expr", "i", TRUE, FALSE, 0),
  PM("PI17", "case-list", "i", TRUE, FALSE, 0),   PM("PI18", "return", "i", TRUE, FALSE, 0),
  PM("PI19", "defer-arg", "i", TRUE, FALSE, 0),   PM("PI20", "try", "i", FALSE, FALSE, 0),
  PM("PI21", "range-elem", "i", TRUE, FALSE, 0),  PM("PI22", "index", "i", TRUE, FALSE, 0),
  PM("PI23", "map-value", "i", TRUE, FALSE, 0),   PM("PI24", "struct-value", "i", TRUE, FALSE, 0),
  PM("PI25", "multi-assign", "i", TRUE, FALSE, 0), PM("PI26", "labeled-loop", "i", TRUE, FALSE, 0),
  PM("PI27", "defer-func", "i", TRUE, FALSE, 0),  PM("PI28", "inc-dec", "i", TRUE, FALSE, 0),
  PM("PI29", "block", "i", TRUE, FALSE, 0),       PM("PI30", "fallthrough", "i", TRUE, FALSE, 0),
  PM("PI31", "unary-operand", "i", TRUE, FALSE, 0),
  PM("PL1", "range", "l", TRUE, TRUE, 0),         PM("PL2", "range", "l", TRUE, TRUE, 0),
  PM("PL3", "range", "l", TRUE, TRUE, 0),         PM("PL4", "range-assign", "l", TRUE, TRUE, 0),
  PM("PL5", "define", "l", TRUE, FALSE, 0),       PM("PL6", "argument", "l", TRUE, FALSE, 0),
  PM("PL7", "if-cond", "l", TRUE, FALSE, 0),      PM("PL8", "if-init", "l", TRUE, TRUE, 0),
  PM("PL9", "switch-tag", "l", TRUE, FALSE, 0),   PM("PL10", "switch-init", "l", TRUE, TRUE, 0),
  PM("PL11", "for-cond", "l", TRUE, FALSE, 0),    PM("PL12", "index", "l", TRUE, FALSE, 1),
  PM("PL13", "if-cond", "l", TRUE, TRUE, 1),      PM("PL14", "while-cond", "l", TRUE, FALSE, 0),
  PM("PL15", "spread", "l", TRUE, FALSE, 0),      PM("PL16", "return", "l", TRUE, FALSE, 0),
  PM("PL17", "range-nested", "l", TRUE, TRUE, 0),
  PM("PB1", "if-cond", "b", TRUE, TRUE, 0),       PM("PB2", "define", "b", TRUE, FALSE, 0),
  PM("PB3", "while-cond", "b", TRUE, FALSE, 0),   PM("PB4", "case-expr", "b", TRUE, FALSE, 0),
  PM("PB5", "unary-operand", "b", TRUE, FALSE, 0), PM("PB6", "elseif-cond", "b", TRUE, TRUE, 0),
  PM("PB7", "for-cond", "b", TRUE, FALSE, 0),     PM("PB8", "argument", "b", TRUE, FALSE, 0),
  PM("PB9", "switch-tag", "b", TRUE, TRUE, 0),
  PM("PS1", "argument", "s", TRUE, FALSE, 0),     PM("PS2", "define", "s", TRUE, FALSE, 0),
  PM("PS3", "if-cond", "s", TRUE, TRUE, 0),       PM("PS4", "switch-tag", "s", TRUE, TRUE, 0),
  PM("PS5", "case-list", "s", TRUE, FALSE, 0),    PM("PS6", "defer-arg", "s", TRUE, FALSE, 0),
  PM("PS7", "return", "s", TRUE, FALSE, 0),
  PM("PP1", "define", "p", TRUE, FALSE, 0),       PM("PP2", "if-init", "p", TRUE, TRUE, 0),
  PM("PP3", "argument", "p", TRUE, FALSE, 0),     PM("PP4", "if-cond", "p", TRUE, TRUE, 0),
  PM("PP5", "switch-tag", "p", TRUE, TRUE, 0),    PM("PP6", "for-cond", "p", TRUE, TRUE, 0),
  PM("PP7", "method", "p", TRUE, FALSE, 0),       PM("PP8", "ptr-method", "p", TRUE, FALSE, 0),
  PM("PP9", "switch-init", "p", TRUE, TRUE, 0),   PM("PP10", "address-of", "p", TRUE, FALSE, 0),
  PM("PZ1", "plain", "z", TRUE, FALSE, 0),        PM("PZ2", "in-if", "z", TRUE, FALSE, 0),
  PM("PZ3", "in-else", "z", TRUE, FALSE, 0),      PM("PZ4", "in-for", "z", TRUE, FALSE, 0),
  PM("PZ5", "in-try", "z", FALSE, FALSE, 0),      PM("PZ6", "in-funclit", "z", TRUE, FALSE, 0),
  PM("PZ7", "in-case", "z", TRUE, FALSE, 0),      PM("PZ8", "in-default", "z", TRUE, FALSE, 0)
>>
NP == Len(Positions)

Env0 == [v \in {"a", "b", "sl"} |-> CASE v = "a" -> VI(3) [] v = "b" -> VI(4) [] v = "sl" -> VL(<<5, 6, 7>>)]
\* the statements of position p around the hole H (PH: the hole as an operand of a larger expression), ZS: statements (type "z")
Stmts(p, H, ZS) ==
  LET PH == Par(H)
      HV == EvE(H, Env0, Fns)        \* the value of the hole in the function's initial environment (used to write a matching literal)
  IN
  CASE p = "PI1"  -> <<Def("x", H), O1(vX)>>
    [] p = "PI2"  -> <<Var(<<"x">>, "int", <<H>>), O1(vX)>>
    [] p = "PI3"  -> <<Var(<<"x">>, "", <<H>>), O1(vX)>>
    [] p = "PI4"  -> <<Def("x", Num(0)), Asg("=", vX, H), O1(vX)>>
    [] p = "PI5"  -> <<Def("x", Num(1)), Asg("+=", vX, H), Asg("*=", vX, Num(2)), Asg("-=", vX, H), O1(vX), Asg("/=", vX, Num(2)), O1(vX)>>
    [] p = "PI6"  -> <<Out(<<S1("v"), H>>)>>
    [] p = "PI7"  -> <<TF(Bin(">", H, Num(3)))>>
    [] p = "PI8"  -> <<If(<<Def("x", H)>>, Bin(">", vX, Num(3)), <<O1(vX)>>, <<O1(Bin("-", Num(0), vX))>>)>>
    [] p = "PI9"  -> <<IfElif(E0, Bin(">", vA, vB), <<OS("no")>>, TF(Bin(">", H, Num(3))))>>
    [] p = "PI10" -> <<For3(<<Def("i", Num(0))>>, <<Bin("&&", Bin("<", ii, H), Bin("<", ii, Num(3)))>>, <<IncS("++", ii)>>, <<O1(ii)>>)>>
    [] p = "PI11" -> <<For3(<<Def("i", H)>>, <<Bin("<", ii, Bin("+", H, Num(2)))>>, <<IncS("++", ii)>>, <<O1(ii)>>)>>
    [] p = "PI12" -> <<For3(<<Def("i", Num(0))>>, <<Bin("<", ii, Num(30))>>, <<Asg("=", ii, Bin("+", Bin("+", ii, PH), Num(9)))>>, <<O1(ii)>>)>>     \* (the interpreter has no "+=" in this clause)
    [] p = "PI13" -> <<Def("n", Num(0)), ForC(Bin("<", nn, H), <<Asg("+=", nn, Num(8))>>), O1(nn)>>
    [] p = "PI14" -> <<Sw(E0, <<H>>, <<Cl(<<Num(7)>>, <<OS("seven")>>), Cl(<<Num(4), Num(6)>>, <<OS("4or6")>>), Cl(E0, <<OS("other")>>)>>)>>
    [] p = "PI15" -> <<Sw(<<Def("x", H)>>, <<vX>>, <<Cl(<<Num(7)>>, <<Out(<<S1("seven"), vX>>)>>), Cl(E0, <<Out(<<S1("other"), vX>>)>>)>>)>>
    [] p = "PI16" -> <<Sw(E0, E0, <<Cl(<<Bin(">", H, Num(5))>>, <<OS("big")>>), Cl(E0, <<OS("small")>>)>>)>>
    [] p = "PI17" -> <<Sw(E0, <<Num(HV.i)>>, <<Cl(<<Num(0), H>>, <<OS("hit")>>), Cl(E0, <<OS("miss")>>)>>)>>    \* (the tag is H's value)
    [] p = "PI18" -> <<Def("r", FLC(E0, "int", <<Ret(<<H>>)>>, E0)), O1(Id("r"))>>
    [] p = "PI19" -> <<Defer(Call("fmt.Println", <<S1("d"), H>>)), OS("body")>>
    [] p = "PI20" -> <<Def("z", Num(0)), Try(<<O1(H), O1(Bin("/", PH, Id("z"))), OS("no")>>, "", <<OS("caught")>>)>>
    [] p = "PI21" -> <<ForR(<<"_", "v">>, ":=", Lit("[]int", <<H, Num(1)>>), <<O1(vv)>>)>>
    [] p = "PI22" -> <<O1(Ix(vSl, Bin("%", PH, Num(3)))), Asg("=", Ix(vSl, Num(0)), H), O1(Ix(vSl, Num(0)))>>
    [] p = "PI23" -> <<Def("m", MLit(<<"k1", "k2">>, <<H, Num(2)>>)), Asg("=", Ix(Id("m"), S1("k2")), H),
                       Out(<<Ix(Id("m"), S1("k1")), Ix(Id("m"), S1("k2"))>>)>>
    [] p = "PI24" -> <<Def("p", SLit(<<"a", "b">>, <<H, Num(1)>>)), Asg("=", Sel(Id("p"), "b"), H), Out(<<Sel(Id("p"), "a"), Sel(Id("p"), "b")>>)>>
    [] p = "PI25" -> <<MDef(<<"x", "y">>, <<H, Num(2)>>), MAsg(<<vX, vY>>, <<vY, vX>>), Out(<<vX, vY>>)>>
    [] p = "PI26" -> <<Lab("outer", Loop3("i", Num(3), <<Loop3("j", Num(3),
                          <<If(E0, Bin("==", jj, Num(1)), <<Cnt("outer")>>, E0),
                            If(E0, Bin("==", ii, Bin("%", PH, Num(3))), <<Brk("outer")>>, E0),
                            Out(<<ii, jj>>)>>)>>)), OS("end")>>
    [] p = "PI27" -> <<Defer(FLC(E0, "", <<Out(<<S1("df"), H>>)>>, E0)), OS("body")>>
    [] p = "PI28" -> <<Def("x", H), IncS("++", vX), O1(vX), IncS("--", vX), IncS("--", vX), O1(vX)>>
    [] p = "PI29" -> <<Blk(<<Def("y", H), O1(vY)>>), OS("after")>>
    [] p = "PI30" -> <<Sw(E0, <<vA>>, <<ClFT(<<Num(3)>>, <<O1(H)>>), Cl(<<Num(4)>>, <<OS("ft")>>), Cl(E0, <<OS("d")>>)>>)>>
    [] p = "PI31" -> <<Def("x", Un("-", PH)), O1(vX), O1(Bin("*", PH, Num(2)))>>
    [] p = "PL1"  -> <<ForR(<<"i", "v">>, ":=", H, <<Out(<<ii, vv>>)>>)>>
    [] p = "PL2"  -> <<ForR(<<"_", "v">>, ":=", H, <<O1(vv)>>), OS("end")>>
    [] p = "PL3"  -> <<Def("n", Num(0)), ForR(<<"i">>, ":=", H, <<Asg("+=", nn, Bin("+", ii, Num(1)))>>), O1(nn)>>
    [] p = "PL4"  -> <<Var(<<"i", "v">>, "int", E0), ForR(<<"i", "v">>, "=", H, <<Out(<<ii, vv>>)>>), OS("end")>>  \* (what i, v hold afterwards differs between Ego and Go: not printed)
    [] p = "PL5"  -> <<Def("x", H), Out(<<Len1(vX), Sum1(vX)>>)>>
    [] p = "PL6"  -> <<Out(<<Sum1(H), Len1(H)>>)>>
    [] p = "PL7"  -> <<If(E0, Bin("==", Len1(H), Num(2)), <<OS("two")>>, <<OS("not2")>>)>>
    [] p = "PL8"  -> <<If(<<Def("x", H)>>, Bin(">", Len1(vX), Num(1)), <<O1(Sum1(vX))>>, <<OS("short")>>)>>
    [] p = "PL9"  -> <<Sw(E0, <<Len1(H)>>, <<Cl(<<Num(2)>>, <<OS("two")>>), Cl(<<Num(3)>>, <<OS("three")>>), Cl(E0, <<OS("other")>>)>>)>>
    [] p = "PL10" -> <<Sw(<<Def("x", H)>>, <<Len1(vX)>>, <<Cl(<<Num(2)>>, <<OS("two")>>), Cl(E0, <<O1(Sum1(vX))>>)>>)>>
    [] p = "PL11" -> <<Loop3("i", Len1(H), <<O1(ii)>>)>>
    [] p = "PL12" -> <<O1(Ix(H, Num(0)))>>
    [] p = "PL13" -> <<If(E0, Bin("==", Ix(H, Num(0)), Num(1)), <<OS("one")>>, <<OS("notone")>>)>>
    [] p = "PL14" -> <<Def("n", Num(0)), ForC(Bin("<", nn, Len1(H)), <<IncS("++", nn)>>), O1(nn)>>
    [] p = "PL15" -> <<O1(CallSp("vsum", <<Num(1), H>>))>>
    [] p = "PL16" -> <<Def("r", FLC(E0, "[]int", <<Ret(<<H>>)>>, E0)), O1(Sum1(Id("r")))>>
    [] p = "PL17" -> <<ForR(<<"_", "v">>, ":=", H, <<ForR(<<"_", "w">>, ":=", H, <<Out(<<vv, Id("w")>>)>>)>>)>>
    [] p = "PB1"  -> <<TF(H)>>
    [] p = "PB2"  -> <<Def("x", H), O1(vX)>>
    [] p = "PB3"  -> <<Def("n", Num(0)), ForC(Bin("&&", PH, Bin("<", nn, Num(2))), <<IncS("++", nn)>>), O1(nn)>>
    [] p = "PB4"  -> <<Sw(E0, E0, <<Cl(<<H>>, <<OS("yes")>>), Cl(E0, <<OS("no")>>)>>)>>
    [] p = "PB5"  -> <<O1(Un("!", PH))>>
    [] p = "PB6"  -> <<IfElif(E0, Un("!", PH), <<OS("neg")>>, If(E0, H, <<OS("pos")>>, <<OS("none")>>))>>
    [] p = "PB7"  -> <<For3(<<Def("i", Num(0))>>, <<Bin("&&", PH, Bin("<", ii, Num(2)))>>, <<IncS("++", ii)>>, <<O1(ii)>>)>>
    [] p = "PB8"  -> <<Out(<<S1("v"), H>>)>>
    [] p = "PB9"  -> <<Sw(E0, <<H>>, <<Cl(<<Bool(TRUE)>>, <<OS("T")>>), Cl(<<Bool(FALSE)>>, <<OS("F")>>)>>)>>
    [] p = "PS1"  -> <<Out(<<H, S1("v")>>)>>
    [] p = "PS2"  -> <<Def("x", H), O1(Bin("+", vX, S1("z")))>>
    [] p = "PS3"  -> <<If(E0, Bin("==", H, Str("dq", <<"a", "b">>)), <<OS("eq")>>, <<OS("ne")>>)>>
    [] p = "PS4"  -> <<Sw(E0, <<H>>, <<Cl(<<Str("dq", <<"a", "b">>)>>, <<OS("ab")>>), Cl(E0, <<OS("other")>>)>>)>>
    [] p = "PS5"  -> <<Sw(E0, <<Str("dq", HV.s)>>, <<Cl(<<S1("x"), H>>, <<OS("hit")>>), Cl(E0, <<OS("miss")>>)>>)>>
    [] p = "PS6"  -> <<Defer(Call("fmt.Println", <<H>>)), OS("body")>>
    [] p = "PS7"  -> <<Def("r", FLC(E0, "string", <<Ret(<<H>>)>>, E0)), O1(Id("r"))>>
    [] p = "PP1"  -> <<Def("x", H), Out(<<Sel(vX, "a"), Sel(vX, "b")>>)>>
    [] p = "PP2"  -> <<If(<<Def("x", H)>>, Bin("==", Sel(vX, "a"), Num(1)), <<O1(Sel(vX, "b"))>>, <<OS("no")>>)>>
    [] p = "PP3"  -> <<O1(Sel(H, "b"))>>
    [] p = "PP4"  -> <<If(E0, Bin("==", Sel(H, "a"), Num(1)), <<OS("one")>>, <<OS("notone")>>)>>
    [] p = "PP5"  -> <<Sw(E0, <<Sel(H, "b")>>, <<Cl(<<Num(2)>>, <<OS("two")>>), Cl(E0, <<OS("other")>>)>>)>>
    [] p = "PP6"  -> <<Loop3("i", Sel(H, "b"), <<O1(ii)>>)>>
    [] p = "PP7"  -> <<O1(MCall(H, "Sum", E0))>>
    [] p = "PP8"  -> <<Def("x", H), XS(MCall(vX, "Bump", <<Num(5)>>)), O1(Sel(vX, "a"))>>
    [] p = "PP9"  -> <<Sw(<<Def("x", H)>>, <<Sel(vX, "a")>>, <<Cl(<<Num(1)>>, <<OS("one")>>), Cl(E0, <<O1(Sel(vX, "b"))>>)>>)>>
    [] p = "PP10" -> <<Def("x", Un("&", H)), O1(Sel(vX, "a"))>>
    [] p = "PZ1"  -> ZS
    [] p = "PZ2"  -> <<If(E0, Bin("<", vA, vB), ZS, E0), OS("end")>>
    [] p = "PZ3"  -> <<If(E0, Bin(">", vA, vB), <<OS("then")>>, ZS), OS("end")>>
    [] p = "PZ4"  -> <<Loop3("k9", Num(1), ZS), OS("end")>>
    [] p = "PZ5"  -> <<Try(ZS, "", <<OS("caught")>>), OS("end")>>
    [] p = "PZ6"  -> <<XS(FLC(E0, "", ZS, E0)), OS("end")>>
    [] p = "PZ7"  -> <<Sw(E0, <<vA>>, <<Cl(<<Num(3)>>, ZS), Cl(E0, <<OS("d")>>)>>), OS("end")>>
    [] p = "PZ8"  -> <<Sw(E0, <<vA>>, <<Cl(<<Num(9)>>, <<OS("nine")>>), Cl(E0, ZS)>>), OS("end")>>

\* ------------------------------------------------------------------ the table (as indices)
Compat(c, p) == Constructs[c].ty = Positions[p].ty /\ Constructs[c].min >= Positions[p].need
Pairs == {cp \in (1..NC) \X (1..NP) : Compat(cp[1], cp[2])}
\* tier "q": a seeded third of the table
\* tier "n" (negative control): the list-valued constructs in header positions only
Taken(cp) == \/ Tier = "t"
             \/ Tier = "q" /\ (cp[1] * 7 + cp[2] * 5 + Seed) % 3 = 0
             \/ Tier = "n" /\ Positions[cp[2]].hb /\ Constructs[cp[1]].ty = "l"
Index == {cp \in Pairs : Taken(cp)}

\* ------------------------------------------------------------------ one program
FName(cp) == "f_" \o Constructs[cp[1]].id \o "_" \o Positions[cp[2]].id
Build(cp) ==
  LET c == Constructs[cp[1]]
      p == Positions[cp[2]]
      body == <<Out(<<S1("f"), vA, vB, Len1(vSl)>>)>> \o Stmts(p.id, c.e, c.ss)     \* (every parameter is used)
      fn == Fn(FName(cp), <<PG(<<"a", "b">>, "int"), PG(<<"sl">>, "[]int")>>, E0, body)
      r == RunDefers(ExSs(body, St(Env0, <<>>, "", "", <<>>, <<>>), Fns), Fns)
  IN [id |-> FName(cp), c |-> c, p |-> p,
      toks |-> TkS(fn),
      inv |-> TkS(XS(Call(FName(cp), <<Num(3), Num(4), Lit("[]int", <<Num(5), Num(6), Num(7)>>)>>))),
      out |-> r.out,
      status |-> IF r.ctl \in {"", "ret"} THEN "ok" ELSE r.ctl,
      go |-> c.go /\ p.go /\ ~(c.nm /\ p.hb),
      hdr |-> p.hb, simple |-> c.simple]
NoCell == [id |-> "", c |-> Constructs[1], p |-> Positions[1], toks |-> <<>>, inv |-> <<>>, out |-> <<>>, status |-> "none", go |-> FALSE, hdr |-> FALSE, simple |-> TRUE]

\* ------------------------------------------------------------------ layouts and comment placements
Layouts == <<"std", "wide", "one", "spacey">>
NLLegal(t) == t.b \in {"S", "O", "L", "K", "T"}
Idx(toks, P(_)) == SelectSeq([i \in DOMAIN toks |-> i], LAMBDA i : P(i))
Every(s, k, r) == SelectSeq(s, LAMBDA i : i % k = r)
NLIdx(toks) == Idx(toks, LAMBDA i : NLLegal(toks[i]))
AnyIdx(toks) == Idx(toks, LAMBDA i : toks[i].b \notin {"T", "W", "A", "F"})     \* (where a layout ends the line, the comment ends it)
CM(k, at) == [k |-> k, at |-> at]
PickOf(s, salt) == IF s = <<>> THEN <<>> ELSE <<s[((Seed * 17 + salt) % Len(s)) + 1]>>
\* lc: line comment ending the line after the token (a break is taken there); bc: /* */ on the same line after the token;
\* ol: a line comment on a line of its own after the token's line; ob: the same with a three-line /* * */ comment;
\* on: a three-line comment without stars
Place(toks, mode, salt) ==
  LET nl == NLIdx(toks)
      an == AnyIdx(toks)
  IN CASE mode = "none" -> <<>>
       [] mode = "lc"   -> <<CM("lc", nl)>>
       [] mode = "bc"   -> <<CM("bc", <<0>> \o Every(an, 3, salt % 3))>>
       [] mode = "ol"   -> <<CM("ol", <<0>> \o nl)>>
       [] mode = "ob"   -> <<CM("ob", Every(nl, 2, 0)), CM("on", Every(nl, 2, 1))>>
       [] mode = "mix"  -> <<CM("lc", Every(nl, 3, 0)), CM("ol", Every(nl, 3, 1)), CM("ob", Every(nl, 3, 2)), CM("bc", Every(an, 4, 1))>>
       [] mode = "lc1"  -> <<CM("lc", PickOf(nl, salt))>>
       [] mode = "bc1"  -> <<CM("bc", PickOf(an, salt))>>
       [] mode = "ol1"  -> <<CM("ol", PickOf(nl, salt))>>
       [] mode = "ob1"  -> <<CM("ob", PickOf(nl, salt))>>
V(lay, mode, shape, toks, salt) == [lay |-> lay, mode |-> mode, shape |-> shape, cm |-> Place(toks, mode, salt)]
QModes1 == <<"none", "lc", "ol", "mix">>
QModes2 == <<"none", "bc", "ob", "lc1", "bc1", "ol1">>
QLays   == <<"wide", "one", "spacey">>
Variants(cp, toks) ==
  LET h == cp[1] * 11 + cp[2] * 3 + Seed IN
  IF Tier = "t"
  THEN <<V("std", "none", "prog", toks, h), V("wide", "none", "prog", toks, h), V("one", "none", "prog", toks, h),
         V("std", "lc", "prog", toks, h), V("std", "bc", "prog", toks, h), V("std", "ol", "prog", toks, h), V("std", "ob", "prog", toks, h),
         V("std", "mix", "prog", toks, h), V("wide", "mix", "prog", toks, h), V("one", "bc", "prog", toks, h + 1),
         V("spacey", "mix", "prog", toks, h),
         V("std", "none", "frag", toks, h), V("std", "mix", "frag", toks, h)>>
  ELSE <<V("std", QModes1[(h % 4) + 1], IF h % 5 = 0 THEN "frag" ELSE "prog", toks, h),
         V(QLays[(h % 3) + 1], QModes2[((h \div 3) % 6) + 1], IF h % 5 = 1 THEN "frag" ELSE "prog", toks, h)>>

\* ------------------------------------------------------------------ the header rule (see EgoFmt)
DeclaredTypes == {"T", "P"}
\* is the brace at index i, met at parenthesis depth 0 inside a header, the start of a composite literal?
LitOpen(toks, i, impl) ==
  impl = "ref" /\ i > 1 /\ (\/ toks[i - 1].s \in DeclaredTypes
                            \/ (toks[i - 1].s \in {"int", "string"} /\ i > 2 /\ toks[i - 2].s = "]"))
RECURSIVE SkipBraces(_, _, _), Scan(_, _, _, _)
\* index of the brace matching the one at i
SkipBraces(toks, i, depth) ==
  IF i > Len(toks) THEN i
  ELSE IF toks[i].s = "{" /\ toks[i].q = "" THEN SkipBraces(toks, i + 1, depth + 1)
  ELSE IF toks[i].s = "}" /\ toks[i].q = "" THEN (IF depth = 1 THEN i ELSE SkipBraces(toks, i + 1, depth - 1))
  ELSE SkipBraces(toks, i + 1, depth)
Scan(toks, i, depth, impl) ==
  IF i > Len(toks) THEN 0
  ELSE LET t == toks[i] IN
       IF t.q # "" THEN Scan(toks, i + 1, depth, impl)
       ELSE IF t.s \in {"(", "["} THEN Scan(toks, i + 1, depth + 1, impl)
       ELSE IF t.s \in {")", "]"} THEN Scan(toks, i + 1, depth - 1, impl)
       ELSE IF t.s = "{" /\ depth = 0 THEN (IF LitOpen(toks, i, impl) THEN Scan(toks, SkipBraces(toks, i, 0) + 1, depth, impl) ELSE i)
       ELSE IF t.s = "{" THEN Scan(toks, SkipBraces(toks, i, 0) + 1, depth, impl)
       ELSE Scan(toks, i + 1, depth, impl)
BodyBrace(toks, k, impl) == Scan(toks, k + 1, 0, impl)
HeaderKeywords(toks) == {k \in DOMAIN toks : toks[k].q = "" /\ toks[k].s \in {"if", "for", "switch"}}

\* ------------------------------------------------------------------ the state machine
Init == pc = "pre" /\ ix \in Index /\ cell = NoCell
Exec == /\ pc = "pre"
        /\ pc' = "post"
        /\ cell' = Build(ix)
        /\ UNCHANGED ix
Next == Exec
Spec == Init /\ [][Next]_vars

\* ------------------------------------------------------------------ what is printed
ValRec(v) == [t |-> v.t, i |-> v.i, s |-> v.s]
Rec == [id |-> cell.id, pc |-> cell.p.cls, cc |-> cell.c.cls, pid |-> cell.p.id, cid |-> cell.c.id,
        toks |-> cell.toks, inv |-> cell.inv,
        out |-> [i \in DOMAIN cell.out |-> [j \in DOMAIN cell.out[i] |-> ValRec(cell.out[i][j])]],
        status |-> cell.status, go |-> cell.go, hdr |-> cell.hdr,
        vars |-> Variants(ix, cell.toks)]
Emit == pc = "post" => PrintT(ToJson(Rec))
\* the prelude, once
EmitPrelude == (pc = "pre" /\ ix = CHOOSE cp \in Index : TRUE) => PrintT(ToJson([prelude |-> PreludeToks]))

\* ------------------------------------------------------------------ theorems of the table
\* every program of the table runs to completion and prints something (else it could not tell two programs apart)
Runs == pc = "post" => cell.status = "ok" /\ cell.out # <<>>
\* braces, parentheses and brackets are balanced in the concrete syntax
Balanced(toks) ==
  LET RECURSIVE Bal(_, _)
      Bal(i, d) == IF i > Len(toks) THEN d = 0
                   ELSE IF toks[i].q # "" THEN Bal(i + 1, d)
                   ELSE IF toks[i].s \in {"{", "(", "["} THEN Bal(i + 1, d + 1)
                   ELSE IF toks[i].s \in {"}", ")", "]"} THEN d > 0 /\ Bal(i + 1, d - 1)
                   ELSE Bal(i + 1, d)
  IN Bal(1, 0)
TokensBalanced == pc = "post" => Balanced(cell.toks)
\* a place where a line may end is never inside ( ) or [ ] unless it follows a comma or a literal's brace
\* the header rule finds the brace that really opens the body
HeaderBraceSound == pc = "post" /\ cell.simple =>
                      \A k \in HeaderKeywords(cell.toks) : LET i == BodyBrace(cell.toks, k, Impl) IN i > 0 /\ cell.toks[i].body
\* comment placements name existing tokens, and line-ending kinds only tokens after which a line may end
PlacementsSound == pc = "post" =>
                     LET vs == Variants(ix, cell.toks) IN
                     \A vi \in DOMAIN vs :
                       \A ci \in DOMAIN vs[vi].cm : \A n \in DOMAIN vs[vi].cm[ci].at :
                          LET i == vs[vi].cm[ci].at[n] IN
                          /\ i \in 0..Len(cell.toks)
                          /\ (vs[vi].cm[ci].k # "bc" /\ i > 0 => NLLegal(cell.toks[i]))
TypeOK == pc \in {"pre", "post"} /\ ix \in Pairs
=============================================================================

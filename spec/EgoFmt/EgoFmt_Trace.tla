---------------------------- MODULE EgoFmt_Trace ----------------------------
(* F binding for C05: the contract of `ego fmt`, judged by TLC over the pairs *)
(* logged from the real formatter and the real interpreter (io.ndjson), one   *)
(* record per source file unit:                                               *)
(*   id    : the unit (a generated program variant, or a corpus file)         *)
(*   kind  : "gen" (program of EgoFmt_Gen; exp = what EgoFmt computed it must  *)
(*           print) | "corpus" (a file of the repository; no expectation)     *)
(*   key   : {pc, cc, lay, mode, shape} position class, construct class,      *)
(*           layout, comment placement, program/fragment                      *)
(*   exp   : {out: lines, status}          (gen only, else equal to orig)     *)
(*   orig  : {out, status}  what the ORIGINAL text did on the interpreter      *)
(*           (status "ok", or the error message without line numbers)         *)
(*   fmt   : {ok, msg}      did `ego fmt` produce a result                    *)
(*   fmtd  : {out, status}  what the FORMATTED text did                       *)
(*   idem  : formatting the formatted text changed nothing                    *)
(*   lines : the program reads its own source line numbers (runtime.Frames)     *)
(*   cin, cout : the comments of the original / formatted text (white space   *)
(*           at line ends and starts removed)                                 *)
(* Statement, clause by clause:                                               *)
(*   WF   - "every file the compiler accepts": the original was accepted (no  *)
(*          compile error) - and, for a generated program, did what the       *)
(*          language definition EgoFmt says (otherwise the difference is a     *)
(*          matter of another property, not of the formatter);                *)
(*   Post - formatting succeeds; the formatted file has the same output and   *)
(*          outcome; formatting is idempotent; every comment of the original  *)
(*          appears in the output (as many times as in the original).         *)
EXTENDS Integers, Sequences, FiniteSets, TLC, Json

Log == ndJsonDeserialize("io.ndjson")

VARIABLES i, bad, judged, outside

Range(s) == {s[n] : n \in DOMAIN s}
Count(s, e) == Cardinality({n \in DOMAIN s : s[n] = e})
SubBag(s, t) == \A e \in Range(s) : Count(s, e) <= Count(t, e)

Accepted(r) == r.orig.status # "compile-error"
\* "ignoring source line numbers": a program that reads its own source positions (runtime.Frames) and compares them with
\* constants observes the layout itself; it is not in the domain (r.lines, set by the harness from the source text)
ReadsLines(r) == "lines" \in DOMAIN r /\ r.lines
WF(r) == /\ Accepted(r)
         /\ ~ReadsLines(r)
         /\ r.kind = "gen" => r.orig.out = r.exp.out /\ r.orig.status = r.exp.status

FmtOk(r)    == r.fmt.ok
SameOut(r)  == r.fmtd.out = r.orig.out
SameEnd(r)  == r.fmtd.status = r.orig.status
Idem(r)     == r.idem
Comments(r) == SubBag(r.cin, r.cout)
Post(r) == FmtOk(r) /\ SameEnd(r) /\ SameOut(r) /\ Idem(r) /\ Comments(r)

Clause(r) == IF ~FmtOk(r) THEN "fmt-fails"
             ELSE IF ~SameEnd(r) THEN "outcome-differs"
             ELSE IF ~SameOut(r) THEN "output-differs"
             ELSE IF ~Comments(r) THEN "comment-lost"
             ELSE "not-idempotent"

\* abstract identity of a failing unit.  A generated program that already fails in its plain form (standard layout, no
\* comments, full program) is identified by position class / construct class; one that fails only in another layout,
\* with comments or as a fragment is identified by that variant as well.  A corpus file is identified by its path.
IsBase(r) == r.key.lay = "std" /\ r.key.mode = "none" /\ r.key.shape = "prog"
BaseFails(r) == \E n \in DOMAIN Log : Log[n].kind = "gen" /\ Log[n].base = r.base /\ IsBase(Log[n]) /\ WF(Log[n]) /\ ~Post(Log[n])
                                       /\ Clause(Log[n]) = Clause(r)
Key(r) == IF r.kind = "corpus" THEN "corpus/" \o r.id \o "/" \o Clause(r)
          ELSE IF IsBase(r) \/ BaseFails(r) THEN r.key.pc \o "/" \o r.key.cc \o "/" \o Clause(r)
          ELSE r.key.shape \o "+" \o r.key.lay \o "+" \o r.key.mode \o "/" \o r.key.pc \o "/" \o r.key.cc \o "/" \o Clause(r)

Init == i = 1 /\ bad = {} /\ judged = 0 /\ outside = {}
Next == /\ i <= Len(Log)
        /\ i' = i + 1
        /\ LET r == Log[i] IN
           /\ judged' = judged + (IF WF(r) THEN 1 ELSE 0)
           /\ outside' = IF WF(r) THEN outside ELSE outside \cup {[idx |-> i, id |-> r.id, accepted |-> Accepted(r)]}
           /\ bad' = IF WF(r) /\ ~Post(r) THEN bad \cup {[idx |-> i, id |-> r.id, key |-> Key(r)]} ELSE bad

Report == i <= Len(Log) \/ PrintT(ToJson([n |-> Len(Log), judged |-> judged, outside |-> outside, bad |-> bad]))
=============================================================================

SPECIFICATION Spec
CONSTANTS
  Tier = "t"
  Seed = 1
  Impl = "ref"
INVARIANTS TypeOK Runs TokensBalanced HeaderBraceSound PlacementsSound Emit EmitPrelude
CHECK_DEADLOCK FALSE

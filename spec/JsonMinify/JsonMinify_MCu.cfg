\* unbounded: the scanner-mode product, texts of any length (MaxLen only has to exceed the diameter)
SPECIFICATION Spec
CONSTANTS
  Alphabet = {34, 92, 32, 10, 160, 8232, 44, 58, 123, 97, 110, 117, 49, 45, 233, 128512, 31}
  MaxLen = 64
  Impl = "fixed"
INVARIANTS Sync
PROPERTIES WriteRule
VIEW View
CHECK_DEADLOCK FALSE

----------------------------- MODULE JsonWrite -----------------------------
(* C19, part 2: "compressed or not".  The response writer                     *)
(*   util.WriteJSON            marshal -> JSONMinify -> WriteMaybeCompressed  *)
(*   util.WriteMaybeCompressed decide -> gzip -> headers -> status -> body    *)
(* one action per statement group, and a client that decodes what it gets the *)
(* way HTTP says (gunzip iff Content-Encoding: gzip, which it can only do if  *)
(* it offered gzip).  The text-level claim (minify keeps the value) is        *)
(* JsonMinify's; here the body is an opaque text "T" and what matters is      *)
(* whether the bytes on the wire plus the headers give "T" back.              *)
(*                                                                            *)
(* Environment choices: the client's Accept-Encoding, the configured          *)
(* threshold, the body size, and what gzip does with this body (shrinks it,   *)
(* does not shrink it, fails) - the last is not under the server's control.   *)
(*   Impl = "fixed"  the code as it is (this part has no known defect)        *)
(*   Impl = "nofallback"  negative control: the not-smaller branch forgets to *)
(*                   clear `compress` (header says gzip, body is plain)       *)
EXTENDS JsonLex

CONSTANTS Sizes, Thresholds, Impl

VARIABLES pc, accepts, thr, size, gz,     \* request / environment
          compress, payload, hdr          \* locals of WriteMaybeCompressed / the response

wvars == <<pc, accepts, thr, size, gz, compress, payload, hdr>>

WInit == /\ pc = "decide"
         /\ accepts \in BOOLEAN /\ thr \in Thresholds /\ size \in Sizes
         /\ gz \in {"smaller", "notsmaller", "error"}
         /\ compress = FALSE /\ payload = "plain" /\ hdr = ""

(* compress := threshold > 0 && len(body) >= threshold && info.AcceptsGzip *)
Decide == /\ pc = "decide"
          /\ compress' = (thr > 0 /\ size >= thr /\ accepts)
          /\ pc' = "gzip"
          /\ UNCHANGED <<accepts, thr, size, gz, payload, hdr>>

(* if compress { compressed, err := gzipBytes(body); ... } *)
Gzip == /\ pc = "gzip"
        /\ IF ~compress THEN UNCHANGED <<compress, payload>>
           ELSE IF gz = "error" THEN compress' = FALSE /\ UNCHANGED payload
           ELSE IF gz = "notsmaller"
                THEN /\ compress' = (Impl = "nofallback")
                     /\ UNCHANGED payload
           ELSE payload' = "gzip" /\ UNCHANGED compress
        /\ pc' = "headers"
        /\ UNCHANGED <<accepts, thr, size, gz, hdr>>

(* if compress { Content-Encoding: gzip; Vary } ; WriteHeader(status) *)
Headers == /\ pc = "headers"
           /\ hdr' = IF compress THEN "gzip" ELSE ""
           /\ pc' = "body"
           /\ UNCHANGED <<accepts, thr, size, gz, compress, payload>>

(* w.Write(payload) *)
Body == /\ pc = "body" /\ pc' = "sent"
        /\ UNCHANGED <<accepts, thr, size, gz, compress, payload, hdr>>

WNext == Decide \/ Gzip \/ Headers \/ Body
WSpec == WInit /\ [][WNext]_wvars

(* what the client ends up with: ClientCanDecode (module JsonLex) *)
Decodable == pc = "sent" => ClientCanDecode(hdr, payload, accepts)
=============================================================================

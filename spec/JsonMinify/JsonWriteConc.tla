--------------------------- MODULE JsonWriteConc ---------------------------
(* C19, part 3: several responses in flight at once.  Each process is one     *)
(* handler goroutine inside util.WriteJSON -> WriteMaybeCompressed; its steps *)
(* (marshal+minify, compress, headers, body) interleave freely with the       *)
(* others'.  Every response must decode to ITS OWN value, whatever the        *)
(* interleaving: nothing a writer holds between two steps may be reachable    *)
(* from another writer.                                                       *)
(*   Impl = "fixed"   gzipBytes compresses into a buffer of its own           *)
(*   Impl = "pooled"  negative control: the buffer comes from a shared pool   *)
(*                    and is put back when gzipBytes returns, while the       *)
(*                    returned slice still points into it                     *)
(* Environment: per request whether the client offered gzip and whether the   *)
(* body reaches the configured threshold; whether gzip shrinks the body.      *)
EXTENDS JsonLex, FiniteSets

CONSTANTS Procs, Impl

VARIABLES pc,        \* per process: "minify" "gzip" "headers" "body" "done"
          accepts, big, shrinks,          \* per process, chosen by the environment
          compress,  \* per process: local flag of WriteMaybeCompressed
          payload,   \* per process: what `payload` refers to: [kind, own |-> value, buf |-> pooled buffer or 0]
          hdr,       \* per process: Content-Encoding sent
          wire,      \* per process: what went out: [kind, of]
          store,     \* pooled buffers: buffer id -> whose compressed bytes are in its storage
          free       \* buffers currently in the pool

cvars == <<pc, accepts, big, shrinks, compress, payload, hdr, wire, store, free>>

Bufs == 1..Cardinality(Procs)
None == [kind |-> "plain", own |-> "", buf |-> 0]

CInit == /\ pc = [p \in Procs |-> "minify"]
         /\ accepts \in [Procs -> BOOLEAN] /\ big \in [Procs -> BOOLEAN] /\ shrinks \in [Procs -> BOOLEAN]
         /\ compress = [p \in Procs |-> FALSE]
         /\ payload = [p \in Procs |-> None]
         /\ hdr = [p \in Procs |-> ""]
         /\ wire = [p \in Procs |-> [kind |-> "none", of |-> ""]]
         /\ store = [b \in Bufs |-> ""]
         /\ free = {}

(* b := MarshalIndent(body); minified := JSONMinify(b); compress := thr > 0 && len >= thr && AcceptsGzip *)
Minify(p) == /\ pc[p] = "minify"
             /\ payload' = [payload EXCEPT ![p] = [kind |-> "plain", own |-> p, buf |-> 0]]
             /\ compress' = [compress EXCEPT ![p] = big[p] /\ accepts[p]]
             /\ pc' = [pc EXCEPT ![p] = "gzip"]
             /\ UNCHANGED <<accepts, big, shrinks, hdr, wire, store, free>>

(* compressed := gzipBytes(body); not smaller => fall back to the plain body *)
Gzip(p) ==
  /\ pc[p] = "gzip"
  /\ pc' = [pc EXCEPT ![p] = "headers"]
  /\ IF ~compress[p] THEN UNCHANGED <<compress, payload, store, free>>
     ELSE IF Impl = "fixed"
       THEN /\ UNCHANGED <<store, free>>
            /\ IF shrinks[p] THEN payload' = [payload EXCEPT ![p] = [kind |-> "gzip", own |-> p, buf |-> 0]]
                                  /\ UNCHANGED compress
                             ELSE compress' = [compress EXCEPT ![p] = FALSE] /\ UNCHANGED payload
       ELSE (* pooled: Get (a free buffer, else a new one), compress into it, deferred Put, return Bytes() *)
            \E b \in Bufs :
              /\ (free # {} => b \in free)
              /\ (free = {} => b = 1)
              /\ store' = [store EXCEPT ![b] = p]
              /\ free' = free \cup {b}
              /\ IF shrinks[p] THEN payload' = [payload EXCEPT ![p] = [kind |-> "gzip", own |-> p, buf |-> b]]
                                    /\ UNCHANGED compress
                               ELSE compress' = [compress EXCEPT ![p] = FALSE] /\ UNCHANGED payload
  /\ UNCHANGED <<accepts, big, shrinks, hdr, wire>>

(* Content-Encoding / Vary; WriteHeader(status) *)
Headers(p) == /\ pc[p] = "headers"
              /\ hdr' = [hdr EXCEPT ![p] = IF compress[p] THEN "gzip" ELSE ""]
              /\ pc' = [pc EXCEPT ![p] = "body"]
              /\ UNCHANGED <<accepts, big, shrinks, compress, payload, wire, store, free>>

(* w.Write(payload): the bytes that go out are whatever the slice points at NOW *)
Body(p) == /\ pc[p] = "body"
           /\ wire' = [wire EXCEPT ![p] =
                         [kind |-> payload[p].kind,
                          of |-> IF payload[p].buf = 0 THEN payload[p].own ELSE store[payload[p].buf]]]
           /\ pc' = [pc EXCEPT ![p] = "done"]
           /\ UNCHANGED <<accepts, big, shrinks, compress, payload, hdr, store, free>>

CNext == \E p \in Procs : Minify(p) \/ Gzip(p) \/ Headers(p) \/ Body(p)
CSpec == CInit /\ [][CNext]_cvars

(* every finished response is decodable by its client and carries its own value *)
OwnValue == \A p \in Procs : pc[p] = "done" =>
              /\ ClientCanDecode(hdr[p], wire[p].kind, accepts[p])
              /\ wire[p].of = p
=============================================================================

---------------------------- MODULE JsonWrite_Gen ----------------------------
(* Case generator for binding F, level B: JSON values (arbitrary strings with *)
(* backslashes, quotes, white space, Unicode; nested arrays and objects; long *)
(* arrays on both sides of the compression threshold) x request modes         *)
(* (Accept-Encoding header, configured threshold; -1 = not configured).       *)
(* Every initial state is one case; Emit prints it.                           *)
EXTENDS JsonLex, Json, FiniteSets

CONSTANT Tier      \* "quick" | "thorough"
VARIABLE case

Strs == { <<97>>, <<97, 92>>, <<98, 32, 99>>, <<34>>, <<92, 34>>, <<32>>, <<32, 32, 92, 92>>,
          <<160, 12288>>, <<233, 128512>>, <<10, 9>>, <<60, 38>>, <<8232, 133>>, <<>> }
Nasty == { <<97, 92>>, <<98, 32, 99>>, <<92, 34>>, <<32>>, <<160, 12288>>, <<10, 9>> }

StrAtoms == {VStr(x) : x \in Strs}
Atoms    == StrAtoms \cup {VInt(0), VInt(1234567), VLit("T"), VLit("F"), VLit("N")}
NastyV   == {VStr(x) : x \in Nasty}

(* keys in increasing code-point order (the order Go's encoder emits map keys) *)
KeyPairs == { << <<107, 32, 50>>, <<107, 92>> >>, << <<97>>, <<98, 32, 99>> >> }

Singles == Atoms
Pairs   == {VArr(<<a, b>>) : a \in Atoms, b \in Atoms}
Objects == {VObj(<<VMem(kp[1], a), VMem(kp[2], b)>>) : kp \in KeyPairs, a \in StrAtoms, b \in StrAtoms}
Nested  == {VArr(<<a, VArr(<<b>>), VObj(<<VMem(<<107, 92>>, c)>>)>>) : a \in NastyV, b \in NastyV, c \in NastyV}
Triples == {VArr(<<a, b, c>>) : a \in StrAtoms, b \in NastyV, c \in NastyV}
Long    == {VRep(n, v) : n \in {40, 700},
                         v \in {VStr(<<97, 92>>), VStr(<<98, 32, 99>>), VInt(7),
                                VArr(<<VStr(<<97, 92>>), VStr(<<32, 32>>)>>)}}

AEs  == {"", "gzip", "gzip;q=0", "br, gzip;q=0.5"}
Thrs == {-1, 0, 16}
AllModes == {[ae |-> a, thr |-> t] : a \in AEs, t \in Thrs}
FewModes == {[ae |-> "", thr |-> -1], [ae |-> "gzip", thr |-> 16], [ae |-> "gzip", thr |-> 0],
             [ae |-> "gzip;q=0", thr |-> 16], [ae |-> "br, gzip;q=0.5", thr |-> 16]}

Mk(vs, ms) == {[g |-> "seq", v |-> v, ae |-> m.ae, thr |-> m.thr] : v \in vs, m \in ms}

(* concurrent stage: pairwise distinct values (the integer marks the request), *)
(* bodies of about 40 / 700 / 7000 bytes, i.e. on both sides of the thresholds *)
(* 16 and 4096 (-1); all requests of one threshold are in flight together.     *)
ConcVals == {VRep(n, VArr(<<VInt(k), VStr(<<97, 92>>), VStr(<<98, 32, 99>>)>>)) :
               n \in {2, 40}, k \in 1..(IF Tier = "thorough" THEN 24 ELSE 12)}
            \cup {VRep(400, VArr(<<VInt(k), VStr(<<97, 92>>), VStr(<<98, 32, 99>>)>>)) :
                    k \in 1..(IF Tier = "thorough" THEN 12 ELSE 6)}
ConcCases == {[g |-> "conc", v |-> v, ae |-> a, thr |-> t] : v \in ConcVals, a \in {"gzip", ""}, t \in {-1, 16, 0}}

Cases == Mk(Singles, AllModes) \cup Mk(Long, AllModes) \cup Mk(Pairs, FewModes)
         \cup Mk(Objects, FewModes) \cup Mk(Nested, FewModes)
         \cup (IF Tier = "thorough" THEN Mk(Triples, FewModes) \cup Mk(Pairs \cup Objects \cup Nested, AllModes) ELSE {})

GInit == case \in Cases \cup ConcCases
GNext == UNCHANGED case
GSpec == GInit /\ [][GNext]_case

Emit == PrintT(ToJson(case))
=============================================================================

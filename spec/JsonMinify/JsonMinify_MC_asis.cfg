\* negative control: the loop as it is in the tree under verification must violate DecodesSame
SPECIFICATION Spec
CONSTANTS
  Alphabet = {34, 92, 32, 97}
  MaxLen = 8
  Impl = "asis"
INVARIANTS DecodesSame
CHECK_DEADLOCK FALSE

---------------------------- MODULE JsonMinify ----------------------------
(* C19, part 1: the white-space stripper every JSON response goes through     *)
(* (internal/util/strings/json.go JSONMinify), transcribed statement by       *)
(* statement, fed one character per step next to the reference scanner of     *)
(* JsonLex.  The environment builds the input text and only feeds characters  *)
(* that keep it a prefix of well-formed JSON (other texts are outside the     *)
(* domain of the property: the server only minifies what json.MarshalIndent   *)
(* produced).                                                                 *)
(*                                                                            *)
(*   Impl = "asis"   the loop as it is in the tree under verification:        *)
(*                   escape is set by any backslash and cleared only after a  *)
(*                   non-backslash character has been written                 *)
(*   Impl = "fixed"  escape is consumed by exactly one following character    *)
EXTENDS JsonLex, FiniteSets

CONSTANTS Alphabet,    \* code points the environment may feed
          MaxLen,      \* bound on the length of the text
          Impl

VARIABLES in,          \* the text fed so far
          lex,         \* reference scanner state after `in`
          scan         \* state of the code-shaped loop after `in`: inQuotes, escape, result

vars == <<in, lex, scan>>

ScanInit == [inq |-> FALSE, esc |-> FALSE, out |-> <<>>]

(* one iteration of `for _, char := range input` *)
ScanAsIs(s, ch) ==
  LET e1 == s.esc \/ ch = BSL                       \* if char == '\\' { escape = true }
      e2 == IF ch # BSL THEN FALSE ELSE e1           \* if char != '\\' { escape = false }   (after the write)
  IN IF ch = QUOTE /\ ~e1
       THEN [inq |-> ~s.inq, esc |-> e2, out |-> Append(s.out, ch)]
     ELSE IF ~s.inq /\ IsUniSpace(ch)
       THEN [s EXCEPT !.esc = e1]                    \* continue: nothing written, flag not touched again
     ELSE [inq |-> s.inq, esc |-> e2, out |-> Append(s.out, ch)]

ScanFixed(s, ch) ==
  LET escaped == s.esc                               \* escaped := escape
      e1 == (ch = BSL) /\ ~escaped                   \* escape = char == '\\' && !escaped
  IN IF ch = QUOTE /\ ~escaped
       THEN [inq |-> ~s.inq, esc |-> e1, out |-> Append(s.out, ch)]
     ELSE IF ~s.inq /\ IsUniSpace(ch)
       THEN [s EXCEPT !.esc = e1]
     ELSE [inq |-> s.inq, esc |-> e1, out |-> Append(s.out, ch)]

ScanStep(s, ch) == IF Impl = "asis" THEN ScanAsIs(s, ch) ELSE ScanFixed(s, ch)

Minify(text) == FoldLeft(ScanStep, ScanInit, text).out

Init == in = <<>> /\ lex = LexInit /\ scan = ScanInit

Feed(ch) == /\ Len(in) < MaxLen
            /\ ~LexStep(lex, ch).bad           \* the text stays a prefix of well-formed JSON
            /\ in' = Append(in, ch)
            /\ lex' = LexStep(lex, ch)
            /\ scan' = ScanStep(scan, ch)

Next == \E ch \in Alphabet : Feed(ch)
Spec == Init /\ [][Next]_vars

WF == LexWF(lex) /\ Len(in) > 0

(* ---- the property: what is sent decodes to exactly what was produced ---- *)
DecodesSame == WF => Decode(scan.out) = DecodeOf(lex)

(* ---- documented purpose of the function (model level only; the property   *)
(* does not demand it of the real code): no white space is left between      *)
(* tokens, and characters are only ever removed                              *)
Minimal == WF => Lex(scan.out).ws = 0
Shrinks == Len(scan.out) <= Len(in)

(* ---- the same claim for texts of ANY length, as a simulation between the  *)
(* two scanners.  Sync and WriteRule depend only on View (the scanner modes), *)
(* so with VIEW View TLC covers every reachable mode combination whatever     *)
(* MaxLen is.  Sync + WriteRule say: the loop always knows whether it is      *)
(* inside a string, and deletes exactly the white space between tokens.       *)
InStr(m) == m \in {"str", "esc", "hex"}
Sync == ~lex.bad => /\ scan.inq = InStr(lex.m)
                    /\ scan.esc = (lex.m = "esc")
WriteStep == ~lex'.bad =>
               IF lex'.ws > lex.ws THEN scan'.out = scan.out
                                   ELSE scan'.out = Append(scan.out, in'[Len(in')])
WriteRule == [][WriteStep]_vars
LastT == IF Len(lex.toks) = 0 THEN "" ELSE lex.toks[Len(lex.toks)].t
View == <<lex.m, lex.hn, lex.bad, LastT, scan.inq, scan.esc>>

(* ---- sanity of the specification itself: the incremental scanners are the *)
(* folds the contracts use                                                    *)
FoldsAgree == lex = Lex(in) /\ scan.out = Minify(in)
=============================================================================

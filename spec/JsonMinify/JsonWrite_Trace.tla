--------------------------- MODULE JsonWrite_Trace ---------------------------
(* Binding F, level B: every response the real util.WriteJSON ->              *)
(* WriteMaybeCompressed put on the wire (through a real net/http server) for  *)
(* a TLC-generated case is judged by the contract                             *)
(*   the client can decode the bytes the way the headers tell it to           *)
(*   /\ the decoded bytes are UTF-8 text                                      *)
(*   /\ Decode(text) = ValToks(value TLC generated)                           *)
(* cases.ndjson is TLC's own output (JsonWrite_Gen); the log refers to a case *)
(* by its line number, so the expected value never passes through Go.         *)
EXTENDS JsonLex, Json

VARIABLES i, bad

Cases == ndJsonDeserialize("cases.ndjson")
Log   == ndJsonDeserialize("io.ndjson")
N     == Len(Log)

Decoded(c, r) == Decode(r.text) = [ok |-> TRUE, toks |-> ValToks(c.v)]

Post(c, r) == /\ ClientCanDecode(r.hdr, r.kind, Offers[c.ae])
              /\ r.utf8
              /\ Decoded(c, r)

EndsInBsl(toks) == \E k \in 1..Len(toks) :
                      /\ toks[k].t = "s" /\ Len(toks[k].c) > 0 /\ toks[k].c[Len(toks[k].c)] = 92

Key(c, r) == "write/"
             \o (IF ~ClientCanDecode(r.hdr, r.kind, Offers[c.ae])
                   THEN "client-cannot-decode/hdr=" \o r.hdr \o "/wire=" \o r.kind
                        \o (IF Offers[c.ae] THEN "/offered" ELSE "/not-offered")
                 ELSE IF ~r.utf8 THEN "not-utf8/" \o r.kind
                 ELSE "value-changed/" \o r.kind \o "/"
                      \o (IF ~Decode(r.text).ok THEN "output-not-json" ELSE "tokens-differ") \o "/"
                      \o (IF EndsInBsl(ValToks(c.v)) THEN "string-ends-in-backslash" ELSE "other-value"))

TInit == i = 1 /\ bad = {}
TNext == /\ i <= N
         /\ i' = i + 1
         /\ LET r == Log[i]
                c == Cases[r.id]
            IN bad' = IF Post(c, r) THEN bad ELSE bad \cup {[idx |-> i, key |-> Key(c, r)]}
TSpec == TInit /\ [][TNext]_<<i, bad>>

Report == i <= N \/ PrintT(ToJson([n |-> N, skipped |-> 0, bad |-> bad]))
=============================================================================

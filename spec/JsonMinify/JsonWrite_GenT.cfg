SPECIFICATION GSpec
CONSTANTS
  Tier = "thorough"
INVARIANTS Emit
CHECK_DEADLOCK FALSE

\* negative control for the unbounded argument: the as-is loop loses track of the string state
SPECIFICATION Spec
CONSTANTS
  Alphabet = {34, 92, 32, 10, 160, 8232, 44, 58, 123, 97, 110, 117, 49, 45, 233, 128512, 31}
  MaxLen = 64
  Impl = "asis"
INVARIANTS Sync
VIEW View
CHECK_DEADLOCK FALSE

SPECIFICATION Spec
CONSTANTS
  Alphabet = {34, 92, 32, 160, 44, 97, 110, 117}
  MaxLen = 5
  Impl = "fixed"
INVARIANTS Emit
CHECK_DEADLOCK FALSE

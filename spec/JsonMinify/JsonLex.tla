------------------------------ MODULE JsonLex ------------------------------
(* The reference JSON scanner ("decoder" of property C19), over sequences of  *)
(* Unicode code points.  Decode(text) is the token sequence of a JSON text:   *)
(* punctuation, literal runs (numbers, true/false/null) and strings with      *)
(* their escapes resolved to UTF-16 units.  The JSON value a text denotes is  *)
(* a function of this sequence (RFC 8259 allows white space only between      *)
(* tokens), so  Decode(out) = Decode(in)  is "out decodes to exactly the      *)
(* value of in".  Pure operators only: no constants, no variables.            *)
EXTENDS Integers, Sequences, SequencesExt, TLC

QUOTE == 34
BSL   == 92
In(c, lo, hi) == lo <= c /\ c <= hi
IsJsonWS(c)     == c = 32 \/ c = 10 \/ c = 9 \/ c = 13          \* the only white space JSON allows between tokens
IsStructural(c) == c = 44 \/ c = 58 \/ c = 91 \/ c = 93 \/ c = 123 \/ c = 125     \* , : [ ] { }
IsLitChar(c)    == In(c, 97, 122) \/ In(c, 48, 57) \/ In(c, 65, 90) \/ c = 43 \/ c = 45 \/ c = 46

(* unicode.IsSpace of the Go library (what the code under test calls "space") *)
IsUniSpace(c) == \/ In(c, 9, 13) \/ c = 32 \/ c = 133 \/ c = 160 \/ c = 5760 \/ In(c, 8192, 8202)
                 \/ c = 8232 \/ c = 8233 \/ c = 8239 \/ c = 8287 \/ c = 12288

HexVal(c) == IF c \in 48..57 THEN c - 48
             ELSE IF c \in 97..102 THEN c - 87
             ELSE IF c \in 65..70 THEN c - 55 ELSE -1

(* single-character escapes: \" \\ \/ \b \f \n \r \t *)
EscMap == (34 :> 34) @@ (92 :> 92) @@ (47 :> 47) @@ (98 :> 8) @@ (102 :> 12)
          @@ (110 :> 10) @@ (114 :> 13) @@ (116 :> 9)

(* a code point as UTF-16 units (what a JSON string is a sequence of) *)
Units(cp) == IF cp < 65536 THEN <<cp>>
             ELSE <<55296 + ((cp - 65536) \div 1024), 56320 + ((cp - 65536) % 1024)>>

Tok(t, c) == [t |-> t, c |-> c]      \* t: "p" punctuation, "l" literal run, "s" string

(* scanner state.  m: "out" between tokens, "lit" inside a literal run, "str" *)
(* inside a string, "esc" right after a backslash in a string, "hex" reading  *)
(* the 4 digits of \uXXXX.  ws counts white space seen between tokens.  eq    *)
(* records that some string ended with an escaped backslash right before its  *)
(* closing quote (used only to name the class of an input).                   *)
LexInit == [m |-> "out", toks |-> <<>>, cur |-> <<>>, hex |-> 0, hn |-> 0,
            bad |-> FALSE, ws |-> 0, pb |-> FALSE, eq |-> FALSE]

CloseLit(s) == IF s.m = "lit" THEN Append(s.toks, Tok("l", s.cur)) ELSE s.toks

LexStep(s, ch) ==
  IF s.bad THEN s
  ELSE IF s.m \in {"out", "lit"} THEN
         IF ch = QUOTE THEN [s EXCEPT !.m = "str", !.toks = CloseLit(s), !.cur = <<>>, !.pb = FALSE]
         ELSE IF IsJsonWS(ch) THEN [s EXCEPT !.m = "out", !.toks = CloseLit(s), !.cur = <<>>, !.ws = s.ws + 1]
         ELSE IF IsStructural(ch) THEN
              [s EXCEPT !.m = "out", !.toks = Append(CloseLit(s), Tok("p", <<ch>>)), !.cur = <<>>]
         ELSE IF IsLitChar(ch) THEN
              IF s.m = "out" /\ Len(s.toks) > 0 /\ s.toks[Len(s.toks)].t = "l"
                THEN [s EXCEPT !.bad = TRUE]           \* two literals separated only by white space: not JSON
                ELSE [s EXCEPT !.m = "lit", !.cur = Append(s.cur, ch)]
         ELSE [s EXCEPT !.bad = TRUE]                  \* backslash, NBSP, ... outside a string: not JSON
  ELSE IF s.m = "str" THEN
         IF ch = QUOTE THEN [s EXCEPT !.m = "out", !.toks = Append(s.toks, Tok("s", s.cur)), !.cur = <<>>,
                                      !.eq = s.eq \/ s.pb, !.pb = FALSE]
         ELSE IF ch = BSL THEN [s EXCEPT !.m = "esc", !.pb = FALSE]
         ELSE IF ch < 32 THEN [s EXCEPT !.bad = TRUE]  \* raw control character inside a string
         ELSE [s EXCEPT !.cur = s.cur \o Units(ch), !.pb = FALSE]
  ELSE IF s.m = "esc" THEN
         IF ch \in DOMAIN EscMap THEN [s EXCEPT !.m = "str", !.cur = Append(s.cur, EscMap[ch]), !.pb = (ch = BSL)]
         ELSE IF ch = 117 THEN [s EXCEPT !.m = "hex", !.hex = 0, !.hn = 0]
         ELSE [s EXCEPT !.bad = TRUE]
  ELSE (* "hex" *)
         IF HexVal(ch) < 0 THEN [s EXCEPT !.bad = TRUE]
         ELSE IF s.hn = 3 THEN [s EXCEPT !.m = "str", !.cur = Append(s.cur, s.hex * 16 + HexVal(ch)),
                                         !.hex = 0, !.hn = 0]
         ELSE [s EXCEPT !.hex = s.hex * 16 + HexVal(ch), !.hn = s.hn + 1]

Lex(text) == FoldLeft(LexStep, LexInit, text)

LexWF(s)   == ~s.bad /\ s.m \in {"out", "lit"}       \* lexically well-formed, every string closed
LexToks(s) == CloseLit(s)

(* total: an ill-formed text decodes to [ok |-> FALSE, toks |-> <<>>] *)
DecodeOf(s)  == IF LexWF(s) THEN [ok |-> TRUE, toks |-> LexToks(s)] ELSE [ok |-> FALSE, toks |-> <<>>]
Decode(text) == DecodeOf(Lex(text))

(* ------------------------------------------------------------------------ *)
(* JSON values (uniform records so that TLC can put them in one set):        *)
(*   "s" string  s = code points        "i" integer n >= 0                    *)
(*   "T" "F" "N" true false null        "a" array   a = elements              *)
(*   "o" object  a = members  [t |-> "m", s |-> key, a |-> <<value>>]         *)
(*               (keys strictly increasing: the order Go's encoder emits)     *)
(*   "r" array of n copies of a[1]                                            *)
(* ValToks(v) = the token sequence of any JSON text denoting v.               *)
V(t, s, n, a) == [t |-> t, s |-> s, n |-> n, a |-> a]
VStr(s)  == V("s", s, 0, <<>>)
VInt(n)  == V("i", <<>>, n, <<>>)
VLit(t)  == V(t, <<>>, 0, <<>>)
VArr(a)  == V("a", <<>>, 0, a)
VMem(k, v) == V("m", k, 0, <<v>>)
VObj(ms) == V("o", <<>>, 0, ms)
VRep(n, v) == V("r", <<>>, n, <<v>>)

U16(cps) == FoldLeft(LAMBDA acc, cp : acc \o Units(cp), <<>>, cps)

RECURSIVE DigitsOf(_)
DigitsOf(n) == IF n < 10 THEN <<48 + n>> ELSE Append(DigitsOf(n \div 10), 48 + (n % 10))

Punct(c) == Tok("p", <<c>>)

(* <<x1, x2, ...>> (token sequences) joined with commas *)
JoinComma(seqs) ==
  FoldLeft(LAMBDA acc, i : IF i = 1 THEN seqs[i] ELSE acc \o <<Punct(44)>> \o seqs[i],
           <<>>, [i \in 1..Len(seqs) |-> i])

RECURSIVE ValToks(_)
ValToks(v) ==
  CASE v.t = "s" -> <<Tok("s", U16(v.s))>>
    [] v.t = "i" -> <<Tok("l", DigitsOf(v.n))>>
    [] v.t = "T" -> <<Tok("l", <<116, 114, 117, 101>>)>>
    [] v.t = "F" -> <<Tok("l", <<102, 97, 108, 115, 101>>)>>
    [] v.t = "N" -> <<Tok("l", <<110, 117, 108, 108>>)>>
    [] v.t = "a" -> <<Punct(91)>> \o JoinComma([i \in 1..Len(v.a) |-> ValToks(v.a[i])]) \o <<Punct(93)>>
    [] v.t = "r" -> <<Punct(91)>> \o JoinComma([i \in 1..v.n |-> ValToks(v.a[1])]) \o <<Punct(93)>>
    [] v.t = "o" -> <<Punct(123)>>
                    \o JoinComma([i \in 1..Len(v.a) |->
                                   <<Tok("s", U16(v.a[i].s)), Punct(58)>> \o ValToks(v.a[i].a[1])])
                    \o <<Punct(125)>>

(* ------------------------------------------------------------------------ *)
(* The HTTP client of a response.  h: the Content-Encoding header it got,     *)
(* kind: what the bytes on the wire really are, acc: whether its request      *)
(* offered gzip.  It gunzips iff the header says gzip - which only works on   *)
(* gzip bytes and only if it is a client that offered gzip - and otherwise    *)
(* reads the bytes as they are.                                               *)
ClientCanDecode(h, kind, acc) ==
  IF h = "gzip" THEN acc /\ kind = "gzip"
  ELSE h = "" /\ kind = "plain"

(* Accept-Encoding headers used by the generated requests: does it offer gzip *)
(* (RFC 9110: listed with q > 0, or covered by "*")                           *)
Offers == ("" :> FALSE) @@ ("gzip" :> TRUE) @@ ("gzip;q=0" :> FALSE) @@ ("br, gzip;q=0.5" :> TRUE)
          @@ ("identity" :> FALSE) @@ ("*" :> TRUE) @@ ("*, gzip;q=0" :> FALSE)
=============================================================================

SPECIFICATION CSpec
CONSTANTS
  Procs = {"p1", "p2"}
  Impl = "pooled"
INVARIANTS OwnValue
CHECK_DEADLOCK FALSE

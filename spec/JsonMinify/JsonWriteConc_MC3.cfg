SPECIFICATION CSpec
CONSTANTS
  Procs = {"p1", "p2", "p3"}
  Impl = "fixed"
INVARIANTS OwnValue
CHECK_DEADLOCK FALSE

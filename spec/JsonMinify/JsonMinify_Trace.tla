-------------------------- MODULE JsonMinify_Trace --------------------------
(* Binding F, level A: every (input, output) pair logged from the real       *)
(* egostrings.JSONMinify is judged by the contract                            *)
(*      WFIn(in)  =>  out is UTF-8 /\ Decode(out) = Decode(in)                *)
(* i.e. what the server sends decodes to exactly what the handler produced.   *)
(* Texts are sequences of Unicode code points.  One record per step; failing  *)
(* records are accumulated with the abstract identity of the case.            *)
EXTENDS JsonLex, Json

VARIABLES i, bad, skipped

Log == ndJsonDeserialize("io.ndjson")
N   == Len(Log)

(* domain of the property: non-empty lexically well-formed JSON text *)
WFIn(lx) == LexWF(lx)

Post(lx, r) == r.utf8 /\ Decode(r.out) = DecodeOf(lx)

(* abstract identity of a failing case: how the decoded output differs, and   *)
(* whether the input has a string ending in an escaped backslash              *)
RECURSIVE FirstDiff(_, _, _)
FirstDiff(a, b, k) == IF k > Len(a) \/ k > Len(b) THEN 0
                      ELSE IF a[k] # b[k] THEN k ELSE FirstDiff(a, b, k + 1)
Kind(lx, out) ==
  LET d == Decode(out)
      t == LexToks(lx)
      k == FirstDiff(t, d.toks, 1)
  IN IF ~d.ok THEN "output-not-json"
     ELSE IF k = 0 THEN "token-count"
     ELSE IF t[k].t = "s" /\ d.toks[k].t = "s" THEN "string-content"
     ELSE "structure"
Key(lx, out) == "minify/" \o Kind(lx, out) \o "/"
                \o (IF lx.eq THEN "string-ends-in-escaped-backslash" ELSE "other-input")

TInit == i = 1 /\ bad = {} /\ skipped = 0
TNext == /\ i <= N
         /\ i' = i + 1
         /\ LET r  == Log[i]
                lx == Lex(r.in)
            IN IF ~WFIn(lx) THEN skipped' = skipped + 1 /\ bad' = bad
               ELSE /\ skipped' = skipped
                    /\ bad' = IF Post(lx, r) THEN bad
                              ELSE bad \cup {[idx |-> i, key |-> Key(lx, r.out)]}
TSpec == TInit /\ [][TNext]_<<i, bad, skipped>>

Report == i <= N \/ PrintT(ToJson([n |-> N, skipped |-> skipped, bad |-> bad]))
=============================================================================

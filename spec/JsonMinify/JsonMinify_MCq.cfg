\* bounded, direct: every text over Alphabet up to MaxLen that is (a prefix of) well-formed JSON
SPECIFICATION Spec
CONSTANTS
  Alphabet = {34, 92, 32, 160, 44, 97, 110, 117}
  MaxLen = 5
  Impl = "fixed"
INVARIANTS DecodesSame Minimal Shrinks FoldsAgree Sync
PROPERTIES WriteRule
CHECK_DEADLOCK FALSE

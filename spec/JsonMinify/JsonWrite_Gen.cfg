SPECIFICATION GSpec
CONSTANTS
  Tier = "quick"
INVARIANTS Emit
CHECK_DEADLOCK FALSE

SPECIFICATION CSpec
CONSTANTS
  Procs = {"p1", "p2"}
  Impl = "fixed"
INVARIANTS OwnValue
CHECK_DEADLOCK FALSE

SPECIFICATION WSpec
CONSTANTS
  Sizes = {0, 15, 16, 17, 5000}
  Thresholds = {0, 16, 4096}
  Impl = "fixed"
INVARIANTS Decodable
CHECK_DEADLOCK FALSE

--------------------------- MODULE JsonMinify_Gen ---------------------------
(* Input generator for binding F: prints every well-formed text the          *)
(* JsonMinify machine reaches (exhaustive BFS: `in` is part of the state, so  *)
(* every text is its own state; or -simulate for long random texts).          *)
EXTENDS JsonMinify, Json

Emit == ~WF \/ PrintT(ToJson(in))
=============================================================================

\* bounded, direct, longer texts over the characters the two scanners distinguish
SPECIFICATION Spec
CONSTANTS
  Alphabet = {34, 92, 32, 160, 110}
  MaxLen = 9
  Impl = "fixed"
INVARIANTS DecodesSame Minimal Shrinks Sync
CHECK_DEADLOCK FALSE

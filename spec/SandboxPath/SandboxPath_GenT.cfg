INIT GenInit
NEXT GenNext
CONSTANTS
  KL = 250
  KS = 3
  MaxLen = 4
INVARIANTS Emit
CHECK_DEADLOCK FALSE

INIT GenInit
NEXT GenNext
CONSTANTS
  KL = 500
  KS = 12
  MaxLen = 4
INVARIANTS Emit
CHECK_DEADLOCK FALSE

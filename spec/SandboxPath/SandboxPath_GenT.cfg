INIT GenInit
NEXT GenNext
CONSTANTS
  KL = 600
  KS = 14
  MaxLen = 4
INVARIANTS Emit
CHECK_DEADLOCK FALSE

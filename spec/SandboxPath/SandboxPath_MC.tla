--------------------------- MODULE SandboxPath_MC ---------------------------
(* Model-level check of the design: for EVERY layout of the family and EVERY *)
(* spelling up to MaxLen components after each prefix, every kind of         *)
(* operation applied to the path util.SandboxJoin returns has its effect     *)
(* under the root.  Level 1 states = layouts, level 2 states = (layout,      *)
(* spelling) pairs (two levels only so that TLC's workers share the work).   *)
(* Impl = "asis" is the negative control: TLC must find the dangling-link    *)
(* create (the invariant is not vacuous).                                    *)
EXTENDS SandboxPath

CONSTANTS Impl, MaxLen, Family
VARIABLE c

Small == {y \in Layouts : y.f /\ y.d /\ y.k = 0 /\ y.m \in {0, 2, 4}}
Fam == IF Family = "small" THEN Small ELSE Layouts

MCInit == \E y \in Fam : c = [y |-> y, sp |-> NoT, lvl |-> 1]
MCNext == /\ c.lvl = 1
          /\ \E s \in Spellings(Tails, MaxLen) : c' = [y |-> c.y, sp |-> s, lvl |-> 2]

Safe == c.lvl = 1 \/
        LET fs == FS(c.y)
            p  == Sp(TRUE, SJoin(fs, c.sp, Impl))
        IN /\ Within(p.c)                                     \* the joined path is inside as a string
           /\ \A op \in Ops : Confined(Eff(fs, op, p))        \* and as a place
=============================================================================

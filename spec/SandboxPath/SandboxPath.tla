---------------------------- MODULE SandboxPath ----------------------------
(* C26 - sandboxed programs stay inside the sandbox.                         *)
(*                                                                           *)
(* A file tree (directories, files, symbolic links), POSIX path resolution   *)
(* of a path SPELLING against it (absolute / relative, ".", "..", repeated   *)
(* and trailing separators, symbolic links in any position, dangling links,  *)
(* link loops), the EFFECT LOCATION of each kind of file operation, and the  *)
(* code-shaped model of util.SandboxJoin (lexical join + containment check + *)
(* symlink resolution of the longest existing prefix) in two variants:       *)
(*   Impl = "asis"   what internal/util/sandbox.go does                      *)
(*   Impl = "fixed"  an unresolvable existing prefix is clamped to the root  *)
(*                                                                           *)
(* The universe is a whole file system (the harness runs chroot'ed into it): *)
(*   /a/w/root   the sandbox root          /a/w/out   an outside sibling     *)
(*   /a/w/rootx  another outside sibling (same string prefix as the root)    *)
(* A location is the sequence of names from "/" (no ".", "..", links): the   *)
(* PHYSICAL place of a node.  C26: every effect location of a sandboxed call *)
(* is under /a/w/root (Confined) - or the call has no effect.                *)
EXTENDS Integers, Sequences, FiniteSets, TLC

RootLoc == <<"a", "w", "root">>
OutLoc  == <<"a", "w", "out">>
SibLoc  == <<"a", "w", "rootx">>   \* an outside sibling whose name has the root's name as a string prefix
Budget  == 8      \* symlink expansions before ELOOP (Linux 40, Go 255: all finite chains here are < 4)

Front(s) == SubSeq(s, 1, Len(s) - 1)
Sp(abs, c) == [abs |-> abs, c |-> c]
NoT  == Sp(FALSE, <<>>)
Dir  == [k |-> "dir",  t |-> NoT]
File == [k |-> "file", t |-> NoT]
Link(t) == [k |-> "link", t |-> t]

Within(p) == Len(p) >= Len(RootLoc) /\ SubSeq(p, 1, Len(RootLoc)) = RootLoc

(* ------------------------------------------------------------ layouts *)
(* fixed skeleton; every directory also holds a hidden marker file the     *)
(* harness adds (not modelled as a node: directories are never empty)      *)
Skeleton == (<<>> :> Dir) @@ (<<"a">> :> Dir) @@ (<<"a", "w">> :> Dir) @@ (RootLoc :> Dir) @@ (OutLoc :> Dir)
            @@ (Append(OutLoc, "s") :> File) @@ (Append(OutLoc, "e") :> Dir)
            @@ (SibLoc :> Dir) @@ (Append(SibLoc, "s") :> File)

(* link targets: relative ones are relative to the directory holding the link *)
TL == << Sp(FALSE, <<"f">>), Sp(FALSE, <<"d">>), Sp(FALSE, <<"d", "g">>), Sp(FALSE, <<".">>),
         Sp(FALSE, <<"m">>), Sp(FALSE, <<"l">>), Sp(FALSE, <<"n">>),
         Sp(FALSE, <<"..", "out">>), Sp(FALSE, <<"..", "out", "s">>), Sp(FALSE, <<"..", "out", "n">>),
         Sp(FALSE, <<"..", "out", "e">>), Sp(FALSE, <<"..">>), Sp(FALSE, <<"..", "..", "w", "out", "s">>),
         Sp(TRUE, <<"a", "w", "out">>), Sp(TRUE, <<"a", "w", "out", "s">>), Sp(TRUE, <<"a", "w", "out", "n">>),
         Sp(TRUE, <<"a", "w", "root", "f">>), Sp(TRUE, <<"a", "w", "root", "d">>), Sp(TRUE, <<>>),
         Sp(FALSE, <<"..", "rootx", "s">>) >>
TM == << Sp(FALSE, <<"..", "out", "s">>), Sp(FALSE, <<"..", "out", "n">>), Sp(FALSE, <<"..", "out">>),
         Sp(FALSE, <<"l">>), Sp(FALSE, <<"f">>), Sp(FALSE, <<"d">>) >>
TK == << Sp(FALSE, <<"..", "..", "out", "s">>), Sp(FALSE, <<"..", "f">>), Sp(FALSE, <<"..", "..", "out", "n">>),
         Sp(FALSE, <<"..">>), Sp(FALSE, <<"..", "..", "out">>) >>

(* a layout: f = file root/f ; d = directory root/d with file root/d/g ;   *)
(* k = link root/d/k (0 none) ; l, m = links root/l, root/m (0 none)        *)
Layouts == {y \in [f : BOOLEAN, d : BOOLEAN, k : 0..Len(TK), l : 0..Len(TL), m : 0..Len(TM)] : y.k = 0 \/ y.d}

R(n) == Append(RootLoc, n)
FS(y) == Skeleton
         @@ (IF y.f THEN R("f") :> File ELSE <<>>)
         @@ (IF y.d THEN (R("d") :> Dir) @@ (Append(R("d"), "g") :> File) ELSE <<>>)
         @@ (IF y.k > 0 THEN Append(R("d"), "k") :> Link(TK[y.k]) ELSE <<>>)
         @@ (IF y.l > 0 THEN R("l") :> Link(TL[y.l]) ELSE <<>>)
         @@ (IF y.m > 0 THEN R("m") :> Link(TM[y.m]) ELSE <<>>)

(* ------------------------------------------------------------ POSIX resolution *)
Res(st, loc, ex) == [st |-> st, loc |-> loc, ex |-> ex]

(* st: ok | slash (missing last component followed only by separators) |   *)
(*     enoent | enotdir | eloop ; loc = where resolution ended (for enoent: *)
(* the first missing node) ; ex = the node at loc exists                    *)
RECURSIVE Walk(_, _, _, _, _)
Walk(fs, cur, cs, follow, b) ==
  IF cs = <<>> THEN Res("ok", cur, TRUE)
  ELSE IF fs[cur].k # "dir" THEN Res("enotdir", cur, TRUE)
  ELSE LET c == Head(cs)  rest == Tail(cs) IN
    IF c = "" \/ c = "." THEN Walk(fs, cur, rest, follow, b)
    ELSE IF c = ".." THEN Walk(fs, IF cur = <<>> THEN cur ELSE Front(cur), rest, follow, b)
    ELSE LET ch == Append(cur, c) IN
      IF ch \notin DOMAIN fs
      THEN IF rest = <<>> THEN Res("ok", ch, FALSE)
           ELSE IF \A j \in 1..Len(rest) : rest[j] = "" THEN Res("slash", ch, FALSE)
           ELSE Res("enoent", ch, FALSE)
      ELSE IF fs[ch].k = "link" /\ (rest # <<>> \/ follow)
      THEN IF b = 0 THEN Res("eloop", ch, TRUE)
           ELSE Walk(fs, IF fs[ch].t.abs THEN <<>> ELSE cur, fs[ch].t.c \o rest, follow, b - 1)
      ELSE Walk(fs, ch, rest, follow, b)

(* the harness runs every call with the sandbox root as working directory *)
Start(sp) == IF sp.abs THEN <<>> ELSE RootLoc
Resolve(fs, sp, follow) == Walk(fs, Start(sp), sp.c, follow, Budget)

(* a relative spelling must be a non-empty text that does not start with a separator *)
WFsp(sp) == sp.abs \/ (sp.c # <<>> /\ sp.c[1] # "")

(* ------------------------------------------------------------ effect of an operation *)
Ops == {"read", "write", "mkdir", "list", "stat", "chmod", "remove"}
E(k, loc) == [k |-> k, loc |-> loc]
Children(fs, p) == {q \in DOMAIN fs : Len(q) = Len(p) + 1 /\ SubSeq(q, 1, Len(p)) = p}

(* mkdir never follows a link in the last component, trailing separators or not ("l/" with a dangling l: EEXIST) *)
RECURSIVE TrimSlashes(_)
TrimSlashes(cs) == IF cs # <<>> /\ cs[Len(cs)] = "" THEN TrimSlashes(Front(cs)) ELSE cs

Eff(fs, op, sp) ==
  LET w    == Resolve(fs, IF op = "mkdir" THEN Sp(sp.abs, TrimSlashes(sp.c)) ELSE sp, op \notin {"mkdir", "remove"})
      kind == IF w.st = "ok" /\ w.ex THEN fs[w.loc].k ELSE "none"
  IN CASE op = "read"   -> IF kind = "file" THEN {E("read", w.loc)} ELSE {}
       [] op = "write"  -> IF kind = "file" THEN {E("modify", w.loc)}
                           ELSE IF w.st = "ok" /\ ~w.ex THEN {E("create", w.loc)} ELSE {}
       [] op = "mkdir"  -> IF w.st \in {"ok", "slash"} /\ ~w.ex THEN {E("create", w.loc)} ELSE {}
       [] op = "list"   -> IF kind = "dir"
                           THEN {E("list", w.loc)} \cup {E("stat", q) : q \in {q \in Children(fs, w.loc) : fs[q].k # "link"}}
                           ELSE {}
       [] op = "stat"   -> IF kind \in {"file", "dir"} THEN {E("stat", w.loc)} ELSE {}
       [] op = "chmod"  -> IF kind \in {"file", "dir"} THEN {E("chmod", w.loc)} ELSE {}
       [] op = "remove" -> IF kind \in {"file", "link"} THEN {E("delete", w.loc)} ELSE {}   \* directories are never empty

Confined(effs) == \A e \in effs : Within(e.loc)

(* ------------------------------------------------------------ util.SandboxJoin, code-shaped *)
(* filepath.Clean of an absolute path given as components after "/" *)
RECURSIVE CleanFrom(_, _)
CleanFrom(acc, cs) ==
  IF cs = <<>> THEN acc
  ELSE LET c == Head(cs) IN
       CleanFrom(IF c = "" \/ c = "." THEN acc
                 ELSE IF c = ".." THEN (IF acc = <<>> THEN acc ELSE Front(acc))
                 ELSE Append(acc, c), Tail(cs))

(* the string-level candidate: an absolute path already inside the root is kept, *)
(* anything else is joined onto the root; what still leaves the root is clamped   *)
Candidate(sp) ==
  LET c1 == CleanFrom(<<>>, sp.c)
      j  == CleanFrom(<<>>, RootLoc \o sp.c)
  IN IF sp.abs /\ Within(c1) THEN c1 ELSE IF Within(j) THEN j ELSE RootLoc

LstatOK(fs, p) == LET w == Walk(fs, <<>>, p, FALSE, Budget) IN w.st = "ok" /\ w.ex

(* resolveWithinSandbox: symlinks of the longest existing prefix are resolved *)
(* (filepath.EvalSymlinks) and containment is checked again                   *)
SJoin(fs, sp, impl) ==
  LET cand == Candidate(sp)
      ex   == {k \in 0..Len(cand) : LstatOK(fs, SubSeq(cand, 1, k))}      \* never empty: "/" exists
      n    == CHOOSE k \in ex : \A m \in ex : m <= k                        \* the longest existing prefix
      ev   == Walk(fs, <<>>, SubSeq(cand, 1, n), TRUE, Budget)
  IN IF ~(ev.st = "ok" /\ ev.ex) THEN (IF impl = "asis" THEN cand ELSE RootLoc)
     ELSE IF ~Within(ev.loc) THEN RootLoc
     ELSE ev.loc \o SubSeq(cand, n + 1, Len(cand))

(* what a sandboxed call of an operation does: the operation applied to the joined path *)
SandEff(fs, op, sp, impl) == Eff(fs, op, Sp(TRUE, SJoin(fs, sp, impl)))

(* ------------------------------------------------------------ abstract class of a case *)
(* how the spelling, resolved WITHOUT a sandbox, relates to the root:        *)
(*   inside    ends under the root        error    does not resolve           *)
(*   abs / dotdot   leaves the root as a string (absolute / via "..")         *)
(*   link / dangling  a string inside the root that a symbolic link carries   *)
(*                  outside (to an existing node / to a missing one)          *)
Class(fs, sp) ==
  LET w   == Resolve(fs, sp, TRUE)
      lex == CleanFrom(<<>>, (IF sp.abs THEN <<>> ELSE RootLoc) \o sp.c)
  IN IF w.st \notin {"ok", "slash"} THEN "error"
     ELSE IF Within(w.loc) THEN "inside"
     ELSE IF ~Within(lex) THEN (IF sp.abs THEN "abs" ELSE "dotdot")
     ELSE IF w.ex THEN "link" ELSE "dangling"

(* a directory cycle as sandboxed code sees it: some link inside the root is  *)
(* joined (by either variant) onto a directory that contains it.  Functions  *)
(* that walk directories recursively (io.Expand) never return on such a tree *)
(* - the harness does not call them there.                                   *)
IsPrefix(q, p) == Len(q) <= Len(p) /\ SubSeq(p, 1, Len(q)) = q
Loopy(fs) == \E p \in DOMAIN fs : /\ fs[p].k = "link" /\ Within(p)
                                  /\ \E impl \in {"asis", "fixed"} :
                                       LET q == SJoin(fs, Sp(TRUE, p), impl) IN
                                       q \in DOMAIN fs /\ fs[q].k = "dir" /\ IsPrefix(q, p)

(* ------------------------------------------------------------ spellings *)
Seqs(S, n) == UNION {[1..j -> S] : j \in 0..n}
Prefixes == {Sp(FALSE, <<>>), Sp(TRUE, <<>>), Sp(TRUE, RootLoc), Sp(TRUE, OutLoc), Sp(TRUE, SibLoc), Sp(TRUE, <<"a", "w">>)}
Tails == {"f", "d", "g", "k", "l", "m", "n", "s", "e", "out", "rootx", "..", ".", ""}
(* names worth spelling against a given layout: what exists there, plus the classics *)
Names(fs) == {p[Len(p)] : p \in {p \in DOMAIN fs : Len(p) > 3}} \cup {"n", "out", "rootx", "..", ".", ""}
Spellings(T, n) == {s \in {Sp(p.abs, p.c \o t) : p \in Prefixes, t \in Seqs(T, n)} : WFsp(s)}
=============================================================================

INIT GenInit
NEXT GenNext
CONSTANTS
  KL = 50
  KS = 10
  MaxLen = 3
INVARIANTS Emit
CHECK_DEADLOCK FALSE

INIT GenInit
NEXT GenNext
CONSTANTS
  KL = 9
  KS = 2
  MaxLen = 3
INVARIANTS Emit
CHECK_DEADLOCK FALSE

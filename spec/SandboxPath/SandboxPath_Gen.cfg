INIT GenInit
NEXT GenNext
CONSTANTS
  KL = 9
  KS = 6
  MaxLen = 2
INVARIANTS Emit
CHECK_DEADLOCK FALSE

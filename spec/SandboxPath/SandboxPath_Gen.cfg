INIT GenInit
NEXT GenNext
CONSTANTS
  KL = 16
  KS = 8
  MaxLen = 3
INVARIANTS Emit
CHECK_DEADLOCK FALSE

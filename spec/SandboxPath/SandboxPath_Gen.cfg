INIT GenInit
NEXT GenNext
CONSTANTS
  KL = 9
  KS = 6
  MaxLen = 3
INVARIANTS Emit
CHECK_DEADLOCK FALSE

INIT MCInit
NEXT MCNext
CONSTANTS
  Impl = "asis"
  MaxLen = 1
  Family = "small"
INVARIANTS Safe
CHECK_DEADLOCK FALSE

INIT MCInit
NEXT MCNext
CONSTANTS
  Impl = "fixed"
  MaxLen = 1
  Family = "all"
INVARIANTS Safe
CHECK_DEADLOCK FALSE

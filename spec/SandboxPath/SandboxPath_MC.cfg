INIT MCInit
NEXT MCNext
CONSTANTS
  Impl = "fixed"
  MaxLen = 2
  Family = "all"
INVARIANTS Safe
CHECK_DEADLOCK FALSE

INIT MCInit
NEXT MCNext
CONSTANTS
  Impl = "fixed"
  MaxLen = 2
  Family = "small"
INVARIANTS Safe
CHECK_DEADLOCK FALSE

--------------------------- MODULE SandboxPath_Gen ---------------------------
(* Case generator for binding F.  Every initial state is one (layout,        *)
(* spelling) pair: the whole file tree as a set of nodes (the harness builds *)
(* it), the spelling, and the abstract class of the pair.  Layouts: the      *)
(* one-link core family MustL plus KL pseudo-random ones (all when KL is     *)
(* large enough); per layout the classic spellings MustS plus KS random ones *)
(* of every length up to MaxLen over the names that exist in that layout     *)
(* (TLC -seed = VERIF_SEED).                                                 *)
EXTENDS SandboxPath, Json, Randomization

CONSTANTS KL, KS, MaxLen
VARIABLE c

MustL == {y \in Layouts : y.f /\ y.d /\ y.k = 0 /\ y.m = 0}
PickL == IF KL >= Cardinality(Layouts) THEN Layouts ELSE MustL \cup RandomSubset(KL, Layouts)

MustS == { Sp(FALSE, <<"l">>), Sp(FALSE, <<"l", "s">>), Sp(FALSE, <<"l", "n">>), Sp(FALSE, <<"l", "">>),
           Sp(FALSE, <<"l", "..", "s">>), Sp(FALSE, <<"..", "out", "s">>), Sp(FALSE, <<"..", "out", "n">>),
           Sp(FALSE, <<"d", "..", "..", "out">>), Sp(FALSE, <<"..", "rootx", "s">>),
           Sp(TRUE, <<"a", "w", "out", "s">>), Sp(TRUE, <<"a", "w", "out", "n">>), Sp(TRUE, <<"a", "w", "rootx", "s">>),
           Sp(TRUE, <<"a", "w", "root", "l">>), Sp(TRUE, <<"a", "w", "root", "l", "s">>), Sp(TRUE, <<"a", "w", "root", "l", "n">>),
           Sp(TRUE, <<"a", "w", "root", "..", "out", "s">>), Sp(TRUE, <<"", "a", "w", "out", "", "s">>), Sp(TRUE, <<"f">>),
           Sp(FALSE, <<"f">>), Sp(FALSE, <<"n">>), Sp(FALSE, <<"d", "g">>), Sp(FALSE, <<".">>) }
(* KS random (prefix, tail) pairs for every tail length 1..MaxLen (drawn from the record/function *)
(* sets directly, which TLC samples without enumerating them)                                   *)
PickS(fs) == LET T == Names(fs)
                 RS == UNION {RandomSubset(KS, [p : Prefixes, t : [1..j -> T]]) : j \in 1..MaxLen}
             IN MustS \cup {s \in {Sp(x.p.abs, x.p.c \o x.t) : x \in RS} : WFsp(s)}

Nodes(fs) == {[p |-> p, k |-> fs[p].k, ta |-> fs[p].t.abs, tc |-> fs[p].t.c] : p \in DOMAIN fs}

GenInit == \E y \in PickL : LET fs == FS(y) IN
           \E s \in PickS(fs) : c = [y |-> y, nodes |-> Nodes(fs), sp |-> s, cls |-> Class(fs, s), loopy |-> Loopy(fs)]
GenNext == UNCHANGED c
Emit == PrintT(ToJson(c))
=============================================================================

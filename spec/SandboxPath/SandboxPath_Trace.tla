-------------------------- MODULE SandboxPath_Trace --------------------------
(* Binding F: judges what the real interpreter did, one record per generated *)
(* case (io.ndjson), against C26.                                            *)
(*   m = "sand"   the calls ran SANDBOXED (Context.Sandboxed(true), sandbox  *)
(*                path = the root).  groups = the distinct effect sets that  *)
(*                were observed with the functions that produced each        *)
(*                (effects: create / modify / delete / chmod of a physical   *)
(*                location seen in a before/after snapshot of the whole      *)
(*                universe; read / list / stat = a marked content, hidden    *)
(*                entry name, size or time of the node at that location came *)
(*                back to the program).                                      *)
(*                Contract (Post): every effect location is under the root.  *)
(*   m = "sys"    the same, observed with strace: the successful path        *)
(*                system calls made while the call ran (lstat/readlink, by   *)
(*                which the containment check itself probes, excluded).      *)
(*                Contract: the place each path resolves to (Resolve below,  *)
(*                against the case's tree) is under the root.                *)
(*   m = "plain"  calibration of THIS SPEC and of the harness' observation,  *)
(*                never a verdict on the code: the same calls WITHOUT a      *)
(*                sandbox must have exactly the effects Eff predicts from    *)
(*                POSIX resolution (core functions only).  Mismatches are    *)
(*                reported as calbad -> the check gives no verdict.          *)
(* Key = function#position / kinds of outside effects / Class of the case:   *)
(* the abstract identity of a violation (computed here).                     *)
(* Diagnostics (not part of the verdict): with which SandboxJoin model       *)
(* ("asis", "fixed") the sandboxed core calls of every 4th record agree.     *)
EXTENDS SandboxPath, Json

VARIABLES i, bad, calbad, cnt, classes

Log == ndJsonDeserialize("io.ndjson")
N == Len(Log)

FsOf(ns) == [p \in {ns[j].p : j \in 1..Len(ns)} |->
               LET j == CHOOSE j \in 1..Len(ns) : ns[j].p = p IN [k |-> ns[j].k, t |-> Sp(ns[j].ta, ns[j].tc)]]
EffSet(es) == {E(es[j].k, es[j].loc) : j \in 1..Len(es)}
SpOf(r) == Sp(r.sp.abs, r.sp.c)
Range(s) == {s[j] : j \in 1..Len(s)}

(* operation kind of the functions whose effect the spec predicts *)
CoreOp == [x \in {"os.ReadFile#0", "json.ReadFile#0", "os.WriteFile#0", "json.WriteFile#0", "os.Mkdir#0",
                  "io.ReadDir#0", "os.Stat#0", "os.Chmod#0", "os.Remove#0"} |->
           CASE x \in {"os.ReadFile#0", "json.ReadFile#0"} -> "read"
             [] x \in {"os.WriteFile#0", "json.WriteFile#0"} -> "write"
             [] x = "os.Mkdir#0" -> "mkdir" [] x = "io.ReadDir#0" -> "list" [] x = "os.Stat#0" -> "stat"
             [] x = "os.Chmod#0" -> "chmod" [] x = "os.Remove#0" -> "remove"]

(* ---- domain: the record describes a case of the spec's universe ---- *)
WF(r) == /\ r.m \in {"sand", "plain", "sys"}
         /\ LET fs == FsOf(r.nodes) IN
            /\ <<>> \in DOMAIN fs /\ RootLoc \in DOMAIN fs /\ fs[RootLoc].k = "dir"
            /\ \A p \in DOMAIN fs : p = <<>> \/ (Front(p) \in DOMAIN fs /\ fs[Front(p)].k = "dir")
         /\ WFsp(SpOf(r))

(* ---- where the paths of a call's system calls land (sys records) ---- *)
(* The calls are replayed in order against the tree the case started from:  *)
(* what a successful unlink / mkdir / creating open did to the tree is      *)
(* applied before the next path is resolved (io.Open removes a link and     *)
(* then creates a file under the same name).  A path through a node that is *)
(* still unknown stops at that node (enoent/slash): that place is judged.   *)
Under(loc, q) == IsPrefix(loc, q)
SysStep(fs, s) ==
  LET loc == Walk(fs, IF s.abs THEN <<>> ELSE RootLoc, s.c, s.fol, Budget).loc
      parentOK == loc # <<>> /\ Front(loc) \in DOMAIN fs /\ fs[Front(loc)].k = "dir"
      fs2 == IF s.sc \in {"unlink", "unlinkat", "rmdir"} /\ loc \in DOMAIN fs /\ loc # <<>>
             THEN [p \in {q \in DOMAIN fs : ~Under(loc, q)} |-> fs[p]]
             ELSE IF s.sc \in {"mkdir", "mkdirat"} /\ loc \notin DOMAIN fs /\ parentOK THEN fs @@ (loc :> Dir)
             ELSE IF s.cr /\ loc \notin DOMAIN fs /\ parentOK THEN fs @@ (loc :> File)
             ELSE fs
  IN [fs |-> fs2, e |-> E("sys:" \o s.sc, loc)]
RECURSIVE SysRun(_, _, _)
SysRun(fs, ss, acc) == IF ss = <<>> THEN acc
                       ELSE LET st == SysStep(fs, Head(ss)) IN SysRun(st.fs, Tail(ss), acc \cup {st.e})
SysEffs(fs, c) == SysRun(fs, c.sys, {})

Outside(effs) == {e \in effs : ~Within(e.loc)}

KindOrder == <<"read", "list", "stat", "create", "modify", "delete", "chmod">>
KindsText(effs) ==
  LET ks == {e.k : e \in effs}
      F[j \in 0..Len(KindOrder)] == IF j = 0 THEN ""
                                    ELSE IF KindOrder[j] \in ks THEN F[j - 1] \o (IF F[j - 1] = "" THEN "" ELSE "+") \o KindOrder[j]
                                    ELSE F[j - 1]
      sys == {k \in ks : k \notin Range(KindOrder)}
  IN IF sys = {} THEN F[Len(KindOrder)] ELSE (IF F[Len(KindOrder)] = "" THEN "" ELSE F[Len(KindOrder)] \o "+") \o "sys"

(* the (function, effect set) pairs of a record *)
Pairs(r, fs) ==
  IF r.m = "sys" THEN {[fn |-> r.calls[j].fn, e |-> SysEffs(fs, r.calls[j])] : j \in 1..Len(r.calls)}
  ELSE UNION {{[fn |-> f, e |-> EffSet(r.groups[j].e)] : f \in Range(r.groups[j].fns)} : j \in 1..Len(r.groups)}

Key(pr, cls) == pr.fn \o "/" \o KindsText(Outside(pr.e)) \o "/" \o cls

AddBad(b, ks, idx) ==
  LET new == ks \ DOMAIN b IN
  [k \in DOMAIN b \cup ks |-> IF k \in DOMAIN b THEN (IF k \in ks THEN [b[k] EXCEPT !.n = @ + 1] ELSE b[k])
                              ELSE [idx |-> idx, n |-> 1]]

TInit == /\ i = 1 /\ bad = <<>> /\ calbad = {} /\ classes = {}
         /\ cnt = [judged |-> 0, skipped |-> 0, pairs |-> 0, inside |-> 0, outside |-> 0, cal |-> 0, calok |-> 0,
                   core |-> 0, asis |-> 0, fixed |-> 0, sys |-> 0]

TNext ==
  /\ i <= N
  /\ i' = i + 1
  /\ LET r == Log[i] IN
     IF ~WF(r) THEN /\ cnt' = [cnt EXCEPT !.skipped = @ + 1] /\ UNCHANGED <<bad, calbad, classes>>
     ELSE
     LET fs  == FsOf(r.nodes)
         sp  == SpOf(r)
         cls == Class(fs, sp)
     IN IF r.m = "plain"
        THEN LET wrong == {j \in 1..Len(r.core) : r.core[j].fn \in DOMAIN CoreOp
                                                  /\ EffSet(r.core[j].e) # Eff(fs, CoreOp[r.core[j].fn], sp)}
             IN /\ calbad' = IF Cardinality(calbad) < 20
                             THEN calbad \cup {[idx |-> i, fn |-> r.core[j].fn, want |-> Eff(fs, CoreOp[r.core[j].fn], sp)] : j \in wrong}
                             ELSE calbad
                /\ cnt' = [cnt EXCEPT !.cal = @ + Len(r.core), !.calok = @ + Len(r.core) - Cardinality(wrong)]
                /\ UNCHANGED <<bad, classes>>
        ELSE LET prs  == Pairs(r, fs)
                 viol == {pr \in prs : ~Confined(pr.e)}
                 \* diagnostics on every 4th sandboxed record only (evaluating both models is the costly part)
                 cores == IF r.m = "sand" /\ i % 4 = 1 THEN {j \in 1..Len(r.core) : r.core[j].fn \in DOMAIN CoreOp} ELSE {}
                 agree(impl) == Cardinality({j \in cores : EffSet(r.core[j].e) = SandEff(fs, CoreOp[r.core[j].fn], sp, impl)})
             IN /\ bad' = IF viol = {} THEN bad ELSE AddBad(bad, {Key(pr, cls) : pr \in viol}, i)
                /\ classes' = classes \cup {cls}
                /\ cnt' = [cnt EXCEPT !.judged = @ + 1, !.pairs = @ + Cardinality(prs),
                                      !.inside = @ + Cardinality({pr \in prs : pr.e # {} /\ Confined(pr.e)}),
                                      !.outside = @ + Cardinality(viol),
                                      !.core = @ + Cardinality(cores), !.asis = @ + agree("asis"), !.fixed = @ + agree("fixed"),
                                      !.sys = @ + (IF r.m = "sys" THEN 1 ELSE 0)]
                /\ UNCHANGED calbad
TSpec == TInit /\ [][TNext]_<<i, bad, calbad, cnt, classes>>

Report == i <= N \/ PrintT(ToJson([n |-> N, bad |-> {[key |-> k, idx |-> bad[k].idx, count |-> bad[k].n] : k \in DOMAIN bad},
                                    calbad |-> calbad, cnt |-> cnt, classes |-> classes]))
=============================================================================

SPECIFICATION Spec
CONSTANTS
  Names <- NamesAB
  DeclF = {"var","let","const"}
  DstrF = {"obj","objdef","objkey","arr"}
  RefF = {"plain","tmpl","ntmpl","short","set","dot","optdot","key","method","getter","cls","regex","str"}
  FnF = {"decl","iife","arrow"}
  Defaults = TRUE
  NoParam = TRUE
  Others = {"blk","catch","for"}
  MaxItems = 3
  MaxDepth = 2
  Impl = "scoped"
INVARIANTS ModelKeeps Emit
CHECK_DEADLOCK FALSE

\* bounded, direct (the check writes its own variants of this file: see checks/C33.py `jobs`):
\* every program over {a,b} x var/let x plain reference x function declaration/expression x block up to 4 items;
\* the name-keyed discipline of the proposed repairs ("careful") keeps the contract.  Module JsScopes_Gen.
SPECIFICATION Spec
CONSTANTS
  Names <- NamesAB
  DeclF = {"var","let"}
  DstrF = {}
  RefF = {"plain"}
  TopRefF = {"plain"}
  TopDecl = TRUE
  FnF = {"decl","iife"}
  Defaults = FALSE
  NoParam = FALSE
  Others = {"blk"}
  MaxItems = 4
  MaxDepth = 2
  Impl = "careful"
INVARIANTS ModelKeeps
CHECK_DEADLOCK FALSE
